(* Proofs about the model of identifiers.py (Model/Ident.v), for every string, every avoid set and every
   instance of the library oracles that behaves on ASCII as stated in the Section hypotheses below. *)
From Coq Require Import ZArith List Bool Lia DecimalZ DecimalPos FinFun ZifyBool.
Import ListNotations.
Require Import Grist.Model.Ident.
Open Scope Z_scope.

(* ---- strings, membership ---------------------------------------------------------------------- *)
Lemma str_eqb_eq : forall a b, str_eqb a b = true <-> a = b.
Proof.
  induction a as [|x a IH]; destruct b as [|y b]; cbn [str_eqb]; split; intros H;
    try reflexivity; try discriminate.
  - apply andb_true_iff in H. destruct H as [H1 H2]. apply Z.eqb_eq in H1. apply IH in H2. congruence.
  - inversion H; subst. rewrite Z.eqb_refl. cbn. apply IH. reflexivity.
Qed.

Lemma mem_In : forall s l, mem s l = true <-> In s l.
Proof.
  intros s l. unfold mem. rewrite existsb_exists. split.
  - intros [x [Hin He]]. apply str_eqb_eq in He. subst. exact Hin.
  - intros Hin. exists s. split; [exact Hin|]. apply str_eqb_eq. reflexivity.
Qed.

Lemma mem_false : forall s l, mem s l = false <-> ~ In s l.
Proof.
  intros s l. rewrite <- mem_In. destruct (mem s l); split; intros H.
  - discriminate H.
  - exfalso. apply H. reflexivity.
  - intros H'. discriminate H'.
  - reflexivity.
Qed.

(* ---- character classes ------------------------------------------------------------------------ *)
Ltac cls := unfold is_ident_char, is_letter, is_lower, is_upper, is_digit, is_ascii in *.

Lemma letter_ident : forall c, is_letter c = true -> is_ident_char c = true.
Proof. intros c. cls. lia. Qed.
Lemma upper_letter : forall c, is_upper c = true -> is_letter c = true.
Proof. intros c. cls. lia. Qed.
Lemma digit_ident : forall c, is_digit c = true -> is_ident_char c = true.
Proof. intros c. cls. lia. Qed.
Lemma ident_ascii : forall c, is_ident_char c = true -> is_ascii c = true.
Proof. intros c. cls. lia. Qed.
Lemma ascii_upper_letter : forall c, is_letter c = true -> is_upper (ascii_upper c) = true.
Proof. intros c. unfold ascii_upper. destruct (is_lower c) eqn:E; cls; lia. Qed.
Lemma ascii_upper_upper : forall c, is_upper c = true -> ascii_upper c = c.
Proof. intros c H. unfold ascii_upper. destruct (is_lower c) eqn:E; [cls; lia|reflexivity]. Qed.
Lemma ascii_upper_ascii : forall c, is_ascii c = true -> is_ascii (ascii_upper c) = true.
Proof. intros c. unfold ascii_upper. destruct (is_lower c) eqn:E; cls; lia. Qed.
Lemma ascii_upper_idem : forall c, ascii_upper (ascii_upper c) = ascii_upper c.
Proof.
  intros c. unfold ascii_upper. destruct (is_lower c) eqn:E; [|rewrite E; reflexivity].
  destruct (is_lower (c - 32)) eqn:E2; [cls; lia|reflexivity].
Qed.
Lemma ascii_upper_ident : forall c, is_ident_char c = true -> is_ident_char (ascii_upper c) = true.
Proof. intros c. unfold ascii_upper. destruct (is_lower c) eqn:E; cls; lia. Qed.

Lemma forallb_imp : forall (p q : Z -> bool) l,
  (forall c, p c = true -> q c = true) -> forallb p l = true -> forallb q l = true.
Proof.
  intros p q l H. rewrite !forallb_forall. intros Hl x Hx. apply H. apply Hl. exact Hx.
Qed.

Lemma valid_ident_chars : forall s, valid_identb s = true -> forallb is_ident_char s = true.
Proof.
  intros [|c t] H; [discriminate|]. cbn in *. apply andb_true_iff in H. destruct H as [H1 H2].
  rewrite (letter_ident _ H1). exact H2.
Qed.
Lemma valid_ident_ascii : forall s, valid_identb s = true -> forallb is_ascii s = true.
Proof. intros s H. eapply forallb_imp; [exact ident_ascii|]. apply valid_ident_chars. exact H. Qed.
Lemma valid_table_valid : forall s, valid_table_identb s = true -> valid_identb s = true.
Proof.
  intros [|c t] H; [discriminate|]. cbn in *. apply andb_true_iff in H. destruct H as [H1 H2].
  rewrite (upper_letter _ H1). exact H2.
Qed.
Lemma valid_app : forall a b, valid_identb a = true -> forallb is_ident_char b = true ->
  valid_identb (a ++ b) = true.
Proof.
  intros [|c t] b Ha Hb; [discriminate|]. cbn in *. apply andb_true_iff in Ha. destruct Ha as [H1 H2].
  rewrite H1, forallb_app, H2, Hb. reflexivity.
Qed.
Lemma valid_table_app : forall a b, valid_table_identb a = true -> forallb is_ident_char b = true ->
  valid_table_identb (a ++ b) = true.
Proof.
  intros [|c t] b Ha Hb; [discriminate|]. cbn in *. apply andb_true_iff in Ha. destruct Ha as [H1 H2].
  rewrite H1, forallb_app, H2, Hb. reflexivity.
Qed.

(* ---- "%d" ---------------------------------------------------------------------------------------- *)
Lemma uint_codes_inj : forall u v, uint_codes u = uint_codes v -> u = v.
Proof.
  induction u as [|u IH|u IH|u IH|u IH|u IH|u IH|u IH|u IH|u IH|u IH]; destruct v; cbn [uint_codes];
    intros H; try discriminate H; try reflexivity; inversion H as [H']; f_equal; apply IH; exact H'.
Qed.
Lemma uint_codes_digits : forall u, forallb is_digit (uint_codes u) = true.
Proof. induction u; cbn [uint_codes forallb]; try reflexivity; rewrite IHu; reflexivity. Qed.
Lemma uint_codes_head : forall u t, uint_codes u <> 45 :: t.
Proof. destruct u; cbn [uint_codes]; intros t H; discriminate H. Qed.

Lemma dec_inj : forall a b, dec a = dec b -> a = b.
Proof.
  intros a b H. rewrite <- (DecimalZ.of_to a), <- (DecimalZ.of_to b). f_equal.
  unfold dec in H. destruct (Z.to_int a) as [u|u], (Z.to_int b) as [v|v].
  - f_equal. apply uint_codes_inj. exact H.
  - exfalso. eapply uint_codes_head. exact H.
  - exfalso. eapply uint_codes_head. symmetry. exact H.
  - f_equal. apply uint_codes_inj. inversion H. reflexivity.
Qed.

Lemma dec_pos_digits : forall k, 0 < k -> forallb is_digit (dec k) = true /\ dec k <> [].
Proof.
  intros k Hk. destruct k as [|p|p]; try lia. unfold dec. cbn [Z.to_int]. split.
  - apply uint_codes_digits.
  - pose proof (Unsigned.to_uint_nonnil p) as Hn. destruct (Pos.to_uint p); cbn [uint_codes];
      try discriminate. congruence.
Qed.

Definition plain (c : Z) : bool := is_ascii c && negb (is_lower c).
Lemma dec_plain : forall k, forallb plain (dec k) = true.
Proof.
  intros k. assert (H : forall u, forallb plain (uint_codes u) = true).
  { intros u. eapply forallb_imp; [|apply uint_codes_digits]. intros c. unfold plain. cls. lia. }
  unfold dec. destruct (Z.to_int k); [apply H|]. cbn [forallb]. rewrite H. reflexivity.
Qed.

Lemma last_is_digit_app : forall a b, b <> [] -> forallb is_digit b = true -> last_is_digit (a ++ b) = true.
Proof.
  intros a b Hb Hd. unfold last_is_digit. rewrite rev_app_distr.
  destruct (rev b) as [|d r] eqn:E.
  - exfalso. apply Hb. rewrite <- (rev_involutive b), E. reflexivity.
  - cbn. rewrite forallb_forall in Hd. apply Hd. apply in_rev. rewrite E. left. reflexivity.
Qed.

(* ---- the letter sequence A..Z, AA.. --------------------------------------------------------------- *)
Fixpoint lval (r : str) : Z :=
  match r with
  | [] => 0
  | c :: t => (c - 64) + 26 * lval t
  end.
Fixpoint iter_next (i : nat) (r : str) : str :=
  match i with
  | O => r
  | S i' => iter_next i' (next_letters_rev r)
  end.

Lemma next_upper : forall r, forallb is_upper r = true -> forallb is_upper (next_letters_rev r) = true.
Proof.
  induction r as [|c t IH]; intros H; [reflexivity|].
  cbn [forallb] in H. apply andb_true_iff in H. destruct H as [H1 H2].
  cbn [next_letters_rev]. destruct (c <? 90) eqn:E; cbn [forallb].
  - rewrite H2. cls. lia.
  - rewrite (IH H2). reflexivity.
Qed.
Lemma next_nonempty : forall r, next_letters_rev r <> [].
Proof. destruct r as [|c t]; cbn; [discriminate|]. destruct (c <? 90); discriminate. Qed.
Lemma next_lval : forall r, forallb is_upper r = true -> lval (next_letters_rev r) = lval r + 1.
Proof.
  induction r as [|c t IH]; intros H; [reflexivity|].
  cbn [forallb] in H. apply andb_true_iff in H. destruct H as [H1 H2].
  cbn [next_letters_rev]. destruct (c <? 90) eqn:E; cbn [lval].
  - lia.
  - rewrite (IH H2). cls. lia.
Qed.
Lemma iter_upper : forall i r, forallb is_upper r = true -> forallb is_upper (iter_next i r) = true.
Proof. induction i; intros r H; cbn; [exact H|]. apply IHi. apply next_upper. exact H. Qed.
Lemma iter_lval : forall i r, forallb is_upper r = true -> lval (iter_next i r) = lval r + Z.of_nat i.
Proof.
  induction i; intros r H; cbn [iter_next]; [lia|].
  rewrite IHi by (apply next_upper; exact H). rewrite next_lval by exact H. lia.
Qed.
Lemma iter_inj : forall r, forallb is_upper r = true ->
  Injective (fun i => rev (iter_next i r)).
Proof.
  intros r H i j E. assert (E' : iter_next i r = iter_next j r).
  { rewrite <- (rev_involutive (iter_next i r)), E, rev_involutive. reflexivity. }
  apply (f_equal lval) in E'. rewrite !iter_lval in E' by exact H. lia.
Qed.

(* ---- pigeonhole ----------------------------------------------------------------------------------- *)
Lemma pigeonhole : forall (f : nat -> str) (n : nat) (avoid : list str),
  Injective f -> (forall i, (i < n)%nat -> mem (f i) avoid = true) -> (n <= length avoid)%nat.
Proof.
  intros f n avoid Hinj Hall.
  rewrite <- (seq_length n 0), <- (map_length f).
  apply NoDup_incl_length.
  - apply Injective_map_NoDup; [exact Hinj|apply seq_NoDup].
  - intros x Hx. apply in_map_iff in Hx. destruct Hx as [i [<- Hi]]. apply in_seq in Hi.
    apply mem_In. apply Hall. lia.
Qed.

Lemma forallb_rev : forall (p : Z -> bool) l, forallb p l = true -> forallb p (rev l) = true.
Proof.
  intros p l. rewrite !forallb_forall. intros H x Hx. apply H. apply in_rev. exact Hx.
Qed.

Lemma upper_nonempty_table : forall r, forallb is_upper r = true -> r <> [] -> valid_table_identb r = true.
Proof.
  intros [|c t] H Hn; [congruence|]. cbn in *. apply andb_true_iff in H. destruct H as [H1 H2].
  rewrite H1. cbn. eapply forallb_imp; [|exact H2]. intros x Hx. apply letter_ident, upper_letter, Hx.
Qed.

(* ---- the three regex re-implementations ----------------------------------------------------------- *)
Lemma sub_invalid_chars : forall s b, forallb is_ident_char (sub_invalid b s) = true.
Proof.
  induction s as [|c t IH]; intros b; [reflexivity|]. cbn [sub_invalid].
  destruct (is_ident_char c) eqn:E.
  - cbn [forallb]. rewrite E, IH. reflexivity.
  - destruct b; [apply IH|]. cbn [forallb]. rewrite IH. reflexivity.
Qed.
Lemma sub_invalid_id : forall s b, forallb is_ident_char s = true -> sub_invalid b s = s.
Proof.
  induction s as [|c t IH]; intros b H; [reflexivity|]. cbn [forallb] in H.
  apply andb_true_iff in H. destruct H as [H1 H2]. cbn [sub_invalid]. rewrite H1, IH by exact H2. reflexivity.
Qed.
Lemma lstrip_chars : forall (p : Z -> bool) s, forallb p s = true -> forallb p (lstrip_us s) = true.
Proof.
  induction s as [|c t IH]; intros H; [reflexivity|]. cbn [lstrip_us]. destruct (c =? 95); [|exact H].
  cbn [forallb] in H. apply andb_true_iff in H. apply IH. tauto.
Qed.
Lemma fix_start_valid : forall prefix s, valid_identb prefix = true -> forallb is_ident_char s = true ->
  fix_start prefix s = [] \/ valid_identb (fix_start prefix s) = true.
Proof.
  intros prefix [|c t] Hp Hs; [left; reflexivity|]. right. cbn [fix_start].
  destruct (is_digit c || (c =? 95)) eqn:E.
  - apply valid_app; assumption.
  - cbn [forallb] in Hs. apply andb_true_iff in Hs. destruct Hs as [H1 H2]. cbn [valid_identb].
    rewrite H2. cls. lia.
Qed.

Section Proofs.
  Variable nfkd : str -> str.
  Variable combining : Z -> bool.
  Variable upper_char : Z -> str.
  Variable cap_char : Z -> str.
  Variable udigit : Z -> bool.
  Variable kwlist : list str.

  (* what is assumed about the library on ASCII (each is monitored on the running Python by harness/props/c21.py) *)
  Hypothesis upper_ascii : forall c, is_ascii c = true -> upper_char c = [ascii_upper c].
  Hypothesis cap_ascii : forall c, is_ascii c = true -> cap_char c = [ascii_upper c].
  Hypothesis nfkd_ascii : forall s, forallb is_ascii s = true -> nfkd s = s.
  Hypothesis combining_ascii : forall c, is_ascii c = true -> combining c = false.
  (* str.upper is idempotent (used only by the "batch kept" statement) *)
  Hypothesis upper_idem : forall c, upper upper_char (upper_char c) = upper_char c.
  (* facts about the regenerated keyword list, evaluated in Props/C21.v *)
  Hypothesis kw_ok : kw_facts kwlist = true.

  Local Notation upper := (upper upper_char).
  Local Notation iskeyword := (iskeyword kwlist).
  Local Notation sanitize_ident := (sanitize_ident nfkd combining cap_char kwlist).
  Local Notation suffix_loop := (suffix_loop upper_char).
  Local Notation add_suffix := (add_suffix upper_char udigit).
  Local Notation maybe_add_suffix := (maybe_add_suffix upper_char udigit).
  Local Notation gen_ident := (gen_ident upper_char).
  Local Notation pick_table_ident := (pick_table_ident nfkd combining upper_char cap_char udigit kwlist).
  Local Notation pick_col_ident := (pick_col_ident nfkd combining upper_char cap_char udigit kwlist).
  Local Notation pick_list_loop := (pick_list_loop nfkd combining upper_char cap_char udigit kwlist).
  Local Notation pick_col_ident_list := (pick_col_ident_list nfkd combining upper_char cap_char udigit kwlist).

  (* ---- upper ---- *)
  Lemma upper_app : forall a b, upper (a ++ b) = upper a ++ upper b.
  Proof. intros a b. unfold Ident.upper. apply flat_map_app. Qed.
  Lemma upper_ascii_str : forall s, forallb is_ascii s = true -> upper s = map ascii_upper s.
  Proof.
    induction s as [|c t IH]; intros H; [reflexivity|]. cbn [forallb] in H.
    apply andb_true_iff in H. destruct H as [H1 H2].
    unfold Ident.upper in *. cbn [flat_map map]. rewrite (upper_ascii _ H1), IH by exact H2. reflexivity.
  Qed.
  Lemma upper_plain : forall s, forallb plain s = true -> upper s = s.
  Proof.
    induction s as [|c t IH]; intros H; [reflexivity|]. cbn [forallb] in H.
    apply andb_true_iff in H. destruct H as [H1 H2]. unfold plain in H1.
    apply andb_true_iff in H1. destruct H1 as [Ha Hl].
    unfold Ident.upper in *. cbn [flat_map]. rewrite (upper_ascii _ Ha), IH by exact H2.
    unfold ascii_upper. destruct (is_lower c); [discriminate|reflexivity].
  Qed.
  Lemma map_upper_plain : forall s, forallb is_ascii s = true -> forallb plain (map ascii_upper s) = true.
  Proof.
    induction s as [|c t IH]; intros H; [reflexivity|]. cbn [forallb] in H.
    apply andb_true_iff in H. destruct H as [H1 H2]. cbn [map forallb]. rewrite IH by exact H2.
    rewrite andb_true_r. unfold plain, ascii_upper. destruct (is_lower c) eqn:E; cls; lia.
  Qed.
  Lemma upper_upper_ascii : forall s, forallb is_ascii s = true -> upper (upper s) = upper s.
  Proof. intros s H. rewrite (upper_ascii_str s H). apply upper_plain, map_upper_plain, H. Qed.
  Lemma upper_of_upper_letters : forall r, forallb is_upper r = true -> upper r = r.
  Proof. intros r H. apply upper_plain. eapply forallb_imp; [|exact H]. intros c. unfold plain. cls. lia. Qed.
  Lemma upper_idem_str : forall s, upper (upper s) = upper s.
  Proof.
    induction s as [|c t IH]; [reflexivity|]. change (upper (c :: t)) with (upper_char c ++ upper t).
    rewrite upper_app, IH, upper_idem. reflexivity.
  Qed.

  (* ---- keywords ---- *)
  Lemma kw_fact_in : forall k, iskeyword k = true -> last_is_digit k = false /\ forallb is_upper k = false.
  Proof.
    intros k H. apply mem_In in H. unfold kw_facts in kw_ok. rewrite forallb_forall in kw_ok.
    specialize (kw_ok k H). apply andb_true_iff in kw_ok. destruct kw_ok as [H1 H2].
    apply negb_true_iff in H1, H2. tauto.
  Qed.
  Lemma max_kw_len_ge : forall k, iskeyword k = true -> (length k <= max_kw_len kwlist)%nat.
  Proof.
    intros k H. apply mem_In in H. unfold max_kw_len. clear kw_ok. induction kwlist as [|x l IH]; [contradiction|].
    cbn [fold_right]. destruct H as [->|H]; [lia|]. specialize (IH H). lia.
  Qed.

  Lemma kw_loop_inv : forall (P : str -> Prop) prefix, (forall s, P s -> P (prefix ++ s)) ->
    forall fuel s r, P s -> kw_loop kwlist fuel prefix s = Some r -> P r /\ iskeyword r = false.
  Proof.
    intros P prefix HP. induction fuel as [|f IH]; intros s r Hs H; [discriminate|].
    cbn [kw_loop] in H. destruct (iskeyword s) eqn:E.
    - apply (IH (prefix ++ s)); [apply HP; exact Hs|exact H].
    - inversion H; subst. split; assumption.
  Qed.
  Lemma kw_loop_total : forall prefix, prefix <> [] -> forall fuel s,
    (max_kw_len kwlist + 2 <= length s + fuel)%nat -> (1 <= fuel)%nat -> kw_loop kwlist fuel prefix s <> None.
  Proof.
    intros prefix Hp. induction fuel as [|f IH]; intros s H1 H2; [lia|].
    cbn [kw_loop]. destruct (iskeyword s) eqn:E; [|discriminate].
    apply max_kw_len_ge in E. apply IH.
    - rewrite app_length. destruct prefix; [congruence|]. cbn [length]. lia.
    - lia.
  Qed.

  (* ---- _sanitize_ident ---- *)
  Lemma sanitize_spec : forall i prefix cap, valid_identb prefix = true ->
    exists r, sanitize_ident i prefix cap = Some r /\
      (r = [] \/ (valid_identb r = true /\ iskeyword r = false /\
                  (cap = true -> valid_table_identb prefix = true -> valid_table_identb r = true))).
  Proof.
    intros i prefix cap Hp. unfold Ident.sanitize_ident.
    set (pre := lstrip_us (sub_invalid false (filter (fun c => negb (combining c))
                  (nfkd match i with Some s => s | None => [] end)))).
    assert (Hpre : forallb is_ident_char pre = true) by (apply lstrip_chars, sub_invalid_chars).
    destruct (fix_start_valid prefix pre Hp Hpre) as [E|V].
    - rewrite E. exists []. split; [reflexivity|left; reflexivity].
    - destruct (fix_start prefix pre) as [|c t] eqn:E; [discriminate V|].
      set (s' := if cap then capitalize_first cap_char (c :: t) else c :: t).
      assert (Hs' : valid_identb s' = true /\ (cap = true -> valid_table_identb s' = true)).
      { subst s'. destruct cap; [|split; [exact V|discriminate]].
        cbn [capitalize_first]. cbn [valid_identb] in V. apply andb_true_iff in V. destruct V as [V1 V2].
        rewrite cap_ascii by (apply ident_ascii, letter_ident, V1). cbn [app].
        assert (T : valid_table_identb (ascii_upper c :: t) = true).
        { cbn [valid_table_identb]. rewrite (ascii_upper_letter _ V1), V2. reflexivity. }
        split; [apply valid_table_valid; exact T|intros _; exact T]. }
      destruct Hs' as [Hv Ht].
      assert (Hne : prefix <> []) by (destruct prefix; [discriminate Hp|discriminate]).
      destruct (kw_loop kwlist (S (S (max_kw_len kwlist))) prefix s') as [r|] eqn:K.
      + exists r. split; [reflexivity|]. right.
        destruct (kw_loop_inv (fun s => valid_identb s = true) prefix
                    (fun s Hs => valid_app prefix s Hp (valid_ident_chars s Hs)) _ _ _ Hv K) as [R1 R2].
        split; [exact R1|]. split; [exact R2|]. intros Hc Htp.
        apply (kw_loop_inv (fun s => valid_table_identb s = true) prefix
                 (fun s Hs => valid_table_app prefix s Htp (valid_ident_chars s (valid_table_valid s Hs)))
                 _ _ _ (Ht Hc) K).
      + exfalso. revert K. apply kw_loop_total; [exact Hne|lia|lia].
  Qed.

  Lemma sanitize_kept : forall s prefix cap, valid_identb s = true -> iskeyword s = false ->
    (cap = true -> valid_table_identb s = true) -> sanitize_ident (Some s) prefix cap = Some s.
  Proof using cap_ascii nfkd_ascii combining_ascii.
    try clear kw_ok; try clear upper_idem.
    intros s prefix cap Hv Hk Ht. unfold Ident.sanitize_ident.
    pose proof (valid_ident_ascii s Hv) as Ha. pose proof (valid_ident_chars s Hv) as Hc.
    rewrite (nfkd_ascii s Ha).
    assert (F : filter (fun c => negb (combining c)) s = s).
    { clear Hv Hk Ht Hc. induction s as [|c t IH]; [reflexivity|]. cbn [forallb] in Ha.
      apply andb_true_iff in Ha. destruct Ha as [H1 H2]. cbn [filter].
      rewrite (combining_ascii _ H1). cbn [negb]. rewrite IH by exact H2. reflexivity. }
    rewrite F, (sub_invalid_id s false Hc).
    destruct s as [|c t]; [discriminate Hv|]. cbn [valid_identb] in Hv.
    apply andb_true_iff in Hv. destruct Hv as [V1 V2].
    assert (L : lstrip_us (c :: t) = c :: t).
    { cbn [lstrip_us]. destruct (c =? 95) eqn:E; [cls; lia|reflexivity]. }
    rewrite L.
    assert (S0 : fix_start prefix (c :: t) = c :: t).
    { cbn [fix_start]. destruct (is_digit c || (c =? 95)) eqn:E; [cls; lia|reflexivity]. }
    rewrite S0.
    assert (C : (if cap then capitalize_first cap_char (c :: t) else c :: t) = c :: t).
    { destruct cap; [|reflexivity]. specialize (Ht eq_refl). cbn [valid_table_identb] in Ht.
      apply andb_true_iff in Ht. destruct Ht as [T1 _]. cbn [capitalize_first].
      rewrite cap_ascii by (apply ident_ascii, letter_ident, V1). rewrite (ascii_upper_upper _ T1). reflexivity. }
    rewrite C. cbn [kw_loop]. rewrite Hk. reflexivity.
  Qed.

  (* ---- the suffix search ---- *)
  Lemma upper_cand : forall base j, upper (base ++ dec j) = upper base ++ dec j.
  Proof. intros base j. rewrite upper_app, (upper_plain (dec j) (dec_plain j)). reflexivity. Qed.

  Lemma suffix_loop_some : forall fuel base avoid k r, suffix_loop fuel base avoid k = Some r ->
    exists j, k <= j /\ r = base ++ dec j /\ mem (upper r) avoid = false.
  Proof using Type.
    try clear kw_ok; try clear upper_idem.
    induction fuel as [|f IH]; intros base avoid k r H; [discriminate|]. cbn [Ident.suffix_loop] in H.
    destruct (mem (upper (base ++ dec k)) avoid) eqn:E.
    - destruct (IH _ _ _ _ H) as [j [H1 H2]]. exists j. split; [lia|exact H2].
    - inversion H; subst. exists k. split; [lia|]. split; [reflexivity|exact E].
  Qed.
  Lemma suffix_loop_none : forall fuel base avoid k, suffix_loop fuel base avoid k = None ->
    forall i, (i < fuel)%nat -> mem (upper (base ++ dec (k + Z.of_nat i))) avoid = true.
  Proof using Type.
    try clear kw_ok; try clear upper_idem.
    induction fuel as [|f IH]; intros base avoid k H i Hi; [lia|]. cbn [Ident.suffix_loop] in H.
    destruct (mem (upper (base ++ dec k)) avoid) eqn:E; [|discriminate].
    destruct i as [|i].
    - replace (k + Z.of_nat 0) with k by lia. exact E.
    - replace (k + Z.of_nat (S i)) with (k + 1 + Z.of_nat i) by lia. apply IH; [exact H|lia].
  Qed.
  (* pigeonhole: |avoid|+1 pairwise different candidates cannot all be in avoid *)
  Lemma suffix_loop_total : forall base avoid k, suffix_loop (S (length avoid)) base avoid k <> None.
  Proof using upper_ascii.
    try clear kw_ok; try clear upper_idem.
    intros base avoid k H.
    pose proof (suffix_loop_none _ _ _ _ H) as Hall.
    assert (Hinj : Injective (fun i => upper (base ++ dec (k + Z.of_nat i)))).
    { intros i j E. rewrite !upper_cand in E. apply app_inv_head in E. apply dec_inj in E. lia. }
    pose proof (pigeonhole _ _ avoid Hinj Hall). lia.
  Qed.

  Lemma add_suffix_spec : forall base avoid k, valid_identb base = true -> 0 < k ->
    exists r, add_suffix base avoid k = Some r /\ valid_identb r = true /\
      (valid_table_identb base = true -> valid_table_identb r = true) /\
      iskeyword r = false /\ mem (upper r) avoid = false.
  Proof.
    intros base avoid k Hv Hk. unfold Ident.add_suffix.
    set (base' := if ends_in_digit udigit base then base ++ [95] else base).
    assert (Hv' : valid_identb base' = true) by (subst base'; destruct (ends_in_digit udigit base);
      [apply valid_app; [exact Hv|reflexivity]|exact Hv]).
    assert (Ht' : valid_table_identb base = true -> valid_table_identb base' = true)
      by (intros Ht; subst base'; destruct (ends_in_digit udigit base);
          [apply valid_table_app; [exact Ht|reflexivity]|exact Ht]).
    destruct (suffix_loop (S (length avoid)) base' avoid k) as [r|] eqn:E;
      [|exfalso; revert E; apply suffix_loop_total].
    exists r. split; [reflexivity|].
    destruct (suffix_loop_some _ _ _ _ _ E) as [j [Hj [-> Hm]]].
    destruct (dec_pos_digits j ltac:(lia)) as [Hd Hn].
    assert (Hi : forallb is_ident_char (dec j) = true) by (eapply forallb_imp; [exact digit_ident|exact Hd]).
    split; [apply valid_app; assumption|]. split; [intros Ht; apply valid_table_app; auto|].
    split; [|exact Hm].
    destruct (iskeyword (base' ++ dec j)) eqn:K; [|reflexivity].
    apply kw_fact_in in K. rewrite (last_is_digit_app base' (dec j) Hn Hd) in K. destruct K; discriminate.
  Qed.

  Lemma maybe_add_suffix_spec : forall s avoid, valid_identb s = true -> iskeyword s = false ->
    exists r, maybe_add_suffix s avoid = Some r /\ valid_identb r = true /\
      (valid_table_identb s = true -> valid_table_identb r = true) /\
      iskeyword r = false /\ mem (upper r) avoid = false.
  Proof.
    intros s avoid Hv Hk. unfold Ident.maybe_add_suffix. destruct (mem (upper s) avoid) eqn:E.
    - apply add_suffix_spec; [exact Hv|lia].
    - exists s. auto.
  Qed.

  (* ---- the A..Z, AA.. search ---- *)
  Lemma gen_loop_some : forall fuel cur av r, forallb is_upper cur = true -> cur <> [] ->
    gen_loop fuel cur av = Some r -> forallb is_upper r = true /\ r <> [] /\ mem r av = false.
  Proof using Type.
    try clear kw_ok; try clear upper_idem.
    induction fuel as [|f IH]; intros cur av r Hu Hn H; [discriminate|]. cbn [gen_loop] in H.
    destruct (mem (rev cur) av) eqn:E.
    - apply (IH (next_letters_rev cur)); [apply next_upper; exact Hu|apply next_nonempty|exact H].
    - inversion H; subst. split; [apply forallb_rev; exact Hu|]. split; [|exact E].
      intros R. apply Hn. rewrite <- (rev_involutive cur), R. reflexivity.
  Qed.
  Lemma gen_loop_none : forall fuel cur av, gen_loop fuel cur av = None ->
    forall i, (i < fuel)%nat -> mem (rev (iter_next i cur)) av = true.
  Proof using Type.
    try clear kw_ok; try clear upper_idem.
    induction fuel as [|f IH]; intros cur av H i Hi; [lia|]. cbn [gen_loop] in H.
    destruct (mem (rev cur) av) eqn:E; [|discriminate].
    destruct i as [|i]; [exact E|]. cbn [iter_next]. apply IH; [exact H|lia].
  Qed.
  Lemma gen_loop_total : forall av, gen_loop (S (length av)) [65] av <> None.
  Proof using Type.
    try clear kw_ok; try clear upper_idem.
    intros av H. pose proof (gen_loop_none _ _ _ H) as Hall.
    pose proof (pigeonhole _ _ av (iter_inj [65] eq_refl) Hall). lia.
  Qed.

  Lemma gen_ident_spec : forall avoid,
    exists r, gen_ident avoid = Some r /\ valid_table_identb r = true /\ iskeyword r = false /\
      forallb is_upper r = true /\ mem r (map upper avoid) = false.
  Proof.
    intros avoid. unfold Ident.gen_ident, uppercase.
    destruct (gen_loop (S (length (map upper avoid))) [65] (map upper avoid)) as [r|] eqn:E;
      [|exfalso; revert E; apply gen_loop_total].
    exists r. split; [reflexivity|].
    destruct (gen_loop_some _ [65] _ _ eq_refl ltac:(discriminate) E) as [Hu [Hn Hm]].
    split; [apply upper_nonempty_table; assumption|]. split; [|split; assumption].
    destruct (iskeyword r) eqn:K; [|reflexivity]. apply kw_fact_in in K. destruct K as [_ K]. congruence.
  Qed.

  (* ---- pick_col_ident / pick_table_ident ---- *)
  Lemma not_mem_upper : forall r avoid, mem (upper r) (map upper avoid) = false ->
    forall a, In a avoid -> upper r <> upper a.
  Proof.
    intros r avoid H a Ha E. apply mem_false in H. apply H. rewrite E. apply in_map. exact Ha.
  Qed.

  Lemma pick_col_spec : forall i avoid,
    exists r, pick_col_ident i avoid = Some r /\ valid_identb r = true /\ iskeyword r = false /\
      (forall a, In a avoid -> upper r <> upper a).
  Proof.
    intros i avoid. unfold Ident.pick_col_ident.
    destruct (sanitize_spec i [99] false eq_refl) as [s [-> Hs]].
    destruct Hs as [->|[Hv [Hk _]]].
    - destruct (gen_ident_spec (uppercase upper_char avoid)) as [r [-> [Ht [Hk [Hu Hm]]]]].
      exists r. split; [reflexivity|]. split; [apply valid_table_valid; exact Ht|]. split; [exact Hk|].
      intros a Ha E. apply mem_false in Hm. apply Hm. unfold uppercase.
      pose proof (upper_of_upper_letters r Hu) as Hr.
      assert (R : r = upper (upper a)) by (rewrite <- E, Hr, Hr; reflexivity).
      rewrite R. apply in_map, in_map. exact Ha.
    - destruct s as [|c t]; [discriminate Hv|].
      destruct (maybe_add_suffix_spec (c :: t) (uppercase upper_char avoid) Hv Hk) as [r [-> [Rv [_ [Rk Rm]]]]].
      exists r. split; [reflexivity|]. split; [exact Rv|]. split; [exact Rk|].
      apply not_mem_upper. exact Rm.
  Qed.

  Lemma pick_table_spec : forall i avoid,
    exists r, pick_table_ident i avoid = Some r /\ valid_table_identb r = true /\ iskeyword r = false /\
      (forall a, In a avoid -> upper r <> upper a).
  Proof.
    intros i avoid. unfold Ident.pick_table_ident.
    destruct (sanitize_spec i [84] true eq_refl) as [s [-> Hs]].
    destruct Hs as [->|[Hv [Hk Ht]]].
    - destruct (add_suffix_spec s_Table (uppercase upper_char avoid) 1 eq_refl ltac:(lia))
        as [r [-> [Rv [Rt [Rk Rm]]]]].
      exists r. split; [reflexivity|]. split; [apply Rt; reflexivity|]. split; [exact Rk|].
      apply not_mem_upper. exact Rm.
    - destruct s as [|c t]; [discriminate Hv|]. specialize (Ht eq_refl eq_refl).
      destruct (maybe_add_suffix_spec (c :: t) (uppercase upper_char avoid) Hv Hk) as [r [-> [Rv [Rt [Rk Rm]]]]].
      exists r. split; [reflexivity|]. split; [apply Rt; exact Ht|]. split; [exact Rk|].
      apply not_mem_upper. exact Rm.
  Qed.

  Lemma pick_col_kept : forall s avoid, valid_identb s = true -> iskeyword s = false ->
    (forall a, In a avoid -> upper s <> upper a) -> pick_col_ident (Some s) avoid = Some s.
  Proof using cap_ascii nfkd_ascii combining_ascii.
    try clear kw_ok; try clear upper_idem.
    intros s avoid Hv Hk Hf. unfold Ident.pick_col_ident.
    rewrite (sanitize_kept s [99] false Hv Hk) by discriminate.
    destruct s as [|c t]; [discriminate Hv|]. unfold Ident.maybe_add_suffix.
    destruct (mem (upper (c :: t)) (uppercase upper_char avoid)) eqn:E; [|reflexivity].
    exfalso. apply mem_In in E. unfold uppercase in E. apply in_map_iff in E.
    destruct E as [a [E Ha]]. apply (Hf a Ha). symmetry. exact E.
  Qed.

  Lemma pick_table_kept : forall s avoid, valid_table_identb s = true -> iskeyword s = false ->
    (forall a, In a avoid -> upper s <> upper a) -> pick_table_ident (Some s) avoid = Some s.
  Proof using cap_ascii nfkd_ascii combining_ascii.
    try clear kw_ok; try clear upper_idem.
    intros s avoid Ht Hk Hf. unfold Ident.pick_table_ident.
    rewrite (sanitize_kept s [84] true (valid_table_valid s Ht) Hk) by (intros _; exact Ht).
    destruct s as [|c t]; [discriminate Ht|]. unfold Ident.maybe_add_suffix.
    destruct (mem (upper (c :: t)) (uppercase upper_char avoid)) eqn:E; [|reflexivity].
    exfalso. apply mem_In in E. unfold uppercase in E. apply in_map_iff in E.
    destruct E as [a [E Ha]]. apply (Hf a Ha). symmetry. exact E.
  Qed.

  (* ---- pick_col_ident_list ---- *)
  Definition good (r : str) : Prop := valid_identb r = true /\ iskeyword r = false.

  Lemma pick_list_loop_spec : forall idents U,
    exists rs, pick_list_loop idents U = Some rs /\ length rs = length idents /\ Forall good rs /\
      (forall r, In r rs -> forall u, In u U -> upper r <> u) /\ NoDup (map upper rs).
  Proof.
    induction idents as [|i t IH]; intros U.
    - exists []. cbn. repeat split; try constructor. intros r [].
    - cbn [Ident.pick_list_loop].
      destruct (pick_col_spec i U) as [r [-> [Hv [Hk Hf]]]].
      destruct (IH (upper r :: U)) as [rs [-> [Hl [Hg [Hd Hn]]]]].
      exists (r :: rs). split; [reflexivity|]. split; [cbn; lia|]. split; [constructor; [split|]; assumption|].
      split.
      + intros r' [<-|Hr'] u Hu.
        * intros E. apply (Hf u Hu). rewrite <- E. symmetry. apply upper_upper_ascii, valid_ident_ascii, Hv.
        * apply (Hd r' Hr'). right. exact Hu.
      + cbn [map]. constructor; [|exact Hn]. intros Hin. apply in_map_iff in Hin.
        destruct Hin as [r' [E Hr']]. apply (Hd r' Hr' (upper r)); [left; reflexivity|exact E].
  Qed.

  Lemma pick_col_ident_list_spec : forall idents avoid,
    exists rs, pick_col_ident_list idents avoid = Some rs /\ length rs = length idents /\ Forall good rs /\
      (forall r, In r rs -> forall a, In a avoid -> upper r <> upper a) /\ NoDup (map upper rs).
  Proof.
    intros idents avoid. unfold Ident.pick_col_ident_list.
    destruct (pick_list_loop_spec idents (uppercase upper_char avoid)) as [rs [-> [Hl [Hg [Hd Hn]]]]].
    exists rs. split; [reflexivity|]. split; [exact Hl|]. split; [exact Hg|]. split; [|exact Hn].
    intros r Hr a Ha. apply (Hd r Hr). unfold uppercase. apply in_map. exact Ha.
  Qed.

  Lemma pick_list_loop_kept : forall ss U, Forall good ss -> NoDup (map upper ss) ->
    (forall s, In s ss -> forall u, In u U -> upper s <> upper u) ->
    pick_list_loop (map Some ss) U = Some ss.
  Proof.
    induction ss as [|s t IH]; intros U Hg Hn Hf; [reflexivity|].
    cbn [map Ident.pick_list_loop]. inversion Hg as [|? ? [Hv Hk] Hg']; subst.
    cbn [map] in Hn. inversion Hn as [|? ? Hnin Hn']; subst.
    rewrite (pick_col_kept s U Hv Hk) by (apply Hf; left; reflexivity).
    rewrite IH; [reflexivity|exact Hg'|exact Hn'|].
    intros s' Hs' u [<-|Hu].
    - rewrite upper_idem_str. intros E. apply Hnin. rewrite <- E. apply in_map. exact Hs'.
    - apply Hf; [right; exact Hs'|exact Hu].
  Qed.

  Lemma pick_col_ident_list_kept : forall ss avoid, Forall good ss -> NoDup (map upper ss) ->
    (forall s, In s ss -> forall a, In a avoid -> upper s <> upper a) ->
    pick_col_ident_list (map Some ss) avoid = Some ss.
  Proof.
    intros ss avoid Hg Hn Hf. unfold Ident.pick_col_ident_list. apply pick_list_loop_kept; [exact Hg|exact Hn|].
    intros s Hs u Hu. unfold uppercase in Hu. apply in_map_iff in Hu. destruct Hu as [a [<- Ha]].
    rewrite upper_idem_str. apply Hf; assumption.
  Qed.

  (* a valid identifier is ASCII, so its upper-case form is the ASCII one: the freshness statements can
     be read without the oracle on the result side *)
  Lemma upper_valid : forall r, valid_identb r = true -> upper r = map ascii_upper r.
  Proof. intros r H. apply upper_ascii_str, valid_ident_ascii, H. Qed.
  (* ---- the statements in the form used by Props/C21.v ---- *)
  Lemma pick_col_total : forall i avoid, pick_col_ident i avoid <> None.
  Proof. intros i avoid. destruct (pick_col_spec i avoid) as [r [-> _]]. discriminate. Qed.
  Lemma pick_table_total : forall i avoid, pick_table_ident i avoid <> None.
  Proof. intros i avoid. destruct (pick_table_spec i avoid) as [r [-> _]]. discriminate. Qed.
  Lemma pick_list_total : forall idents avoid, pick_col_ident_list idents avoid <> None.
  Proof. intros i avoid. destruct (pick_col_ident_list_spec i avoid) as [r [-> _]]. discriminate. Qed.

  Lemma pick_col_valid : forall i avoid r, pick_col_ident i avoid = Some r ->
    valid_identb r = true /\ iskeyword r = false.
  Proof.
    intros i avoid r H. destruct (pick_col_spec i avoid) as [r' [E [H1 [H2 _]]]].
    rewrite E in H. inversion H; subst. split; assumption.
  Qed.
  Lemma pick_table_valid : forall i avoid r, pick_table_ident i avoid = Some r ->
    valid_table_identb r = true /\ valid_identb r = true /\ iskeyword r = false.
  Proof.
    intros i avoid r H. destruct (pick_table_spec i avoid) as [r' [E [H1 [H2 _]]]].
    rewrite E in H. inversion H; subst. split; [exact H1|]. split; [apply valid_table_valid; exact H1|exact H2].
  Qed.
  Lemma pick_col_fresh : forall i avoid r, pick_col_ident i avoid = Some r ->
    forall a, In a avoid -> upper r <> upper a.
  Proof.
    intros i avoid r H. destruct (pick_col_spec i avoid) as [r' [E [_ [_ H3]]]].
    rewrite E in H. inversion H; subst. exact H3.
  Qed.
  Lemma pick_table_fresh : forall i avoid r, pick_table_ident i avoid = Some r ->
    forall a, In a avoid -> upper r <> upper a.
  Proof.
    intros i avoid r H. destruct (pick_table_spec i avoid) as [r' [E [_ [_ H3]]]].
    rewrite E in H. inversion H; subst. exact H3.
  Qed.

  (* the same without any oracle: against ASCII names the result differs after ASCII case folding *)
  Lemma fresh_ascii : forall r a, valid_identb r = true -> forallb is_ascii a = true ->
    upper r <> upper a -> map ascii_upper r <> map ascii_upper a.
  Proof.
    intros r a Hv Ha H E. apply H. rewrite (upper_valid r Hv), (upper_ascii_str a Ha). exact E.
  Qed.
  Lemma pick_col_fresh_ascii : forall i avoid r, pick_col_ident i avoid = Some r ->
    forall a, In a avoid -> forallb is_ascii a = true -> map ascii_upper r <> map ascii_upper a.
  Proof.
    intros i avoid r H a Ha Hasc. apply fresh_ascii; [apply (pick_col_valid i avoid r H)|exact Hasc|].
    apply (pick_col_fresh i avoid r H a Ha).
  Qed.
  Lemma pick_table_fresh_ascii : forall i avoid r, pick_table_ident i avoid = Some r ->
    forall a, In a avoid -> forallb is_ascii a = true -> map ascii_upper r <> map ascii_upper a.
  Proof.
    intros i avoid r H a Ha Hasc. apply fresh_ascii; [apply (pick_table_valid i avoid r H)|exact Hasc|].
    apply (pick_table_fresh i avoid r H a Ha).
  Qed.

  Lemma map_upper_valid : forall rs, Forall good rs -> map upper rs = map (map ascii_upper) rs.
  Proof.
    induction rs as [|r t IH]; intros H; [reflexivity|]. inversion H as [|? ? [Hv _] H']; subst.
    cbn [map]. rewrite (upper_valid r Hv), IH by exact H'. reflexivity.
  Qed.

  Lemma pick_list_props : forall idents avoid rs, pick_col_ident_list idents avoid = Some rs ->
    length rs = length idents /\
    Forall (fun r => valid_identb r = true /\ iskeyword r = false) rs /\
    (forall r, In r rs -> forall a, In a avoid -> upper r <> upper a) /\
    NoDup (map upper rs) /\ NoDup (map (map ascii_upper) rs).
  Proof.
    intros idents avoid rs H. destruct (pick_col_ident_list_spec idents avoid) as [rs' [E [H1 [H2 [H3 H4]]]]].
    rewrite E in H. inversion H; subst. split; [exact H1|]. split; [exact H2|]. split; [exact H3|].
    split; [exact H4|]. rewrite <- (map_upper_valid rs H2). exact H4.
  Qed.
  (* per element of a batch: a requested name that is valid, not a keyword and collides neither with
     the avoid set nor with the ids chosen before it in the batch is kept *)
  Lemma pick_list_loop_app : forall pre post U rs, pick_list_loop (pre ++ post) U = Some rs ->
    exists rs1 rs2, rs = rs1 ++ rs2 /\ length rs1 = length pre /\
      pick_list_loop post (rev (map upper rs1) ++ U) = Some rs2.
  Proof using Type.
    try clear kw_ok; try clear upper_idem.
    induction pre as [|i p IH]; intros post U rs H.
    - exists [], rs. cbn. auto.
    - cbn [app Ident.pick_list_loop] in H.
      destruct (pick_col_ident i U) as [r|]; [|discriminate].
      destruct (pick_list_loop (p ++ post) (upper r :: U)) as [rs'|] eqn:E; [|discriminate].
      inversion H; subst. destruct (IH _ _ _ E) as [a [b [-> [Hl Hb]]]].
      exists (r :: a), b. split; [reflexivity|]. split; [cbn; lia|].
      cbn [map rev]. rewrite <- app_assoc. exact Hb.
  Qed.

  Lemma pick_list_elem_kept : forall pre s post avoid rs,
    pick_col_ident_list (pre ++ Some s :: post) avoid = Some rs ->
    valid_identb s = true -> iskeyword s = false ->
    (forall a, In a avoid -> upper s <> upper a) ->
    (forall r, In r (firstn (length pre) rs) -> upper s <> upper r) ->
    nth_error rs (length pre) = Some s.
  Proof using cap_ascii nfkd_ascii combining_ascii upper_idem.
    try clear kw_ok.
    intros pre s post avoid rs H Hv Hk Hf Hd. unfold Ident.pick_col_ident_list in H.
    destruct (pick_list_loop_app _ _ _ _ H) as [rs1 [rs2 [-> [Hl H2]]]].
    rewrite <- Hl in *. rewrite firstn_app, firstn_all, Nat.sub_diag, firstn_O, app_nil_r in Hd.
    cbn [Ident.pick_list_loop] in H2. rewrite (pick_col_kept s _ Hv Hk) in H2.
    - destruct (pick_list_loop post _) as [rest|]; [|discriminate]. inversion H2; subst.
      rewrite nth_error_app2, Nat.sub_diag by lia. reflexivity.
    - intros u Hu. apply in_app_or in Hu. destruct Hu as [Hu|Hu].
      + apply in_rev in Hu. apply in_map_iff in Hu. destruct Hu as [r [<- Hr]].
        rewrite upper_idem_str. apply Hd. exact Hr.
      + unfold uppercase in Hu. apply in_map_iff in Hu. destruct Hu as [a [<- Ha]].
        rewrite upper_idem_str. apply Hf. exact Ha.
  Qed.
End Proofs.

(* The table-driven oracle instances used by the correspondence check satisfy the ASCII hypotheses by
   construction, whatever the tables contain. *)
Lemma table_oracles_ok : forall t : tables,
  (forall c, is_ascii c = true -> t_upper t c = [ascii_upper c]) /\
  (forall c, is_ascii c = true -> t_cap t c = [ascii_upper c]) /\
  (forall s, forallb is_ascii s = true -> t_nfkd t s = s) /\
  (forall c, is_ascii c = true -> t_comb t c = false).
Proof.
  intros t. unfold t_upper, t_cap, t_nfkd, t_comb, upper_char_of, nfkd_of, combining_of.
  repeat split; intros x H; rewrite H; reflexivity.
Qed.

(* A concrete instance for the non-vacuity examples of Props/C21.v: dotless i upper-cases to I, e-acute
   to E-acute, NFKD of "e-acute t e-acute" is "e \u0301 t e \u0301". *)
Definition ex_tables : tables :=
  mk_tables [([233; 116; 233], [101; 769; 116; 101; 769])] [769] [(305, [73]); (233, [201])] [(233, [201])] [].

Lemma ex_tables_upper_idem : upper_idem_ok (t_upper ex_tables).
Proof.
  intros c. unfold t_upper, upper_char_of, upper. cbn [ex_tables mk_tables fst snd].
  destruct (is_ascii c) eqn:A.
  - cbn [flat_map]. rewrite (ascii_upper_ascii c A), ascii_upper_idem. reflexivity.
  - cbn [assoc_Z]. destruct (c =? 305) eqn:E1; [reflexivity|]. destruct (c =? 233) eqn:E2; [reflexivity|].
    cbn [flat_map assoc_Z]. rewrite A, E1, E2. reflexivity.
Qed.
