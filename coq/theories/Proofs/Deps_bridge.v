(* Bridging lemmas: every function of coq/gen/Deps_gen.v (regenerated from /repo on every run by harness/dep2v*.py)
   equals the hand-written model of Model/Deps.v / DepsExec.v / DepsEval.v it was meant to be. *)
From Coq Require Import ZArith List Bool Lia.
Import ListNotations.
Require Import Grist.Model.Deps Grist.Model.DepsSpec Grist.Model.DepsExec Grist.Model.DepsEval Grist.Lib.DepsGenPrelude.
Require Import Grist.Proofs.Deps_closure_proofs Grist.Proofs.Deps_inval_proofs Grist.Proofs.Deps_order_proofs.
Require Import Grist.Proofs.Deps_eval_proofs.
Require Import GristGen.Deps_gen.
Open Scope Z_scope.

(* ---- relation.py ---------------------------------------------------------------------------------------- *)
Lemma bridge_identity R x : gen_identity_affected x = affected R RId x.
Proof. reflexivity. Qed.

Lemma bridge_single R x : gen_single_affected x = affected R RSingle x.
Proof. destruct x; reflexivity. Qed.

Lemma bridge_composed R a b x : gen_composed_affected (affected R a) (affected R b) x = affected R (RComp a b) x.
Proof. reflexivity. Qed.

Lemma bridge_composed_reset R a b x :
  gen_composed_reset_rows (fun R y => reset_rows R a y) R x = reset_rows R (RComp a b) x.
Proof. reflexivity. Qed.

Lemma bridge_reset_all R r : gen_reset_all (fun R y => reset_rows R r y) R = reset_all R r.
Proof. reflexivity. Qed.

(* ---- lookup.py ------------------------------------------------------------------------------------------- *)
(* _row_key_map.lookup_right(key) of the relation (m, n): the rows registered under the key *)
Definition lk_right (R : relst) (m n : node) (k : Z) : list row :=
  map fst (filter (fun p => Z.eqb (snd p) k) (lkrows R m n)).

Lemma by_keys_In lr keys r : In r (gen_affected_by_keys lr keys) <-> exists k, In k keys /\ In r (lr k).
Proof.
  unfold gen_affected_by_keys.
  assert (G : forall acc, In r (fold_left (fun a key => if true then a ++ lr key else a) keys acc) <->
                          In r acc \/ exists k, In k keys /\ In r (lr k)).
  { induction keys as [| k ks IH]; intros acc; cbn [fold_left].
    - split; [auto | intros [H | (k & [] & _)]; exact H].
    - rewrite IH, in_app_iff. split.
      + intros [[H | H] | (k0 & H1 & H2)]; eauto. right. exists k. split; [left; reflexivity | exact H].
        right. exists k0. split; [right; exact H1 | exact H2].
      + intros [H | (k0 & [-> | H1] & H2)]; eauto. }
  rewrite G. cbn [In]. tauto.
Qed.

(* the generated _LookupRelation.get_affected_rows yields the same rows as the model's RLook relation *)
Lemma bridge_lookup_all R m n : gen_lookup_affected (lkkeys R m) (lk_right R m n) AllRows = affected R (RLook m n) AllRows.
Proof. reflexivity. Qed.

Lemma bridge_lookup_rows R m n l r :
  in_rowset r (gen_lookup_affected (lkkeys R m) (lk_right R m n) (Rows l)) = in_rowset r (affected R (RLook m n) (Rows l)).
Proof.
  cbn [gen_lookup_affected rowset_is_all rowset_list affected in_rowset].
  apply eq_true_iff_eq. rewrite !zmem_In, by_keys_In, rows_by_keys_In. unfold lk_right. split.
  - intros (k & Hk & Hr). apply in_map_iff in Hr. destruct Hr as ([r' k'] & E & Hf). cbn [fst] in E. subst r'.
    apply filter_In in Hf. destruct Hf as [Hin Hk']. cbn [snd] in Hk'. apply Z.eqb_eq in Hk'. subst k'. eauto.
  - intros (k & Hin & Hk). exists k. split; auto. apply in_map_iff. exists (r, k). split; auto.
    apply filter_In. split; auto. cbn [snd]. apply Z.eqb_refl.
Qed.

Lemma bridge_add_lookup R m n r k : gen_add_lookup (lkrows R m n) r k = lkrows (add_lookup R m n r k) m n.
Proof. unfold add_lookup. cbn [set_lkrows lkrows]. rewrite !Z.eqb_refl. reflexivity. Qed.

(* ---- depend.py: add_edge, clear_dependencies, reset_dependencies ------------------------------------------ *)
Lemma bridge_add_edge E o i r : gen_add_edge E o i r = add_edge E (o, i, r).
Proof. reflexivity. Qed.

Lemma fold_filter_cond {A S} (p : A -> bool) (f : S -> A -> S) l : forall s,
  fold_left f (filter p l) s = fold_left (fun s a => if p a then f s a else s) l s.
Proof. induction l as [| a l IH]; intros s; cbn [filter fold_left]; auto. destruct (p a); cbn [fold_left]; auto. Qed.

Lemma fold_pair {A S T} (f : S -> A -> S) (h : T -> A -> T) l : forall s t,
  fold_left (fun '(s, t) a => (f s a, h t a)) l (s, t) = (fold_left f l s, fold_left h l t).
Proof. induction l as [| a l IH]; intros s t; cbn [fold_left]; auto. Qed.

Lemma rel_eqb_refl r : rel_eqb r r = true.
Proof. induction r; cbn; rewrite ?Z.eqb_refl, ?IHr1, ?IHr2; auto. Qed.

Lemma edge_eqb_refl e : edge_eqb e e = true.
Proof. destruct e as [[o i] r]. unfold edge_eqb, e_out, e_in, e_rel. cbn [fst snd]. rewrite !Z.eqb_refl, rel_eqb_refl. reflexivity. Qed.

Lemma fold_remove l : forall E,
  fold_left edges_remove l E = filter (fun x => negb (existsb (fun e => edge_eqb e x) l)) E.
Proof.
  induction l as [| e l IH]; intros E; cbn [fold_left existsb].
  - induction E as [| x E IHE]; cbn [filter negb]; [reflexivity | f_equal; exact IHE].
  - rewrite IH. unfold edges_remove. induction E as [| x E IHE]; cbn [filter]; [reflexivity |].
    destruct (edge_eqb e x); cbn [negb orb filter]; [exact IHE |].
    destruct (existsb (fun e0 => edge_eqb e0 x) l); cbn [negb]; rewrite IHE; reflexivity.
Qed.

Lemma bridge_clear_dependencies E R n : gen_clear_dependencies E R n = clear_dependencies E R n.
Proof.
  unfold gen_clear_dependencies, clear_dependencies.
  change (fun '(E0, R0) edge => let E1 := edges_remove E0 edge in let R1 := reset_all R0 (e_rel edge) in (E1, R1))
    with (fun '(E0, R0) edge => (edges_remove E0 edge, (fun R1 e => reset_all R1 (e_rel e)) R0 edge)).
  rewrite (fold_pair edges_remove (fun R1 e => reset_all R1 (e_rel e))). cbn beta iota.
  f_equal.
  - rewrite fold_remove. apply filter_ext_in. intros x Hx. f_equal. unfold out_edges.
    destruct (Z.eqb (e_out x) n) eqn:O.
    + apply existsb_exists. exists x. split; [apply filter_In; auto | apply edge_eqb_refl].
    + destruct (existsb _ _) eqn:X; auto. apply existsb_exists in X. destruct X as (e & He & Heq).
      apply edge_eqb_eq in Heq. subst e. apply filter_In in He. destruct He as [_ He]. congruence.
  - unfold out_edges. apply (fold_filter_cond (fun e => Z.eqb (e_out e) n) (fun R1 e => reset_all R1 (e_rel e))).
Qed.

Lemma bridge_reset_dependencies E R n x : gen_reset_dependencies E R n x = reset_dependencies E R n x.
Proof.
  unfold gen_reset_dependencies, reset_dependencies, out_edges.
  apply (fold_filter_cond (fun e => Z.eqb (e_out e) n) (fun R1 e => reset_rows R1 (e_rel e) x)).
Qed.
