(* C09 bridge: the definitions regenerated from /repo on every run (GristGen.MetaCascade_gen) against the
   hand-written model.  A semantic edit of the translated code breaks one of these proofs. *)
From Coq Require Import ZArith List Bool String Lia.
Import ListNotations.
Require Import Grist.Model.MetaCascade Grist.Model.MetaCascadePlan Grist.Model.MetaCascadePlanRef
  GristGen.MetaCascade_gen.
Open Scope Z_scope.

(* the end-of-bundle loop of Engine.apply_user_actions is the model's auto_fix *)
Lemma gen_auto_fix_is_auto_fix : forall fuel m, gen_auto_fix fuel m = auto_fix fuel m.
Proof. intros. reflexivity. Qed.

(* _get_or_add_columns, pointwise *)
Lemma gen_goa_is_model : forall prior infos, gen_goa prior infos = model_goa prior infos.
Proof.
  intros prior infos. unfold model_goa. induction infos as [|ci rest IH]; [reflexivity|].
  cbn [gen_goa map concat]. rewrite IH. unfold ci_name, ci_formula, col_truthy, col_formula, col_id.
  destruct (goa_lookup (fst ci) prior) as [[i f]|]; cbn; [destruct (f =? snd ci)|]; reflexivity.
Qed.

(* hence one column comes back per requested column *)
Lemma model_goa_yields : forall prior infos, goa_yields (model_goa prior infos) = List.length infos.
Proof.
  intros prior infos. unfold model_goa, goa_yields. induction infos as [|ci rest IH]; [reflexivity|].
  simpl. destruct (goa_lookup (fst ci) prior) as [[i f]|]; [destruct (f =? snd ci)|]; simpl; f_equal; exact IH.
Qed.

Lemma gen_goa_yields : forall prior infos, goa_yields (gen_goa prior infos) = List.length infos.
Proof. intros. rewrite gen_goa_is_model. apply model_goa_yields. Qed.

(* the statement plans of the cascades and guards are the ones the model was written against *)
Lemma plan_removeTableRecords_same : gen_plan_removeTableRecords = plan_removeTableRecords.
Proof. reflexivity. Qed.
Lemma plan_doRemoveColumns_same : gen_plan_doRemoveColumns = plan_doRemoveColumns.
Proof. reflexivity. Qed.
Lemma plan_removeColumnRecords_same : gen_plan_removeColumnRecords = plan_removeColumnRecords.
Proof. reflexivity. Qed.
Lemma plan_removeViewRecords_same : gen_plan_removeViewRecords = plan_removeViewRecords.
Proof. reflexivity. Qed.
Lemma plan_removeViewSectionRecords_same : gen_plan_removeViewSectionRecords = plan_removeViewSectionRecords.
Proof. reflexivity. Qed.
Lemma plan_doRemoveViewSectionRecords_same : gen_plan_doRemoveViewSectionRecords = plan_doRemoveViewSectionRecords.
Proof. reflexivity. Qed.
Lemma plan_removeViewSectionFieldRecords_same :
  gen_plan_removeViewSectionFieldRecords = plan_removeViewSectionFieldRecords.
Proof. reflexivity. Qed.
Lemma plan_doBulkRemoveRecord_same : gen_plan_doBulkRemoveRecord = plan_doBulkRemoveRecord.
Proof. reflexivity. Qed.
Lemma plan_UpdateSummaryViewSection_same : gen_plan_UpdateSummaryViewSection = plan_UpdateSummaryViewSection.
Proof. reflexivity. Qed.
Lemma plan_DetachSummaryViewSection_same : gen_plan_DetachSummaryViewSection = plan_DetachSummaryViewSection.
Proof. reflexivity. Qed.
Lemma plan_apply_auto_removes_same : gen_plan_apply_auto_removes = plan_apply_auto_removes.
Proof. reflexivity. Qed.
