(* Pending calc deltas are rolled back by flush + revert also in bundles that ADD and REMOVE records (new-row and
   gone-row filters of _changes_to_actions, front insertion) -- C04.  Hypothesis: no removed row id of the checkpoint
   comes back (see C04_refuted_readded_row for what happens otherwise). *)
From stdpp Require Import gmap sorting.
Require Import Grist.Model.Rollback Grist.Proofs.Rollback_proofs Grist.Proofs.Rollback_actions Grist.Proofs.Rollback_undo
  Grist.Proofs.Rollback_run Grist.Proofs.Rollback_inside Grist.Proofs.Rollback_flush Grist.Proofs.Rollback_calc
  Grist.Proofs.Rollback_calc_multi Grist.Proofs.Rollback_calc_rows.
Open Scope Z_scope.

(* ---------------------------------------------------------------------------------------------------------- *)
(* summaries that saw add_changes, add_records and remove_records only *)
Definition td_shx (td : table_delta) : Prop :=
  td_renames td = [] /\ Forall (fun cm => cm.1.1 = false) (td_deltas td) /\ NoDup (td_deltas td).*1.
Definition sm_shx (sm : summary) : Prop :=
  sm_renames sm = [] /\ Forall (fun ttd => ttd.1.1 = false /\ td_shx ttd.2) (sm_tables sm) /\ NoDup (sm_tables sm).*1.
Definition sm_after (sm : summary) (t : name) : gmap rowid bool := td_after (for_table (false, t) sm).

Lemma td_empty_shx : td_shx td_empty.
Proof. split; [reflexivity|]. split; [constructor|apply NoDup_nil_2]. Qed.
Lemma for_table_shx t sm : sm_shx sm -> td_shx (for_table t sm).
Proof.
  intros (_ & Hf & _). unfold for_table. destruct (assoc_get t (sm_tables sm)) as [td|] eqn:E; simpl; [|apply td_empty_shx].
  apply assoc_get_Some_in in E. exact (proj2 (proj1 (Forall_forall _ _) Hf _ E)).
Qed.
Lemma sm_empty_shx : sm_shx sm_empty.
Proof. repeat split; [constructor|apply NoDup_nil_2]. Qed.

(* setdefault(r, b) / [r] = b for every listed row *)
Definition mark_first (b : bool) (m : gmap rowid bool) (rows : list rowid) : gmap rowid bool :=
  foldl (fun m r => match m !! r with Some _ => m | None => <[r := b]> m end) m rows.
Definition mark_last (b : bool) (m : gmap rowid bool) (rows : list rowid) : gmap rowid bool :=
  foldl (fun m r => <[r := b]> m) m rows.

Lemma mark_first_lookup b rows : forall m r,
  mark_first b m rows !! r = match m !! r with Some x => Some x | None => if decide (r ∈ rows) then Some b else None end.
Proof.
  induction rows as [|r0 rows IH]; intros m r; simpl.
  - destruct (m !! r); [reflexivity|]. try rewrite decide_False by apply not_elem_of_nil. reflexivity.
  - unfold mark_first in *. simpl. rewrite IH. destruct (m !! r0) as [b0|] eqn:E0.
    + destruct (m !! r) eqn:E; [reflexivity|]. destruct (decide (r ∈ rows)) as [Hin|Hnin].
      * rewrite decide_True by (right; exact Hin). reflexivity.
      * rewrite decide_False; [reflexivity|]. intros Hx. apply elem_of_cons in Hx as [->|?]; [congruence|contradiction].
    + destruct (decide (r = r0)) as [->|Hne].
      * rewrite lookup_insert, E0. rewrite decide_True by left. reflexivity.
      * rewrite lookup_insert_ne by auto. destruct (m !! r); [reflexivity|].
        destruct (decide (r ∈ rows)) as [Hin|Hnin].
        -- rewrite decide_True by (right; exact Hin). reflexivity.
        -- rewrite decide_False; [reflexivity|]. intros Hx. apply elem_of_cons in Hx as [?|?]; contradiction.
Qed.

Lemma mark_last_lookup b rows : forall m r,
  mark_last b m rows !! r = if decide (r ∈ rows) then Some b else m !! r.
Proof.
  induction rows as [|r0 rows IH]; intros m r; simpl.
  - try rewrite decide_False by apply not_elem_of_nil. reflexivity.
  - unfold mark_last in *. simpl. rewrite IH. destruct (decide (r ∈ rows)) as [Hin|Hnin].
    + rewrite decide_True by (right; exact Hin). reflexivity.
    + destruct (decide (r = r0)) as [->|Hne].
      * rewrite lookup_insert, decide_True by left. reflexivity.
      * rewrite lookup_insert_ne by auto. rewrite decide_False; [reflexivity|].
        intros Hx. apply elem_of_cons in Hx as [?|?]; contradiction.
Qed.

Lemma sm_get_put_other sm t td t' c' : t' <> t ->
  sm_get {| sm_renames := sm_renames sm; sm_tables := assoc_put (false, t) td (sm_tables sm) |} t' c' = sm_get sm t' c'.
Proof. intros Hne. unfold sm_get, for_table. simpl. rewrite assoc_get_put, decide_False by congruence. reflexivity. Qed.

Lemma shx_put sm t td : sm_shx sm -> td_shx td ->
  sm_shx {| sm_renames := sm_renames sm; sm_tables := assoc_put (false, t) td (sm_tables sm) |}.
Proof.
  intros (Hrn & Hft & Hnt) Htd. split; [exact Hrn|]. simpl. split; [|apply assoc_put_nodup; exact Hnt].
  apply assoc_put_Forall; [exact Hft|]. simpl. auto.
Qed.

Lemma for_table_put sm t td t' :
  for_table (false, t') {| sm_renames := sm_renames sm; sm_tables := assoc_put (false, t) td (sm_tables sm) |}
  = if decide (t' = t) then td else for_table (false, t') sm.
Proof.
  unfold for_table. simpl. rewrite assoc_get_put. destruct (decide (t' = t)) as [->|Hne].
  - rewrite decide_True by reflexivity. reflexivity.
  - rewrite decide_False by congruence. reflexivity.
Qed.

Lemma sm_step_changes_shx sm t c ch :
  sm_shx sm ->
  sm_shx (sm_step sm (SAddChanges t c ch)) /\
  (forall t' c', sm_get (sm_step sm (SAddChanges t c ch)) t' c'
                = if decide (t' = t /\ c' = c) then Some (merge_changes (default ∅ (sm_get sm t c)) ch)
                  else sm_get sm t' c') /\
  (forall t', sm_before (sm_step sm (SAddChanges t c ch)) t' = sm_before sm t') /\
  (forall t', sm_after (sm_step sm (SAddChanges t c ch)) t' = sm_after sm t').
Proof.
  intros Hp. pose proof (for_table_shx (false, t) sm Hp) as (Hr & Hfc & Hnc).
  simpl. rewrite put_table_assoc, td_add_changes_assoc. split; [|split; [|split]].
  - apply shx_put; [exact Hp|]. split; [exact Hr|]. simpl. split; [apply assoc_put_Forall; [exact Hfc|reflexivity]|].
    apply assoc_put_nodup; exact Hnc.
  - intros t' c'. unfold sm_get. rewrite for_table_put. destruct (decide (t' = t)) as [->|Hne].
    + simpl. rewrite assoc_get_put. destruct (decide (c' = c)) as [->|Hnc'].
      * rewrite !decide_True by auto. reflexivity.
      * rewrite decide_False by congruence. rewrite decide_False by (intros [_ ?]; contradiction). reflexivity.
    + rewrite decide_False by (intros [? _]; contradiction). reflexivity.
  - intros t'. unfold sm_before. rewrite for_table_put. destruct (decide (t' = t)) as [->|]; reflexivity.
  - intros t'. unfold sm_after. rewrite for_table_put. destruct (decide (t' = t)) as [->|]; reflexivity.
Qed.

Lemma sm_step_add_shx sm t rows :
  sm_shx sm ->
  sm_shx (sm_step sm (SAddRecords t rows)) /\
  (forall t' c', sm_get (sm_step sm (SAddRecords t rows)) t' c' = sm_get sm t' c') /\
  (forall t', sm_before (sm_step sm (SAddRecords t rows)) t'
              = if decide (t' = t) then mark_first false (sm_before sm t) rows else sm_before sm t') /\
  (forall t', sm_after (sm_step sm (SAddRecords t rows)) t'
              = if decide (t' = t) then mark_last true (sm_after sm t) rows else sm_after sm t').
Proof.
  intros Hp. pose proof (for_table_shx (false, t) sm Hp) as (Hr & Hfc & Hnc).
  simpl. rewrite put_table_assoc. split; [|split; [|split]].
  - apply shx_put; [exact Hp|]. split; [exact Hr|]. simpl. auto.
  - intros t' c'. unfold sm_get. rewrite for_table_put. destruct (decide (t' = t)) as [->|]; reflexivity.
  - intros t'. unfold sm_before. rewrite for_table_put. destruct (decide (t' = t)) as [->|]; reflexivity.
  - intros t'. unfold sm_after. rewrite for_table_put. destruct (decide (t' = t)) as [->|]; reflexivity.
Qed.

Lemma sm_step_remove_shx sm t rows :
  sm_shx sm ->
  sm_shx (sm_step sm (SRemoveRecords t rows)) /\
  (forall t' c', sm_get (sm_step sm (SRemoveRecords t rows)) t' c' = sm_get sm t' c') /\
  (forall t', sm_before (sm_step sm (SRemoveRecords t rows)) t'
              = if decide (t' = t) then mark_first true (sm_before sm t) rows else sm_before sm t') /\
  (forall t', sm_after (sm_step sm (SRemoveRecords t rows)) t'
              = if decide (t' = t) then mark_last false (sm_after sm t) rows else sm_after sm t').
Proof.
  intros Hp. pose proof (for_table_shx (false, t) sm Hp) as (Hr & Hfc & Hnc).
  simpl. rewrite put_table_assoc. split; [|split; [|split]].
  - apply shx_put; [exact Hp|]. split; [exact Hr|]. simpl. auto.
  - intros t' c'. unfold sm_get. rewrite for_table_put. destruct (decide (t' = t)) as [->|]; reflexivity.
  - intros t'. unfold sm_before. rewrite for_table_put. destruct (decide (t' = t)) as [->|]; reflexivity.
  - intros t'. unfold sm_after. rewrite for_table_put. destruct (decide (t' = t)) as [->|]; reflexivity.
Qed.

(* ---------------------------------------------------------------------------------------------------------- *)
(* what the flush emits for such a summary: per recomputed column, the changed rows that existed before, split
   into those still there (appended) and those gone (inserted at the front) *)
Definition befores (m : gmap rowid (val * val)) (rs : list rowid) : list val := map (fun r => from_option fst 0 (m !! r)) rs.
Definition pres_rows (bf af : gmap rowid bool) (m : gmap rowid (val * val)) : list rowid :=
  filter (fun r => af !! r ≠ Some false) (old_changed bf m).
Definition gone_rows (bf af : gmap rowid bool) (m : gmap rowid (val * val)) : list rowid :=
  filter (fun r => r ∉ pres_rows bf af m) (old_changed bf m).
Definition upd1 (t c : name) (m : gmap rowid (val * val)) (rs : list rowid) : list action :=
  match rs with [] => [] | _ => [BulkUpdateRecord t rs [(c, befores m rs)]] end.
Definition front1 (bf af : gmap rowid bool) (t c : name) (m : gmap rowid (val * val)) : list action :=
  upd1 t c m (gone_rows bf af m).
Definition back1x (bf af : gmap rowid bool) (t c : name) (m : gmap rowid (val * val)) : list action :=
  upd1 t c m (pres_rows bf af m).

Lemma changes_to_undo_shx sm t td c m :
  sm_shx sm -> ((false, t), td) ∈ sm_tables sm -> td_shx td ->
  changes_to_undo sm (false, t) td (false, c) m
  = (front1 (td_before td) (td_after td) t c m, back1x (td_before td) (td_after td) t c m).
Proof.
  intros (Hrn & Hft & Hnt) Hin (Hr & _ & _). unfold changes_to_undo. simpl.
  rewrite (assoc_get_in_nodup _ _ _ Hnt Hin). simpl. rewrite Hrn, Hr. simpl. fold (changed_rows m). fold (old_changed (td_before td) m).
  reflexivity.
Qed.

Definition frontx (sm : summary) (e : name * name * gmap rowid (val * val)) : list action :=
  front1 (sm_before sm e.1.1) (sm_after sm e.1.1) e.1.1 e.1.2 e.2.
Definition backx (sm : summary) (e : name * name * gmap rowid (val * val)) : list action :=
  back1x (sm_before sm e.1.1) (sm_after sm e.1.1) e.1.1 e.1.2 e.2.

Lemma flush_shx sm : sm_shx sm ->
  flush_undo_of sm = (flat_map (frontx sm) (rev (entriesr sm)), flat_map (backx sm) (entriesr sm)).
Proof.
  intros Hp. unfold flush_undo_of, entriesr.
  set (ent := fun l : list (lname * table_delta) =>
                flat_map (fun ttd => map (fun cm => (root ttd.1, root cm.1, cm.2)) (td_deltas ttd.2)) l).
  assert (Hgen : forall l acc, (forall ttd, ttd ∈ l -> ttd ∈ sm_tables sm) ->
    foldl (fun acc ttd =>
             foldl (fun acc cm => let fb := changes_to_undo sm ttd.1 ttd.2 cm.1 cm.2 in (fb.1 ++ acc.1, acc.2 ++ fb.2))
                   acc (td_deltas ttd.2)) acc l
    = (flat_map (frontx sm) (rev (ent l)) ++ acc.1, acc.2 ++ flat_map (backx sm) (ent l))).
  { induction l as [|[[bt t] td] l IH]; intros acc Hl.
    - simpl. rewrite app_nil_r. destruct acc; reflexivity.
    - simpl foldl. assert (Hin : ((bt, t), td) ∈ sm_tables sm) by (apply Hl; left).
      pose proof Hp as (Hrn & Hft & Hnt). destruct (proj1 (Forall_forall _ _) Hft _ Hin) as [Hbt Htd]. simpl in Hbt. subst bt.
      assert (Hfor : for_table (false, t) sm = td) by (unfold for_table; rewrite (assoc_get_in_nodup _ _ _ Hnt Hin); reflexivity).
      set (g := fun cm : lname * gmap rowid (val * val) => (t, root cm.1, cm.2)).
      assert (Hinner : forall dl acc0, (forall cm, cm ∈ dl -> cm ∈ td_deltas td) ->
        foldl (fun acc cm => let fb := changes_to_undo sm (false, t) td cm.1 cm.2 in (fb.1 ++ acc.1, acc.2 ++ fb.2)) acc0 dl
        = (flat_map (frontx sm) (rev (map g dl)) ++ acc0.1, acc0.2 ++ flat_map (backx sm) (map g dl))).
      { induction dl as [|[[bc c] m] dl IHd]; intros acc0 Hdl.
        - simpl. rewrite app_nil_r. destruct acc0; reflexivity.
        - simpl foldl. assert (Hcin : ((bc, c), m) ∈ td_deltas td) by (apply Hdl; left).
          pose proof Htd as (_ & Hfc & _). pose proof (proj1 (Forall_forall _ _) Hfc _ Hcin) as Hbc. simpl in Hbc. subst bc.
          rewrite (changes_to_undo_shx sm t td c m Hp Hin Htd).
          rewrite IHd by (intros cm Hcm; apply Hdl; right; exact Hcm). cbn [fst snd map rev].
          rewrite flat_map_app. cbn [flat_map]. rewrite app_nil_r.
          match goal with |- context [frontx sm (g ?x)] =>
            assert (Hq1 : frontx sm (g x) = front1 (td_before td) (td_after td) t c m)
              by (unfold frontx, g, sm_before, sm_after; cbn [fst snd root]; rewrite Hfor; reflexivity);
            assert (Hq2 : backx sm (g x) = back1x (td_before td) (td_after td) t c m)
              by (unfold backx, g, sm_before, sm_after; cbn [fst snd root]; rewrite Hfor; reflexivity)
          end.
          rewrite Hq1, Hq2.
          rewrite <- !app_assoc. reflexivity. }
      rewrite Hinner by auto. rewrite IH by (intros x Hx; apply Hl; right; exact Hx).
      cbn [fst snd]. unfold ent. cbn [flat_map]. fold (ent l). cbn [fst snd root]. fold g.
      rewrite rev_app_distr, !flat_map_app, <- !app_assoc. reflexivity. }
  rewrite Hgen by auto. cbn [fst snd]. rewrite app_nil_r. reflexivity.
Qed.

Lemma entriesx_get sm t c m : sm_shx sm -> (t, c, m) ∈ entriesr sm <-> sm_get sm t c = Some m.
Proof.
  intros (Hrn & Hft & Hnt). rewrite entriesr_in. unfold sm_get, for_table. split.
  - intros (bt & bc & td & H1 & H2). destruct (proj1 (Forall_forall _ _) Hft _ H1) as [Hbt (_ & Hfc & Hnc)].
    simpl in Hbt. subst bt. rewrite (assoc_get_in_nodup _ _ _ Hnt H1). simpl.
    pose proof (proj1 (Forall_forall _ _) Hfc _ H2) as Hbc. simpl in Hbc. subst bc. apply (assoc_get_in_nodup _ _ _ Hnc H2).
  - intros H. match type of H with context [default td_empty ?x] => destruct x as [td|] eqn:E end; simpl in H; [|discriminate H].
    exists false, false, td. split; apply assoc_get_Some_in; assumption.
Qed.

Lemma entriesx_nodup sm : sm_shx sm -> NoDup (entriesr sm).*1.
Proof.
  intros (_ & Hft & Hnt). unfold entriesr. induction (sm_tables sm) as [|[[bt t] td] l IH]; [apply NoDup_nil_2|].
  inversion Hft as [|? ? [Hbt (_ & Hfc & Hnc)] Hft']; subst. simpl in *. subst bt.
  apply NoDup_cons in Hnt as [Hnotin Hnt']. rewrite fmap_app. apply NoDup_app. split; [|split; [|apply IH; assumption]].
  - clear -Hfc Hnc. induction (td_deltas td) as [|[[bc c] m] dl IHd]; [apply NoDup_nil_2|]. simpl in *.
    inversion Hfc as [|? ? Hbc Hfc']; subst. simpl in Hbc. subst bc. apply NoDup_cons in Hnc as [Hn Hnc']. apply NoDup_cons. split; [|auto].
    intros Hx. apply Hn. apply elem_of_list_fmap in Hx as ([[t' c'] m'] & [= <- <-] & Hx).
    apply elem_of_list_fmap in Hx as ([[bc' c''] m''] & [= <- <-] & Hx). pose proof (proj1 (Forall_forall _ _) Hfc' _ Hx) as Hb. simpl in Hb. subst bc'.
    apply elem_of_list_fmap. exists (false, c, m'). auto.
  - intros [t' c'] H1 H2. apply elem_of_list_fmap in H1 as ([[t1 c1] m1] & [= <- <-] & H1).
    apply elem_of_list_fmap in H1 as ([[bc' c''] m''] & [= <- <- <-] & H1). simpl in *.
    apply elem_of_list_fmap in H2 as ([[t2 c2] m2] & [= -> ->] & H2). apply elem_of_list_In, in_flat_map in H2 as ([[bt2 t2'] td2] & Hin2 & H2).
    apply in_map_iff in H2 as ([[bc2 c2'] m2'] & [= <- <- <-] & _). simpl in *. apply elem_of_list_In in Hin2.
    destruct (proj1 (Forall_forall _ _) Hft' _ Hin2) as [Hb2 _]. simpl in Hb2. subst bt2.
    apply Hnotin. apply elem_of_list_fmap. exists (false, t2', td2). auto.
Qed.


Lemma rev_flat_map_rev {A B} (F : A -> list B) (E : list A) : rev (flat_map F (rev E)) = flat_map (fun e => rev (F e)) E.
Proof.
  induction E as [|a E IH]; [reflexivity|]. simpl. rewrite flat_map_app. simpl. rewrite app_nil_r, rev_app_distr, IH. reflexivity.
Qed.

(* ---------------------------------------------------------------------------------------------------------- *)
Section CalcWithRemoves.
  Variable ord : name -> list name.
  Variable s : doc.
  Hypothesis Hwfs : wf s.
  Variable CC : list (name * name).

  (* documents of the same shape whose cells are related by P *)
  Definition crel (P : name -> name -> rowid -> val -> val -> Prop) (x y : doc) : Prop :=
    d_schema x = d_schema y /\ (forall t, drows x t = drows y t) /\
    forall t c, oagree (fun c1 c2 => c_info c1 = c_info c2 /\ forall r, P t c r (cget c1 r) (cget c2 r)) (dcol x t c) (dcol y t c).

  Lemma crel_table P x y t tb2 :
    crel P x y -> d_tables y !! t = Some tb2 ->
    exists tb1, d_tables x !! t = Some tb1 /\ t_rows tb1 = t_rows tb2 /\
      forall c, oagree (fun c1 c2 => c_info c1 = c_info c2 /\ forall r, P t c r (cget c1 r) (cget c2 r)) (t_cols tb1 !! c) (t_cols tb2 !! c).
  Proof.
    intros (_ & Hr & Hc) Ht. pose proof (Hr t) as Hrt. unfold drows in Hrt. rewrite Ht in Hrt.
    destruct (d_tables x !! t) as [tb1|] eqn:E1; [|discriminate]. simpl in Hrt. injection Hrt as Hrt.
    exists tb1. split; [reflexivity|]. split; [exact Hrt|]. intros c. specialize (Hc t c). unfold dcol in Hc.
    rewrite E1, Ht in Hc. exact Hc.
  Qed.

  Lemma crel_tset P x y t tb1 tb2 :
    crel P x y -> t_rows tb1 = t_rows tb2 ->
    (forall c, oagree (fun c1 c2 => c_info c1 = c_info c2 /\ forall r, P t c r (cget c1 r) (cget c2 r)) (t_cols tb1 !! c) (t_cols tb2 !! c)) ->
    crel P (tset t tb1 x) (tset t tb2 y).
  Proof.
    intros (Hs & Hr & Hc) Hrows Hcols. split; [exact Hs|]. split.
    - intros t'. rewrite !drows_tset. destruct (decide (t' = t)); [rewrite Hrows; reflexivity|apply Hr].
    - intros t' c. rewrite !dcol_tset. destruct (decide (t' = t)) as [->|]; [apply Hcols|apply Hc].
  Qed.

  Lemma crel_mono (P Q : name -> name -> rowid -> val -> val -> Prop) x y :
    (forall t c r v1 v2, P t c r v1 v2 -> Q t c r v1 v2) -> crel P x y -> crel Q x y.
  Proof.
    intros H (Hs & Hr & Hc). split; [exact Hs|]. split; [exact Hr|]. intros t c. specialize (Hc t c).
    destruct (dcol x t c), (dcol y t c); simpl in *; try exact Hc. destruct Hc as [Hi Hg]. split; [exact Hi|]. intros r. apply H, Hg.
  Qed.

  Lemma crel_refl (P : name -> name -> rowid -> val -> val -> Prop) x : (forall t c r v, P t c r v v) -> crel P x x.
  Proof. intros H. split; [reflexivity|]. split; [reflexivity|]. intros t c. destruct (dcol x t c); simpl; [split; [reflexivity|intros; apply H]|exact I]. Qed.

  (* writing the same cells into two columns: at every row either both are untouched or both hold the same value *)
  Lemma col_writes_cases c rows vals : forall c1 c2 r,
    c_info c1 = c_info c2 ->
    (cget (col_writes c rows vals c1) r = cget c1 r /\ cget (col_writes c rows vals c2) r = cget c2 r) \/
    cget (col_writes c rows vals c1) r = cget (col_writes c rows vals c2) r.
  Proof.
    induction vals as [|cv vals IH]; intros c1 c2 r Hi; [left; split; reflexivity|]. unfold col_writes in *. simpl.
    destruct (decide (cv.1 = c)); [|apply IH; exact Hi].
    destruct (IH (cset_list c1 (zip rows cv.2)) (cset_list c2 (zip rows cv.2)) r) as [[H1 H2]|H]; [rewrite !cset_list_info; exact Hi| |right; exact H].
    rewrite H1, H2, !cget_cset_list_last. destruct (lastv (zip rows cv.2) r); simpl; [right; reflexivity|left; split; reflexivity].
  Qed.

  (* ---- frame: designated cells D (recomputed columns, checkpoint rows) of x keep their value through the replay of
     the undo list, whatever y holds there; cells of recomputed columns on rows the checkpoint lacks are free ---- *)
  Definition Dok (D : name -> name -> rowid -> option val) : Prop :=
    forall t c r v, D t c r = Some v -> (t, c) ∈ CC /\ oldrow s t r.
  Definition PD (D : name -> name -> rowid -> option val) (t c : name) (r : rowid) (v1 v2 : val) : Prop :=
    v1 = v2 \/ ((t, c) ∈ CC /\ ~ oldrow s t r) \/ is_Some (D t c r).
  Definition holds (D : name -> name -> rowid -> option val) (x : doc) : Prop :=
    forall t c r v, D t c r = Some v ->
      exists rows col, drows x t = Some rows /\ r ∈ rows /\ dcol x t c = Some col /\ cget col r = v.
  Definition FR (D : name -> name -> rowid -> option val) (x y : doc) : Prop := crel (PD D) x y /\ holds D x.

  Definition undo_okx (a : action) : Prop :=
    match a with
    | BulkUpdateRecord t _ vals => forall c, c ∈ vals.*1 -> (t, c) ∉ CC
    | BulkRemoveRecord t rows => forall r, r ∈ rows -> ~ oldrow s t r
    | BulkAddRecord _ _ _ => True
    | _ => False
    end.

  Lemma PD_eq D t c r v1 v2 : Dok D -> (t, c) ∉ CC -> PD D t c r v1 v2 -> v1 = v2.
  Proof. intros HD Hn [H|[[H _]|[v H]]]; [exact H|contradiction|]. destruct (HD _ _ _ _ H) as [Hx _]. contradiction. Qed.

  Lemma frame_update D x y t rows vals y' :
    Dok D -> FR D x y -> wf x -> (forall c, c ∈ vals.*1 -> (t, c) ∉ CC) ->
    apply_doc ord y (BulkUpdateRecord t rows vals) = Some y' ->
    exists x', apply_doc ord x (BulkUpdateRecord t rows vals) = Some x' /\ FR D x' y' /\ wf x'.
  Proof.
    intros HD [Hag Hh] Hw1 Hok H. rewrite apply_doc_unfold in H. simpl normalize in H.
    destruct (d_tables y !! t) as [tb2|] eqn:Ht2.
    2: { unfold steps_of in H. rewrite Ht2 in H. discriminate. }
    destruct (exec_all _ _) as [st'|] eqn:E; [|discriminate]. simpl in H. injection H as <-.
    destruct (exec_update ord y t tb2 rows vals _ _ _ _ Ht2 E) as (Hr & Hk & ->). simpl.
    destruct (crel_table _ x y t tb2 Hag Ht2) as (tb1 & Ht1 & Hrows & Hcols).
    assert (Hr1 : Forall (fun r => r ∈ t_rows tb1) rows) by (rewrite Hrows; exact Hr).
    assert (Hk1 : Forall (known tb1) vals).
    { eapply Forall_impl; [exact Hk|]. intros cv [cl Hcl]. unfold known. specialize (Hcols cv.1). rewrite Hcl in Hcols.
      destruct (t_cols tb1 !! cv.1); [eexists; reflexivity|contradiction]. }
    exists (tset t (write_cols rows vals tb1) x). split; [|split; [split|]].
    - rewrite apply_doc_unfold. simpl normalize. rewrite (exec_update_ok ord x t tb1) by assumption. reflexivity.
    - apply crel_tset; [exact Hag|rewrite !write_cols_rows; exact Hrows|]. intros c. rewrite !write_cols_lookup. specialize (Hcols c).
      destruct (t_cols tb1 !! c) as [c1|], (t_cols tb2 !! c) as [c2|]; simpl in *; try exact Hcols.
      destruct Hcols as [Hi Hg]. split; [rewrite !col_writes_info; exact Hi|]. intros r.
      destruct (decide (c ∈ vals.*1)) as [Hin|Hnin]; [|rewrite !col_writes_notin by exact Hnin; apply Hg].
      left. apply cget_col_writes_congr; [exact Hi|]. exact (PD_eq D t c r _ _ HD (Hok c Hin) (Hg r)).
    - intros t' c' r v HDv. destruct (Hh t' c' r v HDv) as (rws & col & H1 & H2 & H3 & H4).
      destruct (decide (t' = t)) as [->|Hne].
      + exists rws, col. rewrite drows_tset, dcol_tset, !decide_True by reflexivity. rewrite write_cols_rows, write_cols_lookup.
        unfold drows in H1. rewrite Ht1 in H1. unfold dcol in H3. rewrite Ht1 in H3. simpl in H1, H3. rewrite H3. simpl.
        rewrite col_writes_notin; [auto|]. intros Hx. exact (Hok c' Hx (proj1 (HD _ _ _ _ HDv))).
      + exists rws, col. rewrite drows_tset, dcol_tset, !decide_False by exact Hne. auto.
    - destruct (wf_schema_of_table _ _ _ Hw1 Ht1) as (sc & Hs & _).
      exact (proj1 (undo_update ord x t tb1 sc rows vals Hw1 Ht1 Hs Hr1 Hk1)).
  Qed.

  Lemma frame_remove D x y t rows y' :
    Dok D -> FR D x y -> wf x -> (forall r, r ∈ rows -> ~ oldrow s t r) ->
    apply_doc ord y (BulkRemoveRecord t rows) = Some y' ->
    exists x', apply_doc ord x (BulkRemoveRecord t rows) = Some x' /\ FR D x' y' /\ wf x'.
  Proof.
    intros HD [Hag Hh] Hw1 Hok H. rewrite apply_doc_unfold in H. simpl normalize in H.
    destruct (d_tables y !! t) as [tb2|] eqn:Ht2.
    2: { unfold steps_of in H. rewrite Ht2 in H. discriminate. }
    destruct (exec_all _ _) as [st'|] eqn:E; [|discriminate]. simpl in H. injection H as <-.
    destruct (crel_table _ x y t tb2 Hag Ht2) as (tb1 & Ht1 & Hrows & Hcols).
    pose proof (exec_remove_ok ord x t tb1 rows [] [] None Ht1) as H1. rewrite Hrows in H1. cbv zeta in H1.
    destruct (wf_schema_of_table _ _ _ Hw1 Ht1) as (sc & Hs & _).
    pose proof (proj1 (undo_remove ord x t tb1 sc rows Hw1 Ht1 Hs)) as Hw1'. rewrite Hrows in Hw1'.
    destruct (exec_remove ord y t tb2 rows _ _ _ _ Ht2 E) as [[Hnil ->]|[Hne ->]]; simpl.
    - rewrite Hnil in H1. exists x. split; [rewrite apply_doc_unfold; simpl normalize; rewrite H1; reflexivity|]. split; [split|]; assumption.
    - set (rows' := filter (fun r => r ∈ t_rows tb2) rows) in *.
      assert (Hsub : forall r, r ∈ rows' -> r ∈ rows) by (intros r Hr; apply elem_of_list_filter in Hr; tauto).
      exists (tset t (remove_tb ord t tb1 rows') x). split; [|split; [split|exact Hw1']].
      + rewrite apply_doc_unfold. simpl normalize. rewrite H1. destruct rows'; [contradiction|reflexivity].
      + apply crel_tset; [exact Hag|unfold remove_tb; rewrite !write_cols_rows; simpl; rewrite Hrows; reflexivity|].
        intros c. specialize (Hcols c). destruct (t_cols tb1 !! c) as [c1|] eqn:E1, (t_cols tb2 !! c) as [c2|] eqn:E2; simpl in Hcols; try contradiction.
        * destruct (remove_tb_col ord t tb1 rows' c c1 E1) as (c1' & -> & Hi1 & Hg1).
          destruct (remove_tb_col ord t tb2 rows' c c2 E2) as (c2' & -> & Hi2 & Hg2). simpl. destruct Hcols as [Hi Hg].
          split; [congruence|]. intros r. rewrite Hg1, Hg2. destruct (decide (r ∈ rows')); [left; unfold cdefault; rewrite Hi; reflexivity|apply Hg].
        * rewrite !(remove_tb_none ord) by assumption. exact I.
      + intros t' c' r v HDv. destruct (Hh t' c' r v HDv) as (rws & col & H2 & H3 & H4 & H5).
        destruct (decide (t' = t)) as [->|Hnt].
        * unfold drows in H2. rewrite Ht1 in H2. unfold dcol in H4. rewrite Ht1 in H4. simpl in H2, H4. injection H2 as <-.
          destruct (remove_tb_col ord t tb1 rows' c' col H4) as (col' & Hl & _ & Hg').
          assert (Hnr : r ∉ rows') by (intros Hx; exact (Hok r (Hsub r Hx) (proj2 (HD _ _ _ _ HDv)))).
          exists (t_rows tb1 ∖ list_to_set rows'), col'. rewrite drows_tset, dcol_tset, !decide_True by reflexivity.
          split; [unfold remove_tb; rewrite write_cols_rows; reflexivity|]. split; [|split; [exact Hl|]].
          -- apply elem_of_difference. split; [exact H3|]. intros Hx. apply Hnr. apply in_l2s. exact Hx.
          -- rewrite Hg', decide_False by exact Hnr. exact H5.
        * exists rws, col. rewrite drows_tset, dcol_tset, !decide_False by exact Hnt. auto.
  Qed.

  Lemma frame_add D x y t rows vals y' :
    Dok D -> FR D x y -> wf x ->
    apply_doc ord y (BulkAddRecord t rows vals) = Some y' ->
    exists x', apply_doc ord x (BulkAddRecord t rows vals) = Some x' /\ FR D x' y' /\ wf x'.
  Proof.
    intros HD [Hag Hh] Hw1 H. rewrite apply_doc_unfold in H. simpl normalize in H.
    destruct (d_tables y !! t) as [tb2|] eqn:Ht2.
    2: { unfold steps_of in H. rewrite Ht2 in H. discriminate. }
    destruct (exec_all _ _) as [st'|] eqn:E; [|discriminate]. simpl in H. injection H as <-.
    destruct (exec_add ord y t tb2 rows vals _ _ _ _ Ht2 E) as (Hr & Hk & ->). simpl.
    destruct (crel_table _ x y t tb2 Hag Ht2) as (tb1 & Ht1 & Hrows & Hcols).
    assert (Hr1 : Forall (fun r => r ∉ t_rows tb1) rows) by (rewrite Hrows; exact Hr).
    assert (Hk1 : Forall (known tb1) vals).
    { eapply Forall_impl; [exact Hk|]. intros cv [cl Hcl]. unfold known. specialize (Hcols cv.1). rewrite Hcl in Hcols.
      destruct (t_cols tb1 !! cv.1); [eexists; reflexivity|contradiction]. }
    exists (tset t (write_cols rows vals (set_rows (fun rs => list_to_set rows ∪ rs) tb1)) x). split; [|split; [split|]].
    - rewrite apply_doc_unfold. simpl normalize. rewrite (exec_add_ok ord x t tb1) by assumption. reflexivity.
    - apply crel_tset; [exact Hag|rewrite !write_cols_rows; simpl; rewrite Hrows; reflexivity|]. intros c. rewrite !write_cols_lookup. simpl.
      specialize (Hcols c). destruct (t_cols tb1 !! c) as [c1|], (t_cols tb2 !! c) as [c2|]; simpl in *; try exact Hcols.
      destruct Hcols as [Hi Hg]. split; [rewrite !col_writes_info; exact Hi|]. intros r.
      destruct (col_writes_cases c rows vals c1 c2 r Hi) as [[Hq1 Hq2]|Hq]; [rewrite Hq1, Hq2; apply Hg|left; exact Hq].
    - intros t' c' r v HDv. destruct (Hh t' c' r v HDv) as (rws & col & H1 & H2 & H3 & H4).
      destruct (decide (t' = t)) as [->|Hne].
      + unfold drows in H1. rewrite Ht1 in H1. unfold dcol in H3. rewrite Ht1 in H3. simpl in H1, H3. injection H1 as <-.
        exists (list_to_set rows ∪ t_rows tb1), (col_writes c' rows vals col).
        rewrite drows_tset, dcol_tset, !decide_True by reflexivity. rewrite write_cols_rows, write_cols_lookup. simpl. rewrite H3. simpl.
        split; [reflexivity|]. split; [set_solver|]. split; [reflexivity|]. rewrite col_writes_other; [exact H4|].
        intros Hx. rewrite Forall_forall in Hr1. exact (Hr1 r Hx H2).
      + exists rws, col. rewrite drows_tset, dcol_tset, !decide_False by exact Hne. auto.
    - destruct (wf_schema_of_table _ _ _ Hw1 Ht1) as (sc & Hs & _).
      exact (proj1 (undo_add ord x t tb1 sc rows vals Hw1 Ht1 Hs Hr1 Hk1)).
  Qed.

  Lemma replay_frame D l : forall x y res,
    Dok D -> Forall undo_okx l -> FR D x y -> wf x -> replay ord y l = Some res ->
    exists res1, replay ord x l = Some res1 /\ FR D res1 res /\ wf res1.
  Proof.
    induction l as [|a l IH]; intros x y res HD Hok Hfr Hw H; simpl in *.
    - injection H as <-. eauto.
    - inversion Hok as [|? ? Ha Hl]; subst. destruct (apply_doc ord y a) as [y'|] eqn:E; [|discriminate]. simpl in H.
      destruct a; try contradiction.
      + destruct (frame_add D x y _ _ _ y' HD Hfr Hw E) as (x' & -> & Hfr' & Hw'). simpl. eapply IH; eauto.
      + destruct (frame_remove D x y _ _ y' HD Hfr Hw Ha E) as (x' & -> & Hfr' & Hw'). simpl. eapply IH; eauto.
      + destruct (frame_update D x y _ _ _ y' HD Hfr Hw Ha E) as (x' & -> & Hfr' & Hw'). simpl. eapply IH; eauto.
  Qed.

  (* ---- the invariant of a bundle of updates / adds of new rows / removes / recomputations of CC ---- *)
  Lemma oldrow_dec t r : {oldrow s t r} + {~ oldrow s t r}.
  Proof.
    unfold oldrow. destruct (drows s t) as [rows0|] eqn:E.
    - destruct (decide (r ∈ rows0)) as [Hin|Hn]; [left; eauto|right]. intros (x & [= <-] & Hx). contradiction.
    - right. intros (x & Hx & _). discriminate.
  Qed.

  (* the value the summary says a cell has now *)
  Definition aft (sm : summary) (t c : name) (r : rowid) : option val :=
    match sm_get sm t c with Some m => snd <$> m !! r | None => None end.
  Definition PO (sm : summary) (t c : name) (r : rowid) (v1 v0 : val) : Prop :=
    oldrow s t r -> v1 = default v0 (aft sm t c r).

  Definition ev_okx (e : event) : Prop :=
    match e with
    | EDoc a => match normalize a with
                | BulkUpdateRecord t _ vals => forall c, c ∈ vals.*1 -> (t, c) ∉ CC
                | BulkAddRecord t rows vals => (forall c, c ∈ vals.*1 -> (t, c) ∉ CC) /\ (forall r, r ∈ rows -> ~ oldrow s t r)
                | BulkRemoveRecord _ _ => True
                | _ => False end
    | ECalc t c _ => (t, c) ∈ CC
    end.

  Definition K1x (sm : summary) (d : doc) : Prop :=
    forall t c m, sm_get sm t c = Some m ->
      (t, c) ∈ CC /\ exists col col0, dcol d t c = Some col /\ dcol s t c = Some col0 /\
        forall r b a, m !! r = Some (b, a) -> oldrow s t r -> b = cget col0 r.
  Definition K2x (sm : summary) (d : doc) : Prop :=
    forall t c col, (t, c) ∈ CC -> dcol d t c = Some col ->
      exists col0, dcol s t c = Some col0 /\ c_info col = c_info col0 /\
        forall rows r, drows d t = Some rows -> r ∈ rows -> oldrow s t r -> cget col r = default (cget col0 r) (aft sm t c r).
  Definition marksx (sm : summary) (d : doc) : Prop :=
    (forall t r, sm_before sm t !! r = Some false -> ~ oldrow s t r) /\
    (forall t rows r, drows d t = Some rows -> r ∈ rows -> ~ oldrow s t r -> sm_before sm t !! r = Some false) /\
    (forall t c m r, sm_get sm t c = Some m -> is_Some (m !! r) -> ~ oldrow s t r -> sm_before sm t !! r = Some false) /\
    (forall t rows r, drows d t = Some rows -> sm_after sm t !! r = Some false -> r ∉ rows) /\
    (forall t rows r, drows d t = Some rows -> r ∉ rows -> (oldrow s t r \/ sm_before sm t !! r = Some false) ->
                      sm_after sm t !! r = Some false) /\
    (forall t r, sm_before sm t !! r = Some true -> oldrow s t r).

  Definition JX (st : mstate) (log : list sumcall) : Prop :=
    let d := ms_doc st in let sm := summary_of log in
    ms_saved st = None /\ wf d /\
    (exists res, replay ord d (rev (ms_undo st)) = Some res /\ wf res /\ crel (PO sm) res s) /\
    Forall undo_okx (ms_undo st) /\ sm_shx sm /\ K1x sm d /\ K2x sm d /\ marksx sm d.

  Lemma PO_same_aft sm sm' x : (forall t c r, aft sm' t c r = aft sm t c r) -> crel (PO sm) x s -> crel (PO sm') x s.
  Proof. intros H. apply crel_mono. intros t c r v1 v2 HP Ho. rewrite H. exact (HP Ho). Qed.

  Lemma aft_same_get sm sm' : (forall t c, sm_get sm' t c = sm_get sm t c) -> forall t c r, aft sm' t c r = aft sm t c r.
  Proof. intros H t c r. unfold aft. rewrite H. reflexivity. Qed.

  Local Opaque col_writes.

  Lemma JX_update st log t rows vals st' :
    JX st log -> (forall c, c ∈ vals.*1 -> (t, c) ∉ CC) ->
    exec_all st (steps_of ord (ms_doc st) (BulkUpdateRecord t rows vals)) = Some st' ->
    JX st' log /\ sum_log (steps_of ord (ms_doc st) (BulkUpdateRecord t rows vals)) = [].
  Proof.
    intros (Hsv & Hw & (res & Hrep & Hwres & Hres) & Hun & Hpl & HK1 & HK2 & HM) Hok Hex. set (d := ms_doc st) in *.
    destruct (d_tables d !! t) as [tb|] eqn:Ht.
    2: { exfalso. unfold steps_of in Hex. rewrite Ht in Hex. discriminate. }
    rewrite <- (mstate_eta st), Hsv in Hex. fold d in Hex.
    destruct (exec_update ord d t tb rows vals _ _ _ _ Ht Hex) as (Hr & Hk & ->).
    destruct (wf_schema_of_table _ _ _ Hw Ht) as (sc & Hs & Hwt).
    split.
    2: { unfold steps_of. rewrite Ht. rewrite bool_decide_eq_true_2 by exact Hr. unfold update_steps.
         rewrite (known_prefix_all _ _ Hk), bool_decide_eq_true_2 by reflexivity. simpl. apply sum_log_cells. }
    destruct (undo_update ord d t tb sc rows vals Hw Ht Hs Hr Hk) as [Hw' Hu'].
    set (d' := tset t (write_cols rows vals tb) d) in *.
    assert (Hcol : forall t' c', (t', c') ∈ CC -> dcol d' t' c' = dcol d t' c').
    { intros t' c' Hin. unfold d'. rewrite dcol_tset. destruct (decide (t' = t)) as [->|]; [|reflexivity].
      unfold dcol. rewrite Ht. simpl. rewrite write_cols_lookup. destruct (t_cols tb !! c') as [cl|]; simpl; [|reflexivity].
      rewrite col_writes_notin; [reflexivity|]. intros Hx. exact (Hok c' Hx Hin). }
    assert (Hrw : forall t', drows d' t' = drows d t').
    { intros t'. unfold d'. rewrite drows_tset. destruct (decide (t' = t)) as [->|]; [|reflexivity]. unfold drows. rewrite Ht, write_cols_rows. reflexivity. }
    unfold JX. cbv zeta. cbn [ms_doc ms_undo ms_saved]. fold d'.
    split; [reflexivity|]. split; [exact Hw'|]. split.
    { exists res. rewrite rev_app_distr. simpl. rewrite Hu'. simpl. auto. }
    split; [apply Forall_app; split; [exact Hun|repeat constructor; simpl; rewrite (update_undo_fst _ _ _ Hk); exact Hok]|].
    split; [exact Hpl|]. split; [|split].
    - intros t' c' m Hm. destruct (HK1 t' c' m Hm) as [Hin (col & col0 & H1 & H2)]. split; [exact Hin|].
      exists col, col0. rewrite (Hcol t' c' Hin). auto.
    - intros t' c' col Hin Hd. rewrite (Hcol t' c' Hin) in Hd. destruct (HK2 t' c' col Hin Hd) as (col0 & H1 & H2 & H3).
      exists col0. split; [exact H1|]. split; [exact H2|]. intros rws r Hrws. rewrite Hrw in Hrws. exact (H3 rws r Hrws).
    - destruct HM as (M1 & M2 & M2' & M3 & M4 & M5). repeat split; auto.
      + intros t' rws r Hrws. rewrite Hrw in Hrws. exact (M2 t' rws r Hrws).
      + intros t' rws r Hrws. rewrite Hrw in Hrws. exact (M3 t' rws r Hrws).
      + intros t' rws r Hrws. rewrite Hrw in Hrws. exact (M4 t' rws r Hrws).
  Qed.

  Lemma JX_add st log t rows vals st' :
    JX st log -> (forall c, c ∈ vals.*1 -> (t, c) ∉ CC) -> (forall r, r ∈ rows -> ~ oldrow s t r) ->
    exec_all st (steps_of ord (ms_doc st) (BulkAddRecord t rows vals)) = Some st' ->
    JX st' (log ++ sum_log (steps_of ord (ms_doc st) (BulkAddRecord t rows vals))).
  Proof.
    intros (Hsv & Hw & (res & Hrep & Hwres & Hres) & Hun & Hpl & HK1 & HK2 & HM) Hok Hnew Hex. set (d := ms_doc st) in *.
    destruct (d_tables d !! t) as [tb|] eqn:Ht.
    2: { exfalso. unfold steps_of in Hex. rewrite Ht in Hex. discriminate. }
    rewrite <- (mstate_eta st), Hsv in Hex. fold d in Hex.
    destruct (exec_add ord d t tb rows vals _ _ _ _ Ht Hex) as (Hr & Hk & ->).
    destruct (wf_schema_of_table _ _ _ Hw Ht) as (sc & Hs & Hwt).
    assert (Hlog : sum_log (steps_of ord d (BulkAddRecord t rows vals)) = [SAddRecords t rows]).
    { unfold steps_of. rewrite Ht. rewrite bool_decide_eq_false_2.
      2: { intros H. apply Exists_exists in H as (r & Hin & Hmem). rewrite Forall_forall in Hr. exact (Hr r Hin Hmem). }
      unfold add_records_steps. simpl. rewrite (known_prefix_all _ _ Hk), bool_decide_eq_true_2 by reflexivity.
      rewrite app_nil_r, sum_log_app, sum_log_addrows, sum_log_cells. reflexivity. }
    rewrite Hlog.
    destruct (undo_add ord d t tb sc rows vals Hw Ht Hs Hr Hk) as [Hw' Hu'].
    set (d' := tset t (write_cols rows vals (set_rows (fun rs : gset rowid => list_to_set rows ∪ rs) tb)) d) in *.
    assert (Hcol : forall t' c', (t', c') ∈ CC -> dcol d' t' c' = dcol d t' c').
    { intros t' c' Hin. unfold d'. rewrite dcol_tset. destruct (decide (t' = t)) as [->|]; [|reflexivity].
      unfold dcol. rewrite Ht. simpl. rewrite write_cols_lookup. simpl. destruct (t_cols tb !! c') as [cl|]; simpl; [|reflexivity].
      rewrite col_writes_notin; [reflexivity|]. intros Hx. exact (Hok c' Hx Hin). }
    assert (Hrw : forall t', drows d' t' = if decide (t' = t) then Some (list_to_set rows ∪ t_rows tb) else drows d t').
    { intros t'. unfold d'. rewrite drows_tset. destruct (decide (t' = t)) as [->|]; [|reflexivity]. rewrite write_cols_rows. reflexivity. }
    assert (Hdr : drows d t = Some (t_rows tb)) by (unfold drows; rewrite Ht; reflexivity).
    rewrite Forall_forall in Hr.
    unfold JX. cbv zeta. unfold summary_of. rewrite foldl_app. simpl foldl. fold (summary_of log). set (sm := summary_of log) in *.
    destruct (sm_step_add_shx sm t rows Hpl) as (Hpl' & Hget & Hbf & Haf).
    pose proof (aft_same_get sm _ Hget) as Haft.
    cbn [ms_doc ms_undo ms_saved]. fold d'.
    split; [reflexivity|]. split; [exact Hw'|]. split.
    { exists res. rewrite rev_app_distr. simpl. rewrite Hu'. simpl. split; [exact Hrep|]. split; [exact Hwres|].
      apply (PO_same_aft sm); assumption. }
    split; [apply Forall_app; split; [exact Hun|repeat constructor; exact Hnew]|].
    split; [exact Hpl'|]. split; [|split].
    - intros t' c' m Hm. rewrite Hget in Hm. destruct (HK1 t' c' m Hm) as [Hin (col & col0 & H1 & H2)]. split; [exact Hin|].
      exists col, col0. rewrite (Hcol t' c' Hin). auto.
    - intros t' c' col Hin Hd. rewrite (Hcol t' c' Hin) in Hd. destruct (HK2 t' c' col Hin Hd) as (col0 & H1 & H2 & H3).
      exists col0. split; [exact H1|]. split; [exact H2|]. intros rws r Hrws Hrin Hold. rewrite Haft. rewrite Hrw in Hrws.
      destruct (decide (t' = t)) as [->|Hne]; [|exact (H3 rws r Hrws Hrin Hold)].
      injection Hrws as <-. apply (H3 (t_rows tb) r Hdr); [|exact Hold].
      apply elem_of_union in Hrin as [Hx|Hx]; [|exact Hx]. apply in_l2s in Hx. exfalso. exact (Hnew r Hx Hold).
    - destruct HM as (M1 & M2 & M2' & M3 & M4 & M5).
      assert (Hb : forall t' r, sm_before (sm_step sm (SAddRecords t rows)) t' !! r =
                 if decide (t' = t) then match sm_before sm t !! r with Some x => Some x | None => if decide (r ∈ rows) then Some false else None end
                 else sm_before sm t' !! r).
      { intros t' r. rewrite Hbf. destruct (decide (t' = t)) as [->|]; [apply mark_first_lookup|reflexivity]. }
      assert (Ha : forall t' r, sm_after (sm_step sm (SAddRecords t rows)) t' !! r =
                 if decide (t' = t) then (if decide (r ∈ rows) then Some true else sm_after sm t !! r) else sm_after sm t' !! r).
      { intros t' r. rewrite Haf. destruct (decide (t' = t)) as [->|]; [apply mark_last_lookup|reflexivity]. }
      split; [|split; [|split; [|split; [|split]]]].
      + intros t' r. rewrite Hb. destruct (decide (t' = t)) as [->|]; [|apply M1].
        destruct (sm_before sm t !! r) as [x|] eqn:E; [intros [= ->]; apply M1; exact E|].
        destruct (decide (r ∈ rows)); [intros _; apply Hnew; assumption|discriminate].
      + intros t' rws r Hrws Hrin Hno. rewrite Hb. rewrite Hrw in Hrws. destruct (decide (t' = t)) as [->|]; [|exact (M2 t' rws r Hrws Hrin Hno)].
        injection Hrws as <-. destruct (sm_before sm t !! r) as [[|]|] eqn:E.
        * exfalso. exact (Hno (M5 t r E)).
        * reflexivity.
        * apply elem_of_union in Hrin as [Hx|Hx]; [apply in_l2s in Hx; rewrite decide_True by exact Hx; reflexivity|].
          pose proof (M2 t (t_rows tb) r Hdr Hx Hno). congruence.
      + intros t' c' m r Hm Hmr Hno. rewrite Hget in Hm. rewrite Hb. pose proof (M2' t' c' m r Hm Hmr Hno) as H0.
        destruct (decide (t' = t)) as [->|]; [rewrite H0; reflexivity|exact H0].
      + intros t' rws r Hrws. rewrite Ha. rewrite Hrw in Hrws. destruct (decide (t' = t)) as [->|]; [|exact (M3 t' rws r Hrws)].
        injection Hrws as <-. destruct (decide (r ∈ rows)) as [|Hnr]; [discriminate|]. intros Hx Hin.
        apply elem_of_union in Hin as [Hin|Hin]; [apply in_l2s in Hin; contradiction|]. exact (M3 t (t_rows tb) r Hdr Hx Hin).
      + intros t' rws r Hrws Hnin Hor. rewrite Ha. rewrite Hb in Hor. rewrite Hrw in Hrws.
        destruct (decide (t' = t)) as [->|]; [|exact (M4 t' rws r Hrws Hnin Hor)]. injection Hrws as <-.
        assert (Hnr : r ∉ rows) by (intros Hx; apply Hnin; apply elem_of_union; left; apply in_l2s; exact Hx).
        rewrite decide_False by exact Hnr. apply (M4 t (t_rows tb) r Hdr); [set_solver|].
        destruct Hor as [Ho|Hb0]; [left; exact Ho|right]. destruct (sm_before sm t !! r); [exact Hb0|]. rewrite decide_False in Hb0 by exact Hnr. discriminate.
      + intros t' r. rewrite Hb. destruct (decide (t' = t)) as [->|]; [|apply M5].
        destruct (sm_before sm t !! r) as [x|] eqn:E; [intros [= ->]; apply M5; exact E|]. destruct (decide (r ∈ rows)); discriminate.
  Qed.

  Lemma sum_log_delrows t rows : sum_log (map (MDelRow t) rows) = [].
  Proof. induction rows as [|r rows IH]; [reflexivity|]. simpl. exact IH. Qed.

  Lemma JX_remove st log t rows st' :
    JX st log ->
    exec_all st (steps_of ord (ms_doc st) (BulkRemoveRecord t rows)) = Some st' ->
    JX st' (log ++ sum_log (steps_of ord (ms_doc st) (BulkRemoveRecord t rows))).
  Proof.
    intros HJ Hex. pose proof HJ as (Hsv & Hw & (res & Hrep & Hwres & Hres) & Hun & Hpl & HK1 & HK2 & HM). set (d := ms_doc st) in *.
    destruct (d_tables d !! t) as [tb|] eqn:Ht.
    2: { exfalso. unfold steps_of in Hex. rewrite Ht in Hex. discriminate. }
    rewrite <- (mstate_eta st), Hsv in Hex. fold d in Hex.
    destruct (wf_schema_of_table _ _ _ Hw Ht) as (sc & Hs & Hwt).
    pose proof (undo_remove ord d t tb sc rows Hw Ht Hs) as Hundo. cbv zeta in Hundo.
    destruct (exec_remove ord d t tb rows _ _ _ _ Ht Hex) as [[Hnil ->]|[Hne ->]].
    { unfold steps_of. rewrite Ht, Hnil. simpl. rewrite app_nil_r.
      unfold JX. cbv zeta. cbn [ms_doc ms_undo ms_saved]. fold d. rewrite <- Hsv at 1.
      destruct HJ as (_ & H2). split; [exact Hsv|exact H2]. }
    set (rows' := filter (fun r => r ∈ t_rows tb) rows) in *.
    assert (Hlog : sum_log (steps_of ord d (BulkRemoveRecord t rows)) = [SRemoveRecords t rows']).
    { unfold steps_of. rewrite Ht. fold rows'. destruct rows' as [|r0 rs] eqn:Er; [contradiction|]. rewrite <- Er.
      rewrite !sum_log_app, sum_log_delrows, sum_log_cells. reflexivity. }
    rewrite Hlog. destruct Hundo as [Hw' Hu']. fold rows' in Hw', Hu'.
    set (d' := tset t (remove_tb ord t tb rows') d) in *.
    assert (Hin' : forall r, r ∈ rows' -> r ∈ t_rows tb) by (intros r Hr; apply elem_of_list_filter in Hr; tauto).
    assert (Hcol : forall t' c' col, dcol d t' c' = Some col ->
              exists col', dcol d' t' c' = Some col' /\ c_info col' = c_info col /\
                           forall r, (t' <> t \/ r ∉ rows') -> cget col' r = cget col r).
    { intros t' c' col Hd. unfold d'. rewrite dcol_tset. destruct (decide (t' = t)) as [->|Hne'].
      - unfold dcol in Hd. rewrite Ht in Hd. simpl in Hd. destruct (remove_tb_col ord t tb rows' c' col Hd) as (col' & Hl & Hi & Hg).
        exists col'. split; [exact Hl|]. split; [exact Hi|]. intros r [Hx|Hx]; [contradiction|]. rewrite Hg, decide_False by exact Hx. reflexivity.
      - exists col. auto. }
    assert (Hrw : forall t', drows d' t' = if decide (t' = t) then Some (t_rows tb ∖ list_to_set rows') else drows d t').
    { intros t'. unfold d'. rewrite drows_tset. destruct (decide (t' = t)) as [->|]; [|reflexivity].
      unfold remove_tb. rewrite write_cols_rows. reflexivity. }
    assert (Hdr : drows d t = Some (t_rows tb)) by (unfold drows; rewrite Ht; reflexivity).
    unfold JX. cbv zeta. unfold summary_of. rewrite foldl_app. simpl foldl. fold (summary_of log). set (sm := summary_of log) in *.
    destruct (sm_step_remove_shx sm t rows' Hpl) as (Hpl' & Hget & Hbf & Haf).
    pose proof (aft_same_get sm _ Hget) as Haft.
    cbn [ms_doc ms_undo ms_saved]. fold d'.
    split; [reflexivity|]. split; [exact Hw'|]. split.
    { exists res. rewrite rev_app_distr. simpl. rewrite Hu'. simpl. split; [exact Hrep|]. split; [exact Hwres|].
      apply (PO_same_aft sm); assumption. }
    split; [apply Forall_app; split; [exact Hun|repeat constructor]|].
    split; [exact Hpl'|]. split; [|split].
    - intros t' c' m Hm. rewrite Hget in Hm. destruct (HK1 t' c' m Hm) as [Hin (col & col0 & H1 & H2)]. split; [exact Hin|].
      destruct (Hcol t' c' col H1) as (col' & Hl & _). exists col', col0. auto.
    - intros t' c' col' Hin Hd'.
      assert (Hex0 : exists col, dcol d t' c' = Some col).
      { unfold d' in Hd'. rewrite dcol_tset in Hd'. destruct (decide (t' = t)) as [->|]; [|eauto].
        unfold dcol. rewrite Ht. simpl. destruct (t_cols tb !! c') as [col|] eqn:E; [eauto|]. rewrite (remove_tb_none ord) in Hd' by exact E. discriminate. }
      destruct Hex0 as (col & Hd). destruct (Hcol t' c' col Hd) as (col2 & Hl & Hi & Hg). rewrite Hl in Hd'. injection Hd' as <-.
      destruct (HK2 t' c' col Hin Hd) as (col0 & H1 & H2 & H3). exists col0. split; [exact H1|]. split; [congruence|].
      intros rws r Hrws Hrin Hold. rewrite Haft. rewrite Hrw in Hrws. destruct (decide (t' = t)) as [->|Hne'].
      + injection Hrws as <-. apply elem_of_difference in Hrin as [Hr1 Hr2].
        rewrite Hg by (right; intros Hx; apply Hr2; apply in_l2s; exact Hx). exact (H3 (t_rows tb) r Hdr Hr1 Hold).
      + rewrite Hg by (left; exact Hne'). exact (H3 rws r Hrws Hrin Hold).
    - destruct HM as (M1 & M2 & M2' & M3 & M4 & M5).
      assert (Hb : forall t' r, sm_before (sm_step sm (SRemoveRecords t rows')) t' !! r =
                 if decide (t' = t) then match sm_before sm t !! r with Some x => Some x | None => if decide (r ∈ rows') then Some true else None end
                 else sm_before sm t' !! r).
      { intros t' r. rewrite Hbf. destruct (decide (t' = t)) as [->|]; [apply mark_first_lookup|reflexivity]. }
      assert (Ha : forall t' r, sm_after (sm_step sm (SRemoveRecords t rows')) t' !! r =
                 if decide (t' = t) then (if decide (r ∈ rows') then Some false else sm_after sm t !! r) else sm_after sm t' !! r).
      { intros t' r. rewrite Haf. destruct (decide (t' = t)) as [->|]; [apply mark_last_lookup|reflexivity]. }
      split; [|split; [|split; [|split; [|split]]]].
      + intros t' r. rewrite Hb. destruct (decide (t' = t)) as [->|]; [|apply M1].
        destruct (sm_before sm t !! r) as [x|] eqn:E; [intros [= ->]; apply M1; exact E|]. destruct (decide (r ∈ rows')); discriminate.
      + intros t' rws r Hrws Hrin Hno. rewrite Hb. rewrite Hrw in Hrws. destruct (decide (t' = t)) as [->|]; [|exact (M2 t' rws r Hrws Hrin Hno)].
        injection Hrws as <-. apply elem_of_difference in Hrin as [Hr1 _]. rewrite (M2 t (t_rows tb) r Hdr Hr1 Hno). reflexivity.
      + intros t' c' m r Hm Hmr Hno. rewrite Hget in Hm. rewrite Hb. pose proof (M2' t' c' m r Hm Hmr Hno) as H0.
        destruct (decide (t' = t)) as [->|]; [rewrite H0; reflexivity|exact H0].
      + intros t' rws r Hrws. rewrite Ha. rewrite Hrw in Hrws. destruct (decide (t' = t)) as [->|]; [|exact (M3 t' rws r Hrws)].
        injection Hrws as <-. destruct (decide (r ∈ rows')) as [Hr|Hnr].
        * intros _ Hx. apply elem_of_difference in Hx as [_ Hx]. apply Hx. apply in_l2s. exact Hr.
        * intros Hx Hin. apply elem_of_difference in Hin as [Hin _]. exact (M3 t (t_rows tb) r Hdr Hx Hin).
      + intros t' rws r Hrws Hnin Hor. rewrite Ha. rewrite Hb in Hor. rewrite Hrw in Hrws.
        destruct (decide (t' = t)) as [->|]; [|exact (M4 t' rws r Hrws Hnin Hor)]. injection Hrws as <-.
        destruct (decide (r ∈ rows')) as [Hr|Hnr]; [reflexivity|].
        apply (M4 t (t_rows tb) r Hdr).
        * intros Hx. apply Hnin. apply elem_of_difference. split; [exact Hx|]. intros Hy. apply Hnr. apply in_l2s. exact Hy.
        * destruct Hor as [Ho|Hb0]; [left; exact Ho|right]. destruct (sm_before sm t !! r); [exact Hb0|]. try rewrite decide_False in Hb0 by exact Hnr. discriminate.
      + intros t' r. rewrite Hb. destruct (decide (t' = t)) as [->|]; [|apply M5].
        destruct (sm_before sm t !! r) as [x|] eqn:E; [intros [= ->]; apply M5; exact E|].
        destruct (decide (r ∈ rows')) as [Hr|]; [|discriminate]. intros _.
        destruct (oldrow_dec t r) as [Ho|Hno]; [exact Ho|]. pose proof (M2 t (t_rows tb) r Hdr (Hin' r Hr) Hno). congruence.
  Qed.

  Lemma aft_merge sm t c col cells t' c' r :
    sm_shx sm ->
    aft (sm_step sm (SAddChanges t c (map (fun rv => (rv.1, cget col rv.1, rv.2)) cells))) t' c' r
    = if decide (t' = t /\ c' = c) then (match lastv cells r with Some v => Some v | None => aft sm t c r end) else aft sm t' c' r.
  Proof.
    intros Hpl. destruct (sm_step_changes_shx sm t c (map (fun rv => (rv.1, cget col rv.1, rv.2)) cells) Hpl) as (_ & Hget & _).
    unfold aft. rewrite Hget. destruct (decide (t' = t /\ c' = c)) as [[-> ->]|]; [|reflexivity].
    rewrite merge_changes_spec. destruct (lastv cells r); [reflexivity|]. destruct (sm_get sm t c); [reflexivity|].
    simpl. rewrite lookup_empty. reflexivity.
  Qed.

  Lemma JX_calc st log t c cells st' :
    JX st log -> (t, c) ∈ CC ->
    exec_all st (event_steps ord (ms_doc st) (ECalc t c cells)) = Some st' ->
    JX st' (log ++ sum_log (event_steps ord (ms_doc st) (ECalc t c cells))).
  Proof.
    intros HJ HinCC Hex. destruct cells as [|rv0 cells0] eqn:Ecells.
    { simpl in *. injection Hex as <-. rewrite app_nil_r. exact HJ. }
    rewrite <- Ecells in *. assert (Hne : cells ≠ []) by (rewrite Ecells; discriminate). clear Ecells.
    destruct HJ as (Hsv & Hw & (res & Hrep & Hwres & Hres) & Hun & Hpl & HK1 & HK2 & HM). set (d := ms_doc st) in *.
    destruct (d_tables d !! t) as [tb|] eqn:Ht.
    2: { exfalso. unfold event_steps in Hex. destruct cells; [contradiction|]. rewrite Ht in Hex. discriminate. }
    destruct (t_cols tb !! c) as [col|] eqn:Hc.
    2: { exfalso. unfold event_steps in Hex. destruct cells; [contradiction|]. rewrite Ht, Hc in Hex. discriminate. }
    assert (Hsteps : event_steps ord d (ECalc t c cells) =
      if bool_decide (Forall (fun rv => rv.1 ∈ t_rows tb) cells)
      then map (fun rv => MSetCell t c rv.1 rv.2) cells ++ [MSum (SAddChanges t c (map (fun rv => (rv.1, cget col rv.1, rv.2)) cells))]
      else [MFail]).
    { unfold event_steps. destruct cells; [contradiction|]. rewrite Ht, Hc. reflexivity. }
    rewrite Hsteps in *. destruct (bool_decide (Forall _ cells)) eqn:Eb; [|discriminate].
    apply bool_decide_eq_true in Eb. rewrite Forall_forall in Eb.
    rewrite exec_set_cells in Hex. simpl in Hex. injection Hex as <-.
    rewrite sum_log_app, sum_log_sets. simpl.
    destruct (wf_schema_of_table _ _ _ Hw Ht) as (sc & Hs & Hwt).
    destruct (wf_table_col _ _ _ _ Hwt Hc) as [Hsc Hwc].
    assert (Hin : forall r, r ∈ cells.*1 -> r ∈ t_rows tb).
    { intros r Hr. apply elem_of_list_fmap in Hr as (rv & -> & Hrv). apply Eb. exact Hrv. }
    assert (Hdc : dcol d t c = Some col) by (unfold dcol; rewrite Ht; exact Hc).
    assert (Hdr : drows d t = Some (t_rows tb)) by (unfold drows; rewrite Ht; reflexivity).
    destruct (HK2 t c col HinCC Hdc) as (col0 & Hc0 & Hinfo & Hval).
    set (f := fun cl : column => cset_list cl cells). set (d' := upd_table t (upd_col c f) d).
    assert (Hd' : d' = tset t (upd_col c f tb) d) by (apply upd_table_tset; exact Ht).
    set (ch := map (fun rv => (rv.1, cget col rv.1, rv.2)) cells).
    set (sm := summary_of log) in *.
    assert (Hw' : wf d').
    { rewrite Hd'. apply (wf_tset_same d t sc); [exact Hw|exact Hs|].
      eapply wf_table_same_schema; [exact Hwt|unfold upd_col; simpl; apply dom_alter_L|].
      intros c0 cl' Hl. destruct (decide (c0 = c)) as [->|Hn0].
      - unfold upd_col in Hl. simpl in Hl. rewrite lookup_alter, Hc in Hl. injection Hl as <-. exists col. split; [exact Hc|].
        split; [apply cset_list_info|]. apply wf_col_cset_list; [exact Hwc|exact Hin].
      - unfold upd_col in Hl. simpl in Hl. rewrite lookup_alter_ne in Hl by auto. exists cl'. split; [exact Hl|]. split; [reflexivity|].
        exact (proj2 (wf_table_col _ _ _ _ Hwt Hl)). }
    (* the designated cells: what the recomputation wrote on rows of the checkpoint *)
    set (D := fun (t' c' : name) (r : rowid) =>
                if decide (t' = t /\ c' = c) then (if oldrow_dec t r then lastv cells r else None) else None).
    assert (HD : Dok D).
    { intros t' c' r v. unfold D. destruct (decide (t' = t /\ c' = c)) as [[-> ->]|]; [|discriminate].
      destruct (oldrow_dec t r); [auto|discriminate]. }
    assert (Hfr : FR D d' d).
    { split.
      - split; [reflexivity|]. split; [intros t'; unfold d'; apply drows_upd|]. intros t' c'. unfold d'. rewrite dcol_upd.
        destruct (decide (t' = t /\ c' = c)) as [[-> ->]|Hne'].
        + rewrite Hdc. simpl. split; [apply cset_list_info|]. intros r. unfold f. rewrite cget_cset_list_last.
          destruct (lastv cells r) as [v|] eqn:El; [|left; reflexivity]. simpl. right.
          destruct (oldrow_dec t r) as [Ho|Hno]; [right|left; auto].
          unfold D. rewrite decide_True by auto. destruct (oldrow_dec t r); [rewrite El; eauto|contradiction].
        + destruct (dcol d t' c'); simpl; [split; [reflexivity|intros; left; reflexivity]|exact I].
      - intros t' c' r v. unfold D. destruct (decide (t' = t /\ c' = c)) as [[-> ->]|]; [|discriminate].
        destruct (oldrow_dec t r) as [Ho|]; [|discriminate]. intros El.
        exists (t_rows tb), (f col). unfold d'. rewrite drows_upd, dcol_upd, decide_True by auto. rewrite Hdc. simpl.
        split; [exact Hdr|]. split; [apply Hin; eapply lastv_Some_in; exact El|]. split; [reflexivity|].
        unfold f. rewrite cget_cset_list_last, El. reflexivity. }
    destruct (replay_frame D (rev (ms_undo st)) d' d res HD (Forall_rev Hun) Hfr Hw' Hrep) as (res1 & Hrep1 & [Hcr1 Hh1] & Hwres1).
    unfold JX. cbv zeta. unfold summary_of. rewrite foldl_app. cbn [foldl]. fold (summary_of log). fold sm. fold ch.
    destruct (sm_step_changes_shx sm t c ch Hpl) as (Hpl' & Hget & Hbf & Haf).
    cbn [ms_doc ms_undo ms_saved]. fold d. fold d'.
    split; [exact Hsv|]. split; [exact Hw'|]. split.
    { exists res1. split; [exact Hrep1|]. split; [exact Hwres1|].
      destruct Hcr1 as (Hs1 & Hr1 & Hc1). destruct Hres as (Hs2 & Hr2 & Hc2).
      split; [congruence|]. split; [intros t'; rewrite Hr1; apply Hr2|]. intros t' c'. specialize (Hc1 t' c'). specialize (Hc2 t' c').
      destruct (dcol res1 t' c') as [x1|] eqn:E1, (dcol res t' c') as [x2|], (dcol s t' c') as [x0|]; cbn [oagree] in *; try contradiction; try exact I.
      destruct Hc1 as [Hi1 Hg1]. destruct Hc2 as [Hi2 Hg2]. split; [congruence|]. intros r Hold.
      unfold ch. rewrite (aft_merge sm t c col cells t' c' r Hpl).
      destruct (D t' c' r) as [v|] eqn:ED.
      - destruct (Hh1 t' c' r v ED) as (rws & cl & _ & _ & Hcl & Hv). rewrite E1 in Hcl. injection Hcl as <-.
        unfold D in ED. destruct (decide (t' = t /\ c' = c)) as [[-> ->]|]; [|discriminate].
        destruct (oldrow_dec t r); [|discriminate]. rewrite ED. simpl. exact Hv.
      - assert (Heq : cget x1 r = cget x2 r).
        { destruct (Hg1 r) as [H|[[_ H]|[v H]]]; [exact H|contradiction|congruence]. }
        rewrite Heq, (Hg2 r Hold). unfold D in ED. destruct (decide (t' = t /\ c' = c)) as [[-> ->]|]; [|reflexivity].
        destruct (oldrow_dec t r); [|contradiction]. rewrite ED. reflexivity. }
    split; [exact Hun|]. split; [exact Hpl'|]. split; [|split].
    - intros t' c' m Hm. rewrite Hget in Hm. destruct (decide (t' = t /\ c' = c)) as [[-> ->]|Hne'].
      + injection Hm as <-. split; [exact HinCC|]. exists (f col), col0. unfold d'. rewrite dcol_upd, decide_True by auto. rewrite Hdc.
        split; [reflexivity|]. split; [exact Hc0|]. intros r b a Hm Hold. unfold ch in Hm. rewrite merge_changes_spec in Hm.
        destruct (lastv cells r) as [v|] eqn:El.
        * injection Hm as <- <-. destruct (sm_get sm t c) as [m0|] eqn:Eg; simpl.
          -- destruct (m0 !! r) as [[b0 a0]|] eqn:E0; simpl.
             ++ destruct (HK1 t c m0 Eg) as [_ (cl & cl0 & _ & Hcl0 & HE)]. rewrite Hc0 in Hcl0. injection Hcl0 as <-. exact (HE r b0 a0 E0 Hold).
             ++ rewrite (Hval (t_rows tb) r Hdr (Hin r (lastv_Some_in _ _ _ El)) Hold). unfold aft. rewrite Eg, E0. reflexivity.
          -- rewrite lookup_empty. simpl. rewrite (Hval (t_rows tb) r Hdr (Hin r (lastv_Some_in _ _ _ El)) Hold). unfold aft. rewrite Eg. reflexivity.
        * destruct (sm_get sm t c) as [m0|] eqn:Eg; simpl in Hm; [|rewrite lookup_empty in Hm; discriminate].
          destruct (HK1 t c m0 Eg) as [_ (cl & cl0 & _ & Hcl0 & HE)]. rewrite Hc0 in Hcl0. injection Hcl0 as <-. exact (HE r b a Hm Hold).
      + destruct (HK1 t' c' m Hm) as [Hin' (cl & cl0 & H1 & H2)]. split; [exact Hin'|].
        exists cl, cl0. unfold d'. rewrite dcol_upd, decide_False by exact Hne'. auto.
    - intros t' c' cl Hin' Hd. unfold d' in Hd. rewrite dcol_upd in Hd. destruct (decide (t' = t /\ c' = c)) as [[-> ->]|Hne'].
      + rewrite Hdc in Hd. simpl in Hd. injection Hd as <-. exists col0. split; [exact Hc0|]. split; [unfold f; rewrite cset_list_info; exact Hinfo|].
        intros rws r Hrws Hrin Hold. unfold d' in Hrws. rewrite drows_upd in Hrws. unfold ch. rewrite (aft_merge sm t c col cells t c r Hpl), decide_True by auto.
        unfold f. rewrite cget_cset_list_last. destruct (lastv cells r); [reflexivity|]. simpl. exact (Hval rws r Hrws Hrin Hold).
      + destruct (HK2 t' c' cl Hin' Hd) as (cl0 & H1 & H2 & H3). exists cl0. split; [exact H1|]. split; [exact H2|].
        intros rws r Hrws. unfold d' in Hrws. rewrite drows_upd in Hrws. unfold ch. rewrite (aft_merge sm t c col cells t' c' r Hpl), decide_False by exact Hne'.
        exact (H3 rws r Hrws).
    - destruct HM as (M1 & M2 & M2' & M3 & M4 & M5).
      assert (Hrw : forall t', drows d' t' = drows d t') by (intros t'; unfold d'; apply drows_upd).
      split; [|split; [|split; [|split; [|split]]]].
      + intros t' r. rewrite Hbf. apply M1.
      + intros t' rws r Hrws. rewrite Hrw in Hrws. rewrite Hbf. exact (M2 t' rws r Hrws).
      + intros t' c' m r Hm Hmr Hno. rewrite Hbf. rewrite Hget in Hm. destruct (decide (t' = t /\ c' = c)) as [[-> ->]|Hne'].
        * injection Hm as <-. unfold ch in Hmr. rewrite merge_changes_spec in Hmr. destruct (lastv cells r) as [v|] eqn:El.
          -- exact (M2 t (t_rows tb) r Hdr (Hin r (lastv_Some_in _ _ _ El)) Hno).
          -- destruct (sm_get sm t c) as [m0|] eqn:Eg; simpl in Hmr; [exact (M2' t c m0 r Eg Hmr Hno)|].
             rewrite lookup_empty in Hmr. destruct Hmr; discriminate.
        * exact (M2' t' c' m r Hm Hmr Hno).
      + intros t' rws r Hrws. rewrite Hrw in Hrws. rewrite Haf. exact (M3 t' rws r Hrws).
      + intros t' rws r Hrws. rewrite Hrw in Hrws. rewrite Haf, Hbf. exact (M4 t' rws r Hrws).
      + intros t' r. rewrite Hbf. apply M5.
  Qed.

  (* ---- the flush, phase 1: the appended updates put the preserved changed rows back (they run first) ---- *)
  Definition D1 (sm : summary) (sel : list (name * name)) (t c : name) (r : rowid) : option val :=
    if decide ((t, c) ∈ sel) then
      match sm_get sm t c with
      | Some m => if decide (r ∈ pres_rows (sm_before sm t) (sm_after sm t) m) then fst <$> m !! r else None
      | None => None end
    else None.

  Lemma PD_mono (D D' : name -> name -> rowid -> option val) t c r v1 v2 :
    (is_Some (D t c r) -> is_Some (D' t c r)) -> PD D t c r v1 v2 -> PD D' t c r v1 v2.
  Proof. intros H [H1|[H1|H1]]; [left; exact H1|right; left; exact H1|right; right; auto]. Qed.

  Lemma D1_app_other sm sel t c t' c' r : (t', c') <> (t, c) -> D1 sm (sel ++ [(t, c)]) t' c' r = D1 sm sel t' c' r.
  Proof.
    intros Hne. unfold D1. destruct (decide ((t', c') ∈ sel)) as [Hin|Hn].
    - rewrite decide_True by (apply elem_of_app; left; exact Hin). reflexivity.
    - rewrite decide_False; [reflexivity|]. intros Hx. apply elem_of_app in Hx as [Hx|Hx]; [contradiction|].
      apply elem_of_list_singleton in Hx. contradiction.
  Qed.

  Lemma upd1_frame sm sel d x t c m :
    sm_get sm t c = Some m -> (t, c) ∉ sel -> (t, c) ∈ CC ->
    (forall r, r ∈ pres_rows (sm_before sm t) (sm_after sm t) m -> exists rows, drows d t = Some rows /\ r ∈ rows) ->
    is_Some (dcol d t c) ->
    FR (D1 sm sel) x d -> wf x ->
    exists x', replay ord x (rev (backx sm (t, c, m))) = Some x' /\ FR (D1 sm (sel ++ [(t, c)])) x' d /\ wf x'.
  Proof.
    intros Hget Hnsel HinCC Hpres [col Hcol] [Hcr Hh] Hw1.
    set (pr := pres_rows (sm_before sm t) (sm_after sm t) m) in *.
    assert (Hmono : forall t' c' r v1 v2, PD (D1 sm sel) t' c' r v1 v2 -> PD (D1 sm (sel ++ [(t, c)])) t' c' r v1 v2).
    { intros t' c' r v1 v2. apply PD_mono. unfold D1. destruct (decide ((t', c') ∈ sel)) as [Hin|]; [|intros [? ?]; discriminate].
      rewrite decide_True by (apply elem_of_app; left; exact Hin). auto. }
    assert (HDnew : forall r v, D1 sm (sel ++ [(t, c)]) t c r = Some v -> r ∈ pr /\ exists a, m !! r = Some (v, a)).
    { intros r v. unfold D1. rewrite decide_True by (apply elem_of_app; right; left). rewrite Hget. fold pr.
      destruct (decide (r ∈ pr)) as [Hr|]; [|discriminate]. destruct (m !! r) as [[b a]|]; simpl; [|discriminate]. intros [= <-]. eauto. }
    unfold backx, back1x, upd1. cbn [fst snd]. fold pr. destruct pr as [|r0 rs] eqn:Epr.
    - simpl. exists x. split; [reflexivity|]. split; [|exact Hw1]. split; [exact (crel_mono _ _ _ _ Hmono Hcr)|].
      intros t' c' r v HDv. destruct (decide ((t', c') = (t, c))) as [[= -> ->]|Hne].
      + destruct (HDnew r v HDv) as [Hx _]. inversion Hx.
      + rewrite D1_app_other in HDv by exact Hne. exact (Hh t' c' r v HDv).
    - rewrite <- Epr in *. clear Epr r0 rs. cbn [rev app].
      unfold dcol in Hcol. destruct (d_tables d !! t) as [tb|] eqn:Ht; [|discriminate]. simpl in Hcol.
      destruct (crel_table _ x d t tb Hcr Ht) as (tb1 & Ht1 & Hrows1 & Hcols1).
      pose proof (Hcols1 c) as Hc1. rewrite Hcol in Hc1. destruct (t_cols tb1 !! c) as [c1|] eqn:E1; [|contradiction]. simpl in Hc1.
      set (vals := [(c, befores m pr)]).
      assert (Hr1 : Forall (fun r => r ∈ t_rows tb1) pr).
      { apply Forall_forall. intros r Hr. destruct (Hpres r Hr) as (rws & Hrws & Hin). unfold drows in Hrws. rewrite Ht in Hrws.
        injection Hrws as <-. rewrite Hrows1. exact Hin. }
      assert (Hk1 : Forall (known tb1) vals) by (constructor; [eexists; exact E1|constructor]).
      exists (tset t (write_cols pr vals tb1) x). split; [|split; [split|]].
      + apply replay1. rewrite apply_doc_unfold. simpl normalize. rewrite (exec_update_ok ord x t tb1) by assumption. reflexivity.
      + rewrite <- (tset_id t tb d Ht). apply crel_tset; [exact (crel_mono _ _ _ _ Hmono Hcr)|rewrite write_cols_rows; exact Hrows1|].
        intros c'. rewrite write_cols_lookup. specialize (Hcols1 c').
        destruct (t_cols tb1 !! c') as [x1|] eqn:Ex1, (t_cols tb !! c') as [x2|]; simpl in *; try exact Hcols1.
        destruct Hcols1 as [Hi Hg]. split; [rewrite col_writes_info; exact Hi|]. intros r.
        destruct (decide (c' = c)) as [->|Hnc].
        * destruct (decide (r ∈ pr)) as [Hr|Hr]; [|rewrite col_writes_other by exact Hr; apply Hmono, Hg].
          right. right. unfold D1. rewrite decide_True by (apply elem_of_app; right; left). rewrite Hget. fold pr. rewrite decide_True by exact Hr.
          unfold pr, pres_rows in Hr. apply elem_of_list_filter in Hr as [_ Hr]. apply (old_changed_in ord) in Hr as [(b & a & E & _) _].
          match goal with |- is_Some (fst <$> ?y) => replace y with (Some (b, a)) end. eexists; reflexivity.
        * rewrite col_writes_notin by (intros Hx; apply elem_of_list_singleton in Hx; simpl in Hx; congruence). apply Hmono, Hg.
      + intros t' c' r v HDv. destruct (decide ((t', c') = (t, c))) as [[= -> ->]|Hne].
        * destruct (HDnew r v HDv) as [Hr (a & Ea)]. exists (t_rows tb1), (col_writes c pr vals c1).
          rewrite drows_tset, dcol_tset, !decide_True by reflexivity. rewrite write_cols_rows, write_cols_lookup, E1. simpl.
          split; [reflexivity|]. split; [rewrite Forall_forall in Hr1; exact (Hr1 r Hr)|]. split; [reflexivity|].
          rewrite (col_writes_restores c pr (fun r => from_option fst 0 (m !! r))); [|left| |exact Hr].
          -- cbv beta. transitivity (from_option fst 0 (Some (v, a))); [f_equal; exact Ea|reflexivity].
          -- intros cv Hcv _. apply elem_of_list_singleton in Hcv. subst cv. reflexivity.
        * rewrite D1_app_other in HDv by exact Hne. destruct (Hh t' c' r v HDv) as (rws & cl & H1 & H2 & H3 & H4).
          destruct (decide (t' = t)) as [->|Hnt].
          -- assert (Hcc : c' <> c) by congruence. exists rws, cl. rewrite drows_tset, dcol_tset, !decide_True by reflexivity.
             unfold drows in H1. rewrite Ht1 in H1. unfold dcol in H3. rewrite Ht1 in H3. simpl in H1, H3.
             rewrite write_cols_rows, write_cols_lookup, H3. simpl.
             rewrite col_writes_notin by (intros Hx; apply elem_of_list_singleton in Hx; simpl in Hx; congruence). auto.
          -- exists rws, cl. rewrite drows_tset, dcol_tset, !decide_False by exact Hnt. auto.
      + destruct (wf_schema_of_table _ _ _ Hw1 Ht1) as (sc & Hs & _).
        exact (proj1 (undo_update ord x t tb1 sc pr vals Hw1 Ht1 Hs Hr1 Hk1)).
  Qed.

  Lemma backsx_frame sm d (E : list (name * name * gmap rowid (val * val))) : forall sel x,
    NoDup E.*1 ->
    (forall e, e ∈ E -> sm_get sm e.1.1 e.1.2 = Some e.2 /\ e.1 ∉ sel /\ e.1 ∈ CC /\ is_Some (dcol d e.1.1 e.1.2) /\
       forall r, r ∈ pres_rows (sm_before sm e.1.1) (sm_after sm e.1.1) e.2 -> exists rows, drows d e.1.1 = Some rows /\ r ∈ rows) ->
    FR (D1 sm sel) x d -> wf x ->
    exists x', replay ord x (rev (flat_map (backx sm) E)) = Some x' /\ FR (D1 sm (sel ++ rev E.*1)) x' d /\ wf x'.
  Proof.
    induction E as [|[[t c] m] E IH]; intros sel x Hnd Hok Hfr Hw.
    - simpl. rewrite app_nil_r. eauto.
    - simpl flat_map. rewrite rev_app_distr, replay_app. rewrite fmap_cons in Hnd. apply NoDup_cons in Hnd as [Hnotin Hnd'].
      destruct (IH sel x Hnd') as (x2 & -> & Hfr2 & Hw2); [intros e He; apply Hok; right; exact He|exact Hfr|exact Hw|].
      destruct (Hok (t, c, m)) as (Hget & Hns & Hcc & Hcol & Hpres); [left|]. cbn [fst snd] in *.
      destruct (upd1_frame sm (sel ++ rev E.*1) d x2 t c m Hget) as (x3 & Hrep & Hfr3 & Hw3); try assumption.
      { intros Hx. apply elem_of_app in Hx as [Hx|Hx]; [contradiction|]. apply (proj1 (elem_of_rev _ _)) in Hx. exact (Hnotin Hx). }
      exists x3. cbn [mbind option_bind]. split; [exact Hrep|]. rewrite fmap_cons. cbn [rev fst]. rewrite app_assoc. auto.
  Qed.

  (* ---- phase 3: the front-inserted updates put the gone changed rows back (they run last) ---- *)
  Definition Dg (sm : summary) (sel : list (name * name)) (t c : name) (r : rowid) : option val :=
    if decide ((t, c) ∈ sel) then
      match sm_get sm t c with
      | Some m => if decide (r ∈ gone_rows (sm_before sm t) (sm_after sm t) m) then snd <$> m !! r else None
      | None => None end
    else None.
  Definition PG (sm : summary) (sel : list (name * name)) (t c : name) (r : rowid) (v1 v0 : val) : Prop :=
    oldrow s t r -> v1 = default v0 (Dg sm sel t c r).

  Lemma Dg_cons_other sm sel t c t' c' r : (t', c') <> (t, c) -> Dg sm ((t, c) :: sel) t' c' r = Dg sm sel t' c' r.
  Proof.
    intros Hne. unfold Dg. destruct (decide ((t', c') ∈ sel)) as [Hin|Hn].
    - rewrite decide_True by (right; exact Hin). reflexivity.
    - rewrite decide_False; [reflexivity|]. intros Hx. apply elem_of_cons in Hx as [Hx|Hx]; contradiction.
  Qed.

  Lemma crel_tset_gen (P Q : name -> name -> rowid -> val -> val -> Prop) x y t tb1 tb2 :
    crel Q x y -> (forall t' c' r v1 v2, t' <> t -> Q t' c' r v1 v2 -> P t' c' r v1 v2) ->
    t_rows tb1 = t_rows tb2 ->
    (forall c, oagree (fun c1 c2 => c_info c1 = c_info c2 /\ forall r, P t c r (cget c1 r) (cget c2 r)) (t_cols tb1 !! c) (t_cols tb2 !! c)) ->
    crel P (tset t tb1 x) (tset t tb2 y).
  Proof.
    intros (Hs & Hr & Hc) HQ Hrows Hcols. split; [exact Hs|]. split.
    - intros t'. rewrite !drows_tset. destruct (decide (t' = t)); [rewrite Hrows; reflexivity|apply Hr].
    - intros t' c. rewrite !dcol_tset. destruct (decide (t' = t)) as [->|Hne]; [apply Hcols|]. specialize (Hc t' c).
      destruct (dcol x t' c), (dcol y t' c); simpl in *; try exact Hc. destruct Hc as [Hi Hg]. split; [exact Hi|].
      intros r. apply HQ; [exact Hne|apply Hg].
  Qed.

  Lemma front_step sm sel x t c m col0 :
    sm_get sm t c = Some m -> (t, c) ∉ sel -> dcol s t c = Some col0 ->
    (forall r b a, m !! r = Some (b, a) -> oldrow s t r -> b = cget col0 r) ->
    (forall r, r ∈ gone_rows (sm_before sm t) (sm_after sm t) m -> oldrow s t r) ->
    crel (PG sm ((t, c) :: sel)) x s -> wf x ->
    exists x', replay ord x (rev (frontx sm (t, c, m))) = Some x' /\ crel (PG sm sel) x' s /\ wf x'.
  Proof.
    intros Hget Hnsel Hc0 HE1 Hgold Hcr Hw1.
    set (gn := gone_rows (sm_before sm t) (sm_after sm t) m) in *.
    assert (Hother : forall t' c' r v1 v2, (t', c') <> (t, c) -> PG sm ((t, c) :: sel) t' c' r v1 v2 -> PG sm sel t' c' r v1 v2).
    { intros t' c' r v1 v2 Hne HP Ho. rewrite <- (Dg_cons_other sm sel t c t' c' r Hne). exact (HP Ho). }
    assert (Hhere : forall r v1 v2, r ∉ gn -> PG sm ((t, c) :: sel) t c r v1 v2 -> PG sm sel t c r v1 v2).
    { intros r v1 v2 Hr HP Ho. specialize (HP Ho). unfold Dg in *. rewrite decide_True in HP by left. rewrite Hget in HP. fold gn in HP.
      rewrite decide_False in HP by exact Hr. rewrite decide_False by exact Hnsel. exact HP. }
    unfold dcol in Hc0. destruct (d_tables s !! t) as [tb0|] eqn:Ht0; [|discriminate]. simpl in Hc0.
    destruct (crel_table _ x s t tb0 Hcr Ht0) as (tb1 & Ht1 & Hrows1 & Hcols1).
    unfold frontx, front1, upd1. cbn [fst snd]. fold gn. destruct gn as [|r0 rs] eqn:Egn.
    - simpl. exists x. split; [reflexivity|]. split; [|exact Hw1].
      rewrite <- (tset_id t tb1 x Ht1), <- (tset_id t tb0 s Ht0).
      apply (crel_tset_gen _ _ x s t tb1 tb0 Hcr); [intros t' c' r v1 v2 Hne; apply Hother; congruence|exact Hrows1|].
      intros c'. specialize (Hcols1 c'). destruct (t_cols tb1 !! c'), (t_cols tb0 !! c'); simpl in *; try exact Hcols1.
      destruct Hcols1 as [Hi Hg]. split; [exact Hi|]. intros r. destruct (decide (c' = c)) as [->|Hnc].
      + apply Hhere; [apply not_elem_of_nil|apply Hg].
      + apply Hother; [congruence|apply Hg].
    - rewrite <- Egn in *. clear Egn r0 rs. cbn [rev app].
      pose proof (Hcols1 c) as Hc1. rewrite Hc0 in Hc1. destruct (t_cols tb1 !! c) as [c1|] eqn:E1; [|contradiction]. simpl in Hc1.
      set (vals := [(c, befores m gn)]).
      assert (Hr1 : Forall (fun r => r ∈ t_rows tb1) gn).
      { apply Forall_forall. intros r Hr. destruct (Hgold r Hr) as (rws & Hrws & Hin). unfold drows in Hrws. rewrite Ht0 in Hrws.
        injection Hrws as <-. rewrite Hrows1. exact Hin. }
      assert (Hk1 : Forall (known tb1) vals) by (constructor; [eexists; exact E1|constructor]).
      exists (tset t (write_cols gn vals tb1) x). split; [|split].
      + apply replay1. rewrite apply_doc_unfold. simpl normalize. rewrite (exec_update_ok ord x t tb1) by assumption. reflexivity.
      + rewrite <- (tset_id t tb0 s Ht0).
        apply (crel_tset_gen _ _ x s t _ tb0 Hcr); [intros t' c' r v1 v2 Hne; apply Hother; congruence|rewrite write_cols_rows; exact Hrows1|].
        intros c'. rewrite write_cols_lookup. specialize (Hcols1 c').
        destruct (t_cols tb1 !! c') as [x1|] eqn:Ex1, (t_cols tb0 !! c') as [x0|] eqn:Ex0; simpl in *; try exact Hcols1.
        destruct Hcols1 as [Hi Hg]. split; [rewrite col_writes_info; exact Hi|]. intros r.
        destruct (decide (c' = c)) as [->|Hnc].
        * rewrite Hc0 in Ex0. injection Ex0 as <-. destruct (decide (r ∈ gn)) as [Hr|Hr]; [|rewrite col_writes_other by exact Hr; apply Hhere; [exact Hr|apply Hg]].
          intros Ho. unfold Dg. rewrite decide_False by exact Hnsel. simpl.
          rewrite (col_writes_restores c gn (fun r => from_option fst 0 (m !! r))); [|left| |exact Hr].
          -- cbv beta. unfold gn, gone_rows in Hr. apply elem_of_list_filter in Hr as [_ Hr]. apply (old_changed_in ord) in Hr as [(b & a & E & _) _].
             transitivity (from_option fst 0 (Some (b, a))); [f_equal; exact E|]. simpl. exact (HE1 r b a E Ho).
          -- intros cv Hcv _. apply elem_of_list_singleton in Hcv. subst cv. reflexivity.
        * rewrite col_writes_notin by (intros Hx; apply elem_of_list_singleton in Hx; simpl in Hx; congruence).
          apply Hother; [congruence|apply Hg].
      + destruct (wf_schema_of_table _ _ _ Hw1 Ht1) as (sc & Hs & _).
        exact (proj1 (undo_update ord x t tb1 sc gn vals Hw1 Ht1 Hs Hr1 Hk1)).
  Qed.

  Lemma fronts_final sm (E : list (name * name * gmap rowid (val * val))) : forall x,
    NoDup E.*1 ->
    (forall e, e ∈ E -> sm_get sm e.1.1 e.1.2 = Some e.2 /\ exists col0, dcol s e.1.1 e.1.2 = Some col0 /\
       (forall r b a, e.2 !! r = Some (b, a) -> oldrow s e.1.1 r -> b = cget col0 r) /\
       (forall r, r ∈ gone_rows (sm_before sm e.1.1) (sm_after sm e.1.1) e.2 -> oldrow s e.1.1 r)) ->
    crel (PG sm E.*1) x s -> wf x ->
    exists x', replay ord x (flat_map (fun e => rev (frontx sm e)) E) = Some x' /\ crel (PG sm []) x' s /\ wf x'.
  Proof.
    induction E as [|[[t c] m] E IH]; intros x Hnd Hok Hcr Hw.
    - simpl. eauto.
    - simpl flat_map. rewrite replay_app. rewrite fmap_cons in Hnd, Hcr. apply NoDup_cons in Hnd as [Hnotin Hnd'].
      destruct (Hok (t, c, m)) as (Hget & col0 & Hc0 & HE1 & Hg); [left|]. cbn [fst snd] in *.
      destruct (front_step sm E.*1 x t c m col0 Hget Hnotin Hc0 HE1 Hg Hcr Hw) as (x1 & -> & Hcr1 & Hw1).
      cbn [mbind option_bind]. apply IH; [exact Hnd'|intros e He; apply Hok; right; exact He|exact Hcr1|exact Hw1].
  Qed.

  Lemma crel_final sm x : crel (PG sm []) x s -> wf x -> x = s.
  Proof.
    intros Hcr Hw. pose proof Hcr as (Hs & Hr & _). apply doc_ext; [exact Hs|]. intros t.
    destruct (d_tables s !! t) as [tb2|] eqn:Ht2.
    - destruct (crel_table _ x s t tb2 Hcr Ht2) as (tb1 & Ht1 & Hrows & Hcols). rewrite Ht1. f_equal.
      destruct (wf_schema_of_table _ _ _ Hw Ht1) as (sc1 & _ & Hwt1). destruct (wf_schema_of_table _ _ _ Hwfs Ht2) as (sc2 & _ & Hwt2).
      apply table_ext; [exact Hrows|]. intros c. specialize (Hcols c).
      destruct (t_cols tb1 !! c) as [c1|] eqn:E1, (t_cols tb2 !! c) as [c2|] eqn:E2; simpl in Hcols; try contradiction; [|reflexivity].
      f_equal. destruct Hcols as [Hi Hg].
      pose proof (proj2 (wf_table_col _ _ _ _ Hwt1 E1)) as Hwc1. pose proof (proj2 (wf_table_col _ _ _ _ Hwt2 E2)) as Hwc2.
      apply (col_ext (t_rows tb1) (t_rows tb2)); [exact Hwc1|exact Hwc2|exact Hi|]. intros r.
      destruct (decide (r ∈ t_rows tb2)) as [Hin|Hnin].
      + apply (Hg r). exists (t_rows tb2). split; [unfold drows; rewrite Ht2; reflexivity|exact Hin].
      + rewrite (cget_default_notin _ _ _ Hwc1) by (rewrite Hrows; exact Hnin). rewrite (cget_default_notin _ _ _ Hwc2) by exact Hnin.
        unfold cdefault. rewrite Hi. reflexivity.
    - specialize (Hr t). unfold drows in Hr. rewrite Ht2 in Hr. destruct (d_tables x !! t); [discriminate|reflexivity].
  Qed.

  Lemma FR_nil sm d : FR (D1 sm []) d d.
  Proof.
    split; [apply crel_refl; intros; left; reflexivity|]. intros t c r v H. unfold D1 in H.
    rewrite decide_False in H by apply not_elem_of_nil. discriminate.
  Qed.

  Lemma JX_flush st log : JX st log -> rollback_flush ord st log = Some s.
  Proof.
    intros (Hsv & Hw & (res & Hrep & Hwres & Hres) & Hun & Hpl & HK1 & HK2 & HM).
    destruct HM as (M1 & M2 & M2' & M3 & M4 & M5).
    unfold rollback_flush, restore_schema, flush_undo. rewrite Hsv, (flush_shx _ Hpl). cbn [fst snd].
    set (d := ms_doc st) in *. set (sm := summary_of log) in *. set (E := entriesr sm).
    rewrite !rev_app_distr, rev_flat_map_rev, !replay_app.
    assert (HE : forall t c m, (t, c, m) ∈ E <-> sm_get sm t c = Some m) by (intros; apply entriesx_get; exact Hpl).
    assert (Hsel : forall t c, (t, c) ∈ E.*1 <-> is_Some (sm_get sm t c)).
    { intros t c. split.
      - intros Hin. apply elem_of_list_fmap in Hin as ([[t' c'] m] & [= <- <-] & Hin). apply HE in Hin. eauto.
      - intros [m Hm]. apply elem_of_list_fmap. exists (t, c, m). split; [reflexivity|apply HE; exact Hm]. }
    assert (Hold : forall t c m r, sm_get sm t c = Some m -> r ∈ old_changed (sm_before sm t) m -> oldrow s t r).
    { intros t c m r Hm Hr. apply (old_changed_in ord) in Hr as [(b & a & Er & _) Hb].
      destruct (oldrow_dec t r) as [Ho|Hno]; [exact Ho|]. exfalso. apply Hb. apply (M2' t c m r Hm); [rewrite Er; eauto|exact Hno]. }
    (* phase 1 *)
    destruct (backsx_frame sm d E [] d (entriesx_nodup sm Hpl)) as (d1 & -> & Hfr1 & Hw1); [|apply FR_nil|exact Hw|].
    { intros [[t c] m] Hin. cbn [fst snd]. apply HE in Hin. destruct (HK1 t c m Hin) as [Hcc (col & col0 & Hdc & Hc0 & HE1)].
      split; [exact Hin|]. split; [apply not_elem_of_nil|]. split; [exact Hcc|]. split; [eauto|].
      intros r Hr. unfold pres_rows in Hr. apply elem_of_list_filter in Hr as [Haf Hr].
      unfold dcol in Hdc. destruct (d_tables d !! t) as [tb|] eqn:Ht; [|discriminate]. exists (t_rows tb).
      assert (Hdr : drows d t = Some (t_rows tb)) by (unfold drows; rewrite Ht; reflexivity). split; [exact Hdr|].
      destruct (decide (r ∈ t_rows tb)) as [|Hn]; [assumption|]. exfalso. apply Haf.
      apply (M4 t (t_rows tb) r Hdr Hn). left. exact (Hold t c m r Hin Hr). }
    cbn [app mbind option_bind] in *.
    (* phase 2 *)
    assert (HD : Dok (D1 sm (rev E.*1))).
    { intros t c r v. unfold D1. destruct (decide ((t, c) ∈ rev E.*1)); [|discriminate].
      destruct (sm_get sm t c) as [m|] eqn:Hm; [|discriminate].
      destruct (decide (r ∈ pres_rows (sm_before sm t) (sm_after sm t) m)) as [Hr|]; [|discriminate]. intros _.
      split; [exact (proj1 (HK1 t c m Hm))|]. apply elem_of_list_filter in Hr as [_ Hr]. exact (Hold t c m r Hm Hr). }
    destruct (replay_frame _ (rev (ms_undo st)) d1 d res HD (Forall_rev Hun) Hfr1 Hw1 Hrep) as (res1 & -> & [Hcr1 Hh1] & Hwres1).
    cbn [mbind option_bind].
    (* phase 3 *)
    assert (Hcr3 : crel (PG sm E.*1) res1 s).
    { destruct Hcr1 as (Hs1 & Hr1 & Hc1). destruct Hres as (Hs2 & Hr2 & Hc2).
      split; [congruence|]. split; [intros t'; rewrite Hr1; apply Hr2|]. intros t c. specialize (Hc1 t c). specialize (Hc2 t c).
      destruct (dcol res1 t c) as [x1|] eqn:E1, (dcol res t c) as [x2|], (dcol s t c) as [x0|] eqn:E0; cbn [oagree] in *; try contradiction; try exact I.
      destruct Hc1 as [Hi1 Hg1]. destruct Hc2 as [Hi2 Hg2]. split; [congruence|]. intros r Ho.
      unfold Dg. destruct (sm_get sm t c) as [m|] eqn:Hm.
      2: { assert (Hn : D1 sm (rev E.*1) t c r = None) by (unfold D1; rewrite Hm; destruct (decide _); reflexivity).
           assert (Heq : cget x1 r = cget x2 r).
           { destruct (Hg1 r) as [H|[[_ H]|[v H]]]; [exact H|contradiction|congruence]. }
           rewrite Heq, (Hg2 r Ho). unfold aft. rewrite Hm. destruct (decide _); reflexivity. }
      rewrite decide_True by (apply Hsel; eauto).
      destruct (HK1 t c m Hm) as [Hcc (col & col0 & Hdc & Hc0 & HE1)]. rewrite E0 in Hc0. injection Hc0 as <-.
      set (bf := sm_before sm t) in *. set (af := sm_after sm t) in *.
      destruct (decide (r ∈ pres_rows bf af m)) as [Hp|Hnp].
      - assert (Hng : r ∉ gone_rows bf af m) by (unfold gone_rows; intros Hx; apply elem_of_list_filter in Hx as [Hx _]; exact (Hx Hp)).
        rewrite decide_False by exact Hng. simpl.
        pose proof Hp as Hp'. apply elem_of_list_filter in Hp' as [_ Hp']. apply (old_changed_in ord) in Hp' as [(b & a & Er & _) _].
        assert (HDv : D1 sm (rev E.*1) t c r = Some b).
        { unfold D1. rewrite decide_True by (apply elem_of_rev, Hsel; eauto). rewrite Hm. fold bf af. rewrite decide_True by exact Hp.
          transitivity (fst <$> Some (b, a)); [f_equal; exact Er|reflexivity]. }
        destruct (Hh1 t c r b HDv) as (rws & cl & _ & _ & Hcl & Hv). rewrite E1 in Hcl. injection Hcl as <-.
        rewrite Hv. exact (HE1 r b a Er Ho).
      - assert (Hn : D1 sm (rev E.*1) t c r = None).
        { unfold D1. destruct (decide _); [|reflexivity]. rewrite Hm. fold bf af. rewrite decide_False by exact Hnp. reflexivity. }
        assert (Heq : cget x1 r = cget x2 r).
        { destruct (Hg1 r) as [H|[[_ H]|[v H]]]; [exact H|contradiction|congruence]. }
        rewrite Heq, (Hg2 r Ho). unfold aft. rewrite Hm.
        destruct (m !! r) as [[b a]|] eqn:Er; [|simpl; destruct (decide _); reflexivity]. simpl.
        destruct (decide (r ∈ gone_rows bf af m)) as [Hgn|Hngn]; [reflexivity|]. simpl.
        assert (Hnoc : r ∉ old_changed bf m).
        { intros Hx. apply Hngn. unfold gone_rows. apply elem_of_list_filter. split; [exact Hnp|exact Hx]. }
        destruct (decide (b = a)) as [->|Hne]; [exact (HE1 r a a Er Ho)|].
        exfalso. apply Hnoc. apply (old_changed_in ord). split; [eauto|]. intros Hx. exact (M1 t r Hx Ho). }
    rewrite app_nil_r in Hcr3 || idtac.
    destruct (fronts_final sm E res1 (entriesx_nodup sm Hpl)) as (x' & -> & Hcrf & Hwf); [|exact Hcr3|exact Hwres1|].
    { intros [[t c] m] Hin. cbn [fst snd]. apply HE in Hin. destruct (HK1 t c m Hin) as [Hcc (col & col0 & Hdc & Hc0 & HE1)].
      split; [exact Hin|]. exists col0. split; [exact Hc0|]. split; [exact HE1|].
      intros r Hr. apply elem_of_list_filter in Hr as [_ Hr]. exact (Hold t c m r Hin Hr). }
    f_equal. exact (crel_final sm x' Hcrf Hwf).
  Qed.

  Lemma JX_event st log e st' :
    JX st log -> ev_okx e -> exec_all st (event_steps ord (ms_doc st) e) = Some st' ->
    JX st' (log ++ sum_log (event_steps ord (ms_doc st) e)).
  Proof.
    intros HJ Hok Hex. destruct e as [a|t c cells].
    - simpl in *. unfold doc_steps in *. destruct (normalize a) as [| | | |t rows vals|t rows|t rows vals| | | | | | |] eqn:En; try contradiction.
      + destruct Hok as [H1 H2]. apply JX_add; assumption.
      + apply JX_remove; assumption.
      + destruct (JX_update st log t rows vals st' HJ Hok Hex) as [HJ' ->]. rewrite app_nil_r. exact HJ'.
    - apply JX_calc; assumption.
  Qed.

  Lemma run_calc_x es : forall st k st_k cur log,
    JX st log -> Forall ev_okx es ->
    run_until_crash ord st es k = Crashed st_k cur [] ->
    rollback_flush ord st_k (log ++ sum_log (run_log ord st es k)) = Some s.
  Proof.
    induction es as [|e es IH]; intros st k st_k cur log HJ Hok H; simpl in *.
    - destruct k; [|discriminate]. injection H as <- <-. rewrite app_nil_r. apply JX_flush. exact HJ.
    - inversion Hok as [|? ? Hok1 Hok2]; subst.
      destruct (exec_upto st (event_steps ord (ms_doc st) e) k []) as [[st' dn] r] eqn:E.
      destruct (exec_upto_spec _ _ _ _ _ _ _ E) as (l & rest & Hdn & Hsteps & Hex & Hrest). simpl in Hdn. subst dn.
      destruct r as [k'|].
      + rewrite (Hrest (ltac:(eauto))), app_nil_r in Hsteps. subst l.
        rewrite sum_log_app, app_assoc. eapply IH; [eapply JX_event; eauto|exact Hok2|exact H].
      + injection H as <- <- ->. simpl in Hex. injection Hex as <-. simpl. rewrite app_nil_r. apply JX_flush. exact HJ.
  Qed.

  Lemma JX_init : JX (init_state s []) [].
  Proof.
    split; [reflexivity|]. split; [exact Hwfs|]. simpl. split.
    { exists s. split; [reflexivity|]. split; [exact Hwfs|]. apply crel_refl. intros t c r v _. unfold aft, sm_get, for_table. simpl. reflexivity. }
    split; [constructor|]. split; [apply sm_empty_shx|]. split; [intros t c m H; discriminate H|]. split.
    { intros t c col Hin Hd. exists col. split; [exact Hd|]. split; [reflexivity|]. intros rows r _ _ _. unfold aft, sm_get, for_table. simpl. reflexivity. }
    unfold marksx, sm_before, sm_after, for_table. simpl. repeat split.
    - intros t r H. rewrite lookup_empty in H. discriminate.
    - intros t rows r Hr Hin Hno. exfalso. apply Hno. exists rows. auto.
    - intros t c m r H. discriminate H.
    - intros t rows r _ H. rewrite lookup_empty in H. discriminate.
    - intros t rows r Hr Hn [(rows0 & H0 & Hin)|H]; [rewrite Hr in H0; injection H0 as <-; contradiction|rewrite lookup_empty in H; discriminate].
    - intros t r H. rewrite lookup_empty in H. discriminate.
  Qed.

  Theorem pending_calcs_with_removes_rolled_back es k st cur :
    Forall ev_okx es ->
    run_until_crash ord (init_state s []) es k = Crashed st cur [] ->
    rollback_flush ord st (sum_log (run_log ord (init_state s []) es k)) = Some s.
  Proof. intros Hok H. exact (run_calc_x es _ _ _ _ [] JX_init Hok H). Qed.
End CalcWithRemoves.

(* events of the bundles covered: record updates and adds writing none of CC, adds only of row ids the checkpoint
   table does not have, record removes, recomputations of CC columns *)
Definition upd_add_rem_or_calc_in (s : doc) (CC : list (name * name)) (e : event) : Prop := ev_okx s CC e.
