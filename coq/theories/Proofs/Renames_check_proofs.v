(* C16: the boolean side-condition checkers of Model/RenamesPrint.v imply the Prop side conditions. *)
From Coq Require Import ZArith List Bool Lia.
Import ListNotations.
Require Import Grist.Model.Renames Grist.Model.RenamesPrint.
Require Import Grist.Proofs.Renames_proofs Grist.Proofs.Renames_fresh_proofs.
Open Scope Z_scope.

Lemma all_formulas_spec : forall d p, all_formulas d p = true ->
  forall tb co f, In tb d -> In co (tcols tb) -> cformula co = Some f -> p tb co f = true.
Proof.
  intros d p H tb co f Htb Hco Hf. unfold all_formulas in H. rewrite forallb_forall in H.
  specialize (H tb Htb). rewrite forallb_forall in H. specialize (H co Hco). rewrite Hf in H. exact H.
Qed.

Lemma doc_wfb_sound : forall d, doc_wfb d = true -> doc_wf d.
Proof. intros d H tb co f Htb Hco Hf. exact (all_formulas_spec d _ H tb co f Htb Hco Hf). Qed.

Lemma mem_pair_in : forall p l, In p l -> mem_pair p l = true.
Proof.
  intros p l H. unfold mem_pair. apply existsb_exists. exists p. split; [exact H|].
  unfold pair_eqb. rewrite !name_eqb_refl. reflexivity.
Qed.

Lemma mem_name_in : forall x l, In x l -> mem_name x l = true.
Proof. intros x l H. unfold mem_name. apply existsb_exists. exists x. split; [exact H | apply name_eqb_refl]. Qed.

Lemma fresh_colb_sound : forall d T b, fresh_colb d T b = true -> fresh_col d T b.
Proof.
  intros d T b H. unfold fresh_colb in H. apply andb_true_iff in H. destruct H as [H1 H2]. split.
  - intros tb co Htb Hco E. rewrite forallb_forall in H1. specialize (H1 tb Htb). rewrite forallb_forall in H1.
    specialize (H1 co Hco). rewrite E in H1. unfold pair_eqb in H1. cbn in H1. rewrite !name_eqb_refl in H1. discriminate.
  - intros tb co f Htb Hco Hf Hin. pose proof (all_formulas_spec d _ H2 tb co f Htb Hco Hf) as H.
    cbn in H. rewrite (mem_pair_in _ _ Hin) in H. discriminate.
Qed.

Lemma val_plainb_sound : forall v, val_plainb v = true -> forall rt, rn_val rt v = v.
Proof.
  apply (val_ind' (fun v => val_plainb v = true -> forall rt, rn_val rt v = v)); try (intros; reflexivity);
    try (intros; discriminate).
  intros vs HF H rt. cbn in *. f_equal. induction HF as [|v vs Hv _ IH]; [reflexivity|].
  cbn in H. apply andb_true_iff in H. destruct H as [Ha Hb]. cbn. rewrite (Hv Ha rt), (IH Hb). reflexivity.
Qed.

Lemma fresh_tabb_sound : forall d b, fresh_tabb d b = true -> fresh_tab d b.
Proof.
  intros d b H tb Htb. unfold fresh_tabb in H. rewrite forallb_forall in H. specialize (H tb Htb).
  apply andb_true_iff in H. destruct H as [Hn Hc]. split.
  - intro E. rewrite E, name_eqb_refl in Hn. discriminate.
  - intros co Hco. rewrite forallb_forall in Hc. specialize (Hc co Hco).
    apply andb_true_iff in Hc. destruct Hc as [Hc Hd]. apply andb_true_iff in Hc. destruct Hc as [Ht Hf].
    repeat split.
    + intro E. rewrite E in Ht. cbn in Ht. rewrite name_eqb_refl in Ht. discriminate.
    + intro E. rewrite E in Ht. cbn in Ht. rewrite name_eqb_refl in Ht. discriminate.
    + intros f Ef Hin. rewrite Ef in Hf. rewrite (mem_name_in _ _ Hin) in Hf. discriminate.
    + intros p rt Hp. rewrite forallb_forall in Hd. apply val_plainb_sound. apply Hd. exact Hp.
Qed.

Lemma group_okb_sound : forall d T a b, group_okb d T a b = true -> group_ok d T a b.
Proof.
  intros d T a b H tb co Htb Hco Hg ET Hn. unfold group_okb in H. apply orb_true_iff in H. destruct H as [H|H].
  - apply andb_true_iff in H. destruct H as [Ha Hb]. apply negb_true_iff in Ha, Hb. split; apply name_eqb_neq; assumption.
  - exfalso. rewrite forallb_forall in H. specialize (H tb Htb). rewrite forallb_forall in H. specialize (H co Hco).
    rewrite Hg, ET, name_eqb_refl in H. cbn in H.
    destruct Hn as [E|E]; rewrite E, name_eqb_refl in H; [|rewrite orb_true_r in H]; discriminate.
Qed.

Lemma no_alt_textb_sound : forall d a, no_alt_textb d a = true ->
  forall tb co p, In tb d -> In co (tcols tb) -> targets (ctype co) a = true -> In p (cdata co) ->
    forall s, snd p <> VStr s.
Proof.
  intros d a H tb co p Htb Hco Ht Hp s E. unfold no_alt_textb in H. rewrite forallb_forall in H.
  specialize (H tb Htb). rewrite forallb_forall in H. specialize (H co Hco). rewrite Ht in H. cbn in H.
  rewrite forallb_forall in H. specialize (H p Hp). rewrite E in H. discriminate.
Qed.

Lemma not_mem_pair : forall p l, mem_pair p l = false -> ~ In p l.
Proof. intros p l H Hin. rewrite (mem_pair_in _ _ Hin) in H. discriminate. Qed.

Lemma not_mem_name : forall x l, mem_name x l = false -> ~ In x l.
Proof. intros x l H Hin. rewrite (mem_name_in _ _ Hin) in H. discriminate. Qed.
