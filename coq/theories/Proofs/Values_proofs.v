(* Lemmas about the value model V: conversion (C22). Encoding lemmas (C24) are in Values_enc_proofs.v. *)
From Coq Require Import ZArith List Bool Lia.
Import ListNotations.
Require Import Grist.Lib.PyFloat Grist.Model.Values.
Open Scope Z_scope.

Definition is_text (v : value) : bool := match v with PStr _ _ => true | _ => false end.

(* Row ids carried by record sets are valid row ids (the Id column only holds short ints). *)
Definition rows_short (v : value) : Prop :=
  match v with
  | PList _ l => forall t k rows i, In (PRecordSet t k rows i) l -> forallb is_int_short rows = true
  | _ => True
  end.

Lemma classic_blob : forall T, T = TBlob \/ T <> TBlob.
Proof. destruct T; auto; right; discriminate. Qed.

(* ... which only matters for the reference-list types *)
Definition rows_ok (T : ctype) (v : value) : Prop :=
  match T with TRefList _ | TAttachments => rows_short v | _ => True end.

Section Conversion.
Variable orc : oracles.

(* ------------------------------------------------------------------------------------------- *)
(* generic helpers *)

Lemma bind_ok : forall {A B} (r : result A) (f : A -> result B) b,
  bind r f = Ok b -> exists a, r = Ok a /\ f a = Ok b.
Proof. intros A B [a|e] f b H; cbn in H; [eauto|discriminate]. Qed.

Lemma map_result_ok : forall {A B} (f : A -> result B) l l',
  map_result f l = Ok l' -> Forall2 (fun x y => f x = Ok y) l l'.
Proof.
  intros A B f l; induction l as [|x t IH]; intros l' H; cbn in H.
  - inversion H; constructor.
  - apply bind_ok in H as [y [Hy H]]. apply bind_ok in H as [ys [Hys H]]. inversion H; subst.
    constructor; auto.
Qed.

Lemma map_result_id : forall {A} (f : A -> result A) l,
  Forall (fun x => f x = Ok x) l -> map_result f l = Ok l.
Proof.
  intros A f l H; induction H as [|x t Hx _ IH]; cbn; [reflexivity|].
  rewrite Hx; cbn. rewrite IH; reflexivity.
Qed.

(* ------------------------------------------------------------------------------------------- *)
(* what each do_convert can return *)

Lemma text_do_convert_shape : forall v w, text_do_convert orc v = Ok w ->
  w = PNone \/ exists s, w = PStr false s.
Proof.
  intros v w H. unfold text_do_convert, str_raise in H.
  destruct v; try (destruct (py_str orc _) eqn:E; cbn in H; inversion H; subst; eauto; fail).
  - inversion H; auto.
  - (* float *)
    repeat match type of H with
    | context [if ?c then _ else _] => destruct c
    | context [match f_trunc ?f with _ => _ end] => destruct (f_trunc f)
    | context [match py_str ?o ?x with _ => _ end] => destruct (py_str o x)
    end; cbn in H; inversion H; subst; eauto.
  - destruct (o_utf8_decode orc b); inversion H; eauto.
  - inversion H; eauto.
Qed.

Lemma bool_do_convert_shape : forall v w, bool_do_convert orc v = Ok w -> exists b, w = PBool b.
Proof.
  intros v w H. unfold bool_do_convert in H.
  repeat match type of H with
  | context [match ?x with _ => _ end] => destruct x
  end; inversion H; eauto.
Qed.

Lemma int_do_convert_shape : forall v w, int_do_convert orc v = Ok w ->
  w = PNone \/ exists n, w = PInt false n /\ is_int_short n = true.
Proof.
  intros v w H. unfold int_do_convert in H.
  destruct (is_empty_or_none v); [inversion H; auto|].
  apply bind_ok in H as [f [_ H]]. apply bind_ok in H as [n [_ H]].
  destruct (is_int_short n) eqn:E; inversion H; eauto.
Qed.

Lemma numeric_do_convert_shape : forall d v w, numeric_do_convert orc d v = Ok w ->
  w = d \/ exists f, w = PFloat false f.
Proof.
  intros d v w H. unfold numeric_do_convert in H.
  destruct (is_empty_or_none v); [inversion H; auto|].
  apply bind_ok in H as [f [_ H]]. inversion H; eauto.
Qed.

Lemma date_do_convert_shape : forall v w, date_do_convert orc v = Ok w ->
  w = PNone \/ exists f, w = PFloat false f.
Proof.
  intros v w H. unfold date_do_convert in H.
  destruct (is_empty_or_none v); [inversion H; auto|].
  destruct v; cbn in H; try discriminate; try (inversion H; eauto; fail);
    try (apply bind_ok in H as [f [_ H]]; inversion H; eauto).
Qed.

Lemma datetime_do_convert_shape : forall z v w, datetime_do_convert orc z v = Ok w ->
  w = PNone \/ exists f, w = PFloat false f.
Proof.
  intros z v w H. unfold datetime_do_convert in H.
  destruct (is_empty_or_none v); [inversion H; auto|].
  destruct v; cbn in H; try discriminate; try (inversion H; eauto; fail);
    try (apply bind_ok in H as [f [_ H]]; inversion H; eauto).
Qed.

Definition all_plain_str (l : list value) : Prop := Forall (fun x => exists s, x = PStr false s) l.

Lemma strs_of_shape : forall items w, strs_of orc items = Ok w -> exists l, w = PTuple l /\ all_plain_str l.
Proof.
  intros items w H. unfold strs_of in H. apply bind_ok in H as [l [Hl H]]. inversion H; subst. clear H.
  exists l; split; [reflexivity|].
  apply map_result_ok in Hl. induction Hl as [|x y xs ys Hxy _ IH]; constructor; auto.
  apply bind_ok in Hxy as [s [_ Hs]]. inversion Hs; eauto.
Qed.

Lemma choicelist_do_convert_shape : forall v w, choicelist_do_convert orc v = Ok w ->
  w = PNone \/ (exists l, w = PTuple l /\ all_plain_str l) \/ (w = v /\ is_text v = true).
Proof.
  intros v w H. unfold choicelist_do_convert in H.
  destruct (py_truthy orc v) as [[|]|]; [|inversion H; auto|discriminate].
  destruct v; try (apply bind_ok in H as [items [_ H]]; apply strs_of_shape in H; auto; fail).
  2: { (* set *)
    unfold strs_of_sorted in H. apply bind_ok in H as [l0 [_ H]]. inversion H; subst.
    right; left. eexists; split; [reflexivity|]. unfold all_plain_str. rewrite Forall_forall.
    intros x Hx. apply in_map_iff in Hx as [s0 [<- _]]. eauto. }
  (* str *)
  destruct (starts_with _ _); [|inversion H; auto].
  destruct (o_json_loads orc s) as [j|]; [|inversion H; auto].
  destruct (bind (py_iter orc j) (strs_of orc)) eqn:E; inversion H; subst; auto.
  apply bind_ok in E as [items [_ E]]. apply strs_of_shape in E. auto.
Qed.

Lemma id_do_convert_shape : forall v w, id_do_convert orc v = Ok w ->
  exists n, w = PInt false n /\ is_int_short n = true.
Proof.
  intros v w H. unfold id_do_convert in H.
  destruct (py_truthy orc v) as [[|]|]; [|inversion H; exists 0; auto|discriminate].
  destruct v; try discriminate;
    match type of H with context [if is_int_short ?z then _ else _] => destruct (is_int_short z) eqn:E end;
    inversion H; eauto.
Qed.

Definition all_short_ints (l : list value) : Prop :=
  Forall (fun x => exists n, x = PInt false n /\ is_int_short n = true) l.

Lemma all_short_ints_forallb : forall l, all_short_ints l -> forallb is_short_exact_int l = true.
Proof.
  intros l H; induction H as [|x t [n [-> Hn]] _ IH]; cbn; [reflexivity|]. rewrite Hn, IH; reflexivity.
Qed.

Lemma map_id_do_convert_shape : forall items l, map_result (id_do_convert orc) items = Ok l -> all_short_ints l.
Proof.
  intros items l H. apply map_result_ok in H.
  induction H as [|x y xs ys Hxy _ IH]; constructor; auto. apply id_do_convert_shape in Hxy; exact Hxy.
Qed.

Lemma dedup_subset : forall l seen x, In x (dedup_Z seen l) -> In x l.
Proof.
  induction l as [|y t IH]; intros seen x H; cbn in *; [contradiction|].
  destruct (existsb (Z.eqb y) seen).
  - right; eapply IH; eauto.
  - destruct H as [->|H]; [left; reflexivity|right; eapply IH; eauto].
Qed.

Lemma flatten_rows_short : forall l,
  (forall t k rows i, In (PRecordSet t k rows i) l -> forallb is_int_short rows = true) ->
  all_short_ints (map (PInt false)
    (dedup_Z [] (flat_map (fun x => match x with PRecordSet _ _ rows _ => rows | _ => [] end) l))).
Proof.
  intros l H. unfold all_short_ints. rewrite Forall_forall. intros x Hx.
  apply in_map_iff in Hx as [n [<- Hn]]. exists n; split; [reflexivity|].
  apply dedup_subset in Hn. apply in_flat_map in Hn as [y [Hy Hn]].
  destruct y; try contradiction. specialize (H _ _ _ _ Hy).
  rewrite forallb_forall in H. auto.
Qed.

Lemma reclist_from_repr_ints : forall s w, reclist_from_repr orc s = Ok w ->
  exists l, w = PList (LRecordList 0) l /\ Forall (fun x => exists z, x = PInt false z) l.
Proof.
  intros s w H. unfold reclist_from_repr in H.
  destruct (negb _); [discriminate|].
  destruct (split_chr 91 s) as [|a [|after rest]]; try discriminate.
  destruct (split_chr 93 after) as [|inside rest']; [discriminate|].
  apply bind_ok in H as [l [Hl H]]. inversion H; subst. exists l; split; [reflexivity|].
  apply map_result_ok in Hl. induction Hl as [|x y xs ys Hxy _ IH]; constructor; auto.
  destruct (o_int_of_str orc x); inversion Hxy; eauto.
Qed.

(* record sets inside the pre-processed value are those of the original value (strings contain none) *)
Lemma reflist_pre_rows : forall v0, rows_short v0 -> rows_short (reflist_pre orc v0).
Proof.
  intros v0 H. destruct v0; cbn [reflist_pre]; auto.
  destruct (starts_with _ _).
  - destruct (o_json_loads orc s) as [[]|]; cbn; auto.
    destruct (forallb is_pos_int l) eqn:E; cbn; auto.
    intros t k0 rows i Hin. rewrite forallb_forall in E. apply E in Hin. discriminate.
  - destruct (reclist_from_repr orc s) eqn:E; cbn; auto.
    apply reclist_from_repr_ints in E as [l [-> Hl]]. cbn.
    intros t k rows i Hin. rewrite Forall_forall in Hl. apply Hl in Hin as [z Hz]. discriminate.
Qed.

Lemma reflist_do_convert_shape : forall t v w, rows_short v -> reflist_do_convert orc t v = Ok w ->
  w = PNone \/ (exists i l, w = PList (LRecordList i) l) \/ (exists l, w = PList LPlain l /\ all_short_ints l).
Proof.
  intros t v0 w Hrows H. unfold reflist_do_convert in H. cbv zeta in H.
  pose proof (reflist_pre_rows v0 Hrows) as Hr. set (v := reflist_pre orc v0) in *. clearbody v.
  assert (Hgen : forall w, bind (py_iter orc v) (fun items => bind (map_result (id_do_convert orc) items)
                              (fun l => Ok (PList LPlain l))) = Ok w ->
                 exists l, w = PList LPlain l /\ all_short_ints l).
  { intros w' Hw. apply bind_ok in Hw as [items [_ Hw]]. apply bind_ok in Hw as [l [Hl Hw]].
    inversion Hw; subst. exists l; split; [reflexivity|]. eapply map_id_do_convert_shape; eauto. }
  destruct v;
    try (destruct (py_truthy orc _) as [[|]|]; [|inversion H; auto|discriminate]; right; right; auto; fail).
  - (* list *)
    destruct (py_truthy orc _) as [[|]|]; [|inversion H; auto|discriminate].
    destruct (forallb (is_recordset_of t) l).
    + inversion H; subst. right; right. eexists; split; [reflexivity|]. apply flatten_rows_short. exact Hr.
    + right; right; auto.
  - (* record set *)
    destruct (str_eqb t0 t); [|discriminate]. inversion H; subst. right; left; eauto.
Qed.

(* ------------------------------------------------------------------------------------------- *)
(* totality *)

Lemma all_plain_str_forallb : forall l, all_plain_str l ->
  forallb (fun x => match x with PStr _ _ => true | _ => false end) l = true.
Proof. intros l H; induction H as [|x t [s ->] _ IH]; cbn; auto. Qed.

Lemma do_convert_ok_type : forall T v w, rows_ok T v -> is_error v = false ->
  do_convert orc T v = Ok w -> (is_right_type T w = true \/ is_text w = true) /\ is_error w = false.
Proof.
  intros T v w Hrows Herr H. destruct T; cbn [do_convert] in H.
  - apply text_do_convert_shape in H as [->|[s ->]]; cbn; auto.
  - destruct v; inversion H; subst; cbn; auto.
  - destruct v; inversion H; subst; cbn; auto.
  - apply bool_do_convert_shape in H as [b ->]; cbn; auto.
  - apply int_do_convert_shape in H as [->|[n [-> Hn]]]; cbn; auto.
  - apply numeric_do_convert_shape in H as [->|[f ->]]; cbn; auto.
  - apply date_do_convert_shape in H as [->|[f ->]]; cbn; auto.
  - apply datetime_do_convert_shape in H as [->|[f ->]]; cbn; auto.
  - apply text_do_convert_shape in H as [->|[s ->]]; cbn; auto.
  - apply choicelist_do_convert_shape in H as [->|[[l [-> Hl]]|[-> Ht]]]; cbn; auto.
    + rewrite (all_plain_str_forallb l Hl); auto.
  - apply numeric_do_convert_shape in H as [->|[f ->]]; cbn; auto.
  - apply numeric_do_convert_shape in H as [->|[f ->]]; cbn; auto.
  - apply id_do_convert_shape in H as [n [-> Hn]]; cbn; auto.
  - apply id_do_convert_shape in H as [n [-> Hn]]; cbn; auto.
  - apply reflist_do_convert_shape in H as [->|[[i [l ->]]|[l [-> Hl]]]]; try exact Hrows; cbn; auto.
    rewrite (all_short_ints_forallb l Hl); auto.
  - apply reflist_do_convert_shape in H as [->|[[i [l ->]]|[l [-> Hl]]]]; try exact Hrows; cbn; auto.
    rewrite (all_short_ints_forallb l Hl); auto.
Qed.

(* The statement of C22, first half: for an error the error itself, otherwise a right-type value or a text. *)
Definition total_at (T : ctype) (v : value) : Prop :=
  let w := convert orc T v in
  (is_error v = true /\ w = v) \/
  (is_error v = false /\ is_error w = false /\ (is_right_type T w = true \/ is_text w = true)).

Lemma convert_total : forall T v, rows_ok T v -> total_at T v.
Proof.
  intros T v Hrows. unfold total_at, convert.
  destruct (is_error v) eqn:Herr; [left; auto|right; split; [reflexivity|]].
  destruct (do_convert orc T v) as [w|e] eqn:E.
  - destruct (do_convert_ok_type T v w Hrows Herr E) as [H1 H2]. auto.
  - cbn; auto.
Qed.

(* ------------------------------------------------------------------------------------------- *)
(* idempotence *)

(* the text produced by the `except` path of convert, when it is taken *)
Definition fallback_text (T : ctype) (v : value) : option str :=
  if is_error v then None else
  match do_convert orc T v with
  | Ok _ => None
  | Raise _ => Some (alt_text orc v)
  end.

(* results that a second conversion does not keep (see the refutations in Props/C22.v) *)
Definition degenerate (T : ctype) (w : value) : Prop :=
  match T, w with
  | TChoiceList, PTuple [] => True
  | (TRefList _ | TAttachments), PList (LRecordList _) _ => True
  | (TRefList _ | TAttachments), PList LPlain [] => True
  | _, _ => False
  end.

Lemma is_int_short_bound : forall n, is_int_short n = true -> Z.abs n < 2 ^ 53.
Proof.
  intros n H. unfold is_int_short in H. apply andb_true_iff in H as [H1 H2].
  apply Z.leb_le in H1. apply Z.ltb_lt in H2.
  assert (2 ^ 31 < 2 ^ 53) by (apply Z.pow_lt_mono_r; lia). lia.
Qed.

Lemma int_again : forall n, is_int_short n = true -> int_do_convert orc (PInt false n) = Ok (PInt false n).
Proof.
  intros n Hn. unfold int_do_convert. cbn [is_empty_or_none py_float].
  destruct (f_of_Z_trunc n (is_int_short_bound n Hn)) as [f [Hf [Ht _]]].
  rewrite Hf. cbn [bind]. unfold py_int_of_float. rewrite Ht. cbn [bind]. rewrite Hn. reflexivity.
Qed.

Lemma id_again : forall n, is_int_short n = true -> id_do_convert orc (PInt false n) = Ok (PInt false n).
Proof.
  intros n Hn. unfold id_do_convert. cbn [py_truthy].
  destruct (Z.eqb_spec n 0) as [->|Hnz]; cbn [negb]; [reflexivity|]. rewrite Hn. reflexivity.
Qed.

Lemma strs_again : forall l, all_plain_str l -> strs_of orc l = Ok (PTuple l).
Proof.
  intros l H. unfold strs_of. rewrite map_result_id; [reflexivity|].
  unfold all_plain_str in H. rewrite Forall_forall in *. intros x Hx. destruct (H x Hx) as [s ->]. reflexivity.
Qed.

Lemma ids_again : forall l, all_short_ints l -> map_result (id_do_convert orc) l = Ok l.
Proof.
  intros l H. apply map_result_id. unfold all_short_ints in H. rewrite Forall_forall in *.
  intros x Hx. destruct (H x Hx) as [n [-> Hn]]. apply id_again; exact Hn.
Qed.

Lemma reflist_again : forall t x l, all_short_ints (x :: l) ->
  reflist_do_convert orc t (PList LPlain (x :: l)) = Ok (PList LPlain (x :: l)).
Proof.
  intros t x l H. unfold reflist_do_convert. cbn [reflist_pre py_truthy py_iter bind].
  pose proof H as H0. inversion H0 as [|? ? [n [-> Hn]] _]; subst. cbn [forallb is_recordset_of andb].
  rewrite (ids_again _ H). reflexivity.
Qed.

(* a successful conversion is a fixed point, unless the result is degenerate *)
Lemma do_convert_again : forall T v w, rows_ok T v -> is_error v = false ->
  do_convert orc T v = Ok w -> ~ degenerate T w -> do_convert orc T w = Ok w.
Proof.
  intros T v w Hrows Herr H Hdeg. destruct T; cbn [do_convert] in *.
  - apply text_do_convert_shape in H as [->|[s ->]]; reflexivity.
  - destruct v; inversion H; subst; reflexivity.
  - destruct v; inversion H; subst; try reflexivity.
  - apply bool_do_convert_shape in H as [[|] ->]; reflexivity.
  - apply int_do_convert_shape in H as [->|[n [-> Hn]]]; [reflexivity|apply int_again; exact Hn].
  - apply numeric_do_convert_shape in H as [->|[f ->]]; reflexivity.
  - apply date_do_convert_shape in H as [->|[f ->]]; reflexivity.
  - apply datetime_do_convert_shape in H as [->|[f ->]]; reflexivity.
  - apply text_do_convert_shape in H as [->|[s ->]]; reflexivity.
  - pose proof H as H'. apply choicelist_do_convert_shape in H as [->|[[l [-> Hl]]|[-> Ht]]];
      [reflexivity| |exact H'].
    destruct l as [|x l]; [exfalso; apply Hdeg; exact I|].
    unfold choicelist_do_convert. cbn [py_truthy py_iter bind]. apply strs_again; exact Hl.
  - apply numeric_do_convert_shape in H as [->|[f ->]]; reflexivity.
  - apply numeric_do_convert_shape in H as [->|[f ->]]; reflexivity.
  - apply id_do_convert_shape in H as [n [-> Hn]]. apply id_again; exact Hn.
  - apply id_do_convert_shape in H as [n [-> Hn]]. apply id_again; exact Hn.
  - apply reflist_do_convert_shape in H as [->|[[i [l ->]]|[l [-> Hl]]]]; try exact Hrows;
      [reflexivity|exfalso; apply Hdeg; exact I|].
    destruct l as [|x l]; [exfalso; apply Hdeg; exact I|]. apply reflist_again; exact Hl.
  - apply reflist_do_convert_shape in H as [->|[[i [l ->]]|[l [-> Hl]]]]; try exact Hrows;
      [reflexivity|exfalso; apply Hdeg; exact I|].
    destruct l as [|x l]; [exfalso; apply Hdeg; exact I|]. apply reflist_again; exact Hl.
Qed.

(* whether a str is an instance of a subclass does not decide whether its conversion fails *)
Lemma do_convert_str_sub : forall T b s e,
  do_convert orc T (PStr b s) = Raise e -> do_convert orc T (PStr false s) = Raise e.
Proof.
  intros T b s e H. destruct b; [|exact H].
  destruct T; cbn [do_convert] in *; try exact H; try discriminate.
  - (* choicelist *)
    unfold choicelist_do_convert in *. cbn [py_truthy] in *.
    destruct s; [discriminate|].
    destruct (starts_with _ _); [|discriminate].
    destruct (o_json_loads orc _); [|discriminate].
    destruct (bind _ _); discriminate.
  - (* reflist *)
    unfold reflist_do_convert in *. cbn [reflist_pre] in *.
    destruct (starts_with _ _).
    + destruct (o_json_loads orc s) as [[]|]; try exact H.
      destruct (forallb is_pos_int l); exact H.
    + destruct (reclist_from_repr orc s); exact H.
  - unfold reflist_do_convert in *. cbn [reflist_pre] in *.
    destruct (starts_with _ _).
    + destruct (o_json_loads orc s) as [[]|]; try exact H.
      destruct (forallb is_pos_int l); exact H.
    + destruct (reclist_from_repr orc s); exact H.
Qed.

Lemma convert_idem : forall T v, rows_ok T v ->
  (forall s, is_text v = false -> fallback_text T v = Some s -> convert orc T (PStr false s) = PStr false s) ->
  ~ degenerate T (convert orc T v) ->
  convert orc T (convert orc T v) = convert orc T v.
Proof.
  intros T v Hrows Hfb Hdeg. unfold fallback_text in Hfb. unfold convert in Hdeg |- * at 2 3.
  destruct (is_error v) eqn:Herr.
  { unfold convert. rewrite Herr. reflexivity. }
  destruct (do_convert orc T v) as [w|e] eqn:E.
  - assert (Hw : is_error w = false).
    { apply (do_convert_ok_type T v w Hrows Herr E). }
    unfold convert. rewrite Hw. rewrite (do_convert_again T v w Hrows Herr E Hdeg). reflexivity.
  - destruct (is_text v) eqn:Htext.
    + destruct v; try discriminate. change (alt_text orc (PStr sub s)) with s in *.
      apply do_convert_str_sub in E. unfold convert. cbn [is_error]. rewrite E. reflexivity.
    + apply Hfb; reflexivity.
Qed.

(* Text, Choice, Any and Blob never leave a text that converts differently: idempotent without conditions *)
Lemma convert_idem_textlike : forall T v, T = TText \/ T = TChoice \/ T = TAny \/ T = TBlob ->
  convert orc T (convert orc T v) = convert orc T v.
Proof.
  intros T v HT. apply convert_idem.
  - destruct HT as [-> | [-> | [-> | -> ]]]; exact I.
  - intros s _ _. destruct HT as [-> | [-> | [-> | -> ]]]; reflexivity.
  - destruct HT as [-> | [-> | [-> | -> ]]]; intro Hd; cbn in Hd; exact Hd.
Qed.

Lemma default_right_type : forall T, is_right_type T (default_value T) = true.
Proof. destruct T; reflexivity. Qed.

Lemma default_fixed : forall T, convert orc T (default_value T) = default_value T.
Proof. destruct T; reflexivity. Qed.

End Conversion.
