(* Concrete counterexamples (vm_compute) for the crash points at which the engine's rollback leaves a trace.
   Each one is replayed on the real engine by harness/props/c04.py (known findings). *)
From stdpp Require Import gmap.
Require Import Grist.Model.Rollback Grist.Proofs.Rollback_proofs.
Open Scope Z_scope.

(* Table T(A : Int, B = $A * 2, C : Int) with rows 1, 2 and A = 1, 2 (names and values interned as numbers). *)
Definition T : name := 1.
Definition A : name := 1.
Definition B : name := 2.
Definition C : name := 3.
Definition N : name := 8.
Definition ci_int : colinfo := ColInfo 1 0 false 0 0.
Definition ci_formula_B : colinfo := ColInfo 1 0 true 7 0.
Definition w_doc : doc :=
  Doc (<[T := <[A := ci_int]> (<[B := ci_formula_B]> (<[C := ci_int]> ∅))]> ∅)
      (<[T := Table {[1; 2]}
                (<[A := Column ci_int (<[1 := 1]> (<[2 := 2]> ∅))]>
                (<[B := Column ci_formula_B (<[1 := 2]> (<[2 := 4]> ∅))]>
                (<[C := Column ci_int ∅]> ∅)))]> ∅).
Definition w_ord (t : name) : list name := [A; B; C].

Lemma w_doc_wf : wf w_doc.
Proof. apply (bool_decide_unpack (wf w_doc)). vm_compute. exact I. Qed.

Lemma leaves_trace_spec ord d es k :
  leaves_trace ord d es k = true ->
  exists st cur done, run_until_crash ord (init_state d []) es k = Crashed st cur done /\ rollback ord 0 st ≠ Some d.
Proof.
  unfold leaves_trace. destruct (run_until_crash ord (init_state d []) es k) as [st cur done|st]; [|discriminate].
  intros H. exists st, cur, done. split; [reflexivity|]. apply negb_true_iff, bool_decide_eq_false in H. exact H.
Qed.

Lemma leaves_trace_flush_spec ord d es k :
  leaves_trace_flush ord d es k = true ->
  exists st cur done, run_until_crash ord (init_state d []) es k = Crashed st cur done /\
    rollback_flush ord st (sum_log (run_log ord (init_state d []) es k)) ≠ Some d.
Proof.
  unfold leaves_trace_flush. destruct (run_until_crash ord (init_state d []) es k) as [st cur done|st]; [|discriminate].
  intros H. exists st, cur, done. split; [reflexivity|]. apply negb_true_iff, bool_decide_eq_false in H. exact H.
Qed.

Lemma rollback_raises_spec ord d es k :
  rollback_raises ord d es k = true ->
  exists st cur done, run_until_crash ord (init_state d []) es k = Crashed st cur done /\ rollback ord 0 st = None.
Proof.
  unfold rollback_raises. destruct (run_until_crash ord (init_state d []) es k) as [st cur done|st]; [|discriminate].
  intros H. exists st, cur, done. split; [reflexivity|]. apply bool_decide_eq_true in H. exact H.
Qed.

(* (i) mutation before undo append: BulkRemoveRecord after its first row (BulkUpdateRecord was repaired by 6f648c6:
   regression lemmas below) *)
Definition w_update : list event := [EDoc (BulkUpdateRecord T [1; 2] [(A, [10; 20]); (C, [5; 6])])].
Definition w_remove : list event := [EDoc (BulkRemoveRecord T [1; 2])].
Lemma w_remove_trace : leaves_trace_flush w_ord w_doc w_remove 1 = true.
Proof. vm_compute. reflexivity. Qed.
(* regression: no crash point of BulkUpdateRecord leaves a trace any more, nor does the unknown-column KeyError *)
Lemma w_update_no_trace : forallb (fun k => negb (leaves_trace_flush w_ord w_doc w_update k)) (seq 0 7) = true.
Proof. vm_compute. reflexivity. Qed.
Definition w_update_keyerror : list event := [EDoc (BulkUpdateRecord T [1] [(A, [77]); (9, [1])])].
Lemma w_update_keyerror_no_trace : leaves_trace_flush w_ord w_doc w_update_keyerror 5 = false.
Proof. vm_compute. reflexivity. Qed.

(* (ii) a calc delta pending in the summary: [UpdateRecord T 1 {A:10}, CopyFromColumn T B C, <raises>].
   Without the flush (the bare _undo_to_checkpoint, as used by nested checkpoints) it survives; with the flush that
   apply_user_actions performs since f80d48c it is reverted, at every event boundary of the bundle. *)
Definition w_calc : list event :=
  [EDoc (UpdateRecord T 1 [(A, 10)]); ECalc T B [(1, 20)]; EDoc (BulkUpdateRecord T [1; 2] [(C, [20; 4])])].
Lemma w_calc_trace : leaves_trace w_ord w_doc w_calc 7 = true.
Proof. vm_compute. reflexivity. Qed.
Lemma w_calc_pending :
  match run_until_crash w_ord (init_state w_doc []) w_calc 7 with
  | Crashed st None [] => ms_pending st = [(T, B, 1, 2, 20)] | _ => False end.
Proof. vm_compute. reflexivity. Qed.
Lemma w_calc_flush_no_trace :
  forallb (fun k => negb (leaves_trace_flush w_ord w_doc w_calc k)) [0; 2; 4; 5; 6; 7]%nat = true.
Proof. vm_compute. reflexivity. Qed.
(* ... but a crash between the calc's cell write and its add_changes still leaves the cell (nothing recorded yet) *)
Lemma w_calc_inside_trace : leaves_trace_flush w_ord w_doc w_calc 3 = true.
Proof. vm_compute. reflexivity. Qed.

(* (vii) a recomputed cell whose row is removed and added again under the same id in the bundle: the summary sees
   the row as preserved (before True, after True) and appends the restoring update at the BACK (it runs first);
   the undo of the remove then re-adds the row with the recomputed value it captured.  Event boundary, flush done. *)
Definition w_readd : list event :=
  [EDoc (UpdateRecord T 2 [(A, 10)]); ECalc T B [(2, 20)]; EDoc (RemoveRecord T 2); EDoc (AddRecord T 2 [(A, 7)])].
Lemma w_readd_trace : leaves_trace_flush w_ord w_doc w_readd 14 = true.
Proof. vm_compute. reflexivity. Qed.
Lemma w_readd_boundary :
  match run_until_crash w_ord (init_state w_doc []) w_readd 14 with Crashed _ None [] => True | _ => False end.
Proof. vm_compute. exact I. Qed.
(* the same bundle without the re-add, or with the recalculation after the re-add, is reverted *)
Lemma w_readd_variants_no_trace :
  leaves_trace_flush w_ord w_doc [EDoc (UpdateRecord T 2 [(A, 10)]); ECalc T B [(2, 20)]; EDoc (RemoveRecord T 2)] 10 = false /\
  leaves_trace_flush w_ord w_doc [EDoc (RemoveRecord T 2); EDoc (AddRecord T 2 [(A, 7)]); ECalc T B [(2, 14)]] 12 = false.
Proof. vm_compute. split; reflexivity. Qed.

(* (viii) crash inside BulkRemoveRecord between undo.append and summary.remove_records, with a pending calc delta on
   the removed row: the summary still believes the row is there, so the flush APPENDS its restoring update; it runs
   first, on a table that no longer has the row: the replay fails its assert and the rollback raises *)
Definition w_remove_calc : list event :=
  [EDoc (UpdateRecord T 2 [(A, 10)]); ECalc T B [(2, 20)]; EDoc (RemoveRecord T 2)].
Lemma w_remove_before_mark_raises :
  match run_until_crash w_ord (init_state w_doc []) w_remove_calc 9 with
  | Crashed st _ done =>
      last done = Some (MUndo (BulkAddRecord T [2] [(A, [10]); (B, [20])])) /\
      bool_decide (rollback_flush w_ord st (sum_log (run_log w_ord (init_state w_doc []) w_remove_calc 9)) = None) = true
  | _ => False end.
Proof. vm_compute. split; reflexivity. Qed.
(* one step later (the mark is set) the same bundle is reverted *)
Lemma w_remove_after_mark_no_trace : leaves_trace_flush w_ord w_doc w_remove_calc 10 = false.
Proof. vm_compute. reflexivity. Qed.

(* (iii) schema action crashing after rebuild_usercode, before its undo: the schema restore re-creates the
   destroyed column empty *)
Definition w_remove_column : list event := [EDoc (RemoveColumn T A)].
Lemma w_remove_column_trace : leaves_trace_flush w_ord w_doc w_remove_column 3 = true.
Proof. vm_compute. reflexivity. Qed.
Definition w_to_formula : list event := [EDoc (ModifyColumn T A (ColMod None (Some true) (Some 9) None))].
Lemma w_to_formula_trace7 : leaves_trace_flush w_ord w_doc w_to_formula 7 = true.
Proof. vm_compute. reflexivity. Qed.
Lemma w_to_formula_trace : forallb (leaves_trace_flush w_ord w_doc w_to_formula) (seq 3 5) = true.
Proof. vm_compute. reflexivity. Qed.

(* ... likewise RenameColumn and RenameTable once rebuild_usercode has destroyed the old column / table objects *)
Definition w_rename_column : list event := [EDoc (RenameColumn T A N)].
Definition w_rename_table : list event := [EDoc (RenameTable T 5)].
Lemma w_rename_trace :
  leaves_trace_flush w_ord w_doc w_rename_column 3 = true /\ leaves_trace_flush w_ord w_doc w_rename_table 3 = true.
Proof. vm_compute. split; reflexivity. Qed.
(* while before rebuild_usercode (k = 2) every schema action is repaired by the snapshot, and AddColumn / AddTable
   also after it (k = 3) *)
Lemma w_snapshot_no_trace :
  forallb (fun es => negb (leaves_trace_flush w_ord w_doc es 2))
          [w_remove_column; w_rename_column; w_rename_table; w_to_formula] = true /\
  leaves_trace_flush w_ord w_doc [EDoc (AddColumn T N ci_int)] 3 = false /\
  leaves_trace_flush w_ord w_doc [EDoc (AddTable 5 [(A, ci_int)])] 3 = false.
Proof. vm_compute. auto. Qed.

(* (iv) schema action crashing after its undo append: restore + undo both revert it, the rollback raises and the
   earlier UpdateRecord stays applied *)
Definition w_add_column : list event := [EDoc (UpdateRecord T 1 [(A, 10)]); EDoc (AddColumn T N ci_int)].
Lemma w_add_column_raises : rollback_raises w_ord w_doc w_add_column 6 = true.
Proof. vm_compute. reflexivity. Qed.
Lemma w_add_column_flush_raises :
  match run_until_crash w_ord (init_state w_doc []) w_add_column 6 with
  | Crashed st _ _ => rollback_flush w_ord st (sum_log (run_log w_ord (init_state w_doc []) w_add_column 6)) = None
  | Finished _ => False end.
Proof. vm_compute. reflexivity. Qed.

(* (v) ReplaceTableData: its undo reloads the data columns only, formula column B comes back empty *)
Definition w_replace : list event := [EDoc (ReplaceTableData T [3; 4] [(A, [5; 6])])].
Lemma w_replace_trace : leaves_trace_flush w_ord w_doc w_replace 11 = true.
Proof. vm_compute. reflexivity. Qed.

(* control: the same bundles crashed at an undo-first point, or completed undo-first actions, leave no trace *)
Definition w_add : list event := [EDoc (BulkAddRecord T [3; 4] [(A, [5; 6])])].
Lemma w_add_no_trace : forallb (fun k => negb (leaves_trace_flush w_ord w_doc w_add k)) (seq 0 8) = true.
Proof. vm_compute. reflexivity. Qed.

(* C29: a nested recalculation of another dirty cell during a read-only evaluation is not a doc action: nothing is
   appended to the undo list, so the rollback at get_formula_value's checkpoint does not revert it. *)
Definition w_nested_calc : list event := [ECalc T B [(1, 20)]].
Lemma w_nested_calc_trace :
  match state_after w_ord (init_state w_doc []) w_nested_calc with
  | Some st => bool_decide (rollback w_ord 0 st = Some w_doc) = false /\ ms_undo st = []
  | None => False end.
Proof. vm_compute. split; reflexivity. Qed.

(* a formula side effect (lookupOrAddDerived adds a record, then a cell of it is updated) IS reverted *)
Definition w_side_effect : list event :=
  [EDoc (AddRecord T 3 [(A, 7)]); EDoc (UpdateRecord T 3 [(C, 9)])].
Lemma w_side_effect_restored :
  match state_after w_ord (init_state w_doc [RemoveTable T]) w_side_effect with
  | Some st => bool_decide (rollback w_ord 1 st = Some w_doc) = true /\ length (ms_undo st) = 3%nat
  | None => False end.
Proof. vm_compute. split; reflexivity. Qed.
