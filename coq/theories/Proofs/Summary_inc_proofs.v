(* K5, second part: the state between bundles.  `settled` is the invariant of the engine's incremental
   maintenance of a summary table; it implies exactness and is preserved by every bundle that edits source
   records, as long as the helper cells of changed or new records are re-evaluated. *)
From Coq Require Import ZArith List Bool Lia.
Import ListNotations.
Require Import Grist.Model.Summary Grist.Proofs.Summary_proofs.
Open Scope Z_scope.

(* every record's entry holds exactly the rows its keys find, and no group is empty *)
Definition settled (kinds : list kind) (src : list srow) (summ : list mrow) (hs : list (Z * list Z)) : Prop :=
  NoDup (map fst src) /\ map fst hs = map fst src /\ clean_valid kinds [] hs src summ /\
  forallb nonempty_group (with_groups summ hs) = true.

Lemma settled_empty : forall kinds, settled kinds [] [] [].
Proof. intros kinds. split; [constructor|]. split; [reflexivity|]. split; [intros r []|reflexivity]. Qed.

Lemma entries_of_aligned : forall hs (src : list srow),
  NoDup (map fst src) -> map fst hs = map fst src ->
  map (fun r => (fst r, entry hs (fst r))) src = hs.
Proof.
  intros hs src Hnd Hal. transitivity (map (fun i => (i, entry hs i)) (map fst hs)).
  - rewrite Hal, map_map. reflexivity.
  - apply entries_self. rewrite Hal. exact Hnd.
Qed.

(* re-evaluating everything in a settled state changes nothing *)
Lemma settled_pass : forall kinds src summ hs, settled kinds src summ hs ->
  exists hs', pass kinds hs src summ = (summ, hs') /\ Forall2 hequiv hs hs'.
Proof.
  intros kinds src summ hs [Hnd [Hal [Hv _]]].
  destruct (pass_d_full _ _ _ _ _ Hv) as [s' [hsd [hs' [Hd [Hp Hq]]]]].
  rewrite pass_d_nothing_dirty in Hd. inversion Hd; subst s' hsd; clear Hd.
  exists hs'. split; [exact Hp|]. rewrite (entries_of_aligned hs src Hnd Hal) in Hq. exact Hq.
Qed.

Lemma settled_equiv : forall kinds src summ hs hs',
  settled kinds src summ hs -> Forall2 hequiv hs' hs -> settled kinds src summ hs'.
Proof.
  intros kinds src summ hs hs' [Hnd [Hal [Hv Hne]]] Hq. split; [exact Hnd|]. split; [|split].
  - rewrite (hequiv_fst _ _ Hq). exact Hal.
  - eapply clean_valid_equiv; eassumption.
  - rewrite (with_groups_equiv _ _ _ Hq). exact Hne.
Qed.

(* a settled table is an exact group-by *)
Theorem settled_exact : forall kinds src summ hs,
  settled kinds src summ hs -> NoDup (map fst summ) -> no_raise kinds src ->
  (forall k, In k (map okey (with_groups summ hs)) <-> exists r, In r src /\ In k (keys_of kinds (snd r))) /\
  NoDup (map okey (with_groups summ hs)) /\
  (forall i k g, In (i, k, g) (with_groups summ hs) -> g = rows_with_key kinds src k /\ g <> []).
Proof.
  intros kinds src summ hs Hs Hids Hgood.
  destruct (settled_pass _ _ _ _ Hs) as [hs' [Hp Hq]].
  destruct Hs as [_ [_ [_ Hne]]].
  assert (E : with_groups summ hs = filter nonempty_group (with_groups summ hs')).
  { rewrite <- (with_groups_equiv _ _ _ Hq). symmetry. apply forallb_filter_id. exact Hne. }
  rewrite E. split; [|split].
  - intros k. eapply ex_keys; eassumption.
  - eapply ex_keys_NoDup; eassumption.
  - intros i k g Hin. eapply (ex_groups kinds hs src summ summ hs' Hids Hp Hgood i k g). exact Hin.
Qed.

(* ------------------------------------------------------------------ one bundle *)

Lemma settle_trace_of_st : forall dirties kinds prev src summ,
  settle_trace kinds prev src summ dirties =
  match settle_trace_st kinds prev src summ dirties with
  | Some (s, hs) => Some (with_groups s hs)
  | None => None
  end.
Proof.
  induction dirties as [|d rest IH]; intros kinds prev src summ; [reflexivity|].
  cbn [settle_trace settle_trace_st]. destruct (pass_d kinds d prev src summ) as [s1 hs].
  destruct rest as [|d2 rest']; [destruct (forallb nonempty_group (with_groups s1 hs)); reflexivity|].
  apply IH.
Qed.

Lemma trace_rounds_stable_st : forall rest kinds src s2 href prev',
  NoDup (map fst src) -> map fst href = map fst src -> Forall2 hequiv prev' href ->
  clean_valid kinds [] href src s2 ->
  forallb nonempty_group (with_groups s2 href) = true ->
  rest <> [] ->
  exists hsf, settle_trace_st kinds prev' src s2 rest = Some (s2, hsf) /\ Forall2 hequiv hsf href.
Proof.
  induction rest as [|d rest IH]; intros kinds src s2 href prev' Hnd Hal Hq Hv Hne Hrest; [congruence|].
  cbn [settle_trace_st].
  pose proof (clean_valid_equiv kinds d _ _ _ _ Hq Hv) as Hvd.
  pose proof (clean_valid_equiv kinds [] _ _ _ _ Hq Hv) as Hv0.
  destruct (pass_d_full _ _ _ _ _ Hvd) as [s' [hsd [hs' [Hd [Hp Hqd]]]]].
  destruct (pass_d_full _ _ _ _ _ Hv0) as [s0 [hsd0 [hs0 [Hd0 [Hp0 Hq0]]]]].
  rewrite pass_d_nothing_dirty in Hd0. inversion Hd0; subst s0 hsd0; clear Hd0.
  rewrite Hp in Hp0. inversion Hp0; subst s' hs0; clear Hp0.
  assert (Hal' : map fst prev' = map fst src) by (rewrite (hequiv_fst _ _ Hq); exact Hal).
  rewrite (entries_of_aligned prev' src Hnd Hal') in Hq0.
  assert (Hfin : Forall2 hequiv hsd href).
  { eapply hequiv_trans; [exact Hqd|]. eapply hequiv_trans; [apply hequiv_sym; exact Hq0|exact Hq]. }
  rewrite Hd. rewrite (with_groups_equiv _ _ _ Hfin). rewrite Hne.
  destruct rest as [|d2 rest']; [exists hsd; split; [reflexivity|exact Hfin]|].
  rewrite (auto_remove_all _ _ Hne).
  apply IH; try assumption. discriminate.
Qed.

(* The state after a bundle: if the entries that the first round leaves alone are up to date, the loop ends in a
   settled state whose table is the one full re-evaluation gives. *)
Theorem settled_after_bundle : forall kinds prev src summ d1 rest,
  NoDup (map fst src) -> clean_valid kinds d1 prev src summ -> rest <> [] ->
  exists s' hs', settle_trace_st kinds prev src summ (d1 :: rest) = Some (s', hs') /\
                 settled kinds src s' hs' /\
                 settle_loop 2 kinds prev src summ = Some (with_groups s' hs') /\
                 (NoDup (map fst summ) -> NoDup (map fst s')).
Proof.
  intros kinds prev src summ d1 rest Hnd Hv Hrest.
  destruct (pass_d_full _ _ _ _ _ Hv) as [s1 [hsd [hs [Hd [Hp Hq]]]]].
  rewrite (settle_loop_closed _ _ _ _ _ _ Hnd Hp 0).
  cbn [settle_trace_st]. rewrite Hd. rewrite (with_groups_equiv _ _ _ Hq).
  destruct rest as [|d2 rest']; [congruence|].
  rewrite auto_remove_filter.
  set (s2 := filter (fun r => keepb hs (fst r)) s1).
  assert (Hal : map fst hs = map fst src) by (eapply pass_fst; exact Hp).
  assert (Hv2 : clean_valid kinds [] hs src s2) by (eapply round_fixpoint; eassumption).
  assert (Hne : forallb nonempty_group (with_groups s2 hs) = true).
  { unfold s2. rewrite <- filter_with_groups. apply forallb_filter_self. }
  destruct (trace_rounds_stable_st (d2 :: rest') kinds src s2 hs hsd Hnd Hal Hq Hv2 Hne) as [hsf [Hst Hqf]];
    [discriminate|].
  exists s2, hsf. split; [exact Hst|]. split.
  - apply (settled_equiv kinds src s2 hs hsf); [|exact Hqf].
    split; [exact Hnd|]. split; [exact Hal|]. split; assumption.
  - split.
    + rewrite (with_groups_equiv _ _ _ Hqf). unfold s2. rewrite filter_with_groups. reflexivity.
    + intros Hids. unfold s2. apply NoDup_map_filter. eapply pass_ids_NoDup; eassumption.
Qed.

(* What the dependency tracking of the engine has to deliver for that: a changed group-by cell (or a new
   record) dirties its own helper cell.  Rows appended to the summary table (larger ids) invalidate nothing. *)
Lemma clean_valid_after_edit : forall kinds src summ hs src' extra d,
  settled kinds src summ hs ->
  (forall r, In r src' -> mem_z (fst r) d = false -> In r src) ->
  clean_valid kinds d hs src' (summ ++ extra).
Proof.
  intros kinds src summ hs src' extra d [_ [_ [Hv _]]] Hd r Hr Hc.
  apply hspec_extend. apply Hv; [apply Hd; assumption|reflexivity].
Qed.

(* ------------------------------------------------------------------ a whole history of bundles *)

Inductive reachable (kinds : list kind) : list srow -> list mrow -> list (Z * list Z) -> Prop :=
| reach_empty : reachable kinds [] [] []
| reach_bundle : forall src summ hs src' extra d rest s' hs',
    reachable kinds src summ hs ->
    NoDup (map fst src') -> NoDup (map fst (summ ++ extra)) ->
    (forall r, In r src' -> mem_z (fst r) d = false -> In r src) ->
    rest <> [] ->
    settle_trace_st kinds hs src' (summ ++ extra) (d :: rest) = Some (s', hs') ->
    reachable kinds src' s' hs'.

Theorem reachable_settled : forall kinds src summ hs, reachable kinds src summ hs ->
  settled kinds src summ hs /\ NoDup (map fst summ).
Proof.
  intros kinds src summ hs H. induction H as [|src summ hs src' extra d rest s' hs' _ [IH _] Hnd Hids Hd Hrest Hst].
  - split; [apply settled_empty|constructor].
  - pose proof (clean_valid_after_edit kinds src summ hs src' extra d IH Hd) as Hv.
    destruct (settled_after_bundle kinds hs src' (summ ++ extra) d rest Hnd Hv Hrest)
      as [s2 [hs2 [Hst2 [Hs2 [_ Hi2]]]]].
    rewrite Hst in Hst2. inversion Hst2; subst. split; [exact Hs2|apply Hi2; exact Hids].
Qed.

(* ------------------------------------------------------------------ the monitor is sound *)

Lemma hspecb_sound : forall kinds summ stale cells h,
  hspecb kinds summ cells h = true -> row_keys kinds cells <> None \/ h = stale -> hspec kinds summ stale cells h.
Proof.
  intros kinds summ stale cells h H Hor. unfold hspecb in H. unfold hspec.
  destruct (row_keys kinds cells) as [ks|]; [|destruct Hor as [Hc|Hc]; [congruence|exact Hc]].
  apply andb_true_iff in H. destruct H as [H1 H2]. rewrite forallb_forall in H1, H2. split.
  - intros k Hk. specialize (H1 k Hk). destruct (first_match summ k) as [i|]; [|discriminate].
    exists i. split; [apply mem_z_In; exact H1|reflexivity].
  - intros i Hi. specialize (H2 i Hi). apply existsb_exists in H2. destruct H2 as [k [Hk Hf]].
    exists k. split; [exact Hk|]. destruct (first_match summ k) as [j|]; [|discriminate].
    apply Z.eqb_eq in Hf. subst. reflexivity.
Qed.

Theorem clean_validb_sound : forall kinds d prev src summ,
  clean_validb kinds d prev src summ = true -> clean_valid kinds d prev src summ.
Proof.
  intros kinds d prev src summ H r Hr Hd. unfold clean_validb in H. rewrite forallb_forall in H.
  specialize (H r Hr). rewrite Hd in H. simpl in H. apply (hspecb_sound _ _ _ _ _ H). right. reflexivity.
Qed.

(* ------------------------------------------------------------------ keys of summary rows rewritten in place

   (reference clean-up of chained summary tables, type conversions of the group-by column).  What the lookup
   invalidation of the engine has to deliver: a summary row whose key changes dirties the helper cells that
   looked up its old or its new key.  The entries of all other records stay up to date. *)

(* same rows, same order, possibly other keys *)
Definition rekeyed (summ summ' : list mrow) : Prop := Forall2 (fun a b => fst a = fst b) summ summ'.

(* k is neither the old nor the new key of a row whose key changed *)
Definition unaffected (summ summ' : list mrow) (k : key) : Prop :=
  Forall2 (fun a b => snd a = snd b \/ (snd a <> k /\ snd b <> k)) summ summ'.

Lemma first_match_rekeyed : forall summ summ' k,
  rekeyed summ summ' -> unaffected summ summ' k -> first_match summ' k = first_match summ k.
Proof.
  intros summ summ' k Hr. induction Hr as [|a b l l' Hf _ IH]; intros Hu; [reflexivity|].
  inversion Hu as [|a' b' m m' Hab Hrest]; subst. simpl. rewrite <- Hf.
  destruct Hab as [E|[Ha Hb]].
  - rewrite <- E. destruct (key_eqb (snd a) k); [reflexivity|apply IH; exact Hrest].
  - destruct (key_eqb (snd a) k) eqn:Ea; [apply key_eqb_spec in Ea; contradiction|].
    destruct (key_eqb (snd b) k) eqn:Eb; [apply key_eqb_spec in Eb; contradiction|].
    apply IH. exact Hrest.
Qed.

Theorem clean_valid_after_rekey : forall kinds src summ hs src' summ' d,
  settled kinds src summ hs -> rekeyed summ summ' ->
  (forall r, In r src' -> mem_z (fst r) d = false ->
             In r src /\ forall k, In k (keys_of kinds (snd r)) -> unaffected summ summ' k) ->
  clean_valid kinds d hs src' summ'.
Proof.
  intros kinds src summ hs src' summ' d [_ [_ [Hv _]]] Hr Hd r Hin Hc.
  destruct (Hd r Hin Hc) as [Hsrc Hun]. specialize (Hv r Hsrc eq_refl).
  unfold hspec in *. unfold keys_of in Hun. destruct (row_keys kinds (snd r)) as [ks|]; [|reflexivity].
  destruct Hv as [H1 H2]. split.
  - intros k Hk. destruct (H1 k Hk) as [i [Hi Hf]]. exists i. split; [exact Hi|].
    rewrite (first_match_rekeyed summ summ' k Hr (Hun k Hk)). exact Hf.
  - intros i Hi. destruct (H2 i Hi) as [k [Hk Hf]]. exists k. split; [exact Hk|].
    rewrite (first_match_rekeyed summ summ' k Hr (Hun k Hk)). exact Hf.
Qed.
