(* C07: the functions translated from /repo on every run (coq/gen/Reload_gen.v, by harness/rl2v.py) are, pointwise, the
   hand-written model of Model/Reload.v (and the E branch of Values.decode_f).  A semantic edit of the translated source
   changes the generated term and breaks one of these proofs. *)
From Coq Require Import ZArith List Bool Lia String.
Import ListNotations.
Require Import Grist.Lib.PyFloat Grist.Model.Values Grist.Model.Reload Grist.Model.ReloadPrims Grist.Proofs.Values_enc_proofs.
Require Import GristGen.Reload_gen.
Open Scope Z_scope.

Section Bridge.
Variable orc : oracles.
Local Opaque starts_with Str.

(* ---- column.py ---------------------------------------------------------------------------------------- *)

Lemma bridge_BoolColumn_set : forall v, gen_BoolColumn_set v = Ok (bool_set v).
Proof.
  intros v. unfold gen_BoolColumn_set, bool_set. cbn [bind].
  destruct (py_eq_small v 1); [reflexivity|]. cbn [bind]. destruct (py_eq_small v 0); reflexivity.
Qed.

Lemma bridge_NumericColumn_set : forall v, gen_NumericColumn_set orc v = numeric_set v.
Proof.
  intros v. unfold gen_NumericColumn_set, numeric_set.
  destruct v; try reflexivity; try (destruct k; reflexivity). destruct sub; [reflexivity|].
  unfold p_float, py_float, p_fn. cbn. destruct (f_of_Z z); reflexivity.
Qed.

Lemma bridge_ChoiceListColumn_set : forall v, gen_ChoiceListColumn_set orc v = Ok (choicelist_set orc v).
Proof.
  intros v. unfold gen_ChoiceListColumn_set, choicelist_set.
  destruct v; try reflexivity.
  cbn. destruct (starts_with (Str "[") s); [|reflexivity]. cbn.
  destruct (o_json_loads orc s) as [j|]; [|reflexivity]. cbn. unfold p_tuple. destruct (py_iter orc j); reflexivity.
Qed.

Lemma p_gt_int_integer : forall s f n, f_trunc f = TrOk n -> f_eq_Z f n = true -> p_gt_int (PFloat s f) 0 = Ok (0 <? n).
Proof.
  intros s f n Et Eq. destruct f as [|neg|neg|m e]; try discriminate Et.
  - cbn in Et. injection Et as <-. reflexivity.
  - cbn [p_gt_int]. rewrite Et, Eq. reflexivity.
Qed.

Lemma bridge_ReferenceColumn_clean_up_value : forall v, gen_ReferenceColumn_clean_up_value v = Ok (ref_cleanup v).
Proof.
  intros v. unfold gen_ReferenceColumn_clean_up_value, ref_cleanup.
  destruct v; try reflexivity; try (destruct k; reflexivity). destruct sub; [reflexivity|].
  cbn [p_type pytype_eqb ty_float Bool.eqb p_and bind p_is_integer].
  destruct (f_trunc f) as [n| |] eqn:Et; try reflexivity.
  destruct (f_eq_Z f n) eqn:Eq; [|reflexivity].
  cbn [bind]. rewrite (p_gt_int_integer false f n Et Eq).
  unfold p_int, py_int_of_float. rewrite Et. cbn [bind p_and].
  destruct (0 <? n); [|reflexivity]. cbn [bind p_is_int_short andb].
  destruct (is_int_short n); reflexivity.
Qed.

Lemma pos_short_pointwise : forall x,
  p_and (Ok (p_isinstance x CInt)) (p_and (p_gt_int x 0) (p_is_int_short x)) = Ok (is_pos_short_int x).
Proof.
  intros x. destruct x; try reflexivity.
  - destruct b; reflexivity.
  - cbn. destruct (0 <? z); reflexivity.
Qed.

Lemma all_result_forallb : forall (f : value -> result bool) g l,
  (forall x, f x = Ok (g x)) -> all_result f l = Ok (forallb g l).
Proof.
  intros f g l H. induction l as [|x l IH]; [reflexivity|].
  cbn [all_result forallb]. rewrite H. cbn [bind]. destruct (g x); [exact IH|reflexivity].
Qed.

Lemma bridge_ReferenceListColumn_clean_up_value : forall v,
  gen_ReferenceListColumn_clean_up_value orc v = Ok (reflist_cleanup orc v).
Proof.
  intros v. unfold gen_ReferenceListColumn_clean_up_value, reflist_cleanup.
  destruct v; try reflexivity.
  cbn [p_isinstance bind p_startswith]. destruct (starts_with (Str "[") s).
  - cbn [bind p_json_loads]. destruct (o_json_loads orc s) as [j|]; [|reflexivity].
    cbn [bind]. destruct j; try reflexivity.
    cbn [p_isinstance p_not bind negb p_all py_iter].
    rewrite (all_result_forallb _ is_pos_short_int l) by (intros x; exact (pos_short_pointwise x)). cbn [bind].
    destruct (forallb is_pos_short_int l); reflexivity.
  - cbn [bind p_recordlist_from_repr]. destruct (reclist_from_repr orc s); reflexivity.
Qed.

(* ---- main.py ------------------------------------------------------------------------------------------ *)

Lemma bridge_decode_db_value : forall unmarshal fuel x,
  gen_decode_db_value (decode_f orc fuel) (loads_of unmarshal) x = Ok (fst (from_db orc unmarshal fuel x)).
Proof.
  intros u fuel x. unfold gen_decode_db_value, from_db.
  destruct x; try reflexivity; try (destruct k; reflexivity). destruct sub; reflexivity.
Qed.

(* ---- objtypes.py: strict_equal, equal_encoding ----------------------------------------------------------- *)

Lemma pytype_same_type : forall a b, pytype_eqb (p_type a) (p_type b) = same_type a b.
Proof.
  intros a b. destruct a; destruct b; try reflexivity;
    try (destruct k; reflexivity); try (destruct k; destruct k0; reflexivity).
Qed.

Lemma bridge_strict_equal : forall a b, gen_strict_equal orc a b = Ok (strict_equal orc a b).
Proof.
  intros a b. unfold gen_strict_equal, strict_equal, p_eq. rewrite pytype_same_type.
  destruct (same_type a b); reflexivity.
Qed.

Lemma bridge_equal_encoding : forall fuel a b,
  gen_equal_encoding orc (encode_f orc fuel) a b = Ok (equal_encoding orc fuel a b).
Proof.
  intros fuel a b. unfold gen_equal_encoding, equal_encoding, p_eq.
  destruct a; destruct b; try reflexivity; try (destruct k; reflexivity);
    try (destruct b0; destruct b; reflexivity);
    try (cbn; destruct (f_eq f f0); [reflexivity|]; cbn; destruct (f_is_nan f); reflexivity).
Qed.

(* ---- objtypes.py: safe_shift, RaisedException.decode_args ---------------------------------------------------- *)

Lemma bridge_safe_shift : forall k l d,
  gen_safe_shift orc (PList k l) d = Ok (fst (shift_or d l), PList k (snd (shift_or d l))).
Proof.
  intros k l d. unfold gen_safe_shift. destruct l as [|x t]; [reflexivity|]. destruct x; reflexivity.
Qed.

(* what decode_args builds from ['E', a, rest...]: the fields _name, _message, details, user_input (NO_INPUT when there is
   none; decoded by `dec` = decode_object) and error (the stand-in exception: (class named a, constructor arguments)) *)
Definition exc_tuple (dec : value -> value) (a : value) (rest : list value) : result value :=
  let '(msg, a2) := shift_or PNone rest in
  let '(details, a3) := shift_or PNone a2 in
  let '(ui, _) := shift_or (PDict []) a3 in
  match ui with
  | PDict l =>
      Ok (PTuple [a; msg; details;
                  dec (match dict_get (Str "u") l with Some u => u | None => NO_INPUT end);
                  if p_isinstance a CStr then PTuple [a; PList LPlain (if p_is_none msg then [] else [msg])] else PNone])
  | _ => Raise E_Attribute
  end.

Lemma bridge_decode_args : forall dec a rest,
  gen_decode_args orc dec (PTuple (a :: rest)) = exc_tuple dec a rest.
Proof.
  intros dec a rest. unfold gen_decode_args, exc_tuple.
  cbn [p_list py_iter bind p_truthy py_truthy].
  rewrite bridge_safe_shift. cbn [bind fst snd].
  assert (Ha : fst (shift_or PNone (a :: rest)) = a /\ snd (shift_or PNone (a :: rest)) = rest) by (destruct a; split; reflexivity).
  destruct Ha as [Ha1 Ha2]. rewrite Ha1, Ha2.
  rewrite bridge_safe_shift. cbn [bind fst snd]. destruct (shift_or PNone rest) as [msg a2]. cbn [fst snd].
  rewrite bridge_safe_shift. cbn [bind fst snd]. destruct (shift_or PNone a2) as [details a3]. cbn [fst snd].
  rewrite bridge_safe_shift. cbn [bind fst snd]. destruct (shift_or (PDict []) a3) as [ui a4]. cbn [fst snd].
  destruct ui; try reflexivity.
  cbn [p_dict_get bind]. unfold p_new_exc_class, p_instantiate.
  destruct (p_isinstance a CStr); [|reflexivity]. cbn [bind]. destruct (p_is_none msg); reflexivity.
Qed.

(* ---- decode_args inside decode_object ------------------------------------------------------------------------ *)

Definition not_opaque (v : value) : bool := match v with POpaque _ => false | _ => true end.

Lemma ts_to_dt_not_opaque : forall ts z w, ts_to_dt orc ts z = Ok w -> not_opaque w = true.
Proof.
  intros ts z w. unfold ts_to_dt. destruct (td_of_seconds orc ts) as [u|]; cbn [bind]; [|discriminate].
  destruct (negb (in_dt_range u)); [discriminate|].
  destruct (negb (in_dt_range (u + o_ts_offset orc z u))); [discriminate|].
  intros H; injection H as <-. reflexivity.
Qed.

Lemma ts_to_date_not_opaque : forall ts w, ts_to_date orc ts = Ok w -> not_opaque w = true.
Proof.
  intros ts w. unfold ts_to_date. destruct (td_of_seconds orc ts) as [u|]; cbn [bind]; [|discriminate].
  match goal with |- context [if ?b then _ else _] => destruct b end; [|discriminate].
  intros H; injection H as <-. reflexivity.
Qed.

(* decode_object of a list or tuple never yields a foreign object *)
Lemma decode_seq_not_opaque : forall n k items,
  not_opaque (decode_f orc n (PList k items)) = true /\ not_opaque (decode_f orc n (PTuple items)) = true.
Proof.
  intros n k items.
  assert (H : forall v, v = PList k items \/ v = PTuple items -> not_opaque (decode_f orc n v) = true).
  { intros v [-> | ->]; destruct items as [|code args]; destruct n; cbn [decode_f]; try reflexivity.
    all: repeat match goal with
         | |- context [if code_is ?c ?x then _ else _] => destruct (code_is c x)
         end.
    all: repeat match goal with
         | |- context [nth_arg ?i ?a] => destruct (nth_arg i a); cbn [bind]
         | |- context [o_zone_known orc ?z] => destruct (o_zone_known orc z) as [[|]|]; cbn [bind negb]
         end.
    all: try reflexivity.
    all: repeat match goal with
         | |- context [ts_to_dt orc ?a ?b] =>
             let E := fresh "E" in destruct (ts_to_dt orc a b) eqn:E; [exact (ts_to_dt_not_opaque _ _ _ E)|reflexivity]
         | |- context [ts_to_date orc ?a] =>
             let E := fresh "E" in destruct (ts_to_date orc a) eqn:E; [exact (ts_to_date_not_opaque _ _ E)|reflexivity]
         | |- context [match ?x with _ => _ end] =>
             match type of x with
             | value => destruct x
             | list value => destruct x
             | list (value * value) => destruct x
             | option bool => destruct x
             | bool => destruct x
             | (value * list value)%type => destruct x
             | option value => destruct x
             end; try reflexivity
         end. }
  split; apply H; [left|right]; reflexivity.
Qed.

Lemma decode_not_no_input : forall n u, not_opaque u = true -> p_is_no_input (decode_f orc n u) = false.
Proof.
  intros n u Hu.
  assert (H : not_opaque (decode_f orc n u) = true).
  { destruct u; try (destruct n; exact Hu); try (destruct n; reflexivity).
    - apply (decode_seq_not_opaque n k l).
    - apply (decode_seq_not_opaque n LPlain l). }
  destruct (decode_f orc n u); try reflexivity. discriminate H.
Qed.

Lemma marshalable_not_opaque : forall v, marshalableb v = true -> not_opaque v = true.
Proof. intros v H. destruct v; try reflexivity. discriminate H. Qed.

Lemma shift_or_marshalable : forall d l, marshalableb d = true -> forallb marshalableb l = true ->
  marshalableb (fst (shift_or d l)) = true /\ forallb marshalableb (snd (shift_or d l)) = true.
Proof.
  intros d l Hd Hl. destruct l as [|x t]; [split; [exact Hd|reflexivity]|].
  cbn [forallb] in Hl. apply andb_true_iff in Hl as [Hx Ht]. destruct x; cbn [shift_or fst snd]; split; assumption.
Qed.

Lemma dict_get_marshalable : forall key l u, marshalableb (PDict l) = true -> dict_get key l = Some u -> marshalableb u = true.
Proof.
  intros key l u. induction l as [|[k x] l IH]; [discriminate|].
  cbn [marshalableb forallb]. intros H. apply andb_true_iff in H as [Hkx Hl].
  destruct k; try discriminate Hkx. destruct sub; [discriminate Hkx|]. cbn [dict_get].
  destruct (str_eqb s key); [intros E; injection E as <-; exact Hkx|]. apply IH. exact Hl.
Qed.

(* a decoded RaisedException, as the fields decode_args sets, and the description of its .error *)
Definition err_of_tuple (r : result value) : value :=
  match r with
  | Ok (PTuple [name; msg; details; ui; _]) => PErr name msg details (if p_is_no_input ui then None else Some ui)
  | Ok _ => PNone
  | Raise e => raised e
  end.

Definition errdesc_of_tuple (r : result value) : option errdesc :=
  match r with
  | Ok (PTuple [_; _; _; _; PTuple [PStr _ nm; PList _ []]]) => Some (nm, Some [])
  | Ok (PTuple [_; _; _; _; PTuple [PStr _ nm; PList _ [m]]]) => Some (nm, Some (or_default [] (py_str orc m)))
  | Raise e => Some (e, None)            (* the exception decode_object caught: its text is the library's *)
  | _ => None
  end.

(* The E branch of decode_object is the translated decode_args (dec = decode_object with the remaining stack), for
   arguments that came out of marshal. *)
Lemma decode_E_by_gen : forall n a rest, forallb marshalableb rest = true ->
  decode_f orc (S n) (tag "E" (a :: rest)) = err_of_tuple (gen_decode_args orc (decode_f orc n) (PTuple (a :: rest))).
Proof.
  intros n a rest Hm. rewrite bridge_decode_args, decode_E_args. unfold exc_tuple.
  destruct (shift_or_marshalable PNone rest eq_refl Hm) as [_ H2]. destruct (shift_or PNone rest) as [msg a2]. cbn [snd] in H2.
  destruct (shift_or_marshalable PNone a2 eq_refl H2) as [_ H3]. destruct (shift_or PNone a2) as [details a3]. cbn [snd] in H3.
  destruct (shift_or_marshalable (PDict []) a3 eq_refl H3) as [Hui _]. destruct (shift_or (PDict []) a3) as [ui a4]. cbn [fst] in Hui.
  destruct ui; try reflexivity.
  destruct (dict_get (Str "u") l) as [u|] eqn:Eu; cbn [err_of_tuple].
  - rewrite decode_not_no_input; [reflexivity|]. apply marshalable_not_opaque. eapply dict_get_marshalable; eassumption.
  - destruct n; reflexivity.
Qed.

(* ... and the .error the model gives a decoded error cell is the stand-in the translated decode_args builds *)
Lemma decoded_err_by_gen : forall n a rest,
  decoded_err orc (S n) (tag "E" (a :: rest)) = errdesc_of_tuple (gen_decode_args orc (decode_f orc n) (PTuple (a :: rest))).
Proof.
  intros n a rest. rewrite bridge_decode_args. unfold decoded_err. rewrite decode_E_args.
  unfold exc_tuple, e_form_ok, tag, e_args_ok. rewrite shift_or_cons.
  destruct (shift_or PNone rest) as [msg a2]. destruct (shift_or PNone a2) as [details a3].
  destruct (shift_or (PDict []) a3) as [ui a4].
  destruct ui; try reflexivity.
  assert (Hc : code_is "E" (PStr false (Str "E")) = true) by reflexivity. rewrite Hc. cbn [andb].
  assert (Hok : match dict_get (Str "u") l with Some _ => true | None => true end = true) by (destruct (dict_get (Str "u") l); reflexivity).
  destruct (dict_get (Str "u") l) as [u|]; cbn [errdesc_of_tuple];
    (destruct a; try reflexivity; cbn [p_isinstance]; unfold exc_text; destruct msg; reflexivity).
Qed.

(* ---- the load path and the change detection, as translated -------------------------------------------------------- *)

Lemma bridge_col_set : forall T v, gen_col_set orc T v = col_set orc T v.
Proof.
  intros T v. unfold gen_col_set, gen_set_kind, col_set.
  destruct T; try reflexivity;
    first [ apply bridge_BoolColumn_set | apply bridge_NumericColumn_set | apply bridge_ChoiceListColumn_set
          | apply bridge_ReferenceColumn_clean_up_value | apply bridge_ReferenceListColumn_clean_up_value ].
Qed.

Lemma bridge_reload : forall marshal unmarshal T fuel c,
  code_reload orc marshal unmarshal T fuel c = reload orc marshal unmarshal T fuel c.
Proof.
  intros m u T fuel c. unfold code_reload, reload. rewrite bridge_decode_db_value. cbn [bind].
  destruct (from_db orc u fuel (u (m (to_db m (encode_f orc fuel (fst c)))))) as [d err]. cbn [fst snd].
  rewrite bridge_col_set. reflexivity.
Qed.

Lemma bridge_recompute_cell : forall previous new, code_recompute_cell orc previous new = Ok (recompute_cell orc previous new).
Proof. intros p n. unfold code_recompute_cell, recompute_cell. rewrite bridge_strict_equal. reflexivity. Qed.

Lemma bridge_flush_cell : forall fuel chg, code_flush_cell orc fuel chg = Ok (flush_cell orc fuel chg).
Proof.
  intros fuel [[b a]|]; [|reflexivity]. unfold code_flush_cell, flush_cell. rewrite bridge_equal_encoding. reflexivity.
Qed.

End Bridge.
