(* C07: the functions translated from /repo on every run (coq/gen/Reload_gen.v, by harness/rl2v.py) are, pointwise, the
   hand-written model of Model/Reload.v (and the E branch of Values.decode_f).  A semantic edit of the translated source
   changes the generated term and breaks one of these proofs. *)
From Coq Require Import ZArith List Bool Lia String.
Import ListNotations.
Require Import Grist.Lib.PyFloat Grist.Model.Values Grist.Model.Reload Grist.Model.ReloadPrims.
Require Import GristGen.Reload_gen.
Open Scope Z_scope.

Section Bridge.
Variable orc : oracles.
Local Opaque starts_with Str.

(* ---- column.py ---------------------------------------------------------------------------------------- *)

Lemma bridge_BoolColumn_set : forall v, gen_BoolColumn_set v = Ok (bool_set v).
Proof.
  intros v. unfold gen_BoolColumn_set, bool_set. cbn [bind].
  destruct (py_eq_small v 1); [reflexivity|]. cbn [bind]. destruct (py_eq_small v 0); reflexivity.
Qed.

Lemma bridge_NumericColumn_set : forall v, gen_NumericColumn_set orc v = numeric_set v.
Proof.
  intros v. unfold gen_NumericColumn_set, numeric_set.
  destruct v; try reflexivity; try (destruct k; reflexivity). destruct sub; [reflexivity|].
  unfold p_float, py_float, p_fn. cbn. destruct (f_of_Z z); reflexivity.
Qed.

Lemma bridge_ChoiceListColumn_set : forall v, gen_ChoiceListColumn_set orc v = Ok (choicelist_set orc v).
Proof.
  intros v. unfold gen_ChoiceListColumn_set, choicelist_set.
  destruct v; try reflexivity.
  - (* str *) cbn. destruct (starts_with (Str "[") s); [|reflexivity]. cbn.
    destruct (o_json_loads orc s) as [j|]; [|reflexivity]. cbn. unfold p_tuple. destruct (py_iter orc j); reflexivity.
  - (* list *) reflexivity.
Qed.

Lemma bridge_ReferenceColumn_clean_up_value : forall v, gen_ReferenceColumn_clean_up_value v = Ok (ref_cleanup v).
Proof.
  intros v. unfold gen_ReferenceColumn_clean_up_value, ref_cleanup.
  destruct v; try reflexivity; try (destruct k; reflexivity). destruct sub; [reflexivity|].
  destruct f as [|neg|neg|m e]; try reflexivity.
  - (* zero *) cbn. reflexivity.
  - cbn [p_type pytype_eqb ty_float Bool.eqb p_and bind p_is_integer].
    destruct (f_trunc (FNum m e)) as [n| |] eqn:Et; try reflexivity.
    destruct (f_eq_Z (FNum m e) n) eqn:Eq; [|reflexivity].
    cbn [bind p_gt_int p_int py_int_of_float]. rewrite Et, Eq. cbn [bind p_and].
    destruct (0 <? n); [|reflexivity]. cbn [bind p_is_int_short andb].
    destruct (is_int_short n); reflexivity.
Qed.

Lemma pos_short_pointwise : forall x,
  p_and (Ok (p_isinstance x CInt)) (p_and (p_gt_int x 0) (p_is_int_short x)) = Ok (is_pos_short_int x).
Proof.
  intros x. destruct x; try reflexivity.
  - destruct b; reflexivity.
  - cbn. destruct (0 <? z); reflexivity.
Qed.

Lemma all_result_forallb : forall (f : value -> result bool) g l,
  (forall x, f x = Ok (g x)) -> all_result f l = Ok (forallb g l).
Proof.
  intros f g l H. induction l as [|x l IH]; [reflexivity|].
  cbn [all_result forallb]. rewrite H. cbn [bind]. destruct (g x); [exact IH|reflexivity].
Qed.

Lemma bridge_ReferenceListColumn_clean_up_value : forall v,
  gen_ReferenceListColumn_clean_up_value orc v = Ok (reflist_cleanup orc v).
Proof.
  intros v. unfold gen_ReferenceListColumn_clean_up_value, reflist_cleanup.
  destruct v; try reflexivity.
  cbn [p_isinstance bind p_startswith]. destruct (starts_with (Str "[") s).
  - cbn [bind p_json_loads]. destruct (o_json_loads orc s) as [j|]; [|reflexivity].
    cbn [bind]. destruct j; try reflexivity.
    cbn [p_isinstance p_not bind negb p_all py_iter].
    rewrite (all_result_forallb _ is_pos_short_int l pos_short_pointwise). cbn [bind].
    destruct (forallb is_pos_short_int l); reflexivity.
  - cbn [bind p_recordlist_from_repr]. destruct (reclist_from_repr orc s); reflexivity.
Qed.

End Bridge.
