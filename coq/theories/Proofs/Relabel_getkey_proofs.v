(* C20: _adj_get_key (bisect.bisect_left over the adjustments, compared as (index, key) tuples) returns the adjusted
   key of a row if the row was adjusted and its original key otherwise, when the adjustments are sorted by index. *)
From Coq Require Import ZArith List Bool Lia.
Import ListNotations.
Require Import Grist.Lib.Fl64 Grist.Model.Relabel.
Open Scope Z_scope.

Section Bsearch.
Variables (p : Z -> bool) (m : Z).
(* p is "a[mid] < x": true on a prefix [0, k), false on [k, m) *)
Variable k : Z.
Hypothesis Hk : 0 <= k <= m.
Hypothesis Hp_true : forall i, 0 <= i < k -> p i = true.
Hypothesis Hp_false : forall i, k <= i < m -> p i = false.

Lemma bsearch_inv : forall fuel lo hi, 0 <= lo <= k -> k <= hi <= m -> hi - lo < Z.of_nat fuel ->
  bsearch fuel p lo hi = k.
Proof.
  induction fuel as [|f IH]; intros lo hi Hlo Hhi Hf; [lia|]. cbn [bsearch].
  destruct (Z.ltb_spec lo hi) as [Hlt|Hge]; [|lia].
  assert (Hmid : lo <= (lo + hi) / 2 < hi).
  { split; [apply Z.div_le_lower_bound; lia | apply Z.div_lt_upper_bound; lia]. }
  destruct (p ((lo + hi) / 2)) eqn:E.
  - assert ((lo + hi) / 2 < k).
    { destruct (Z.lt_ge_cases ((lo + hi) / 2) k) as [H|H]; [exact H|]. rewrite Hp_false in E by lia. discriminate. }
    apply IH; lia.
  - assert (k <= (lo + hi) / 2).
    { destruct (Z.le_gt_cases k ((lo + hi) / 2)) as [H|H]; [exact H|]. rewrite Hp_true in E by lia. discriminate. }
    apply IH; lia.
Qed.
End Bsearch.

Section GetKey.
Variables (orig : list fl) (al : list (Z * fl)) (inss : list fl).
Let m := lenZ al.
Let idx (pos : Z) : Z := fst (nthZ al pos (0, FNaN)).
Hypothesis Hidx_incr : forall pos pos', 0 <= pos < pos' -> pos' < m -> idx pos < idx pos'.

(* number of adjustments with an index below j *)
Fixpoint below (l : list (Z * fl)) (j : Z) : Z :=
  match l with [] => 0 | q :: t => if fst q <? j then 1 + below t j else 0 end.

Lemma below_range l j : 0 <= below l j <= lenZ l.
Proof. unfold lenZ. induction l as [|q t IH]; cbn [below length]; [lia|]. destruct (fst q <? j); lia. Qed.

Lemma below_prefix l j : forall i, 0 <= i < below l j -> fst (nthZ l i (0, FNaN)) < j.
Proof.
  unfold nthZ. induction l as [|q t IH]; intros i Hi; cbn [below] in Hi; [lia|].
  destruct (Z.ltb_spec (fst q) j) as [H|H]; [|lia]. destruct (Z.eq_dec i 0) as [->|Hne]; [exact H|].
  replace (Z.to_nat i) with (S (Z.to_nat (i - 1))) by lia. cbn [nth]. apply IH. lia.
Qed.

Lemma below_stop l j : below l j < lenZ l -> j <= fst (nthZ l (below l j) (0, FNaN)).
Proof.
  unfold nthZ, lenZ. induction l as [|q t IH]; cbn [below length]; intros H; [lia|].
  destruct (Z.ltb_spec (fst q) j) as [Hq|Hq]; [|cbn; lia]. pose proof (below_range t j).
  replace (Z.to_nat (1 + below t j)) with (S (Z.to_nat (below t j))) by lia. cbn [nth]. apply IH. unfold lenZ in *. lia.
Qed.

Theorem adj_get_key_spec j :
  adj_get_key orig (mkwl al inss) j =
  let k := below al j in
  if (k <? m) && (idx k =? j) then snd (nthZ al k (0, FNaN)) else nthZ orig j FNaN.
Proof.
  unfold adj_get_key. cbn [adjs]. fold m.
  pose proof (below_range al j) as Hr. fold m in Hr.
  assert (Hb : bsearch (S (length al)) (fun mid => fst (nthZ al mid (0, FNaN)) <? j) 0 m = below al j).
  { apply (bsearch_inv _ m (below al j)); try lia.
    - intros i Hi. apply Z.ltb_lt. apply below_prefix. exact Hi.
    - intros i Hi. apply Z.ltb_ge. destruct (Z.eq_dec i (below al j)) as [->|Hne]; [apply below_stop; fold m; lia|].
      pose proof (below_stop al j ltac:(fold m; lia)). pose proof (Hidx_incr (below al j) i ltac:(lia) ltac:(lia)). unfold idx in *. lia.
    - unfold m, lenZ. lia. }
  rewrite Hb. reflexivity.
Qed.
End GetKey.

(* ---- the same lookup on the adjusted list itself *)
From Coq Require Import Sorted.
Definition idx_lt (p q : Z * fl) : Prop := fst p < fst q.

Lemma set_nth_len i v : forall l, length (set_nth i v l) = length l.
Proof. induction i as [|i IH]; intros [|x t]; cbn; auto. Qed.
Lemma nth_set_eq i v : forall l, (i < length l)%nat -> nth i (set_nth i v l) FNaN = v.
Proof. induction i as [|i IH]; intros [|x t] H; cbn in *; try lia; [reflexivity | apply IH; lia]. Qed.
Lemma nth_set_neq i j v : forall l, i <> j -> nth i (set_nth j v l) FNaN = nth i l FNaN.
Proof. revert i. induction j as [|j IH]; intros [|i] [|x t] H; cbn; try reflexivity; try lia. apply IH. lia. Qed.

Lemma below_none l j : Forall (fun q => j <= fst q) l -> below l j = 0.
Proof. destruct l as [|q t]; intros H; cbn [below]; [reflexivity|]. inversion H; subst. replace (fst q <? j) with false; [reflexivity|]. symmetry. apply Z.ltb_ge. assumption. Qed.

Lemma apply_adj_lookup al : forall orig j, StronglySorted idx_lt al -> Forall (fun q => 0 <= fst q < lenZ orig) al ->
  (j < length orig)%nat ->
  nth j (apply_adj orig al) FNaN =
  let k := below al (Z.of_nat j) in
  if (k <? lenZ al) && (fst (nthZ al k (0, FNaN)) =? Z.of_nat j) then snd (nthZ al k (0, FNaN)) else nth j orig FNaN.
Proof.
  unfold apply_adj. induction al as [|[i v] t IH]; intros orig j Hs Hr Hj; cbn [fold_left below].
  - reflexivity.
  - inversion Hs as [|? ? Hst Hit]; subst. inversion Hr as [|? ? Hi Hrt]; subst. cbn [fst snd] in *.
    assert (Hlen : lenZ (set_nth (Z.to_nat i) v orig) = lenZ orig) by (unfold lenZ; rewrite set_nth_len; reflexivity).
    rewrite IH; [| exact Hst | rewrite Hlen; exact Hrt | rewrite set_nth_len; exact Hj].
    cbv zeta. destruct (Z.ltb_spec i (Z.of_nat j)) as [Hlt|Hge].
    + (* the head is below j: positions shift by one *)
      pose proof (below_range [] t (Z.of_nat j)) as Hb.
      replace (1 + below t (Z.of_nat j) <? lenZ ((i, v) :: t)) with (below t (Z.of_nat j) <? lenZ t)
        by (unfold lenZ; cbn [length]; destruct (Z.ltb_spec (below t (Z.of_nat j)) (Z.of_nat (length t))), (Z.ltb_spec (1 + below t (Z.of_nat j)) (Z.of_nat (S (length t)))); lia).
      unfold nthZ. replace (Z.to_nat (1 + below t (Z.of_nat j))) with (S (Z.to_nat (below t (Z.of_nat j)))) by lia. cbn [nth].
      rewrite nth_set_neq by lia. reflexivity.
    + (* every remaining index is >= i >= j *)
      assert (Hall : Forall (fun q => Z.of_nat j <= fst q) t).
      { rewrite Forall_forall in *. intros q Hq. specialize (Hit q Hq). unfold idx_lt in Hit. cbn [fst] in Hit. lia. }
      rewrite (below_none t _ Hall). unfold lenZ. cbn [length nthZ Z.to_nat nth fst snd].
      replace (0 <? Z.of_nat (S (length t))) with true by (symmetry; apply Z.ltb_lt; lia). cbn [andb].
      destruct (Z.eqb_spec i (Z.of_nat j)) as [->|Hne].
      * (* the head is row j; nothing later touches it *)
        assert (Hnot : (0 <? Z.of_nat (length t)) && (fst (nth 0 t (0, FNaN)) =? Z.of_nat j) = false).
        { destruct t as [|q t']; [reflexivity|]. cbn [nth length]. apply andb_false_intro2. apply Z.eqb_neq.
          rewrite Forall_forall in Hit. specialize (Hit q (or_introl eq_refl)). unfold idx_lt in Hit. cbn [fst] in Hit. lia. }
        unfold nthZ in *. cbn [Z.to_nat] in *. rewrite Hnot. rewrite Nat2Z.id. apply nth_set_eq. exact Hj.
      * assert (Hnot : (0 <? Z.of_nat (length t)) && (fst (nth 0 t (0, FNaN)) =? Z.of_nat j) = false).
        { destruct t as [|q t']; [reflexivity|]. cbn [nth length]. apply andb_false_intro2. apply Z.eqb_neq.
          rewrite Forall_forall in Hit. specialize (Hit q (or_introl eq_refl)). unfold idx_lt in Hit. cbn [fst] in Hit. lia. }
        unfold nthZ in *. cbn [Z.to_nat] in *. rewrite Hnot. apply nth_set_neq. lia.
Qed.

Lemma sorted_idx_nth al : StronglySorted idx_lt al ->
  forall pos pos', 0 <= pos < pos' -> pos' < lenZ al -> fst (nthZ al pos (0, FNaN)) < fst (nthZ al pos' (0, FNaN)).
Proof.
  intros Hs pos pos' H1 H2. unfold nthZ, lenZ in *.
  assert (Hgen : forall l, StronglySorted idx_lt l -> forall a b, (a < b < length l)%nat -> idx_lt (nth a l (0, FNaN)) (nth b l (0, FNaN))).
  { induction 1 as [|x t Ht IH Hx]; intros a b Hab; cbn in Hab; [lia|].
    destruct b as [|b]; [lia|]. destruct a as [|a]; cbn.
    - rewrite Forall_forall in Hx. apply Hx. apply nth_In. lia.
    - apply IH. lia. }
  apply (Hgen al Hs (Z.to_nat pos) (Z.to_nat pos')). lia.
Qed.

(* _adj_get_key reads the adjusted list *)
Theorem adj_get_key_virtual orig al inss j :
  StronglySorted idx_lt al -> Forall (fun q => 0 <= fst q < lenZ orig) al -> (j < length orig)%nat ->
  adj_get_key orig (mkwl al inss) (Z.of_nat j) = nth j (apply_adj orig al) FNaN.
Proof.
  intros Hs Hr Hj. rewrite (adj_get_key_spec orig al inss (sorted_idx_nth al Hs)).
  rewrite (apply_adj_lookup al orig j Hs Hr Hj). cbv zeta.
  replace (nthZ orig (Z.of_nat j) FNaN) with (nth j orig FNaN) by (unfold nthZ; rewrite Nat2Z.id; reflexivity). reflexivity.
Qed.
