(* K6 proofs, part 19: CreateViewSection with group-by columns (new summary table). *)
From Coq Require Import ZArith List Bool Lia.
Import ListNotations.
Require Import Grist.Model.MetaCascade Grist.Proofs.MetaCascade_base Grist.Proofs.MetaCascade_inv
  Grist.Proofs.MetaCascade_rm
  Grist.Proofs.MetaCascade_add Grist.Proofs.MetaCascade_add2 Grist.Proofs.MetaCascade_add3
  Grist.Proofs.MetaCascade_add4 Grist.Proofs.MetaCascade_add6 Grist.Proofs.MetaCascade_upd Grist.Proofs.MetaCascade_sumd.
Open Scope Z_scope.

Lemma cols_of_table_incl : forall m gb t, cols_of_table m gb t = true -> incl gb (cids m).
Proof.
  intros m gb t H x Hx. unfold cols_of_table in H. rewrite forallb_forall in H. specialize (H x Hx).
  apply existsb_exists in H. destruct H as [c [Hc Hp]]. apply andb_true_iff in Hp. destruct Hp as [Hp _].
  apply Z.eqb_eq in Hp. subst x. unfold cids. apply in_map. exact Hc.
Qed.

Lemma create_summary_inv : forall src v gb name gbkinds fkinds dcopies m m',
  Inv m -> create_summary src v gb name gbkinds fkinds dcopies m = Ok m' -> Inv m'.
Proof.
  intros src v gb name gbkinds fkinds dcopies m m' HI H. unfold create_summary in H.
  destruct ((src =? 0) || negb (mem src (tids m))) eqn:Es.
  { destruct (src =? 0); discriminate. }
  apply orb_false_iff in Es. destruct Es as [_ Es]. apply negb_false_iff in Es. apply mem_In in Es.
  destruct (negb (cols_of_table m gb src)) eqn:Ec; [discriminate|].
  apply negb_false_iff in Ec. apply cols_of_table_incl in Ec.
  assert (HB : exists m1 v1, (if v =? 0 then add_view src false m else if mem v (m_views m) then Ok (m, v) else Fail)
                             = Ok (m1, v1) /\ Inv m1 /\ In v1 (m_views m1) /\ In src (tids m1) /\ incl gb (cids m1)).
  { destruct (v =? 0).
    - destruct (add_view src false m) as [[m1 v1]| |] eqn:Ev; simpl in H; try discriminate.
      exists m1, v1. split; [reflexivity|]. destruct (add_view_inv [] src false m m1 v1 HI Ev) as [J1 [J2 [_ [_ J5]]]].
      destruct (add_view_frame src false m m1 v1 Ev) as [_ F2].
      split; [exact J1|]. split; [exact J2|]. split; [rewrite J5; exact Es | unfold cids; rewrite F2; exact Ec].
    - destruct (mem v (m_views m)) eqn:Em; simpl in H; try discriminate.
      exists m, v. split; [reflexivity|]. split; [exact HI|]. split; [apply mem_In; exact Em|]. split; assumption. }
  destruct HB as [m1 [v1 [EB [HI1 [Hv1 [Hs1 Hg1]]]]]]. rewrite EB in H. unfold bind in H at 1. cbv beta iota in H.
  destruct (find_summary m1 src gb); [discriminate|].
  destruct (add_summary_table_d name src gb gbkinds fkinds dcopies m1) as [[m2 t]| |] eqn:Ea; unfold bind in H; try discriminate.
  cbv beta iota in H.
  destruct (add_summary_table_d_inv _ _ _ _ _ _ _ _ _ HI1 Hs1 Hg1 Ea) as [HI2 [Ht2 [V2 _]]].
  assert (Hv2 : Optref (m_views m2) v1) by (right; rewrite V2; exact Hv1).
  pose proof (add_section_inv [] t v1 false m2 HI2 Ht2 Hv2) as HI3.
  destruct (add_section_sec t v1 false m2) as [S3 [C3 _]].
  destruct (add_section t v1 false m2) as [m3 s]. simpl in HI3, S3, C3.
  inversion H; subst m'. clear H.
  apply add_fields_inv; [exact HI3|].
  intros c Hc. apply in_map_iff in Hc. destruct Hc as [cr [E Hcr]]. apply filter_In in Hcr. destruct Hcr as [Hcr Hp].
  apply andb_true_iff in Hp. destruct Hp as [Hp _]. apply andb_true_iff in Hp. destruct Hp as [Hp _]. apply Z.eqb_eq in Hp.
  exists (mkS s t v1 [] false), cr. split; [exact S3|]. split; [reflexivity|]. split; [exact Hcr|].
  split; [exact E | simpl; exact Hp].
Qed.
