(* Every item handed to add_row is represented in the final tables (C33: top_items_are_rows,
   nested_object_referenced, array_elements_point_back). *)
From Coq Require Import ZArith List Bool Arith Lia.
Import ListNotations.
Require Import Grist.Model.JsonImport Grist.Model.JsonImportSpec.
Require Import Grist.Proofs.JsonImport_proofs Grist.Proofs.JsonImport_tables_proofs.

Section ReprProofs.
Variable inc : str -> bool.

(* later events do not write into the rows made by this call *)
Definition outside (pre evs post : list event) : Prop :=
  forall T r k c, In (ECell T r k c) post -> r <= count T pre \/ count T (pre ++ evs) < r.

Definition Repr_ok (v : json) : Prop :=
  forall T p pre post,
    wf_json v -> bounded pre ->
    outside pre (fst (add_row inc v T p pre)) post ->
    repr inc (ttables (pre ++ fst (add_row inc v T p pre) ++ post)) v T (snd (add_row inc v T p pre)) /\
    (forall r, snd (add_row inc v T p pre) = Some r ->
       parent_of (pre ++ fst (add_row inc v T p pre) ++ post) T r = p).

Definition act_spec (ts : list ttable) (T : str) (row : option nat) (a : action) : Prop :=
  match a with
  | AScalar k s => forall r, row = Some r -> inc (sub T k) = true -> tcell ts T k r = Some (CS s)
  | AObj k x =>
      exists row', repr inc ts x (sub T k) row' /\
        forall r r', row = Some r -> row' = Some r' -> tcell ts T k r = Some (CR (sub T k, r'))
  | AElem k e =>
      exists row', repr inc ts e (sub T k) row' /\
        forall r r', row = Some r -> row' = Some r' -> tparent ts (sub T k) r' = Some (CR (T, r))
  end.

Definition good_child (x : json) : Prop := Fresh inc x /\ Ok inc x /\ wf_json x /\ Repr_ok x.

Lemma own_key_untouched_later T row r k a0 rest pre' :
  NoDup (own_keys (a0 :: rest)) -> In k (own_key a0) -> row = Some r -> r <= count T pre' ->
  (forall a x, In a rest -> In x (child a) -> Fresh inc x) ->
  untouched T r k (acts_evs inc T row pre' rest).
Proof.
  intros Hnd Hk Hrow Hr HF c Hin.
  destruct (acts_evs_own_or_fresh inc T row rest pre' HF _ _ _ _ Hin) as [[_ [_ H3]]|H]; [|lia].
  unfold own_keys in Hnd. cbn [flat_map] in Hnd. exact (nodup_app_disj _ _ _ Hnd Hk H3).
Qed.

Lemma repr_row_range ts v T r : repr inc ts v T (Some r) -> 1 <= r <= tnrows ts T.
Proof. intros H. inversion H; subst. cbn in H0. tauto. Qed.

Lemma acts_spec acts : forall pre post T row,
  (forall a x, In a acts -> In x (child a) -> good_child x) ->
  NoDup (own_keys acts) -> bounded pre -> own_row_ready T row pre acts ->
  (forall r, row = Some r -> forall k c, ~ In (ECell T r k c) post) ->
  outside pre (acts_evs inc T row pre acts) post ->
  forall a, In a acts -> act_spec (ttables (pre ++ acts_evs inc T row pre acts ++ post)) T row a.
Proof.
  induction acts as [|a0 rest IH]; intros pre post T row HC Hnd Hb Hready Hpost Hout a Ha; [contradiction|].
  cbn [acts_evs] in *.
  set (ea := act_evs inc T row pre a0) in *.
  set (re := acts_evs inc T row (pre ++ ea) rest) in *.
  assert (HFrest : forall a x, In a rest -> In x (child a) -> Fresh inc x).
  { intros a' x Ha' Hx. apply (HC a' x (or_intror Ha') Hx). }
  assert (Hok : ok pre ea).
  { eapply act_evs_ok; eauto. intros x Hx. destruct (HC a0 x (or_introl eq_refl) Hx) as [H1 [H2 [H3 _]]]. auto. }
  assert (Hoof : own_or_fresh T row pre [a0] ea).
  { apply act_evs_own_or_fresh. intros x Hx. apply (HC a0 x (or_introl eq_refl) Hx). }
  assert (Hready' : own_row_ready T row (pre ++ ea) rest) by (eapply own_ready_step; eauto).
  assert (Hlater : forall r k, row = Some r -> In k (own_key a0) -> untouched T r k (re ++ post)).
  { intros r k Hrow Hk. apply untouched_app. split.
    - eapply own_key_untouched_later; eauto. destruct (Hready r Hrow) as [Hrange _]. rewrite count_app. lia.
    - intros c. apply Hpost. exact Hrow. }
  destruct Ha as [<-|Ha].
  - (* the first action *)
    destruct a0 as [k s|k x|k e]; cbn [act_spec].
    + intros r Hrow Hinc. subst ea. cbn [act_evs] in *. unfold scalar_evs in *. rewrite Hrow, Hinc in *.
      destruct (Hready r eq_refl) as [Hrange _].
      apply tcell_log.
      * rewrite !count_app. lia.
      * cbn [app]. apply cell_at_written. apply Hlater; [reflexivity|left; reflexivity].
    + destruct (HC (AObj k x) x (or_introl eq_refl) (or_introl eq_refl)) as [HFx [_ [Hwfx HRx]]].
      specialize (HRx (sub T k) None pre (link_evs T row k (snd (add_row inc x (sub T k) None pre)) ++ re ++ post) Hwfx Hb).
      specialize (HFx (sub T k) None pre).
      subst ea. cbn [act_evs] in *.
      destruct (add_row inc x (sub T k) None pre) as [ev res] eqn:Eadd. cbn [fst snd] in *.
      assert (Hlg : pre ++ ((ev ++ link_evs T row k res) ++ re) ++ post =
                    pre ++ ev ++ link_evs T row k res ++ re ++ post) by (rewrite <- !app_assoc; reflexivity).
      rewrite Hlg.
      destruct HRx as [Hrepr _].
      { intros T' r' k' c Hin. apply in_app_or in Hin. destruct Hin as [Hin|Hin].
        - left. unfold link_evs in Hin. destruct row as [r|]; [|contradiction]. destruct res as [r2|]; [|contradiction].
          destruct Hin as [Hin|[]]. inversion Hin; subst. destruct (Hready r' eq_refl) as [Hrange _]. lia.
        - apply in_app_or in Hin. destruct Hin as [Hin|Hin].
          + destruct (acts_evs_own_or_fresh inc T row rest _ HFrest _ _ _ _ Hin) as [[H1 [H2 _]]|H].
            * left. subst T'. destruct (Hready r' H2) as [Hrange _]. lia.
            * right. rewrite !count_app in *. lia.
          + destruct (Hout _ _ _ _ Hin) as [H|H]; [left; exact H|right]. rewrite !count_app in *. lia. }
      exists res. split; [exact Hrepr|].
      intros r r' Hrow Hres. subst row res. cbn [link_evs] in *.
      destruct (Hready r eq_refl) as [Hrange _].
      apply tcell_log.
      * rewrite !count_app. lia.
      * rewrite app_assoc. cbn [app]. apply cell_at_written. apply Hlater; [reflexivity|left; reflexivity].
    + destruct (HC (AElem k e) e (or_introl eq_refl) (or_introl eq_refl)) as [HFe [_ [Hwfe HRe]]].
      specialize (HRe (sub T k) (myref T row) pre (re ++ post) Hwfe Hb).
      subst ea. cbn [act_evs] in *.
      assert (Hlg : pre ++ (fst (add_row inc e (sub T k) (myref T row) pre) ++ re) ++ post =
                    pre ++ fst (add_row inc e (sub T k) (myref T row) pre) ++ re ++ post)
        by (rewrite <- !app_assoc; reflexivity).
      rewrite Hlg.
      destruct HRe as [Hrepr Hpar].
      { intros T' r' k' c Hin. apply in_app_or in Hin. destruct Hin as [Hin|Hin].
        - destruct (acts_evs_own_or_fresh inc T row rest _ HFrest _ _ _ _ Hin) as [[H1 [H2 _]]|H].
          + left. subst T'. destruct (Hready r' H2) as [Hrange _]. lia.
          + right. rewrite !count_app in *. lia.
        - destruct (Hout _ _ _ _ Hin) as [H|H]; [left; exact H|right]. rewrite !count_app in *. lia. }
      exists (snd (add_row inc e (sub T k) (myref T row) pre)). split; [exact Hrepr|].
      intros r r' Hrow Hres. apply tparent_log.
      * rewrite Hres in Hrepr. apply repr_row_range in Hrepr. rewrite tnrows_log in Hrepr. exact Hrepr.
      * rewrite (Hpar r' Hres). subst row. reflexivity.
  - (* a later action *)
    assert (Hlg : pre ++ (ea ++ re) ++ post = (pre ++ ea) ++ re ++ post) by (rewrite <- !app_assoc; reflexivity).
    rewrite Hlg. apply IH; auto.
    + intros a' x Ha' Hx. apply (HC a' x (or_intror Ha') Hx).
    + unfold own_keys in *. cbn [flat_map] in Hnd. apply nodup_app_r in Hnd. exact Hnd.
    + apply bounded_ok; assumption.
    + intros T' r' k' c Hin. destruct (Hout _ _ _ _ Hin) as [H|H]; [left|right]; rewrite !count_app in *; unfold re in *; lia.
Qed.

Lemma in_plan_scalar v k s : In (k, JS s) (fields v) -> In (AScalar k s) (plan v).
Proof. intros H. unfold plan. apply in_flat_map. exists (k, JS s). split; [exact H|left; reflexivity]. Qed.

Lemma in_plan_obj v k o : In (k, JObj o) (fields v) -> In (AObj k (JObj o)) (plan v).
Proof. intros H. unfold plan. apply in_flat_map. exists (k, JObj o). split; [exact H|left; reflexivity]. Qed.

Lemma in_plan_elem v k l e : In (k, JArr l) (fields v) -> In e l -> In (AElem k e) (plan v).
Proof.
  intros H He. unfold plan. apply in_flat_map. exists (k, JArr l). split; [exact H|]. cbn. apply in_map. exact He.
Qed.

Lemma Repr_all : forall v, Repr_ok v.
Proof.
  induction v as [v IH] using json_children_ind. intros T p pre post Hwf Hb.
  rewrite add_row_plan. cbn [fst snd]. intros Hout.
  set (row := row_for inc T pre) in *. set (e0 := e0_for inc T p) in *.
  set (ae := acts_evs inc T row (pre ++ e0) (plan v)) in *.
  assert (Hlg : pre ++ (e0 ++ ae) ++ post = (pre ++ e0) ++ ae ++ post) by (rewrite <- !app_assoc; reflexivity).
  destruct (wf_plan v Hwf) as [Hnd Hch].
  assert (Hrowcount : forall r, row = Some r -> inc T = true /\ r = S (count T pre) /\ e0 = [ERow T p]).
  { intros r Hr. subst row e0. unfold row_for, e0_for in *. destruct (inc T); [|discriminate]. inversion Hr. auto. }
  assert (Hspec : forall a, In a (plan v) -> act_spec (ttables (pre ++ (e0 ++ ae) ++ post)) T row a).
  { rewrite Hlg. apply acts_spec.
    - intros a x Ha Hx. split; [apply Fresh_all|]. split; [apply Ok_all|]. split; [eapply Hch; eauto|].
      apply IH. eapply in_children_plan; eauto.
    - exact Hnd.
    - apply bounded_e0. exact Hb.
    - apply own_row_ready_start. exact Hb.
    - intros r Hr k c Hin. destruct (Hrowcount r Hr) as [_ [-> He0]].
      destruct (Hout _ _ _ _ Hin) as [H|H]; [lia|]. rewrite He0, !count_app, count_row_same in H. lia.
    - intros T' r' k' c Hin. destruct (Hout _ _ _ _ Hin) as [H|H]; [left|right]; rewrite !count_app in *; unfold ae in *; lia. }
  split.
  - apply Repr.
    + unfold row_ok. destruct row as [r|] eqn:Erow.
      * destruct (Hrowcount r eq_refl) as [Hi [-> He0]]. split; [exact Hi|].
        rewrite tnrows_log, He0, !count_app, count_row_same. lia.
      * subst row. unfold row_for in Erow. destruct (inc T); [discriminate|reflexivity].
    + intros k s r Hin Hr Hi. apply (Hspec _ (in_plan_scalar v k s Hin) r Hr Hi).
    + intros k o Hin. apply (Hspec _ (in_plan_obj v k o Hin)).
    + intros k l e Hin He. apply (Hspec _ (in_plan_elem v k l e Hin He)).
  - intros r Hr. destruct (Hrowcount r Hr) as [_ [-> He0]]. rewrite He0. cbn [app].
    apply parent_of_new.
Qed.

(* ------------------------------------------------------------------ tables of nested items have longer names *)

Definition Rows_ge (v : json) : Prop :=
  forall T p pre T' p', In (ERow T' p') (fst (add_row inc v T p pre)) -> length T <= length T'.

Lemma sub_length T k : length (sub T k) = length T + S (length k).
Proof. unfold sub. rewrite app_length. reflexivity. Qed.

Lemma acts_rows_longer T row acts : forall pre,
  (forall a x, In a acts -> In x (child a) -> Rows_ge x) ->
  forall T' p', In (ERow T' p') (acts_evs inc T row pre acts) -> length T < length T'.
Proof.
  induction acts as [|a rest IH]; intros pre HC T' p' Hin; cbn [acts_evs] in Hin; [contradiction|].
  apply in_app_or in Hin. destruct Hin as [Hin|Hin].
  - destruct a as [k s|k x|k e]; cbn [act_evs] in Hin.
    + unfold scalar_evs in Hin. destruct row; [|contradiction]. destruct (inc (sub T k)); [|contradiction].
      destruct Hin as [Hin|[]]. discriminate.
    + specialize (HC (AObj k x) x (or_introl eq_refl) (or_introl eq_refl) (sub T k) None pre T' p').
      destruct (add_row inc x (sub T k) None pre) as [ev res]. cbn [fst] in HC.
      apply in_app_or in Hin. destruct Hin as [Hin|Hin].
      * specialize (HC Hin). rewrite sub_length in HC. lia.
      * unfold link_evs in Hin. destruct row; [|contradiction]. destruct res; [|contradiction].
        destruct Hin as [Hin|[]]. discriminate.
    + specialize (HC (AElem k e) e (or_introl eq_refl) (or_introl eq_refl) (sub T k) (myref T row) pre T' p' Hin).
      rewrite sub_length in HC. lia.
  - eapply IH; [|exact Hin]. intros a' x Ha Hx. apply (HC a' x (or_intror Ha) Hx).
Qed.

Lemma Rows_ge_all : forall v, Rows_ge v.
Proof.
  induction v as [v IH] using json_children_ind. intros T p pre T' p' Hin.
  rewrite add_row_plan in Hin. cbn [fst] in Hin. apply in_app_or in Hin. destruct Hin as [Hin|Hin].
  - unfold e0_for in Hin. destruct (inc T); [|contradiction]. destruct Hin as [Hin|[]]. inversion Hin. lia.
  - apply Nat.lt_le_incl. eapply acts_rows_longer; [|exact Hin].
    intros a x Ha Hx. apply IH. eapply in_children_plan; eauto.
Qed.

Lemma count_zero_no_row T lg : (forall p, ~ In (ERow T p) lg) -> count T lg = 0.
Proof.
  unfold count. induction lg as [|e lg IH]; intros H; [reflexivity|]. cbn.
  destruct e as [T' p|]; cbn.
  - destruct (str_eqb T' T) eqn:E.
    + apply str_eqb_eq in E. subst. exfalso. apply (H p). left. reflexivity.
    + apply IH. intros p0 Hp. apply (H p0). right. exact Hp.
  - apply IH. intros p0 Hp. apply (H p0). right. exact Hp.
Qed.

(* an item adds exactly one row to its own table (when the table is kept) *)
Lemma count_own v T p pre : count T (fst (add_row inc v T p pre)) = if inc T then 1 else 0.
Proof.
  rewrite add_row_plan. cbn [fst]. rewrite count_app.
  rewrite (count_zero_no_row T (acts_evs inc T _ _ (plan v))).
  - unfold e0_for. destruct (inc T); [rewrite count_row_same|]; reflexivity.
  - intros p0 Hin. apply acts_rows_longer in Hin; [lia|]. intros a x _ _. apply Rows_ge_all.
Qed.

(* ------------------------------------------------------------------ the whole document *)

Lemma run_items_cons name v0 items pre :
  run_items inc name (v0 :: items) pre = run_items inc name items (pre ++ fst (add_row inc v0 name None pre)).
Proof. reflexivity. Qed.

Lemma run_items_ext name items : forall pre,
  exists tail, run_items inc name items pre = pre ++ tail /\ fresh pre tail.
Proof.
  induction items as [|v0 items IH]; intros pre.
  - exists []. split; [cbn; rewrite app_nil_r; reflexivity|intros T r k c []].
  - rewrite run_items_cons. destruct (IH (pre ++ fst (add_row inc v0 name None pre))) as [tail [Heq Hf]].
    exists (fst (add_row inc v0 name None pre) ++ tail). split; [rewrite Heq, app_assoc; reflexivity|].
    intros T r k c Hin. apply in_app_or in Hin. destruct Hin as [Hin|Hin].
    + eapply Fresh_all. exact Hin.
    + specialize (Hf _ _ _ _ Hin). rewrite count_app in Hf. lia.
Qed.

Lemma run_items_ok name items : forall pre,
  (forall v, In v items -> wf_json v) -> bounded pre ->
  exists tail, run_items inc name items pre = pre ++ tail /\ ok pre tail.
Proof.
  induction items as [|v0 items IH]; intros pre Hwf Hb.
  - exists []. split; [cbn; rewrite app_nil_r; reflexivity|exact I].
  - rewrite run_items_cons.
    assert (Hok : ok pre (fst (add_row inc v0 name None pre))).
    { apply Ok_all; [apply Hwf; left; reflexivity|exact Hb]. }
    destruct (IH (pre ++ fst (add_row inc v0 name None pre)) (fun v Hv => Hwf v (or_intror Hv))
                 (bounded_ok _ _ Hb Hok)) as [tail [Heq Hokt]].
    exists (fst (add_row inc v0 name None pre) ++ tail). split; [rewrite Heq, app_assoc; reflexivity|].
    apply ok_app. auto.
Qed.

(* rows of the main table: one per top-level item, in order, each representing its item *)
Lemma run_items_repr name items : forall pre,
  (forall v, In v items -> wf_json v) -> bounded pre ->
  count name (run_items inc name items pre) = count name pre + (if inc name then length items else 0) /\
  forall i v, nth_error items i = Some v ->
    repr inc (ttables (run_items inc name items pre)) v name
         (if inc name then Some (count name pre + S i) else None).
Proof.
  induction items as [|v0 items IH]; intros pre Hwf Hb.
  - split; [unfold run_items; cbn [fold_left length]; destruct (inc name); lia|intros [|i] v H; discriminate].
  - rewrite run_items_cons.
    set (ev := fst (add_row inc v0 name None pre)) in *.
    assert (Hwf0 : wf_json v0) by (apply Hwf; left; reflexivity).
    assert (Hok : ok pre ev) by (apply Ok_all; assumption).
    assert (Hb' : bounded (pre ++ ev)) by (apply bounded_ok; assumption).
    destruct (IH (pre ++ ev) (fun v Hv => Hwf v (or_intror Hv)) Hb') as [Hcnt Hrep].
    assert (Hev : count name ev = if inc name then 1 else 0) by apply count_own.
    split.
    + rewrite Hcnt, count_app, Hev. cbn [length]. destruct (inc name); lia.
    + intros [|i] v Hnth.
      * cbn in Hnth. inversion Hnth; subst v.
        destruct (run_items_ext name items (pre ++ ev)) as [tail [Heq Hf]].
        destruct (Repr_all v0 name None pre tail Hwf0 Hb) as [Hr _].
        { intros T r k c Hin. right. apply (Hf _ _ _ _ Hin). }
        fold ev in Hr. rewrite Heq, <- app_assoc.
        replace (snd (add_row inc v0 name None pre)) with (row_for inc name pre) in Hr
          by (rewrite add_row_plan; reflexivity).
        unfold row_for in Hr. destruct (inc name); [|exact Hr].
        replace (count name pre + 1) with (S (count name pre)) by lia. exact Hr.
      * cbn [nth_error] in Hnth. specialize (Hrep i v Hnth). rewrite count_app, Hev in Hrep.
        destruct (inc name); [|exact Hrep].
        replace (count name pre + S (S i)) with (count name pre + 1 + S i) by lia. exact Hrep.
Qed.

End ReprProofs.
