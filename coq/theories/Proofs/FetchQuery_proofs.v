(* Proofs for C41: the model of Engine.fetch_table equals the declarative filter specification. *)
From Coq Require Import ZArith List Bool Lia Sorted.
Import ListNotations.
Require Import Grist.Lib.PyVal Grist.Model.FetchQuery.
Open Scope Z_scope.

(* ---------------------------------------------------------------- one queried column *)

Definition truth (o : option bool) : bool := match o with Some b => b | None => false end.

(* Whether the requested values became a set or stayed a list, and whether the cell can be hashed or
   not, "row passes this column" is exactly "the cell == some requested value". *)
Lemma cell_in_prep : forall x vals, truth (cell_in x (prep_values vals)) = py_in x vals.
Proof.
  intros x vals. unfold prep_values. destruct (forallb hashable vals) eqn:Hall; simpl.
  - destruct (hashable x) eqn:Hx; simpl.
    + apply py_set_in.
    + symmetry. destruct (py_in x vals) eqn:Hin; [|reflexivity].
      apply py_in_iff in Hin. destruct Hin as [v [Hv Heq]].
      apply py_eq_hashable in Heq. rewrite forallb_forall in Hall. rewrite (Hall v Hv) in Heq. congruence.
  - reflexivity.
Qed.

Lemma row_ok_cons : forall c vs rest r,
  row_ok ((c, vs) :: rest) r = truth (cell_in (raw_get c r) vs) && row_ok rest r.
Proof.
  intros. simpl. destruct (cell_in (raw_get c r) vs) as [[|]|]; reflexivity.
Qed.

(* ---------------------------------------------------------------- the whole query *)

Lemma prepare_query_row_ok : forall t q qc,
  prepare_query t q = Ok qc -> forall r, row_ok qc r = matchesb t q r.
Proof.
  intros t q. induction q as [|[cid vals] rest IH]; intros qc H r.
  - simpl in H. injection H as <-. reflexivity.
  - simpl in H. destruct (get_column t cid) as [c|] eqn:Hc; [|discriminate].
    destruct (prepare_query t rest) as [qc'|e] eqn:Hrest; [|discriminate].
    injection H as <-. rewrite row_ok_cons, cell_in_prep, (IH qc' eq_refl r).
    unfold matchesb. simpl. rewrite Hc. reflexivity.
Qed.

Lemma prepare_query_ok : forall t q,
  (forall cid, In cid (map fst q) -> get_column t cid <> None) -> exists qc, prepare_query t q = Ok qc.
Proof.
  intros t q. induction q as [|[cid vals] rest IH]; intros H.
  - exists []. reflexivity.
  - simpl. destruct (get_column t cid) as [c|] eqn:Hc.
    + destruct IH as [qc Hqc]. { intros x Hx. apply H. right. exact Hx. }
      rewrite Hqc. eexists. reflexivity.
    + exfalso. apply (H cid); [left; reflexivity | exact Hc].
Qed.

Lemma prepare_query_err : forall t q e,
  prepare_query t q = ErrKeyError e -> In e (map fst q) /\ get_column t e = None.
Proof.
  intros t q. induction q as [|[cid vals] rest IH]; intros e H.
  - discriminate.
  - simpl in H. destruct (get_column t cid) as [c|] eqn:Hc.
    + destruct (prepare_query t rest) as [qc'|e'] eqn:Hrest; [discriminate|].
      injection H as <-. destruct (IH e' eq_refl) as [Hin Hn]. split; [right; exact Hin | exact Hn].
    + injection H as <-. split; [left; reflexivity | exact Hc].
Qed.

(* ---------------------------------------------------------------- row ids *)

Lemma filter_map_comm : forall {A B} (f : B -> bool) (g : A -> B) l,
  filter f (map g l) = map g (filter (fun x => f (g x)) l).
Proof.
  intros A B f g l. induction l as [|x l IH]; simpl; [reflexivity|].
  destruct (f (g x)); simpl; rewrite IH; reflexivity.
Qed.

Lemma row_ids_all_ids : forall t, row_ids t = all_ids t.
Proof.
  intros t. unfold row_ids, all_ids. rewrite filter_map_comm. f_equal.
  apply filter_ext. intros i. rewrite Nat2Z.id. reflexivity.
Qed.

Lemma seq_sorted : forall n s, StronglySorted lt (seq s n).
Proof.
  induction n as [|n IH]; intros s; simpl; constructor.
  - apply IH.
  - apply Forall_forall. intros x Hx. apply in_seq in Hx. lia.
Qed.

Lemma filter_sorted : forall {A} (R : A -> A -> Prop) (f : A -> bool) l,
  StronglySorted R l -> StronglySorted R (filter f l).
Proof.
  intros A R f l H. induction H as [|x l Hl IH Hx]; simpl; [constructor|].
  destruct (f x); [|exact IH]. constructor; [exact IH|].
  apply Forall_forall. intros y Hy. apply filter_In in Hy. destruct Hy as [Hy _].
  rewrite Forall_forall in Hx. apply Hx. exact Hy.
Qed.

Lemma map_of_nat_sorted : forall l, StronglySorted lt l -> StronglySorted Z.lt (map Z.of_nat l).
Proof.
  intros l H. induction H as [|x l Hl IH Hx]; simpl; constructor; [exact IH|].
  apply Forall_forall. intros y Hy. apply in_map_iff in Hy. destruct Hy as [z [<- Hz]].
  rewrite Forall_forall in Hx. specialize (Hx z Hz). lia.
Qed.

Lemma row_ids_sorted : forall t, StronglySorted Z.lt (row_ids t).
Proof.
  intros t. unfold row_ids. apply map_of_nat_sorted. apply filter_sorted. apply seq_sorted.
Qed.

Lemma row_ids_live : forall t r, In r (row_ids t) <-> live t r.
Proof.
  intros t r. unfold row_ids, live. rewrite in_map_iff. split.
  - intros [i [<- Hi]]. apply filter_In in Hi. destruct Hi as [Hseq Hpos]. apply in_seq in Hseq.
    rewrite Nat2Z.id. apply Z.ltb_lt in Hpos. repeat split; lia.
  - intros [H0 [Hlen Hpos]]. exists (Z.to_nat r). split; [apply Z2Nat.id; exact H0|].
    apply filter_In. split; [apply in_seq; lia | apply Z.ltb_lt; exact Hpos].
Qed.

(* ---------------------------------------------------------------- matches / matchesb *)

Lemma matchesb_matches : forall t q r, matchesb t q r = true <-> matches t q r.
Proof.
  intros t q r. unfold matchesb, matches, stored_among. rewrite forallb_forall. split.
  - intros H cid vals Hin. specialize (H (cid, vals) Hin). simpl in H.
    destruct (get_column t cid) as [c|]; [|discriminate].
    apply existsb_exists in H. destruct H as [v [Hv Heq]]. exists c, v. auto.
  - intros H [cid vals] Hin. simpl. destruct (H cid vals Hin) as [c [v [Hc [Hv Heq]]]].
    rewrite Hc. apply existsb_exists. exists v. auto.
Qed.

(* ---------------------------------------------------------------- main results *)

Theorem fetch_eq_filter : forall t formulas private q,
  (forall cid, In cid (map fst q) -> get_column t cid <> None) ->
  fetch t formulas private q = Ok (spec_fetch t formulas private q).
Proof.
  intros t f p q H. unfold fetch, spec_fetch, spec_columns.
  destruct (prepare_query_ok t q H) as [qc Hqc]. rewrite Hqc.
  rewrite <- row_ids_all_ids.
  rewrite (filter_ext (row_ok qc) (matchesb t q) (prepare_query_row_ok t q qc Hqc)).
  reflexivity.
Qed.

Theorem fetch_missing_column : forall t formulas private q,
  (exists cid, In cid (map fst q) /\ get_column t cid = None) <->
  (exists e, fetch t formulas private q = ErrKeyError e /\ In e (map fst q) /\ get_column t e = None).
Proof.
  intros t f p q. split.
  - intros [cid [Hin Hn]]. unfold fetch. destruct (prepare_query t q) as [qc|e] eqn:Hp.
    + exfalso. revert qc Hp. induction q as [|[c0 v0] rest IH]; intros qc Hp; [destruct Hin|].
      simpl in Hp. destruct (get_column t c0) as [c|] eqn:Hc; [|discriminate].
      destruct (prepare_query t rest) as [qc'|e'] eqn:Hr; [|discriminate].
      destruct Hin as [Heq|Hin]; [simpl in Heq; subst; congruence|]. eapply IH; [exact Hin | reflexivity].
    + exists e. destruct (prepare_query_err t q e Hp) as [H1 H2]. auto.
  - intros [e [_ [Hin Hn]]]. exists e. auto.
Qed.

Theorem spec_rows_exact : forall t formulas private q r,
  In r (fst (spec_fetch t formulas private q)) <-> live t r /\ matches t q r.
Proof.
  intros t f p q r. unfold spec_fetch. cbn [fst]. rewrite filter_In, <- row_ids_all_ids, row_ids_live,
    matchesb_matches. tauto.
Qed.

Theorem spec_rows_ascending : forall t formulas private q,
  StronglySorted Z.lt (fst (spec_fetch t formulas private q)).
Proof.
  intros t f p q. unfold spec_fetch. cbn [fst]. apply filter_sorted. rewrite <- row_ids_all_ids. apply row_ids_sorted.
Qed.

(* an ascending list without omissions is determined by its members: "exactly these rows, in id order"
   pins the result down completely *)
Lemma sorted_same_members_eq : forall l m,
  StronglySorted Z.lt l -> StronglySorted Z.lt m -> (forall x, In x l <-> In x m) -> l = m.
Proof.
  induction l as [|a l IH]; intros m Hl Hm Hiff.
  - destruct m as [|b m]; [reflexivity|]. exfalso. apply (proj2 (Hiff b)). left; reflexivity.
  - destruct m as [|b m].
    + exfalso. apply (proj1 (Hiff a)). left; reflexivity.
    + inversion Hl as [|? ? Hl' Ha]; subst. inversion Hm as [|? ? Hm' Hb]; subst.
      rewrite Forall_forall in Ha, Hb.
      assert (a = b) as ->.
      { destruct (proj1 (Hiff a) (or_introl eq_refl)) as [E|E]; [auto|].
        destruct (proj2 (Hiff b) (or_introl eq_refl)) as [E'|E']; [auto|].
        specialize (Ha _ E'). specialize (Hb _ E). lia. }
      f_equal. apply IH; [assumption|assumption|].
      intros x. split; intros Hx.
      * destruct (proj1 (Hiff x) (or_intror Hx)) as [E|E]; [|exact E]. subst. specialize (Ha _ Hx). lia.
      * destruct (proj2 (Hiff x) (or_intror Hx)) as [E|E]; [|exact E]. subst. specialize (Hb _ Hx). lia.
Qed.

Theorem spec_columns_parallel : forall t formulas private q cid l,
  In (cid, l) (snd (spec_fetch t formulas private q)) ->
  let rows := fst (spec_fetch t formulas private q) in
  length l = length rows /\
  exists c, In c (t_cols t) /\ col_selected formulas private c = true /\ col_id c = cid /\
            forall i, (i < length rows)%nat -> nth i l VNone = raw_get c (nth i rows 0).
Proof.
  intros t f p q cid l Hin rows. unfold spec_fetch, spec_columns in Hin. cbn [snd] in Hin.
  apply in_map_iff in Hin. destruct Hin as [c [Heq Hc]]. injection Heq as <- <-.
  apply filter_In in Hc. destruct Hc as [Hc Hsel]. fold rows. split; [apply map_length|].
  exists c. repeat split; try assumption.
  intros i Hi. rewrite (nth_indep _ VNone (raw_get c 0)) by (rewrite map_length; exact Hi).
  apply map_nth.
Qed.

Theorem spec_columns_selected : forall t formulas private q,
  map fst (snd (spec_fetch t formulas private q)) =
  map col_id (filter (col_selected formulas private) (t_cols t)).
Proof.
  intros. unfold spec_fetch, spec_columns. cbn [snd]. rewrite map_map. reflexivity.
Qed.

Lemma col_selected_spec : forall formulas private c,
  col_selected formulas private c = true <->
  (formulas = true \/ col_is_formula c = false) /\ (private = true \/ col_is_private c = false) /\
  col_id c <> id_str /\ (forall s, col_id c <> 35 :: s).
Proof.
  intros f p c. unfold col_selected. rewrite !andb_true_iff, orb_true_iff, orb_true_iff, !negb_true_iff.
  assert (Hid : str_eqb (col_id c) id_str = false <-> col_id c <> id_str).
  { destruct (str_eqb (col_id c) id_str) eqn:E.
    - apply str_eqb_eq in E. split; [discriminate | congruence].
    - split; [|reflexivity]. intros _ E'. apply str_eqb_eq in E'. congruence. }
  assert (Hv : is_virtual_column (col_id c) = false <-> forall s, col_id c <> 35 :: s).
  { unfold is_virtual_column. destruct (col_id c) as [|x s]; [split; [intros _ s; discriminate | reflexivity]|].
    destruct (Z.eq_dec x 35) as [->|Hne].
    - split; [discriminate | intros H; exfalso; apply (H s); reflexivity].
    - split; [intros _ s' E; congruence|]. intros _.
      destruct x as [|x|x]; try reflexivity. do 6 (destruct x as [x|x|]; try reflexivity). congruence. }
  rewrite Hid, Hv. tauto.
Qed.
