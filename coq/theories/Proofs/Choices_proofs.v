(* Proofs for C39: RenameChoices is one simultaneous substitution and changes nothing else. *)
From Coq Require Import ZArith List Bool Lia.
Import ListNotations.
Require Import Grist.Lib.PyVal Grist.Model.Choices.
Open Scope Z_scope.

(* ---------------------------------------------------------------- strings and maps *)

Lemma str_eqb_false : forall a b, a <> b -> str_eqb a b = false.
Proof.
  intros a b H. destruct (str_eqb a b) eqn:E; [|reflexivity]. apply str_eqb_eq in E. contradiction.
Qed.

Lemma ren_apply_hit : forall ren s n, ren_get ren s = Some n -> ren_apply ren s = n.
Proof. intros ren s n H. unfold ren_apply. rewrite H. reflexivity. Qed.

Lemma ren_apply_miss : forall ren s, ren_get ren s = None -> ren_apply ren s = s.
Proof. intros ren s H. unfold ren_apply. rewrite H. reflexivity. Qed.

Lemma ren_get_in : forall ren s n, ren_get ren s = Some n -> In (s, n) ren.
Proof.
  induction ren as [|[k m] rest IH]; intros s n H; simpl in H; [discriminate|].
  destruct (str_eqb k s) eqn:E.
  - apply str_eqb_eq in E. injection H as <-. subst. left; reflexivity.
  - right. apply IH. exact H.
Qed.

Lemma rename_elem_miss : forall ren v, in_renames ren v = false -> rename_elem ren v = v.
Proof.
  intros ren v H. destruct v; try reflexivity. simpl in *.
  destruct (ren_get ren s) eqn:E; [discriminate|]. rewrite (ren_apply_miss _ _ E). reflexivity.
Qed.

Lemma map_rename_elem_miss : forall ren l, existsb (in_renames ren) l = false -> map (rename_elem ren) l = l.
Proof.
  intros ren l. induction l as [|v l IH]; intros H; simpl in *; [reflexivity|].
  apply orb_false_iff in H. destruct H as [H1 H2]. rewrite (rename_elem_miss _ _ H1), (IH H2). reflexivity.
Qed.

Lemma rename_elem_is_str : forall ren v, is_str (rename_elem ren v) = is_str v.
Proof. intros ren v; destruct v; reflexivity. Qed.

Lemma all_str_rename : forall ren l, forallb is_str (map (rename_elem ren) l) = forallb is_str l.
Proof.
  intros ren l. induction l as [|v l IH]; simpl; [reflexivity|]. rewrite rename_elem_is_str, IH. reflexivity.
Qed.

Lemma all_str_norm : forall l, forallb is_str l = true -> map norm l = l.
Proof.
  induction l as [|v l IH]; intros H; simpl in *; [reflexivity|].
  apply andb_true_iff in H. destruct H as [H1 H2]. rewrite (IH H2). destruct v; try discriminate. reflexivity.
Qed.

(* ---------------------------------------------------------------- one cell *)

Definition new_cell (k : ckind) (ren : renames) (v : val) : val :=
  match rename_cell k ren v with Some n => n | None => v end.

Lemma new_cell_spec : forall k ren v, new_cell k ren v = spec_cell k ren v.
Proof.
  intros k ren v. unfold new_cell. destruct k, v; try reflexivity; simpl.
  - destruct (ren_get ren s) eqn:E.
    + rewrite (ren_apply_hit _ _ _ E). reflexivity.
    + rewrite (ren_apply_miss _ _ E). reflexivity.
  - destruct (forallb is_str l); simpl; [|reflexivity].
    destruct (existsb (in_renames ren) l); reflexivity.
  - destruct (forallb is_str l); [|reflexivity].
    destruct (existsb (in_renames ren) l) eqn:E; [reflexivity|].
    rewrite (map_rename_elem_miss _ _ E). reflexivity.
Qed.

(* a rename that yields an ==-equal value yields the very same value (so trimming no-op rows loses nothing) *)
Lemma rename_cell_py_eq : forall k ren v n, rename_cell k ren v = Some n -> py_eq n v = true -> n = v.
Proof.
  intros k ren v n H E. apply py_eq_iff in E. destruct k, v; simpl in H; try discriminate.
  - destruct (ren_get ren s); [|discriminate]. injection H as <-. simpl in E. exact E.
  - destruct (forallb is_str l) eqn:Hs; [|discriminate].
    destruct (existsb (in_renames ren) l); [|discriminate]. injection H as <-. simpl in E. discriminate.
  - destruct (forallb is_str l) eqn:Hs; [|discriminate].
    destruct (existsb (in_renames ren) l); [|discriminate]. injection H as <-. simpl in E.
    rewrite (all_str_norm l Hs) in E.
    rewrite all_str_norm in E by (rewrite all_str_rename; exact Hs). exact E.
Qed.

(* ---------------------------------------------------------------- the column *)

Lemma set_nth_app : forall pre x y t, set_nth (length pre) x (pre ++ y :: t) = pre ++ x :: t.
Proof. induction pre as [|p pre IH]; intros; simpl; [reflexivity|]. rewrite IH. reflexivity. Qed.

Lemma nth_app_here : forall (pre : list val) y t d, nth (length pre) (pre ++ y :: t) d = y.
Proof. induction pre as [|p pre IH]; intros; simpl; [reflexivity|]. apply IH. Qed.

Lemma apply_trim_updates_aux : forall k ren data pre pre',
  length pre = length pre' ->
  apply_updates (pre' ++ data)
    (filter (fun u => negb (py_eq (snd u) (nth (fst u) (pre ++ data) VNone)))
            (updates_from k ren (length pre) data))
  = pre' ++ map (new_cell k ren) data.
Proof.
  intros k ren data. induction data as [|v t IH]; intros pre pre' Hlen; simpl.
  - reflexivity.
  - assert (Hstep : forall n, length (pre ++ [v]) = length (pre' ++ [n])).
    { intros n. rewrite !app_length. simpl. lia. }
    assert (Hl : S (length pre) = length (pre ++ [v])). { rewrite app_length. simpl. lia. }
    unfold new_cell at 1. destruct (rename_cell k ren v) as [n|] eqn:Hr.
    + simpl. rewrite nth_app_here. destruct (py_eq n v) eqn:Heq; simpl.
      * assert (n = v) by (eapply rename_cell_py_eq; eassumption). subst n.
        specialize (IH (pre ++ [v]) (pre' ++ [v]) (Hstep v)).
        rewrite <- !app_assoc in IH. simpl in IH. rewrite <- Hl in IH. exact IH.
      * rewrite Hlen, set_nth_app.
        specialize (IH (pre ++ [v]) (pre' ++ [n]) (Hstep n)).
        rewrite <- !app_assoc in IH. simpl in IH. rewrite <- Hl, Hlen in IH. rewrite <- Hlen. rewrite Hlen. exact IH.
    + specialize (IH (pre ++ [v]) (pre' ++ [v]) (Hstep v)).
      rewrite <- !app_assoc in IH. simpl in IH. rewrite <- Hl in IH. exact IH.
Qed.

Lemma apply_trim_updates : forall k ren data,
  apply_updates data (trim data (updates k ren data)) = map (spec_cell k ren) data.
Proof.
  intros k ren data. unfold trim, updates.
  pose proof (apply_trim_updates_aux k ren data [] [] eq_refl) as H. simpl in H. rewrite H.
  apply map_ext. intros v. apply new_cell_spec.
Qed.

Lemma updates_from_in : forall k ren data i j n,
  In (j, n) (updates_from k ren i data) <->
  (i <= j)%nat /\ exists v, nth_error data (j - i) = Some v /\ rename_cell k ren v = Some n.
Proof.
  intros k ren data. induction data as [|v t IH]; intros i j n; simpl.
  - split; [tauto|]. intros [_ [v [H _]]]. destruct (j - i)%nat; discriminate.
  - assert (Hrest : In (j, n) (updates_from k ren (S i) t) <->
                    (S i <= j)%nat /\ exists v', nth_error t (j - S i) = Some v' /\ rename_cell k ren v' = Some n)
      by apply IH.
    assert (Hshift : (S i <= j)%nat -> (j - i = S (j - S i))%nat) by lia.
    destruct (rename_cell k ren v) as [m|] eqn:Hr.
    + simpl. rewrite Hrest. split.
      * intros [E|[Hle [v' [Hn Hc]]]].
        -- injection E as <- <-. split; [lia|]. exists v. rewrite Nat.sub_diag. auto.
        -- split; [lia|]. exists v'. rewrite (Hshift Hle). auto.
      * intros [Hle [v' [Hn Hc]]]. destruct (Nat.eq_dec i j) as [<-|Hne].
        -- rewrite Nat.sub_diag in Hn. simpl in Hn. injection Hn as <-. left. congruence.
        -- right. assert (Hle' : (S i <= j)%nat) by lia. split; [exact Hle'|]. exists v'.
           rewrite (Hshift Hle') in Hn. auto.
    + rewrite Hrest. split.
      * intros [Hle [v' [Hn Hc]]]. split; [lia|]. exists v'. rewrite (Hshift Hle). auto.
      * intros [Hle [v' [Hn Hc]]]. destruct (Nat.eq_dec i j) as [<-|Hne].
        -- rewrite Nat.sub_diag in Hn. simpl in Hn. injection Hn as <-. congruence.
        -- assert (Hle' : (S i <= j)%nat) by lia. split; [exact Hle'|]. exists v'.
           rewrite (Hshift Hle') in Hn. auto.
Qed.

Lemma trim_in : forall k ren data j n,
  In (j, n) (trim data (updates k ren data)) <->
  exists v, nth_error data j = Some v /\ rename_cell k ren v = Some n /\ n <> v.
Proof.
  intros k ren data j n. unfold trim, updates. rewrite filter_In, updates_from_in. cbn [fst snd].
  rewrite Nat.sub_0_r. split.
  - intros [[_ [v [Hn Hc]]] Hne]. exists v. repeat split; try assumption.
    rewrite (nth_error_nth _ _ VNone Hn) in Hne. intros ->. rewrite py_eq_refl in Hne. discriminate.
  - intros [v [Hn [Hc Hne]]]. split; [split; [lia|]; exists v; auto|].
    rewrite (nth_error_nth _ _ VNone Hn). destruct (py_eq n v) eqn:E; [|reflexivity].
    exfalso. apply Hne. eapply rename_cell_py_eq; eassumption.
Qed.

Lemma rename_column_sound : forall k ren ids data d,
  rename_column k ren ids data = Ok d -> d = map (spec_cell k ren) data.
Proof.
  intros k ren ids data d H. unfold rename_column in H.
  destruct (forallb _ _); [|discriminate]. injection H as <-. apply apply_trim_updates.
Qed.

Lemma rename_column_ok : forall k ren ids data,
  safe_column k ren ids data -> rename_column k ren ids data = Ok (map (spec_cell k ren) data).
Proof.
  intros k ren ids data Hsafe. unfold rename_column.
  destruct (forallb _ _) eqn:Hall.
  - rewrite apply_trim_updates. reflexivity.
  - exfalso. assert (Ht : forallb (fun u => is_record ids (fst u)) (trim data (updates k ren data)) = true).
    { apply forallb_forall. intros [j n] Hin. apply trim_in in Hin. destruct Hin as [v [Hn [Hc Hne]]].
      cbn [fst]. eapply Hsafe; eassumption. }
    congruence.
Qed.

Lemma rename_column_err : forall k ren ids data e,
  rename_column k ren ids data = Err e ->
  e = ErrAssertion /\ exists i v n, nth_error data i = Some v /\ rename_cell k ren v = Some n /\ n <> v /\
                                    is_record ids i = false.
Proof.
  intros k ren ids data e H. unfold rename_column in H.
  destruct (forallb _ _) eqn:Hall; [discriminate|]. injection H as <-. split; [reflexivity|].
  assert (Hex : existsb (fun u => negb (is_record ids (fst u))) (trim data (updates k ren data)) = true).
  { destruct (existsb _ _) eqn:E; [reflexivity|]. exfalso.
    assert (forallb (fun u => is_record ids (fst u)) (trim data (updates k ren data)) = true); [|congruence].
    apply forallb_forall. intros u Hu. destruct (is_record ids (fst u)) eqn:Hr; [reflexivity|].
    assert (existsb (fun u => negb (is_record ids (fst u))) (trim data (updates k ren data)) = true); [|congruence].
    apply existsb_exists. exists u. rewrite Hr. auto. }
  apply existsb_exists in Hex. destruct Hex as [[j n] [Hin Hr]]. apply trim_in in Hin.
  destruct Hin as [v [Hn [Hc Hne]]]. exists j, v, n. cbn [fst] in Hr. apply negb_true_iff in Hr. auto.
Qed.

Lemma rename_column_ok_safe : forall k ren ids data d,
  rename_column k ren ids data = Ok d -> safe_column k ren ids data.
Proof.
  intros k ren ids data d H. unfold rename_column in H.
  destruct (forallb _ _) eqn:Hall; [|discriminate]. rewrite forallb_forall in Hall.
  intros i v n Hn Hc Hne. apply (Hall (i, n)). apply trim_in. exists v. auto.
Qed.

(* ---------------------------------------------------------------- the table's columns *)

Definition map_target (k : ckind) (ren : renames) (cid : str) (cols : list (str * list val)) :=
  map (fun c => if str_eqb (fst c) cid then (fst c, map (spec_cell k ren) (snd c)) else c) cols.

Lemma rename_cols_sound : forall k ren ids cid cols cols',
  rename_cols k ren ids cid cols = Ok cols' -> cols' = map_target k ren cid cols.
Proof.
  intros k ren ids cid cols. induction cols as [|[c data] rest IH]; intros cols' H; simpl in H.
  - injection H as <-. reflexivity.
  - simpl. destruct (str_eqb c cid) eqn:E.
    + destruct (rename_column k ren ids data) as [d|] eqn:Hd; [|discriminate].
      destruct (rename_cols k ren ids cid rest) as [r|]; [|discriminate].
      injection H as <-. rewrite (rename_column_sound _ _ _ _ _ Hd), (IH r eq_refl). reflexivity.
    + destruct (rename_cols k ren ids cid rest) as [r|]; [|discriminate].
      injection H as <-. rewrite (IH r eq_refl). reflexivity.
Qed.

Lemma rename_cols_ok : forall k ren ids cid cols,
  (forall c data, In (c, data) cols -> str_eqb c cid = true -> safe_column k ren ids data) ->
  rename_cols k ren ids cid cols = Ok (map_target k ren cid cols).
Proof.
  intros k ren ids cid cols. induction cols as [|[c data] rest IH]; intros Hsafe; simpl; [reflexivity|].
  rewrite IH by (intros c' d' Hin; apply Hsafe; right; exact Hin).
  destruct (str_eqb c cid) eqn:E; [|reflexivity].
  rewrite (rename_column_ok k ren ids data (Hsafe c data (or_introl eq_refl) E)). reflexivity.
Qed.

(* ---------------------------------------------------------------- filters *)

Lemma cols_eqb_eq : forall a b, cols_eqb a b = true <-> a = b.
Proof.
  induction a as [|[i l] a IH]; destruct b as [|[j m] b]; simpl.
  - split; reflexivity.
  - split; discriminate.
  - split; discriminate.
  - rewrite !andb_true_iff, str_eqb_eq, vals_eqb_eq, IH. split.
    + intros [[-> ->] ->]. reflexivity.
    + intros E. injection E as -> -> ->. auto.
Qed.

Lemma rename_entries_wf : forall ren es,
  forallb by_value_entry es = true ->
  rename_entries ren es = Ok (spec_entries ren es) /\
  entries_same es (spec_entries ren es) = cols_eqb (filter_content es) (spec_entries ren es).
Proof.
  intros ren es. induction es as [|[k e] rest IH]; intros H; simpl in *.
  - split; reflexivity.
  - apply andb_true_iff in H. destruct H as [He Hrest]. destruct (IH Hrest) as [IH1 IH2].
    unfold by_value_entry in He. simpl in He. destruct e as [l| | | ]; try discriminate.
    simpl. rewrite IH1. split; [reflexivity|]. rewrite IH2, str_eqb_refl. reflexivity.
Qed.

Lemma rename_filter_wf : forall ren f,
  well_formed_filter f = true -> rename_filter ren f = Ok (spec_filter ren f).
Proof.
  intros ren f H. destruct f as [|es|]; simpl in *; try reflexivity; [|discriminate].
  destruct (rename_entries_wf ren es H) as [H1 H2]. rewrite H1, H2. reflexivity.
Qed.

Lemma rename_filters_ok : forall ren colref fs,
  filters_well_formed colref fs -> rename_filters ren colref fs = Ok (spec_filters ren colref fs).
Proof.
  intros ren colref fs. induction fs as [|[cr f] rest IH]; intros Hwf; simpl; [reflexivity|].
  rewrite IH by (intros cr' f' Hin; apply Hwf; right; exact Hin).
  destruct (Z.eqb cr colref) eqn:E; [|reflexivity].
  apply Z.eqb_eq in E. rewrite (rename_filter_wf ren f (Hwf cr f (or_introl eq_refl) E)). reflexivity.
Qed.

(* whatever the filters of the column look like, records of other columns are reported untouched *)
Lemma rename_filters_frame : forall ren colref fs fl,
  rename_filters ren colref fs = Ok fl ->
  length fl = length fs /\
  forall i cr f, nth_error fs i = Some (cr, f) -> cr <> colref -> nth_error fl i = Some None.
Proof.
  intros ren colref fs. induction fs as [|[cr f] rest IH]; intros fl H; simpl in H.
  - injection H as <-. split; [reflexivity|]. intros i cr f Hn. destruct i; discriminate.
  - destruct (Z.eqb cr colref) eqn:E.
    + destruct (rename_filter ren f) as [o|]; [|discriminate].
      destruct (rename_filters ren colref rest) as [r|]; [|discriminate]. injection H as <-.
      destruct (IH r eq_refl) as [Hl Hf]. split; [simpl; congruence|].
      intros i cr' f' Hn Hne. destruct i as [|i]; simpl in *.
      * injection Hn as -> ->. apply Z.eqb_eq in E. contradiction.
      * eapply Hf; eassumption.
    + destruct (rename_filters ren colref rest) as [r|]; [|discriminate]. injection H as <-.
      destruct (IH r eq_refl) as [Hl Hf]. split; [simpl; congruence|].
      intros i cr' f' Hn Hne. destruct i as [|i]; simpl in *; [reflexivity|]. eapply Hf; eassumption.
Qed.

(* ---------------------------------------------------------------- the action *)

Theorem rename_simultaneous : forall st cid k is_formula colref ren cols' fl',
  rename_action st cid k is_formula colref ren = Ok (cols', fl') ->
  cols' = spec_cols k ren cid is_formula (s_cols st).
Proof.
  intros st cid k f colref ren cols' fl' H. unfold rename_action in H. unfold spec_cols.
  destruct f.
  - destruct (rename_filters ren colref (s_filters st)); [|discriminate]. injection H as <- _. reflexivity.
  - destruct (rename_cols k ren (s_ids st) cid (s_cols st)) as [c|] eqn:Hc; [|discriminate].
    destruct (rename_filters ren colref (s_filters st)); [|discriminate]. injection H as <- _.
    apply (rename_cols_sound _ _ _ _ _ _ Hc).
Qed.

Theorem rename_filters_spec : forall st cid k is_formula colref ren cols' fl',
  rename_action st cid k is_formula colref ren = Ok (cols', fl') ->
  filters_well_formed colref (s_filters st) ->
  fl' = spec_filters ren colref (s_filters st).
Proof.
  intros st cid k f colref ren cols' fl' H Hwf. unfold rename_action in H.
  destruct (if f then Ok (s_cols st) else rename_cols k ren (s_ids st) cid (s_cols st)); [|discriminate].
  rewrite (rename_filters_ok ren colref _ Hwf) in H. injection H as _ <-. reflexivity.
Qed.

Theorem rename_other_filters_untouched : forall st cid k is_formula colref ren cols' fl',
  rename_action st cid k is_formula colref ren = Ok (cols', fl') ->
  length fl' = length (s_filters st) /\
  forall i cr f, nth_error (s_filters st) i = Some (cr, f) -> cr <> colref -> nth_error fl' i = Some None.
Proof.
  intros st cid k f colref ren cols' fl' H. unfold rename_action in H.
  destruct (if f then Ok (s_cols st) else rename_cols k ren (s_ids st) cid (s_cols st)); [|discriminate].
  destruct (rename_filters ren colref (s_filters st)) as [fl|] eqn:Hf; [|discriminate].
  injection H as _ <-. apply (rename_filters_frame _ _ _ _ Hf).
Qed.

Theorem rename_succeeds : forall st cid k is_formula colref ren,
  safe_state st cid k is_formula ren -> filters_well_formed colref (s_filters st) ->
  rename_action st cid k is_formula colref ren =
  Ok (spec_cols k ren cid is_formula (s_cols st), spec_filters ren colref (s_filters st)).
Proof.
  intros st cid k f colref ren Hsafe Hwf. unfold rename_action, spec_cols.
  rewrite (rename_filters_ok ren colref _ Hwf). destruct f; [reflexivity|].
  rewrite rename_cols_ok by (apply Hsafe; reflexivity). reflexivity.
Qed.

(* ---------------------------------------------------------------- frame *)

Lemma spec_cell_frame : forall k ren v,
  (forall s, In s (cell_choices k v) -> ren_get ren s = None) -> spec_cell k ren v = v.
Proof.
  intros k ren v H. destruct k, v; try reflexivity; simpl in *.
  - rewrite ren_apply_miss; [reflexivity|]. apply H. left; reflexivity.
  - destruct (forallb is_str l) eqn:Hs; simpl; [|reflexivity].
    destruct (existsb (in_renames ren) l) eqn:E; [|reflexivity]. exfalso.
    apply existsb_exists in E. destruct E as [x [Hx Hr]]. destruct x; simpl in Hr; try discriminate.
    rewrite H in Hr; [discriminate|]. apply in_flat_map. exists (VStr s). split; [exact Hx|left; reflexivity].
  - destruct (forallb is_str l) eqn:Hs; [|reflexivity].
    rewrite map_rename_elem_miss; [reflexivity|].
    destruct (existsb (in_renames ren) l) eqn:E; [|reflexivity]. exfalso.
    apply existsb_exists in E. destruct E as [x [Hx Hr]]. destruct x; simpl in Hr; try discriminate.
    rewrite H in Hr; [discriminate|]. apply in_flat_map. exists (VStr s). split; [exact Hx|left; reflexivity].
Qed.

(* positions: the i-th element of a renamed choice list is the substitution applied to the i-th element;
   an element outside the mapping stays where it is *)
Lemma spec_cell_elements : forall ren l,
  forallb is_str l = true ->
  exists l', spec_cell ChoiceList ren (VTuple l) = VTuple l' /\ length l' = length l /\
             (forall i s, nth_error l i = Some (VStr s) -> nth_error l' i = Some (VStr (ren_apply ren s))) /\
             (forall i s, nth_error l i = Some (VStr s) -> ren_get ren s = None -> nth_error l' i = Some (VStr s)).
Proof.
  intros ren l Hs. exists (map (rename_elem ren) l). simpl. rewrite Hs. split; [reflexivity|].
  split; [apply map_length|]. split.
  - intros i s Hn. rewrite nth_error_map, Hn. reflexivity.
  - intros i s Hn Hm. rewrite nth_error_map, Hn. simpl. rewrite (ren_apply_miss _ _ Hm). reflexivity.
Qed.

Lemma spec_cols_other : forall k ren cid is_formula cols,
  length (spec_cols k ren cid is_formula cols) = length cols /\
  forall i c data, nth_error cols i = Some (c, data) -> c <> cid ->
                   nth_error (spec_cols k ren cid is_formula cols) i = Some (c, data).
Proof.
  intros k ren cid f cols. unfold spec_cols. destruct f; [split; auto|].
  split; [apply map_length|]. intros i c data Hn Hne. rewrite nth_error_map. unfold str in *. rewrite Hn. simpl.
  rewrite (str_eqb_false _ _ Hne). reflexivity.
Qed.

Lemma spec_cols_target : forall k ren cid cols i data,
  nth_error cols i = Some (cid, data) ->
  nth_error (spec_cols k ren cid false cols) i = Some (cid, map (spec_cell k ren) data).
Proof.
  intros k ren cid cols i data Hn. unfold spec_cols. rewrite nth_error_map. unfold str in *. rewrite Hn. simpl.
  rewrite str_eqb_refl. reflexivity.
Qed.

(* filters: same keys in the same order, lists of the same length, element i is the substitution of element i,
   and the record is left alone when nothing in it is mapped *)
Lemma spec_entries_shape : forall ren es,
  map fst (spec_entries ren es) = map fst es /\
  forall i k e, nth_error es i = Some (k, e) ->
                nth_error (spec_entries ren es) i = Some (k, map (rename_elem ren) (entry_list e)).
Proof.
  intros ren es. unfold spec_entries. split; [rewrite map_map; reflexivity|].
  intros i k e Hn. rewrite nth_error_map. unfold str in *. rewrite Hn. reflexivity.
Qed.

Lemma spec_filter_untouched : forall ren es,
  (forall k e v, In (k, e) es -> In v (entry_list e) -> in_renames ren v = false) ->
  spec_filter ren (FObj es) = None.
Proof.
  intros ren es H. simpl. assert (E : spec_entries ren es = filter_content es).
  { unfold spec_entries, filter_content. apply map_ext_in. intros [k e] Hin. simpl. f_equal.
    rewrite <- (map_id (entry_list e)) at 2. apply map_ext_in. intros v Hv.
    apply rename_elem_miss. eapply H; eassumption. }
  rewrite E. rewrite (proj2 (cols_eqb_eq _ _) eq_refl). reflexivity.
Qed.

Lemma spec_filter_changed : forall ren f new,
  spec_filter ren f = Some new ->
  exists es, f = FObj es /\ new = spec_entries ren es /\ new <> filter_content es.
Proof.
  intros ren f new H. destruct f as [|es|]; simpl in H; try discriminate.
  destruct (cols_eqb (filter_content es) (spec_entries ren es)) eqn:E; [discriminate|].
  injection H as <-. exists es. repeat split. intros Heq. rewrite Heq in E.
  rewrite (proj2 (cols_eqb_eq _ _) eq_refl) in E. discriminate.
Qed.

(* swaps *)
Lemma swap_apply : forall a b, a <> b ->
  ren_apply [(a, b); (b, a)] a = b /\ ren_apply [(a, b); (b, a)] b = a /\
  forall c, c <> a -> c <> b -> ren_apply [(a, b); (b, a)] c = c.
Proof.
  intros a b Hne. unfold ren_apply. simpl. rewrite !str_eqb_refl.
  rewrite (str_eqb_false a b Hne). repeat split.
  intros c Ha Hb. rewrite (str_eqb_false a c), (str_eqb_false b c); congruence.
Qed.
