(* Proofs for C39: RenameChoices is one simultaneous substitution and changes nothing else. *)
From Coq Require Import ZArith List Bool Lia.
Import ListNotations.
Require Import Grist.Lib.PyVal Grist.Model.Choices.
Open Scope Z_scope.

(* ---------------------------------------------------------------- strings and maps *)

Lemma str_eqb_false : forall a b, a <> b -> str_eqb a b = false.
Proof.
  intros a b H. destruct (str_eqb a b) eqn:E; [|reflexivity]. apply str_eqb_eq in E. contradiction.
Qed.

Lemma ren_apply_hit : forall ren s n, ren_get ren s = Some n -> ren_apply ren s = n.
Proof. intros ren s n H. unfold ren_apply. rewrite H. reflexivity. Qed.

Lemma ren_apply_miss : forall ren s, ren_get ren s = None -> ren_apply ren s = s.
Proof. intros ren s H. unfold ren_apply. rewrite H. reflexivity. Qed.

Lemma ren_get_in : forall ren s n, ren_get ren s = Some n -> In (s, n) ren.
Proof.
  induction ren as [|[k m] rest IH]; intros s n H; simpl in H; [discriminate|].
  destruct (str_eqb k s) eqn:E.
  - apply str_eqb_eq in E. injection H as <-. subst. left; reflexivity.
  - right. apply IH. exact H.
Qed.

Lemma rename_elem_miss : forall ren v, in_renames ren v = false -> rename_elem ren v = v.
Proof.
  intros ren v H. destruct v; try reflexivity. simpl in *.
  destruct (ren_get ren s) eqn:E; [discriminate|]. rewrite (ren_apply_miss _ _ E). reflexivity.
Qed.

Lemma map_rename_elem_miss : forall ren l, existsb (in_renames ren) l = false -> map (rename_elem ren) l = l.
Proof.
  intros ren l. induction l as [|v l IH]; intros H; simpl in *; [reflexivity|].
  apply orb_false_iff in H. destruct H as [H1 H2]. rewrite (rename_elem_miss _ _ H1), (IH H2). reflexivity.
Qed.

Lemma rename_elem_is_str : forall ren v, is_str (rename_elem ren v) = is_str v.
Proof. intros ren v; destruct v; reflexivity. Qed.

Lemma all_str_rename : forall ren l, forallb is_str (map (rename_elem ren) l) = forallb is_str l.
Proof.
  intros ren l. induction l as [|v l IH]; simpl; [reflexivity|]. rewrite rename_elem_is_str, IH. reflexivity.
Qed.

Lemma all_str_norm : forall l, forallb is_str l = true -> map norm l = l.
Proof.
  induction l as [|v l IH]; intros H; simpl in *; [reflexivity|].
  apply andb_true_iff in H. destruct H as [H1 H2]. rewrite (IH H2). destruct v; try discriminate. reflexivity.
Qed.

(* ---------------------------------------------------------------- one cell *)

Definition new_cell (k : ckind) (ren : renames) (v : val) : val :=
  match rename_cell k ren v with Some n => n | None => v end.

Lemma new_cell_spec : forall k ren v, new_cell k ren v = spec_cell k ren v.
Proof.
  intros k ren v. unfold new_cell. destruct k, v; try reflexivity; simpl.
  - destruct (ren_get ren s) eqn:E.
    + rewrite (ren_apply_hit _ _ _ E). reflexivity.
    + rewrite (ren_apply_miss _ _ E). reflexivity.
  - destruct (forallb is_str l); simpl; [|reflexivity].
    destruct (existsb (in_renames ren) l); reflexivity.
  - destruct (forallb is_str l); [|reflexivity].
    destruct (existsb (in_renames ren) l) eqn:E; [reflexivity|].
    rewrite (map_rename_elem_miss _ _ E). reflexivity.
Qed.

(* a rename that yields an ==-equal value yields the very same value (so trimming no-op rows loses nothing) *)
Lemma rename_cell_py_eq : forall k ren v n, rename_cell k ren v = Some n -> py_eq n v = true -> n = v.
Proof.
  intros k ren v n H E. apply py_eq_iff in E. destruct k, v; simpl in H; try discriminate.
  - destruct (ren_get ren s); [|discriminate]. injection H as <-. simpl in E. exact E.
  - destruct (forallb is_str l) eqn:Hs; [|discriminate].
    destruct (existsb (in_renames ren) l); [|discriminate]. injection H as <-. simpl in E. discriminate.
  - destruct (forallb is_str l) eqn:Hs; [|discriminate].
    destruct (existsb (in_renames ren) l); [|discriminate]. injection H as <-. simpl in E.
    rewrite (all_str_norm l Hs) in E.
    rewrite all_str_norm in E by (rewrite all_str_rename; exact Hs). exact E.
Qed.

(* ---------------------------------------------------------------- the column *)

Lemma set_nth_app : forall pre x y t, set_nth (length pre) x (pre ++ y :: t) = pre ++ x :: t.
Proof. induction pre as [|p pre IH]; intros; simpl; [reflexivity|]. rewrite IH. reflexivity. Qed.

Lemma nth_app_here : forall (pre : list val) y t d, nth (length pre) (pre ++ y :: t) d = y.
Proof. induction pre as [|p pre IH]; intros; simpl; [reflexivity|]. apply IH. Qed.

Definition slot (k : ckind) (ren : renames) (ids : list Z) (i : nat) (v : val) : val :=
  if is_record ids i then new_cell k ren v else v.

Fixpoint slots_from (k : ckind) (ren : renames) (ids : list Z) (i : nat) (data : list val) : list val :=
  match data with [] => [] | v :: t => slot k ren ids i v :: slots_from k ren ids (S i) t end.

Lemma slots_from_spec : forall k ren ids data i, slots_from k ren ids i data = spec_data_from k ren ids i data.
Proof.
  intros k ren ids data. induction data as [|v t IH]; intros i; simpl; [reflexivity|].
  unfold slot. rewrite new_cell_spec, IH. reflexivity.
Qed.

Lemma apply_trim_updates_aux : forall k ren ids data pre pre',
  length pre = length pre' ->
  apply_updates (pre' ++ data)
    (filter (fun u => negb (py_eq (snd u) (nth (fst u) (pre ++ data) VNone)))
            (filter (fun u => is_record ids (fst u)) (updates_from k ren (length pre) data)))
  = pre' ++ slots_from k ren ids (length pre) data.
Proof.
  intros k ren ids data. induction data as [|v t IH]; intros pre pre' Hlen; simpl.
  - reflexivity.
  - assert (Hstep : forall n, length (pre ++ [v]) = length (pre' ++ [n])).
    { intros n. rewrite !app_length. simpl. lia. }
    assert (Hl : S (length pre) = length (pre ++ [v])). { rewrite app_length. simpl. lia. }
    assert (Hkeep : apply_updates (pre' ++ v :: t)
              (filter (fun u => negb (py_eq (snd u) (nth (fst u) (pre ++ v :: t) VNone)))
                 (filter (fun u => is_record ids (fst u)) (updates_from k ren (S (length pre)) t)))
            = pre' ++ v :: slots_from k ren ids (S (length pre)) t).
    { specialize (IH (pre ++ [v]) (pre' ++ [v]) (Hstep v)).
      rewrite <- !app_assoc in IH. simpl in IH. rewrite <- Hl in IH. exact IH. }
    unfold slot, new_cell. destruct (rename_cell k ren v) as [n|] eqn:Hr.
    + simpl. destruct (is_record ids (length pre)) eqn:Hrec; simpl.
      * rewrite nth_app_here. destruct (py_eq n v) eqn:Heq; simpl.
        -- assert (n = v) by (eapply rename_cell_py_eq; eassumption). subst n. exact Hkeep.
        -- rewrite Hlen, set_nth_app.
           specialize (IH (pre ++ [v]) (pre' ++ [n]) (Hstep n)).
           rewrite <- !app_assoc in IH. simpl in IH. rewrite <- Hl, Hlen in IH. exact IH.
      * exact Hkeep.
    + destruct (is_record ids (length pre)); exact Hkeep.
Qed.

Lemma apply_trim_updates : forall k ren ids data,
  apply_updates data (trim data (only_records ids (updates k ren data))) = spec_data k ren ids data.
Proof.
  intros k ren ids data. unfold trim, only_records, updates, spec_data.
  pose proof (apply_trim_updates_aux k ren ids data [] [] eq_refl) as H. simpl in H. rewrite H.
  apply slots_from_spec.
Qed.

(* after the repair the assertion of docactions.BulkUpdateRecord cannot fail: the data half is total *)
Lemma rename_column_total : forall k ren ids data,
  rename_column k ren ids data = Ok (spec_data k ren ids data).
Proof.
  intros k ren ids data. unfold rename_column.
  assert (H : forallb (fun u => is_record ids (fst u)) (trim data (only_records ids (updates k ren data))) = true).
  { apply forallb_forall. intros u Hu. unfold trim, only_records in Hu.
    apply filter_In in Hu. destruct Hu as [Hu _]. apply filter_In in Hu. apply Hu. }
  rewrite H, apply_trim_updates. reflexivity.
Qed.

(* ---------------------------------------------------------------- the table's columns *)

Lemma rename_cols_total : forall k ren ids cid cols,
  rename_cols k ren ids cid cols = Ok (spec_cols k ren ids cid false cols).
Proof.
  intros k ren ids cid cols. unfold spec_cols. induction cols as [|[c data] rest IH]; simpl; [reflexivity|].
  rewrite IH, rename_column_total. destruct (str_eqb c cid); reflexivity.
Qed.

(* ---------------------------------------------------------------- filters *)

Lemma fentry_eqb_eq : forall a b, fentry_eqb a b = true <-> a = b.
Proof.
  intros a b. destruct a as [l|s], b as [m|t]; simpl.
  - rewrite vals_eqb_eq. split; congruence.
  - split; discriminate.
  - split; discriminate.
  - rewrite Z.eqb_eq. split; congruence.
Qed.

Lemma entries_eqb_eq : forall a b, entries_eqb a b = true <-> a = b.
Proof.
  induction a as [|[i x] a IH]; destruct b as [|[j y] b]; simpl.
  - split; reflexivity.
  - split; discriminate.
  - split; discriminate.
  - rewrite !andb_true_iff, str_eqb_eq, fentry_eqb_eq, IH. split.
    + intros [[-> ->] ->]. reflexivity.
    + intros E. injection E as -> -> ->. auto.
Qed.

Lemma rename_entries_spec : forall ren es, rename_entries ren es = spec_entries ren es.
Proof.
  intros ren es. unfold rename_entries, spec_entries. apply map_ext. intros [k e]. simpl.
  destruct e; reflexivity.
Qed.

Lemma rename_filter_ok : forall ren f,
  is_object_filter f = true -> rename_filter ren f = Ok (spec_filter ren f).
Proof.
  intros ren f H. destruct f as [|es|]; simpl in *; try reflexivity. discriminate.
Qed.

Lemma rename_filters_ok : forall ren colref fs,
  filters_are_objects colref fs -> rename_filters ren colref fs = Ok (spec_filters ren colref fs).
Proof.
  intros ren colref fs. induction fs as [|[cr f] rest IH]; intros Hwf; simpl; [reflexivity|].
  rewrite IH by (intros cr' f' Hin; apply Hwf; right; exact Hin).
  destruct (Z.eqb cr colref) eqn:E; [|reflexivity].
  apply Z.eqb_eq in E. rewrite (rename_filter_ok ren f (Hwf cr f (or_introl eq_refl) E)). reflexivity.
Qed.

(* the only failure left: a saved filter of the column that is JSON but not an object *)
Lemma rename_filters_err : forall ren colref fs e,
  rename_filters ren colref fs = Err e -> e = ErrAttributeError /\ In (colref, FNotObj) fs.
Proof.
  intros ren colref fs. induction fs as [|[cr f] rest IH]; intros e H; simpl in H; [discriminate|].
  destruct (Z.eqb cr colref) eqn:E.
  - apply Z.eqb_eq in E. subst cr. destruct f as [|es|]; simpl in H.
    + destruct (rename_filters ren colref rest) as [r|x] eqn:Hr; [discriminate|]. injection H as <-.
      destruct (IH x eq_refl) as [H1 H2]. split; [exact H1|right; exact H2].
    + destruct (rename_filters ren colref rest) as [r|x] eqn:Hr; [discriminate|]. injection H as <-.
      destruct (IH x eq_refl) as [H1 H2]. split; [exact H1|right; exact H2].
    + injection H as <-. split; [reflexivity|left; reflexivity].
  - destruct (rename_filters ren colref rest) as [r|x] eqn:Hr; [discriminate|]. injection H as <-.
    destruct (IH x eq_refl) as [H1 H2]. split; [exact H1|right; exact H2].
Qed.

(* whatever the filters of the column look like, records of other columns are reported untouched *)
Lemma rename_filters_frame : forall ren colref fs fl,
  rename_filters ren colref fs = Ok fl ->
  length fl = length fs /\
  forall i cr f, nth_error fs i = Some (cr, f) -> cr <> colref -> nth_error fl i = Some None.
Proof.
  intros ren colref fs. induction fs as [|[cr f] rest IH]; intros fl H; simpl in H.
  - injection H as <-. split; [reflexivity|]. intros i cr f Hn. destruct i; discriminate.
  - destruct (Z.eqb cr colref) eqn:E.
    + destruct (rename_filter ren f) as [o|]; [|discriminate].
      destruct (rename_filters ren colref rest) as [r|]; [|discriminate]. injection H as <-.
      destruct (IH r eq_refl) as [Hl Hf]. split; [simpl; congruence|].
      intros i cr' f' Hn Hne. destruct i as [|i]; simpl in *.
      * injection Hn as -> ->. apply Z.eqb_eq in E. contradiction.
      * eapply Hf; eassumption.
    + destruct (rename_filters ren colref rest) as [r|]; [|discriminate]. injection H as <-.
      destruct (IH r eq_refl) as [Hl Hf]. split; [simpl; congruence|].
      intros i cr' f' Hn Hne. destruct i as [|i]; simpl in *; [reflexivity|]. eapply Hf; eassumption.
Qed.

(* ---------------------------------------------------------------- the action *)

(* the full statement: the action is the specification, for every state, column and mapping *)
Theorem rename_action_full : forall st cid k is_formula colref ren,
  filters_are_objects colref (s_filters st) ->
  rename_action st cid k is_formula colref ren =
  Ok (spec_cols k ren (s_ids st) cid is_formula (s_cols st), spec_filters ren colref (s_filters st)).
Proof.
  intros st cid k f colref ren Hobj. unfold rename_action.
  rewrite (rename_filters_ok ren colref _ Hobj). destruct f; [reflexivity|].
  rewrite rename_cols_total. reflexivity.
Qed.

(* without any hypothesis: whenever it succeeds, the columns are the specification ... *)
Theorem rename_simultaneous : forall st cid k is_formula colref ren cols' fl',
  rename_action st cid k is_formula colref ren = Ok (cols', fl') ->
  cols' = spec_cols k ren (s_ids st) cid is_formula (s_cols st).
Proof.
  intros st cid k f colref ren cols' fl' H. unfold rename_action in H. destruct f.
  - destruct (rename_filters ren colref (s_filters st)); [|discriminate]. injection H as <- _. reflexivity.
  - rewrite rename_cols_total in H.
    destruct (rename_filters ren colref (s_filters st)); [|discriminate]. injection H as <- _. reflexivity.
Qed.

(* ... and it fails only with AttributeError, only because of a non-object filter of this column *)
Theorem rename_action_err : forall st cid k is_formula colref ren e,
  rename_action st cid k is_formula colref ren = Err e ->
  e = ErrAttributeError /\ In (colref, FNotObj) (s_filters st).
Proof.
  intros st cid k f colref ren e H. unfold rename_action in H.
  assert (Hc : (if f then Ok (s_cols st) else rename_cols k ren (s_ids st) cid (s_cols st)) =
               Ok (spec_cols k ren (s_ids st) cid f (s_cols st))).
  { destruct f; [reflexivity|apply rename_cols_total]. }
  rewrite Hc in H. destruct (rename_filters ren colref (s_filters st)) as [fl|x] eqn:Hf; [discriminate|].
  injection H as <-. apply (rename_filters_err _ _ _ _ Hf).
Qed.

Theorem rename_other_filters_untouched : forall st cid k is_formula colref ren cols' fl',
  rename_action st cid k is_formula colref ren = Ok (cols', fl') ->
  length fl' = length (s_filters st) /\
  forall i cr f, nth_error (s_filters st) i = Some (cr, f) -> cr <> colref -> nth_error fl' i = Some None.
Proof.
  intros st cid k f colref ren cols' fl' H. unfold rename_action in H.
  destruct (if f then Ok (s_cols st) else rename_cols k ren (s_ids st) cid (s_cols st)); [|discriminate].
  destruct (rename_filters ren colref (s_filters st)) as [fl|] eqn:Hf; [|discriminate].
  injection H as _ <-. apply (rename_filters_frame _ _ _ _ Hf).
Qed.

(* ---------------------------------------------------------------- frame *)

Lemma spec_cell_frame : forall k ren v,
  (forall s, In s (cell_choices k v) -> ren_get ren s = None) -> spec_cell k ren v = v.
Proof.
  intros k ren v H. destruct k, v; try reflexivity; simpl in *.
  - rewrite ren_apply_miss; [reflexivity|]. apply H. left; reflexivity.
  - destruct (forallb is_str l) eqn:Hs; simpl; [|reflexivity].
    destruct (existsb (in_renames ren) l) eqn:E; [|reflexivity]. exfalso.
    apply existsb_exists in E. destruct E as [x [Hx Hr]]. destruct x; simpl in Hr; try discriminate.
    rewrite H in Hr; [discriminate|]. apply in_flat_map. exists (VStr s). split; [exact Hx|left; reflexivity].
  - destruct (forallb is_str l) eqn:Hs; [|reflexivity].
    rewrite map_rename_elem_miss; [reflexivity|].
    destruct (existsb (in_renames ren) l) eqn:E; [|reflexivity]. exfalso.
    apply existsb_exists in E. destruct E as [x [Hx Hr]]. destruct x; simpl in Hr; try discriminate.
    rewrite H in Hr; [discriminate|]. apply in_flat_map. exists (VStr s). split; [exact Hx|left; reflexivity].
Qed.

(* positions: the i-th element of a renamed choice list is the substitution applied to the i-th element;
   an element outside the mapping stays where it is *)
Lemma spec_cell_elements : forall ren l,
  forallb is_str l = true ->
  exists l', spec_cell ChoiceList ren (VTuple l) = VTuple l' /\ length l' = length l /\
             (forall i s, nth_error l i = Some (VStr s) -> nth_error l' i = Some (VStr (ren_apply ren s))) /\
             (forall i s, nth_error l i = Some (VStr s) -> ren_get ren s = None -> nth_error l' i = Some (VStr s)).
Proof.
  intros ren l Hs. exists (map (rename_elem ren) l). simpl. rewrite Hs. split; [reflexivity|].
  split; [apply map_length|]. split.
  - intros i s Hn. rewrite nth_error_map, Hn. reflexivity.
  - intros i s Hn Hm. rewrite nth_error_map, Hn. simpl. rewrite (ren_apply_miss _ _ Hm). reflexivity.
Qed.

(* the target column slot by slot: a record's cell is substituted, any other storage slot is kept *)
Lemma spec_data_from_nth : forall k ren ids data i j v,
  nth_error data j = Some v ->
  nth_error (spec_data_from k ren ids i data) j =
  Some (if is_record ids (i + j) then spec_cell k ren v else v).
Proof.
  intros k ren ids data. induction data as [|x t IH]; intros i j v Hn.
  - destruct j; discriminate.
  - destruct j as [|j]; simpl in *.
    + injection Hn as ->. rewrite Nat.add_0_r. reflexivity.
    + rewrite (IH (S i) j v Hn). replace (S i + j)%nat with (i + S j)%nat by lia. reflexivity.
Qed.

Lemma spec_data_nth : forall k ren ids data j v,
  nth_error data j = Some v ->
  nth_error (spec_data k ren ids data) j = Some (if is_record ids j then spec_cell k ren v else v).
Proof. intros. unfold spec_data. rewrite (spec_data_from_nth k ren ids data 0 j v H). reflexivity. Qed.

Lemma spec_data_length : forall k ren ids data, length (spec_data k ren ids data) = length data.
Proof.
  intros k ren ids data. unfold spec_data. generalize 0%nat. induction data as [|x t IH]; intros i; simpl; auto.
Qed.

Lemma spec_cols_other : forall k ren ids cid is_formula cols,
  length (spec_cols k ren ids cid is_formula cols) = length cols /\
  forall i c data, nth_error cols i = Some (c, data) -> c <> cid ->
                   nth_error (spec_cols k ren ids cid is_formula cols) i = Some (c, data).
Proof.
  intros k ren ids cid f cols. unfold spec_cols. destruct f; [split; auto|].
  split; [apply map_length|]. intros i c data Hn Hne. rewrite nth_error_map. unfold str in *. rewrite Hn. simpl.
  rewrite (str_eqb_false _ _ Hne). reflexivity.
Qed.

Lemma spec_cols_target : forall k ren ids cid cols i data,
  nth_error cols i = Some (cid, data) ->
  nth_error (spec_cols k ren ids cid false cols) i = Some (cid, spec_data k ren ids data).
Proof.
  intros k ren ids cid cols i data Hn. unfold spec_cols. rewrite nth_error_map. unfold str in *. rewrite Hn. simpl.
  rewrite str_eqb_refl. reflexivity.
Qed.

(* filters: same keys in the same order; a list entry is the element-wise substitution, any other entry is kept *)
Lemma spec_entries_shape : forall ren es,
  map fst (spec_entries ren es) = map fst es /\
  (forall i k l, nth_error es i = Some (k, FList l) ->
                 nth_error (spec_entries ren es) i = Some (k, FList (map (rename_elem ren) l))) /\
  (forall i k t, nth_error es i = Some (k, FOther t) -> nth_error (spec_entries ren es) i = Some (k, FOther t)).
Proof.
  intros ren es. unfold spec_entries. split; [rewrite map_map; reflexivity|]. split.
  - intros i k l Hn. rewrite nth_error_map. unfold str in *. rewrite Hn. reflexivity.
  - intros i k t Hn. rewrite nth_error_map. unfold str in *. rewrite Hn. reflexivity.
Qed.

Lemma spec_filter_untouched : forall ren es,
  (forall k l v, In (k, FList l) es -> In v l -> in_renames ren v = false) ->
  spec_filter ren (FObj es) = None.
Proof.
  intros ren es H. simpl. assert (E : spec_entries ren es = es).
  { unfold spec_entries. rewrite <- (map_id es) at 2. apply map_ext_in. intros [k e] Hin. simpl.
    destruct e as [l|t]; [|reflexivity]. f_equal. f_equal.
    rewrite <- (map_id l) at 2. apply map_ext_in. intros v Hv. apply rename_elem_miss. eapply H; eassumption. }
  rewrite E. rewrite (proj2 (entries_eqb_eq _ _) eq_refl). reflexivity.
Qed.

Lemma spec_filter_changed : forall ren f new,
  spec_filter ren f = Some new -> exists es, f = FObj es /\ new = spec_entries ren es /\ new <> es.
Proof.
  intros ren f new H. destruct f as [|es|]; simpl in H; try discriminate.
  destruct (entries_eqb es (spec_entries ren es)) eqn:E; [discriminate|].
  injection H as <-. exists es. repeat split. intros Heq. rewrite Heq in E.
  rewrite (proj2 (entries_eqb_eq _ _) eq_refl) in E. discriminate.
Qed.

(* a range filter (no list entry at all) is never rewritten *)
Lemma spec_filter_range_kept : forall ren es,
  (forall k e, In (k, e) es -> exists t, e = FOther t) -> spec_filter ren (FObj es) = None.
Proof.
  intros ren es H. apply spec_filter_untouched. intros k l v Hin _.
  destruct (H k (FList l) Hin) as [t Ht]. discriminate.
Qed.

(* swaps *)
Lemma swap_apply : forall a b, a <> b ->
  ren_apply [(a, b); (b, a)] a = b /\ ren_apply [(a, b); (b, a)] b = a /\
  forall c, c <> a -> c <> b -> ren_apply [(a, b); (b, a)] c = c.
Proof.
  intros a b Hne. unfold ren_apply. simpl. rewrite !str_eqb_refl.
  rewrite (str_eqb_false a b Hne). repeat split.
  intros c Ha Hb. rewrite (str_eqb_false a c), (str_eqb_false b c); congruence.
Qed.
