(* C05 kernel: [consistent] is preserved by edits and evaluations; at quiescence the formula cells
   hold the values recalculation from scratch gives. *)
From Coq Require Import ZArith List Bool Lia.
Import ListNotations.
Require Import Grist.Model.Deps Grist.Model.DepsSpec.
Open Scope Z_scope.

Lemma cell_eqb_eq a b : cell_eqb a b = true <-> a = b.
Proof.
  destruct a as [a1 a2], b as [b1 b2]. unfold cell_eqb. cbn [fst snd].
  rewrite andb_true_iff, !Z.eqb_eq. split.
  - intros [-> ->]. reflexivity.
  - intros H. inversion H. auto.
Qed.

Lemma cell_eqb_refl a : cell_eqb a a = true.
Proof. apply cell_eqb_eq. reflexivity. Qed.

Lemma cell_eqb_neq a b : a <> b -> cell_eqb a b = false.
Proof.
  intros H. destruct (cell_eqb a b) eqn:E; auto. apply cell_eqb_eq in E. contradiction.
Qed.

Lemma cell_dec (a b : cell) : a = b \/ a <> b.
Proof.
  destruct (cell_eqb a b) eqn:E.
  - left. apply cell_eqb_eq. exact E.
  - right. intros ->. rewrite cell_eqb_refl in E. discriminate.
Qed.

Lemma upd_same v c x : upd v c x c = x.
Proof. unfold upd. rewrite cell_eqb_refl. reflexivity. Qed.

Lemma upd_other v c x y : y <> c -> upd v c x y = v y.
Proof. intros H. unfold upd. rewrite cell_eqb_neq; auto. Qed.

(* a formula's result and the cells it reads depend only on what it observes *)
Lemma run_trace_obs_ext v v' t :
  Forall (fun a : access => snd a (v' (acell a)) = snd a (v (acell a))) (trace v t) ->
  run v' t = run v t /\ trace v' t = trace v t.
Proof.
  induction t as [z | d via p k IH]; intros H.
  - split; reflexivity.
  - cbn [trace] in H. inversion H as [| a l Ha Hl]; subst.
    cbn [snd acell fst] in Ha. cbn [run trace]. rewrite Ha.
    destruct (IH _ Hl) as [E1 E2]. rewrite E1, E2. split; reflexivity.
Qed.

Lemma run_ext v v' t :
  Forall (fun a : access => v' (acell a) = v (acell a)) (trace v t) ->
  run v' t = run v t /\ trace v' t = trace v t.
Proof.
  intros H. apply run_trace_obs_ext. eapply Forall_impl; [| exact H].
  intros a E. cbn beta in E. rewrite E. reflexivity.
Qed.

Section Kernel.
Variable guarded : state -> cell -> cell -> (Z -> Z) -> Prop.
Notation consistent := (consistent guarded).
Notation read_ok := (read_ok guarded).

Lemma not_none_some {A} (o : option A) x : o = Some x -> o <> None.
Proof. intros -> H. discriminate. Qed.

Lemma edit_preserves s T s' : edit_ok guarded s T s' -> consistent s -> consistent s'.
Proof.
  intros E C c t Hf Hd.
  assert (HT : T c = false).
  { destruct (T c) eqn:X; auto. rewrite (e_T _ _ _ _ E c X (not_none_some _ _ Hf)) in Hd. discriminate. }
  assert (Hf0 : fml s c = Some t) by (rewrite <- (e_fml _ _ _ _ E c HT); exact Hf).
  assert (Hd0 : dirty s c = false).
  { destruct (dirty s c) eqn:X; auto.
    rewrite (e_old _ _ _ _ E c X (not_none_some _ _ Hf)) in Hd. discriminate. }
  destruct (C c t Hf0 Hd0) as [Hv Hr].
  assert (Hobs : Forall (fun a : access => snd a (val s' (acell a)) = snd a (val s (acell a))
                          /\ read_ok s' c a) (trace (val s) t)).
  { eapply Forall_impl; [| exact Hr]. intros a Ha. cbn beta in Ha.
    destruct Ha as [[Hl Hc] | Hg].
    - assert (HTd : T (acell a) = false).
      { destruct (T (acell a)) eqn:X; auto.
        rewrite (e_closed _ _ _ _ E (acell a) c (or_introl (conj X Hc)) Hl (not_none_some _ _ Hf)) in Hd.
        discriminate. }
      split.
      + rewrite (e_val _ _ _ _ E _ HTd). reflexivity.
      + left. split.
        * apply (e_links _ _ _ _ E); auto. eapply not_none_some; eauto.
        * intros Hfd. rewrite (e_fml _ _ _ _ E _ HTd) in Hfd. specialize (Hc Hfd).
          destruct (dirty s' (acell a)) eqn:X; auto.
          rewrite (e_closed _ _ _ _ E (acell a) c (or_intror (conj X Hc)) Hl (not_none_some _ _ Hf)) in Hd.
          discriminate.
    - destruct (e_guard _ _ _ _ E c (acell a) (snd a) (not_none_some _ _ Hf) Hd Hg) as [G1 G2].
      split; [exact G2 | right; exact G1]. }
  assert (Hobs1 : Forall (fun a : access => snd a (val s' (acell a)) = snd a (val s (acell a)))
                         (trace (val s) t)).
  { eapply Forall_impl; [| exact Hobs]. intros a [H _]. exact H. }
  destruct (run_trace_obs_ext _ _ _ Hobs1) as [R1 R2].
  split.
  - rewrite (e_val _ _ _ _ E c HT), R1. exact Hv.
  - rewrite R2. eapply Forall_impl; [| exact Hobs]. intros a [_ H]. exact H.
Qed.

Lemma eval_preserves s c0 t0 s' : eval_ok guarded s c0 t0 s' -> consistent s -> consistent s'.
Proof.
  intros E C c t Hf Hd.
  rewrite (v_fmls _ _ _ _ _ E) in Hf.
  destruct (cell_dec c c0) as [-> | Hne].
  - (* the evaluated cell *)
    rewrite (v_fml _ _ _ _ _ E) in Hf. inversion Hf; subst t0. clear Hf.
    assert (Hsame : Forall (fun a : access => val s' (acell a) = val s (acell a)) (trace (val s) t)).
    { eapply Forall_impl; [| exact (v_clean _ _ _ _ _ E)]. intros a Ha. cbn beta in Ha.
      rewrite (v_val _ _ _ _ _ E). apply upd_other. intros X. rewrite X in Ha.
      rewrite (v_dirty _ _ _ _ _ E) in Ha. assert (true = false) by (apply Ha; rewrite (v_fml _ _ _ _ _ E); discriminate).
      discriminate. }
    destruct (run_ext _ _ _ Hsame) as [R1 R2]. split.
    + rewrite R1, (v_val _ _ _ _ _ E). apply upd_same.
    + rewrite R2. apply (v_rec _ _ _ _ _ E). exact Hd.
  - assert (Hd0 : dirty s c = false).
    { destruct (dirty s c) eqn:X; auto. rewrite (v_old _ _ _ _ _ E c Hne X) in Hd. discriminate. }
    destruct (C c t Hf Hd0) as [Hv Hr].
    pose proof (not_none_some _ _ Hf) as Hfn.
    assert (Hobs : Forall (fun a : access => snd a (val s' (acell a)) = snd a (val s (acell a))
                            /\ read_ok s' c a) (trace (val s) t)).
    { eapply Forall_impl; [| exact Hr]. intros a Ha. cbn beta in Ha.
      destruct Ha as [[Hl Hc] | Hg].
      - assert (Hdc : acell a <> c0).
        { intros X. rewrite X in Hc. rewrite (v_dirty _ _ _ _ _ E) in Hc.
          assert (true = false) by (apply Hc; rewrite (v_fml _ _ _ _ _ E); discriminate). discriminate. }
        split.
        + rewrite (v_val _ _ _ _ _ E), upd_other; auto.
        + left. split.
          * apply (v_links _ _ _ _ _ E); auto.
          * intros Hfd. rewrite (v_fmls _ _ _ _ _ E) in Hfd. specialize (Hc Hfd).
            destruct (dirty s' (acell a)) eqn:X; auto.
            rewrite (v_closed _ _ _ _ _ E (acell a) c X Hc Hl Hfn) in Hd. discriminate.
      - destruct (v_guard _ _ _ _ _ E c (acell a) (snd a) Hne Hfn Hd Hg) as [G1 G2].
        split; [exact G2 | right; exact G1]. }
    assert (Hobs1 : Forall (fun a : access => snd a (val s' (acell a)) = snd a (val s (acell a)))
                           (trace (val s) t)).
    { eapply Forall_impl; [| exact Hobs]. intros a [H _]. exact H. }
    destruct (run_trace_obs_ext _ _ _ Hobs1) as [R1 R2].
    split.
    + rewrite (v_val _ _ _ _ _ E), upd_other, R1; auto.
    + rewrite R2. eapply Forall_impl; [| exact Hobs]. intros a [_ H]. exact H.
Qed.

Lemma steps_preserve s s' : steps guarded s s' -> consistent s -> consistent s'.
Proof.
  induction 1 as [| s s1 s2 H1 _ IH]; auto.
  intros C. apply IH. destruct H1 as [s T s' E | s c t s' E].
  - eapply edit_preserves; eauto.
  - eapply eval_preserves; eauto.
Qed.

End Kernel.

Lemma scratch_correct s rank :
  (forall c t, fml s c = Some t -> val s c = run (val s) t) ->
  acyclic (fml s) rank ->
  forall fuel c, (rank c < fuel)%nat -> scratch fuel (fml s) (val s) c = val s c.
Proof.
  intros Heq Hac. induction fuel as [| n IH]; intros c Hr; [lia |].
  cbn [scratch]. destruct (fml s c) as [t |] eqn:Hf; [| reflexivity].
  rewrite (Heq c t Hf). apply run_ext.
  eapply Forall_impl; [| exact (Hac c t Hf (val s))].
  intros a Ha. cbn beta in Ha. apply IH. lia.
Qed.

Theorem incremental_eq_scratch guarded s s' rank :
  consistent guarded s -> steps guarded s s' -> quiescent s' -> acyclic (fml s') rank ->
  forall c fuel, (rank c < fuel)%nat -> val s' c = scratch fuel (fml s') (val s') c.
Proof.
  intros C St Q Hac c fuel Hr. symmetry. eapply scratch_correct; eauto.
  intros x t Hf. pose proof (steps_preserve _ _ _ St C) as C'.
  apply (C' x t Hf). apply Q. rewrite Hf. discriminate.
Qed.

(* the values at quiescence do not depend on the history at all *)
Corollary quiescent_values_unique guarded s1 s2 rank :
  consistent guarded s1 -> consistent guarded s2 -> quiescent s1 -> quiescent s2 ->
  (forall c, fml s1 c = fml s2 c) -> (forall c, fml s1 c = None -> val s1 c = val s2 c) ->
  acyclic (fml s1) rank -> forall c, val s1 c = val s2 c.
Proof.
  intros C1 C2 Q1 Q2 Hf Hd Hac.
  assert (Hac2 : acyclic (fml s2) rank).
  { intros c t H v. apply (Hac c t). rewrite Hf. exact H. }
  assert (G : forall n c, (rank c < n)%nat -> val s1 c = val s2 c).
  { induction n as [| n IH]; intros c Hr; [lia |].
    destruct (fml s1 c) as [t |] eqn:F; [| auto].
    destruct (C1 c t F (Q1 c (not_none_some _ _ F))) as [E1 _].
    assert (F2 : fml s2 c = Some t) by (rewrite <- Hf; exact F).
    destruct (C2 c t F2 (Q2 c (not_none_some _ _ F2))) as [E2 _].
    rewrite E1, E2. symmetry. apply run_ext.
    eapply Forall_impl; [| exact (Hac c t F (val s1))].
    intros a Ha. cbn beta in Ha. symmetry. apply IH. lia. }
  intros c. apply (G (S (rank c))). lia.
Qed.
