(* K6 proofs, part 11: doAddTable. *)
From Coq Require Import ZArith List Bool Lia.
Import ListNotations.
Require Import Grist.Model.MetaCascade Grist.Proofs.MetaCascade_base Grist.Proofs.MetaCascade_inv
  Grist.Proofs.MetaCascade_add Grist.Proofs.MetaCascade_add2 Grist.Proofs.MetaCascade_add3.
Open Scope Z_scope.

Lemma new_columns_ids : forall start t ks, map c_id (new_columns start t ks) = zseq start (length ks).
Proof.
  intros. unfold new_columns. rewrite map_map. simpl.
  change (map (fun x : Z * Z => fst x) (combine (zseq start (length ks)) ks))
    with (map fst (combine (zseq start (length ks)) ks)).
  apply combine_fst. apply zseq_length.
Qed.

Lemma new_columns_In : forall start t ks c, In c (new_columns start t ks) ->
  c_parent c = t /\ c_display c = 0 /\ c_visible c = 0 /\ c_src c = 0 /\ c_rules c = [].
Proof.
  intros start t ks c Hc. unfold new_columns in Hc. apply in_map_iff in Hc. destruct Hc as [[i k] [E _]].
  subst c. simpl. tauto.
Qed.

Lemma NoDup_snoc : forall (l : list Z) x, NoDup l -> ~ In x l -> NoDup (l ++ [x]).
Proof.
  intros l x H Hn. apply NoDup_app_intro; [exact H | constructor; [intros [] | constructor] |].
  intros y Hy [Hx|[]]. subst y. contradiction.
Qed.

(* replacing the record of the one exempt table by a well-formed record restores the full invariant *)
Lemma upd_table_inv : forall t newrec m,
  InvX [t] m -> t_id newrec = t ->
  (forall r, In r (m_tables m) -> t_id r = t -> t_name r = t_name newrec) ->
  let m' := set_tables m (map (fun r => if t_id r =? t then newrec else r) (m_tables m)) in
  TableOk m' newrec -> Inv m'.
Proof.
  intros t newrec m [I1 I2 I3 I4 I5 I6 I7 I8] Eid Hname m' Hnew.
  assert (Et : tids m' = tids m).
  { unfold m', tids, set_tables. simpl. rewrite map_map. apply map_ext. intros r.
    destruct (t_id r =? t) eqn:E; [apply Z.eqb_eq in E; congruence | reflexivity]. }
  assert (En : map t_name (m_tables m') = map t_name (m_tables m)).
  { unfold m', set_tables. simpl. rewrite map_map. apply map_ext_in. intros r Hr.
    destruct (t_id r =? t) eqn:E; [apply Z.eqb_eq in E; symmetry; apply Hname; assumption | reflexivity]. }
  constructor.
  - unfold IdsOk in *. rewrite Et. exact I1.
  - intros c Hc. specialize (I2 c Hc). unfold ColOk in *. rewrite Et. exact I2.
  - exact I3.
  - intros s Hs. specialize (I4 s Hs). unfold SecOk in *. rewrite Et. exact I4.
  - intros r' Hr' _. unfold m', set_tables in Hr'. simpl in Hr'. apply in_map_iff in Hr'.
    destruct Hr' as [r [E Hr]]. destruct (t_id r =? t) eqn:Eq.
    + subst r'. exact Hnew.
    + subst r'. apply Z.eqb_neq in Eq.
      assert (Hx : ~ In (t_id r) [t]) by (intros [Hx|[]]; congruence).
      specialize (I5 r Hr Hx). unfold TableOk in *. rewrite Et. exact I5.
  - exact I6.
  - exact I7.
  - unfold NamesOk in *. rewrite En. exact I8.
Qed.

Lemma add_view_frame : forall t raw m m' v, add_view t raw m = Ok (m', v) ->
  m_tables m' = m_tables m /\ m_columns m' = m_columns m.
Proof.
  intros t raw m m' v H. unfold add_view in H. destruct raw.
  - destruct (negb (mem t (tids m))); [discriminate|].
    match type of H with context [add_section ?a ?b ?c ?d] =>
      destruct (add_section_sec a b c d) as [_ [C3 [T3 _]]]; destruct (add_section a b c d) as [m2 s] end.
    simpl in *. inversion H; subst m' v. destruct (add_fields_frame s (visible_cols m2 t) m2) as [F1 [F2 _]].
    rewrite F1, F2, T3, C3. simpl. split; reflexivity.
  - inversion H; subst. simpl. split; reflexivity.
Qed.

Lemma add_table_inv : forall name kinds pview m m' t,
  Inv m -> add_table name kinds pview m = Ok (m', t) -> Inv m' /\ In t (tids m').
Proof.
  intros name kinds pview m m' t0 HI H. unfold add_table in H.
  destruct (mem name (m_schema m) || mem name (map t_name (m_tables m))) eqn:En; [discriminate|].
  apply orb_false_iff in En. destruct En as [En1 En2]. apply mem_false in En1. apply mem_false in En2.
  set (t := next_id (tids m)) in *.
  set (m0 := mkM (m_tables m ++ [mkT t name 0 0 0 0])
                 (m_columns m ++ new_columns (next_id (cids m)) t (K_HIDDEN :: kinds))
                 (m_views m) (m_sections m) (m_fields m) (m_tabbar m) (m_pages m) (m_schema m ++ [name])) in *.
  assert (E0 : m0 = extend m [mkT t name 0 0 0 0] (new_columns (next_id (cids m)) t (K_HIDDEN :: kinds))
                           [] [] [] [] [] [name]).
  { unfold m0, extend. rewrite !app_nil_r. reflexivity. }
  assert (Ht0 : In t (tids m0)) by (unfold m0, tids; simpl; rewrite map_app; apply in_app_iff; right; left; reflexivity).
  assert (HI0 : InvX [t] m0).
  { rewrite E0. destruct (inv_ids [] m HI) as [A [B [C [D [E [F G]]]]]]. destruct (inv_names [] m HI) as [N1 [N2 [N3 N4]]].
    apply inv_extend; try (intros ? Hnil; exact (False_ind _ Hnil)).
    - apply (InvX_weaken [] [t]); [intros x [] | exact HI].
    - apply IdsOk_extend; try (apply IdList_nil; assumption).
      + simpl. apply IdList_snoc. exact A.
      + rewrite new_columns_ids. apply IdList_zseq. exact B.
    - unfold NamesOk, extend. simpl. rewrite map_app. simpl.
      split; [apply NoDup_snoc; assumption|]. split; [apply NoDup_snoc; assumption|].
      split; intros x Hx; apply in_app_iff in Hx; apply in_app_iff; destruct Hx as [Hx|Hx]; auto.
    - intros c Hc. apply new_columns_In in Hc. destruct Hc as [H1 [H2 [H3 [H4 H5]]]].
      unfold ColOk. rewrite H1, H2, H3, H4, H5. rewrite <- E0.
      split; [exact Ht0|]. split; [left; reflexivity|]. split; [left; reflexivity|]. split; [left; reflexivity | intros x []].
    - intros r [Hr|[]] Hx. subst r. exfalso. apply Hx. left. reflexivity. }
  assert (Hm1 : exists m1 v, (if pview then add_view t true m0 else Ok (m0, 0)) = Ok (m1, v) /\
            InvX [t] m1 /\ Optref (m_views m1) v /\ m_tables m1 = m_tables m0).
  { destruct pview.
    - destruct (add_view t true m0) as [[m1 v]| |] eqn:Ev; simpl in H; try discriminate.
      exists m1, v. destruct (add_view_inv [t] t true m0 m1 v HI0 Ev) as [J1 [J2 _]].
      destruct (add_view_frame t true m0 m1 v Ev) as [F1 _]. split; [reflexivity|]. split; [exact J1|].
      split; [right; exact J2 | exact F1].
    - exists m0, 0. split; [reflexivity|]. split; [exact HI0|]. split; [left; reflexivity | reflexivity]. }
  destruct Hm1 as [m1 [v [Ev [HI1 [Hv1 T1]]]]]. rewrite Ev in H. unfold bind in H. cbv beta iota in H.
  assert (Ht1 : In t (tids m1)) by (unfold tids; rewrite T1; exact Ht0).
  pose proof (section_with_fields_inv [t] t 0 false m1 HI1 Ht1 (or_introl eq_refl)) as HI3.
  destruct (add_section_sec t 0 false m1) as [S2 [_ [T2 V2]]].
  destruct (add_section t 0 false m1) as [m2 sraw]. simpl in HI3, S2, T2, V2.
  set (m3 := add_fields sraw (visible_cols m2 t) m2) in *.
  assert (F3 : m_tables m3 = m_tables m2 /\ m_columns m3 = m_columns m2 /\ m_sections m3 = m_sections m2 /\
               m_views m3 = m_views m2) by (apply add_fields_frame).
  destruct F3 as [T3 [_ [S3 V3]]].
  assert (Ht3 : In t (tids m3)) by (unfold tids; rewrite T3, T2; exact Ht1).
  pose proof (section_with_fields_inv [t] t 0 false m3 HI3 Ht3 (or_introl eq_refl)) as HI5.
  destruct (add_section_sec t 0 false m3) as [S4 [_ [T4 V4]]].
  assert (S4' : incl (m_sections m3) (m_sections (fst (add_section t 0 false m3)))).
  { destruct m3. unfold add_section, set_sections. simpl. apply incl_appl, incl_refl. }
  destruct (add_section t 0 false m3) as [m4 scard]. simpl in HI5, S4, T4, V4, S4'.
  set (m5 := add_fields scard (visible_cols m4 t) m4) in *.
  assert (F5 : m_tables m5 = m_tables m4 /\ m_columns m5 = m_columns m4 /\ m_sections m5 = m_sections m4 /\
               m_views m5 = m_views m4) by (apply add_fields_frame).
  destruct F5 as [T5 [_ [S5 V5]]].
  inversion H; subst m' t0. clear H.
  assert (T50 : m_tables m5 = m_tables m ++ [mkT t name 0 0 0 0]) by (rewrite T5, T4; try rewrite T3; try rewrite T2; rewrite T1; reflexivity).
  split.
  - apply (upd_table_inv t (mkT t name v 0 sraw scard) m5); [exact HI5 | reflexivity | |].
    + intros r Hr Er. rewrite T50 in Hr. apply in_app_iff in Hr. destruct Hr as [Hr|[Hr|[]]].
      * exfalso. apply (next_id_fresh (tids m)). fold t. rewrite <- Er. unfold tids. apply in_map. exact Hr.
      * subst r. reflexivity.
    + assert (Hraw : In (mkS sraw t 0 [] false) (m_sections m5))
        by (rewrite S5; apply S4'; try rewrite S3; exact S2).
      assert (Hcard : In (mkS scard t 0 [] false) (m_sections m5)) by (rewrite S5; exact S4).
      assert (Hv5 : Optref (m_views m5) v)
        by (rewrite V5, V4; try rewrite V3; try rewrite V2; exact Hv1).
      unfold TableOk, SecOfTable, set_tables. cbn [m_sections m_views t_raw t_card t_id t_pview t_src].
      split; [exists (mkS sraw t 0 [] false); split; [exact Hraw | simpl; tauto]|].
      split; [right; exists (mkS scard t 0 [] false); split; [exact Hcard | simpl; tauto]|].
      split; [exact Hv5 | left; reflexivity].
  - unfold tids, set_tables. cbn [m_tables]. rewrite map_map. apply in_map_iff.
    exists (mkT t name 0 0 0 0). cbn [t_id]. rewrite Z.eqb_refl. split; [reflexivity|].
    try rewrite <- T5. rewrite T50. apply in_app_iff. right. left. reflexivity.
Qed.
