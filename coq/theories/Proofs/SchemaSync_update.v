(* C08, part 4d: column record updates (_updateColumnRecords): ModifyColumn / RenameColumn derived from the update. *)
From Coq Require Import ZArith List Bool Lia Permutation.
Import ListNotations.
Require Import Grist.Model.SchemaSync Grist.Proofs.SchemaSync_build Grist.Proofs.SchemaSync_spec
               Grist.Proofs.SchemaSync_steps Grist.Proofs.SchemaSync_aux Grist.Proofs.SchemaSync_proofs.
Open Scope Z_scope.

(* the part of an update that the schema sees: type / isFormula / formula, then the colId *)
Definition vmod (u : cpatch) (r : crec) : crec :=
  {| c_id := c_id r; c_parent := c_parent r; c_pos := c_pos r; c_colId := c_colId r;
     c_type := match u_type u with Some x => x | None => c_type r end;
     c_isf := match u_isf u with Some x => x | None => c_isf r end;
     c_formula := match u_formula u with Some x => x | None => c_formula r end;
     c_rev := c_rev r |}.
Definition vpatch (u : cpatch) (r : crec) : crec :=
  {| c_id := c_id r; c_parent := c_parent r; c_pos := c_pos r;
     c_colId := match u_colId u with Some x => x | None => c_colId r end;
     c_type := match u_type u with Some x => x | None => c_type r end;
     c_isf := match u_isf u with Some x => x | None => c_isf r end;
     c_formula := match u_formula u with Some x => x | None => c_formula r end;
     c_rev := c_rev r |}.

Lemma repl_repl : forall k a b cs, c_id b = k -> repl k a (repl k b cs) = repl k a cs.
Proof.
  intros k a b cs Hb. unfold repl. rewrite map_map. apply map_ext. intro r.
  destruct (Z.eqb_spec (c_id r) k) as [E|E].
  - rewrite Hb, Z.eqb_refl. reflexivity.
  - destruct (Z.eqb_spec (c_id r) k); [contradiction | reflexivity].
Qed.

Lemma repl_same : forall k cs r, NoDup (map c_id cs) -> In r cs -> c_id r = k -> repl k r cs = cs.
Proof.
  intros k cs r Hnd Hin Hk. unfold repl. rewrite <- (map_id cs) at 2. apply map_ext_in. intros x Hx.
  destruct (Z.eqb_spec (c_id x) k) as [E|E]; [|reflexivity].
  apply (nodup_ids_unique cs); try assumption. congruence.
Qed.

(* ModifyColumn through doModifyColumn, or nothing when the update has no schema property *)
Lemma modify_or_skip : forall tid c p sch sch1 l1 cols old,
  (if patch_empty p then Ok (sch, []) else do_modify tid c p sch) = Ok (sch1, l1) ->
  od_get tid sch = Some cols -> od_get c cols = Some old ->
  exists cols', sch_upd sch sch1 tid (Some cols') /\
    forall c', od_get c' cols' = if str_eqb c c' then Some (patch_info p old) else od_get c' cols.
Proof.
  intros tid c p sch sch1 l1 cols old H Et Ec. destruct (patch_empty p) eqn:Ee.
  - inversion H; subst. exists cols. split.
    + intro tid'. destruct (str_eqb tid tid') eqn:E; [apply str_eqb_eq in E; subst; exact Et | reflexivity].
    + intro c'. destruct (str_eqb c c') eqn:E; [|reflexivity]. apply str_eqb_eq in E. subst c'.
      rewrite (patch_empty_id _ _ Ee). exact Ec.
  - destruct (do_modify_effect _ _ _ _ _ _ H) as [cols0 [old0 [cols' [H1 [H2 [H3 H4]]]]]].
    rewrite Et in H1. inversion H1; subst cols0. rewrite Ec in H2. inversion H2; subst old0.
    exists cols'. tauto.
Qed.

Definition rho_set (rho : Z -> option str) (k : Z) (prev : option (option str)) : Z -> option str :=
  fun j => if j =? k then match prev with Some x => x | None => rho k end else rho j.

Definition rename_step (tid c0 : str) (n : option str) (sch1 : schema) : res (schema * list sev) :=
  match n with
  | None => Ok (sch1, [])
  | Some n => if str_eqb n c0 then Ok (sch1, [])
              else match apply_s (SRenameColumn tid c0 n) sch1 with
                   | Ok s2 => Ok (s2, [SRenameColumn tid c0 n])
                   | Err e => Err e
                   end
  end.

(* one entry of the loop *)
Lemma upd_entry : forall base ts cur rho t r0 u prev sch sch1 sch2 l1 l2,
  wf_t ts -> wf_c cur -> Sync base sch ts cur rho ->
  In t ts -> In r0 cur -> c_parent r0 = t_id t ->
  (if patch_empty (schema_patch_of u prev) then Ok (sch, [])
   else do_modify (t_tableId t) (c_colId r0) (schema_patch_of u prev) sch) = Ok (sch1, l1) ->
  rename_step (t_tableId t) (c_colId r0) (u_colId u) sch1 = Ok (sch2, l2) ->
  wf_c (repl (c_id r0) (vpatch u r0) cur) /\
  Sync base sch2 ts (repl (c_id r0) (vpatch u r0) cur) (rho_set rho (c_id r0) prev).
Proof.
  intros base ts cur rho t r0 u prev sch sch1 sch2 l1 l2 Hwt Hwc Hs Ht Hr0 Hp Hmod Hren.
  set (k := c_id r0) in *. set (rho' := rho_set rho k prev).
  destruct (sync_table_entry base sch ts cur rho t Hwt Hs Ht) as [cols [Et Hentry]].
  pose proof (sync_col_entry base sch ts cur rho t r0 cols Hwt Hwc Hs Ht Hr0 Hp Et) as Ec.
  destruct (modify_or_skip _ _ _ _ _ _ cols _ Hmod Et Ec) as [cols1 [Hupd1 Hcols1]].
  (* step A: the attributes *)
  assert (Hrho : forall j, j <> k -> rho' j = rho j).
  { intros j Hj. unfold rho', rho_set. destruct (Z.eqb_spec j k); [contradiction | reflexivity]. }
  assert (Hinfo : info_rho rho' (vmod u r0) = patch_info (schema_patch_of u prev) (info_rho rho r0)).
  { unfold info_rho, patch_info, schema_patch_of, vmod, rho', rho_set. cbn. fold k. rewrite Z.eqb_refl. reflexivity. }
  destruct (sync_replace_col base sch sch1 ts cur rho rho' t r0 (vmod u r0) cols cols1) as [Hwc1 Hs1]; try assumption;
    try reflexivity.
  - left. reflexivity.
  - intro c. rewrite Hcols1. cbn [vmod c_colId]. rewrite Hinfo.
    destruct (str_eqb (c_colId r0) c); reflexivity.
  - fold k in Hwc1, Hs1. set (cur1 := repl k (vmod u r0) cur) in *.
    assert (Hin1 : In (vmod u r0) cur1) by (apply (repl_in_new k _ cur r0 Hr0 eq_refl)).
    (* step B: the name *)
    unfold rename_step in Hren.
    assert (Hnoren : sch2 = sch1 -> vpatch u r0 = vmod u r0 ->
                     wf_c (repl k (vpatch u r0) cur) /\ Sync base sch2 ts (repl k (vpatch u r0) cur) rho').
    { intros -> ->. tauto. }
    destruct (u_colId u) as [n|] eqn:En.
    + destruct (str_eqb n (c_colId r0)) eqn:Esame.
      * inversion Hren; subst sch2. apply Hnoren; [reflexivity|]. apply str_eqb_eq in Esame.
        unfold vpatch, vmod. rewrite En, Esame. reflexivity.
      * destruct (apply_s (SRenameColumn (t_tableId t) (c_colId r0) n) sch1) as [s2|] eqn:Ea; [|discriminate].
        inversion Hren; subst s2. clear Hren Hnoren.
        cbn in Ea. destruct (od_get (t_tableId t) sch1) as [cols1'|] eqn:Et1; [|discriminate].
        destruct (od_get (c_colId r0) cols1') as [i|] eqn:Ec1; [|discriminate].
        destruct (od_get n cols1') eqn:En1; [discriminate|]. inversion Ea; subst sch2; clear Ea.
        pose proof (sync_col_entry base sch1 ts cur1 rho' t (vmod u r0) cols1' Hwt Hwc1 Hs1 Ht Hin1 Hp Et1) as Ei.
        cbn [vmod c_colId] in Ei. rewrite Ec1 in Ei. inversion Ei; subst i; clear Ei.
        destruct (sync_replace_col base sch1 (od_set (t_tableId t) (od_set n (info_rho rho' (vmod u r0)) (od_del (c_colId r0) cols1')) sch1)
                    ts cur1 rho' rho' t (vmod u r0) (vpatch u r0) cols1'
                    (od_set n (info_rho rho' (vmod u r0)) (od_del (c_colId r0) cols1'))) as [Hwc2 Hs2];
          try assumption; try reflexivity.
        -- right. cbn [vpatch c_colId]. rewrite En. exact En1.
        -- intro c. cbn [vpatch vmod c_colId]. rewrite En. rewrite od_get_set, od_get_del.
           assert (Hi : info_rho rho' (vpatch u r0) = info_rho rho' (vmod u r0)) by reflexivity.
           rewrite Hi. reflexivity.
        -- apply sch_upd_set.
        -- cbn [vmod c_id] in Hwc2, Hs2. fold k in Hwc2, Hs2. unfold cur1 in Hwc2, Hs2.
           rewrite repl_repl in Hwc2, Hs2 by reflexivity. tauto.
    + inversion Hren; subst sch2. apply Hnoren; [reflexivity|]. unfold vpatch, vmod. rewrite En. reflexivity.
Qed.

(* ---------------------------------------------------------------- the whole loop *)
Definition rho_upd (cs0 : list crec) (all done : list (Z * cpatch)) (rho0 : Z -> option str) : Z -> option str :=
  fun j => match assoc j done with
           | Some u => match rev_patch cs0 all u with Ok (Some x) => x | _ => rho0 j end
           | None => rho0 j
           end.

Lemma assoc_app : forall {A} j (a b : list (Z * A)),
  assoc j (a ++ b) = match assoc j a with Some v => Some v | None => assoc j b end.
Proof.
  intros A j a b. induction a as [|[k v] t IH]; [reflexivity|]. cbn. destruct (k =? j); [reflexivity | exact IH].
Qed.

Lemma nodup_keys_mid : forall {A} (a : list (Z * A)) k v b, nodup_keys (a ++ (k, v) :: b) = true -> assoc k a = None.
Proof.
  intros A a k v b. induction a as [|[k' v'] t IH]; intro H; [reflexivity|]. cbn in H.
  destruct (assoc k' (t ++ (k, v) :: b)) eqn:E; [discriminate|]. cbn.
  destruct (Z.eqb_spec k' k) as [Ek|Ek]; [|apply IH; exact H].
  subst k'. rewrite assoc_app in E. destruct (assoc k t); [discriminate|]. cbn in E. rewrite Z.eqb_refl in E. discriminate.
Qed.

Lemma rowfun_nil : forall {A} (g : A -> crec -> crec) cs, map (rowfun g []) cs = cs.
Proof. intros A g cs. unfold rowfun. cbn. apply map_id. Qed.

Lemma upd_loop_cons : forall m all k u rest sch log,
  upd_loop m all ((k, u) :: rest) sch log =
  match find_col k (m_cols m) with
  | None => Err E_no_row
  | Some r =>
    match find_table (c_parent r) (m_tables m) with
    | None => Err E_no_table
    | Some t =>
      match rev_patch (m_cols m) all u with
      | Err e => Err e
      | Ok prev =>
        match (if patch_empty (schema_patch_of u prev) then Ok (sch, [])
               else do_modify (t_tableId t) (c_colId r) (schema_patch_of u prev) sch) with
        | Err e => Err e
        | Ok (sch1, l1) =>
          match rename_step (t_tableId t) (c_colId r) (u_colId u) sch1 with
          | Err e => Err e
          | Ok (sch2, l2) => upd_loop m all rest sch2 (log ++ l1 ++ l2)
          end
        end
      end
    end
  end.
Proof. reflexivity. Qed.

Lemma upd_loop_sync : forall base ts cs0 all rho0, wf_t ts -> wf_c cs0 ->
  forall l done sch log sch' log',
    nodup_keys (done ++ l) = true ->
    wf_c (map (rowfun vpatch done) cs0) ->
    Sync base sch ts (map (rowfun vpatch done) cs0) (rho_upd cs0 all done rho0) ->
    upd_loop {| m_tables := ts; m_cols := cs0 |} all l sch log = Ok (sch', log') ->
    wf_c (map (rowfun vpatch (done ++ l)) cs0) /\
    Sync base sch' ts (map (rowfun vpatch (done ++ l)) cs0) (rho_upd cs0 all (done ++ l) rho0).
Proof.
  intros base ts cs0 all rho0 Hwt Hwc0 l. induction l as [|[k u] rest IH]; intros done sch log sch' log' Hnd Hwc Hs Hloop.
  - cbn in Hloop. inversion Hloop; subst. rewrite app_nil_r. tauto.
  - rewrite upd_loop_cons in Hloop. cbn [m_cols m_tables] in Hloop.
    destruct (find_col k cs0) as [r0|] eqn:Ef; [|discriminate]. apply find_col_in in Ef. destruct Ef as [Hr0 Hk].
    destruct (find_table (c_parent r0) ts) as [t|] eqn:Et; [|discriminate]. apply find_table_some in Et. destruct Et as [Ht Htid].
    destruct (rev_patch cs0 all u) as [prev|] eqn:Erp; [|discriminate].
    destruct (if patch_empty (schema_patch_of u prev) then Ok (sch, [])
              else do_modify (t_tableId t) (c_colId r0) (schema_patch_of u prev) sch) as [[sch1 l1]|] eqn:Em; [|discriminate].
    destruct (rename_step (t_tableId t) (c_colId r0) (u_colId u) sch1) as [[sch2 l2]|] eqn:Er; [|discriminate].
    pose proof (nodup_keys_mid done k u rest Hnd) as Hkd.
    assert (Hin : In r0 (map (rowfun vpatch done) cs0)).
    { apply in_map_iff. exists r0. split; [|exact Hr0]. unfold rowfun. rewrite Hk, Hkd. reflexivity. }
    destruct (upd_entry base ts _ _ t r0 u prev sch sch1 sch2 l1 l2 Hwt Hwc Hs Ht Hin (eq_sym Htid) Em Er) as [Hwc1 Hs1].
    assert (Hcur : repl (c_id r0) (vpatch u r0) (map (rowfun vpatch done) cs0) = map (rowfun vpatch (done ++ [(k, u)])) cs0).
    { unfold repl. rewrite map_map. apply map_ext_in. intros r Hr. unfold rowfun. rewrite assoc_app. cbn [assoc].
      destruct (assoc (c_id r) done) as [v|] eqn:Ea.
      - assert (Hne : c_id r <> k) by (intro E; rewrite E, Hkd in Ea; discriminate).
        cbn [vpatch c_id]. rewrite Hk. destruct (Z.eqb_spec (c_id r) k); [contradiction|]. reflexivity.
      - rewrite Hk. destruct (Z.eqb_spec (c_id r) k) as [E|E].
        + assert (r = r0) by (apply (nodup_ids_unique cs0); try assumption; [apply Hwc0 | congruence]). subst r.
          rewrite Z.eqb_sym. destruct (Z.eqb_spec (c_id r0) k); [reflexivity | contradiction].
        + rewrite Z.eqb_sym. destruct (Z.eqb_spec (c_id r) k); [contradiction | reflexivity]. }
    rewrite Hcur in Hwc1, Hs1.
    replace (done ++ (k, u) :: rest) with ((done ++ [(k, u)]) ++ rest) in * by (rewrite <- app_assoc; reflexivity).
    apply (IH (done ++ [(k, u)]) sch2 (log ++ l1 ++ l2) sch' log'); try assumption.
    apply (sync_rho_ext _ _ _ _ _ _ Hs1). intros r _. unfold rho_upd, rho_set. rewrite assoc_app. cbn [assoc].
    rewrite Hk. destruct (Z.eqb_spec (c_id r) k) as [E|E].
    + rewrite E, Hkd, Z.eqb_refl, Erp. destruct prev as [x|]; reflexivity.
    + destruct (assoc (c_id r) done); [reflexivity|]. destruct (Z.eqb_spec k (c_id r)); [congruence | reflexivity].
Qed.

(* ---------------------------------------------------------------- CUpdateColumns *)
Lemma patch_id : forall u r, c_id (patch_crec u r) = c_id r.
Proof. reflexivity. Qed.

Lemma core_patch : forall u r, u_parent u = None -> core (vpatch u r) = core (patch_crec u r).
Proof. intros u r H. unfold core, vpatch, patch_crec. cbn. rewrite H. reflexivity. Qed.

Lemma upd_pre_split : forall upds s, cop_pre (CUpdateColumns upds) s = true ->
  (forall k u, In (k, u) upds -> u_parent u = None) /\
  (forall r, In r (m_cols (st_meta s)) ->
     let x := rev_after upds r in
     (x = 0 \/ exists rx, find_col x (m_cols (st_meta s)) = Some rx) /\
     (renamed_in (m_cols (st_meta s)) upds x = false \/
      exists u, assoc (c_id r) upds = Some u /\ exists y, u_rev u = Some y)).
Proof.
  intros upds s H. cbn [cop_pre] in H. apply andb_true_iff in H. destruct H as [H1 H2]. split.
  - intros k u Hin. apply (proj1 (forallb_forall _ _) H1) in Hin. cbn in Hin. destruct (u_parent u); [discriminate | reflexivity].
  - intros r Hr x. apply (proj1 (forallb_forall _ _) H2) in Hr. fold x in Hr. apply andb_true_iff in Hr. destruct Hr as [Ha Hb]. split.
    + apply orb_true_iff in Ha. destruct Ha as [Ha|Ha]; [left; apply Z.eqb_eq; exact Ha|]. right.
      destruct (find_col x (m_cols (st_meta s))) as [rx|]; [exists rx; reflexivity | discriminate].
    + apply orb_true_iff in Hb. destruct Hb as [Hb|Hb]; [left; apply negb_true_iff; exact Hb|]. right.
      destruct (assoc (c_id r) upds) as [u|]; [|discriminate]. exists u. split; [reflexivity|].
      destruct (u_rev u) as [y|]; [exists y; reflexivity | discriminate].
Qed.

Lemma colId_after : forall cs upds x rx, find_col x cs = Some rx ->
  c_colId (rowfun patch_crec upds rx) =
  match assoc x upds with
  | Some ux => match u_colId ux with Some n => n | None => c_colId rx end
  | None => c_colId rx
  end.
Proof.
  intros cs upds x rx H. apply find_col_in in H. destruct H as [_ Hid]. unfold rowfun. rewrite Hid.
  destruct (assoc x upds); reflexivity.
Qed.

Lemma coupled_update_columns : forall base upds s s' log,
  InvD base s -> cop_pre (CUpdateColumns upds) s = true -> coupled (CUpdateColumns upds) s = Ok (s', log) -> InvD base s'.
Proof.
  intros base upds s s' log [Hwt Hwc Hnd Hns Hall Hbd Hs] Hpre H.
  destruct (upd_pre_split upds s Hpre) as [Hnopar Hrev].
  set (cs := m_cols (st_meta s)) in *. set (ts := m_tables (st_meta s)) in *.
  unfold coupled in H. destruct (nodup_keys upds) eqn:Hnk; [|discriminate]. cbn [negb] in H.
  rewrite (meta_eta (st_meta s)) in H. fold cs ts in H.
  destruct (upd_loop {| m_tables := ts; m_cols := cs |} upds upds (st_schema s) []) as [[sch' lg]|] eqn:El; [|discriminate].
  cbn [apply_m m_cols m_tables] in H.
  destruct (forallb (fun ku => match find_col (fst ku) cs with Some _ => true | None => false end) upds) eqn:Hex; [|discriminate].
  inversion H; subst s'; clear H.
  destruct (upd_loop_sync base ts cs upds (rho_of cs) Hwt Hwc upds [] (st_schema s) [] sch' lg) as [Hwcv Hsv]; try assumption.
  - rewrite rowfun_nil. exact Hwc.
  - rewrite rowfun_nil. apply (sync_rho_ext _ _ _ _ _ _ Hs). intros r _. reflexivity.
  - cbn [app] in Hwcv, Hsv.
    set (P := rowfun patch_crec upds).
    assert (Hcs' : upd_cols upds cs = map P cs) by (rewrite upd_cols_rowmap; apply rowmap_assoc; [exact Hnk | intros; reflexivity]).
    assert (Hcore : map core (map (rowfun vpatch upds) cs) = map core (map P cs)).
    { rewrite !map_map. apply map_ext. intro r. unfold P, rowfun. destruct (assoc (c_id r) upds) as [u|] eqn:Ea; [|reflexivity].
      apply core_patch. apply (Hnopar (c_id r) u). apply assoc_in. exact Ea. }
    assert (Hwc' : wf_c (map P cs)) by (apply (wf_c_core_ext _ _ Hcore Hwcv)).
    assert (Hfind : forall j, find_col j (map P cs) = option_map P (find_col j cs)).
    { intro j. apply find_col_map. intro r. unfold P, rowfun. destruct (assoc (c_id r) upds); reflexivity. }
    assert (HrevP : forall r, c_rev (P r) = rev_after upds r).
    { intro r. unfold P, rowfun, rev_after. destruct (assoc (c_id r) upds) as [u|]; [|reflexivity]. reflexivity. }
    constructor; cbn [st_meta st_schema m_tables m_cols]; rewrite ?Hcs'; try assumption.
    + (* reverse pointers still resolve *)
      intros r' Hr'. apply in_map_iff in Hr'. destruct Hr' as [r [<- Hr]]. rewrite HrevP.
      destruct (Hrev r Hr) as [[H0|[rx Hrx]] _]; [left; exact H0|]. right. exists (P rx). split.
      * apply in_map. apply find_col_in in Hrx. tauto.
      * apply find_col_in in Hrx. destruct Hrx as [_ Hid]. unfold P, rowfun. destruct (assoc (c_id rx) upds); exact Hid.
    + intros c' Hc'. apply in_map_iff in Hc'. destruct Hc' as [c [<- Hc]]. destruct (Hns c Hc) as [t [Ht Hid]].
      exists t. split; [exact Ht|]. rewrite Hid. unfold P, rowfun. destruct (assoc (c_id c) upds) as [u|] eqn:Ea; [|reflexivity].
      cbn. rewrite (Hnopar (c_id c) u (assoc_in _ _ _ Ea)). reflexivity.
    + intros t Ht. destruct (Hall t Ht) as [c [Hc1 Hc2]]. exists (P c). split; [apply in_map; exact Hc1|].
      rewrite <- Hc2. unfold P, rowfun. destruct (assoc (c_id c) upds) as [u|] eqn:Ea; [|reflexivity].
      cbn. rewrite (Hnopar (c_id c) u (assoc_in _ _ _ Ea)). reflexivity.
    + apply (sync_rho_ext _ _ _ _ (rho_upd cs upds upds (rho_of cs))); [apply (sync_core_ext _ _ _ _ _ _ Hcore Hsv)|].
      intros r' Hr'. apply in_map_iff in Hr'. destruct Hr' as [r [<- Hr]].
      assert (HidP : c_id (P r) = c_id r) by (unfold P, rowfun; destruct (assoc (c_id r) upds); reflexivity).
      rewrite HidP. unfold rho_of at 1. rewrite Hfind, (find_col_some (c_id r) cs r (wc_ids _ Hwc) Hr eq_refl). cbn [option_map].
      rewrite HrevP, Hfind. destruct (Hrev r Hr) as [Hres Hren]. cbn zeta in Hres, Hren.
      (* the same name on both sides *)
      assert (Hkeep :
                forall x, renamed_in cs upds x = false ->
                          option_map c_colId (option_map P (find_col x cs)) = option_map c_colId (find_col x cs)).
      { intros x Hnr. destruct (find_col x cs) as [rx|] eqn:Ex; [|reflexivity]. cbn. f_equal.
        unfold P. rewrite (colId_after cs upds x rx Ex). unfold renamed_in in Hnr. rewrite Ex in Hnr.
        destruct (assoc x upds) as [ux|]; [|reflexivity]. destruct (u_colId ux) as [n|]; [|reflexivity].
        apply negb_false_iff in Hnr. apply str_eqb_eq in Hnr. exact Hnr. }
      unfold rho_upd. unfold rev_after in *. destruct (assoc (c_id r) upds) as [u|] eqn:Ea.
      * unfold rev_patch. destruct (u_rev u) as [y|] eqn:Ey.
        -- destruct (Z.eqb_spec y 0) as [Hy0|Hy0].
           ++ subst y. rewrite (find_col_zero _ Hwc). reflexivity.
           ++ destruct Hres as [H0|[rx Hrx]]; [contradiction|]. unfold new_colId_of. rewrite Hrx. cbn.
              f_equal. apply (colId_after cs upds y rx Hrx).
        -- destruct Hren as [Hnr|[u' [Hu' [y Hy]]]]; [|congruence].
           rewrite (Hkeep _ Hnr). unfold rho_of. rewrite (find_col_some (c_id r) cs r (wc_ids _ Hwc) Hr eq_refl). reflexivity.
      * destruct Hren as [Hnr|[u' [Hu' _]]]; [|discriminate].
        rewrite (Hkeep _ Hnr). unfold rho_of. rewrite (find_col_some (c_id r) cs r (wc_ids _ Hwc) Hr eq_refl). reflexivity.
Qed.
