(* C08, part 4d: column record updates (_updateColumnRecords): ModifyColumn / RenameColumn derived from the update. *)
From Coq Require Import ZArith List Bool Lia Permutation.
Import ListNotations.
Require Import Grist.Model.SchemaSync Grist.Proofs.SchemaSync_build Grist.Proofs.SchemaSync_spec
               Grist.Proofs.SchemaSync_steps Grist.Proofs.SchemaSync_aux Grist.Proofs.SchemaSync_proofs.
Open Scope Z_scope.

(* the part of an update that the schema sees: type / isFormula / formula, then the colId *)
Definition vmod (u : cpatch) (r : crec) : crec :=
  {| c_id := c_id r; c_parent := c_parent r; c_pos := c_pos r; c_colId := c_colId r;
     c_type := match u_type u with Some x => x | None => c_type r end;
     c_isf := match u_isf u with Some x => x | None => c_isf r end;
     c_formula := match u_formula u with Some x => x | None => c_formula r end;
     c_rev := c_rev r |}.
Definition vpatch (u : cpatch) (r : crec) : crec :=
  {| c_id := c_id r; c_parent := c_parent r; c_pos := c_pos r;
     c_colId := match u_colId u with Some x => x | None => c_colId r end;
     c_type := match u_type u with Some x => x | None => c_type r end;
     c_isf := match u_isf u with Some x => x | None => c_isf r end;
     c_formula := match u_formula u with Some x => x | None => c_formula r end;
     c_rev := c_rev r |}.

Lemma repl_repl : forall k a b cs, c_id b = k -> repl k a (repl k b cs) = repl k a cs.
Proof.
  intros k a b cs Hb. unfold repl. rewrite map_map. apply map_ext. intro r.
  destruct (Z.eqb_spec (c_id r) k) as [E|E].
  - rewrite Hb, Z.eqb_refl. reflexivity.
  - destruct (Z.eqb_spec (c_id r) k); [contradiction | reflexivity].
Qed.

Lemma repl_same : forall k cs r, NoDup (map c_id cs) -> In r cs -> c_id r = k -> repl k r cs = cs.
Proof.
  intros k cs r Hnd Hin Hk. unfold repl. rewrite <- (map_id cs) at 2. apply map_ext_in. intros x Hx.
  destruct (Z.eqb_spec (c_id x) k) as [E|E]; [|reflexivity].
  apply (nodup_ids_unique cs); try assumption. congruence.
Qed.

(* ModifyColumn through doModifyColumn, or nothing when the update has no schema property *)
Lemma modify_or_skip : forall tid c p sch sch1 l1 cols old,
  (if patch_empty p then Ok (sch, []) else do_modify tid c p sch) = Ok (sch1, l1) ->
  od_get tid sch = Some cols -> od_get c cols = Some old ->
  exists cols', sch_upd sch sch1 tid (Some cols') /\
    forall c', od_get c' cols' = if str_eqb c c' then Some (patch_info p old) else od_get c' cols.
Proof.
  intros tid c p sch sch1 l1 cols old H Et Ec. destruct (patch_empty p) eqn:Ee.
  - inversion H; subst. exists cols. split.
    + intro tid'. destruct (str_eqb tid tid') eqn:E; [apply str_eqb_eq in E; subst; exact Et | reflexivity].
    + intro c'. destruct (str_eqb c c') eqn:E; [|reflexivity]. apply str_eqb_eq in E. subst c'.
      rewrite (patch_empty_id _ _ Ee). exact Ec.
  - destruct (do_modify_effect _ _ _ _ _ _ H) as [cols0 [old0 [cols' [H1 [H2 [H3 H4]]]]]].
    rewrite Et in H1. inversion H1; subst cols0. rewrite Ec in H2. inversion H2; subst old0.
    exists cols'. tauto.
Qed.

Definition rho_set (rho : Z -> option str) (k : Z) (prev : option (option str)) : Z -> option str :=
  fun j => if j =? k then match prev with Some x => x | None => rho k end else rho j.

Definition rename_step (tid c0 : str) (n : option str) (sch1 : schema) : res (schema * list sev) :=
  match n with
  | None => Ok (sch1, [])
  | Some n => if str_eqb n c0 then Ok (sch1, [])
              else match apply_s (SRenameColumn tid c0 n) sch1 with
                   | Ok s2 => Ok (s2, [SRenameColumn tid c0 n])
                   | Err e => Err e
                   end
  end.

(* one entry of the loop *)
Lemma upd_entry : forall base ts cur rho t r0 u prev sch sch1 sch2 l1 l2,
  wf_t ts -> wf_c cur -> Sync base sch ts cur rho ->
  In t ts -> In r0 cur -> c_parent r0 = t_id t ->
  (if patch_empty (schema_patch_of u prev) then Ok (sch, [])
   else do_modify (t_tableId t) (c_colId r0) (schema_patch_of u prev) sch) = Ok (sch1, l1) ->
  rename_step (t_tableId t) (c_colId r0) (u_colId u) sch1 = Ok (sch2, l2) ->
  wf_c (repl (c_id r0) (vpatch u r0) cur) /\
  Sync base sch2 ts (repl (c_id r0) (vpatch u r0) cur) (rho_set rho (c_id r0) prev).
Proof.
  intros base ts cur rho t r0 u prev sch sch1 sch2 l1 l2 Hwt Hwc Hs Ht Hr0 Hp Hmod Hren.
  set (k := c_id r0) in *. set (rho' := rho_set rho k prev).
  destruct (sync_table_entry base sch ts cur rho t Hwt Hs Ht) as [cols [Et Hentry]].
  pose proof (sync_col_entry base sch ts cur rho t r0 cols Hwt Hwc Hs Ht Hr0 Hp Et) as Ec.
  destruct (modify_or_skip _ _ _ _ _ _ cols _ Hmod Et Ec) as [cols1 [Hupd1 Hcols1]].
  (* step A: the attributes *)
  assert (Hrho : forall j, j <> k -> rho' j = rho j).
  { intros j Hj. unfold rho', rho_set. destruct (Z.eqb_spec j k); [contradiction | reflexivity]. }
  assert (Hinfo : info_rho rho' (vmod u r0) = patch_info (schema_patch_of u prev) (info_rho rho r0)).
  { unfold info_rho, patch_info, schema_patch_of, vmod, rho', rho_set. cbn. fold k. rewrite Z.eqb_refl. reflexivity. }
  destruct (sync_replace_col base sch sch1 ts cur rho rho' t r0 (vmod u r0) cols cols1) as [Hwc1 Hs1]; try assumption;
    try reflexivity.
  - left. reflexivity.
  - intro c. rewrite Hcols1. cbn [vmod c_colId]. rewrite Hinfo.
    destruct (str_eqb (c_colId r0) c); reflexivity.
  - fold k in Hwc1, Hs1. set (cur1 := repl k (vmod u r0) cur) in *.
    assert (Hin1 : In (vmod u r0) cur1) by (apply (repl_in_new k _ cur r0 Hr0 eq_refl)).
    (* step B: the name *)
    unfold rename_step in Hren.
    assert (Hnoren : sch2 = sch1 -> vpatch u r0 = vmod u r0 ->
                     wf_c (repl k (vpatch u r0) cur) /\ Sync base sch2 ts (repl k (vpatch u r0) cur) rho').
    { intros -> ->. tauto. }
    destruct (u_colId u) as [n|] eqn:En.
    + destruct (str_eqb n (c_colId r0)) eqn:Esame.
      * inversion Hren; subst sch2. apply Hnoren; [reflexivity|]. apply str_eqb_eq in Esame.
        unfold vpatch, vmod. rewrite En, Esame. reflexivity.
      * destruct (apply_s (SRenameColumn (t_tableId t) (c_colId r0) n) sch1) as [s2|] eqn:Ea; [|discriminate].
        inversion Hren; subst s2. clear Hren Hnoren.
        cbn in Ea. destruct (od_get (t_tableId t) sch1) as [cols1'|] eqn:Et1; [|discriminate].
        destruct (od_get (c_colId r0) cols1') as [i|] eqn:Ec1; [|discriminate].
        destruct (od_get n cols1') eqn:En1; [discriminate|]. inversion Ea; subst sch2; clear Ea.
        pose proof (sync_col_entry base sch1 ts cur1 rho' t (vmod u r0) cols1' Hwt Hwc1 Hs1 Ht Hin1 Hp Et1) as Ei.
        cbn [vmod c_colId] in Ei. rewrite Ec1 in Ei. inversion Ei; subst i; clear Ei.
        destruct (sync_replace_col base sch1 (od_set (t_tableId t) (od_set n (info_rho rho' (vmod u r0)) (od_del (c_colId r0) cols1')) sch1)
                    ts cur1 rho' rho' t (vmod u r0) (vpatch u r0) cols1'
                    (od_set n (info_rho rho' (vmod u r0)) (od_del (c_colId r0) cols1'))) as [Hwc2 Hs2];
          try assumption; try reflexivity.
        -- right. cbn [vpatch c_colId]. rewrite En. exact En1.
        -- intro c. cbn [vpatch vmod c_colId]. rewrite En. rewrite od_get_set, od_get_del.
           assert (Hi : info_rho rho' (vpatch u r0) = info_rho rho' (vmod u r0)) by reflexivity.
           rewrite Hi. reflexivity.
        -- apply sch_upd_set.
        -- cbn [vmod c_id] in Hwc2, Hs2. fold k in Hwc2, Hs2. unfold cur1 in Hwc2, Hs2.
           rewrite repl_repl in Hwc2, Hs2 by reflexivity. tauto.
    + inversion Hren; subst sch2. apply Hnoren; [reflexivity|]. unfold vpatch, vmod. rewrite En. reflexivity.
Qed.
