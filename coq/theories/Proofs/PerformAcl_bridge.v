(* Bridge between acl.perform_acl_rule_renames as GENERATED from the source (GristGen.PerformAcl_gen, regenerated on
   every run by harness/pr2v.py) and the hand-written perform_acl_model of Model/PredicateRename.v: the generated
   three loops are the model's flat_maps, with the user-attribute dict of pass 1 COMPLETE before any formula is
   rewritten in pass 2. *)
From Coq Require Import ZArith List Bool String.
Import ListNotations.
Require Import Grist.Model.Predicate Grist.Model.PredicateRename GristGen.PerformAcl_gen.
Open Scope Z_scope.
Open Scope list_scope.

Lemma fold_left_ext {A B} (f g : A -> B -> A) l a : (forall acc x, f acc x = g acc x) -> fold_left f l a = fold_left g l a.
Proof. intros H. revert a. induction l as [|x t IH]; intros a; cbn; [reflexivity|]. rewrite H. apply IH. Qed.

Lemma fold_left_app_flat_map {A B} (g : B -> list A) l a :
  fold_left (fun acc x => acc ++ g x) l a = a ++ flat_map g l.
Proof.
  revert a. induction l as [|x t IH]; intros a; cbn; [rewrite app_nil_r; reflexivity|].
  rewrite IH, app_assoc. reflexivity.
Qed.

Lemma fold_left_pair {A B C} (D : A -> C -> A) (G : C -> list B) l d0 u0 :
  fold_left (fun acc x => let '(d, u) := acc in (D d x, u ++ G x)) l (d0, u0)
  = (fold_left D l d0, u0 ++ flat_map G l).
Proof.
  revert d0 u0. induction l as [|x t IH]; intros d0 u0; cbn; [rewrite app_nil_r; reflexivity|].
  rewrite IH, app_assoc. reflexivity.
Qed.

Theorem gen_perform_acl_bridge P rs resources rules :
  gen_perform_acl P rs resources rules = perform_acl_model P rs resources rules.
Proof.
  unfold gen_perform_acl, perform_acl_model. cbv zeta.
  (* pass 1: the dict and the userAttributes updates *)
  rewrite (fold_left_ext _
    (fun acc x => let '(d, u) := acc in
       ((if str_truthy (rule_userAttributes x) then
           match json_loads P (rule_userAttributes x) with
           | Some i => odict_set d (info_get P i "name") (info_get P i "tableId")
           | None => d
           end
         else d), u ++ acl_lookup_update P rs x))).
  2: { intros [d u] x. unfold acl_lookup_update, rename_lookup, renames_get_oo, opt_get, str_truthy.
       destruct (negb (is_empty (rule_userAttributes x))); [|rewrite app_nil_r; reflexivity].
       destruct (json_loads P (rule_userAttributes x)) as [i|]; [|rewrite app_nil_r; reflexivity].
       destruct (info_get P i "tableId") as [t|]; destruct (info_get P i "lookupColId") as [c|];
         try (rewrite app_nil_r; reflexivity).
       destruct (renames_get rs t c) as [n|]; [|rewrite app_nil_r; reflexivity].
       destruct (is_empty n); cbn [negb]; [rewrite app_nil_r; reflexivity | reflexivity]. }
  rewrite fold_left_pair. cbv beta iota. fold (acl_attr_tables P rules).
  f_equal.
  - (* the resources *)
    rewrite (fold_left_ext _ (fun acc x => acc ++ acl_resource_update rs x)).
    + rewrite fold_left_app_flat_map. reflexivity.
    + intros acc x. unfold acl_resource_update, rename_colids, str_truthy.
      destruct (is_empty (res_colIds x)); cbn [negb andb orb]; [rewrite app_nil_r; reflexivity|].
      destruct (str_eqb (res_colIds x) (lit "*")); cbn [negb]; [rewrite app_nil_r; reflexivity|].
      change (map (fun c : str => ostr_or (renames_get rs (res_tableId x) c) c) (split_comma (res_colIds x)))
        with (map (rename_col rs (res_tableId x)) (split_comma (res_colIds x))).
      destruct (str_eqb (join_comma (map (rename_col rs (res_tableId x)) (split_comma (res_colIds x)))) (res_colIds x));
        cbn [negb]; [rewrite app_nil_r; reflexivity | reflexivity].
  - (* pass 2: the formulas, with the complete dict *)
    rewrite (fold_left_ext _ (fun acc x => acc ++ acl_formula_update P rs (acl_attr_tables P rules) x)).
    + rewrite fold_left_app_flat_map. reflexivity.
    + intros acc x. unfold acl_formula_update. destruct (str_truthy (rule_aclFormula x)); cbn [negb];
        [|rewrite app_nil_r; reflexivity].
      change (fun subject : gsubject =>
                if str_eqb (s_type subject) (lit "recCol")
                then renames_get rs (resource_tableId P (rule_resource x)) (s_name subject)
                else if str_eqb (s_type subject) (lit "userAttrCol")
                     then renames_get_oo rs (odict_get (acl_attr_tables P rules) (s_extra subject)) (Some (s_name subject))
                     else None)
        with (acl_subject_renamer rs (resource_tableId P (rule_resource x)) (acl_attr_tables P rules)).
      cbv zeta.
      destruct (str_eqb (process_renames_acl P (rule_aclFormula x)
                  (acl_subject_renamer rs (resource_tableId P (rule_resource x)) (acl_attr_tables P rules)))
                  (rule_aclFormula x)); cbn [negb]; [rewrite app_nil_r; reflexivity | reflexivity].
Qed.
