(* Pending calc deltas are rolled back by flush + revert also in bundles that ADD records (new-row filter of
   _changes_to_actions) -- C04. *)
From stdpp Require Import gmap sorting.
Require Import Grist.Model.Rollback Grist.Proofs.Rollback_proofs Grist.Proofs.Rollback_actions Grist.Proofs.Rollback_undo
  Grist.Proofs.Rollback_run Grist.Proofs.Rollback_inside Grist.Proofs.Rollback_flush Grist.Proofs.Rollback_calc
  Grist.Proofs.Rollback_calc_multi.
Open Scope Z_scope.

(* ---------------------------------------------------------------------------------------------------------- *)
(* summaries that saw add_changes and add_records only *)
Definition td_shape (td : table_delta) : Prop :=
  td_renames td = [] /\ Forall (fun cm => cm.1.1 = false) (td_deltas td) /\ NoDup (td_deltas td).*1 /\
  (forall r, td_after td !! r ≠ Some false) /\ (forall r, td_before td !! r ≠ Some true).
Definition sm_shape (sm : summary) : Prop :=
  sm_renames sm = [] /\ Forall (fun ttd => ttd.1.1 = false /\ td_shape ttd.2) (sm_tables sm) /\ NoDup (sm_tables sm).*1.

Definition sm_before (sm : summary) (t : name) : gmap rowid bool := td_before (for_table (false, t) sm).

Lemma td_empty_shape : td_shape td_empty.
Proof.
  split; [reflexivity|]. split; [constructor|]. split; [apply NoDup_nil_2|].
  split; intros r; simpl; rewrite lookup_empty; discriminate.
Qed.

Lemma for_table_shape t sm : sm_shape sm -> td_shape (for_table t sm).
Proof.
  intros (_ & Hf & _). unfold for_table. destruct (assoc_get t (sm_tables sm)) as [td|] eqn:E; simpl; [|apply td_empty_shape].
  apply assoc_get_Some_in in E. exact (proj2 (proj1 (Forall_forall _ _) Hf _ E)).
Qed.

Lemma sm_empty_shape : sm_shape sm_empty.
Proof. repeat split; [constructor|apply NoDup_nil_2]. Qed.

Lemma sm_step_add_changes_shape sm t c ch :
  sm_shape sm ->
  sm_shape (sm_step sm (SAddChanges t c ch)) /\
  (forall t' c', sm_get (sm_step sm (SAddChanges t c ch)) t' c'
                = if decide (t' = t /\ c' = c) then Some (merge_changes (default ∅ (sm_get sm t c)) ch)
                  else sm_get sm t' c') /\
  (forall t', sm_before (sm_step sm (SAddChanges t c ch)) t' = sm_before sm t').
Proof.
  intros Hp. pose proof (for_table_shape (false, t) sm Hp) as (Hr & Hfc & Hnc & Haf & Hbf).
  destruct Hp as (Hrn & Hft & Hnt). simpl. rewrite put_table_assoc, td_add_changes_assoc. split; [|split].
  - split; [exact Hrn|]. simpl. split; [|apply assoc_put_nodup; exact Hnt].
    apply assoc_put_Forall; [exact Hft|]. simpl. split; [reflexivity|].
    unfold td_shape. simpl. split; [exact Hr|]. split; [apply assoc_put_Forall; [exact Hfc|reflexivity]|].
    split; [apply assoc_put_nodup; exact Hnc|]. split; assumption.
  - intros t' c'. unfold sm_get, for_table at 1. simpl. rewrite assoc_get_put.
    destruct (decide (t' = t)) as [->|Hne].
    + rewrite decide_True by reflexivity. simpl. rewrite assoc_get_put. destruct (decide (c' = c)) as [->|Hnc'].
      * rewrite !decide_True by auto. reflexivity.
      * rewrite decide_False by congruence. rewrite decide_False by (intros [_ ?]; contradiction). reflexivity.
    + rewrite decide_False by congruence. rewrite decide_False by (intros [? _]; contradiction). reflexivity.
  - intros t'. unfold sm_before, for_table at 1. simpl. rewrite assoc_get_put.
    destruct (decide (t' = t)) as [->|Hne]; [rewrite decide_True by reflexivity; reflexivity|].
    rewrite decide_False by congruence. reflexivity.
Qed.

(* before.setdefault(r, False) for every added row *)
Definition mark_new (m : gmap rowid bool) (rows : list rowid) : gmap rowid bool :=
  foldl (fun m r => match m !! r with Some _ => m | None => <[r := false]> m end) m rows.
Definition mark_after (m : gmap rowid bool) (rows : list rowid) : gmap rowid bool :=
  foldl (fun m r => <[r := true]> m) m rows.

Lemma mark_new_lookup rows : forall m r,
  mark_new m rows !! r = match m !! r with Some b => Some b | None => if decide (r ∈ rows) then Some false else None end.
Proof.
  induction rows as [|r0 rows IH]; intros m r; simpl.
  - destruct (m !! r); [reflexivity|]. try rewrite decide_False by apply not_elem_of_nil. reflexivity.
  - unfold mark_new in *. simpl. rewrite IH. destruct (m !! r0) as [b0|] eqn:E0.
    + destruct (m !! r) eqn:E; [reflexivity|]. destruct (decide (r ∈ rows)) as [Hin|Hnin].
      * rewrite decide_True by (right; exact Hin). reflexivity.
      * rewrite decide_False; [reflexivity|]. intros Hx. apply elem_of_cons in Hx as [->|?]; [congruence|contradiction].
    + destruct (decide (r = r0)) as [->|Hne].
      * rewrite lookup_insert, E0. rewrite decide_True by left. reflexivity.
      * rewrite lookup_insert_ne by auto. destruct (m !! r); [reflexivity|].
        destruct (decide (r ∈ rows)) as [Hin|Hnin].
        -- rewrite decide_True by (right; exact Hin). reflexivity.
        -- rewrite decide_False; [reflexivity|]. intros Hx. apply elem_of_cons in Hx as [?|?]; contradiction.
Qed.

Lemma mark_after_lookup rows : forall m r, mark_after m rows !! r ≠ Some false -> True.
Proof. auto. Qed.

Lemma mark_after_ok rows : forall m, (forall r, m !! r ≠ Some false) -> forall r, mark_after m rows !! r ≠ Some false.
Proof.
  induction rows as [|r0 rows IH]; intros m Hm r; [apply Hm|]. unfold mark_after in *. simpl. apply IH.
  intros r'. destruct (decide (r' = r0)) as [->|]; [rewrite lookup_insert; discriminate|rewrite lookup_insert_ne by auto; apply Hm].
Qed.

Lemma sm_step_add_records_shape sm t rows :
  sm_shape sm ->
  sm_shape (sm_step sm (SAddRecords t rows)) /\
  (forall t' c', sm_get (sm_step sm (SAddRecords t rows)) t' c' = sm_get sm t' c') /\
  (forall t', sm_before (sm_step sm (SAddRecords t rows)) t'
              = if decide (t' = t) then mark_new (sm_before sm t) rows else sm_before sm t').
Proof.
  intros Hp. pose proof (for_table_shape (false, t) sm Hp) as (Hr & Hfc & Hnc & Haf & Hbf).
  destruct Hp as (Hrn & Hft & Hnt). simpl. rewrite put_table_assoc. split; [|split].
  - split; [exact Hrn|]. simpl. split; [|apply assoc_put_nodup; exact Hnt].
    apply assoc_put_Forall; [exact Hft|]. simpl. split; [reflexivity|].
    unfold td_shape. simpl. split; [exact Hr|]. split; [exact Hfc|]. split; [exact Hnc|]. split.
    + apply (mark_after_ok rows). exact Haf.
    + intros r. fold (mark_new (td_before (for_table (false, t) sm)) rows). rewrite mark_new_lookup.
      destruct (td_before (for_table (false, t) sm) !! r) eqn:E; [rewrite <- E; apply Hbf|]. destruct (decide (r ∈ rows)); discriminate.
  - intros t' c'. unfold sm_get, for_table at 1. simpl. rewrite assoc_get_put.
    destruct (decide (t' = t)) as [->|Hne]; [rewrite decide_True by reflexivity; reflexivity|].
    rewrite decide_False by congruence. reflexivity.
  - intros t'. unfold sm_before, for_table at 1. simpl. rewrite assoc_get_put.
    destruct (decide (t' = t)) as [->|Hne]; [rewrite decide_True by reflexivity; reflexivity|].
    rewrite decide_False by congruence. reflexivity.
Qed.

(* ---------------------------------------------------------------------------------------------------------- *)
(* the flush of such a summary: per column one appended BulkUpdateRecord over the changed rows that are not new *)
Definition old_changed (bf : gmap rowid bool) (m : gmap rowid (val * val)) : list rowid :=
  filter (fun r => bf !! r ≠ Some false) (changed_rows m).

Definition back1r (bf : gmap rowid bool) (t c : name) (m : gmap rowid (val * val)) : list action :=
  match old_changed bf m with
  | [] => []
  | _ => [BulkUpdateRecord t (old_changed bf m) [(c, map (fun r => from_option fst 0 (m !! r)) (old_changed bf m))]]
  end.

Lemma changes_to_undo_shape sm t td c m :
  sm_shape sm -> ((false, t), td) ∈ sm_tables sm -> td_shape td ->
  changes_to_undo sm (false, t) td (false, c) m = ([], back1r (td_before td) t c m).
Proof.
  intros (Hrn & Hft & Hnt) Hin (Hr & _ & _ & Haf & _). unfold changes_to_undo. simpl.
  rewrite (assoc_get_in_nodup _ _ _ Hnt Hin). simpl. rewrite Hrn, Hr. simpl. fold (changed_rows m). fold (old_changed (td_before td) m).
  rewrite (filter_all (fun r => td_after td !! r ≠ Some false)) by (apply Forall_forall; intros r _; apply Haf).
  rewrite (filter_nothing (fun r => r ∉ old_changed (td_before td) m)) by (intros x Hx Hn; exact (Hn Hx)).
  unfold back1r, old_changed. reflexivity.
Qed.

Definition backsr (sm : summary) : list action :=
  flat_map (fun ttd => flat_map (fun cm => back1r (td_before ttd.2) (root ttd.1) (root cm.1) cm.2) (td_deltas ttd.2)) (sm_tables sm).

Lemma flush_shape sm : sm_shape sm -> flush_undo_of sm = ([], backsr sm).
Proof.
  intros Hp. unfold flush_undo_of, backsr.
  assert (Hgen : forall l acc, (forall ttd, ttd ∈ l -> ttd ∈ sm_tables sm) -> acc.1 = [] ->
    foldl (fun acc ttd =>
             foldl (fun acc cm => let fb := changes_to_undo sm ttd.1 ttd.2 cm.1 cm.2 in (fb.1 ++ acc.1, acc.2 ++ fb.2))
                   acc (td_deltas ttd.2)) acc l
    = ([], acc.2 ++ flat_map (fun ttd => flat_map (fun cm => back1r (td_before ttd.2) (root ttd.1) (root cm.1) cm.2) (td_deltas ttd.2)) l)).
  { induction l as [|[[bt t] td] l IH]; intros acc Hl Hacc.
    - simpl. rewrite app_nil_r. destruct acc; simpl in *; subst; reflexivity.
    - simpl. assert (Hin : ((bt, t), td) ∈ sm_tables sm) by (apply Hl; left).
      destruct Hp as (Hrn & Hft & Hnt). destruct (proj1 (Forall_forall _ _) Hft _ Hin) as [Hbt Htd]. simpl in Hbt. subst bt.
      assert (Hinner : forall dl acc0, (forall cm, cm ∈ dl -> cm ∈ td_deltas td) -> acc0.1 = [] ->
        foldl (fun acc cm => let fb := changes_to_undo sm (false, t) td cm.1 cm.2 in (fb.1 ++ acc.1, acc.2 ++ fb.2)) acc0 dl
        = ([], acc0.2 ++ flat_map (fun cm => back1r (td_before td) t (root cm.1) cm.2) dl)).
      { induction dl as [|[[bc c] m] dl IHd]; intros acc0 Hdl Hacc0.
        - simpl. rewrite app_nil_r. destruct acc0; simpl in *; subst; reflexivity.
        - simpl. assert (Hcin : ((bc, c), m) ∈ td_deltas td) by (apply Hdl; left).
          pose proof Htd as (_ & Hfc & _). pose proof (proj1 (Forall_forall _ _) Hfc _ Hcin) as Hbc. simpl in Hbc. subst bc.
          rewrite (changes_to_undo_shape sm t td c m); [|repeat split; assumption|exact Hin|exact Htd].
          simpl. rewrite IHd; [|intros cm Hcm; apply Hdl; right; exact Hcm|simpl; exact Hacc0]. simpl. rewrite <- app_assoc. reflexivity. }
      rewrite Hinner; [|auto|exact Hacc]. rewrite IH; [|intros x Hx; apply Hl; right; exact Hx|reflexivity].
      simpl. rewrite <- app_assoc. reflexivity. }
  rewrite Hgen; [reflexivity|auto|reflexivity].
Qed.

(* entries with the row marks of their table *)
Definition entriesr (sm : summary) : list (name * name * gmap rowid (val * val)) :=
  flat_map (fun ttd => map (fun cm => (root ttd.1, root cm.1, cm.2)) (td_deltas ttd.2)) (sm_tables sm).

Lemma entriesr_in sm t c m :
  (t, c, m) ∈ entriesr sm <-> exists bt bc td, ((bt, t), td) ∈ sm_tables sm /\ ((bc, c), m) ∈ td_deltas td.
Proof.
  unfold entriesr. rewrite elem_of_list_In, in_flat_map. split.
  - intros ([[bt t'] td] & Hin & Hm). apply in_map_iff in Hm as ([[bc c'] m'] & Heq & Hcm).
    simpl in Heq. injection Heq as <- <- <-. exists bt, bc, td. split; apply elem_of_list_In; assumption.
  - intros (bt & bc & td & H1 & H2). exists ((bt, t), td). split; [apply elem_of_list_In; exact H1|].
    apply in_map_iff. exists ((bc, c), m). split; [reflexivity|apply elem_of_list_In; exact H2].
Qed.

Lemma entriesr_get sm t c m : sm_shape sm -> (t, c, m) ∈ entriesr sm <-> sm_get sm t c = Some m.
Proof.
  intros (Hrn & Hft & Hnt). rewrite entriesr_in. unfold sm_get, for_table. split.
  - intros (bt & bc & td & H1 & H2). destruct (proj1 (Forall_forall _ _) Hft _ H1) as [Hbt (_ & Hfc & Hnc & _)].
    simpl in Hbt. subst bt. rewrite (assoc_get_in_nodup _ _ _ Hnt H1). simpl.
    pose proof (proj1 (Forall_forall _ _) Hfc _ H2) as Hbc. simpl in Hbc. subst bc. apply (assoc_get_in_nodup _ _ _ Hnc H2).
  - intros H. match type of H with context [default td_empty ?x] => destruct x as [td|] eqn:E end; simpl in H; [|discriminate H].
    exists false, false, td. split; apply assoc_get_Some_in; assumption.
Qed.

Lemma entriesr_nodup sm : sm_shape sm -> NoDup (entriesr sm).*1.
Proof.
  intros (_ & Hft & Hnt). unfold entriesr. induction (sm_tables sm) as [|[[bt t] td] l IH]; [apply NoDup_nil_2|].
  inversion Hft as [|? ? [Hbt (_ & Hfc & Hnc & _)] Hft']; subst. simpl in *. subst bt.
  apply NoDup_cons in Hnt as [Hnotin Hnt']. rewrite fmap_app. apply NoDup_app. split; [|split; [|apply IH; assumption]].
  - clear -Hfc Hnc. induction (td_deltas td) as [|[[bc c] m] dl IHd]; [apply NoDup_nil_2|]. simpl in *.
    inversion Hfc as [|? ? Hbc Hfc']; subst. simpl in Hbc. subst bc. apply NoDup_cons in Hnc as [Hn Hnc']. apply NoDup_cons. split; [|auto].
    intros Hx. apply Hn. apply elem_of_list_fmap in Hx as ([[t' c'] m'] & [= <- <-] & Hx).
    apply elem_of_list_fmap in Hx as ([[bc' c''] m''] & [= <- <-] & Hx). pose proof (proj1 (Forall_forall _ _) Hfc' _ Hx) as Hb. simpl in Hb. subst bc'.
    apply elem_of_list_fmap. exists (false, c, m'). auto.
  - intros [t' c'] H1 H2. apply elem_of_list_fmap in H1 as ([[t1 c1] m1] & [= <- <-] & H1).
    apply elem_of_list_fmap in H1 as ([[bc' c''] m''] & [= <- <- <-] & H1). simpl in *.
    apply elem_of_list_fmap in H2 as ([[t2 c2] m2] & [= -> ->] & H2). apply elem_of_list_In, in_flat_map in H2 as ([[bt2 t2'] td2] & Hin2 & H2).
    apply in_map_iff in H2 as ([[bc2 c2'] m2'] & [= <- <- <-] & _). simpl in *. apply elem_of_list_In in Hin2.
    destruct (proj1 (Forall_forall _ _) Hft' _ Hin2) as [Hb2 _]. simpl in Hb2. subst bt2.
    apply Hnotin. apply elem_of_list_fmap. exists (false, t2', td2). auto.
Qed.

(* the appended undo actions, entry by entry, each with the marks of its table *)
Lemma backsr_entries sm : sm_shape sm ->
  backsr sm = flat_map (fun e => back1r (sm_before sm e.1.1) e.1.1 e.1.2 e.2) (entriesr sm).
Proof.
  intros (Hrn & Hft & Hnt). unfold backsr, entriesr.
  assert (Hgen : forall l, (forall ttd, ttd ∈ l -> ttd ∈ sm_tables sm) ->
    flat_map (fun ttd => flat_map (fun cm => back1r (td_before ttd.2) (root ttd.1) (root cm.1) cm.2) (td_deltas ttd.2)) l
    = flat_map (fun e => back1r (sm_before sm e.1.1) e.1.1 e.1.2 e.2)
        (flat_map (fun ttd => map (fun cm => (root ttd.1, root cm.1, cm.2)) (td_deltas ttd.2)) l)).
  { induction l as [|[[bt t] td] l IH]; intros Hl; [reflexivity|]. simpl. rewrite flat_map_app, IH by (intros x Hx; apply Hl; right; exact Hx). f_equal.
    assert (Hin : ((bt, t), td) ∈ sm_tables sm) by (apply Hl; left).
    destruct (proj1 (Forall_forall _ _) Hft _ Hin) as [Hbt _]. simpl in Hbt. subst bt.
    assert (Hbf : sm_before sm t = td_before td) by (unfold sm_before, for_table; rewrite (assoc_get_in_nodup _ _ _ Hnt Hin); reflexivity).
    simpl. induction (td_deltas td) as [|cm dl IHd]; [reflexivity|]. simpl. rewrite IHd, Hbf. reflexivity. }
  apply Hgen. auto.
Qed.

(* ---------------------------------------------------------------------------------------------------------- *)
Section CalcWithAdds.
  Variable ord : name -> list name.
  Variable s : doc.
  Hypothesis Hwfs : wf s.
  Variable CC : list (name * name).

  Definition ev_okr (e : event) : Prop :=
    match e with
    | EDoc a => match normalize a with
                | BulkUpdateRecord t _ vals | BulkAddRecord t _ vals => forall c, c ∈ vals.*1 -> (t, c) ∉ CC
                | _ => False end
    | ECalc t c _ => (t, c) ∈ CC
    end.

  (* the undo actions such bundles append *)
  Definition undo_okr (a : action) : Prop :=
    match a with
    | BulkUpdateRecord t _ vals => forall c, c ∈ vals.*1 -> (t, c) ∉ CC
    | BulkRemoveRecord _ _ => True
    | _ => False
    end.

  Definition marks_ok (sm : summary) (d : doc) : Prop :=
    forall t rows, drows d t = Some rows ->
      exists rows0, drows s t = Some rows0 /\ rows0 ⊆ rows /\
        forall r, sm_before sm t !! r = Some false <-> (r ∈ rows /\ r ∉ rows0).

  Definition JR (st : mstate) (log : list sumcall) : Prop :=
    let d := ms_doc st in let sm := summary_of log in
    ms_saved st = None /\ wf d /\ wf (reset_sel s CC d) /\ replay ord (reset_sel s CC d) (rev (ms_undo st)) = Some s /\
    Forall undo_okr (ms_undo st) /\ sm_shape sm /\
    (forall t c m, sm_get sm t c = Some m -> (t, c) ∈ CC /\ entry_ok s d t c m) /\
    (forall t c col, (t, c) ∈ CC -> sm_get sm t c = None -> dcol d t c = Some col -> dcol s t c = Some col) /\
    marks_ok sm d.

  Lemma JR_update st log t rows vals st' :
    JR st log -> (forall c, c ∈ vals.*1 -> (t, c) ∉ CC) ->
    exec_all st (steps_of ord (ms_doc st) (BulkUpdateRecord t rows vals)) = Some st' ->
    JR st' log /\ sum_log (steps_of ord (ms_doc st) (BulkUpdateRecord t rows vals)) = [].
  Proof.
    intros (Hsv & Hw & Hwr & Hrep & Hun & Hpl & HK1 & HK2 & HK3) Hok Hex. set (d := ms_doc st) in *.
    destruct (d_tables d !! t) as [tb|] eqn:Ht.
    2: { exfalso. unfold steps_of in Hex. rewrite Ht in Hex. discriminate. }
    rewrite <- (mstate_eta st), Hsv in Hex. fold d in Hex.
    destruct (exec_update ord d t tb rows vals _ _ _ _ Ht Hex) as (Hr & Hk & ->).
    destruct (wf_schema_of_table _ _ _ Hw Ht) as (sc & Hs & Hwt).
    split.
    2: { unfold steps_of. rewrite Ht. rewrite bool_decide_eq_true_2 by exact Hr. unfold update_steps.
         rewrite (known_prefix_all _ _ Hk), bool_decide_eq_true_2 by reflexivity. simpl. apply sum_log_cells. }
    set (tbr := reset_tb s CC t tb).
    assert (Htr : d_tables (reset_sel s CC d) !! t = Some tbr) by (rewrite reset_tables_lookup, Ht; reflexivity).
    assert (Hrho' : reset_sel s CC (tset t (write_cols rows vals tb) d) = tset t (write_cols rows vals tbr) (reset_sel s CC d))
      by (rewrite reset_tset, (reset_write_cols s CC t rows vals tb Hok); reflexivity).
    assert (Hkr : Forall (known tbr) vals).
    { eapply Forall_impl; [exact Hk|]. intros cv [cl Hcl]. unfold known, tbr. rewrite reset_cols_lookup, Hcl. eexists. reflexivity. }
    destruct (undo_update ord (reset_sel s CC d) t tbr sc rows vals Hwr Htr Hs Hr Hkr) as [Hwr' Hu'].
    destruct (undo_update ord d t tb sc rows vals Hw Ht Hs Hr Hk) as [Hw' _].
    assert (Hcol : forall t' c', (t', c') ∈ CC -> dcol (tset t (write_cols rows vals tb) d) t' c' = dcol d t' c').
    { intros t' c' Hin. rewrite dcol_tset. destruct (decide (t' = t)) as [->|]; [|reflexivity].
      unfold dcol. rewrite Ht. simpl. rewrite write_cols_lookup. destruct (t_cols tb !! c') as [cl|]; simpl; [|reflexivity].
      rewrite col_writes_notin; [reflexivity|]. intros Hx. exact (Hok c' Hx Hin). }
    assert (Hrw : forall t', drows (tset t (write_cols rows vals tb) d) t' = drows d t').
    { intros t'. rewrite drows_tset. destruct (decide (t' = t)) as [->|]; [|reflexivity]. unfold drows. rewrite Ht, write_cols_rows. reflexivity. }
    split; [reflexivity|]. split; [exact Hw'|]. cbn [ms_doc ms_undo]. rewrite Hrho'. split; [exact Hwr'|].
    split; [rewrite rev_app_distr; simpl; unfold tbr; rewrite <- (update_undo_reset_sel s CC t rows vals tb Hok); fold tbr; rewrite Hu'; exact Hrep|].
    split; [apply Forall_app; split; [exact Hun|repeat constructor; simpl; rewrite (update_undo_fst _ _ _ Hk); exact Hok]|].
    split; [exact Hpl|]. split; [|split].
    - intros t' c' m Hm. destruct (HK1 t' c' m Hm) as [Hin (rws & col & col0 & H1 & H2 & H3)]. split; [exact Hin|].
      exists rws, col, col0. rewrite Hrw, (Hcol t' c' Hin). auto.
    - intros t' c' col Hin Hn Hd. rewrite (Hcol t' c' Hin) in Hd. exact (HK2 t' c' col Hin Hn Hd).
    - intros t' rws Hd. rewrite Hrw in Hd. exact (HK3 t' rws Hd).
  Qed.

  Lemma sum_log_addrows t rows : sum_log (map (MAddRow t) rows) = [].
  Proof. induction rows as [|r rows IH]; [reflexivity|]. simpl. exact IH. Qed.

  Lemma JR_add st log t rows vals st' :
    JR st log -> (forall c, c ∈ vals.*1 -> (t, c) ∉ CC) ->
    exec_all st (steps_of ord (ms_doc st) (BulkAddRecord t rows vals)) = Some st' ->
    JR st' (log ++ sum_log (steps_of ord (ms_doc st) (BulkAddRecord t rows vals))).
  Proof.
    intros (Hsv & Hw & Hwr & Hrep & Hun & Hpl & HK1 & HK2 & HK3) Hok Hex. set (d := ms_doc st) in *.
    destruct (d_tables d !! t) as [tb|] eqn:Ht.
    2: { exfalso. unfold steps_of in Hex. rewrite Ht in Hex. discriminate. }
    rewrite <- (mstate_eta st), Hsv in Hex. fold d in Hex.
    destruct (exec_add ord d t tb rows vals _ _ _ _ Ht Hex) as (Hr & Hk & ->).
    destruct (wf_schema_of_table _ _ _ Hw Ht) as (sc & Hs & Hwt).
    assert (Hlog : sum_log (steps_of ord d (BulkAddRecord t rows vals)) = [SAddRecords t rows]).
    { unfold steps_of. rewrite Ht. rewrite bool_decide_eq_false_2.
      2: { intros H. apply Exists_exists in H as (r & Hin & Hmem). rewrite Forall_forall in Hr. exact (Hr r Hin Hmem). }
      unfold add_records_steps. simpl. rewrite (known_prefix_all _ _ Hk), bool_decide_eq_true_2 by reflexivity.
      rewrite app_nil_r, sum_log_app, sum_log_addrows, sum_log_cells. reflexivity. }
    rewrite Hlog. set (tb1 := set_rows (fun rs : gset rowid => list_to_set rows ∪ rs) tb).
    set (tbr := reset_tb s CC t tb).
    assert (Htr : d_tables (reset_sel s CC d) !! t = Some tbr) by (rewrite reset_tables_lookup, Ht; reflexivity).
    assert (Hrho' : reset_sel s CC (tset t (write_cols rows vals tb1) d) = tset t (write_cols rows vals (set_rows (fun rs : gset rowid => list_to_set rows ∪ rs) tbr)) (reset_sel s CC d))
      by (rewrite reset_tset, (reset_write_cols s CC t rows vals tb1 Hok); reflexivity).
    assert (Hkr : Forall (known tbr) vals).
    { eapply Forall_impl; [exact Hk|]. intros cv [cl Hcl]. unfold known, tbr. rewrite reset_cols_lookup, Hcl. eexists. reflexivity. }
    destruct (undo_add ord (reset_sel s CC d) t tbr sc rows vals Hwr Htr Hs Hr Hkr) as [Hwr' Hu'].
    destruct (undo_add ord d t tb sc rows vals Hw Ht Hs Hr Hk) as [Hw' _].
    set (d' := tset t (write_cols rows vals tb1) d) in *.
    assert (Hcol : forall t' c', (t', c') ∈ CC -> dcol d' t' c' = dcol d t' c').
    { intros t' c' Hin. unfold d'. rewrite dcol_tset. destruct (decide (t' = t)) as [->|]; [|reflexivity].
      unfold dcol. rewrite Ht. simpl. rewrite write_cols_lookup. simpl. destruct (t_cols tb !! c') as [cl|]; simpl; [|reflexivity].
      rewrite col_writes_notin; [reflexivity|]. intros Hx. exact (Hok c' Hx Hin). }
    assert (Hrw : forall t', drows d' t' = if decide (t' = t) then Some (list_to_set rows ∪ t_rows tb) else drows d t').
    { intros t'. unfold d'. rewrite drows_tset. destruct (decide (t' = t)) as [->|]; [|reflexivity]. rewrite write_cols_rows. reflexivity. }
    assert (Hdr : drows d t = Some (t_rows tb)) by (unfold drows; rewrite Ht; reflexivity).
    unfold JR. cbv zeta. unfold summary_of. rewrite foldl_app. simpl foldl. fold (summary_of log).
    destruct (sm_step_add_records_shape (summary_of log) t rows Hpl) as (Hpl' & Hget & Hbf).
    split; [reflexivity|]. split; [exact Hw'|]. cbn [ms_doc ms_undo]. fold d'. rewrite Hrho'. split; [exact Hwr'|].
    split; [rewrite rev_app_distr; simpl; rewrite Hu'; exact Hrep|].
    split; [apply Forall_app; split; [exact Hun|repeat constructor]|].
    split; [exact Hpl'|]. split; [|split].
    - intros t' c' m Hm. rewrite Hget in Hm. destruct (HK1 t' c' m Hm) as [Hin (rws & col & col0 & H1 & H2 & H3 & H4 & H5 & H6 & H7)].
      split; [exact Hin|]. unfold entry_ok. rewrite (Hcol t' c' Hin). destruct (decide (t' = t)) as [->|Hne].
      + rewrite Hdr in H1. injection H1 as <-. exists (list_to_set rows ∪ t_rows tb), col, col0. rewrite Hrw, decide_True by reflexivity.
        split; [reflexivity|]. split; [exact H2|]. split; [exact H3|]. split; [exact H4|].
        split; [eapply wf_col_mono; [exact H5|set_solver]|]. split; [eapply wf_col_mono; [exact H6|set_solver]|].
        intros r. specialize (H7 r). destruct (m !! r) as [[b a]|]; [|exact H7]. destruct H7 as (? & ? & ?). repeat split; auto. set_solver.
      + exists rws, col, col0. rewrite Hrw, decide_False by exact Hne. auto 10.
    - intros t' c' col Hin Hn Hd. rewrite Hget in Hn. rewrite (Hcol t' c' Hin) in Hd. exact (HK2 t' c' col Hin Hn Hd).
    - intros t' rws Hd. rewrite Hrw in Hd. rewrite Hbf. destruct (decide (t' = t)) as [->|Hne]; [|exact (HK3 t' rws Hd)].
      injection Hd as <-. destruct (HK3 t (t_rows tb) Hdr) as (rows0 & H0 & Hsub & Hmk). exists rows0. split; [exact H0|]. split; [set_solver|].
      intros r. rewrite mark_new_lookup. rewrite Forall_forall in Hr. split.
      * destruct (sm_before (summary_of log) t !! r) as [b|] eqn:E.
        -- intros [= ->]. destruct (proj1 (Hmk r) E) as [H1 H2]. split; [set_solver|exact H2].
        -- destruct (decide (r ∈ rows)) as [Hin|]; [|discriminate]. intros _. split; [set_solver|].
           intros Hx. apply (Hr r Hin). apply Hsub. exact Hx.
      * intros [H1 H2]. destruct (sm_before (summary_of log) t !! r) as [b|] eqn:E.
        -- destruct b; [|reflexivity]. exfalso. destruct (for_table_shape (false, t) _ Hpl) as (_ & _ & _ & _ & Hbt). exact (Hbt r E).
        -- apply elem_of_union in H1 as [H1|H1]; [rewrite decide_True by (apply elem_of_list_to_set in H1; exact H1); reflexivity|].
           exfalso. assert (Hx : sm_before (summary_of log) t !! r = Some false) by (apply Hmk; auto). congruence.
  Qed.

  Lemma JR_calc st log t c cells st' :
    JR st log -> (t, c) ∈ CC ->
    exec_all st (event_steps ord (ms_doc st) (ECalc t c cells)) = Some st' ->
    JR st' (log ++ sum_log (event_steps ord (ms_doc st) (ECalc t c cells))).
  Proof.
    intros HJ HinCC Hex. destruct cells as [|rv0 cells0] eqn:Ecells.
    { simpl in *. injection Hex as <-. rewrite app_nil_r. exact HJ. }
    rewrite <- Ecells in *. assert (Hne : cells ≠ []) by (rewrite Ecells; discriminate). clear Ecells.
    destruct HJ as (Hsv & Hw & Hwr & Hrep & Hun & Hpl & HK1 & HK2 & HK3). set (d := ms_doc st) in *.
    destruct (d_tables d !! t) as [tb|] eqn:Ht.
    2: { exfalso. unfold event_steps in Hex. destruct cells; [contradiction|]. rewrite Ht in Hex. discriminate. }
    destruct (t_cols tb !! c) as [col|] eqn:Hc.
    2: { exfalso. unfold event_steps in Hex. destruct cells; [contradiction|]. rewrite Ht, Hc in Hex. discriminate. }
    assert (Hsteps : event_steps ord d (ECalc t c cells) =
      if bool_decide (Forall (fun rv => rv.1 ∈ t_rows tb) cells)
      then map (fun rv => MSetCell t c rv.1 rv.2) cells ++ [MSum (SAddChanges t c (map (fun rv => (rv.1, cget col rv.1, rv.2)) cells))]
      else [MFail]).
    { unfold event_steps. destruct cells; [contradiction|]. rewrite Ht, Hc. reflexivity. }
    rewrite Hsteps in *. destruct (bool_decide (Forall _ cells)) eqn:Eb; [|discriminate].
    apply bool_decide_eq_true in Eb. rewrite Forall_forall in Eb.
    rewrite exec_set_cells in Hex. simpl in Hex. injection Hex as <-.
    rewrite sum_log_app, sum_log_sets. simpl.
    destruct (wf_schema_of_table _ _ _ Hw Ht) as (sc & Hs & Hwt).
    destruct (wf_table_col _ _ _ _ Hwt Hc) as [Hsc Hwc].
    assert (Hin : forall r, r ∈ cells.*1 -> r ∈ t_rows tb).
    { intros r Hr. apply elem_of_list_fmap in Hr as (rv & -> & Hrv). apply Eb. exact Hrv. }
    assert (Hdc : dcol d t c = Some col) by (unfold dcol; rewrite Ht; exact Hc).
    assert (Hdr : drows d t = Some (t_rows tb)) by (unfold drows; rewrite Ht; reflexivity).
    (* the checkpoint column and what the summary says so far *)
    assert (Hck : exists col0 m0, dcol s t c = Some col0 /\ c_info col = c_info col0 /\ wf_col (t_rows tb) col0 /\
                    delta_ok (t_rows tb) col col0 m0 /\ m0 = default ∅ (sm_get (summary_of log) t c)).
    { destruct (sm_get (summary_of log) t c) as [m|] eqn:Eg.
      - destruct (HK1 t c m Eg) as [_ (rws & cl & col0 & H1 & H2 & H3 & H4 & _ & H5 & H6)].
        rewrite Hdr in H1. injection H1 as <-. rewrite Hdc in H2. injection H2 as <-. exists col0, m. auto.
      - pose proof (HK2 t c col HinCC Eg Hdc) as H0. exists col, ∅. split; [exact H0|]. split; [reflexivity|]. split; [exact Hwc|].
        split; [|reflexivity]. intros r. rewrite lookup_empty. reflexivity. }
    destruct Hck as (col0 & m0 & Hc0 & Hinfo & Hwc0 & Hm0 & Em0).
    set (f := fun cl : column => cset_list cl cells). set (d' := upd_table t (upd_col c f) d).
    assert (Hd' : d' = tset t (upd_col c f tb) d) by (apply upd_table_tset; exact Ht).
    unfold JR. cbv zeta. split; [exact Hsv|]. cbn [ms_doc ms_undo]. fold d. fold d'. split.
    { rewrite Hd'. apply (wf_tset_same d t sc); [exact Hw|exact Hs|].
      eapply wf_table_same_schema; [exact Hwt|unfold upd_col; simpl; apply dom_alter_L|].
      intros c0 cl' Hl. destruct (decide (c0 = c)) as [->|Hn0].
      - unfold upd_col in Hl. simpl in Hl. rewrite lookup_alter, Hc in Hl. injection Hl as <-. exists col. split; [exact Hc|].
        split; [apply cset_list_info|]. apply wf_col_cset_list; [exact Hwc|exact Hin].
      - unfold upd_col in Hl. simpl in Hl. rewrite lookup_alter_ne in Hl by auto. exists cl'. split; [exact Hl|]. split; [reflexivity|].
        exact (proj2 (wf_table_col _ _ _ _ Hwt Hl)). }
    unfold d'. rewrite (reset_calc s CC t c f d col0 HinCC Hc0). split; [exact Hwr|]. split; [exact Hrep|]. split; [exact Hun|].
    unfold summary_of. rewrite foldl_app. simpl. fold (summary_of log).
    destruct (sm_step_add_changes_shape (summary_of log) t c (map (fun rv => (rv.1, cget col rv.1, rv.2)) cells) Hpl) as (Hpl' & Hget & Hbf).
    split; [exact Hpl'|]. split; [|split].
    - intros t' c' m Hm. rewrite Hget in Hm. destruct (decide (t' = t /\ c' = c)) as [[-> ->]|Hne'].
      + injection Hm as <-. split; [exact HinCC|]. exists (t_rows tb), (f col), col0.
        rewrite drows_upd, dcol_upd, decide_True by auto. rewrite Hdc. split; [exact Hdr|]. split; [reflexivity|]. split; [exact Hc0|].
        split; [unfold f; rewrite cset_list_info; exact Hinfo|]. split; [apply wf_col_cset_list; [exact Hwc|exact Hin]|].
        split; [exact Hwc0|]. rewrite <- Em0. apply (merge_delta_ok ord); assumption.
      + destruct (HK1 t' c' m Hm) as [Hin' (rws & cl & cl0 & H1 & H2 & H3)]. split; [exact Hin'|].
        exists rws, cl, cl0. rewrite drows_upd, dcol_upd, decide_False by exact Hne'. auto.
    - intros t' c' cl Hin' Hn Hd. rewrite Hget in Hn. destruct (decide (t' = t /\ c' = c)) as [|Hne']; [discriminate|].
      rewrite dcol_upd, decide_False in Hd by exact Hne'. exact (HK2 t' c' cl Hin' Hn Hd).
    - intros t' rws Hd. rewrite drows_upd in Hd. destruct (HK3 t' rws Hd) as (rows0 & H0 & Hsub & Hmk). exists rows0.
      split; [exact H0|]. split; [exact Hsub|]. intros r. rewrite Hbf. apply Hmk.
  Qed.

  (* ---- two documents that differ only in selected columns, on rows the checkpoint does not have ---- *)
  Definition oldrow (t : name) (r : rowid) : Prop := exists rows0, drows s t = Some rows0 /\ r ∈ rows0.
  Definition colagree (sel : list (name * name)) (t c : name) (c1 c2 : column) : Prop :=
    c_info c1 = c_info c2 /\ forall r, ((t, c) ∉ sel \/ oldrow t r) -> cget c1 r = cget c2 r.
  Definition oagree {A} (R : A -> A -> Prop) (x y : option A) : Prop :=
    match x, y with Some a, Some b => R a b | None, None => True | _, _ => False end.
  Definition agree (sel : list (name * name)) (d1 d2 : doc) : Prop :=
    d_schema d1 = d_schema d2 /\ (forall t, drows d1 t = drows d2 t) /\
    forall t c, oagree (colagree sel t c) (dcol d1 t c) (dcol d2 t c).

  Lemma agree_table sel d1 d2 t tb2 :
    agree sel d1 d2 -> d_tables d2 !! t = Some tb2 ->
    exists tb1, d_tables d1 !! t = Some tb1 /\ t_rows tb1 = t_rows tb2 /\
                forall c, oagree (colagree sel t c) (t_cols tb1 !! c) (t_cols tb2 !! c).
  Proof.
    intros (_ & Hr & Hc) Ht. pose proof (Hr t) as Hrt. unfold drows in Hrt. rewrite Ht in Hrt.
    destruct (d_tables d1 !! t) as [tb1|] eqn:E1; [|discriminate]. simpl in Hrt. injection Hrt as Hrt.
    exists tb1. split; [reflexivity|]. split; [exact Hrt|]. intros c. specialize (Hc t c). unfold dcol in Hc.
    rewrite E1, Ht in Hc. exact Hc.
  Qed.

  Lemma agree_tset sel d1 d2 t tb1 tb2 :
    agree sel d1 d2 -> t_rows tb1 = t_rows tb2 ->
    (forall c, oagree (colagree sel t c) (t_cols tb1 !! c) (t_cols tb2 !! c)) ->
    agree sel (tset t tb1 d1) (tset t tb2 d2).
  Proof.
    intros (Hs & Hr & Hc) Hrows Hcols. split; [exact Hs|]. split.
    - intros t'. rewrite !drows_tset. destruct (decide (t' = t)); [rewrite Hrows; reflexivity|apply Hr].
    - intros t' c. rewrite !dcol_tset. destruct (decide (t' = t)) as [->|]; [apply Hcols|apply Hc].
  Qed.

  Lemma cget_cset_list_congr l : forall c1 c2 r,
    c_info c1 = c_info c2 -> cget c1 r = cget c2 r -> cget (cset_list c1 l) r = cget (cset_list c2 l) r.
  Proof.
    induction l as [|[r0 v] l IH]; intros c1 c2 r Hi Hg; [exact Hg|]. unfold cset_list in *. simpl. apply IH; [exact Hi|].
    rewrite !cget_cset. destruct (decide (r = r0)); [reflexivity|exact Hg].
  Qed.

  Lemma cget_col_writes_congr c rows vals : forall c1 c2 r,
    c_info c1 = c_info c2 -> cget c1 r = cget c2 r ->
    cget (col_writes c rows vals c1) r = cget (col_writes c rows vals c2) r.
  Proof.
    induction vals as [|cv vals IH]; intros c1 c2 r Hi Hg; [exact Hg|]. unfold col_writes in *. simpl.
    destruct (decide (cv.1 = c)); [|apply IH; assumption].
    apply IH; [rewrite !cset_list_info; exact Hi|apply cget_cset_list_congr; assumption].
  Qed.

  Lemma agree_write_cols sel t rows vals tb1 tb2 :
    (forall c, oagree (colagree sel t c) (t_cols tb1 !! c) (t_cols tb2 !! c)) ->
    forall c, oagree (colagree sel t c) (t_cols (write_cols rows vals tb1) !! c) (t_cols (write_cols rows vals tb2) !! c).
  Proof.
    intros H c. rewrite !write_cols_lookup. specialize (H c).
    destruct (t_cols tb1 !! c) as [c1|], (t_cols tb2 !! c) as [c2|]; simpl in *; try exact H.
    destruct H as [Hi Hg]. split; [rewrite !col_writes_info; exact Hi|].
    intros r Hr. apply cget_col_writes_congr; [exact Hi|apply Hg; exact Hr].
  Qed.

  Lemma agree_update sel d1 d2 t rows vals d2' :
    agree sel d1 d2 -> wf d1 -> apply_doc ord d2 (BulkUpdateRecord t rows vals) = Some d2' ->
    exists d1', apply_doc ord d1 (BulkUpdateRecord t rows vals) = Some d1' /\ agree sel d1' d2' /\ wf d1'.
  Proof.
    intros Hag Hw1 H. rewrite apply_doc_unfold in H. simpl normalize in H.
    destruct (d_tables d2 !! t) as [tb2|] eqn:Ht2.
    2: { unfold steps_of in H. rewrite Ht2 in H. discriminate. }
    destruct (exec_all _ _) as [st'|] eqn:E; [|discriminate]. simpl in H. injection H as <-.
    destruct (exec_update ord d2 t tb2 rows vals _ _ _ _ Ht2 E) as (Hr & Hk & ->). simpl.
    destruct (agree_table sel d1 d2 t tb2 Hag Ht2) as (tb1 & Ht1 & Hrows & Hcols).
    assert (Hr1 : Forall (fun r => r ∈ t_rows tb1) rows) by (rewrite Hrows; exact Hr).
    assert (Hk1 : Forall (known tb1) vals).
    { eapply Forall_impl; [exact Hk|]. intros cv [cl Hcl]. unfold known. specialize (Hcols cv.1). rewrite Hcl in Hcols.
      destruct (t_cols tb1 !! cv.1); [eexists; reflexivity|contradiction]. }
    exists (tset t (write_cols rows vals tb1) d1). split.
    - rewrite apply_doc_unfold. simpl normalize. rewrite (exec_update_ok ord d1 t tb1) by assumption. reflexivity.
    - split.
      + apply agree_tset; [exact Hag|rewrite !write_cols_rows; exact Hrows|apply agree_write_cols; exact Hcols].
      + destruct (wf_schema_of_table _ _ _ Hw1 Ht1) as (sc & Hs & _).
        exact (proj1 (undo_update ord d1 t tb1 sc rows vals Hw1 Ht1 Hs Hr1 Hk1)).
  Qed.

  Lemma remove_tb_col t tb rows' c col :
    t_cols tb !! c = Some col ->
    exists col', t_cols (remove_tb ord t tb rows') !! c = Some col' /\ c_info col' = c_info col /\
      forall r, cget col' r = if decide (r ∈ rows') then cdefault col else cget col r.
  Proof.
    intros Hc. set (cs := cols_in_order ord t tb). set (uv := unset_values tb cs rows').
    exists (col_writes c rows' uv col). split; [unfold remove_tb; rewrite write_cols_lookup; simpl; rewrite Hc; reflexivity|].
    split; [apply col_writes_info|]. intros r. destruct (decide (r ∈ rows')) as [Hin|Hnin]; [|apply col_writes_other; exact Hnin].
    apply (col_writes_restores c rows' (fun _ => cdefault col)); [| |exact Hin].
    - eapply unset_values_fst; [eapply cols_in_order_complete|]; exact Hc.
    - intros cv Hcv Hcv1. apply unset_values_in in Hcv as (colx & Hx & ->). rewrite Hcv1, Hc in Hx. injection Hx as <-. reflexivity.
  Qed.

  Lemma remove_tb_none t tb rows' c : t_cols tb !! c = None -> t_cols (remove_tb ord t tb rows') !! c = None.
  Proof. intros Hc. unfold remove_tb. rewrite write_cols_lookup. simpl. rewrite Hc. reflexivity. Qed.

  Lemma agree_remove sel d1 d2 t rows d2' :
    agree sel d1 d2 -> wf d1 -> apply_doc ord d2 (BulkRemoveRecord t rows) = Some d2' ->
    exists d1', apply_doc ord d1 (BulkRemoveRecord t rows) = Some d1' /\ agree sel d1' d2' /\ wf d1'.
  Proof.
    intros Hag Hw1 H. rewrite apply_doc_unfold in H. simpl normalize in H.
    destruct (d_tables d2 !! t) as [tb2|] eqn:Ht2.
    2: { unfold steps_of in H. rewrite Ht2 in H. discriminate. }
    destruct (exec_all _ _) as [st'|] eqn:E; [|discriminate]. simpl in H. injection H as <-.
    destruct (agree_table sel d1 d2 t tb2 Hag Ht2) as (tb1 & Ht1 & Hrows & Hcols).
    pose proof (exec_remove_ok ord d1 t tb1 rows [] [] None Ht1) as H1. rewrite Hrows in H1. cbv zeta in H1.
    destruct (wf_schema_of_table _ _ _ Hw1 Ht1) as (sc & Hs & _).
    pose proof (proj1 (undo_remove ord d1 t tb1 sc rows Hw1 Ht1 Hs)) as Hw1'. rewrite Hrows in Hw1'.
    destruct (exec_remove ord d2 t tb2 rows _ _ _ _ Ht2 E) as [[Hnil ->]|[Hne ->]]; simpl.
    - rewrite Hnil in H1. exists d1. split; [rewrite apply_doc_unfold; simpl normalize; rewrite H1; reflexivity|]. auto.
    - set (rows' := filter (fun r => r ∈ t_rows tb2) rows) in *.
      exists (tset t (remove_tb ord t tb1 rows') d1). split.
      + rewrite apply_doc_unfold. simpl normalize. rewrite H1. destruct rows'; [contradiction|reflexivity].
      + split; [|exact Hw1']. apply agree_tset; [exact Hag|unfold remove_tb; rewrite !write_cols_rows; simpl; rewrite Hrows; reflexivity|].
        intros c. specialize (Hcols c). destruct (t_cols tb1 !! c) as [c1|] eqn:E1, (t_cols tb2 !! c) as [c2|] eqn:E2; simpl in Hcols; try contradiction.
        * destruct (remove_tb_col t tb1 rows' c c1 E1) as (c1' & -> & Hi1 & Hg1).
          destruct (remove_tb_col t tb2 rows' c c2 E2) as (c2' & -> & Hi2 & Hg2). simpl. destruct Hcols as [Hi Hg].
          split; [congruence|]. intros r Hr. rewrite Hg1, Hg2. destruct (decide (r ∈ rows')); [unfold cdefault; rewrite Hi; reflexivity|apply Hg; exact Hr].
        * rewrite !remove_tb_none by assumption. exact I.
  Qed.

  Definition upd_or_rem (a : action) : Prop :=
    match a with BulkUpdateRecord _ _ _ | BulkRemoveRecord _ _ => True | _ => False end.

  Lemma replay_agree sel l : forall d1 d2 res,
    Forall upd_or_rem l -> agree sel d1 d2 -> wf d1 -> replay ord d2 l = Some res ->
    exists res1, replay ord d1 l = Some res1 /\ agree sel res1 res /\ wf res1.
  Proof.
    induction l as [|a l IH]; intros d1 d2 res Hok Hag Hw H; simpl in *.
    - injection H as <-. eauto.
    - inversion Hok as [|? ? Ha Hl]; subst. destruct (apply_doc ord d2 a) as [d2'|] eqn:E; [|discriminate]. simpl in H.
      destruct a; try contradiction.
      + destruct (agree_remove sel d1 d2 _ _ d2' Hag Hw E) as (d1' & -> & Hag' & Hw'). simpl. eapply IH; eauto.
      + destruct (agree_update sel d1 d2 _ _ _ d2' Hag Hw E) as (d1' & -> & Hag' & Hw'). simpl. eapply IH; eauto.
  Qed.

  Lemma agree_final sel d1 : agree sel d1 s -> wf d1 -> d1 = s.
  Proof.
    intros Hag Hw. pose proof Hag as (Hs & Hr & _). apply doc_ext; [exact Hs|]. intros t.
    destruct (d_tables s !! t) as [tb2|] eqn:Ht2.
    - destruct (agree_table sel d1 s t tb2 Hag Ht2) as (tb1 & Ht1 & Hrows & Hcols). rewrite Ht1. f_equal.
      destruct (wf_schema_of_table _ _ _ Hw Ht1) as (sc1 & _ & Hwt1). destruct (wf_schema_of_table _ _ _ Hwfs Ht2) as (sc2 & _ & Hwt2).
      apply table_ext; [exact Hrows|]. intros c. specialize (Hcols c).
      destruct (t_cols tb1 !! c) as [c1|] eqn:E1, (t_cols tb2 !! c) as [c2|] eqn:E2; simpl in Hcols; try contradiction; [|reflexivity].
      f_equal. destruct Hcols as [Hi Hg].
      pose proof (proj2 (wf_table_col _ _ _ _ Hwt1 E1)) as Hwc1. pose proof (proj2 (wf_table_col _ _ _ _ Hwt2 E2)) as Hwc2.
      apply (col_ext (t_rows tb1) (t_rows tb2)); [exact Hwc1|exact Hwc2|exact Hi|]. intros r.
      destruct (decide (r ∈ t_rows tb2)) as [Hin|Hnin].
      + apply Hg. right. exists (t_rows tb2). split; [unfold drows; rewrite Ht2; reflexivity|exact Hin].
      + rewrite (cget_default_notin _ _ _ Hwc1) by (rewrite Hrows; exact Hnin). rewrite (cget_default_notin _ _ _ Hwc2) by exact Hnin.
        unfold cdefault. rewrite Hi. reflexivity.
    - specialize (Hr t). unfold drows in Hr. rewrite Ht2 in Hr. destruct (d_tables d1 !! t); [discriminate|reflexivity].
  Qed.

  Lemma dcol_reset sel d t c : dcol (reset_sel s sel d) t c = reset_col s sel t c <$> dcol d t c.
  Proof.
    unfold dcol. rewrite reset_tables_lookup. destruct (d_tables d !! t) as [tb|]; [|reflexivity].
    cbn [fmap option_fmap option_map mbind option_bind]. rewrite reset_cols_lookup. reflexivity.
  Qed.

  Lemma reset_col_app_other sel t c t' c' col :
    (t', c') <> (t, c) -> reset_col s (sel ++ [(t, c)]) t' c' col = reset_col s sel t' c' col.
  Proof.
    intros Hne. unfold reset_col. destruct (decide ((t', c') ∈ sel)) as [Hin|Hn].
    - rewrite decide_True by (apply elem_of_app; left; exact Hin). reflexivity.
    - rewrite decide_False; [reflexivity|]. intros Hx. apply elem_of_app in Hx as [Hx|Hx]; [contradiction|].
      apply elem_of_list_singleton in Hx. contradiction.
  Qed.

  (* one more column is put back on the rows the checkpoint has *)
  Lemma agree_extend sel d d1 t c tb1 tb1' c1' col col0 :
    agree sel d1 (reset_sel s sel d) -> d_tables d1 !! t = Some tb1 ->
    dcol d t c = Some col -> dcol s t c = Some col0 ->
    t_rows tb1' = t_rows tb1 -> (forall c', c' <> c -> t_cols tb1' !! c' = t_cols tb1 !! c') ->
    t_cols tb1' !! c = Some c1' -> c_info c1' = c_info col0 -> (forall r, oldrow t r -> cget c1' r = cget col0 r) ->
    agree (sel ++ [(t, c)]) (tset t tb1' d1) (reset_sel s (sel ++ [(t, c)]) d).
  Proof.
    intros (Hs & Hr & Hc) Ht1 Hcol Hc0 Hrows Hoth Hc1 Hi Hg. split; [exact Hs|]. split.
    - intros t'. rewrite drows_tset, drows_reset. specialize (Hr t'). rewrite drows_reset in Hr.
      destruct (decide (t' = t)) as [->|]; [|exact Hr]. rewrite <- Hr. unfold drows. rewrite Ht1, Hrows. reflexivity.
    - intros t' c'. rewrite dcol_tset, dcol_reset. destruct (decide ((t', c') = (t, c))) as [[= -> ->]|Hne].
      + rewrite decide_True by reflexivity. rewrite Hc1, Hcol. simpl. unfold reset_col.
        rewrite decide_True by (apply elem_of_app; right; left). rewrite Hc0. simpl. split; [exact Hi|].
        intros r [Hn|Ho]; [exfalso; apply Hn; apply elem_of_app; right; left|apply Hg; exact Ho].
      + specialize (Hc t' c'). rewrite dcol_reset in Hc.
        assert (Hmono : forall x y, colagree sel t' c' x y -> colagree (sel ++ [(t, c)]) t' c' x y).
        { intros x y [H1 H2]. split; [exact H1|]. intros r [Hn|Ho]; apply H2; [left|right; exact Ho].
          intros Hx. apply Hn. apply elem_of_app. left. exact Hx. }
        assert (Hgoal : oagree (colagree (sel ++ [(t, c)]) t' c') (dcol d1 t' c') (reset_col s (sel ++ [(t, c)]) t' c' <$> dcol d t' c')).
        { destruct (dcol d1 t' c') as [x|], (dcol d t' c') as [y|]; simpl in *; try exact Hc.
          rewrite reset_col_app_other by exact Hne. apply Hmono. exact Hc. }
        destruct (decide (t' = t)) as [->|]; [|exact Hgoal].
        assert (c' <> c) by congruence. rewrite Hoth by assumption. unfold dcol in Hgoal at 1. rewrite Ht1 in Hgoal. exact Hgoal.
  Qed.

  Lemma old_changed_in bf m r :
    r ∈ old_changed bf m <-> (exists b a, m !! r = Some (b, a) /\ b <> a) /\ bf !! r <> Some false.
  Proof. unfold old_changed. rewrite elem_of_list_filter, changed_rows_in. tauto. Qed.

  Local Opaque col_writes.

  Lemma back1r_agree sel sm d d1 t c m :
    entry_ok s d t c m -> marks_ok sm d -> (t, c) ∉ sel ->
    agree sel d1 (reset_sel s sel d) -> wf d1 ->
    exists d1', replay ord d1 (rev (back1r (sm_before sm t) t c m)) = Some d1' /\
                agree (sel ++ [(t, c)]) d1' (reset_sel s (sel ++ [(t, c)]) d) /\ wf d1'.
  Proof.
    intros (rows & col & col0 & Hrows & Hcol & Hc0 & Hinfo & Hwc & Hwc0 & Hm) Hmk Hnsel Hag Hw1.
    destruct (Hmk t rows Hrows) as (rows0 & Hr0 & Hsub & Hbf).
    set (bf := sm_before sm t) in *.
    unfold drows in Hrows. destruct (d_tables d !! t) as [tb|] eqn:Ht; [|discriminate]. simpl in Hrows. injection Hrows as Hrows.
    assert (Htr : d_tables (reset_sel s sel d) !! t = Some (reset_tb s sel t tb)) by (rewrite reset_tables_lookup, Ht; reflexivity).
    destruct (agree_table sel d1 _ t _ Hag Htr) as (tb1 & Ht1 & Hrows1 & Hcols1). simpl in Hrows1.
    pose proof (Hcols1 c) as Hc1. rewrite reset_cols_lookup in Hc1.
    assert (Hcolt : t_cols tb !! c = Some col) by (unfold dcol in Hcol; rewrite Ht in Hcol; exact Hcol).
    rewrite Hcolt in Hc1. simpl in Hc1. destruct (t_cols tb1 !! c) as [c1|] eqn:E1; [|contradiction].
    unfold reset_col in Hc1. rewrite decide_False in Hc1 by exact Hnsel. destruct Hc1 as [Hi1 Hg1].
    assert (Hg1' : forall r, cget c1 r = cget col r) by (intros r; apply Hg1; left; exact Hnsel).
    assert (Hold : forall r, oldrow t r <-> r ∈ rows0).
    { intros r. split; [intros (x & Hx & Hin); rewrite Hr0 in Hx; injection Hx as <-; exact Hin|intros Hin; exists rows0; auto]. }
    assert (Hsame : forall r, r ∈ rows0 -> r ∉ old_changed bf m -> cget col r = cget col0 r).
    { intros r Hin Hn. specialize (Hm r). destruct (m !! r) as [[b a]|] eqn:E; [|exact Hm]. simpl in Hm.
      destruct Hm as (H1 & H2 & H3). destruct (decide (b = a)) as [->|Hne]; [congruence|].
      exfalso. apply Hn. apply old_changed_in. split; [eauto|]. intros Hx. apply Hbf in Hx as [_ Hx]. contradiction. }
    unfold back1r. destruct (old_changed bf m) as [|r0 rs] eqn:Ech.
    - simpl. exists d1. split; [reflexivity|]. split; [|exact Hw1].
      rewrite <- (tset_id t tb1 d1 Ht1) at 1.
      apply (agree_extend sel d d1 t c tb1 tb1 c1 col col0); auto; [congruence|].
      intros r Ho. rewrite Hg1'. apply Hsame; [apply Hold; exact Ho|apply not_elem_of_nil].
    - rewrite <- Ech in *. clear Ech. set (oc := old_changed bf m) in *. simpl rev.
      set (vals := [(c, map (fun r => from_option fst 0 (m !! r)) oc)]).
      assert (Hin : forall r, r ∈ oc -> r ∈ t_rows tb1).
      { intros r Hr. apply old_changed_in in Hr as [(b & a & E & _) _]. specialize (Hm r). rewrite E in Hm. simpl in Hm.
        rewrite Hrows1, Hrows. tauto. }
      assert (Hr1 : Forall (fun r => r ∈ t_rows tb1) oc) by (apply Forall_forall; exact Hin).
      assert (Hk1 : Forall (known tb1) vals) by (constructor; [eexists; exact E1|constructor]).
      exists (tset t (write_cols oc vals tb1) d1). split; [|split].
      + apply replay1. rewrite apply_doc_unfold. simpl normalize. rewrite (exec_update_ok ord d1 t tb1) by assumption. reflexivity.
      + apply (agree_extend sel d d1 t c tb1 (write_cols oc vals tb1) (col_writes c oc vals c1) col col0); auto.
        * intros c' Hne. rewrite write_cols_lookup. destruct (t_cols tb1 !! c') as [x|]; simpl; [|reflexivity].
          rewrite col_writes_notin; [reflexivity|]. intros Hx. apply elem_of_list_singleton in Hx. simpl in Hx. congruence.
        * rewrite write_cols_lookup, E1. reflexivity.
        * rewrite col_writes_info. congruence.
        * intros r Ho. apply Hold in Ho. destruct (decide (r ∈ oc)) as [Hr|Hr].
          -- rewrite (col_writes_restores c oc (fun r => from_option fst 0 (m !! r))); [|left| |exact Hr].
             ++ apply old_changed_in in Hr as [(b & a & E & _) _]. specialize (Hm r). rewrite E in Hm. simpl in Hm. cbv beta. transitivity (from_option fst 0 (Some (b, a))); [f_equal; exact E|]. simpl. tauto.
             ++ intros cv Hcv _. apply elem_of_list_singleton in Hcv. subst cv. reflexivity.
          -- rewrite col_writes_other by exact Hr. rewrite Hg1'. apply Hsame; assumption.
      + destruct (wf_schema_of_table _ _ _ Hw1 Ht1) as (sc & Hs & _).
        exact (proj1 (undo_update ord d1 t tb1 sc oc vals Hw1 Ht1 Hs Hr1 Hk1)).
  Qed.

  Lemma elem_of_rev {A} (x : A) (l : list A) : x ∈ rev l <-> x ∈ l.
  Proof. rewrite !elem_of_list_In. symmetry. apply in_rev. Qed.

  Lemma agree_refl sel d : agree sel d d.
  Proof. split; [reflexivity|]. split; [reflexivity|]. intros t c. destruct (dcol d t c); simpl; [split; reflexivity|exact I]. Qed.

  Lemma reset_sel_nil d : reset_sel s [] d = d.
  Proof.
    apply doc_ext; [reflexivity|]. intros t. rewrite reset_tables_lookup.
    destruct (d_tables d !! t) as [tb|]; simpl; [|reflexivity]. f_equal. apply table_ext; [reflexivity|].
    intros c. rewrite reset_cols_lookup. destruct (t_cols tb !! c); simpl; [|reflexivity]. rewrite reset_col_nil. reflexivity.
  Qed.

  Lemma backsr_agree sm d (E : list (name * name * gmap rowid (val * val))) : forall sel d1,
    NoDup E.*1 -> (forall e, e ∈ E -> entry_ok s d e.1.1 e.1.2 e.2 /\ e.1 ∉ sel) -> marks_ok sm d ->
    agree sel d1 (reset_sel s sel d) -> wf d1 ->
    exists d1', replay ord d1 (rev (flat_map (fun e => back1r (sm_before sm e.1.1) e.1.1 e.1.2 e.2) E)) = Some d1' /\
                agree (sel ++ rev E.*1) d1' (reset_sel s (sel ++ rev E.*1) d) /\ wf d1'.
  Proof.
    induction E as [|[[t c] m] E IH]; intros sel d1 Hnd Hok Hmk Hag Hw.
    - simpl. rewrite app_nil_r. eauto.
    - simpl flat_map. rewrite rev_app_distr, replay_app. rewrite fmap_cons in Hnd. apply NoDup_cons in Hnd as [Hnotin Hnd'].
      destruct (IH sel d1 Hnd') as (d2 & -> & Hag2 & Hw2); [intros e He; apply Hok; right; exact He|exact Hmk|exact Hag|exact Hw|].
      destruct (Hok (t, c, m)) as [Hen Hns]; [left|]. cbn [fst snd] in *.
      destruct (back1r_agree (sel ++ rev E.*1) sm d d2 t c m Hen Hmk) as (d3 & Hrep & Hag3 & Hw3); [|exact Hag2|exact Hw2|].
      { intros Hx. apply elem_of_app in Hx as [Hx|Hx]; [contradiction|]. apply (proj1 (elem_of_rev _ _)) in Hx. exact (Hnotin Hx). }
      exists d3. cbn [mbind option_bind]. split; [exact Hrep|]. rewrite fmap_cons. cbn [rev fst]. rewrite app_assoc. auto.
  Qed.

  Lemma JR_flush st log : JR st log -> rollback_flush ord st log = Some s.
  Proof.
    intros (Hsv & Hw & Hwr & Hrep & Hun & Hpl & HK1 & HK2 & HK3).
    unfold rollback_flush, restore_schema, flush_undo. rewrite Hsv, (flush_shape _ Hpl). cbn [fst snd app].
    rewrite rev_app_distr, replay_app, (backsr_entries _ Hpl). set (d := ms_doc st) in *. set (sm := summary_of log) in *.
    destruct (backsr_agree sm d (entriesr sm) [] d (entriesr_nodup sm Hpl)) as (d1 & -> & Hag & Hw1).
    { intros [[t c] m] Hin. simpl. split; [|apply not_elem_of_nil]. apply (entriesr_get sm t c m Hpl) in Hin. exact (proj2 (HK1 t c m Hin)). }
    { exact HK3. }
    { rewrite reset_sel_nil. apply agree_refl. }
    { exact Hw. }
    cbn [mbind option_bind app] in *.
    assert (Heq : reset_sel s (rev (entriesr sm).*1) d = reset_sel s CC d).
    { apply doc_ext; [reflexivity|]. intros t. rewrite !reset_tables_lookup. destruct (d_tables d !! t) as [tb|] eqn:Ht; simpl; [|reflexivity].
      f_equal. apply table_ext; [reflexivity|]. intros c. rewrite !reset_cols_lookup. destruct (t_cols tb !! c) as [col|] eqn:Hc; simpl; [|reflexivity].
      f_equal. unfold reset_col.
      assert (Hdc : dcol d t c = Some col) by (unfold dcol; rewrite Ht; exact Hc).
      destruct (decide ((t, c) ∈ rev (entriesr sm).*1)) as [Hin|Hnin].
      - apply (proj1 (elem_of_rev _ _)) in Hin. apply elem_of_list_fmap in Hin as ([[t' c'] m] & [= <- <-] & Hin). apply (entriesr_get sm t c m Hpl) in Hin.
        rewrite decide_True by exact (proj1 (HK1 t c m Hin)). reflexivity.
      - destruct (decide ((t, c) ∈ CC)) as [Hcc|]; [|reflexivity].
        destruct (sm_get sm t c) as [m|] eqn:Eg.
        + exfalso. apply Hnin. apply elem_of_rev. apply elem_of_list_fmap. exists (t, c, m). split; [reflexivity|]. apply (entriesr_get sm t c m Hpl). exact Eg.
        + rewrite (HK2 t c col Hcc Eg Hdc). reflexivity. }
    rewrite Heq in Hag.
    assert (Hur : Forall upd_or_rem (rev (ms_undo st))).
    { apply Forall_rev. eapply Forall_impl; [exact Hun|]. intros a Ha. destruct a; simpl in *; auto. }
    destruct (replay_agree _ (rev (ms_undo st)) d1 _ s Hur Hag Hw1 Hrep) as (res & -> & Hagf & Hwf).
    f_equal. exact (agree_final _ res Hagf Hwf).
  Qed.

  Lemma JR_event st log e st' :
    JR st log -> ev_okr e -> exec_all st (event_steps ord (ms_doc st) e) = Some st' ->
    JR st' (log ++ sum_log (event_steps ord (ms_doc st) e)).
  Proof.
    intros HJ Hok Hex. destruct e as [a|t c cells].
    - simpl in *. unfold doc_steps in *. destruct (normalize a) as [| | | |t rows vals|t rows vals| | | | | | | |] eqn:En; try contradiction.
      + apply JR_add; assumption.
      + destruct (JR_update st log t rows vals st' HJ Hok Hex) as [HJ' ->]. rewrite app_nil_r. exact HJ'.
    - apply JR_calc; assumption.
  Qed.

  Lemma run_calc_r es : forall st k st_k cur log,
    JR st log -> Forall ev_okr es ->
    run_until_crash ord st es k = Crashed st_k cur [] ->
    rollback_flush ord st_k (log ++ sum_log (run_log ord st es k)) = Some s.
  Proof.
    induction es as [|e es IH]; intros st k st_k cur log HJ Hok H; simpl in *.
    - destruct k; [|discriminate]. injection H as <- <-. rewrite app_nil_r. apply JR_flush. exact HJ.
    - inversion Hok as [|? ? Hok1 Hok2]; subst.
      destruct (exec_upto st (event_steps ord (ms_doc st) e) k []) as [[st' dn] r] eqn:E.
      destruct (exec_upto_spec _ _ _ _ _ _ _ E) as (l & rest & Hdn & Hsteps & Hex & Hrest). simpl in Hdn. subst dn.
      destruct r as [k'|].
      + rewrite (Hrest (ltac:(eauto))), app_nil_r in Hsteps. subst l.
        rewrite sum_log_app, app_assoc. eapply IH; [eapply JR_event; eauto|exact Hok2|exact H].
      + injection H as <- <- ->. simpl in Hex. injection Hex as <-. simpl. rewrite app_nil_r. apply JR_flush. exact HJ.
  Qed.

  Lemma JR_init : JR (init_state s []) [].
  Proof.
    assert (Hid : reset_sel s CC s = s) by (apply reset_sel_id; auto).
    split; [reflexivity|]. split; [exact Hwfs|]. simpl. rewrite Hid. split; [exact Hwfs|]. split; [reflexivity|].
    split; [constructor|]. split; [apply sm_empty_shape|]. split; [intros t c m H; discriminate H|]. split; [auto|].
    intros t rows Hr. exists rows. split; [exact Hr|]. split; [reflexivity|]. intros r.
    unfold sm_before, for_table. simpl. rewrite lookup_empty. split; [discriminate|tauto].
  Qed.

  Theorem pending_calcs_with_adds_rolled_back es k st cur :
    Forall ev_okr es ->
    run_until_crash ord (init_state s []) es k = Crashed st cur [] ->
    rollback_flush ord st (sum_log (run_log ord (init_state s []) es k)) = Some s.
  Proof. intros Hok H. exact (run_calc_r es _ _ _ _ [] JR_init Hok H). Qed.
End CalcWithAdds.

(* events of the bundles covered: record updates and record adds writing none of CC, recomputations of CC columns *)
Definition upd_add_or_calc_in (CC : list (name * name)) (e : event) : Prop := ev_okr CC e.
