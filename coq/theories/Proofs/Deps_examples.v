(* Concrete instances: the hypotheses of the C05 theorems are satisfiable and exercised; the statement
   without the acyclicity hypothesis is false in the model. *)
From Coq Require Import ZArith List Bool Lia.
Import ListNotations.
Require Import Grist.Model.Deps Grist.Model.DepsSpec Grist.Model.DepsExec.
Require Import Grist.Proofs.DepsSpec_proofs Grist.Proofs.Deps_closure_proofs Grist.Proofs.Deps_inval_proofs
               Grist.Proofs.Deps_order_proofs Grist.Proofs.Deps_rel_proofs Grist.Proofs.Deps_refine_proofs.
Open Scope Z_scope.

Definition R_empty : relst := mkR (fun _ _ => []) (fun _ _ => []) (fun _ _ => []).
Definition noguard : state -> cell -> cell -> (Z -> Z) -> Prop := fun _ _ _ _ => False.
Definition idz (x : Z) : Z := x.

(* node 1: data column A; node 2: formula column B = $A + 1; one row *)
Definition ex_t : itree := Read (1, 1) RId idz (fun x => Ret (x + 1)).
Definition ex_f (c : cell) : option itree := if cell_eqb c (2, 1) then Some ex_t else None.
Definition ex_v (c : cell) : Z := if cell_eqb c (1, 1) then 5 else if cell_eqb c (2, 1) then 6 else 0.
Definition ex_g : gst := mkG [(2, 1, RId)] R_empty (fun _ => None) [].
Definition ex_g1 : gst := mkG [(2, 1, RId)] R_empty (map_set (fun _ => None) 2 (Rows [1])) [2].
Definition ex_s0 : state := to_state ex_v ex_f ex_g.
Definition ex_s1 : state := to_state (upd ex_v (1, 1) 7) ex_f ex_g1.
Definition ex_s2 : state := mkS (upd (upd ex_v (1, 1) 7) (2, 1) 8) ex_f (fun _ => false) [(2, 1, RId)] R_empty.
Definition ex_rank (c : cell) : nat := if Z.eqb (fst c) 2 then 1%nat else 0%nat.

Lemma ex_f_inv c t : ex_f c = Some t -> c = (2, 1) /\ t = ex_t.
Proof.
  unfold ex_f. destruct (cell_eqb c (2, 1)) eqn:E; [| discriminate].
  apply cell_eqb_eq in E. intros H. inversion H. auto.
Qed.

Lemma ex_links s : edges s = [(2, 1, RId)] -> links s (1, 1) (2, 1).
Proof. intros H. exists RId. rewrite H. split; [left; reflexivity | reflexivity]. Qed.

Lemma ex_consistent : consistent noguard ex_s0.
Proof.
  intros c t Hf Hd. apply ex_f_inv in Hf. destruct Hf as [-> ->]. split; [reflexivity |].
  constructor; [| constructor]. left. split; [apply ex_links; reflexivity |].
  intros H. exfalso. apply H. reflexivity.
Qed.

Lemma ex_inval : invalidate_deps 5 ex_g 1 (Rows [1]) false = Some ex_g1.
Proof. reflexivity. Qed.

Lemma ex_owner : owner_ok [(2, 1, RId)].
Proof. intros e [<- | []]. reflexivity. Qed.

Lemma ex_edit : edit_ok noguard ex_s0 (fun c => cell_eqb c (1, 1)) ex_s1.
Proof.
  apply (data_edit_ok noguard 5 ex_v ex_f ex_g (1, 1) 7 ex_g1).
  - exact ex_owner.
  - reflexivity.
  - exact ex_inval.
  - intros c d0 p [].
Qed.

Lemma ex_dirty1 x : dirty ex_s1 x = true -> x = (2, 1).
Proof.
  destruct x as [n r]. cbn [ex_s1 to_state dirty ex_g1 g_map]. unfold in_map, map_set. cbn [fst snd].
  destruct (Z.eqb n 2) eqn:E; [| discriminate]. apply Z.eqb_eq in E. subst n.
  cbn [in_rowset zmem existsb]. rewrite orb_false_r. intros H. apply Z.eqb_eq in H. subst. reflexivity.
Qed.

Lemma ex_eval : eval_ok noguard ex_s1 (2, 1) ex_t ex_s2.
Proof.
  constructor.
  - reflexivity.
  - reflexivity.
  - constructor; [| constructor]. intros H. exfalso. apply H. reflexivity.
  - intros x. reflexivity.
  - intros x. reflexivity.
  - intros x Hx Hd. apply ex_dirty1 in Hd. contradiction.
  - intros _. constructor; [| constructor]. left. split; [apply ex_links; reflexivity |].
    intros H. exfalso. apply H. reflexivity.
  - intros d x H. discriminate.
  - intros d x _ _ _ H. exact H.
  - intros x d p _ _ _ [].
Qed.

Lemma ex_steps : steps noguard ex_s0 ex_s2.
Proof.
  eapply steps_cons; [eapply st_edit; exact ex_edit |].
  eapply steps_cons; [eapply st_eval; exact ex_eval |]. apply steps_refl.
Qed.

Lemma ex_quiescent : quiescent ex_s2.
Proof. intros c _. reflexivity. Qed.

Lemma ex_acyclic : acyclic ex_f ex_rank.
Proof.
  intros c t Hf v. apply ex_f_inv in Hf. destruct Hf as [-> ->].
  constructor; [| constructor]. cbn. lia.
Qed.

(* the theorem applied: B[1] = A[1] + 1 = 8 = what a fresh engine computes *)
Lemma ex_result : val ex_s2 (2, 1) = 8 /\ scratch 2 (fml ex_s2) (val ex_s2) (2, 1) = 8.
Proof.
  split; [reflexivity |].
  rewrite <- (incremental_eq_scratch noguard ex_s0 ex_s2 ex_rank ex_consistent ex_steps ex_quiescent
                ex_acyclic (2, 1) 2%nat); [reflexivity | cbn; lia].
Qed.

(* ---- an edge whose relation does not map the read row back to the reader --------------------------
   usertypes.ReferenceList.do_convert flattens a list of RecordSets with `rec.id`; those records carry the
   BARE ReferenceRelation of their column (node 7), not its composition with the relation through which
   the reader (row 1 of node 2, via lookup map 20) obtained them.  Target row 9 is referred to by row 5 of
   the referring table: the bare relation maps 9 to row 5, not to the reader's row 1; the composed relation
   that field access records does map it back. *)
Definition fl_R : relst :=
  mkR (fun c t => if Z.eqb c 7 && Z.eqb t 9 then [5] else [])
      (fun m n => if Z.eqb m 20 && Z.eqb n 2 then [(1, 77)] else [])
      (fun m t => if Z.eqb m 20 && Z.eqb t 5 then [77] else []).

Lemma flatten_edge_not_covering :
  covers fl_R (RRef 7) 9 1 = false /\ covers fl_R (RComp (RLook 20 2) (RRef 7)) 9 1 = true.
Proof. split; reflexivity. Qed.

(* ---- without acyclicity the statement is false -------------------------------------------- *)
(* "formula values are a function of formulas and data": the property as worded, for all programs *)
Definition full_statement : Prop :=
  forall (guarded : state -> cell -> cell -> (Z -> Z) -> Prop) s1 s2,
    consistent guarded s1 -> consistent guarded s2 -> quiescent s1 -> quiescent s2 ->
    (forall c, fml s1 c = fml s2 c) -> (forall c, fml s1 c = None -> val s1 c = val s2 c) ->
    forall c, val s1 c = val s2 c.

(* a cell whose formula reads itself (in the engine: through the lookup index keyed by its own column) *)
Definition cy_t : itree := Read (3, 1) RId idz (fun x => Ret x).
Definition cy_f (c : cell) : option itree := if cell_eqb c (3, 1) then Some cy_t else None.
Definition cy_s (k : Z) : state :=
  mkS (fun c => if cell_eqb c (3, 1) then k else 0) cy_f (fun _ => false) [(3, 3, RId)] R_empty.

Lemma cy_consistent k : consistent noguard (cy_s k).
Proof.
  intros c t Hf _. cbn [cy_s fml] in Hf. unfold cy_f in Hf.
  destruct (cell_eqb c (3, 1)) eqn:E; [| discriminate]. apply cell_eqb_eq in E. subst c.
  inversion Hf; subst t. split; [reflexivity |].
  constructor; [| constructor]. left. split.
  - exists RId. split; [left; reflexivity | reflexivity].
  - intros _. reflexivity.
Qed.

Lemma full_statement_refuted : ~ full_statement.
Proof.
  intros H.
  assert (X : val (cy_s 1) (3, 1) = val (cy_s 2) (3, 1)).
  { apply (H noguard (cy_s 1) (cy_s 2)); try apply cy_consistent; try (intros c _; reflexivity).
    - intros c. reflexivity.
    - intros c Hc. cbn [cy_s fml val] in *. unfold cy_f in Hc.
      destruct (cell_eqb c (3, 1)); [discriminate | reflexivity]. }
  discriminate X.
Qed.
