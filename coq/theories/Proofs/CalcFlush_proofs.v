(* The calc flush does not depend on the insertion order of the summary's dicts. *)
From Coq Require Import ZArith List Bool Lia Permutation Sorting.Sorted.
Import ListNotations.
Require Import Grist.Model.CalcFlush.
Open Scope Z_scope.

(* ---- sorted() of an association list with distinct keys is canonical ---------------------- *)
Section SortFacts.
Context {K V : Type} (ltb : K -> K -> bool).
Hypothesis lt_irrefl : forall k, ltb k k = false.
Hypothesis lt_trans : forall a b c, ltb a b = true -> ltb b c = true -> ltb a c = true.
Hypothesis lt_total : forall a b, a <> b -> ltb a b = true \/ ltb b a = true.

Definition klt (x y : K * V) : Prop := ltb (fst x) (fst y) = true.

Lemma insert_perm (x : K * V) l : Permutation (insert ltb x l) (x :: l).
Proof.
  induction l as [| y t IH]; cbn [insert]; [reflexivity |].
  destruct (ltb (fst y) (fst x)); [| reflexivity].
  rewrite IH. apply perm_swap.
Qed.

Lemma isort_perm (l : list (K * V)) : Permutation (isort ltb l) l.
Proof.
  induction l as [| x t IH]; cbn [isort]; [reflexivity |].
  rewrite insert_perm. constructor. exact IH.
Qed.

Lemma insert_sorted (x : K * V) l :
  ~ In (fst x) (map fst l) -> StronglySorted klt l -> StronglySorted klt (insert ltb x l).
Proof.
  intros Hn Hs. induction l as [| y t IH]; cbn [insert].
  - constructor; constructor.
  - inversion Hs as [| y' t' Hst Hall]; subst.
    destruct (ltb (fst y) (fst x)) eqn:E.
    + constructor.
      * apply IH; auto. intros X. apply Hn. right. exact X.
      * rewrite Forall_forall. intros z Hz.
        apply (Permutation_in _ (insert_perm x t)) in Hz. destruct Hz as [<- | Hz].
        -- exact E.
        -- rewrite Forall_forall in Hall. apply Hall. exact Hz.
    + assert (Hxy : ltb (fst x) (fst y) = true).
      { destruct (lt_total (fst x) (fst y)) as [H | H]; auto.
        - intros X. apply Hn. left. symmetry. exact X.
        - rewrite H in E. discriminate. }
      constructor; [exact Hs |]. constructor; [exact Hxy |].
      rewrite Forall_forall in *. intros z Hz. unfold klt. eapply lt_trans; [exact Hxy |]. apply Hall. exact Hz.
Qed.

Lemma isort_sorted (l : list (K * V)) : NoDup (map fst l) -> StronglySorted klt (isort ltb l).
Proof.
  induction l as [| x t IH]; cbn [isort map]; intros Hn; [constructor |].
  inversion Hn as [| k ks Hk Hks]; subst. apply insert_sorted; auto.
  intros X. apply Hk. eapply Permutation_in; [| exact X]. apply Permutation_map. apply isort_perm.
Qed.

Lemma sorted_perm_eq (l1 l2 : list (K * V)) :
  StronglySorted klt l1 -> StronglySorted klt l2 -> Permutation l1 l2 -> l1 = l2.
Proof.
  revert l2. induction l1 as [| a t1 IH]; intros l2 S1 S2 P.
  - apply Permutation_nil in P. subst. reflexivity.
  - destruct l2 as [| b t2]; [apply Permutation_sym, Permutation_nil in P; discriminate |].
    inversion S1 as [| ? ? S1' A1]; subst. inversion S2 as [| ? ? S2' A2]; subst.
    assert (Hab : a = b).
    { assert (Ia : In a (b :: t2)) by (eapply Permutation_in; [exact P | left; reflexivity]).
      assert (Ib : In b (a :: t1)) by (eapply Permutation_in; [apply Permutation_sym; exact P | left; reflexivity]).
      destruct Ia as [-> | Ia]; [reflexivity |]. destruct Ib as [-> | Ib]; [reflexivity |].
      rewrite Forall_forall in A1, A2. pose proof (A1 _ Ib) as X. pose proof (A2 _ Ia) as Y.
      unfold klt in X, Y. pose proof (lt_trans _ _ _ X Y) as Z. rewrite lt_irrefl in Z. discriminate. }
    subst b. f_equal. apply IH; auto. eapply Permutation_cons_inv. exact P.
Qed.

Lemma isort_canonical (l l' : list (K * V)) :
  NoDup (map fst l) -> Permutation l l' -> isort ltb l = isort ltb l'.
Proof.
  intros Hn P. apply sorted_perm_eq.
  - apply isort_sorted. exact Hn.
  - apply isort_sorted. eapply Permutation_NoDup; [| exact Hn]. apply Permutation_map. exact P.
  - rewrite isort_perm, isort_perm. exact P.
Qed.
End SortFacts.

(* ---- the order of str (lists of code points) ---------------------------------------------- *)
Lemma name_ltb_irrefl a : name_ltb a a = false.
Proof. induction a as [| x a IH]; cbn; auto. rewrite Z.ltb_irrefl, Z.eqb_refl. exact IH. Qed.

Lemma name_ltb_trans a : forall b c, name_ltb a b = true -> name_ltb b c = true -> name_ltb a c = true.
Proof.
  induction a as [| x a IH]; intros [| y b] [| z c] H1 H2; cbn in *; try discriminate; auto.
  destruct (Z.ltb x y) eqn:A; destruct (Z.ltb y z) eqn:B;
    destruct (Z.eqb x y) eqn:C; destruct (Z.eqb y z) eqn:D; try discriminate;
    repeat match goal with
    | H : Z.ltb _ _ = true |- _ => apply Z.ltb_lt in H
    | H : Z.ltb _ _ = false |- _ => apply Z.ltb_ge in H
    | H : Z.eqb _ _ = true |- _ => apply Z.eqb_eq in H
    | H : Z.eqb _ _ = false |- _ => apply Z.eqb_neq in H
    end.
  all: try (assert (X : Z.ltb x z = true) by (apply Z.ltb_lt; lia); rewrite X; reflexivity).
  subst. rewrite Z.ltb_irrefl, Z.eqb_refl. eapply IH; eauto.
Qed.

Lemma name_ltb_total a : forall b, a <> b -> name_ltb a b = true \/ name_ltb b a = true.
Proof.
  induction a as [| x a IH]; intros [| y b] H; cbn; auto; try congruence.
  destruct (Z.ltb x y) eqn:A; auto. destruct (Z.ltb y x) eqn:B; auto.
  apply Z.ltb_ge in A, B. assert (x = y) by lia. subst y. rewrite Z.eqb_refl.
  apply IH. intros ->. apply H. reflexivity.
Qed.

Lemma name_eqb_eq a : forall b, name_eqb a b = true <-> a = b.
Proof.
  induction a as [| x a IH]; intros [| y b]; cbn; split; intros H; try discriminate; auto.
  - apply andb_true_iff in H. destruct H as [H1 H2]. apply Z.eqb_eq in H1. apply IH in H2. congruence.
  - inversion H; subst. rewrite Z.eqb_refl. apply IH. reflexivity.
Qed.

Lemma zlt_total a b : a <> b -> Z.ltb a b = true \/ Z.ltb b a = true.
Proof. intros H. destruct (Z.ltb a b) eqn:A; auto. right. apply Z.ltb_lt. apply Z.ltb_ge in A. lia. Qed.

Lemma zlt_trans a b c : Z.ltb a b = true -> Z.ltb b c = true -> Z.ltb a c = true.
Proof. rewrite !Z.ltb_lt. lia. Qed.

(* dict lookup does not depend on the insertion order *)
Lemma nget_perm {V} (l l' : list (name * V)) k :
  NoDup (map fst l) -> Permutation l l' -> nget l' k = nget l k.
Proof.
  intros Hn P. induction P as [| [a v] l l' P IH | [a v] [b w] l | l1 l2 l3 P1 IH1 P2 IH2].
  - reflexivity.
  - cbn [nget]. inversion Hn; subst. rewrite IH; auto.
  - cbn [nget]. destruct (name_eqb b k) eqn:B; destruct (name_eqb a k) eqn:A; auto.
    apply name_eqb_eq in A, B. subst. inversion Hn as [| ? ? X _]; subst. exfalso. apply X. left. reflexivity.
  - rewrite IH2, IH1; auto. eapply Permutation_NoDup; [| exact Hn]. apply Permutation_map. exact P1.
Qed.

Lemma changes_ext tr lk lk' tid cid td cd out :
  (forall k, lk k = lk' k) ->
  changes_to_actions tr lk tid cid td cd out = changes_to_actions tr lk' tid cid td cd out.
Proof.
  intros H. unfold changes_to_actions, filter_gone, filter_new, is_created.
  rewrite (H (root_name tid)), (H tid). reflexivity.
Qed.

Lemma flush_cols_ext tr lk lk' tt cols : (forall k, lk k = lk' k) ->
  forall out, flush_cols tr lk tt cols out = flush_cols tr lk' tt cols out.
Proof.
  intros H. unfold flush_cols. induction cols as [| c cols IH]; intros out; cbn [fold_left]; auto.
  rewrite (changes_ext tr lk lk' _ _ _ _ _ H). apply IH.
Qed.

Lemma flush_sorted_ext tr lk lk' tabs : (forall k, lk k = lk' k) ->
  forall out, flush_sorted tr lk tabs out = flush_sorted tr lk' tabs out.
Proof.
  intros H. unfold flush_sorted. induction tabs as [| t tabs IH]; intros out; cbn [fold_left]; auto.
  rewrite (flush_cols_ext tr lk lk' _ _ H). apply IH.
Qed.

(* insertion order of the tables in ActionSummary._tables *)
Theorem flush_tables_canonical s s' out :
  s_tabren s = s_tabren s' -> NoDup (map fst (s_tables s)) -> Permutation (s_tables s) (s_tables s') ->
  convert_deltas_to_actions s out = convert_deltas_to_actions s' out.
Proof.
  intros Hr Hn P. unfold convert_deltas_to_actions. rewrite <- Hr.
  rewrite <- (isort_canonical name_ltb name_ltb_irrefl name_ltb_trans name_ltb_total _ _ Hn P).
  apply flush_sorted_ext. intros k. symmetry. apply nget_perm; auto.
Qed.

(* insertion order of the columns in TableDelta.column_deltas *)
Theorem flush_cols_canonical tr lk tt cols cols' out :
  NoDup (map fst cols) -> Permutation cols cols' ->
  flush_cols tr lk tt (isort name_ltb cols) out = flush_cols tr lk tt (isort name_ltb cols') out.
Proof.
  intros Hn P.
  rewrite (isort_canonical name_ltb name_ltb_irrefl name_ltb_trans name_ltb_total _ _ Hn P). reflexivity.
Qed.

Lemma zget_perm {V} (l l' : list (Z * V)) k :
  NoDup (map fst l) -> Permutation l l' -> zget l' k = zget l k.
Proof.
  intros Hn P. induction P as [| [a v] l l' P IH | [a v] [b w] l | l1 l2 l3 P1 IH1 P2 IH2].
  - reflexivity.
  - cbn [zget]. inversion Hn; subst. rewrite IH; auto.
  - cbn [zget]. destruct (Z.eqb b k) eqn:B; destruct (Z.eqb a k) eqn:A; auto.
    apply Z.eqb_eq in A, B. subst. inversion Hn as [| ? ? X _]; subst. exfalso. apply X. left. reflexivity.
  - rewrite IH2, IH1; auto. eapply Permutation_NoDup; [| exact Hn]. apply Permutation_map. exact P1.
Qed.

Lemma NoDup_map_filter {A B} (g : A -> B) (f : A -> bool) l : NoDup (map g l) -> NoDup (map g (filter f l)).
Proof.
  induction l as [| a l IH]; cbn [filter map]; intros H; [constructor |].
  inversion H as [| ? ? X Y]; subst. destruct (f a); cbn [map]; auto.
  constructor; auto. intros Z. apply X. apply in_map_iff in Z. destruct Z as (y & E & Hy).
  apply filter_In in Hy. apply in_map_iff. exists y. tauto.
Qed.

Lemma perm_filter {A} (f : A -> bool) l l' : Permutation l l' -> Permutation (filter f l) (filter f l').
Proof.
  induction 1 as [| a l l' P IH | a b l | l1 l2 l3 P1 IH1 P2 IH2]; cbn [filter].
  - constructor.
  - destruct (f a); auto.
  - destruct (f a); destruct (f b); auto. apply perm_swap.
  - eapply Permutation_trans; eauto.
Qed.

Lemma changed_rows_perm cd cd' :
  NoDup (map fst cd) -> Permutation cd cd' -> changed_rows cd = changed_rows cd'.
Proof.
  intros Hn P. unfold changed_rows. f_equal.
  apply (isort_canonical Z.ltb Z.ltb_irrefl zlt_trans zlt_total).
  - apply NoDup_map_filter. exact Hn.
  - apply perm_filter. exact P.
Qed.

Lemma pick_perm cd cd' a rows :
  NoDup (map fst cd) -> Permutation cd cd' -> pick cd' a rows = pick cd a rows.
Proof.
  intros Hn P. unfold pick. apply map_ext. intros r. rewrite (zget_perm cd cd' r Hn P). reflexivity.
Qed.

(* insertion order of the rows in one column delta *)
Theorem flush_rows_canonical tr lk tid cid td cd cd' out :
  NoDup (map fst cd) -> Permutation cd cd' ->
  changes_to_actions tr lk tid cid td cd out = changes_to_actions tr lk tid cid td cd' out.
Proof.
  intros Hn P. destruct cd as [| p cd]; destruct cd' as [| p' cd'].
  - reflexivity.
  - apply Permutation_nil in P. discriminate.
  - apply Permutation_sym, Permutation_nil in P. discriminate.
  - unfold changes_to_actions. destruct out as [stored undo].
    rewrite (changed_rows_perm _ _ Hn P).
    rewrite !(pick_perm _ _ _ _ Hn P). reflexivity.
Qed.

(* ---- apply_auto_removes ------------------------------------------------------------------- *)
Definition nonneg (t : name) : Prop := Forall (fun c => 0 <= c) t.

Lemma key_tail_inj t : forall t' r r', nonneg t -> nonneg t' ->
  t ++ [-1; r] = t' ++ [-1; r'] -> t = t' /\ r = r'.
Proof.
  induction t as [| c t IH]; intros [| c' t'] r r' H1 H2 E; cbn in E.
  - inversion E. auto.
  - inversion E; subst. inversion H2; subst. lia.
  - inversion E; subst. inversion H1; subst. lia.
  - inversion E; subst. inversion H1; inversion H2; subst.
    destruct (IH t' r r') as [-> ->]; auto.
Qed.

Lemma rec_key_inj tn (a b : name * Z) : nonneg (fst a) -> nonneg (fst b) ->
  rec_key (name_eqb (fst a) tn) (fst a) (snd a) = rec_key (name_eqb (fst b) tn) (fst b) (snd b) -> a = b.
Proof.
  intros Ha Hb E. unfold rec_key in E. inversion E as [[E1 E2]].
  destruct (key_tail_inj _ _ _ _ Ha Hb E2) as [X Y]. destruct a, b. cbn in *. congruence.
Qed.

Theorem auto_remove_sorted tn recs recs' :
  Forall (fun tr => nonneg (fst tr)) recs -> NoDup recs -> Permutation recs recs' ->
  auto_remove_order tn recs = auto_remove_order tn recs'.
Proof.
  intros Hnn Hn P. unfold auto_remove_order. f_equal.
  apply (isort_canonical name_ltb name_ltb_irrefl name_ltb_trans name_ltb_total).
  - rewrite map_map. cbn [fst]. clear P recs'.
    induction recs as [| a l IH]; cbn [map]; [constructor |].
    inversion Hn as [| ? ? X Y]; subst. inversion Hnn as [| ? ? Ha Hl]; subst.
    constructor; [| apply IH; auto].
    intros Z. apply in_map_iff in Z. destruct Z as (b & E & Hb).
    rewrite Forall_forall in Hl. apply rec_key_inj in E; auto. subst b. contradiction.
  - apply Permutation_map. exact P.
Qed.
