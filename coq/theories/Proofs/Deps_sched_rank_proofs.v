(* The scheduler statement with post-invalidation: a pick may mark further cells dirty (the re-evaluation of a
   lookup-map cell invalidates the rows that looked up the old or the new key), but only cells of strictly higher
   rank than the evaluated one.  Every interleaving is still finite (weight B^(K - rank) per dirty cell), can only
   stop at quiescence, and then holds the scratch values. *)
From Coq Require Import ZArith List Bool Lia PeanoNat.
Import ListNotations.
Require Import Grist.Model.Deps Grist.Model.DepsSpec.
Require Import Grist.Proofs.DepsSpec_proofs Grist.Proofs.Deps_sched_proofs.
Open Scope Z_scope.

Section WeightedSum.
Variable w : cell -> nat.
Definition wsum (a : cell -> bool) (l : list cell) : nat :=
  fold_right (fun u acc => ((if a u then w u else 0) + acc)%nat) 0%nat l.

Lemma wsum_step (a a' : cell -> bool) (c : cell) (D : nat) :
  forall l, (forall u, In u l -> a' u = true -> (a u = true /\ u <> c) \/ (w u <= D)%nat) ->
  (wsum a' l <= wsum (fun u => a u && negb (cell_eqb u c)) l + length l * D)%nat.
Proof.
  induction l as [| u l IH]; intros H; cbn [wsum fold_right length]; [lia |].
  fold (wsum a' l) (wsum (fun u => a u && negb (cell_eqb u c)) l).
  assert (IH' := IH (fun x Hx => H x (or_intror Hx))).
  destruct (a' u) eqn:A'; [| lia].
  destruct (H u (or_introl eq_refl) A') as [[Ha Hne] | Hw].
  - rewrite Ha, (cell_eqb_neq _ _ Hne). cbn [negb andb]. lia.
  - destruct (a u && negb (cell_eqb u c)); lia.
Qed.

Lemma wsum_remove (a : cell -> bool) (c : cell) :
  forall l, In c l -> a c = true -> (wsum (fun u => a u && negb (cell_eqb u c)) l + w c <= wsum a l)%nat.
Proof.
  induction l as [| u l IH]; intros Hin Ha; [destruct Hin |].
  cbn [wsum fold_right]. fold (wsum a l) (wsum (fun u => a u && negb (cell_eqb u c)) l).
  assert (Le : forall l0, (wsum (fun u => a u && negb (cell_eqb u c)) l0 <= wsum a l0)%nat).
  { induction l0 as [| z l0 IH0]; cbn [wsum fold_right]; auto.
    fold (wsum a l0) (wsum (fun u => a u && negb (cell_eqb u c)) l0).
    destruct (a z); cbn [andb]; [destruct (negb (cell_eqb z c)) |]; lia. }
  destruct Hin as [-> | Hin].
  - rewrite Ha, cell_eqb_refl. cbn [negb andb]. pose proof (Le l). lia.
  - specialize (IH Hin Ha). destruct (a u); cbn [andb]; [destruct (negb (cell_eqb u c)) |]; lia.
Qed.
End WeightedSum.

Section SchedRank.
Variable guarded : state -> cell -> cell -> (Z -> Z) -> Prop.
Variable rank : cell -> nat.
Variable U : list cell.          (* all formula cells that can be dirty *)
Variable K : nat.                (* their ranks are at most K *)
Hypothesis HK : forall u, In u U -> (rank u <= K)%nat.

Definition isd (s : state) (u : cell) : bool :=
  dirty s u && match fml s u with Some _ => true | None => false end.

(* one pick: the evaluated cell becomes clean; cells that become dirty have a higher rank *)
Definition pick_r (s s' : state) : Prop :=
  exists c t, eval_ok guarded s c t s' /\ dirty s' c = false /\
              (forall x, fml s x <> None -> dirty s' x = true -> dirty s x = true \/ (rank c < rank x)%nat).

Inductive run_r : nat -> state -> state -> Prop :=
| runr_0 s : run_r 0 s s
| runr_S k s s1 s2 : pick_r s s1 -> within U s1 -> run_r k s1 s2 -> run_r (S k) s s2.

Definition B : nat := S (length U).
Definition wt (u : cell) : nat := Nat.pow B (K - rank u).
Definition weight (s : state) : nat := wsum wt (isd s) U.

Lemma pick_r_decreases s s' : within U s -> within U s' -> pick_r s s' -> (weight s' < weight s)%nat.
Proof.
  intros HU HU' (c & t & E & Hc & Hnew).
  assert (Hin : In c U).
  { apply HU; [rewrite (v_fml _ _ _ _ _ E); discriminate | apply (v_dirty _ _ _ _ _ E)]. }
  assert (Hac : isd s c = true).
  { unfold isd. rewrite (v_dirty _ _ _ _ _ E), (v_fml _ _ _ _ _ E). reflexivity. }
  set (r := rank c).
  set (D := if Nat.ltb r K then Nat.pow B (K - r - 1) else 0%nat).
  assert (Hstep : forall u, In u U -> isd s' u = true -> (isd s u = true /\ u <> c) \/ (wt u <= D)%nat).
  { intros u Hu Hd'. unfold isd in Hd'. apply andb_true_iff in Hd'. destruct Hd' as [H1 H2].
    rewrite (v_fmls _ _ _ _ _ E) in H2.
    assert (Hfu : fml s u <> None) by (destruct (fml s u); [discriminate | discriminate H2]).
    destruct (Hnew u Hfu H1) as [Hold | Hr].
    - left. split; [unfold isd; rewrite Hold, H2; reflexivity |]. intros ->. rewrite Hc in H1. discriminate.
    - right. unfold wt, D. fold r in Hr. pose proof (HK u Hu).
      assert (Nat.ltb r K = true) by (apply Nat.ltb_lt; lia). rewrite H0.
      apply Nat.pow_le_mono_r; [unfold B; lia | lia]. }
  pose proof (wsum_step wt (isd s) (isd s') c D U Hstep) as S1.
  pose proof (wsum_remove wt (isd s) c U Hin Hac) as S2.
  assert (Hlt : (length U * D < wt c)%nat).
  { unfold wt, D. fold r. destruct (Nat.ltb r K) eqn:L.
    - apply Nat.ltb_lt in L. remember (K - r - 1)%nat as e eqn:He.
      replace (K - r)%nat with (S e) by lia. rewrite Nat.pow_succ_r'.
      assert (0 < Nat.pow B e)%nat by (apply Nat.neq_0_lt_0; apply Nat.pow_nonzero; unfold B; lia).
      unfold B at 2. nia.
    - assert (0 < Nat.pow B (K - r))%nat by (apply Nat.neq_0_lt_0; apply Nat.pow_nonzero; unfold B; lia). lia. }
  unfold weight. lia.
Qed.

(* every interleaving is finite *)
Theorem run_r_bounded k s s' : within U s -> run_r k s s' -> (k + weight s' <= weight s)%nat /\ within U s'.
Proof.
  intros HU H. revert HU. induction H as [| k s s1 s2 Hp HU1 _ IH]; intros HU; [split; auto; lia |].
  pose proof (pick_r_decreases s s1 HU HU1 Hp). destruct (IH HU1) as [Hle HU2]. split; auto. lia.
Qed.

Lemma run_r_steps k s s' : run_r k s s' -> steps guarded s s'.
Proof.
  induction 1 as [| k s s1 s2 (c & t & E & _) _ _ IH]; [apply steps_refl |].
  eapply steps_cons; [eapply st_eval; exact E | exact IH].
Qed.

Lemma run_r_fml k s s' : run_r k s s' -> forall x, fml s' x = fml s x.
Proof.
  induction 1 as [| k s s1 s2 (c & t & E & _) _ _ IH]; auto.
  intros x. rewrite IH. apply (v_fmls _ _ _ _ _ E).
Qed.

Theorem any_interleaving_with_post_invalidation_reaches_scratch k s s' :
  consistent guarded s -> acyclic (fml s) rank -> within U s -> run_r k s s' ->
  (forall c, ~ ready s' c) ->
  (k <= weight s)%nat /\ quiescent s' /\
  forall c fuel, (rank c < fuel)%nat -> val s' c = scratch fuel (fml s') (val s') c.
Proof.
  intros C Hac HU Hr Hstuck.
  assert (Hac' : acyclic (fml s') rank).
  { intros c t Hf v. apply (Hac c t). rewrite <- (run_r_fml _ _ _ Hr c). exact Hf. }
  assert (Q : quiescent s').
  { intros c Hf. destruct (dirty s' c) eqn:Dd; auto.
    destruct (progress s' rank Hac' c Hf Dd) as [c' Hc']. exfalso. apply (Hstuck c'). exact Hc'. }
  split; [| split; [exact Q |]].
  - destruct (run_r_bounded k s s' HU Hr) as [H _]. lia.
  - intros c fuel Hlt. apply (incremental_eq_scratch guarded s s' rank C (run_r_steps _ _ _ Hr) Q Hac' c fuel Hlt).
Qed.

End SchedRank.
