(* Proofs for C34 about the translated integer core of moment.Zone (GristGen.Moment_gen) and the datetime-level
   model on top of it (Model/MomentTz.v): a zone that passes [zone_ok] round-trips every instant, and every
   local time gets the offset in effect at the instant it is mapped to, or (skipped local times) the offset
   that starts at the transition whose gap it falls into. *)
From Coq Require Import ZArith List Bool Lia.
Import ListNotations.
Require Import Grist.Lib.PyPrelude Grist.Lib.PyList Grist.Model.Moment GristGen.Moment_gen Grist.Model.MomentTz.
Open Scope Z_scope.

(* ---- lists --------------------------------------------------------------------------------------- *)

Lemma nth_map_combine_sub : forall (u w : list Z) (k : nat),
  (k < length u)%nat -> (k < length w)%nat ->
  nth k (map (fun '(a, b) => a - b * 60000) (combine u w)) 0 = nth k u 0 - nth k w 0 * 60000.
Proof.
  induction u as [|a u IH]; intros w k Hu Hw; simpl in *; [lia|].
  destruct w as [|b w]; simpl in *; [lia|].
  destruct k as [|k]; [reflexivity|]. apply IH; lia.
Qed.

Lemma length_map_combine : forall (A B C : Type) (f : A * B -> C) (u : list A) (w : list B),
  length (map f (combine u w)) = Nat.min (length u) (length w).
Proof. intros. rewrite map_length, combine_length. reflexivity. Qed.

(* ---- what zone_ok gives ------------------------------------------------------------------------- *)

Record zone_facts (z : zone) : Prop := {
  zf_len_w : lenZ (z_offsets z) = nZ z + 1;
  zf_len_ou : lenZ (z_offset_untils z) = nZ z;
  zf_ou : forall k, 0 <= k < nZ z -> getZ (z_offset_untils z) k = OU z k;
  zf_U : forall i j, 0 <= i -> i <= j -> j < nZ z -> U z i <= U z j;
  zf_OU : forall i j, 0 <= i -> i <= j -> j < nZ z -> OU z i <= OU z j;
  zf_TH : forall i j, 0 <= i -> i <= j -> j < nZ z -> TH z i <= TH z j;
  zf_A : forall k, 0 <= k -> k + 1 < nZ z -> OU z k <= TH z (k + 1);
  zf_B : forall k, 0 <= k -> k + 1 < nZ z -> U z k - W z (k + 2) <= OU z (k + 1)
}.

Lemma zone_ok_facts : forall z, zone_ok z = true -> zone_facts z.
Proof.
  intros z H. unfold zone_ok in H.
  apply andb_true_iff in H. destruct H as [Hlen H].
  apply andb_true_iff in H. destruct H as [Hou Hall].
  apply Z.eqb_eq in Hlen. apply py_list_eqb_Z_eq in Hou.
  assert (Hadj : forall k, 0 <= k -> k + 1 < nZ z ->
            U z k <= U z (k + 1) /\ OU z k <= OU z (k + 1) /\ TH z k <= TH z (k + 1) /\
            OU z k <= TH z (k + 1) /\ U z k - W z (k + 2) <= OU z (k + 1)).
  { intros k Hk0 Hk1. rewrite forallb_forall in Hall.
    specialize (Hall k). rewrite in_zrange in Hall. specialize (Hall ltac:(lia)).
    repeat (apply andb_true_iff in Hall; destruct Hall as [?H Hall]).
    repeat match goal with Hx : (_ <=? _) = true |- _ => apply Z.leb_le in Hx end. repeat split; assumption. }
  assert (Hlenou : lenZ (z_offset_untils z) = nZ z).
  { rewrite Hou. unfold zone_init_offset_untils, lenZ, nZ in *. rewrite length_map_combine. unfold lenZ in *. lia. }
  constructor; auto.
  - intros k Hk. rewrite Hou. unfold zone_init_offset_untils, getZ, OU, U, W, getZ.
    apply nth_map_combine_sub; unfold nZ, lenZ in *; lia.
  - apply mono_from_adjacent. intros k H0 H1. apply (Hadj k H0 H1).
  - apply mono_from_adjacent. intros k H0 H1. apply (Hadj k H0 H1).
  - apply mono_from_adjacent. intros k H0 H1. apply (Hadj k H0 H1).
  - intros k H0 H1. apply (Hadj k H0 H1).
  - intros k H0 H1. apply (Hadj k H0 H1).
Qed.

Lemma facts_sorted_untils : forall z, zone_facts z -> sortedZ (z_untils z).
Proof. intros z F i j Hi Hij Hj. apply (zf_U z F); auto. Qed.

Lemma facts_sorted_ou : forall z, zone_facts z -> sortedZ (z_offset_untils z).
Proof.
  intros z F i j Hi Hij Hj. rewrite (zf_len_ou z F) in Hj.
  rewrite !(zf_ou z F) by lia. apply (zf_OU z F); auto.
Qed.

(* ---- the translated functions, characterised ----------------------------------------------------- *)

(* Zone._index: the interval containing the instant *)
Lemma zone_index_spec : forall oob z ts, zone_facts z ->
  let j := zone_index oob z ts in
  0 <= j <= nZ z /\ (forall k, 0 <= k < j -> U z k <= ts) /\ (forall k, j <= k < nZ z -> ts < U z k).
Proof.
  intros oob z ts F. unfold zone_index.
  exact (py_bisect_right_spec (z_untils z) ts (facts_sorted_untils z F)).
Qed.

Lemma zone_index_unique : forall oob z ts j, zone_facts z ->
  0 <= j <= nZ z -> (j = 0 \/ U z (j - 1) <= ts) -> (j = nZ z \/ ts < U z j) ->
  zone_index oob z ts = j.
Proof.
  intros oob z ts j F Hj Hl Hr. unfold zone_index.
  apply py_bisect_right_unique; auto using facts_sorted_untils.
  - intros k Hk. destruct Hl as [->|Hl]; [lia|].
    pose proof (zf_U z F k (j - 1)). unfold nZ in *. fold (U z k). lia.
  - intros k Hk. destruct Hr as [->|Hr]; [unfold nZ in *; lia|].
    pose proof (zf_U z F j k). unfold nZ in *. fold (U z k). lia.
Qed.

Lemma zone_index_in_interval : forall oob z ts, zone_facts z -> in_interval z (zone_index oob z ts) ts.
Proof.
  intros oob z ts F. destruct (zone_index_spec oob z ts F) as [H0 [H1 H2]].
  set (j := zone_index oob z ts) in *. unfold in_interval. split; [exact H0|]. split.
  - destruct (Z.eq_dec j 0); [left; assumption|right; apply H1; lia].
  - destruct (Z.eq_dec j (nZ z)); [left; assumption|right; apply H2; lia].
Qed.

(* Zone.offset *)
Lemma zone_offset_eq : forall oob z ts, zone_facts z -> zone_offset oob z ts = E z (zone_index oob z ts).
Proof.
  intros oob z ts F. unfold zone_offset, E.
  destruct (zone_index_spec oob z ts F) as [H0 _].
  rewrite py_getitem_in_range; [reflexivity|]. rewrite (zf_len_w z F). lia.
Qed.

(* Zone._index_dt, as a function of i = bisect_right(offset_untils, local) *)
Lemma zone_index_dt_eq : forall oob z L f, zone_facts z ->
  let i := py_bisect_right (z_offset_untils z) L in
  (0 <= i <= nZ z /\ (forall k, 0 <= k < i -> OU z k <= L) /\ (forall k, i <= k < nZ z -> L < OU z k)) /\
  zone_index_dt oob z L f =
    (if andb (i <? nZ z) (andb (TH z i <=? L) (py_opt_eqb Z.eqb (Some (E z (i + 1))) f)) then i + 1 else i).
Proof.
  intros oob z L f F.
  destruct (py_bisect_right_spec (z_offset_untils z) L (facts_sorted_ou z F)) as [H0 [H1 H2]].
  cbv zeta in *. set (i := py_bisect_right (z_offset_untils z) L) in *.
  rewrite (zf_len_ou z F) in *.
  split.
  - split; [exact H0|]. split.
    + intros k Hk. rewrite <- (zf_ou z F) by lia. apply H1; lia.
    + intros k Hk. rewrite <- (zf_ou z F) by lia. apply H2; lia.
  - unfold zone_index_dt, py_utc_to_ts_ms. fold i.
    change (Z.of_nat (length (z_offset_untils z))) with (lenZ (z_offset_untils z)).
    rewrite (zf_len_ou z F).
    destruct (i <? nZ z) eqn:Ei.
    + apply Z.ltb_lt in Ei.
      rewrite !py_getitem_in_range by (try rewrite (zf_len_w z F); unfold nZ in *; lia).
      cbn [andb]. fold (U z i). fold (W z (i + 1)). fold (TH z i). fold (E z (i + 1)).
      rewrite Z.geb_leb.
      destruct (TH z i <=? L); cbn [andb]; [|reflexivity].
      destruct (py_opt_eqb Z.eqb (Some (E z (i + 1))) f); reflexivity.
    + cbn [andb]. reflexivity.
Qed.

(* Zone.dt_offset *)
Lemma zone_index_dt_range : forall oob z L f, zone_facts z -> 0 <= zone_index_dt oob z L f <= nZ z.
Proof.
  intros oob z L f F. destruct (zone_index_dt_eq oob z L f F) as [[H0 _] Heq]. cbv zeta in *.
  rewrite Heq. destruct (py_bisect_right (z_offset_untils z) L <? nZ z) eqn:Ei; cbn [andb]; [|lia].
  apply Z.ltb_lt in Ei.
  match goal with |- context [if ?c then _ else _] => destruct c end; lia.
Qed.

Lemma zone_dt_offset_eq : forall oob z L f, zone_facts z ->
  zone_dt_offset oob z L f = E z (zone_index_dt oob z L f).
Proof.
  intros oob z L f F. unfold zone_dt_offset, E.
  pose proof (zone_index_dt_range oob z L f F).
  rewrite py_getitem_in_range; [reflexivity|]. rewrite (zf_len_w z F). lia.
Qed.

(* no result depends on what an out-of-range subscript would yield *)
Lemma zone_index_dt_oob_irrelevant : forall oob1 oob2 z L f, zone_facts z ->
  zone_index_dt oob1 z L f = zone_index_dt oob2 z L f.
Proof.
  intros. destruct (zone_index_dt_eq oob1 z L f H) as [_ ->]. destruct (zone_index_dt_eq oob2 z L f H) as [_ ->].
  reflexivity.
Qed.

Lemma E_W : forall z k, E z k = - W z k.
Proof. intros. unfold E, W, py_timedelta_minutes. lia. Qed.

(* ---- round trip ----------------------------------------------------------------------------------- *)

(* the offset recovered from the local time (with the favor that fromutc attaches) is the offset that
   produced it *)
Lemma roundtrip_offset : forall oob z ts, zone_facts z ->
  let e := E z (zone_index oob z ts) in
  E z (zone_index_dt oob z (ts + e) (Some e)) = e.
Proof.
  intros oob z ts F. cbv zeta.
  destruct (zone_index_spec oob z ts F) as [Hj [Hj1 Hj2]]. cbv zeta in *.
  set (j := zone_index oob z ts) in *.
  destruct (zone_index_dt_eq oob z (ts + E z j) (Some (E z j)) F) as [[Hi [Hi1 Hi2]] Heq]. cbv zeta in *.
  set (L := ts + E z j) in *.
  set (i := py_bisect_right (z_offset_untils z) L) in *.
  rewrite Heq. clear Heq.
  assert (HL : L = ts - W z j) by (unfold L; rewrite E_W; lia).
  assert (Hij : i <= j).
  { destruct (Z_lt_le_dec j i) as [Hlt|]; [|assumption].
    specialize (Hj2 j ltac:(lia)). specialize (Hi1 j ltac:(lia)). unfold OU in Hi1. lia. }
  destruct (Z.eq_dec i j) as [Eij|Nij].
  - (* the local time is found in its own interval, or in the next one with an equal offset *)
    destruct (i <? nZ z); cbn [andb]; [|rewrite Eij; reflexivity].
    destruct (TH z i <=? L); cbn [andb]; [|rewrite Eij; reflexivity].
    destruct (py_opt_eqb Z.eqb (Some (E z (i + 1))) (Some (E z j))) eqn:Eeq; [|rewrite Eij; reflexivity].
    cbn [py_opt_eqb] in Eeq. apply Z.eqb_eq in Eeq. exact Eeq.
  - (* i < j: the local time lies before the local end of an earlier interval; that interval is j-1 *)
    assert (Hi_lt : i < nZ z) by lia.
    specialize (Hi2 i ltac:(lia)).
    specialize (Hj1 (j - 1) ltac:(lia)).
    assert (Ei : i = j - 1).
    { destruct (Z_lt_le_dec i (j - 1)) as [Hlt|]; [|lia].
      pose proof (zf_OU z F i (j - 2) ltac:(lia) ltac:(lia) ltac:(lia)) as Hm.
      pose proof (zf_A z F (j - 2) ltac:(lia) ltac:(lia)) as Ha.
      replace (j - 2 + 1) with (j - 1) in Ha by lia. unfold TH in Ha.
      replace (j - 1 + 1) with j in Ha by lia. lia. }
    replace (i <? nZ z) with true by (symmetry; apply Z.ltb_lt; lia).
    replace (TH z i <=? L) with true.
    2:{ symmetry. apply Z.leb_le. unfold TH. rewrite Ei. replace (j - 1 + 1) with j by lia. lia. }
    replace (i + 1) with j by lia. cbn [andb py_opt_eqb]. rewrite Z.eqb_refl. reflexivity.
Qed.

Theorem zone_ok_sound : forall z, zone_ok z = true ->
  forall oob ts, dt_to_ts oob z (ts_to_dt oob ts z) = ts.
Proof.
  intros z Hok oob ts. pose proof (zone_ok_facts z Hok) as F.
  unfold dt_to_ts, tz_utcoffset, ts_to_dt, tz_fromutc, py_utc_to_ts_ms. cbn [dt_local dt_favor].
  rewrite zone_offset_eq by exact F. rewrite zone_dt_offset_eq by exact F.
  pose proof (roundtrip_offset oob z ts F) as H. cbv zeta in H. rewrite H. lia.
Qed.

(* ts_to_dt shows the offset of the interval that contains the instant *)
Theorem ts_to_dt_spec : forall z, zone_ok z = true -> forall oob ts,
  exists k, in_interval z k ts /\ ts_to_dt oob ts z = mk_adt (ts + E z k) (Some (E z k)).
Proof.
  intros z Hok oob ts. pose proof (zone_ok_facts z Hok) as F.
  exists (zone_index oob z ts). split; [apply zone_index_in_interval; exact F|].
  unfold ts_to_dt, tz_fromutc, py_utc_to_ts_ms. rewrite zone_offset_eq by exact F. reflexivity.
Qed.

(* ---- local times ---------------------------------------------------------------------------------- *)

Lemma ts_to_dt_local : forall oob z ts k, zone_facts z -> in_interval z k ts ->
  dt_local (ts_to_dt oob ts z) = ts + E z k.
Proof.
  intros oob z ts k F [Hk [Hl Hr]].
  unfold ts_to_dt, tz_fromutc, py_utc_to_ts_ms. cbn [dt_local].
  rewrite zone_offset_eq by exact F. rewrite (zone_index_unique oob z ts k F Hk Hl Hr). reflexivity.
Qed.

(* Every local time L (with any favor) is assigned the offset of an interval r such that either the instant
   t it is mapped to lies in interval r and renders as L again, or L is a skipped local time: no instant
   renders as L, L lies in the gap of transition r-1 (at or after the local end of interval r-1, before the
   local start of interval r), t lies in interval r-1 and the offset assigned is that of the interval r
   which starts at that transition. *)
Theorem local_offset_is_adjacent : forall z, zone_ok z = true -> forall oob L f,
  let r := zone_index_dt oob z L f in
  let t := local_to_ts oob z L f in
  zone_dt_offset oob z L f = E z r /\ 0 <= r <= nZ z /\
  ((in_interval z r t /\ dt_local (ts_to_dt oob t z) = L) \/
   (1 <= r /\ in_interval z (r - 1) t /\ OU z (r - 1) <= L < TH z (r - 1) /\
    forall ts, dt_local (ts_to_dt oob ts z) <> L)).
Proof.
  intros z Hok oob L f. pose proof (zone_ok_facts z Hok) as F. cbv zeta.
  pose proof (zone_index_dt_range oob z L f F) as Hr.
  unfold local_to_ts. rewrite zone_dt_offset_eq by exact F.
  split; [reflexivity|]. split; [exact Hr|].
  destruct (zone_index_dt_eq oob z L f F) as [[Hi [Hi1 Hi2]] Heq]. cbv zeta in *.
  set (i := py_bisect_right (z_offset_untils z) L) in *.
  set (r := zone_index_dt oob z L f) in *.
  destruct (andb (i <? nZ z) (andb (TH z i <=? L) (py_opt_eqb Z.eqb (Some (E z (i + 1))) f))) eqn:Ec.
  - (* the later of two candidate intervals, chosen by the favor *)
    apply andb_true_iff in Ec. destruct Ec as [Ec1 Ec2]. apply andb_true_iff in Ec2. destruct Ec2 as [Ec2 _].
    apply Z.ltb_lt in Ec1. apply Z.leb_le in Ec2.
    left. assert (Hin : in_interval z r (L - E z r)).
    { rewrite Heq. rewrite E_W. unfold in_interval. split; [lia|]. split.
      - right. replace (i + 1 - 1) with i by lia. unfold TH in Ec2. lia.
      - destruct (Z.eq_dec (i + 1) (nZ z)); [left; assumption|right].
        specialize (Hi2 (i + 1) ltac:(lia)). unfold OU in Hi2. lia. }
    split; [exact Hin|]. rewrite (ts_to_dt_local oob z _ r F Hin). lia.
  - rewrite Heq in *. clear Heq.
    destruct (Z_le_gt_dec i 0) as [Hi0|Hi0]; [|destruct (Z_le_gt_dec (TH z (i - 1)) L) as [Hth|Hth]].
    + (* first interval *)
      left. assert (Hin : in_interval z i (L - E z i)).
      { rewrite E_W. unfold in_interval. split; [lia|]. split; [left; lia|].
        destruct (Z.eq_dec i (nZ z)); [left; assumption|right].
        specialize (Hi2 i ltac:(lia)). unfold OU in Hi2. lia. }
      split; [exact Hin|]. rewrite (ts_to_dt_local oob z _ i F Hin). lia.
    + (* a local time of interval i *)
      left. assert (Hin : in_interval z i (L - E z i)).
      { rewrite E_W. unfold in_interval. split; [lia|]. split.
        - right. unfold TH in Hth. replace (i - 1 + 1) with i in Hth by lia. lia.
        - destruct (Z.eq_dec i (nZ z)); [left; assumption|right].
          specialize (Hi2 i ltac:(lia)). unfold OU in Hi2. lia. }
      split; [exact Hin|]. rewrite (ts_to_dt_local oob z _ i F Hin). lia.
    + (* skipped local time: in the gap of transition i-1 *)
      right. split; [lia|].
      pose proof (Hi1 (i - 1) ltac:(lia)) as Hou.
      split; [|split; [lia|]].
      * rewrite E_W. unfold in_interval. split; [lia|]. split.
        -- destruct (Z.eq_dec (i - 1) 0); [left; assumption|right].
           pose proof (zf_B z F (i - 2) ltac:(lia) ltac:(lia)) as Hb.
           replace (i - 2 + 2) with i in Hb by lia. replace (i - 2 + 1) with (i - 1) in Hb by lia.
           replace (i - 1 - 1) with (i - 2) by lia. lia.
        -- right. unfold TH in Hth. replace (i - 1 + 1) with i in Hth by lia. lia.
      * intros ts Heq.
        pose proof (zone_index_in_interval oob z ts F) as Hin.
        rewrite (ts_to_dt_local oob z ts _ F Hin) in Heq. rewrite E_W in Heq.
        destruct Hin as [Hj [Hjl Hjr]]. set (j := zone_index oob z ts) in *.
        destruct (Z_lt_le_dec j i) as [Hlt|Hge].
        -- destruct Hjr as [Hjr|Hjr]; [lia|].
           pose proof (zf_OU z F j (i - 1) ltac:(lia) ltac:(lia) ltac:(lia)) as Hm. unfold OU in Hm at 1. lia.
        -- destruct Hjl as [Hjl|Hjl]; [lia|].
           pose proof (zf_TH z F (i - 1) (j - 1) ltac:(lia) ltac:(lia) ltac:(lia)) as Hm.
           unfold TH in Hm at 2. replace (j - 1 + 1) with j in Hm by lia. lia.
Qed.

(* ---- subscripts ----------------------------------------------------------------------------------- *)

(* every subscript the translated code evaluates with its guard true is in range (Python would raise
   IndexError otherwise), and no result depends on the value an out-of-range one would yield *)
Lemma subscripts_in_range : forall z, zone_ok z = true -> forall oob L f ts,
  let i := py_bisect_right (z_offset_untils z) L in
  (i < lenZ (z_offset_untils z) -> 0 <= i < lenZ (z_untils z) /\ 0 <= i + 1 < lenZ (z_offsets z)) /\
  0 <= zone_index_dt oob z L f < lenZ (z_offsets z) /\
  0 <= zone_index oob z ts < lenZ (z_offsets z).
Proof.
  intros z Hok oob L f ts. pose proof (zone_ok_facts z Hok) as F. cbv zeta.
  destruct (zone_index_dt_eq oob z L f F) as [[Hi _] _]. cbv zeta in Hi.
  pose proof (zone_index_dt_range oob z L f F). destruct (zone_index_spec oob z ts F) as [Hj _]. cbv zeta in Hj.
  rewrite (zf_len_w z F), (zf_len_ou z F). fold (nZ z). repeat split; lia.
Qed.

Lemma oob_irrelevant : forall z, zone_ok z = true -> forall oob1 oob2 L f ts,
  zone_index_dt oob1 z L f = zone_index_dt oob2 z L f /\
  zone_dt_offset oob1 z L f = zone_dt_offset oob2 z L f /\
  zone_index oob1 z ts = zone_index oob2 z ts /\
  zone_offset oob1 z ts = zone_offset oob2 z ts.
Proof.
  intros z Hok oob1 oob2 L f ts. pose proof (zone_ok_facts z Hok) as F.
  pose proof (zone_index_dt_oob_irrelevant oob1 oob2 z L f F) as H1.
  repeat split.
  - exact H1.
  - rewrite !zone_dt_offset_eq by exact F. rewrite H1. reflexivity.
  - rewrite !zone_offset_eq by exact F. reflexivity.
Qed.

(* ---- dates ---------------------------------------------------------------------------------------- *)

Lemma date_roundtrip : forall d, ts_to_date (date_to_ts d) = d.
Proof. intros d. unfold ts_to_date, date_to_ts, TICKS_PER_DAY. apply Z.div_mul. lia. Qed.

(* every instant of the (UTC) day d maps back to d *)
Lemma date_of_instant : forall d s, 0 <= s < TICKS_PER_DAY -> ts_to_date (date_to_ts d + s) = d.
Proof.
  intros d s Hs. unfold ts_to_date, date_to_ts, TICKS_PER_DAY in *.
  rewrite Z.add_comm, Z.div_add by lia. rewrite Z.div_small by lia. lia.
Qed.

(* ---- dates with a zone (date_to_ts after fix 8feac94) ---------------------------------------------- *)

Lemma date_to_ts_zone_eq : forall oob d z,
  date_to_ts_zone oob d z =
  date_to_ts d - zone_offset oob z (date_to_ts d - zone_dt_offset oob z (date_to_ts d) None).
Proof.
  intros. unfold date_to_ts_zone, date_to_ts. cbv zeta.
  destruct (Z.eqb_spec (zone_offset oob z (d * TICKS_PER_DAY - zone_dt_offset oob z (d * TICKS_PER_DAY) None))
                       (zone_dt_offset oob z (d * TICKS_PER_DAY) None)) as [->|_]; reflexivity.
Qed.

Lemma zone_offset_in_interval : forall oob z ts k, zone_facts z -> in_interval z k ts ->
  zone_offset oob z ts = E z k.
Proof.
  intros oob z ts k F [Hk [Hl Hr]]. rewrite zone_offset_eq by exact F.
  rewrite (zone_index_unique oob z ts k F Hk Hl Hr). reflexivity.
Qed.

(* an instant that renders on the date makes date_exists true: the hypothesis of the theorem below is implied
   by (and so no stronger than) "some instant has this local date" *)
Lemma date_exists_complete : forall z, zone_ok z = true -> forall oob d ts,
  adt_date (ts_to_dt oob ts z) = d -> date_exists z d = true.
Proof.
  intros z Hok oob d ts Hd. pose proof (zone_ok_facts z Hok) as F.
  pose proof (zone_index_in_interval oob z ts F) as Hin.
  unfold adt_date in Hd. rewrite (ts_to_dt_local oob z ts _ F Hin) in Hd. rewrite E_W in Hd.
  destruct Hin as [Hk [Hl Hr]]. set (k := zone_index oob z ts) in *.
  assert (Hday : d * TICKS_PER_DAY <= ts + - W z k < d * TICKS_PER_DAY + TICKS_PER_DAY).
  { change TICKS_PER_DAY with 5184000000000 in *. subst d. pose proof (Z.mod_pos_bound (ts + - W z k) 5184000000000 ltac:(lia)).
    pose proof (Z.div_mod (ts + - W z k) 5184000000000 ltac:(lia)). lia. }
  unfold date_exists. apply existsb_exists. exists k. split; [apply in_zrange; lia|].
  apply andb_true_iff. split; apply orb_true_iff.
  - destruct Hl as [Hl|Hl]; [left; apply Z.eqb_eq; exact Hl|right].
    apply Z.ltb_lt. unfold TH. replace (k - 1 + 1) with k by lia. lia.
  - destruct Hr as [Hr|Hr]; [left; apply Z.eqb_eq; exact Hr|right].
    apply Z.ltb_lt. unfold OU. lia.
Qed.

Lemma zone_date_ok_facts : forall z, zone_date_ok z = true -> forall k, 0 <= k < nZ z ->
  (k + 1 < nZ z -> U z k + (W z k - W z (k + 1)) <= U z (k + 1)) /\
  (W z k - W z (k + 1) < TICKS_PER_DAY \/
   (W z k - W z (k + 1) = TICKS_PER_DAY /\ OU z k mod TICKS_PER_DAY = 0)).
Proof.
  intros z H k Hk. unfold zone_date_ok in H. rewrite forallb_forall in H.
  specialize (H k ltac:(apply in_zrange; lia)). cbv zeta in H.
  apply andb_true_iff in H. destruct H as [H1 H2]. split.
  - intros Hk1. apply orb_true_iff in H1. destruct H1 as [H1|H1]; [apply Z.leb_le in H1; lia|].
    apply Z.leb_le in H1. exact H1.
  - apply orb_true_iff in H2. destruct H2 as [H2|H2]; [left; apply Z.ltb_lt; exact H2|right].
    apply andb_true_iff in H2. destruct H2 as [H2 H3]. apply Z.eqb_eq in H2. apply Z.eqb_eq in H3. split; assumption.
Qed.

(* For a date that exists in the zone, date_to_ts(date, zone) is an instant that renders on that date; it renders
   as local midnight exactly unless local midnight is skipped on that date. *)
Theorem date_zone_roundtrip : forall z, zone_ok z = true -> zone_date_ok z = true -> forall oob d,
  date_exists z d = true ->
  let t := date_to_ts_zone oob d z in
  adt_date (ts_to_dt oob t z) = d /\
  (dt_local (ts_to_dt oob t z) = date_to_ts d \/ forall ts, dt_local (ts_to_dt oob ts z) <> date_to_ts d).
Proof.
  intros z Hok Hdok oob d Hex. pose proof (zone_ok_facts z Hok) as F. cbv zeta.
  rewrite date_to_ts_zone_eq. set (M := date_to_ts d).
  destruct (local_offset_is_adjacent z Hok oob M None) as [Hoff [Hr Hcase]]. cbv zeta in *.
  unfold local_to_ts in Hcase. rewrite Hoff in *. set (r := zone_index_dt oob z M None) in *.
  destruct Hcase as [[Hin Hloc]|[Hr1 [Hin [Hgap Hskip]]]].
  - (* midnight exists *)
    rewrite (zone_offset_in_interval oob z _ r F Hin). split; [|left; exact Hloc].
    unfold adt_date. rewrite Hloc. apply date_roundtrip.
  - (* midnight skipped: M in the gap of transition r-1 *)
    rewrite (zone_offset_in_interval oob z _ (r - 1) F Hin). rewrite E_W.
    destruct (zone_date_ok_facts z Hdok (r - 1) ltac:(lia)) as [HC HD].
    replace (r - 1 + 1) with r in * by lia.
    unfold OU, TH in Hgap. replace (r - 1 + 1) with r in Hgap by lia.
    assert (Hin' : in_interval z r (M - - W z (r - 1))).
    { unfold in_interval. split; [lia|]. split; [right; lia|].
      destruct (Z.eq_dec r (nZ z)); [left; assumption|right]. specialize (HC ltac:(lia)). lia. }
    unfold adt_date. rewrite (ts_to_dt_local oob z _ r F Hin'). rewrite E_W.
    split; [|right; exact Hskip].
    destruct HD as [HD|[HD1 HD2]].
    + fold (ts_to_date (M - - W z (r - 1) + - W z r)). replace (M - - W z (r - 1) + - W z r) with (date_to_ts d + (W z (r - 1) - W z r)) by (unfold M; lia).
      apply date_of_instant. lia.
    + (* a whole day is skipped: the date does not exist *)
      exfalso. unfold date_exists in Hex. apply existsb_exists in Hex. destruct Hex as [k [Hk Hc]].
      apply in_zrange in Hk. apply andb_true_iff in Hc. destruct Hc as [Hc1 Hc2].
      assert (HM : M = OU z (r - 1)).
      { unfold OU. apply Z.mod_divide in HD2; [|unfold TICKS_PER_DAY; lia]. destruct HD2 as [q Hq]. unfold OU in Hq.
        unfold M, date_to_ts in *. change TICKS_PER_DAY with 5184000000000 in *. lia. }
      destruct (Z_lt_le_dec k r) as [Hlt|Hge].
      * apply orb_true_iff in Hc2. destruct Hc2 as [Hc2|Hc2]; [apply Z.eqb_eq in Hc2; lia|].
        apply Z.ltb_lt in Hc2. change (d * TICKS_PER_DAY) with M in Hc2.
        pose proof (zf_OU z F k (r - 1) ltac:(lia) ltac:(lia) ltac:(lia)). lia.
      * apply orb_true_iff in Hc1. destruct Hc1 as [Hc1|Hc1]; [apply Z.eqb_eq in Hc1; lia|].
        apply Z.ltb_lt in Hc1. change (d * TICKS_PER_DAY) with M in Hc1.
        pose proof (zf_TH z F (r - 1) (k - 1) ltac:(lia) ltac:(lia) ltac:(lia)) as Hm.
        unfold TH in Hm at 1. replace (r - 1 + 1) with r in Hm by lia. unfold OU in HM. lia.
Qed.
