(* Lemmas for C19 (line-level model of codebuilder/gencode, Model/Codegen.v). *)
From Coq Require Import ZArith List Bool Lia.
Import ListNotations.
Require Import Grist.Model.Codegen.
Open Scope Z_scope.

(* ---------------------------------------------------------------------------------------------
   "\n"-lines *)

Definition nlfree (l : text) : Prop := ~ In NL l.
Definition crfree (l : text) : Prop := ~ In CR l.

Lemma split_nl_join : forall t l ls, split_nl t = (l, ls) -> l ++ join_tail ls = t.
Proof.
  induction t as [|c r IH]; intros l ls H; cbn [split_nl] in H.
  - inversion H; reflexivity.
  - destruct (split_nl r) as [l0 ls0] eqn:E. specialize (IH _ _ eq_refl).
    destruct (c =? NL) eqn:Ec; injection H as <- <-; cbn [join_tail app].
    + apply Z.eqb_eq in Ec. rewrite Ec, IH. reflexivity.
    + rewrite IH. reflexivity.
Qed.

Lemma join_lines_nl : forall t, join_nl (lines_nl t) = t.
Proof.
  intros t. unfold lines_nl. destruct (split_nl t) as [l ls] eqn:E. cbn [join_nl].
  eapply split_nl_join; eauto.
Qed.

Lemma split_nl_nlfree : forall t l ls, split_nl t = (l, ls) -> nlfree l /\ Forall nlfree ls.
Proof.
  induction t as [|c r IH]; intros l ls H; cbn [split_nl] in H.
  - inversion H; subst. split; [intros []|constructor].
  - destruct (split_nl r) as [l0 ls0] eqn:E. destruct (IH _ _ eq_refl) as [H1 H2].
    destruct (c =? NL) eqn:Ec; inversion H; subst.
    + split; [intros []|constructor; assumption].
    + split; [|assumption]. intros [Hc|Hc]; [|exact (H1 Hc)].
      apply Z.eqb_neq in Ec. congruence.
Qed.

Lemma lines_nl_nlfree : forall t, Forall nlfree (lines_nl t).
Proof.
  intros t. unfold lines_nl. destruct (split_nl t) as [l ls] eqn:E.
  destruct (split_nl_nlfree _ _ _ E). constructor; assumption.
Qed.

Lemma split_nl_app_line : forall l rest, nlfree l ->
  split_nl (l ++ NL :: rest) = (l, let (a, b) := split_nl rest in a :: b).
Proof.
  induction l as [|c l IH]; intros rest Hl; cbn [app split_nl].
  - destruct (split_nl rest) as [a b]. reflexivity.
  - rewrite IH by (intros Hc; apply Hl; right; exact Hc).
    destruct (split_nl rest) as [a b].
    destruct (c =? NL) eqn:Ec; [|reflexivity].
    apply Z.eqb_eq in Ec. exfalso. apply Hl. left. congruence.
Qed.

Lemma split_nl_nlfree_id : forall l, nlfree l -> split_nl l = (l, []).
Proof.
  induction l as [|c l IH]; intros Hl; cbn [split_nl]; [reflexivity|].
  rewrite IH by (intros Hc; apply Hl; right; exact Hc).
  destruct (c =? NL) eqn:Ec; [|reflexivity].
  apply Z.eqb_eq in Ec. exfalso. apply Hl. left. congruence.
Qed.

Lemma split_nl_of_join : forall ls l, nlfree l -> Forall nlfree ls ->
  split_nl (l ++ join_tail ls) = (l, ls).
Proof.
  induction ls as [|l1 ls IH]; intros l Hl Hls; cbn [join_tail].
  - rewrite app_nil_r. apply split_nl_nlfree_id; assumption.
  - inversion Hls; subst. rewrite split_nl_app_line by assumption.
    rewrite IH by assumption. reflexivity.
Qed.

Lemma lines_nl_of_join : forall l ls, nlfree l -> Forall nlfree ls ->
  lines_nl (join_nl (l :: ls)) = l :: ls.
Proof.
  intros. unfold lines_nl. cbn [join_nl]. rewrite split_nl_of_join by assumption. reflexivity.
Qed.

Lemma lines_nl_app : forall a b, lines_nl (a ++ NL :: b) = lines_nl a ++ lines_nl b.
Proof.
  intros a b. unfold lines_nl.
  destruct (split_nl a) as [l ls] eqn:Ea.
  pose proof (split_nl_join _ _ _ Ea) as Ja. destruct (split_nl_nlfree _ _ _ Ea) as [Hl Hls].
  destruct (split_nl b) as [m ms] eqn:Eb.
  pose proof (split_nl_join _ _ _ Eb) as Jb. destruct (split_nl_nlfree _ _ _ Eb) as [Hm Hms].
  assert (E : a ++ NL :: b = l ++ join_tail (ls ++ m :: ms)).
  { rewrite <- Ja, <- Jb. rewrite <- app_assoc. f_equal.
    clear. induction ls as [|x ls IH]; cbn [join_tail app]; [reflexivity|].
    rewrite <- app_assoc. rewrite IH. reflexivity. }
  rewrite E. rewrite split_nl_of_join; [reflexivity|assumption|].
  apply Forall_app. split; [assumption|constructor; assumption].
Qed.

(* ---------------------------------------------------------------------------------------------
   physical lines *)

Fixpoint strip_cr (l : text) : text :=
  match l with
  | [] => []
  | c :: r => match r with
              | [] => if c =? CR then [] else [c]
              | _ :: _ => c :: strip_cr r
              end
  end.

Lemma strip_cr_crfree : forall l, crfree l -> strip_cr l = l.
Proof.
  induction l as [|c r IH]; intros H; [reflexivity|].
  cbn [strip_cr]. destruct r as [|d r'].
  - destruct (c =? CR) eqn:E; [|reflexivity]. apply Z.eqb_eq in E. exfalso. apply H. left. congruence.
  - rewrite IH; [reflexivity|]. intros Hc. apply H. right. exact Hc.
Qed.

Lemma strip_cr_app : forall a b, b <> [] -> strip_cr (a ++ b) = a ++ strip_cr b.
Proof.
  induction a as [|c a IH]; intros b Hb; [reflexivity|].
  cbn [app strip_cr]. destruct (a ++ b) as [|d r] eqn:E.
  - destruct a; destruct b; try discriminate. congruence.
  - rewrite <- E. rewrite IH by assumption. reflexivity.
Qed.

Lemma strip_cr_app_crfree : forall a b, crfree a -> strip_cr (a ++ b) = a ++ strip_cr b.
Proof.
  intros a b Ha. destruct b as [|d b].
  - rewrite app_nil_r. cbn. rewrite app_nil_r. apply strip_cr_crfree. assumption.
  - apply strip_cr_app. discriminate.
Qed.

Lemma split_phys_no_bare_cr : forall t l ls, no_bare_cr t = true -> split_nl t = (l, ls) ->
  split_phys t = (strip_cr l, map strip_cr ls).
Proof.
  induction t as [|c r IH]; intros l ls Hn H; cbn [split_nl] in H.
  - inversion H; reflexivity.
  - cbn [no_bare_cr] in Hn. apply andb_true_iff in Hn. destruct Hn as [Hc Hr].
    destruct (split_nl r) as [l0 ls0] eqn:E. specialize (IH _ _ Hr eq_refl).
    cbn [split_phys]. rewrite IH.
    destruct (c =? NL) eqn:Ec.
    + inversion H; subst. reflexivity.
    + inversion H; subst. destruct (c =? CR) eqn:Ecr.
      * destruct r as [|d r']; [discriminate|]. rewrite Hc.
        cbn [split_nl] in E. rewrite Hc in E. destruct (split_nl r') as [a b].
        inversion E; subst. apply Z.eqb_eq in Ecr. subst c. reflexivity.
      * f_equal. cbn [strip_cr]. destruct l0; [rewrite Ecr|]; reflexivity.
Qed.

Lemma phys_lines_no_bare_cr : forall t, no_bare_cr t = true ->
  phys_lines t = map strip_cr (lines_nl t).
Proof.
  intros t H. unfold phys_lines, lines_nl. destruct (split_nl t) as [l ls] eqn:E.
  rewrite (split_phys_no_bare_cr _ _ _ H E). reflexivity.
Qed.

Lemma split_phys_universal : forall t, split_phys (universal_newlines t) = split_phys t.
Proof.
  induction t as [|c r IH]; [reflexivity|].
  cbn [universal_newlines]. destruct (c =? CR) eqn:Ecr.
  - assert (Ec : (c =? NL) = false).
    { apply Z.eqb_eq in Ecr. subst c. reflexivity. }
    destruct r as [|d r'] eqn:Er.
    + cbn. rewrite Ec, Ecr. reflexivity.
    + rewrite <- Er in *. destruct (d =? NL) eqn:Ed.
      * rewrite IH. cbn [split_phys]. rewrite Ec, Ecr.
        destruct (split_phys r) as [l ls]. rewrite Er, Ed. reflexivity.
      * cbn [split_phys]. rewrite IH. rewrite Ec, Ecr.
        replace (NL =? NL) with true by reflexivity.
        destruct (split_phys r) as [l ls]. rewrite Er, Ed. reflexivity.
  - cbn [split_phys]. rewrite IH. rewrite Ecr. reflexivity.
Qed.

Lemma phys_lines_universal : forall t, phys_lines (universal_newlines t) = phys_lines t.
Proof. intros. unfold phys_lines. rewrite split_phys_universal. reflexivity. Qed.

Lemma universal_crfree : forall t, crfree (universal_newlines t).
Proof.
  unfold crfree. induction t as [|c r IH]; [intros []|].
  cbn [universal_newlines]. destruct (c =? CR) eqn:Ecr.
  - destruct r as [|d r'].
    + intros [H|[]]. discriminate.
    + destruct (d =? NL); [assumption|]. intros [H|H]; [discriminate|]. exact (IH H).
  - intros [H|H]; [|exact (IH H)]. apply Z.eqb_neq in Ecr. congruence.
Qed.

Lemma crfree_no_bare_cr : forall t, crfree t -> no_bare_cr t = true.
Proof.
  induction t as [|c r IH]; intros H; [reflexivity|].
  cbn [no_bare_cr]. rewrite IH by (intros Hc; apply H; right; exact Hc).
  destruct (c =? CR) eqn:E; [|reflexivity]. apply Z.eqb_eq in E. exfalso. apply H. left. congruence.
Qed.

(* no_bare_cr over a join of lines *)
Definition good (l : text) : bool := no_bare_cr (l ++ [NL]).

Lemma no_bare_cr_app_nl : forall l rest, no_bare_cr (l ++ NL :: rest) = good l && no_bare_cr rest.
Proof.
  unfold good. induction l as [|c l IH]; intros rest.
  - reflexivity.
  - cbn [app no_bare_cr]. rewrite IH. rewrite andb_assoc. f_equal.
    destruct l; reflexivity.
Qed.

Lemma no_bare_cr_crfree_app : forall a b, crfree a -> no_bare_cr (a ++ b) = no_bare_cr b.
Proof.
  induction a as [|c a IH]; intros b H; [reflexivity|].
  cbn [app no_bare_cr]. rewrite IH by (intros Hc; apply H; right; exact Hc).
  destruct (c =? CR) eqn:E; [|reflexivity]. apply Z.eqb_eq in E. exfalso. apply H. left. congruence.
Qed.

Lemma good_crfree_app : forall a b, crfree a -> good (a ++ b) = good b.
Proof. intros. unfold good. rewrite <- app_assoc. apply no_bare_cr_crfree_app. assumption. Qed.

Lemma no_bare_cr_good : forall l, no_bare_cr l = true -> good l = true.
Proof.
  unfold good. induction l as [|c l IH]; intros H; [reflexivity|].
  cbn [no_bare_cr] in H. apply andb_true_iff in H. destruct H as [H1 H2].
  cbn [app no_bare_cr]. rewrite (IH H2), andb_true_r.
  destruct (c =? CR); [|reflexivity]. destruct l; [discriminate|exact H1].
Qed.

Fixpoint nbc_lines (l : text) (ls : list text) : bool :=
  match ls with
  | [] => no_bare_cr l
  | l' :: r => good l && nbc_lines l' r
  end.

Lemma nbc_join : forall ls l, no_bare_cr (l ++ join_tail ls) = nbc_lines l ls.
Proof.
  induction ls as [|l' r IH]; intros l; cbn [join_tail nbc_lines].
  - rewrite app_nil_r. reflexivity.
  - rewrite no_bare_cr_app_nl. rewrite IH. reflexivity.
Qed.

Lemma nbc_lines_map : forall (f : text -> text),
  (forall x, good (f x) = good x) -> (forall x, no_bare_cr (f x) = no_bare_cr x) ->
  forall ls l, nbc_lines (f l) (map f ls) = nbc_lines l ls.
Proof.
  intros f Hg Hn. induction ls as [|l' r IH]; intros l; cbn [map nbc_lines].
  - apply Hn.
  - rewrite Hg, IH. reflexivity.
Qed.

Lemma nbc_lines_all_good : forall ls l, nbc_lines l ls = true -> forallb good (l :: ls) = true.
Proof.
  induction ls as [|l' r IH]; intros l H; cbn [nbc_lines] in H.
  - cbn. rewrite no_bare_cr_good by assumption. reflexivity.
  - apply andb_true_iff in H. destruct H as [H1 H2]. cbn [forallb]. rewrite H1. apply IH. assumption.
Qed.

Lemma nbc_lines_snoc : forall ls l x, forallb good (l :: ls) = true -> no_bare_cr x = true ->
  nbc_lines l (ls ++ [x]) = true.
Proof.
  induction ls as [|l' r IH]; intros l x H Hx; cbn [forallb] in H; apply andb_true_iff in H; destruct H as [H1 H2].
  - cbn. rewrite H1, Hx. reflexivity.
  - cbn [app nbc_lines]. rewrite H1. apply IH; assumption.
Qed.

(* the shape of every line-wise rewriting in the code: the physical lines of the result *)
Lemma phys_lines_linewise : forall (f : text -> text) t,
  (forall x, nlfree x -> nlfree (f x)) ->
  (forall x, good (f x) = good x) -> (forall x, no_bare_cr (f x) = no_bare_cr x) ->
  no_bare_cr t = true ->
  phys_lines (join_nl (map f (lines_nl t))) = map strip_cr (map f (lines_nl t)).
Proof.
  intros f t Hnl Hg Hn Ht.
  pose proof (lines_nl_nlfree t) as Hfree.
  pose proof (join_lines_nl t) as Hj.
  unfold lines_nl in *. destruct (split_nl t) as [l ls] eqn:E. cbn [map] in *.
  assert (Hfree' : nlfree (f l) /\ Forall nlfree (map f ls)).
  { inversion Hfree; subst. split; [auto|]. apply Forall_map. eapply Forall_impl; [|eassumption]. auto. }
  destruct Hfree' as [Hf1 Hf2].
  rewrite phys_lines_no_bare_cr.
  - rewrite lines_nl_of_join by assumption. reflexivity.
  - cbn [join_nl]. rewrite nbc_join. rewrite nbc_lines_map by assumption.
    rewrite <- nbc_join. cbn [join_nl] in Hj. rewrite Hj. exact Ht.
Qed.

(* ---------------------------------------------------------------------------------------------
   small facts *)

Lemma starts_with_app : forall p r, starts_with p (p ++ r) = true.
Proof. induction p as [|x p IH]; intros r; [reflexivity|]. cbn. rewrite Z.eqb_refl, IH. reflexivity. Qed.

Lemma has_nonspace_strip_cr : forall x, has_nonspace (strip_cr x) = true -> has_nonspace x = true.
Proof.
  unfold has_nonspace. induction x as [|c r IH]; intros H; [discriminate|].
  cbn [strip_cr] in H. destruct r as [|d r'].
  - destruct (c =? CR); [discriminate|]. exact H.
  - cbn [existsb] in H |- *. apply orb_true_iff in H. apply orb_true_iff. destruct H as [H|H]; [left; exact H|].
    right. apply IH. exact H.
Qed.

Lemma has_nonspace_nonempty : forall x, has_nonspace x = true -> x <> [].
Proof. intros x H E. subst. discriminate. Qed.

Lemma in_strip_cr : forall c x, In c (strip_cr x) -> In c x.
Proof.
  induction x as [|d r IH]; intros H; [exact H|].
  cbn [strip_cr] in H. destruct r as [|e r'].
  - destruct (d =? CR); [destruct H|exact H].
  - destruct H as [H|H]; [left; exact H|right; apply IH; exact H].
Qed.

Lemma in_join_tail : forall c ls l, In l ls -> In c l -> In c (join_tail ls).
Proof.
  induction ls as [|x ls IH]; intros l Hl Hc; [destruct Hl|].
  cbn [join_tail]. right. apply in_or_app. destruct Hl as [->|Hl]; [left; exact Hc|right; eapply IH; eauto].
Qed.

Lemma in_lines_nl : forall c t l, In l (lines_nl t) -> In c l -> In c t.
Proof.
  intros c t l Hl Hc. rewrite <- (join_lines_nl t). destruct (lines_nl t) as [|x ls]; [destruct Hl|].
  cbn [join_nl]. apply in_or_app. destruct Hl as [->|Hl]; [left; exact Hc|right; eapply in_join_tail; eauto].
Qed.

Lemma Forall2_map_same : forall (A B : Type) (R : B -> B -> Prop) (f g : A -> B) (ls : list A),
  Forall (fun x => R (f x) (g x)) ls -> Forall2 R (map f ls) (map g ls).
Proof. induction 1; cbn; constructor; assumption. Qed.

Lemma Forall2_refl_list : forall (A : Type) (R : A -> A -> Prop), (forall x, R x x) -> forall l, Forall2 R l l.
Proof. intros A R H. induction l; constructor; auto. Qed.

(* ---------------------------------------------------------------------------------------------
   the comment part of the syntax-error stub *)

Lemma comment_phys : forall t, no_bare_cr (rstrip t) = true ->
  phys_lines (comment_re t) = map strip_cr (map (fun l => HASH :: SP :: l) (lines_nl (rstrip t))).
Proof.
  intros t H. unfold comment_re. apply phys_lines_linewise; [| | |exact H].
  - intros x Hx [E|[E|E]]; [discriminate|discriminate|exact (Hx E)].
  - intros x. apply (good_crfree_app [HASH; SP] x). intros [E|[E|[]]]; discriminate.
  - intros x. apply (no_bare_cr_crfree_app [HASH; SP] x). intros [E|[E|[]]]; discriminate.
Qed.

Lemma comment_line_hash : forall l, starts_with [HASH] (strip_cr (HASH :: SP :: l)) = true.
Proof.
  intros l. change (HASH :: SP :: l) with ([HASH; SP] ++ l).
  rewrite strip_cr_app_crfree by (intros [E|[E|[]]]; discriminate). reflexivity.
Qed.

Lemma comment_all_lines_nbc : forall t, no_bare_cr (rstrip t) = true -> all_commented (comment_re t).
Proof.
  intros t H. unfold all_commented. rewrite comment_phys by assumption.
  rewrite map_map. apply Forall_map. apply Forall_forall. intros l _. apply comment_line_hash.
Qed.

Lemma rstrip_crfree : forall t, crfree t -> crfree (rstrip t).
Proof.
  intros t H Hc. apply H. unfold rstrip in Hc. apply in_rev in Hc.
  assert (G : forall p l, In CR (drop_while p l) -> In CR l).
  { clear. induction l as [|c r IH]; intros Hin; [exact Hin|]. cbn [drop_while] in Hin.
    destruct (p c); [right; apply IH; exact Hin|exact Hin]. }
  apply G in Hc. apply in_rev. exact Hc.
Qed.

(* ---------------------------------------------------------------------------------------------
   _indent *)

Lemma indent_phys : forall ind t, nlfree ind -> crfree ind -> no_bare_cr t = true ->
  phys_lines (indent_re ind t) = map strip_cr (map (indent_line ind) (lines_nl t)).
Proof.
  intros ind t Hn Hc H. unfold indent_re. apply phys_lines_linewise; [| | |exact H].
  - intros x Hx. unfold indent_line. destruct (has_nonspace x); [|exact Hx].
    intros Hin. apply in_app_or in Hin. destruct Hin; [exact (Hn H0)|exact (Hx H0)].
  - intros x. unfold indent_line. destruct (has_nonspace x); [|reflexivity].
    apply good_crfree_app. exact Hc.
  - intros x. unfold indent_line. destruct (has_nonspace x); [|reflexivity].
    apply no_bare_cr_crfree_app. exact Hc.
Qed.

Lemma indent_line_phys : forall ind x, crfree ind ->
  has_nonspace (strip_cr (indent_line ind x)) = true ->
  has_nonspace x = true /\ strip_cr (indent_line ind x) = ind ++ strip_cr x.
Proof.
  intros ind x Hc H. unfold indent_line in *. destruct (has_nonspace x) eqn:E.
  - split; [reflexivity|]. apply strip_cr_app. apply has_nonspace_nonempty. exact E.
  - apply has_nonspace_strip_cr in H. congruence.
Qed.

Lemma indent_all_lines_nbc : forall ind t, nlfree ind -> crfree ind -> no_bare_cr t = true ->
  all_indented ind (indent_re ind t).
Proof.
  intros ind t Hn Hc H. unfold all_indented. rewrite indent_phys by assumption.
  rewrite map_map. apply Forall_map. apply Forall_forall. intros l _ Hl.
  destruct (indent_line_phys ind l Hc Hl) as [_ E]. rewrite E. apply starts_with_app.
Qed.

(* columns *)
Lemma indent_col_from_spaces : forall n col y,
  indent_col_from col (repeat SP n ++ y) = indent_col_from (col + Z.of_nat n) y.
Proof.
  induction n as [|n IH]; intros col y.
  - cbn. rewrite Z.add_0_r. reflexivity.
  - cbn [repeat app indent_col_from]. replace (SP =? SP) with true by reflexivity.
    rewrite IH. f_equal. lia.
Qed.

Lemma indent_col_from_mono : forall y col, ~ In FF y -> 0 <= col -> col <= indent_col_from col y.
Proof.
  induction y as [|c y IH]; intros col Hf Hcol; cbn [indent_col_from]; [lia|].
  assert (Hy : ~ In FF y) by (intros Hi; apply Hf; right; exact Hi).
  destruct (c =? SP).
  - specialize (IH (col + 1) Hy). lia.
  - destruct (c =? TAB).
    + assert (col < (col / 8 + 1) * 8).
      { pose proof (Z.div_mod col 8). pose proof (Z.mod_pos_bound col 8). lia. }
      specialize (IH ((col / 8 + 1) * 8) Hy). lia.
    + destruct (c =? FF) eqn:E; [|lia]. apply Z.eqb_eq in E. exfalso. apply Hf. left. congruence.
Qed.

Lemma indent_cols_nbc : forall n t, ~ In FF t -> no_bare_cr t = true ->
  all_indented_cols (repeat SP n) (indent_re (repeat SP n) t).
Proof.
  intros n t Hf H. unfold all_indented_cols.
  assert (Hn : nlfree (repeat SP n)) by (intros Hi; apply repeat_spec in Hi; discriminate).
  assert (Hc : crfree (repeat SP n)) by (intros Hi; apply repeat_spec in Hi; discriminate).
  rewrite indent_phys by assumption.
  rewrite map_map. apply Forall_forall. intros pl Hin Hl.
  apply in_map_iff in Hin. destruct Hin as [l [<- Hin]].
  destruct (indent_line_phys _ l Hc Hl) as [_ E]. rewrite E.
  rewrite repeat_length. unfold indent_col. rewrite indent_col_from_spaces.
  apply indent_col_from_mono; [|lia].
  intros Hi. apply Hf. apply in_strip_cr in Hi. eapply in_lines_nl; eauto.
Qed.

Lemma universal_in : forall c t, c <> NL -> In c (universal_newlines t) -> In c t.
Proof.
  intros c t Hc. induction t as [|d r IH]; intros H; [exact H|].
  cbn [universal_newlines] in H. destruct (d =? CR).
  - destruct r as [|e r'].
    + destruct H as [H|[]]. congruence.
    + destruct (e =? NL); [right; apply IH; exact H|].
      destruct H as [H|H]; [congruence|right; apply IH; exact H].
  - destruct H as [H|H]; [left; exact H|right; apply IH; exact H].
Qed.

(* ---------------------------------------------------------------------------------------------
   _dedent *)

Definition prefix (p l : text) : Prop := exists r, l = p ++ r.

Lemma prefix_trans : forall a b c, prefix a b -> prefix b c -> prefix a c.
Proof. intros a b c [r ->] [s ->]. exists (r ++ s). rewrite app_assoc. reflexivity. Qed.

Lemma cp2_prefix_l : forall a b, prefix (common_prefix2 a b) a.
Proof.
  induction a as [|x a IH]; intros b; cbn [common_prefix2].
  - exists []. reflexivity.
  - destruct b as [|y b]; [exists (x :: a); reflexivity|].
    destruct (x =? y); [|exists (x :: a); reflexivity].
    destruct (IH b) as [r Hr]. exists r. cbn. rewrite <- Hr. reflexivity.
Qed.

Lemma cp2_prefix_r : forall a b, prefix (common_prefix2 a b) b.
Proof.
  induction a as [|x a IH]; intros b; cbn [common_prefix2].
  - exists b. reflexivity.
  - destruct b as [|y b]; [exists []; reflexivity|].
    destruct (x =? y) eqn:E; [|exists (y :: b); reflexivity].
    apply Z.eqb_eq in E. subst y. destruct (IH b) as [r Hr]. exists r. cbn. rewrite <- Hr. reflexivity.
Qed.

Lemma fold_cp2_prefix : forall r init,
  prefix (fold_left common_prefix2 r init) init /\
  forall e, In e r -> prefix (fold_left common_prefix2 r init) e.
Proof.
  induction r as [|x r IH]; intros init; cbn [fold_left].
  - split; [exists []; rewrite app_nil_r; reflexivity|intros e []].
  - destruct (IH (common_prefix2 init x)) as [H1 H2]. split.
    + eapply prefix_trans; [exact H1|apply cp2_prefix_l].
    + intros e [<-|He]; [eapply prefix_trans; [exact H1|apply cp2_prefix_r]|apply H2; exact He].
Qed.

Lemma common_prefix_prefix : forall ls e, In e ls -> prefix (common_prefix ls) e.
Proof.
  intros ls e He. destruct ls as [|l r]; [destruct He|]. cbn [common_prefix].
  destruct (fold_cp2_prefix r l) as [H1 H2]. destruct He as [<-|He]; [exact H1|apply H2; exact He].
Qed.

Lemma strip_prefix_opt_app : forall p r, strip_prefix_opt p (p ++ r) = Some r.
Proof. induction p as [|x p IH]; intros r; [reflexivity|]. cbn. rewrite Z.eqb_refl. apply IH. Qed.

Lemma strip_prefix_opt_some : forall p l r, strip_prefix_opt p l = Some r -> l = p ++ r.
Proof.
  induction p as [|x p IH]; intros l r H; cbn [strip_prefix_opt] in H.
  - injection H as <-. reflexivity.
  - destruct l as [|y l]; [discriminate|]. destruct (x =? y) eqn:E; [|discriminate].
    apply Z.eqb_eq in E. subst y. cbn. f_equal. apply IH. exact H.
Qed.

Lemma take_drop_while : forall p l, l = take_while p l ++ drop_while p l.
Proof.
  induction l as [|c r IH]; [reflexivity|]. cbn [take_while drop_while].
  destruct (p c); [cbn; f_equal; exact IH|reflexivity].
Qed.

Lemma take_while_forallb : forall p l, forallb p (take_while p l) = true.
Proof.
  induction l as [|c r IH]; [reflexivity|]. cbn [take_while].
  destruct (p c) eqn:E; [cbn; rewrite E; exact IH|reflexivity].
Qed.

Lemma drop_while_nonempty : forall p l, forallb p l = false -> drop_while p l <> [].
Proof.
  induction l as [|c r IH]; intros H; [discriminate|]. cbn [forallb] in H. cbn [drop_while].
  destruct (p c); [apply IH; exact H|discriminate].
Qed.

Lemma forallb_prefix : forall p a b, prefix a b -> forallb p b = true -> forallb p a = true.
Proof. intros p a b [r ->] H. rewrite forallb_app in H. apply andb_true_iff in H. tauto. Qed.

Lemma leading_ws_sp_tab : forall l e, In e (leading_ws l) -> forallb is_sp_tab e = true.
Proof.
  intros l e H. unfold leading_ws in H. destruct (drop_while is_sp_tab l); [destruct H|].
  destruct H as [<-|[]]. apply take_while_forallb.
Qed.

Lemma leading_ws_nonblank : forall l, forallb is_sp_tab l = false ->
  leading_ws (strip_ws_only l) = [take_while is_sp_tab l].
Proof.
  intros l H. unfold strip_ws_only. rewrite H. unfold leading_ws.
  pose proof (drop_while_nonempty _ _ H). destruct (drop_while is_sp_tab l); [congruence|reflexivity].
Qed.

Lemma shared_indent_sp_tab : forall t, forallb is_sp_tab (shared_indent t) = true.
Proof.
  intros t. unfold shared_indent.
  destruct (flat_map leading_ws (map strip_ws_only (lines_nl t))) as [|e es] eqn:E; [reflexivity|].
  assert (He : In e (e :: es)) by (left; reflexivity).
  eapply forallb_prefix; [apply common_prefix_prefix; exact He|].
  rewrite <- E in He. apply in_flat_map in He. destruct He as [l [_ He]].
  eapply leading_ws_sp_tab; eauto.
Qed.

Lemma shared_indent_prefix : forall t l, In l (lines_nl t) -> forallb is_sp_tab l = false ->
  prefix (shared_indent t) l.
Proof.
  intros t l Hl Hb. unfold shared_indent.
  eapply prefix_trans.
  - apply common_prefix_prefix. apply in_flat_map. exists (strip_ws_only l). split.
    + apply in_map. exact Hl.
    + rewrite leading_ws_nonblank by assumption. left. reflexivity.
  - exists (drop_while is_sp_tab l). apply take_drop_while.
Qed.

Lemma sp_tab_crfree : forall s, forallb is_sp_tab s = true -> crfree s.
Proof.
  intros s H Hi. rewrite forallb_forall in H. apply H in Hi. discriminate.
Qed.

Definition dedent_line (sh l : text) : text :=
  match strip_prefix_opt sh l with Some r => r | None => l end.

Lemma dedent_line_cases : forall sh l,
  (exists r, l = sh ++ r /\ dedent_line sh l = r) \/ (strip_prefix_opt sh l = None /\ dedent_line sh l = l).
Proof.
  intros sh l. unfold dedent_line. destruct (strip_prefix_opt sh l) as [r|] eqn:E.
  - left. exists r. split; [apply strip_prefix_opt_some; exact E|reflexivity].
  - right. split; reflexivity.
Qed.

Lemma dedent_nbc : forall t, no_bare_cr t = true -> dedent_ok t (dedent_re t).
Proof.
  intros t Ht. unfold dedent_ok, dedent_re.
  pose proof (shared_indent_sp_tab t) as Hsp.
  pose proof (shared_indent_prefix t) as Hpre.
  destruct (shared_indent t) as [|s0 sh'] eqn:Esh.
  - exists []. split; [reflexivity|]. apply Forall2_refl_list. intros x. left. reflexivity.
  - set (sh := s0 :: sh') in *. exists sh. split; [exact Hsp|].
    pose proof (sp_tab_crfree _ Hsp) as Hcr.
    change (fun l => match strip_prefix_opt sh l with Some r => r | None => l end) with (dedent_line sh).
    rewrite (phys_lines_linewise (dedent_line sh) t); [| | | |exact Ht].
    + rewrite phys_lines_no_bare_cr by exact Ht. rewrite map_map. apply (Forall2_map_same _ _ (dedent_line_rel sh) strip_cr (fun x => strip_cr (dedent_line sh x))).
      apply Forall_forall. intros l Hl. unfold dedent_line_rel.
      destruct (dedent_line_cases sh l) as [[r [El Er]]|[En Er]]; rewrite Er.
      * left. rewrite El. apply strip_cr_app_crfree. exact Hcr.
      * destruct (forallb is_sp_tab l) eqn:Eb.
        -- right. pose proof (sp_tab_crfree _ Eb) as Hl'. rewrite strip_cr_crfree by exact Hl'.
           split; [exact Eb|reflexivity].
        -- destruct (Hpre l Hl Eb) as [r Hr]. rewrite Hr in En. rewrite strip_prefix_opt_app in En. discriminate.
    + intros x Hx. destruct (dedent_line_cases sh x) as [[r [El Er]]|[En Er]]; rewrite Er; [|exact Hx].
      intros Hi. apply Hx. rewrite El. apply in_or_app. right. exact Hi.
    + intros x. destruct (dedent_line_cases sh x) as [[r [El Er]]|[En Er]]; rewrite Er; [|reflexivity].
      rewrite El. symmetry. apply good_crfree_app. exact Hcr.
    + intros x. destruct (dedent_line_cases sh x) as [[r [El Er]]|[En Er]]; rewrite Er; [|reflexivity].
      rewrite El. symmetry. apply no_bare_cr_crfree_app. exact Hcr.
Qed.

(* ---------------------------------------------------------------------------------------------
   repr literals *)

Definition plain (q c : Z) : Prop := c <> q /\ c <> BSL /\ c <> NL /\ c <> CR.

Lemma scan_plain : forall q xs tail, Forall (plain q) xs -> scan_body q (xs ++ tail) = scan_body q tail.
Proof.
  induction xs as [|c xs IH]; intros tail H; [reflexivity|].
  inversion H as [|? ? [H1 [H2 [H3 H4]]] Hr]; subst. cbn [app scan_body].
  apply Z.eqb_neq in H1, H2, H3, H4. rewrite H1, H2, H3, H4. cbn [orb]. apply IH. exact Hr.
Qed.

Lemma scan_escape : forall q d tail, (q = SQ \/ q = DQ) -> d <> NL -> d <> CR ->
  scan_body q (BSL :: d :: tail) = scan_body q tail.
Proof.
  intros q d tail Hq H1 H2. cbn [scan_body].
  assert (E : (BSL =? q) = false) by (destruct Hq; subst; reflexivity).
  rewrite E. replace (BSL =? NL) with false by reflexivity. replace (BSL =? CR) with false by reflexivity.
  replace (BSL =? BSL) with true by reflexivity. cbn [orb].
  apply Z.eqb_neq in H1, H2. rewrite H1, H2. reflexivity.
Qed.

Lemma hex_digit_range : forall n, 0 <= n < 16 -> (48 <= hex_digit n <= 57) \/ (97 <= hex_digit n <= 102).
Proof. intros n H. unfold hex_digit. destruct (n <? 10) eqn:E; [apply Z.ltb_lt in E|apply Z.ltb_ge in E]; lia. Qed.

Lemma hex_fixed_range : forall w n, Forall (fun c => (48 <= c <= 57) \/ (97 <= c <= 102)) (hex_fixed w n).
Proof.
  induction w as [|w IH]; intros n; cbn [hex_fixed]; [constructor|].
  apply Forall_app. split; [apply IH|]. constructor; [|constructor].
  apply hex_digit_range. apply Z.mod_pos_bound. lia.
Qed.

Lemma hex_fixed_plain : forall q w n, (q = SQ \/ q = DQ) -> Forall (plain q) (hex_fixed w n).
Proof.
  intros q w n Hq. eapply Forall_impl; [|apply hex_fixed_range].
  intros c Hc. cbv beta in Hc. unfold plain, BSL, NL, CR. destruct Hq; subst; unfold SQ, DQ; lia.
Qed.

(* every chunk produced for one character is an escape pair followed by plain characters, or one plain
   character *)
Lemma repr_char_shape : forall p q c, (q = SQ \/ q = DQ) ->
  (exists d xs, repr_char p q c = BSL :: d :: xs /\ d <> NL /\ d <> CR /\ Forall (plain q) xs) \/
  (repr_char p q c = [c] /\ plain q c).
Proof.
  intros p q c Hq. unfold repr_char.
  destruct ((c =? q) || (c =? BSL)) eqn:E1.
  { left. exists c, []. split; [reflexivity|]. apply orb_true_iff in E1.
    repeat split; try constructor;
      (destruct E1 as [E|E]; apply Z.eqb_eq in E; subst c; destruct Hq; subst; discriminate). }
  apply orb_false_iff in E1. destruct E1 as [Eq Eb]. apply Z.eqb_neq in Eq, Eb.
  destruct (c =? 9) eqn:E2. { left. exists 116, []. repeat split; try constructor; discriminate. }
  destruct (c =? 10) eqn:E3. { left. exists 110, []. repeat split; try constructor; discriminate. }
  destruct (c =? 13) eqn:E4. { left. exists 114, []. repeat split; try constructor; discriminate. }
  apply Z.eqb_neq in E3, E4.
  destruct ((c <? 32) || (c =? 127)) eqn:E5.
  { left. exists 120, (hex_fixed 2 c). repeat split; try discriminate. apply hex_fixed_plain. exact Hq. }
  destruct (c <? 127) eqn:E6. { right. split; [reflexivity|]. repeat split; assumption. }
  destruct (p c). { right. split; [reflexivity|]. repeat split; assumption. }
  destruct (c <=? 255).
  { left. exists 120, (hex_fixed 2 c). repeat split; try discriminate. apply hex_fixed_plain. exact Hq. }
  destruct (c <=? 65535).
  { left. exists 117, (hex_fixed 4 c). repeat split; try discriminate. apply hex_fixed_plain. exact Hq. }
  left. exists 85, (hex_fixed 8 c). repeat split; try discriminate. apply hex_fixed_plain. exact Hq.
Qed.

Lemma scan_repr_body : forall p q s rest, (q = SQ \/ q = DQ) ->
  scan_body q (flat_map (repr_char p q) s ++ q :: rest) = Some rest.
Proof.
  intros p q s rest Hq. induction s as [|c s IH]; cbn [flat_map app].
  - cbn [scan_body]. rewrite Z.eqb_refl. reflexivity.
  - rewrite <- app_assoc.
    destruct (repr_char_shape p q c Hq) as [[d [xs [E [H1 [H2 H3]]]]]|[E Hp]]; rewrite E.
    + cbn [app]. rewrite scan_escape by assumption. rewrite scan_plain by assumption. exact IH.
    + rewrite (scan_plain q [c]) by (constructor; [exact Hp|constructor]). exact IH.
Qed.

Lemma repr_quote_cases : forall s, repr_quote s = SQ \/ repr_quote s = DQ.
Proof. intros s. unfold repr_quote. destruct (mem SQ s && negb (mem DQ s)); [right|left]; reflexivity. Qed.

Lemma scan_py_repr : forall p s rest, scan_string (py_repr p s ++ rest) = Some rest.
Proof.
  intros p s rest. unfold py_repr. pose proof (repr_quote_cases s) as Hq.
  cbn [app scan_string].
  assert (E : (repr_quote s =? SQ) || (repr_quote s =? DQ) = true).
  { destruct Hq as [-> | ->]; reflexivity. }
  rewrite E. rewrite <- app_assoc. cbn [app]. apply scan_repr_body. exact Hq.
Qed.

Definition no_le (c : Z) : Prop := c <> NL /\ c <> CR.

Lemma repr_char_no_le : forall p q c, (q = SQ \/ q = DQ) -> Forall no_le (repr_char p q c).
Proof.
  intros p q c Hq.
  destruct (repr_char_shape p q c Hq) as [[d [xs [E [H1 [H2 H3]]]]]|[E Hp]]; rewrite E.
  - constructor; [split; discriminate|]. constructor; [split; assumption|].
    eapply Forall_impl; [|exact H3]. intros a [_ [_ [Ha Hb]]]. split; assumption.
  - constructor; [|constructor]. destruct Hp as [_ [_ [Ha Hb]]]. split; assumption.
Qed.

Lemma py_repr_no_le : forall p s, Forall no_le (py_repr p s).
Proof.
  intros p s. unfold py_repr. pose proof (repr_quote_cases s) as Hq.
  assert (Hqq : no_le (repr_quote s)) by (destruct Hq as [-> | ->]; split; discriminate).
  constructor; [exact Hqq|]. apply Forall_app. split; [|constructor; [exact Hqq|constructor]].
  apply Forall_forall. intros x Hx. apply in_flat_map in Hx. destruct Hx as [c [_ Hx]].
  pose proof (repr_char_no_le p (repr_quote s) c Hq) as H. rewrite Forall_forall in H. apply H. exact Hx.
Qed.

Lemma digits_fuel_no_le : forall f n acc, 0 <= n -> Forall no_le acc -> Forall no_le (digits_fuel f n acc).
Proof.
  induction f as [|f IH]; intros n acc Hn Ha; cbn [digits_fuel]; [exact Ha|].
  assert (Hd : no_le (48 + n mod 10)).
  { pose proof (Z.mod_pos_bound n 10). unfold no_le, NL, CR. lia. }
  destruct (n <? 10); [constructor; assumption|].
  apply IH; [apply Z.div_pos; lia|constructor; assumption].
Qed.

Lemma dec_no_le : forall n, Forall no_le (dec n).
Proof.
  intros n. unfold dec. destruct (n <? 0) eqn:E.
  - apply Z.ltb_lt in E. constructor; [split; discriminate|]. apply digits_fuel_no_le; [lia|constructor].
  - apply Z.ltb_ge in E. apply digits_fuel_no_le; [lia|constructor].
Qed.

Lemma const_no_le : forall l, forallb (fun c => negb (c =? NL) && negb (c =? CR)) l = true -> Forall no_le l.
Proof.
  intros l H. apply Forall_forall. intros c Hc. rewrite forallb_forall in H. specialize (H c Hc).
  apply andb_true_iff in H. destruct H as [H1 H2]. apply negb_true_iff in H1, H2.
  apply Z.eqb_neq in H1, H2. split; assumption.
Qed.

Lemma raise_stmt_no_le : forall p name msg line col1 ltext, Forall no_le name ->
  Forall no_le (raise_stmt p name msg line col1 ltext).
Proof.
  intros. unfold raise_stmt.
  repeat (apply Forall_app; split); try apply py_repr_no_le; try apply dec_no_le; try assumption;
    apply const_no_le; reflexivity.
Qed.

Lemma no_le_no_line_end : forall l, Forall no_le l -> no_line_end l.
Proof.
  intros l H. rewrite Forall_forall in H. split; intros Hi; apply H in Hi; destruct Hi; congruence.
Qed.

Lemma no_le_nlfree : forall l, Forall no_le l -> nlfree l.
Proof. intros l H. apply no_le_no_line_end in H. destruct H. assumption. Qed.
Lemma no_le_crfree : forall l, Forall no_le l -> crfree l.
Proof. intros l H. apply no_le_no_line_end in H. destruct H. assumption. Qed.

(* ---------------------------------------------------------------------------------------------
   the syntax-error stub, as indented into a function body *)

Lemma raise_stmt_has_nonspace : forall p name msg line col1 ltext,
  has_nonspace (raise_stmt p name msg line col1 ltext) = true.
Proof. intros. reflexivity. Qed.

Lemma map_strip_cr_snoc : forall ls x, map strip_cr (ls ++ [x]) = map strip_cr ls ++ [strip_cr x].
Proof. intros. rewrite map_app. reflexivity. Qed.

Lemma stub_wellformed_gen : forall (cm : text -> text) (src : text -> text) ind p name msg line col1 ltext t,
  (forall t, cm t = join_nl (map (fun l => HASH :: SP :: l) (lines_nl (src t)))) ->
  nlfree ind -> crfree ind -> Forall no_le name -> no_bare_cr (src t) = true ->
  stub_wellformed ind (indent_re ind (stub_with cm p name msg line col1 ltext t)) p name msg line col1 ltext.
Proof.
  intros cm src ind p name msg line col1 ltext t Hcm Hn Hc Hname Hs.
  set (rs := raise_stmt p name msg line col1 ltext).
  pose proof (raise_stmt_no_le p name msg line col1 ltext Hname) as Hrs. fold rs in Hrs.
  unfold stub_wellformed. fold rs.
  exists (map strip_cr (map (indent_line ind) (map (fun l => HASH :: SP :: l) (lines_nl (src t))))).
  split; [|split; [|split; [|split]]].
  - unfold stub_with. fold rs. rewrite Hcm.
    set (cls := map (fun l => HASH :: SP :: l) (lines_nl (src t))).
    assert (Hcl : Forall nlfree cls).
    { apply Forall_map. eapply Forall_impl; [|apply lines_nl_nlfree].
      intros x Hx [E|[E|E]]; [discriminate|discriminate|exact (Hx E)]. }
    assert (Hlines : lines_nl (join_nl cls ++ [NL] ++ rs) = cls ++ [rs]).
    { cbn [app]. rewrite lines_nl_app. f_equal.
      - unfold cls in *. destruct (lines_nl (src t)) as [|l0 ls0] eqn:E0.
        + unfold lines_nl in E0. destruct (split_nl (src t)); discriminate.
        + cbn [map] in *. inversion Hcl; subst. apply lines_nl_of_join; assumption.
      - unfold lines_nl. rewrite split_nl_nlfree_id by (apply no_le_nlfree; exact Hrs). reflexivity. }
    (* no bare CR in the stub *)
    assert (Hnbc : no_bare_cr (join_nl cls ++ [NL] ++ rs) = true).
    { cbn [app]. rewrite no_bare_cr_app_nl.
      rewrite (crfree_no_bare_cr rs) by (apply no_le_crfree; exact Hrs). rewrite andb_true_r.
      apply no_bare_cr_good.
      unfold cls. destruct (lines_nl (src t)) as [|l0 ls0] eqn:E0.
      { unfold lines_nl in E0. destruct (split_nl (src t)); discriminate. }
      cbn [map join_nl]. rewrite nbc_join.
      rewrite (nbc_lines_map (fun l => HASH :: SP :: l)).
      - rewrite <- nbc_join. pose proof (join_lines_nl (src t)) as J. rewrite E0 in J. cbn [join_nl] in J.
        rewrite J. exact Hs.
      - intros x. apply (good_crfree_app [HASH; SP] x). intros [E|[E|[]]]; discriminate.
      - intros x. apply (no_bare_cr_crfree_app [HASH; SP] x). intros [E|[E|[]]]; discriminate. }
    rewrite indent_phys by assumption. rewrite Hlines.
    rewrite map_app, map_app. f_equal. cbn [map]. f_equal.
    unfold indent_line. unfold rs at 1. rewrite raise_stmt_has_nonspace. fold rs.
    rewrite strip_cr_app_crfree by exact Hc. f_equal. apply strip_cr_crfree. apply no_le_crfree. exact Hrs.
  - rewrite map_map, map_map. apply Forall_map. apply Forall_forall. intros l _.
    unfold indent_line. replace (has_nonspace (HASH :: SP :: l)) with true by reflexivity.
    change (ind ++ HASH :: SP :: l) with (ind ++ [HASH; SP] ++ l). rewrite app_assoc.
    rewrite strip_cr_app_crfree.
    + rewrite <- app_assoc. change ([HASH; SP] ++ strip_cr l) with ([HASH] ++ SP :: strip_cr l).
      rewrite app_assoc. apply starts_with_app.
    + intros Hi. apply in_app_or in Hi. destruct Hi as [Hi|[E|[E|[]]]]; [exact (Hc Hi)|discriminate|discriminate].
  - apply no_le_no_line_end. exact Hrs.
  - intros rest. apply scan_py_repr.
  - intros rest. apply scan_py_repr.
Qed.

Lemma stub_wellformed_nbc : forall ind p name msg line col1 ltext t,
  nlfree ind -> crfree ind -> Forall no_le name -> no_bare_cr (rstrip t) = true ->
  stub_wellformed ind (indent_re ind (stub_code p name msg line col1 ltext t)) p name msg line col1 ltext.
Proof.
  intros. unfold stub_code. apply (stub_wellformed_gen comment_re rstrip); try assumption. reflexivity.
Qed.

(* ---------------------------------------------------------------------------------------------
   placement into the module (gencode._make_formula_field) *)

Lemma split_phys_app_nl : forall a b, no_bare_cr a = true ->
  split_phys (a ++ NL :: b) =
  (fst (split_phys a), snd (split_phys a) ++ (let (l, ls) := split_phys b in l :: ls)).
Proof.
  induction a as [|c r IH]; intros b H.
  - cbn [app split_phys]. destruct (split_phys b) as [l ls]. reflexivity.
  - cbn [no_bare_cr] in H. apply andb_true_iff in H. destruct H as [Hc Hr].
    cbn [app split_phys]. rewrite (IH b Hr).
    destruct (split_phys r) as [l0 ls0] eqn:E0. cbn [fst snd].
    destruct (split_phys b) as [lb lsb].
    destruct (c =? NL); [reflexivity|].
    destruct (c =? CR); [|reflexivity].
    destruct r as [|d r']; [discriminate|]. cbn [app]. rewrite Hc. reflexivity.
Qed.

Lemma phys_lines_app_nl : forall a b, no_bare_cr a = true ->
  phys_lines (a ++ NL :: b) = phys_lines a ++ phys_lines b.
Proof.
  intros a b H. unfold phys_lines. rewrite split_phys_app_nl by exact H.
  destruct (split_phys a) as [l ls]. destruct (split_phys b) as [m ms]. reflexivity.
Qed.

Lemma phys_lines_one : forall l, Forall no_le l -> phys_lines l = [l].
Proof.
  intros l H. rewrite phys_lines_no_bare_cr by (apply crfree_no_bare_cr; apply no_le_crfree; exact H).
  unfold lines_nl. rewrite split_nl_nlfree_id by (apply no_le_nlfree; exact H). cbn [map].
  rewrite strip_cr_crfree by (apply no_le_crfree; exact H). reflexivity.
Qed.

Definition field_header (indent name params : text) : text :=
  indent ++ s_def ++ name ++ [40] ++ params ++ [41; 58].

Lemma field_lines : forall indent name params body,
  Forall no_le indent -> Forall no_le name -> Forall no_le params -> no_bare_cr body = true ->
  phys_lines (formula_field indent name params body)
  = [] :: field_header indent name params :: phys_lines body ++ [[]].
Proof.
  intros indent name params body Hi Hn Hp Hb.
  assert (Hh : Forall no_le (field_header indent name params)).
  { unfold field_header. repeat (apply Forall_app; split); try assumption; apply const_no_le; reflexivity. }
  unfold formula_field.
  replace ([NL] ++ indent ++ s_def ++ name ++ [40] ++ params ++ [41; 58; NL] ++ body ++ [NL])
    with ([] ++ NL :: (field_header indent name params ++ NL :: (body ++ NL :: []))).
  2:{ unfold field_header. cbn [app]. repeat (rewrite <- app_assoc; cbn [app]). reflexivity. }
  rewrite phys_lines_app_nl by reflexivity.
  rewrite phys_lines_app_nl by (apply crfree_no_bare_cr; apply no_le_crfree; exact Hh).
  rewrite phys_lines_app_nl by exact Hb.
  rewrite (phys_lines_one (field_header indent name params)) by exact Hh. reflexivity.
Qed.

Lemma indent_re_nbc : forall ind t, nlfree ind -> crfree ind -> no_bare_cr t = true ->
  no_bare_cr (indent_re ind t) = true.
Proof.
  intros ind t Hn Hc H. unfold indent_re.
  pose proof (join_lines_nl t) as J. unfold lines_nl in *. destruct (split_nl t) as [l ls].
  cbn [map join_nl] in *. rewrite nbc_join. rewrite nbc_lines_map.
  - rewrite <- nbc_join. rewrite J. exact H.
  - intros x. unfold indent_line. destruct (has_nonspace x); [apply good_crfree_app; exact Hc|reflexivity].
  - intros x. unfold indent_line. destruct (has_nonspace x); [apply no_bare_cr_crfree_app; exact Hc|reflexivity].
Qed.

Lemma stub_with_nbc : forall (cm : text -> text) (src : text -> text) p name msg line col1 ltext t,
  (forall t, cm t = join_nl (map (fun l => HASH :: SP :: l) (lines_nl (src t)))) ->
  Forall no_le name -> no_bare_cr (src t) = true ->
  no_bare_cr (stub_with cm p name msg line col1 ltext t) = true.
Proof.
  intros cm src p name msg line col1 ltext t Hcm Hname Hs.
  pose proof (raise_stmt_no_le p name msg line col1 ltext Hname) as Hrs.
  unfold stub_with. rewrite Hcm. cbn [app]. rewrite no_bare_cr_app_nl.
  rewrite (crfree_no_bare_cr (raise_stmt p name msg line col1 ltext)) by (apply no_le_crfree; exact Hrs).
  rewrite andb_true_r. apply no_bare_cr_good.
  destruct (lines_nl (src t)) as [|l0 ls0] eqn:E0.
  { unfold lines_nl in E0. destruct (split_nl (src t)); discriminate. }
  cbn [map join_nl]. rewrite nbc_join.
  rewrite (nbc_lines_map (fun l => HASH :: SP :: l)).
  - rewrite <- nbc_join. pose proof (join_lines_nl (src t)) as J. rewrite E0 in J. cbn [join_nl] in J.
    rewrite J. exact Hs.
  - intros x. apply (good_crfree_app [HASH; SP] x). intros [E|[E|[]]]; discriminate.
  - intros x. apply (no_bare_cr_crfree_app [HASH; SP] x). intros [E|[E|[]]]; discriminate.
Qed.

Lemma stub_body_nbc : forall ind p name msg line col1 ltext t,
  nlfree ind -> crfree ind -> Forall no_le name -> no_bare_cr (rstrip t) = true ->
  no_bare_cr (indent_re ind (stub_code p name msg line col1 ltext t)) = true.
Proof.
  intros. apply indent_re_nbc; try assumption. unfold stub_code.
  apply (stub_with_nbc comment_re rstrip); try assumption. reflexivity.
Qed.


(* ---------------------------------------------------------------------------------------------
   the chain of _do_make_formula_body / make_formula_body as coded now: formula_text, un-indent *)

Lemma in_join_tail_inv : forall c ls, In c (join_tail ls) -> c = NL \/ exists l, In l ls /\ In c l.
Proof.
  induction ls as [|x ls IH]; intros H; [destruct H|].
  cbn [join_tail] in H. destruct H as [H|H]; [left; congruence|].
  apply in_app_or in H. destruct H as [H|H].
  - right. exists x. split; [left; reflexivity|exact H].
  - destruct (IH H) as [E|[l [Hl Hc]]]; [left; exact E|right; exists l; split; [right; exact Hl|exact Hc]].
Qed.

Lemma in_join_nl_inv : forall c ls, In c (join_nl ls) -> c = NL \/ exists l, In l ls /\ In c l.
Proof.
  intros c ls H. destruct ls as [|x ls]; [destruct H|]. cbn [join_nl] in H.
  apply in_app_or in H. destruct H as [H|H].
  - right. exists x. split; [left; reflexivity|exact H].
  - destruct (in_join_tail_inv _ _ H) as [E|[l [Hl Hc]]]; [left; exact E|right; exists l; split; [right; exact Hl|exact Hc]].
Qed.

Lemma dedent_re_in : forall c t, c <> NL -> In c (dedent_re t) -> In c t.
Proof.
  intros c t Hc H. unfold dedent_re in H. destruct (shared_indent t) as [|s0 sh']; [exact H|].
  apply in_join_nl_inv in H. destruct H as [E|[l [Hl Hin]]]; [congruence|].
  apply in_map_iff in Hl. destruct Hl as [x [<- Hx]].
  eapply in_lines_nl; [exact Hx|].
  destruct (strip_prefix_opt (s0 :: sh') x) as [r|] eqn:E; [|exact Hin].
  apply strip_prefix_opt_some in E. rewrite E. apply in_or_app. right. exact Hin.
Qed.

Lemma formula_text_in : forall c f, c <> NL -> In c (formula_text f) -> In c f.
Proof. intros c f Hc H. unfold formula_text in H. apply dedent_re_in in H; [|exact Hc]. apply universal_in in H; assumption. Qed.

Lemma formula_text_crfree : forall f, crfree (formula_text f).
Proof.
  intros f H. unfold formula_text in H. apply dedent_re_in in H; [|discriminate].
  exact (universal_crfree f H).
Qed.

Lemma comment_out_all_lines : forall f, all_commented (comment_re (formula_text f)).
Proof.
  intros f. apply comment_all_lines_nbc. apply crfree_no_bare_cr. apply rstrip_crfree. apply formula_text_crfree.
Qed.

Lemma indent_all_lines_body : forall ind body, nlfree ind -> crfree ind -> crfree body ->
  all_indented ind (indent_re ind body).
Proof. intros. apply indent_all_lines_nbc; try assumption. apply crfree_no_bare_cr. assumption. Qed.

Lemma indent_all_lines : forall ind f, nlfree ind -> crfree ind ->
  all_indented ind (indent_re ind (formula_text f)).
Proof. intros. apply indent_all_lines_body; try assumption. apply formula_text_crfree. Qed.

Lemma indent_cols : forall n f, ~ In FF f ->
  all_indented_cols (repeat SP n) (indent_re (repeat SP n) (formula_text f)).
Proof.
  intros n f Hf. apply indent_cols_nbc.
  - intros Hi. apply Hf. apply formula_text_in in Hi; [exact Hi|discriminate].
  - apply crfree_no_bare_cr. apply formula_text_crfree.
Qed.

Lemma dedent_sound : forall f, dedent_ok f (formula_text f).
Proof.
  intros f. unfold formula_text.
  pose proof (dedent_nbc (universal_newlines f) (crfree_no_bare_cr _ (universal_crfree f))) as H.
  unfold dedent_ok in *. rewrite phys_lines_universal in H. exact H.
Qed.

Lemma stub_is_wellformed : forall ind p name msg line col1 ltext f,
  nlfree ind -> crfree ind -> Forall no_le name ->
  stub_wellformed ind (indent_re ind (stub_of_formula p name msg line col1 ltext f)) p name msg line col1 ltext.
Proof.
  intros. unfold stub_of_formula. apply stub_wellformed_nbc; try assumption.
  apply crfree_no_bare_cr. apply rstrip_crfree. apply formula_text_crfree.
Qed.

Lemma stub_body_no_bare_cr : forall ind p name msg line col1 ltext f,
  nlfree ind -> crfree ind -> Forall no_le name ->
  no_bare_cr (indent_re ind (stub_of_formula p name msg line col1 ltext f)) = true.
Proof.
  intros. unfold stub_of_formula. apply stub_body_nbc; try assumption.
  apply crfree_no_bare_cr. apply rstrip_crfree. apply formula_text_crfree.
Qed.

(* the un-indent of multi-line strings undoes exactly what _indent did to the lines after the first *)
Lemma unindent_indent_line : forall ind l, unindent_line ind (indent_line ind l) = l.
Proof.
  intros ind l. unfold indent_line, unindent_line. destruct (has_nonspace l) eqn:E.
  - rewrite strip_prefix_opt_app. rewrite E. reflexivity.
  - destruct (strip_prefix_opt ind l) as [r|] eqn:Es; [|reflexivity].
    apply strip_prefix_opt_some in Es. unfold has_nonspace in *. rewrite Es in E.
    rewrite existsb_app in E. apply orb_false_iff in E. destruct E as [_ E]. rewrite E. reflexivity.
Qed.

Lemma unindent_inverse : forall ind first l ls, nlfree ind -> nlfree first -> Forall nlfree (l :: ls) ->
  unindent_re ind (join_nl (first :: map (indent_line ind) (l :: ls))) = join_nl (first :: l :: ls).
Proof.
  intros ind first l ls Hi Hf Hls. unfold unindent_re.
  rewrite lines_nl_of_join.
  - rewrite map_map. f_equal. f_equal. rewrite <- (map_id (l :: ls)) at 2. apply map_ext. apply unindent_indent_line.
  - exact Hf.
  - apply Forall_map. eapply Forall_impl; [|exact Hls]. intros x Hx. unfold indent_line.
    destruct (has_nonspace x); [|exact Hx]. intros Hin. apply in_app_or in Hin. destruct Hin; [exact (Hi H)|exact (Hx H)].
Qed.
