(* C20, partial renumbering path: _find_sparse_enough_range as a search -- it returns the first level whose
   test succeeds; the float thresholds 1.14^i / 1.3^i as a table. *)
From Coq Require Import ZArith List Bool Lia.
Import ListNotations.
Require Import Grist.Lib.Fl64 Grist.Proofs.Fl64_proofs Grist.Model.Relabel.
Open Scope Z_scope.

(* thresh after i rounds of "thresh *= frac", starting from t (the loop starts from 1) *)
Fixpoint thr_from (frac t : fl) (i : nat) : fl :=
  match i with O => t | S j => thr_from frac (fmul t frac) j end.
Definition thr (frac : fl) (i : nat) : fl := thr_from frac (of_Z 1) i.

(* what one level of the loop tests *)
Definition level_ok (orig : list fl) (w : wl) (b e : fl) (thresh : fl) (i : Z) : bool :=
  match range_around_float b i with
  | Ok r => (0 <? count_range orig w (fst r) (snd r)) && fle e (snd r) &&
            flt (of_Z (count_range orig w (fst r) (snd r))) thresh
  | Err _ => false
  end.
(* a level that neither returns nor raises *)
Definition level_passes (orig : list fl) (w : wl) (b : fl) (i : Z) : bool :=
  match range_around_float b i with
  | Ok r => 0 <? count_range orig w (fst r) (snd r)
  | Err _ => false
  end.

Lemma sparse_loop_finds orig w b e frac : forall (n : nat) (s : nat) thresh0 (j : nat),
  (j < n)%nat ->
  (forall a, (a <= j)%nat -> level_passes orig w b (Z.of_nat (s + a)) = true) ->
  level_ok orig w b e (thr_from frac thresh0 j) (Z.of_nat (s + j)) = true ->
  exists r a, (a <= j)%nat /\
    sparse_loop orig w b e frac thresh0 (map Z.of_nat (seq s n)) = Ok (Some r) /\
    range_around_float b (Z.of_nat (s + a)) = Ok r /\
    level_ok orig w b e (thr_from frac thresh0 a) (Z.of_nat (s + a)) = true.
Proof.
  induction n as [|n IH]; intros s thresh0 j Hj Hpass Hok; [lia|].
  cbn [seq map sparse_loop].
  pose proof (Hpass 0%nat ltac:(lia)) as Hp0. rewrite Nat.add_0_r in Hp0.
  unfold level_passes in Hp0. destruct (range_around_float b (Z.of_nat s)) as [r0|c0] eqn:E0; [|discriminate].
  cbn [bind]. apply Z.ltb_lt in Hp0.
  replace (count_range orig w (fst r0) (snd r0) <=? 0) with false by (symmetry; apply Z.leb_gt; lia).
  destruct (fle e (snd r0) && flt (of_Z (count_range orig w (fst r0) (snd r0))) thresh0) eqn:Et.
  - exists r0, 0%nat. split; [lia|]. split; [reflexivity|]. rewrite Nat.add_0_r. split; [exact E0|].
    unfold level_ok. rewrite E0. cbn [thr_from].
    replace (0 <? count_range orig w (fst r0) (snd r0)) with true by (symmetry; apply Z.ltb_lt; lia).
    rewrite <- andb_assoc. exact Et.
  - destruct j as [|j].
    + exfalso. rewrite Nat.add_0_r in Hok. unfold level_ok in Hok. rewrite E0 in Hok. cbn [thr_from] in Hok.
      rewrite <- andb_assoc in Hok. apply andb_prop in Hok. destruct Hok as [_ Hok]. congruence.
    + destruct (IH (S s) (fmul thresh0 frac) j) as (r & a & Ha & Hl & Hr & Hk).
      * lia.
      * intros a Ha. replace (S s + a)%nat with (s + S a)%nat by lia. apply Hpass. lia.
      * replace (S s + j)%nat with (s + S j)%nat by lia. exact Hok.
      * exists r, (S a). split; [lia|]. split; [exact Hl|].
        replace (s + S a)%nat with (S s + a)%nat by lia. split; [exact Hr | exact Hk].
Qed.

(* a loop whose levels all pass does not raise *)
Lemma sparse_loop_no_raise orig w b e frac : forall (n s : nat) thresh0,
  (forall a, (a < n)%nat -> level_passes orig w b (Z.of_nat (s + a)) = true) ->
  exists o, sparse_loop orig w b e frac thresh0 (map Z.of_nat (seq s n)) = Ok o /\
    match o with
    | Some r => exists a, (a < n)%nat /\ range_around_float b (Z.of_nat (s + a)) = Ok r /\
                          level_ok orig w b e (thr_from frac thresh0 a) (Z.of_nat (s + a)) = true
    | None => True
    end.
Proof.
  induction n as [|n IH]; intros s thresh0 Hpass; cbn [seq map sparse_loop]; [exists None; auto|].
  pose proof (Hpass 0%nat ltac:(lia)) as Hp0. rewrite Nat.add_0_r in Hp0.
  unfold level_passes in Hp0. destruct (range_around_float b (Z.of_nat s)) as [r0|c0] eqn:E0; [|discriminate].
  cbn [bind]. apply Z.ltb_lt in Hp0.
  replace (count_range orig w (fst r0) (snd r0) <=? 0) with false by (symmetry; apply Z.leb_gt; lia).
  destruct (fle e (snd r0) && flt (of_Z (count_range orig w (fst r0) (snd r0))) thresh0) eqn:Et.
  - exists (Some r0). split; [reflexivity|]. exists 0%nat. split; [lia|]. rewrite Nat.add_0_r. split; [exact E0|].
    unfold level_ok. rewrite E0. cbn [thr_from].
    replace (0 <? count_range orig w (fst r0) (snd r0)) with true by (symmetry; apply Z.ltb_lt; lia).
    rewrite <- andb_assoc. exact Et.
  - destruct (IH (S s) (fmul thresh0 frac)) as (o & Ho & Hm).
    + intros a Ha. replace (S s + a)%nat with (s + S a)%nat by lia. apply Hpass. lia.
    + exists o. split; [exact Ho|]. destruct o as [r|]; [|exact I].
      destruct Hm as (a & Ha & Hr & Hk). exists (S a). split; [lia|].
      replace (s + S a)%nat with (S s + a)%nat by lia. split; [exact Hr | exact Hk].
Qed.

Lemma zrange_0_64 : zrange 0 64 = map Z.of_nat (seq 0 64).
Proof. reflexivity. Qed.

(* _find_sparse_enough_range returns a range -- the first level, with the 1.14 thresholds or else with the 1.3
   thresholds, whose test succeeds -- provided no level raises (range_around_float does not overflow and every
   range counts at least one key) and some level succeeds with the 1.3 thresholds *)
Theorem find_sparse_finds orig w b e (j : nat) : (j < 64)%nat ->
  (forall a, (a < 64)%nat -> level_passes orig w b (Z.of_nat a) = true) ->
  level_ok orig w b e (thr f130 j) (Z.of_nat j) = true ->
  exists r a frac, (a < 64)%nat /\ (frac = f114 \/ frac = f130) /\
    find_sparse_enough_range orig w b e = Ok r /\
    range_around_float b (Z.of_nat a) = Ok r /\
    level_ok orig w b e (thr frac a) (Z.of_nat a) = true.
Proof.
  intros Hj Hpass Hok. unfold find_sparse_enough_range. rewrite zrange_0_64.
  destruct (sparse_loop_no_raise orig w b e f114 64 0 (of_Z 1) Hpass) as (o & Ho & Hm).
  rewrite Ho. cbn [bind]. destruct o as [r|].
  - destruct Hm as (a & Ha & Hr & Hk). exists r, a, f114. cbn [Nat.add] in *. auto.
  - destruct (sparse_loop_finds orig w b e f130 64 0 (of_Z 1) j Hj) as (r & a & Ha & Hl & Hr & Hk).
    + intros a Ha. apply Hpass. lia.
    + exact Hok.
    + rewrite Hl. cbn [bind]. exists r, a, f130. cbn [Nat.add] in *. split; [lia|]. auto.
Qed.

(* ---- inversion: whatever _find_sparse_enough_range returns is the range of some level that passed its test *)
Lemma sparse_loop_inv orig w b e frac : forall (n s : nat) thresh0 r,
  sparse_loop orig w b e frac thresh0 (map Z.of_nat (seq s n)) = Ok (Some r) ->
  exists a, (a < n)%nat /\ range_around_float b (Z.of_nat (s + a)) = Ok r /\
            level_ok orig w b e (thr_from frac thresh0 a) (Z.of_nat (s + a)) = true.
Proof.
  induction n as [|n IH]; intros s thresh0 r H; cbn [seq map sparse_loop] in H; [discriminate|].
  destruct (range_around_float b (Z.of_nat s)) as [r0|c0] eqn:E0; cbn [bind] in H; [|discriminate].
  destruct (count_range orig w (fst r0) (snd r0) <=? 0) eqn:Ec; [discriminate|]. apply Z.leb_gt in Ec.
  destruct (fle e (snd r0) && flt (of_Z (count_range orig w (fst r0) (snd r0))) thresh0) eqn:Et.
  - inversion H; subst r0. exists 0%nat. split; [lia|]. rewrite Nat.add_0_r. split; [exact E0|].
    unfold level_ok. rewrite E0. cbn [thr_from].
    replace (0 <? count_range orig w (fst r) (snd r)) with true by (symmetry; apply Z.ltb_lt; lia).
    rewrite <- andb_assoc. exact Et.
  - destruct (IH (S s) (fmul thresh0 frac) r H) as (a & Ha & Hr & Hk).
    exists (S a). split; [lia|]. replace (s + S a)%nat with (S s + a)%nat by lia. split; [exact Hr | exact Hk].
Qed.

Theorem find_sparse_inv orig w b e r : find_sparse_enough_range orig w b e = Ok r ->
  exists (a : nat) frac, (a < 64)%nat /\ (frac = f114 \/ frac = f130) /\
    range_around_float b (Z.of_nat a) = Ok r /\ level_ok orig w b e (thr frac a) (Z.of_nat a) = true.
Proof.
  unfold find_sparse_enough_range. rewrite zrange_0_64. intros H.
  destruct (sparse_loop orig w b e f114 (of_Z 1) (map Z.of_nat (seq 0 64))) as [[r1|]|c1] eqn:E1; cbn [bind] in H; [| |discriminate].
  - inversion H; subst r1. destruct (sparse_loop_inv _ _ _ _ _ _ _ _ _ E1) as (a & Ha & Hr & Hk).
    exists a, f114. cbn [Nat.add] in *. auto.
  - destruct (sparse_loop orig w b e f130 (of_Z 1) (map Z.of_nat (seq 0 64))) as [[r2|]|c2] eqn:E2; cbn [bind] in H; try discriminate.
    inversion H; subst r2. destruct (sparse_loop_inv _ _ _ _ _ _ _ _ _ E2) as (a & Ha & Hr & Hk).
    exists a, f130. cbn [Nat.add] in *. auto.
Qed.
