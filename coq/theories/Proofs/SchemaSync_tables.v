(* C08, part 4e: table record updates (_updateTableRecords): renames with the type detour of referring columns. *)
From Coq Require Import ZArith List Bool Lia Permutation.
Import ListNotations.
Require Import Grist.Model.SchemaSync Grist.Proofs.SchemaSync_build Grist.Proofs.SchemaSync_spec
               Grist.Proofs.SchemaSync_steps Grist.Proofs.SchemaSync_aux Grist.Proofs.SchemaSync_proofs
               Grist.Proofs.SchemaSync_update.
Open Scope Z_scope.

Definition no_patch : cpatch :=
  {| u_parent := None; u_pos := None; u_colId := None; u_type := None; u_isf := None; u_formula := None; u_rev := None |}.
Definition int_patch : cpatch :=
  {| u_parent := None; u_pos := None; u_colId := None; u_type := Some type_Int; u_isf := None; u_formula := None;
     u_rev := None |}.
Definition strip (u : cpatch) : cpatch :=
  {| u_parent := None; u_pos := None; u_colId := None; u_type := u_type u; u_isf := u_isf u; u_formula := u_formula u;
     u_rev := None |}.

Definition fuA (u : cpatch) : option cpatch := match u_type u with Some _ => Some int_patch | None => None end.
Definition fuC (u : cpatch) : option cpatch := Some (strip u).
Definition gv (fu : cpatch -> option cpatch) (u : cpatch) (r : crec) : crec :=
  match fu u with Some u' => vpatch u' r | None => r end.

Lemma do_modify_empty : forall tid c p sch sch1 l1, patch_empty p = true -> do_modify tid c p sch = Ok (sch1, l1) ->
  sch1 = sch /\ l1 = [].
Proof.
  intros tid c p sch sch1 l1 He H. unfold do_modify in H.
  destruct (od_get tid sch) as [cols|]; [|discriminate]. destruct (od_get c cols) as [old|]; [|discriminate].
  cbv zeta in H.
  assert (Hf : patch_empty (filter_patch old p) = true).
  { destruct p as [pt pi pf pr]. unfold patch_empty in He. cbn in He. destruct pt, pi, pf, pr; try discriminate. reflexivity. }
  rewrite Hf in H. inversion H. tauto.
Qed.

Lemma mod_loop_cons : forall m f k u rest sch log,
  mod_loop m f ((k, u) :: rest) sch log =
  match f u with
  | None => mod_loop m f rest sch log
  | Some p =>
    match find_col k (m_cols m) with
    | None => Err E_no_row
    | Some r =>
      match find_table (c_parent r) (m_tables m) with
      | None => Err E_no_table
      | Some t =>
        match do_modify (t_tableId t) (c_colId r) p sch with
        | Err e => Err e
        | Ok (sch1, l1) => mod_loop m f rest sch1 (log ++ l1)
        end
      end
    end
  end.
Proof. reflexivity. Qed.

Lemma gv_id : forall fu u r, c_id (gv fu u r) = c_id r.
Proof. intros fu u r. unfold gv. destruct (fu u); reflexivity. Qed.

Lemma rowfun_snoc : forall fu done k u L, assoc k done = None ->
  map (rowfun (gv fu) (done ++ [(k, u)])) L =
  map (fun r => if c_id r =? k then gv fu u r else r) (map (rowfun (gv fu) done) L).
Proof.
  intros fu done k u L Hkd. rewrite map_map. apply map_ext. intro r. unfold rowfun. rewrite assoc_app. cbn [assoc].
  destruct (assoc (c_id r) done) as [v|] eqn:Ea.
  - rewrite gv_id. destruct (Z.eqb_spec (c_id r) k) as [E|E]; [rewrite E, Hkd in Ea; discriminate | reflexivity].
  - rewrite Z.eqb_sym. destruct (c_id r =? k); reflexivity.
Qed.

Lemma mod_loop_sync : forall base ts cs_r h f fu rho,
  wf_t ts -> NoDup (map c_id cs_r) ->
  (forall r, c_id (h r) = c_id r /\ c_parent (h r) = c_parent r /\ c_colId (h r) = c_colId r) ->
  (forall u, f u = option_map (fun u' => schema_patch_of u' None) (fu u)) ->
  (forall u u', fu u = Some u' -> u_colId u' = None) ->
  forall l done sch log sch' log',
    nodup_keys (done ++ l) = true ->
    wf_c (map (rowfun (gv fu) done) (map h cs_r)) ->
    Sync base sch ts (map (rowfun (gv fu) done) (map h cs_r)) rho ->
    mod_loop {| m_tables := ts; m_cols := cs_r |} f l sch log = Ok (sch', log') ->
    wf_c (map (rowfun (gv fu) (done ++ l)) (map h cs_r)) /\
    Sync base sch' ts (map (rowfun (gv fu) (done ++ l)) (map h cs_r)) rho.
Proof.
  intros base ts cs_r h f fu rho Hwt Hnd Hh Hf Hfu l.
  induction l as [|[k u] rest IH]; intros done sch log sch' log' Hnk Hwc Hs Hloop.
  - cbn in Hloop. inversion Hloop; subst. rewrite app_nil_r. tauto.
  - rewrite mod_loop_cons in Hloop. cbn [m_cols m_tables] in Hloop.
    pose proof (nodup_keys_mid done k u rest Hnk) as Hkd.
    replace (done ++ (k, u) :: rest) with ((done ++ [(k, u)]) ++ rest) in * by (rewrite <- app_assoc; reflexivity).
    set (cur := map (rowfun (gv fu) done) (map h cs_r)) in *.
    rewrite (Hf u) in Hloop. destruct (fu u) as [u'|] eqn:Efu; cbn [option_map] in Hloop.
    + destruct (find_col k cs_r) as [r|] eqn:Ef; [|discriminate]. apply find_col_in in Ef. destruct Ef as [Hr Hk].
      destruct (find_table (c_parent r) ts) as [t|] eqn:Et; [|discriminate]. apply find_table_some in Et. destruct Et as [Ht Htid].
      destruct (do_modify (t_tableId t) (c_colId r) (schema_patch_of u' None) sch) as [[sch1 l1]|] eqn:Em; [|discriminate].
      destruct (Hh r) as [Hh1 [Hh2 Hh3]].
      assert (Hin : In (h r) cur).
      { apply in_map_iff. exists (h r). split; [|apply in_map; exact Hr]. unfold rowfun. rewrite Hh1, Hk, Hkd. reflexivity. }
      assert (Hm' : (if patch_empty (schema_patch_of u' None) then Ok (sch, [])
                     else do_modify (t_tableId t) (c_colId (h r)) (schema_patch_of u' None) sch) = Ok (sch1, l1)).
      { rewrite Hh3. destruct (patch_empty (schema_patch_of u' None)) eqn:Ee; [|exact Em].
        destruct (do_modify_empty _ _ _ _ _ _ Ee Em) as [-> ->]. reflexivity. }
      assert (Hren : rename_step (t_tableId t) (c_colId (h r)) (u_colId u') sch1 = Ok (sch1, [])).
      { rewrite (Hfu u u' Efu). reflexivity. }
      assert (Hpar : c_parent (h r) = t_id t) by (rewrite Hh2; symmetry; exact Htid).
      destruct (upd_entry base ts cur rho t (h r) u' None sch sch1 sch1 l1 [] Hwt Hwc Hs Ht Hin Hpar Hm' Hren) as [Hwc1 Hs1].
      assert (Hcur : repl (c_id (h r)) (vpatch u' (h r)) cur = map (rowfun (gv fu) (done ++ [(k, u)])) (map h cs_r)).
      { rewrite (rowfun_snoc fu done k u _ Hkd). fold cur. unfold repl. apply map_ext_in. intros x Hx.
        rewrite Hh1, Hk. destruct (Z.eqb_spec (c_id x) k) as [E|E]; [|reflexivity].
        assert (x = h r).
        { apply (nodup_ids_unique cur); try assumption; [apply Hwc | congruence]. }
        subst x. unfold gv. rewrite Efu. reflexivity. }
      rewrite Hcur in Hwc1, Hs1.
      apply (IH (done ++ [(k, u)]) sch1 (log ++ l1) sch' log'); try assumption.
      apply (sync_rho_ext _ _ _ _ _ _ Hs1). intros x _. unfold rho_set. destruct (c_id x =? c_id (h r)) eqn:E; [|reflexivity].
      apply Z.eqb_eq in E. rewrite E. reflexivity.
    + assert (Hcur : map (rowfun (gv fu) (done ++ [(k, u)])) (map h cs_r) = cur).
      { rewrite (rowfun_snoc fu done k u _ Hkd). fold cur. rewrite <- (map_id cur) at 2. apply map_ext. intro x.
        unfold gv. rewrite Efu. destruct (c_id x =? k); reflexivity. }
      apply (IH (done ++ [(k, u)]) sch log sch' log'); try assumption; rewrite Hcur; assumption.
Qed.

(* ---------------------------------------------------------------- the RenameTable loop *)
Lemma upd_table_none : forall k ts, upd_table k None ts = ts.
Proof.
  intros k ts. unfold upd_table. rewrite <- (map_id ts) at 2. apply map_ext. intros [i n]. cbn.
  destruct (i =? k); reflexivity.
Qed.

Lemma upd_table_same : forall k n ts t, NoDup (map t_id ts) -> In t ts -> t_id t = k -> t_tableId t = n ->
  upd_table k (Some n) ts = ts.
Proof.
  intros k n ts t Hnd Ht Hk Hn. unfold upd_table. rewrite <- (map_id ts) at 2. apply map_ext_in. intros y Hy.
  destruct (Z.eqb_spec (t_id y) k) as [E|E]; [|reflexivity].
  assert (y = t) by (apply (nodup_map_unique t_id ts); try assumption; congruence). subst y.
  destruct t as [i m]. cbn in *. subst. reflexivity.
Qed.

Lemma in_upd_tables_other : forall done ts t, In t ts -> assoc (t_id t) done = None -> In t (upd_tables done ts).
Proof.
  intros done. induction done as [|[k n] d IH]; intros ts t Ht Ha; [exact Ht|].
  cbn [assoc] in Ha. destruct (Z.eqb_spec k (t_id t)) as [E|E]; [discriminate|].
  unfold upd_tables. cbn [fold_left fst snd]. apply IH; [|exact Ha].
  unfold upd_table. apply in_map_iff. exists t. split; [|exact Ht].
  destruct (Z.eqb_spec (t_id t) k); [congruence | reflexivity].
Qed.

Lemma upd_tables_snoc : forall done k n ts, upd_tables (done ++ [(k, n)]) ts = upd_table k n (upd_tables done ts).
Proof. intros done k n ts. unfold upd_tables. rewrite fold_left_app. reflexivity. Qed.

Lemma rename_loop_sync : forall base ts0 cs rho,
  forall l done sch log sch' log',
    nodup_keys (done ++ l) = true ->
    wf_t (upd_tables done ts0) -> base_disjoint base (upd_tables done ts0) ->
    Sync base sch (upd_tables done ts0) cs rho ->
    rename_tables ts0 l sch log = Ok (sch', log') ->
    wf_t (upd_tables (done ++ l) ts0) /\ base_disjoint base (upd_tables (done ++ l) ts0) /\
    Sync base sch' (upd_tables (done ++ l) ts0) cs rho.
Proof.
  intros base ts0 cs rho l. induction l as [|[k n] rest IH]; intros done sch log sch' log' Hnk Hwt Hbd Hs Hloop.
  - cbn in Hloop. inversion Hloop; subst. rewrite app_nil_r. tauto.
  - pose proof (nodup_keys_mid done k n rest Hnk) as Hkd.
    replace (done ++ (k, n) :: rest) with ((done ++ [(k, n)]) ++ rest) in * by (rewrite <- app_assoc; reflexivity).
    set (cur := upd_tables done ts0) in *.
    destruct n as [n|].
    + cbn [rename_tables] in Hloop. destruct (find_table k ts0) as [t|] eqn:Ef; [|discriminate].
      apply find_table_some in Ef. destruct Ef as [Ht0 Hk].
      assert (Ht : In t cur) by (apply in_upd_tables_other; [exact Ht0 | rewrite Hk; exact Hkd]).
      destruct (str_eqb n (t_tableId t)) eqn:Esame.
      * apply str_eqb_eq in Esame.
        apply (IH (done ++ [(k, Some n)]) sch log sch' log'); try assumption;
          rewrite upd_tables_snoc; fold cur;
          rewrite (upd_table_same k n cur t (wt_ids _ Hwt) Ht Hk (eq_sym Esame)); assumption.
      * destruct (apply_s (SRenameTable (t_tableId t) n) sch) as [s1|] eqn:Ea; [|discriminate].
        cbn in Ea. destruct (od_get (t_tableId t) sch) as [cols|] eqn:Eo; [|discriminate].
        destruct (od_get n sch) eqn:En; [discriminate|]. inversion Ea; subst s1; clear Ea.
        destruct (sync_rename_table base sch (od_set n cols (od_del (t_tableId t) sch)) cur cs rho t n cols Hwt Hs Hbd Ht Eo En)
          as [Hwt1 [Hs1 Hbd1]].
        -- intro x. rewrite od_get_set, od_get_del. reflexivity.
        -- rewrite Hk in Hwt1, Hs1, Hbd1.
           apply (IH (done ++ [(k, Some n)]) (od_set n cols (od_del (t_tableId t) sch)) (log ++ [SRenameTable (t_tableId t) n]) sch' log'); try assumption;
             rewrite upd_tables_snoc; fold cur; assumption.
    + cbn [rename_tables] in Hloop.
      apply (IH (done ++ [(k, None)]) sch log sch' log'); try assumption;
        rewrite upd_tables_snoc; fold cur; rewrite upd_table_none; assumption.
Qed.

(* ---------------------------------------------------------------- CUpdateTables *)
Lemma upd_tables_ids : forall l ts, map t_id (upd_tables l ts) = map t_id ts.
Proof.
  intros l. induction l as [|[k n] d IH]; intro ts; [reflexivity|].
  unfold upd_tables. cbn [fold_left fst snd]. fold (upd_tables d (upd_table k n ts)). rewrite IH. apply upd_table_ids.
Qed.

Lemma same_ids_in : forall ts ts' k, map t_id ts' = map t_id ts -> (exists t, In t ts /\ t_id t = k) ->
  exists t', In t' ts' /\ t_id t' = k.
Proof.
  intros ts ts' k Hm [t [Ht Hk]]. assert (In k (map t_id ts')) by (rewrite Hm, <- Hk; apply in_map; exact Ht).
  apply in_map_iff in H. destruct H as [t' [H1 H2]]. exists t'. tauto.
Qed.

Lemma tables_pre_split : forall tupds cupds s, cop_pre (CUpdateTables tupds cupds) s = true ->
  forall k u, In (k, u) cupds -> u_parent u = None /\ u_colId u = None /\ u_rev u = None.
Proof.
  intros tupds cupds s H k u Hin. cbn [cop_pre] in H. apply (proj1 (forallb_forall _ _) H) in Hin. cbn in Hin.
  destruct (u_parent u), (u_colId u), (u_rev u); try discriminate. tauto.
Qed.

Lemma coupled_update_tables : forall base tupds cupds s s' log,
  InvD base s -> cop_pre (CUpdateTables tupds cupds) s = true ->
  coupled (CUpdateTables tupds cupds) s = Ok (s', log) -> InvD base s'.
Proof.
  intros base tupds cupds s s' log [Hwt Hwc Hnd Hns Hall Hbd Hs] Hpre H.
  pose proof (tables_pre_split tupds cupds s Hpre) as Hsimple.
  set (cs := m_cols (st_meta s)) in *. set (ts := m_tables (st_meta s)) in *.
  unfold coupled in H. destruct (nodup_keys tupds && nodup_keys cupds) eqn:Hnk; [|discriminate]. cbn [negb] in H.
  apply andb_true_iff in Hnk. destruct Hnk as [Hnkt Hnkc].
  rewrite (meta_eta (st_meta s)) in H. fold cs ts in H.
  destruct (mod_loop {| m_tables := ts; m_cols := cs |} pre_int cupds (st_schema s) []) as [[sch1 l1]|] eqn:EA; [|discriminate].
  cbn [m_tables] in H.
  destruct (rename_tables ts tupds sch1 []) as [[sch2 l2]|] eqn:EB; [|discriminate].
  cbn [apply_m m_tables m_cols] in H.
  destruct (forallb (fun kn => match find_table (fst kn) ts with Some _ => true | None => false end) tupds); [|discriminate].
  destruct (mod_loop {| m_tables := upd_tables tupds ts; m_cols := cs |} post_patch cupds sch2 []) as [[sch3 l3]|] eqn:EC; [|discriminate].
  cbn [apply_m m_tables m_cols] in H.
  destruct (forallb (fun ku => match find_col (fst ku) cs with Some _ => true | None => false end) cupds); [|discriminate].
  inversion H; subst s'; clear H.
  set (rho := rho_of cs) in *.
  (* phase A: referring columns become Int *)
  assert (HfA : forall u, pre_int u = option_map (fun u' => schema_patch_of u' None) (fuA u)).
  { intro u. unfold pre_int, fuA. destruct (u_type u); reflexivity. }
  assert (HfuA : forall u u', fuA u = Some u' -> u_colId u' = None).
  { intros u u' Hu. unfold fuA in Hu. destruct (u_type u); inversion Hu. reflexivity. }
  assert (Hw0 : wf_c (map (rowfun (gv fuA) []) (map (fun r => r) cs))) by (rewrite rowfun_nil, map_id; exact Hwc).
  assert (Hs0 : Sync base (st_schema s) ts (map (rowfun (gv fuA) []) (map (fun r => r) cs)) rho)
    by (rewrite rowfun_nil, map_id; exact Hs).
  destruct (mod_loop_sync base ts cs (fun r => r) pre_int fuA rho Hwt (wc_ids _ Hwc)
              (fun r => conj eq_refl (conj eq_refl eq_refl)) HfA HfuA cupds [] (st_schema s) [] sch1 l1 Hnkc Hw0 Hs0 EA)
    as [HwcA HsA].
  cbn [app] in HwcA, HsA. rewrite map_id in HwcA, HsA. set (csA := map (rowfun (gv fuA) cupds) cs) in *.
  (* phase B: the renames *)
  destruct (rename_loop_sync base ts csA rho tupds [] sch1 [] sch2 l2 Hnkt Hwt Hbd HsA EB) as [HwtB [HbdB HsB]].
  cbn [app] in HwtB, HbdB, HsB. set (ts1 := upd_tables tupds ts) in *.
  (* phase C: the final types and formulas *)
  set (hA := rowfun (gv fuA) cupds).
  assert (HhC : forall r, c_id (hA r) = c_id r /\ c_parent (hA r) = c_parent r /\ c_colId (hA r) = c_colId r).
  { intro r. unfold hA, rowfun. destruct (assoc (c_id r) cupds) as [u|]; [|tauto]. unfold gv, fuA. destruct (u_type u); cbn; tauto. }
  assert (HfC : forall u, post_patch u = option_map (fun u' => schema_patch_of u' None) (fuC u)) by (intro u; reflexivity).
  assert (HfuC : forall u u', fuC u = Some u' -> u_colId u' = None).
  { intros u u' Hu. unfold fuC in Hu. inversion Hu. reflexivity. }
  assert (Hw1 : wf_c (map (rowfun (gv fuC) []) (map hA cs))) by (rewrite rowfun_nil; exact HwcA).
  assert (Hs1 : Sync base sch2 ts1 (map (rowfun (gv fuC) []) (map hA cs)) rho) by (rewrite rowfun_nil; exact HsB).
  destruct (mod_loop_sync base ts1 cs hA post_patch fuC rho HwtB (wc_ids _ Hwc) HhC HfC HfuC cupds [] sch2 [] sch3 l3
              Hnkc Hw1 Hs1 EC) as [HwcC HsC].
  cbn [app] in HwcC, HsC. fold csA in HwcC, HsC.
  (* the virtual rows and the updated rows agree on what the schema sees *)
  set (P := rowfun patch_crec cupds).
  assert (Hcs' : upd_cols cupds cs = map P cs) by (rewrite upd_cols_rowmap; apply rowmap_assoc; [exact Hnkc | intros; reflexivity]).
  assert (Hcore : map core (map (rowfun (gv fuC) cupds) csA) = map core (map P cs)).
  { unfold csA. rewrite !map_map. apply map_ext. intro r. unfold P, rowfun at 1.
    assert (Hid : c_id (rowfun (gv fuA) cupds r) = c_id r) by (unfold rowfun; destruct (assoc (c_id r) cupds); [apply gv_id | reflexivity]).
    rewrite Hid. unfold rowfun. destruct (assoc (c_id r) cupds) as [u|] eqn:Ea; [|reflexivity].
    destruct (Hsimple (c_id r) u (assoc_in _ _ _ Ea)) as [Hq1 [Hq2 Hq3]].
    unfold gv, fuC, fuA, core, vpatch, patch_crec, strip, int_patch. cbn. rewrite Hq1, Hq2.
    destruct (u_type u); reflexivity. }
  assert (Hwc' : wf_c (map P cs)) by (apply (wf_c_core_ext _ _ Hcore HwcC)).
  assert (HP : forall r, c_id (P r) = c_id r /\ c_parent (P r) = c_parent r /\ c_colId (P r) = c_colId r /\ c_rev (P r) = c_rev r).
  { intro r. unfold P, rowfun. destruct (assoc (c_id r) cupds) as [u|] eqn:Ea; [|tauto].
    destruct (Hsimple (c_id r) u (assoc_in _ _ _ Ea)) as [Hq1 [Hq2 Hq3]]. unfold patch_crec. cbn. rewrite Hq1, Hq2, Hq3. tauto. }
  assert (Hfind : forall j, find_col j (map P cs) = option_map P (find_col j cs)).
  { intro j. apply find_col_map. intro r. apply HP. }
  constructor; cbn [st_meta st_schema m_tables m_cols]; rewrite ?Hcs'; fold ts1; try assumption.
  - intros r' Hr'. apply in_map_iff in Hr'. destruct Hr' as [r [<- Hr]]. destruct (HP r) as [_ [_ [_ Hrev]]]. rewrite Hrev.
    destruct (Hnd r Hr) as [H0|[y [Hy Hid]]]; [left; exact H0|]. right. exists (P y). split; [apply in_map; exact Hy|].
    destruct (HP y) as [Hi _]. congruence.
  - intros c' Hc'. apply in_map_iff in Hc'. destruct Hc' as [c [<- Hc]]. destruct (HP c) as [_ [Hp _]]. rewrite Hp.
    apply (same_ids_in ts ts1); [apply upd_tables_ids | apply Hns; exact Hc].
  - intros t' Ht'. assert (Hex : exists t, In t ts /\ t_id t = t_id t').
    { apply (same_ids_in ts1 ts); [symmetry; apply upd_tables_ids | exists t'; tauto]. }
    destruct Hex as [t [Ht Hid]]. destruct (Hall t Ht) as [c [Hc1 Hc2]]. exists (P c). split; [apply in_map; exact Hc1|].
    destruct (HP c) as [_ [Hp _]]. congruence.
  - apply (sync_rho_ext _ _ _ _ rho); [apply (sync_core_ext _ _ _ _ _ _ Hcore HsC)|].
    intros r' Hr'. apply in_map_iff in Hr'. destruct Hr' as [r [<- Hr]]. destruct (HP r) as [Hi [_ [_ Hrev]]]. rewrite Hi.
    unfold rho, rho_of. rewrite Hfind, (find_col_some (c_id r) cs r (wc_ids _ Hwc) Hr eq_refl). cbn [option_map].
    rewrite Hrev, Hfind. destruct (find_col (c_rev r) cs) as [rx|]; [|reflexivity]. cbn. destruct (HP rx) as [_ [_ [Hc _]]].
    rewrite Hc. reflexivity.
Qed.
