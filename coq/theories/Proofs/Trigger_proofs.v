(* K3 -- proofs about Model/Trigger.v: under [regular] the mechanism stays between the two bounds of the
   specification (must <= fired <= may), for every configuration, table and bundle. *)
From Coq Require Import ZArith List Bool Lia.
Import ListNotations.
Require Import Grist.Model.Trigger.
Open Scope Z_scope.
Arguments memz : simpl never.

(* ---------------------------------------------------------------- small facts *)
Lemma memz_In : forall x l, memz x l = true <-> In x l.
Proof.
  intros x l. unfold memz. rewrite existsb_exists. split.
  - intros [y [Hy He]]. apply Z.eqb_eq in He. subst. exact Hy.
  - intros H. exists x. split; [exact H | apply Z.eqb_refl].
Qed.

Lemma memz_app : forall x a b, memz x (a ++ b) = memz x a || memz x b.
Proof. intros. unfold memz. apply existsb_app. Qed.

Lemma existsb_false_In : forall (A : Type) (f : A -> bool) l, existsb f l = false -> forall x, In x l -> f x = false.
Proof.
  intros A f l H x Hx. destruct (f x) eqn:E; [|reflexivity].
  assert (existsb f l = true) by (apply existsb_exists; exists x; auto). congruence.
Qed.

Lemma existsb_true_intro : forall (A : Type) (f : A -> bool) l x, In x l -> f x = true -> existsb f l = true.
Proof. intros. apply existsb_exists. exists x. auto. Qed.

Lemma ids_In : forall r recs, In r (ids recs) <-> exists w, In w recs /\ fst w = r.
Proof. intros. unfold ids. rewrite in_map_iff. split; intros [w [H1 H2]]; exists w; auto. Qed.

Lemma any_rec_true : forall r recs f, any_rec r recs f = true <-> exists w, In w recs /\ fst w = r /\ f w = true.
Proof.
  intros. unfold any_rec. rewrite existsb_exists. split.
  - intros [w [Hw H]]. apply andb_true_iff in H. destruct H as [H1 H2]. apply Z.eqb_eq in H1. exists w. auto.
  - intros [w [Hw [H1 H2]]]. exists w. split; [exact Hw|]. rewrite H2, andb_true_r. apply Z.eqb_eq. exact H1.
Qed.

Lemma nonnil_In : forall (A : Type) (l : list A) x, In x l -> nonnil l = true.
Proof. intros A l x H. destruct l; [destruct H | reflexivity]. Qed.

Lemma readers_In : forall g c f, In f (readers g c) <-> In (f, c) (fcols g).
Proof.
  intros. unfold readers. rewrite in_map_iff. split.
  - intros [[f' c'] [H1 H2]]. apply filter_In in H2. destruct H2 as [H2 H3]. cbn in *. apply Z.eqb_eq in H3. subst. exact H2.
  - intros H. exists (f, c). split; [reflexivity|]. apply filter_In. split; [exact H|]. cbn. apply Z.eqb_refl.
Qed.

(* trimming *)
Lemma trim_cols_In : forall t cols recs c,
  In c (trim_cols t cols recs) <-> In c cols /\ exists w, In w recs /\ changed t w c = true.
Proof.
  intros. unfold trim_cols. rewrite filter_In, existsb_exists. tauto.
Qed.

Lemma trim_recs_In : forall t cols' recs w,
  In w (trim_recs t cols' recs) <-> In w recs /\ exists c, In c cols' /\ changed t w c = true.
Proof. intros. unfold trim_recs. rewrite filter_In, existsb_exists. tauto. Qed.

(* a changed cell survives the trim, with its row *)
Lemma changed_survives : forall t cols recs w c,
  In w recs -> In c cols -> changed t w c = true ->
  In c (trim_cols t cols recs) /\ In w (trim_recs t (trim_cols t cols recs) recs).
Proof.
  intros t cols recs w c Hw Hc Hch.
  assert (Hc' : In c (trim_cols t cols recs)) by (apply trim_cols_In; split; [exact Hc | exists w; auto]).
  split; [exact Hc'|]. apply trim_recs_In. split; [exact Hw | exists c; auto].
Qed.

(* ---------------------------------------------------------------- reaching the trigger node *)
(* both ways of reaching the trigger node need DEFAULT and name a dependency *)
Lemma reach_default : forall g m c, reach g m c = true -> is_default g = true.
Proof.
  intros g m c H. unfold reach, via_self, via_readers, edge_live in H.
  apply orb_true_iff in H. destruct H as [H|H].
  - destruct (is_default g); [reflexivity | discriminate].
  - apply existsb_exists in H. destruct H as [f [_ H]]. destruct (is_default g); [reflexivity|].
    rewrite andb_false_r in H. discriminate.
Qed.

Lemma reach_written : forall g m cols c,
  In c cols -> reach g m c = true -> existsb (dep_written g cols) (deps g) = true.
Proof.
  intros g m cols c Hc H. unfold reach in H. apply orb_true_iff in H. destruct H as [H|H].
  - unfold via_self, edge_live in H. repeat (apply andb_true_iff in H; destruct H as [H ?]).
    apply existsb_true_intro with (x := c); [apply memz_In; assumption|].
    unfold dep_written. replace (memz c cols) with true; [reflexivity|]. symmetry. apply memz_In. exact Hc.
  - unfold via_readers in H. apply existsb_exists in H. destruct H as [f [Hf H]].
    apply andb_true_iff in H. destruct H as [_ H]. unfold edge_live in H.
    repeat (apply andb_true_iff in H; destruct H as [H ?]).
    apply existsb_true_intro with (x := f); [apply memz_In; assumption|].
    unfold dep_written. apply orb_true_iff. right.
    apply existsb_true_intro with (x := (f, c)); [apply readers_In; exact Hf|].
    cbn. rewrite Z.eqb_refl. cbn. apply memz_In. exact Hc.
Qed.

(* which written column carries the change of dependency c *)
Lemma dep_changed_col : forall g t cols w c,
  dep_changed g t cols w c = true ->
  exists s, In s cols /\ changed t w s = true /\
            ((s = c /\ is_fcol g c = false) \/ (is_fcol g c = true /\ In (c, s) (fcols g))).
Proof.
  intros g t cols w c H. unfold dep_changed in H. destruct (is_fcol g c) eqn:Ef.
  - apply existsb_exists in H. destruct H as [[f s] [Hp H]]. cbn in H.
    apply andb_true_iff in H. destruct H as [H Hne]. apply andb_true_iff in H. destruct H as [Hf Hs].
    apply Z.eqb_eq in Hf. subst f. exists s. split; [apply memz_In; exact Hs|]. split.
    + unfold changed. destruct (wval w s =? cell t (fst w) s) eqn:E; [|reflexivity].
      apply Z.eqb_eq in E. rewrite E, Z.eqb_refl in Hne. discriminate.
    + right. split; [reflexivity | exact Hp].
  - unfold cell_changed in H. apply andb_true_iff in H. destruct H as [Hc Hne].
    exists c. split; [apply memz_In; exact Hc|]. split; [exact Hne|]. left. auto.
Qed.

(* ... and that column reaches the trigger node when no needed edge is stale *)
Lemma live_reach : forall g m cols recs w c s,
  is_default g = true -> In c (deps g) -> In s cols -> In w recs ->
  stale_hit g m cols recs = false ->
  ((s = c /\ is_fcol g c = false) \/ (is_fcol g c = true /\ In (c, s) (fcols g))) ->
  reach g m s = true.
Proof.
  intros g m cols recs w c s Hd Hc Hs Hw Hst Hcase. unfold stale_hit, stale_hit_k in Hst.
  rewrite Hd, (nonnil_In _ _ _ Hw) in Hst. cbn in Hst.
  pose proof (existsb_false_In _ _ _ Hst s Hs) as H. cbn beta in H. cbn [andb] in H.
  apply orb_false_iff in H. destruct H as [H1 H2]. unfold reach.
  destruct Hcase as [[He Hf] | [Hf Hp]].
  - subst s. apply orb_true_iff. left. unfold via_self, edge_live. rewrite Hd, Hf.
    replace (memz c (deps g)) with true in * by (symmetry; apply memz_In; exact Hc).
    cbn in H1. rewrite H1. reflexivity.
  - apply orb_true_iff. right. unfold via_readers.
    apply existsb_true_intro with (x := c); [apply readers_In; exact Hp|].
    pose proof (existsb_false_In _ _ _ H2 c (proj2 (readers_In g s c) Hp)) as H. cbn beta in H.
    unfold edge_live. rewrite Hd.
    replace (memz c (deps g)) with true in * by (symmetry; apply memz_In; exact Hc).
    cbn in H. apply orb_false_iff in H. destruct H as [Ha Hb]. rewrite Ha, Hb. reflexivity.
Qed.

(* ---------------------------------------------------------------- the invariant between user actions *)
Definition Inv (t : tbl) (m : mech) (p : pend) : Prop :=
  forall r, In r (rows t) ->
    (pm p r = true -> eff_dirty m r = true) /\ (eff_dirty m r = true -> py p r = true).

(* after the prevent map has been cleared (no exemption was lost) *)
Definition InvC (t : tbl) (m : mech) (p : pend) : Prop :=
  (forall r, prevent m r = false) /\
  forall r, In r (rows t) -> (pm p r = true -> dirty m r = true) /\ (dirty m r = true -> py p r = true).

Lemma clear_inv : forall g t m p,
  Inv t m p ->
  negb (fx_lost (fx g)) && existsb (fun r => dirty m r && prevent m r) (rows t) = false ->
  InvC t (clear_prevent g m) p.
Proof.
  intros g t m p HI Hl. split; [reflexivity|]. intros r Hr. cbn [clear_prevent dirty].
  destruct (HI r Hr) as [H1 H2]. unfold eff_dirty in *.
  destruct (fx_lost (fx g)); cbn [negb andb] in *; [split; assumption|].
  pose proof (existsb_false_In _ _ _ Hl r Hr) as H. cbn beta in H. rewrite andb_true_r. split.
  - intros Hp. apply H1 in Hp. apply andb_true_iff in Hp. tauto.
  - intros Hd. apply H2. rewrite Hd in *. cbn in *. rewrite H. reflexivity.
Qed.

Lemma add_recalc_computes : forall g cols, add_recalc g cols = add_computes g cols.
Proof.
  intros g cols. unfold add_recalc, add_computes, selfdep, is_default, is_never.
  destruct (memz trc cols); destruct (when g); destruct (memz trc (deps g)); reflexivity.
Qed.

Lemma unprotected_false : forall t m xs, unprotected t m xs = false ->
  forall r, In r (rows t) -> memz r xs = true -> eff_dirty m r = false.
Proof.
  intros t m xs H r Hr Hx. pose proof (existsb_false_In _ _ _ H r Hr) as H'. cbn beta in H'.
  rewrite Hx in H'. exact H'.
Qed.

Lemma step_UAdd : forall g t m p cols recs,
  InvC t m p ->
  stale_user g t m (UAdd cols recs) = false ->
  unprotected (data_user t (UAdd cols recs)) (mech_user g t m (UAdd cols recs)) (xadd g (UAdd cols recs)) = false ->
  Inv (data_user t (UAdd cols recs)) (mech_user g t m (UAdd cols recs)) (spec_user g t p (UAdd cols recs)).
Proof.
  intros g t m p cols recs [Hp HI] Hst Hun r Hr.
  pose proof (unprotected_false _ _ _ Hun r Hr) as Hu. clear Hun.
  cbn [data_user data_doc rows] in Hr. cbn [xadd] in Hu. unfold stale_user in Hst. cbn [stale_user_k andb] in Hst.
  unfold eff_dirty in *. cbn [mech_user mech_doc dirty prevent spec_user pm py] in *.
  unfold set_or in *. rewrite Hp in *. cbn [orb] in *. rewrite add_recalc_computes in *.
  destruct (memz r (ids recs)) eqn:Em.
  - rewrite ?andb_true_r in *. destruct (add_computes g cols) eqn:Ex.
    2: { destruct (fx_add (fx g)); cbn [andb negb] in *.
         - rewrite andb_false_r. split; intros; discriminate.
         - rewrite (Hu Em). split; intros; discriminate. }
    clear Hu.
    assert (Hnp : negb (fx_add (fx g) && negb (fx_add (fx g) && true)) = true) by (destruct (fx_add (fx g)); reflexivity).
    rewrite Hnp, andb_true_r. clear Hnp.
    unfold add_computes in Ex. apply andb_true_iff in Ex. destruct Ex as [En Ex].
    rewrite En. destruct (memz trc cols) eqn:Et; cbn [negb orb andb] in *.
    + rewrite Ex in Hst. apply memz_In, ids_In in Em. destruct Em as [w [Hw _]].
      rewrite (nonnil_In _ _ _ Hw) in Hst. cbn [andb] in Hst. apply negb_false_iff in Hst.
      rewrite Hst. rewrite !orb_true_r. split; reflexivity.
    + rewrite !orb_true_r. split; reflexivity.
  - rewrite ?andb_false_r, ?orb_false_r. cbn [andb negb]. rewrite ?andb_true_r.
    apply in_app_or in Hr. destruct Hr as [Hr|Hr].
    + apply HI. exact Hr.
    + apply memz_In in Hr. congruence.
Qed.

(* rows of the trimmed action are rows of the action *)
Lemma trim_ids_sub : forall t cols' recs r, memz r (ids recs) = false -> memz r (ids (trim_recs t cols' recs)) = false.
Proof.
  intros t cols' recs r H. destruct (memz r (ids (trim_recs t cols' recs))) eqn:E; [|reflexivity].
  apply memz_In in E. apply ids_In in E. destruct E as [w [Hw Hf]]. apply trim_recs_In in Hw.
  destruct Hw as [Hw _]. assert (Hi : In r (ids recs)) by (apply ids_In; exists w; auto).
  apply memz_In in Hi. congruence.
Qed.

Lemma is_default_when : forall g, is_default g = true <-> when g = DEFAULT.
Proof. intros g. unfold is_default. destruct (when g); split; intros; congruence. Qed.

Lemma step_UUpd : forall g t m p cols recs,
  InvC t m p ->
  stale_user g t m (UUpd cols recs) = false ->
  unprotected (data_user t (UUpd cols recs)) (mech_user g t m (UUpd cols recs)) (xupd g (UUpd cols recs)) = false ->
  Inv (data_user t (UUpd cols recs)) (mech_user g t m (UUpd cols recs)) (spec_user g t p (UUpd cols recs)).
Proof.
  intros g t m p cols recs [Hp HI] Hst Hun r Hr.
  pose proof (unprotected_false _ _ _ Hun r Hr) as Hu. clear Hun.
  cbn [data_user data_doc rows] in Hr. destruct (HI r Hr) as [HI1 HI2].
  cbn [xupd] in Hu. unfold stale_user in Hst. cbn [stale_user_k] in Hst. cbn [spec_user pm py].
  unfold eff_dirty in *. cbn [mech_user mech_doc dirty prevent] in *.
  set (cols' := trim_cols t cols recs) in *. set (recs' := trim_recs t cols' recs) in *.
  unfold set_or in *. rewrite Hp in *. cbn [orb] in *.
  destruct (memz r (ids recs)) eqn:Em.
  2: { pose proof (trim_ids_sub t cols' recs r Em) as Em'. change (memz r (ids recs') = false) in Em'.
       rewrite Em'. rewrite !andb_false_r, !orb_false_r. cbn [andb negb orb].
       rewrite andb_true_r. split; assumption. }
  rewrite andb_true_r in *.
  destruct (memz trc cols && negb (selfdep g)) eqn:Eex.
  - destruct (fx_trim (fx g)); cbn [andb] in *.
    + apply andb_true_iff in Eex. destruct Eex as [_ Eex]. apply negb_true_iff in Eex. rewrite Eex.
      rewrite orb_true_r, !andb_false_r. cbn [andb negb]. split; intros; discriminate.
    + rewrite (Hu Em). split; intros; discriminate.
  - clear Hu. rewrite andb_false_r, orb_false_r.
    assert (Hprev : memz trc cols' && memz r (ids recs') &&
                    negb (nonnil cols' && memz trc cols' && selfdep g && memz r (ids recs')) = false).
    { destruct (memz trc cols') eqn:Et; [|reflexivity]. destruct (memz r (ids recs')); [|reflexivity].
      apply memz_In in Et. rewrite (nonnil_In _ _ _ Et).
      apply trim_cols_In in Et. destruct Et as [Et _]. apply memz_In in Et. rewrite Et in Eex.
      destruct (selfdep g); [reflexivity | discriminate]. }
    rewrite Hprev. cbn [negb]. rewrite !andb_true_r. clear Hprev. split.
    + intros H. apply orb_true_iff in H. destruct H as [H|H]; [rewrite (HI1 H); reflexivity|].
      apply any_rec_true in H. destruct H as [w [Hw [Hf Hm]]].
      destruct (when g) eqn:Ew; [| discriminate |].
      * apply existsb_exists in Hm. destruct Hm as [c [Hc Hch]].
        apply dep_changed_col in Hch. destruct Hch as [s [Hs [Hch Hcase]]].
        destruct (changed_survives t cols recs w s Hw Hs Hch) as [Hs' Hw'].
        assert (Hd : is_default g = true) by (apply is_default_when; exact Ew).
        pose proof (live_reach g m cols' recs' w c s Hd Hc Hs' Hw' Hst Hcase) as Hre.
        rewrite (existsb_true_intro _ (reach g m) cols' s Hs' Hre).
        replace (memz r (ids recs')) with true by (symmetry; apply memz_In, ids_In; exists w; auto).
        cbn. rewrite orb_true_r. reflexivity.
      * apply existsb_exists in Hm. destruct Hm as [c [Hc Hch]]. unfold cell_changed in Hch.
        apply andb_true_iff in Hch. destruct Hch as [_ Hch].
        destruct (changed_survives t cols recs w c Hw Hc Hch) as [Hs' Hw'].
        rewrite (nonnil_In _ cols' _ Hs'). unfold is_manual. rewrite Ew.
        replace (memz r (ids recs')) with true by (symmetry; apply memz_In, ids_In; exists w; auto).
        cbn. rewrite orb_true_r. reflexivity.
    + intros H. apply orb_true_iff. apply orb_true_iff in H. destruct H as [H|H].
      * apply orb_true_iff in H. destruct H as [H|H]; [left; apply HI2; exact H|]. right.
        apply andb_true_iff in H. destruct H as [Hre Hm]. apply existsb_exists in Hre.
        destruct Hre as [c [Hc Hre]]. apply memz_In, ids_In in Hm. destruct Hm as [w [Hw Hf]].
        apply trim_recs_In in Hw. destruct Hw as [Hw _]. apply trim_cols_In in Hc. destruct Hc as [Hc _].
        apply any_rec_true. exists w. split; [exact Hw|]. split; [exact Hf|].
        pose proof (reach_default _ _ _ Hre) as Hd. apply is_default_when in Hd. rewrite Hd.
        eapply reach_written; eassumption.
      * right. apply andb_true_iff in H. destruct H as [H Hm]. apply andb_true_iff in H. destruct H as [_ Hman].
        apply memz_In, ids_In in Hm. destruct Hm as [w [Hw Hf]].
        apply trim_recs_In in Hw. destruct Hw as [Hw [c [Hc Hch]]]. apply trim_cols_In in Hc. destruct Hc as [Hc _].
        apply any_rec_true. exists w. split; [exact Hw|]. split; [exact Hf|].
        unfold is_manual in Hman. destruct (when g); try discriminate.
        apply existsb_true_intro with (x := c); [exact Hc|]. unfold cell_changed.
        replace (memz c cols) with true by (symmetry; apply memz_In; exact Hc). exact Hch.
Qed.

(* ---------------------------------------------------------------- inside one list of replayed doc actions *)
(* xs: rows added by the doc actions so far (their trigger value counts as given, but nothing exempts them) *)
Definition J (t : tbl) (m : mech) (p : pend) (xs : Z -> bool) : Prop :=
  (forall r, prevent m r = true -> ex p r = true) /\
  (forall r, ex p r = true -> prevent m r = true \/ xs r = true) /\
  forall r, In r (rows t) ->
    (pm p r = true -> ex p r = false -> dirty m r = true) /\
    (dirty m r = true -> prevent m r = false -> xs r = false -> py p r = true).

Definition doc_adds (d : daction) : list Z := match d with DAdd _ recs => ids recs | _ => [] end.

Lemma J_ext : forall t m p xs xs', (forall r, xs r = xs' r) -> J t m p xs -> J t m p xs'.
Proof.
  intros t m p xs xs' He [J1 [J2 J3]]. split; [exact J1|]. split.
  - intros r H. rewrite <- He. apply J2. exact H.
  - intros r Hr. destruct (J3 r Hr) as [A B]. split; [exact A|]. rewrite <- He. exact B.
Qed.

Lemma step_doc : forall g t m p xs d,
  J t m p xs -> stale_doc g m d = false ->
  J (data_doc t d) (mech_doc g m d) (spec_doc g t p d) (fun r => xs r || memz r (doc_adds d)).
Proof.
  intros g t m p xs d [J1 [J2 J3]] Hst. unfold stale_doc in Hst. destruct d as [cols recs | cols recs | rs | c | c].
  - (* DAdd *) cbn [data_doc mech_doc spec_doc doc_adds]. split; [|split]; cbn [prevent ex pm py dirty rows].
    + intros r H. unfold set_or in H. apply orb_true_iff in H. destruct H as [H|H]; [rewrite (J1 r H); reflexivity|].
      apply andb_true_iff in H. destruct H as [_ H]. rewrite H. apply orb_true_r.
    + intros r H. apply orb_true_iff in H. destruct H as [H|H].
      * destruct (J2 r H) as [A|A]; [left; unfold set_or; rewrite A; reflexivity | right; rewrite A; reflexivity].
      * right. rewrite H. apply orb_true_r.
    + intros r Hr. unfold set_or. destruct (memz r (ids recs)) eqn:Em.
      * rewrite !orb_true_r. split; intros; discriminate.
      * rewrite !andb_false_r, !orb_false_r. apply in_app_or in Hr. destruct Hr as [Hr|Hr]; [apply J3; exact Hr|].
        apply memz_In in Hr. congruence.
  - (* DUpd *) cbn [data_doc mech_doc spec_doc doc_adds stale_doc_k] in *.
    split; [|split]; cbn [prevent ex pm py dirty rows]; unfold set_or.
    + intros r H. apply orb_true_iff in H. destruct H as [H|H]; [rewrite (J1 r H); reflexivity|].
      rewrite H. apply orb_true_r.
    + intros r H. apply orb_true_iff in H. destruct H as [H|H].
      * destruct (J2 r H) as [A|A]; [left; rewrite A; reflexivity | right; rewrite A; reflexivity].
      * left. rewrite H. apply orb_true_r.
    + intros r Hr. destruct (J3 r Hr) as [A B]. change (memz r []) with false. rewrite orb_false_r. split.
      * intros Hm He. apply orb_false_iff in He. destruct He as [He _].
        apply orb_true_iff in Hm. destruct Hm as [Hm|Hm]; [rewrite (A Hm He); reflexivity|].
        apply andb_true_iff in Hm. destruct Hm as [Hd Hm].
        apply any_rec_true in Hm. destruct Hm as [w [Hw [Hf Hm]]].
        apply existsb_exists in Hm. destruct Hm as [c [Hc Hch]].
        apply dep_changed_col in Hch. destruct Hch as [s [Hs [Hch Hcase]]].
        pose proof (live_reach g m cols recs w c s Hd Hc Hs Hw Hst Hcase) as Hre.
        rewrite (existsb_true_intro _ (reach g m) cols s Hs Hre).
        replace (memz r (ids recs)) with true by (symmetry; apply memz_In, ids_In; exists w; auto).
        apply orb_true_r.
      * intros Hdy Hpv Hx. apply orb_false_iff in Hpv. destruct Hpv as [Hpv _].
        apply orb_true_iff in Hdy. destruct Hdy as [Hdy|Hdy]; [rewrite (B Hdy Hpv Hx); reflexivity|].
        apply andb_true_iff in Hdy. destruct Hdy as [Hre Hm]. apply existsb_exists in Hre.
        destruct Hre as [c [Hc Hre]]. rewrite (reach_default _ _ _ Hre), Hm.
        rewrite (reach_written g m cols c Hc Hre). apply orb_true_r.
  - (* DRem *) cbn [data_doc mech_doc spec_doc doc_adds]. split; [|split]; cbn [prevent ex pm py dirty rows].
    + exact J1.
    + intros r H. destruct (J2 r H) as [A|A]; [left; exact A | right; rewrite A; reflexivity].
    + intros r Hr. apply filter_In in Hr. destruct Hr as [Hr Hn]. apply negb_true_iff in Hn.
      unfold set_or. rewrite Hn, andb_false_r, !orb_false_r. change (memz r []) with false. apply J3. exact Hr.
  - (* DRename *) cbn [data_doc mech_doc spec_doc doc_adds]. split; [|split]; cbn [prevent ex pm py dirty rows].
    + exact J1.
    + intros r H. destruct (J2 r H) as [A|A]; [left; exact A | right; rewrite A; reflexivity].
    + intros r Hr. change (memz r []) with false. rewrite orb_false_r. apply J3. exact Hr.
  - (* DModify *) cbn [data_doc mech_doc spec_doc doc_adds]. split; [|split]; cbn [prevent ex pm py dirty rows].
    + exact J1.
    + intros r H. destruct (J2 r H) as [A|A]; [left; exact A | right; rewrite A; reflexivity].
    + intros r Hr. change (memz r []) with false. rewrite orb_false_r. apply J3. exact Hr.
Qed.

Lemma steps_docs : forall g ds t m p xs,
  J t m p xs -> stale_docs g m ds = false ->
  J (fold_left data_doc ds t) (fold_left (mech_doc g) ds m) (spec_docs g t p ds)
    (fun r => xs r || memz r (dadd_ids ds)).
Proof.
  intros g ds. induction ds as [|d ds IH]; intros t m p xs HJ Hst.
  - cbn. eapply J_ext; [|exact HJ]. intros r. change (memz r []) with false. rewrite orb_false_r. reflexivity.
  - unfold stale_docs in Hst. cbn [stale_docs_k] in Hst. apply orb_false_iff in Hst. destruct Hst as [Hs1 Hs2].
    cbn [fold_left spec_docs]. pose proof (step_doc g t m p xs d HJ Hs1) as HJ'.
    pose proof (IH _ _ _ _ HJ' Hs2) as HJ''. eapply J_ext; [|exact HJ''].
    intros r. cbn beta. unfold dadd_ids. cbn [flat_map]. fold (dadd_ids ds). rewrite memz_app.
    unfold doc_adds. rewrite orb_assoc. reflexivity.
Qed.

Lemma step_UDocs : forall g t m p ds,
  InvC t m p ->
  stale_user g t m (UDocs ds) = false ->
  unprotected (data_user t (UDocs ds)) (mech_user g t m (UDocs ds)) (xadd g (UDocs ds)) = false ->
  Inv (data_user t (UDocs ds)) (mech_user g t m (UDocs ds)) (spec_user g t p (UDocs ds)).
Proof.
  intros g t m p ds [Hp HI] Hst Hun.
  assert (HJ : J t m {| pm := pm p; py := py p; ex := fun _ => false |} (fun _ => false)).
  { split; [|split]; cbn [pm py ex].
    - intros r H. rewrite Hp in H. discriminate.
    - intros r H. discriminate.
    - intros r Hr. destruct (HI r Hr) as [A B]. split; intros; auto. }
  unfold stale_user in Hst. cbn [stale_user_k] in Hst. pose proof (steps_docs g ds _ _ _ _ HJ Hst) as [J1 [J2 J3]].
  cbn [data_user mech_user spec_user xadd] in *.
  set (p' := spec_docs g t {| pm := pm p; py := py p; ex := fun _ => false |} ds) in *.
  intros r Hr. pose proof (unprotected_false _ _ _ Hun r Hr) as Hu. destruct (J3 r Hr) as [A B].
  cbn [pm py]. unfold eff_dirty in *. split.
  - intros H. apply andb_true_iff in H. destruct H as [Hm He]. apply negb_true_iff in He.
    rewrite (A Hm He). destruct (prevent (fold_left (mech_doc g) ds m) r) eqn:Epv; [|reflexivity].
    rewrite (J1 r Epv) in He. discriminate.
  - intros H. apply andb_true_iff in H. destruct H as [Hd Hpv]. apply negb_true_iff in Hpv.
    destruct (memz r (dadd_ids ds)) eqn:Ex.
    + specialize (Hu eq_refl). rewrite Hd, Hpv in Hu. discriminate.
    + cbn [orb] in B. rewrite (B Hd Hpv eq_refl). destruct (ex p' r) eqn:Ee; [|reflexivity].
      destruct (J2 r Ee) as [C|C]; [congruence|]. cbn [orb] in C. congruence.
Qed.

(* ---------------------------------------------------------------- one user action, then the whole bundle *)
Lemma step_user : forall g t m p a,
  Inv t m p ->
  negb (fx_lost (fx g)) && existsb (fun r => dirty m r && prevent m r) (rows t) = false ->
  stale_user g t (clear_prevent g m) a = false ->
  unprotected (data_user t a) (mech_user g t (clear_prevent g m) a) (xadd g a) = false ->
  unprotected (data_user t a) (mech_user g t (clear_prevent g m) a) (xupd g a) = false ->
  Inv (data_user t a) (mech_user g t (clear_prevent g m) a) (spec_user g t p a).
Proof.
  intros g t m p a HI Hl Hs Ha Hu. pose proof (clear_inv g t m p HI Hl) as HC. destruct a as [cols recs | cols recs | ds].
  - apply step_UAdd; assumption.
  - apply step_UUpd; assumption.
  - apply step_UDocs; assumption.
Qed.

(* the two kinds of missing edge together are the missing edges *)
Lemma stale_hit_split : forall g m cols recs,
  stale_hit_k true false g m cols recs = false -> stale_hit_k false true g m cols recs = false ->
  stale_hit_k true true g m cols recs = false.
Proof.
  intros g m cols recs. unfold stale_hit_k. destruct (is_default g && nonnil recs); [|reflexivity].
  cbn [andb orb]. induction cols as [|c cols IH]; [reflexivity|]. cbn [existsb andb orb].
  intros Ha Hb. apply orb_false_iff in Ha. destruct Ha as [Ha1 Ha2].
  apply orb_false_iff in Hb. destruct Hb as [Hb1 Hb2]. rewrite orb_false_r in Ha1.
  rewrite Ha1, Hb1. cbn [orb]. apply IH; assumption.
Qed.

Lemma stale_docs_split : forall g ds m,
  stale_docs_k true false g m ds = false -> stale_docs_k false true g m ds = false ->
  stale_docs_k true true g m ds = false.
Proof.
  intros g ds. induction ds as [|d ds IH]; intros m Ha Hb; [reflexivity|].
  cbn [stale_docs_k] in *. apply orb_false_iff in Ha. destruct Ha as [Ha1 Ha2].
  apply orb_false_iff in Hb. destruct Hb as [Hb1 Hb2]. apply orb_false_iff. split; [|apply IH; assumption].
  destruct d; try reflexivity. cbn [stale_doc_k] in *. apply stale_hit_split; assumption.
Qed.

Lemma stale_user_split : forall g t m a,
  stale_user_k true false g t m a = false -> stale_user_k false true g t m a = false ->
  stale_user g t m a = false.
Proof.
  intros g t m a Ha Hb. unfold stale_user. destruct a as [cols recs | cols recs | ds]; cbn [stale_user_k] in *.
  - exact Ha.
  - apply stale_hit_split; assumption.
  - apply stale_docs_split; assumption.
Qed.

Lemma actions_inv : forall g b t m p,
  Inv t m p -> any_flag (flag_actions g t m b) = false ->
  Inv (fst (mech_actions g t m b)) (snd (mech_actions g t m b)) (spec_actions g t p b).
Proof.
  intros g b. induction b as [|a b IH]; intros t m p HI Hf.
  - exact HI.
  - cbn [mech_actions spec_actions flag_actions] in *. unfold any_flag, or_flags in Hf.
    cbn [fl_add fl_lost fl_stale fl_fstale fl_trim] in Hf.
    repeat (apply orb_false_iff in Hf; destruct Hf as [Hf ?]).
    repeat match goal with H : _ || _ = false |- _ => apply orb_false_iff in H; destruct H end.
    apply IH.
    + apply step_user; try assumption. apply stale_user_split; assumption.
    + unfold any_flag. repeat (apply orb_false_iff; split); assumption.
Qed.

Lemma Inv0 : forall t, Inv t mech0 pend0.
Proof. intros t r _. unfold eff_dirty. cbn. split; intros; discriminate. Qed.

(* The theorem of K3: between the bounds. *)
Theorem fired_between_bounds : forall g t b r,
  regular g t b = true ->
  (must g t b r = true -> In r (rows (fst (mech_actions g t mech0 b))) -> In r (fired g t b)) /\
  (In r (fired g t b) -> may g t b r = true).
Proof.
  intros g t b r Hreg. unfold regular in Hreg. apply negb_true_iff in Hreg.
  pose proof (actions_inv g b t mech0 pend0 (Inv0 t) Hreg) as HI.
  unfold fired, must, may. destruct (mech_actions g t mech0 b) as [t' m'] eqn:E. cbn [fst snd] in *.
  unfold fired_of. split.
  - intros Hm Hr. apply filter_In. split; [exact Hr|]. apply (HI r Hr). exact Hm.
  - intros Hf. apply filter_In in Hf. destruct Hf as [Hr Hd]. apply (HI r Hr). exact Hd.
Qed.

Lemma fired_rows : forall g t b r, In r (fired g t b) -> In r (rows (fst (mech_actions g t mech0 b))).
Proof.
  intros g t b r H. unfold fired in H. destruct (mech_actions g t mech0 b) as [t' m']. cbn.
  apply filter_In in H. tauto.
Qed.

(* the rows after a bundle *)
Lemma rows_step : forall g t b, rows (step g t b) = rows (fst (mech_actions g t mech0 b)).
Proof. intros. unfold step. destruct (mech_actions g t mech0 b) as [t' m']. reflexivity. Qed.

Lemma mechanism_snoc : forall g h b, mechanism g (h ++ [b]) = step g (mechanism g h) b.
Proof. intros. unfold mechanism. rewrite fold_left_app. reflexivity. Qed.

(* "fired = spec" wherever the sentence decides *)
Theorem fires_iff_spec : forall g t b r,
  regular g t b = true -> In r (rows (step g t b)) -> unconstrained g t b r = false ->
  memz r (fired g t b) = spec g t b r.
Proof.
  intros g t b r Hreg Hr Hun. rewrite rows_step in Hr.
  destruct (fired_between_bounds g t b r Hreg) as [A B]. unfold spec, unconstrained in *.
  destruct (must g t b r) eqn:Em.
  - apply memz_In. apply A; auto.
  - destruct (memz r (fired g t b)) eqn:Ef; [|reflexivity]. apply memz_In in Ef. apply B in Ef.
    rewrite Ef in Hun. discriminate.
Qed.

(* schema changes alone never evaluate the trigger formula - no side condition *)
Lemma filter_none : forall (A : Type) (f : A -> bool) l, (forall x, f x = false) -> filter f l = [].
Proof. intros A f l H. induction l as [|x l IH]; [reflexivity|]. cbn. rewrite H. exact IH. Qed.

Theorem schema_change_never_fires : forall g t c,
  fired g t [UDocs [DRename c]] = [] /\ fired g t [UDocs [DModify c]] = [].
Proof. intros. split; unfold fired; cbn; apply filter_none; intros; reflexivity. Qed.

(* ... any bundle made of schema actions only *)
Definition is_schema_action (a : uaction) : bool :=
  match a with
  | UDocs ds => forallb (fun d => match d with DRename _ | DModify _ => true | _ => false end) ds
  | _ => false
  end.

Lemma schema_docs_dirty : forall g ds m,
  forallb (fun d => match d with DRename _ | DModify _ => true | _ => false end) ds = true ->
  forall r, dirty (fold_left (mech_doc g) ds m) r = dirty m r.
Proof.
  intros g ds. induction ds as [|d ds IH]; intros m H r; [reflexivity|].
  cbn [forallb] in H. apply andb_true_iff in H. destruct H as [Hd H]. cbn [fold_left]. rewrite (IH _ H).
  destruct d; try discriminate; reflexivity.
Qed.

Lemma schema_actions_dirty : forall g b t m,
  forallb is_schema_action b = true -> (forall r, dirty m r = false) ->
  forall r, dirty (snd (mech_actions g t m b)) r = false.
Proof.
  intros g b. induction b as [|a b IH]; intros t m H Hd r; [apply Hd|].
  cbn [forallb] in H. apply andb_true_iff in H. destruct H as [Ha H]. cbn [mech_actions]. apply (IH _ _ H).
  intros r'. destruct a as [? ?|? ?|ds]; try discriminate. cbn [mech_user].
  rewrite schema_docs_dirty; [|exact Ha]. cbn [clear_prevent dirty]. rewrite Hd. reflexivity.
Qed.

Theorem schema_bundle_never_fires : forall g t b, forallb is_schema_action b = true -> fired g t b = [].
Proof.
  intros g t b H. unfold fired. pose proof (schema_actions_dirty g b t mech0 H (fun _ => eq_refl)) as Hd.
  destruct (mech_actions g t mech0 b) as [t' m']. cbn [snd] in Hd. unfold fired_of. apply filter_none.
  intros r. rewrite Hd. reflexivity.
Qed.

(* ---------------------------------------------------------------- bundles that are regular for syntactic reasons *)
(* The everyday interactions - ONE user-level update or add that carries no value for the trigger column - never
   meet any of the five transitions, whatever the configuration and the table. *)
Lemma existsb_none : forall (A : Type) (f : A -> bool) l, (forall x, f x = false) -> existsb f l = false.
Proof. intros A f l H. induction l as [|x l IH]; [reflexivity|]. cbn. rewrite H. exact IH. Qed.

Lemma stale_hit_fresh : forall ka kb g m cols recs,
  (forall c, stale m c = false) -> (forall c, fstale m c = false) -> stale_hit_k ka kb g m cols recs = false.
Proof.
  intros ka kb g m cols recs Hs Hf. unfold stale_hit_k. rewrite (existsb_none _ _ cols); [apply andb_false_r|].
  intros c. rewrite Hs, andb_false_r, andb_false_r. cbn [orb]. rewrite (existsb_none _ _ (readers g c)); [apply andb_false_r|].
  intros f. rewrite Hs, Hf. apply andb_false_r.
Qed.

Lemma reach_not_default : forall g m c, is_default g = false -> reach g m c = false.
Proof.
  intros g m c H. destruct (reach g m c) eqn:E; [|reflexivity]. apply reach_default in E. congruence.
Qed.

Theorem regular_single_update : forall g t cols recs,
  memz trc cols = false -> regular g t [UUpd cols recs] = true.
Proof.
  intros g t cols recs H. unfold regular, bundle_flags. apply negb_true_iff.
  cbn [flag_actions]. unfold any_flag, or_flags, no_flags. cbn [fl_add fl_lost fl_stale fl_fstale fl_trim].
  rewrite !orb_false_r. cbn [xadd xupd]. rewrite H. cbn [andb]. unfold unprotected.
  repeat rewrite existsb_none by (intros; reflexivity).
  cbn [stale_user_k]. rewrite !stale_hit_fresh by (intros; reflexivity). rewrite ?andb_false_r. reflexivity.
Qed.

Theorem regular_single_add : forall g t cols recs,
  memz trc cols = false -> regular g t [UAdd cols recs] = true.
Proof.
  intros g t cols recs H. unfold regular, bundle_flags. apply negb_true_iff.
  cbn [flag_actions]. unfold any_flag, or_flags, no_flags. cbn [fl_add fl_lost fl_stale fl_fstale fl_trim].
  rewrite !orb_false_r. cbn [xadd xupd stale_user_k]. rewrite H. rewrite !andb_false_r. cbn [andb orb].
  unfold unprotected. rewrite (existsb_none _ _ (rows t)) by (intros; reflexivity).
  rewrite (existsb_none _ (fun r => memz r [] && _)) by (intros; reflexivity).
  rewrite ?andb_false_r, ?orb_false_r. unfold add_computes. rewrite H. cbn [negb orb]. rewrite andb_true_r.
  destruct (is_never g) eqn:En; cbn [negb]; [|apply existsb_none; intros; reflexivity].
  apply existsb_none. intros r. unfold eff_dirty. cbn [mech_user mech_doc dirty prevent clear_prevent mech0].
  unfold set_or. rewrite En. cbn [negb andb orb]. rewrite ?andb_false_r, ?orb_false_r. cbn [orb andb].
  rewrite (existsb_none _ _ (table_cols g)); [cbn; rewrite ?andb_false_r; reflexivity|].
  intros c. apply reach_not_default. unfold is_default. unfold is_never in En. destruct (when g); congruence.
Qed.

(* ---------------------------------------------------------------- the repaired source *)
(* With the repairs of C15-add-with-value / C15-exemption-lost / C15-explicit-value-trimmed in place
   (fx_add, fx_lost, fx_trim) the flags fl_add, fl_lost and fl_trim can no longer be raised. *)
Lemma prevent_mono_doc : forall g m d r, prevent m r = true -> prevent (mech_doc g m d) r = true.
Proof.
  intros g m d r H. destruct d; cbn [mech_doc prevent]; unfold set_or; rewrite ?H; reflexivity.
Qed.

Lemma prevent_mono_docs : forall g ds m r, prevent m r = true -> prevent (fold_left (mech_doc g) ds m) r = true.
Proof.
  intros g ds. induction ds as [|d ds IH]; intros m r H; [exact H|]. cbn [fold_left]. apply IH.
  apply prevent_mono_doc. exact H.
Qed.

Lemma dadd_prevented : forall g, fx_add (fx g) = true ->
  forall ds m r, memz r (dadd_ids ds) = true -> prevent (fold_left (mech_doc g) ds m) r = true.
Proof.
  intros g Hx ds. induction ds as [|d ds IH]; intros m r H; [discriminate|].
  unfold dadd_ids in H. cbn [flat_map] in H. fold (dadd_ids ds) in H. rewrite memz_app in H.
  apply orb_true_iff in H. cbn [fold_left]. destruct H as [H|H]; [|apply IH; exact H].
  apply prevent_mono_docs. destruct d; try discriminate. cbn [mech_doc prevent]. unfold set_or.
  rewrite Hx, H. apply orb_true_r.
Qed.

Lemma repaired_action_flags : forall g, fx_add (fx g) = true -> fx_trim (fx g) = true ->
  forall t m a, (forall r, prevent m r = false) ->
  unprotected (data_user t a) (mech_user g t m a) (xadd g a) = false /\
  unprotected (data_user t a) (mech_user g t m a) (xupd g a) = false.
Proof.
  intros g Ha Ht t m a Hp. unfold unprotected. destruct a as [cols recs | cols recs | ds]; cbn [xadd xupd]; split;
    try (apply existsb_none; intros; reflexivity).
  - (* UAdd, rows added without a formula value: exempt *)
    apply existsb_none. intros r. destruct (add_computes g cols) eqn:Ex; [reflexivity|].
    destruct (memz r (ids recs)) eqn:Em; [|reflexivity]. unfold eff_dirty.
    cbn [mech_user mech_doc prevent dirty andb]. unfold set_or. rewrite Hp, Ha, Em, add_recalc_computes, Ex.
    cbn. apply andb_false_r.
  - (* UUpd with a supplied trigger value: exempt *)
    apply existsb_none. intros r. unfold eff_dirty. cbn [mech_user mech_doc prevent dirty]. unfold set_or.
    rewrite Ht. cbn [andb]. destruct (memz trc cols && negb (selfdep g)) eqn:Ex; [|reflexivity].
    destruct (memz r (ids recs)) eqn:Em; [|reflexivity]. cbn [andb]. rewrite orb_true_r.
    apply andb_true_iff in Ex. destruct Ex as [_ Ex]. apply negb_true_iff in Ex. rewrite Ex.
    rewrite !andb_false_r. cbn. rewrite ?andb_false_r. reflexivity.
  - (* UDocs: re-added rows are exempt *)
    apply existsb_none. intros r. destruct (memz r (dadd_ids ds)) eqn:Em; [|reflexivity]. unfold eff_dirty.
    cbn [mech_user]. rewrite (dadd_prevented g Ha ds m r Em). cbn. apply andb_false_r.
Qed.

Theorem repaired_flags : forall g, fx_add (fx g) = true -> fx_lost (fx g) = true -> fx_trim (fx g) = true ->
  forall b t m, fl_add (flag_actions g t m b) = false /\ fl_lost (flag_actions g t m b) = false /\
                fl_trim (flag_actions g t m b) = false.
Proof.
  intros g Ha Hl Ht b. induction b as [|a b IH]; intros t m; [repeat split|].
  cbn [flag_actions or_flags fl_add fl_lost fl_trim].
  destruct (IH (data_user t a) (mech_user g t (clear_prevent g m) a)) as [I1 [I2 I3]]. rewrite I1, I2, I3, Hl.
  destruct (repaired_action_flags g Ha Ht t (clear_prevent g m) a (fun _ => eq_refl)) as [A B]. rewrite A, B.
  repeat split.
Qed.

(* bundles without schema actions never meet a missing edge *)
Definition record_doc (d : daction) : bool := match d with DRename _ | DModify _ => false | _ => true end.
Definition record_action (a : uaction) : bool := match a with UDocs ds => forallb record_doc ds | _ => true end.
Definition fresh (m : mech) : Prop := (forall c, stale m c = false) /\ (forall c, fstale m c = false).

Lemma fresh_doc : forall g m d, record_doc d = true -> fresh m -> fresh (mech_doc g m d).
Proof. intros g m d H F. destruct d; try discriminate; exact F. Qed.

Lemma fresh_docs : forall g ds m, forallb record_doc ds = true -> fresh m -> fresh (fold_left (mech_doc g) ds m).
Proof.
  intros g ds. induction ds as [|d ds IH]; intros m H F; [exact F|]. cbn [forallb] in H.
  apply andb_true_iff in H. destruct H as [H1 H2]. cbn [fold_left]. apply IH; [exact H2|]. apply fresh_doc; assumption.
Qed.

Lemma fresh_stale_docs : forall ka kb g ds m, forallb record_doc ds = true -> fresh m -> stale_docs_k ka kb g m ds = false.
Proof.
  intros ka kb g ds. induction ds as [|d ds IH]; intros m H F; [reflexivity|]. cbn [forallb] in H.
  apply andb_true_iff in H. destruct H as [H1 H2]. cbn [stale_docs_k]. rewrite IH; [|exact H2|apply fresh_doc; assumption].
  rewrite orb_false_r. destruct d; try reflexivity. cbn [stale_doc_k]. destruct F as [F1 F2]. apply stale_hit_fresh; assumption.
Qed.

Lemma fresh_clear : forall g m, fresh m -> fresh (clear_prevent g m).
Proof. intros g m [F1 F2]. split; intros c; cbn; [rewrite F1; reflexivity | apply F2]. Qed.

Lemma fresh_user : forall g t m a, record_action a = true -> fresh m -> fresh (mech_user g t m a).
Proof.
  intros g t m a H F. destruct a as [? ?|? ?|ds]; cbn [mech_user].
  - exact F.
  - exact F.
  - apply fresh_docs; assumption.
Qed.

Lemma record_bundle_no_stale : forall g b t m, forallb record_action b = true -> fresh m ->
  fl_stale (flag_actions g t m b) = false /\ fl_fstale (flag_actions g t m b) = false.
Proof.
  intros g b. induction b as [|a b IH]; intros t m H F; [split; reflexivity|]. cbn [forallb] in H.
  apply andb_true_iff in H. destruct H as [H1 H2]. cbn [flag_actions or_flags fl_stale fl_fstale].
  pose proof (fresh_clear g m F) as Fc.
  destruct (IH (data_user t a) (mech_user g t (clear_prevent g m) a) H2 (fresh_user g t _ a H1 Fc)) as [I1 I2].
  rewrite I1, I2, !orb_false_r. destruct Fc as [F1 F2].
  destruct a as [cols recs | cols recs | ds]; cbn [stale_user_k].
  - split; [|reflexivity]. unfold table_cols.
    destruct (selfdep g && memz trc cols && nonnil recs) eqn:E; [|reflexivity]. cbn [andb].
    apply andb_true_iff in E. destruct E as [E _]. apply andb_true_iff in E. destruct E as [E _].
    unfold selfdep in E. apply andb_true_iff in E. destruct E as [Ed Em]. apply negb_false_iff.
    apply existsb_true_intro with (x := trc); [apply in_or_app; left; apply memz_In; exact Em|].
    unfold reach, via_self, edge_live. rewrite Ed, Em, F1, F2, andb_false_r. reflexivity.
  - split; apply stale_hit_fresh; assumption.
  - split; apply fresh_stale_docs; try assumption; split; assumption.
Qed.

Lemma fresh0 : fresh mech0.
Proof. split; intros; reflexivity. Qed.

(* The property at full strength for the repaired source, on bundles of record actions. *)
Theorem fires_iff_spec_repaired : forall g t b r,
  fx_add (fx g) = true -> fx_lost (fx g) = true -> fx_trim (fx g) = true ->
  forallb record_action b = true ->
  In r (rows (step g t b)) -> unconstrained g t b r = false -> memz r (fired g t b) = spec g t b r.
Proof.
  intros g t b r Ha Hl Ht Hb. apply fires_iff_spec. unfold regular, bundle_flags, any_flag.
  destruct (repaired_flags g Ha Hl Ht b t mech0) as [A [B C]].
  destruct (record_bundle_no_stale g b t mech0 Hb fresh0) as [D E]. rewrite A, B, C, D, E. reflexivity.
Qed.
