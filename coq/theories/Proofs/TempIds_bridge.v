(* Bridging lemmas for C26: the functions translated from /repo on every run (GristGen.TempIds_gen, written by
   harness/tmp2v.py) equal the hand-written definitions of Model/TempIds.v, pointwise.  A semantic edit of the
   translated code breaks one of these proofs. *)
From Coq Require Import ZArith List Bool Lia.
Import ListNotations.
Require Import Grist.Lib.PyPrelude Grist.Lib.PyMonad Grist.Lib.PyTmp Grist.Model.RowIds Grist.Model.TempIds
               GristGen.TempIds_gen.
Open Scope Z_scope.

(* cells of the model as the code sees them *)
Definition cell_of_ref (v : refval) : pycell :=
  match v with RInt z => CInt z | ROther k => COther k end.
Definition cell_of_list (v : reflistval) : pycell :=
  match v with LNone => CNone | LList l => CList l | LOther k => COther k end.

Definition lift_cells {A} (f : A -> pycell) (r : py_result (list A)) : py_result (list pycell) :=
  match r with PyOk l => PyOk (map f l) | PyErr e => PyErr e end.

Lemma existsb_map_comp : forall (A B : Type) (f : B -> bool) (g : A -> B) l,
  existsb f (map g l) = existsb (fun x => f (g x)) l.
Proof. intros A B f g l. induction l as [|x t IH]; cbn; [reflexivity|]. rewrite IH. reflexivity. Qed.

Lemma existsb_ext_local : forall (A : Type) (f g : A -> bool) l,
  (forall x, f x = g x) -> existsb f l = existsb g l.
Proof. intros A f g l H. induction l as [|x t IH]; cbn; [reflexivity|]. rewrite H, IH. reflexivity. Qed.

Lemma zd_lookup_is_lookup : forall k d, zd_lookup k d = lookup k d.
Proof. intros k d. induction d as [|[k' v] t IH]; cbn; [reflexivity|]. rewrite IH. reflexivity. Qed.

Lemma dict_get_is_tr : forall d r, py_dict_get d r r = tr d r.
Proof. intros d r. unfold py_dict_get, tr. rewrite zd_lookup_is_lookup. reflexivity. Qed.

(* ActionSummary.translate_new_row_ids on row ids *)
Lemma gen_translate_is_translate : forall summ t ids,
  translate_new_row_ids summ t ids = translate (summ t) ids.
Proof.
  intros summ t ids. unfold translate_new_row_ids, translate. apply map_ext. intros r. apply dict_get_is_tr.
Qed.

(* ... and on Ref cell values *)
Lemma gen_translate_cells_ref : forall summ t vals,
  translate_new_row_ids_cells summ t (map cell_of_ref vals) = map cell_of_ref (map (tr_ref (summ t)) vals).
Proof.
  intros summ t vals. unfold translate_new_row_ids_cells. rewrite !map_map. apply map_ext. intros [z|k]; cbn.
  - unfold tr. rewrite zd_lookup_is_lookup. destruct (lookup z (summ t)); reflexivity.
  - reflexivity.
Qed.

(* ActionSummary.update_new_rows_map *)
Lemma gen_pairs_update : forall temps finals d,
  py_dict_update d (flat_map (fun '(a, b) =>
      match a with
      | None => []
      | Some a => if a =? 0 then [] else if a <? 0 then [(a, b)] else []
      end) (combine temps finals))
  = map_update d temps finals.
Proof.
  induction temps as [|a ts IH]; intros finals d; [reflexivity|].
  destruct finals as [|b fs]; [reflexivity|]. cbn [combine flat_map map_update].
  unfold py_dict_update in *. rewrite fold_left_app. rewrite IH.
  destruct a as [z|]; [|reflexivity].
  destruct (Z.eqb_spec z 0) as [->|Hz]; [reflexivity|]. destruct (z <? 0); reflexivity.
Qed.

Lemma gen_update_is_map_update : forall summ t temps finals,
  update_new_rows_map summ t temps finals = set_map summ t (map_update (summ t) temps finals).
Proof.
  intros summ t temps finals. unfold update_new_rows_map, py_maps_set, set_map.
  rewrite gen_pairs_update. reflexivity.
Qed.

(* BaseReferenceColumn._reject_unresolved_temp_ids *)
Lemma gen_reject_ref : forall vs,
  reject_unresolved_temp_ids (map cell_of_ref vs) =
  if existsb ref_unresolved vs then PyErr PyValueError else PyOk tt.
Proof.
  intros vs. unfold reject_unresolved_temp_ids. rewrite existsb_map_comp.
  replace (existsb _ vs) with (existsb ref_unresolved vs); [reflexivity|].
  apply existsb_ext_local. intros [z|k]; cbn; [destruct (z <? 0); reflexivity|reflexivity].
Qed.

Lemma gen_reject_list : forall vs,
  reject_unresolved_temp_ids (map cell_of_list vs) =
  if existsb list_unresolved vs then PyErr PyValueError else PyOk tt.
Proof.
  intros vs. unfold reject_unresolved_temp_ids. rewrite existsb_map_comp.
  replace (existsb _ vs) with (existsb list_unresolved vs); [reflexivity|].
  apply existsb_ext_local. intros [|l|k]; cbn; [reflexivity| |reflexivity].
  unfold has_negative. rewrite existsb_map_comp. apply existsb_ext_local. intros r. cbn. destruct (r <? 0); reflexivity.
Qed.

(* ReferenceColumn.prepare_new_values *)
Lemma gen_ref_prepare : forall summ self_t tgt vals,
  ref_prepare_new_values summ self_t tgt (map cell_of_ref vals)
  = lift_cells cell_of_ref (prepare_ref (summ tgt) vals).
Proof.
  intros summ self_t tgt vals. unfold ref_prepare_new_values.
  destruct vals as [|v vs]; [reflexivity|].
  replace (py_is_nil (map cell_of_ref (v :: vs))) with false by reflexivity.
  rewrite gen_translate_cells_ref, gen_reject_ref. unfold prepare_ref, lift_cells.
  destruct (existsb ref_unresolved (map (tr_ref (summ tgt)) (v :: vs))); reflexivity.
Qed.

(* ReferenceListColumn.prepare_new_values *)
Lemma gen_reflist_values : forall summ tgt vals,
  map (fun v => match v with
                | CList v__l => if existsb (fun r => if r <? 0 then true else false) v__l
                                then CList (translate_new_row_ids summ tgt v__l) else v
                | _ => v
                end) (map cell_of_list vals)
  = map cell_of_list (map (tr_list (summ tgt)) vals).
Proof.
  intros summ tgt vals. rewrite !map_map. apply map_ext. intros [|l|k]; cbn; [reflexivity| |reflexivity].
  unfold has_negative.
  replace (existsb (fun r => if r <? 0 then true else false) l) with (existsb (fun r => r <? 0) l)
    by (apply existsb_ext_local; intros r; destruct (r <? 0); reflexivity).
  destruct (existsb (fun r => r <? 0) l); [|reflexivity]. cbn. rewrite gen_translate_is_translate. reflexivity.
Qed.

Lemma gen_reflist_prepare : forall summ self_t tgt vals,
  reflist_prepare_new_values summ self_t tgt (map cell_of_list vals)
  = lift_cells cell_of_list (prepare_reflist (summ tgt) vals).
Proof.
  intros summ self_t tgt vals. unfold reflist_prepare_new_values, prepare_reflist, lift_cells.
  rewrite gen_reflist_values, gen_reject_list.
  destruct (existsb list_unresolved (map (tr_list (summ tgt)) vals)); reflexivity.
Qed.

(* doBulkRemoveRecord: the doc action removes the TRANSLATED ids, and the reference clean-up uses the set of the
   TRANSLATED ids -- exactly the two arguments of Model/TempIds.step for ARemove *)
Lemma gen_remove_is_step : forall summ t ids,
  remove_row_ids summ t ids = (translate (summ t) ids, py_set (translate (summ t) ids)).
Proof.
  intros summ t ids. unfold remove_row_ids. rewrite map_id, gen_translate_is_translate. reflexivity.
Qed.

(* ---- doBulkUpdateRecord: translate, then keep the last occurrence of every row id ---------------------- *)

(* positions (from off) of the elements that do not occur again later: what keep_last keeps *)
Fixpoint last_idx (off : Z) (l : list Z) : list Z :=
  match l with
  | [] => []
  | x :: t => if py_mem Z.eqb x t then last_idx (off + 1) t else off :: last_idx (off + 1) t
  end.

Fixpoint incr (l : list Z) : Prop :=
  match l with
  | x :: ((y :: _) as t) => x < y /\ incr t
  | _ => True
  end.

Lemma mem_In' : forall x l, py_mem Z.eqb x l = true <-> In x l.
Proof. exact py_mem_Z_In. Qed.

Lemma last_idx_ge : forall l off v, In v (last_idx off l) -> off <= v.
Proof.
  induction l as [|x t IH]; intros off v H; [contradiction|]. cbn [last_idx] in H.
  destruct (py_mem Z.eqb x t); [apply IH in H; lia|]. destruct H as [<-|H]; [lia|apply IH in H; lia].
Qed.

Lemma incr_cons : forall x l, (forall v, In v l -> x < v) -> incr l -> incr (x :: l).
Proof. intros x [|y t] H Hi; [exact I|]. split; [apply H; left; reflexivity|exact Hi]. Qed.

Lemma last_idx_incr : forall l off, incr (last_idx off l).
Proof.
  induction l as [|x t IH]; intros off; [exact I|]. cbn [last_idx].
  destruct (py_mem Z.eqb x t); [apply IH|]. apply incr_cons; [|apply IH].
  intros v Hv. apply last_idx_ge in Hv. lia.
Qed.

Lemma incr_head_lt : forall x l, incr (x :: l) -> forall v, In v l -> x < v.
Proof.
  intros x l. revert x. induction l as [|y t IH]; intros x H v Hv; [contradiction|].
  destruct H as [Hxy Ht]. destruct Hv as [<-|Hv]; [assumption|]. specialize (IH y Ht v Hv). lia.
Qed.

Lemma incr_tail : forall x l, incr (x :: l) -> incr l.
Proof. intros x [|y t] H; [exact I|exact (proj2 H)]. Qed.

(* two strictly increasing lists with the same elements are equal *)
Lemma incr_unique : forall a b, incr a -> incr b -> (forall v, In v a <-> In v b) -> a = b.
Proof.
  induction a as [|x a IH]; intros b Ha Hb Hab.
  - destruct b as [|y b]; [reflexivity|]. exfalso. apply (proj2 (Hab y)). left. reflexivity.
  - destruct b as [|y b]; [exfalso; apply (proj1 (Hab x)); left; reflexivity|].
    assert (Hxy : x = y).
    { destruct (proj1 (Hab x) (or_introl eq_refl)) as [E|Hin]; [congruence|].
      destruct (proj2 (Hab y) (or_introl eq_refl)) as [E|Hin2]; [congruence|].
      pose proof (incr_head_lt _ _ Hb _ Hin). pose proof (incr_head_lt _ _ Ha _ Hin2). lia. }
    subst y. f_equal. apply IH; [eapply incr_tail; eassumption|eapply incr_tail; eassumption|].
    intros v. split; intros Hv.
    + destruct (proj1 (Hab v) (or_intror Hv)) as [E|H]; [|assumption].
      pose proof (incr_head_lt _ _ Ha _ Hv). lia.
    + destruct (proj2 (Hab v) (or_intror Hv)) as [E|H]; [|assumption].
      pose proof (incr_head_lt _ _ Hb _ Hv). lia.
Qed.

(* sorted() of a duplicate-free list is strictly increasing with the same elements *)
Lemma py_insert_In : forall x l v, In v (py_insert x l) <-> v = x \/ In v l.
Proof.
  intros x l v. induction l as [|y t IH]; cbn [py_insert In]; [intuition|].
  destruct (x <=? y); cbn [In]; [intuition|]. rewrite IH. intuition.
Qed.

Lemma py_insert_incr : forall x l, incr l -> ~ In x l -> incr (py_insert x l).
Proof.
  intros x l. induction l as [|y t IH]; intros Hi Hn; [exact I|]. cbn [py_insert].
  destruct (Z.leb_spec x y) as [Hle|Hgt].
  - split; [|exact Hi]. assert (x <> y) by (intros ->; apply Hn; left; reflexivity). lia.
  - apply incr_cons.
    + intros v Hv. apply py_insert_In in Hv. destruct Hv as [->|Hv]; [lia|]. eapply incr_head_lt; eassumption.
    + apply IH; [eapply incr_tail; eassumption|]. intros H. apply Hn. right. assumption.
Qed.

Lemma py_sorted_In : forall l v, In v (py_sorted l) <-> In v l.
Proof.
  induction l as [|x t IH]; intros v; cbn [py_sorted fold_right In]; [tauto|].
  fold (py_sorted t). rewrite py_insert_In, IH. intuition.
Qed.

Lemma py_sorted_incr : forall l, NoDup l -> incr (py_sorted l).
Proof.
  induction l as [|x t IH]; intros H; [exact I|]. inversion H as [|? ? Hn Ht]; subst.
  cbn [py_sorted fold_right]. fold (py_sorted t). apply py_insert_incr; [apply IH; assumption|].
  rewrite py_sorted_In. assumption.
Qed.

(* the dict {row_id: i for i, row_id in enumerate(row_ids)}, built left to right *)
Definition dict_after (d : list (Z * Z)) (off : Z) (l : list Z) : list (Z * Z) :=
  fold_left (fun d p => od_set d (fst p) (snd p)) (map (fun '(i, r) => (r, i)) (py_enumerate_from off l)) d.

Definition dict_ok (d : list (Z * Z)) (off : Z) : Prop :=
  NoDup (map fst d) /\ NoDup (map snd d) /\ forall v, In v (map snd d) -> v < off.

Lemma od_set_In : forall d k v k' v', NoDup (map fst d) ->
  (In (k', v') (od_set d k v) <-> (k' = k /\ v' = v) \/ (k' <> k /\ In (k', v') d)).
Proof.
  induction d as [|[a b] t IH]; intros k v k' v' Hnd; cbn [od_set].
  - cbn [In]. split; [intros [E|[]]; inversion E; tauto|intros [[-> ->]|[_ []]]; left; reflexivity].
  - cbn [map fst] in Hnd. inversion Hnd as [|? ? Hna Hnt]; subst.
    destruct (Z.eqb_spec a k) as [->|Hne]; cbn [In].
    + split.
      * intros [E|H]; [inversion E; tauto|]. right. split; [|right; assumption].
        intros ->. apply Hna. apply in_map_iff. exists (k, v'). split; [reflexivity|assumption].
      * intros [[-> ->]|[Hk [E|H]]]; [left; reflexivity|inversion E; congruence|right; assumption].
    + rewrite (IH k v k' v' Hnt). split.
      * intros [E|[H|H]]; [inversion E; subst; right; split; [congruence|left; reflexivity]|tauto|tauto].
      * intros [H|[Hk [E|H]]]; [tauto|left; assumption|tauto].
Qed.

Lemma od_set_keys : forall d k v k', In k' (map fst (od_set d k v)) <-> k' = k \/ In k' (map fst d).
Proof.
  induction d as [|[a b] t IH]; intros k v k'; cbn [od_set map fst In]; [intuition|].
  destruct (Z.eqb_spec a k) as [->|Hne]; cbn [map fst In]; [intuition|]. rewrite IH. intuition.
Qed.

Lemma od_set_keys_nodup : forall d k v, NoDup (map fst d) -> NoDup (map fst (od_set d k v)).
Proof.
  induction d as [|[a b] t IH]; intros k v H; cbn [od_set]; [repeat constructor; intros []|].
  cbn [map fst] in H. inversion H as [|? ? Hna Hnt]; subst.
  destruct (Z.eqb_spec a k) as [->|Hne]; cbn [map fst]; [constructor; assumption|].
  constructor; [|apply IH; assumption]. rewrite od_set_keys. intros [E|Hin]; [congruence|contradiction].
Qed.

Lemma od_set_vals_In : forall d k v w, In w (map snd (od_set d k v)) -> w = v \/ In w (map snd d).
Proof.
  induction d as [|[a b] t IH]; intros k v w H; cbn [od_set] in H.
  - destruct H as [<-|[]]. left. reflexivity.
  - destruct (a =? k); cbn [map snd In] in *.
    + destruct H as [<-|H]; [left; reflexivity|right; right; assumption].
    + destruct H as [<-|H]; [right; left; reflexivity|]. destruct (IH _ _ _ H); [left; assumption|right; right; assumption].
Qed.

Lemma od_set_vals_nodup : forall d k v, NoDup (map snd d) -> ~ In v (map snd d) -> NoDup (map snd (od_set d k v)).
Proof.
  induction d as [|[a b] t IH]; intros k v H Hn; cbn [od_set]; [repeat constructor; intros []|].
  cbn [map snd] in H, Hn. inversion H as [|? ? Hnb Hnt]; subst.
  destruct (a =? k); cbn [map snd].
  - constructor; [|assumption]. intros Hin. apply Hn. right. assumption.
  - constructor; [|apply IH; [assumption|intros Hin; apply Hn; right; assumption]].
    intros Hin. apply od_set_vals_In in Hin. destruct Hin as [->|Hin]; [apply Hn; left; reflexivity|contradiction].
Qed.

Lemma dict_ok_step : forall d off x, dict_ok d off -> dict_ok (od_set d x off) (off + 1).
Proof.
  intros d off x [Hk [Hv Hb]]. split; [apply od_set_keys_nodup; assumption|]. split.
  - apply od_set_vals_nodup; [assumption|]. intros Hin. apply Hb in Hin. lia.
  - intros v Hin. apply od_set_vals_In in Hin. destruct Hin as [->|Hin]; [lia|]. apply Hb in Hin. lia.
Qed.

Lemma last_idx_cons_In : forall off x t v,
  In v (last_idx off (x :: t)) <-> (~ In x t /\ v = off) \/ In v (last_idx (off + 1) t).
Proof.
  intros off x t v. cbn [last_idx]. destruct (py_mem Z.eqb x t) eqn:Hm.
  - apply mem_In' in Hm. tauto.
  - assert (~ In x t) by (intros H; apply mem_In' in H; congruence). cbn [In]. intuition.
Qed.

Lemma dict_after_vals : forall l d off, dict_ok d off ->
  NoDup (map snd (dict_after d off l)) /\
  forall v, In v (map snd (dict_after d off l)) <->
            (exists k, In (k, v) d /\ ~ In k l) \/ In v (last_idx off l).
Proof.
  induction l as [|x t IH]; intros d off Hok.
  - split; [apply Hok|]. intros v. cbn. split.
    + intros H. left. apply in_map_iff in H. destruct H as [[k w] [E H]]. cbn in E. subst w. exists k. tauto.
    + intros [[k [H _]]|[]]. apply in_map_iff. exists (k, v). split; [reflexivity|assumption].
  - unfold dict_after. cbn [py_enumerate_from map fold_left fst snd]. fold (dict_after (od_set d x off) (off + 1) t).
    destruct (IH _ _ (dict_ok_step d off x Hok)) as [Hnd Hin]. split; [assumption|].
    intros v. rewrite Hin, last_idx_cons_In. destruct Hok as [Hk _]. split.
    + intros [[k [Hkv Hnt]]|H]; [|tauto]. apply (od_set_In d x off k v Hk) in Hkv.
      destruct Hkv as [[-> ->]|[Hne Hd]]; [right; left; tauto|]. left. exists k. split; [assumption|].
      intros [E|E]; [congruence|contradiction].
    + intros [[k [Hd Hn]]|[[Hnx ->]|H]]; [| |tauto].
      * left. exists k. split; [|intros E; apply Hn; right; assumption].
        apply (od_set_In d x off k v Hk). right. split; [intros ->; apply Hn; left; reflexivity|assumption].
      * left. exists x. split; [|assumption]. apply (od_set_In d x off x off Hk). left. tauto.
Qed.

(* keep = sorted(last.values()) is the increasing list of last positions *)
Lemma gen_keep_is_last_idx : forall l,
  py_sorted (py_dict_values (py_dict_of (map (fun '(i, row_id) => (row_id, i)) (py_enumerate l)))) = last_idx 0 l.
Proof.
  intros l. change (py_sorted (map snd (dict_after [] 0 l)) = last_idx 0 l).
  assert (Hok : dict_ok [] 0) by (repeat split; try constructor; intros v []).
  destruct (dict_after_vals l [] 0 Hok) as [Hnd Hin].
  apply incr_unique; [apply py_sorted_incr; assumption|apply last_idx_incr|].
  intros v. rewrite py_sorted_In, Hin. split; [intros [[k [[] _]]|H]; assumption|tauto].
Qed.

Lemma py_index_app : forall (A : Type) (pre : list A) v vs,
  py_index (pre ++ v :: vs) (Z.of_nat (length pre)) = [v].
Proof.
  intros A pre v vs. unfold py_index.
  replace (Z.of_nat (length pre) <? 0) with false by (symmetry; apply Z.ltb_ge; lia).
  rewrite Nat2Z.id, nth_error_app2 by lia. rewrite Nat.sub_diag. reflexivity.
Qed.

(* [values[i] for i in keep] picks exactly what keep_last keeps *)
Lemma index_last_idx : forall (A : Type) l (vals pre : list A), length vals = length l ->
  flat_map (py_index (pre ++ vals)) (last_idx (Z.of_nat (length pre)) l) = keep_last l vals.
Proof.
  intros A. induction l as [|x t IH]; intros vals pre Hlen.
  - destruct vals; reflexivity.
  - destruct vals as [|v vs]; [discriminate|]. cbn [length] in Hlen. injection Hlen as Hlen.
    assert (Hrec : flat_map (py_index (pre ++ v :: vs)) (last_idx (Z.of_nat (length pre) + 1) t) = keep_last t vs).
    { specialize (IH vs (pre ++ [v]) Hlen). rewrite <- app_assoc in IH. cbn [app] in IH.
      rewrite app_length in IH. cbn [length] in IH.
      replace (Z.of_nat (length pre + 1)) with (Z.of_nat (length pre) + 1) in IH by lia. exact IH. }
    cbn [last_idx keep_last]. destruct (py_mem Z.eqb x t); [exact Hrec|].
    cbn [flat_map]. rewrite py_index_app, Hrec. reflexivity.
Qed.

Lemma py_set_length_le : forall l, (length (py_set l) <= length l)%nat.
Proof.
  induction l as [|x t IH]; cbn [py_set length]; [lia|]. destruct (py_mem Z.eqb x t); cbn [length]; lia.
Qed.

(* len(set(row_ids)) == len(row_ids): nothing repeats, and keep_last keeps everything *)
Lemma keep_last_nodup : forall (A : Type) l (vals : list A),
  length (py_set l) = length l -> length vals = length l -> keep_last l vals = vals.
Proof.
  intros A. induction l as [|x t IH]; intros vals Hs Hlen.
  - destruct vals; [reflexivity|discriminate].
  - destruct vals as [|v vs]; [discriminate|]. cbn [py_set length keep_last] in *.
    destruct (py_mem Z.eqb x t).
    + pose proof (py_set_length_le t). lia.
    + cbn [length] in Hs. rewrite IH; [reflexivity|lia|lia].
Qed.

(* doBulkUpdateRecord's preparation = the first lines of Model/TempIds.step for AUpdate: the row ids are translated,
   then ids and every column keep the last occurrence of each row (columns as long as the id list) *)
Lemma gen_update_is_step : forall (A : Type) summ t ids (cols : list (Z * list A)),
  Forall (fun c => length (snd c) = length ids) cols ->
  let ids0 := translate (summ t) ids in
  update_row_ids summ t ids cols = (keep_last ids0 ids0, map (fun c => (fst c, keep_last ids0 (snd c))) cols).
Proof.
  intros A summ t ids cols Hlen ids0. unfold update_row_ids. rewrite gen_translate_is_translate. fold ids0.
  assert (Hl0 : length ids0 = length ids) by (unfold ids0, translate; apply map_length).
  assert (Hcols : forall (f : list A -> list A), (forall vs, length vs = length ids0 -> f vs = keep_last ids0 vs) ->
            map (fun '(col_id, values) => (col_id, f values)) cols
            = map (fun c => (fst c, keep_last ids0 (snd c))) cols).
  { intros f Hf. apply map_ext_in. intros [c vs] Hin. cbn [fst snd]. rewrite Forall_forall in Hlen.
    rewrite Hf; [reflexivity|]. rewrite Hl0. apply (Hlen (c, vs) Hin). }
  unfold py_len. destruct (Z.eqb_spec (Z.of_nat (length (py_set ids0))) (Z.of_nat (length ids0))) as [He|Hne]; cbn [negb].
  - apply Nat2Z.inj in He. rewrite (keep_last_nodup Z ids0 ids0 He eq_refl). f_equal.
    transitivity (map (fun '(col_id, values) => (col_id, (fun vs : list A => vs) values)) cols).
    + rewrite <- (map_id cols) at 1. apply map_ext. intros [c vs]. reflexivity.
    + apply Hcols. intros vs Hvs. symmetry. apply keep_last_nodup; assumption.
  - cbv zeta. rewrite gen_keep_is_last_idx. f_equal.
    + apply (index_last_idx Z ids0 ids0 [] eq_refl).
    + apply (Hcols (fun values => flat_map (fun i => py_index values i) (last_idx 0 ids0))).
      intros vs Hvs. apply (index_last_idx A ids0 vs [] Hvs).
Qed.

(* ---- the property theorems, restated on the generated code ---------------------------------------------- *)
Require Import Grist.Proofs.TempIds_proofs.

Lemma code_translate_after_update : forall summ t temps finals i a f,
  nth_error temps i = Some (Some a) -> a < 0 -> nth_error finals i = Some f ->
  (forall j, (i < j)%nat -> nth_error temps j <> Some (Some a)) ->
  translate_new_row_ids (update_new_rows_map summ t temps finals) t [a] = [f].
Proof.
  intros summ t temps finals i a f H1 H2 H3 H4. rewrite gen_translate_is_translate, gen_update_is_map_update.
  unfold set_map. rewrite Z.eqb_refl. eapply translate_after_update; eassumption.
Qed.

Lemma code_other_tables_untouched : forall summ t temps finals t' ids, t' <> t ->
  translate_new_row_ids (update_new_rows_map summ t temps finals) t' ids = translate_new_row_ids summ t' ids.
Proof.
  intros summ t temps finals t' ids Hne. rewrite !gen_translate_is_translate, gen_update_is_map_update.
  unfold set_map. destruct (Z.eqb_spec t' t); [contradiction|reflexivity].
Qed.

Lemma code_ref_values_translated : forall summ self_t tgt vals cs, wf_tmap (summ tgt) ->
  ref_prepare_new_values summ self_t tgt (map cell_of_ref vals) = PyOk cs ->
  exists vs, cs = map cell_of_ref vs /\ Forall2 (ref_resolved (summ tgt)) vals vs.
Proof.
  intros summ self_t tgt vals cs Hwf H. rewrite gen_ref_prepare in H. unfold lift_cells in H.
  destruct (prepare_ref (summ tgt) vals) as [vs|] eqn:Hp; [|discriminate]. inversion H; subst.
  exists vs. split; [reflexivity|]. eapply prepare_ref_ok; eassumption.
Qed.

Lemma code_reflist_values_translated : forall summ self_t tgt vals cs, wf_tmap (summ tgt) ->
  reflist_prepare_new_values summ self_t tgt (map cell_of_list vals) = PyOk cs ->
  exists vs, cs = map cell_of_list vs /\ Forall2 (list_resolved (summ tgt)) vals vs.
Proof.
  intros summ self_t tgt vals cs Hwf H. rewrite gen_reflist_prepare in H. unfold lift_cells in H.
  destruct (prepare_reflist (summ tgt) vals) as [vs|] eqn:Hp; [|discriminate]. inversion H; subst.
  exists vs. split; [reflexivity|]. eapply prepare_reflist_ok; eassumption.
Qed.

Lemma code_unresolved_negative_rejected : forall summ self_t tgt vals z,
  In (RInt z) vals -> z < 0 -> lookup z (summ tgt) = None ->
  ref_prepare_new_values summ self_t tgt (map cell_of_ref vals) = PyErr PyValueError.
Proof.
  intros summ self_t tgt vals z H1 H2 H3. rewrite gen_ref_prepare, (prepare_ref_rejects _ _ _ H1 H2 H3). reflexivity.
Qed.

Lemma code_unresolved_negative_rejected_list : forall summ self_t tgt vals l z,
  In (LList l) vals -> In z l -> z < 0 -> lookup z (summ tgt) = None ->
  reflist_prepare_new_values summ self_t tgt (map cell_of_list vals) = PyErr PyValueError.
Proof.
  intros summ self_t tgt vals l z H1 H2 H3 H4.
  rewrite gen_reflist_prepare, (prepare_reflist_rejects _ _ _ _ H1 H2 H3 H4). reflexivity.
Qed.

(* a removal / an update naming temporary ids hands the doc action (and the reference clean-up) the allocated ids *)
Lemma code_remove_uses_allocated_rows : forall summ t ids, wf_tmap (summ t) ->
  remove_row_ids summ t ids = remove_row_ids summ t (translate_new_row_ids summ t ids).
Proof.
  intros summ t ids Hwf. rewrite !gen_remove_is_step, gen_translate_is_translate, translate_idempotent by assumption.
  reflexivity.
Qed.

Lemma code_update_uses_allocated_rows : forall (A : Type) summ t ids (cols : list (Z * list A)), wf_tmap (summ t) ->
  Forall (fun c => length (snd c) = length ids) cols ->
  update_row_ids summ t ids cols = update_row_ids summ t (translate_new_row_ids summ t ids) cols.
Proof.
  intros A summ t ids cols Hwf Hlen. rewrite (gen_update_is_step A summ t ids cols Hlen).
  rewrite (gen_update_is_step A summ t (translate_new_row_ids summ t ids) cols).
  - rewrite gen_translate_is_translate, translate_idempotent by assumption. reflexivity.
  - rewrite gen_translate_is_translate. unfold translate. rewrite map_length. assumption.
Qed.
