(* Proofs for C26 (Model/TempIds.v).  Part A: the new-rows map.  Part B: Ref / RefList values.
   Part C: the bundle interpreter. *)
From Coq Require Import ZArith List Bool Lia.
Import ListNotations.
Require Import Grist.Lib.PyPrelude Grist.Lib.PyMonad Grist.Model.RowIds Grist.Model.TempIds
               Grist.Proofs.RowIds_proofs.
Open Scope Z_scope.

(* ================================================================================================ *)
(* Part A: the new-rows map                                                                         *)

Lemma lookup_none : forall a tm, lookup a tm = None <-> ~ In a (keys tm).
Proof.
  intros a tm. induction tm as [|[k v] t IH]; cbn [lookup keys map fst In].
  - split; [intros _ []|reflexivity].
  - destruct (Z.eqb_spec k a) as [->|Hne].
    + split; [discriminate|]. intros H. exfalso. apply H. left. reflexivity.
    + rewrite IH. unfold keys. split; [intros H [E|E]; [congruence|contradiction]|intros H E; apply H; right; exact E].
Qed.

Lemma lookup_app : forall a l m,
  lookup a (l ++ m) = match lookup a l with Some v => Some v | None => lookup a m end.
Proof.
  intros a l m. induction l as [|[k v] t IH]; cbn [app lookup]; [reflexivity|].
  destruct (k =? a); [reflexivity|exact IH].
Qed.

Lemma keys_rev : forall tm a, In a (keys (rev tm)) <-> In a (keys tm).
Proof. intros tm a. unfold keys. rewrite map_rev. rewrite <- in_rev. tauto. Qed.

Lemma lookup_rev_last : forall ps a f, lookup a (rev ps) = Some f <-> last_pair ps a f.
Proof.
  induction ps as [|[k v] ps IH]; intros a f; cbn [rev].
  - split; [discriminate|]. intros [l1 [l2 [H _]]]. destruct l1; discriminate.
  - rewrite lookup_app. cbn [lookup]. split.
    + destruct (lookup a (rev ps)) as [g|] eqn:Hl.
      * intros E. inversion E; subst. apply IH in Hl. destruct Hl as [l1 [l2 [-> Hn]]].
        exists ((k, v) :: l1), l2. split; [reflexivity|assumption].
      * destruct (Z.eqb_spec k a) as [->|Hne]; [|discriminate]. intros E. inversion E; subst.
        exists [], ps. split; [reflexivity|]. apply lookup_none in Hl. rewrite keys_rev in Hl. assumption.
    + intros [l1 [l2 [E Hn]]]. destruct l1 as [|p l1]; cbn [app] in E.
      * inversion E; subst. assert (Hl : lookup a (rev l2) = None) by (apply lookup_none; rewrite keys_rev; assumption).
        rewrite Hl, Z.eqb_refl. reflexivity.
      * inversion E; subst. assert (Hl : lookup a (rev (l1 ++ (a, f) :: l2)) = Some f).
        { apply IH. exists l1, l2. split; [reflexivity|assumption]. }
        rewrite Hl. reflexivity.
Qed.

Lemma map_update_pairs : forall temps finals tm,
  map_update tm temps finals = rev (temp_pairs temps finals) ++ tm.
Proof.
  induction temps as [|a ts IH]; intros finals tm; [reflexivity|].
  destruct finals as [|b fs]; [reflexivity|]. cbn [map_update temp_pairs].
  destruct a as [z|]; [|apply IH]. destruct (z <? 0); [|apply IH].
  rewrite IH. cbn [rev]. rewrite <- app_assoc. reflexivity.
Qed.

(* keys of the pairs of one add are the negative ids of the request *)
Lemma temp_pairs_keys : forall temps finals a, In a (keys (temp_pairs temps finals)) ->
  a < 0 /\ exists j, nth_error temps j = Some (Some a).
Proof.
  induction temps as [|x ts IH]; intros finals a H; [contradiction|].
  destruct finals as [|b fs]; [contradiction|]. cbn [temp_pairs] in H.
  assert (Hrec : In a (keys (temp_pairs ts fs)) -> a < 0 /\ exists j, nth_error (x :: ts) j = Some (Some a)).
  { intros H'. destruct (IH _ _ H') as [Hn [j Hj]]. split; [assumption|]. exists (S j). exact Hj. }
  destruct x as [z|]; [|auto]. destruct (z <? 0) eqn:Hz; [|auto].
  destruct H as [E|H]; [|auto]. cbn [fst] in E. subst z. split; [apply Z.ltb_lt; assumption|]. exists 0%nat. reflexivity.
Qed.

(* position i of the request holds temp id a, position i of the allocated ids holds f, and a does not occur
   later in the request: then (a, f) is the last pair for a *)
Lemma temp_pairs_last : forall temps finals i a f,
  nth_error temps i = Some (Some a) -> a < 0 -> nth_error finals i = Some f ->
  (forall j, (i < j)%nat -> nth_error temps j <> Some (Some a)) ->
  last_pair (temp_pairs temps finals) a f.
Proof.
  induction temps as [|x ts IH]; intros finals i a f Ht Ha Hf Hlast; [destruct i; discriminate|].
  destruct finals as [|b fs]; [destruct i; discriminate|].
  destruct i as [|i]; cbn [nth_error] in Ht, Hf.
  - inversion Ht; inversion Hf; subst. cbn [temp_pairs].
    replace (a <? 0) with true by (symmetry; apply Z.ltb_lt; assumption).
    exists [], (temp_pairs ts fs). split; [reflexivity|]. intros Hin.
    destruct (temp_pairs_keys _ _ _ Hin) as [_ [j Hj]]. apply (Hlast (S j)); [lia|exact Hj].
  - destruct (IH fs i a f Ht Ha Hf) as [l1 [l2 [E Hn]]].
    { intros j Hj. apply (Hlast (S j)). lia. }
    cbn [temp_pairs]. destruct x as [z|]; [destruct (z <? 0)|].
    + exists ((z, b) :: l1), l2. rewrite E. split; [reflexivity|assumption].
    + exists l1, l2. split; assumption.
    + exists l1, l2. split; assumption.
Qed.

(* C26 translate_after_update *)
Lemma translate_after_update : forall tm temps finals i a f,
  nth_error temps i = Some (Some a) -> a < 0 -> nth_error finals i = Some f ->
  (forall j, (i < j)%nat -> nth_error temps j <> Some (Some a)) ->
  translate (map_update tm temps finals) [a] = [f].
Proof.
  intros tm temps finals i a f Ht Ha Hf Hlast. cbn [translate map]. unfold tr.
  rewrite map_update_pairs, lookup_app.
  assert (H : lookup a (rev (temp_pairs temps finals)) = Some f).
  { apply lookup_rev_last. eapply temp_pairs_last; eassumption. }
  rewrite H. reflexivity.
Qed.

(* ids that are not a negative id of the request keep their previous translation *)
Lemma translate_frame : forall tm temps finals r,
  (r < 0 -> forall j, nth_error temps j <> Some (Some r)) ->
  tr (map_update tm temps finals) r = tr tm r.
Proof.
  intros tm temps finals r H. unfold tr. rewrite map_update_pairs, lookup_app.
  assert (Hn : lookup r (rev (temp_pairs temps finals)) = None).
  { apply lookup_none. rewrite keys_rev. intros Hin. destruct (temp_pairs_keys _ _ _ Hin) as [Hr [j Hj]].
    apply (H Hr j Hj). }
  rewrite Hn. reflexivity.
Qed.

Lemma wf_lookup_neg : forall tm a f, wf_tmap tm -> lookup a tm = Some f -> a < 0 /\ 0 < f.
Proof.
  intros tm a f Hwf. induction tm as [|[k v] t IH]; cbn [lookup]; [discriminate|].
  inversion Hwf as [|? ? Hp Hwf']; subst. destruct (Z.eqb_spec k a) as [->|Hne].
  - intros E. inversion E; subst. exact Hp.
  - apply IH. assumption.
Qed.

(* non-negative ids are never changed *)
Lemma tr_nonneg : forall tm r, wf_tmap tm -> 0 <= r -> tr tm r = r.
Proof.
  intros tm r Hwf Hr. unfold tr. destruct (lookup r tm) as [f|] eqn:Hl; [|reflexivity].
  destruct (wf_lookup_neg _ _ _ Hwf Hl). lia.
Qed.

Lemma tr_idempotent : forall tm r, wf_tmap tm -> tr tm (tr tm r) = tr tm r.
Proof.
  intros tm r Hwf. destruct (lookup r tm) as [f|] eqn:Hl.
  - assert (E : tr tm r = f) by (unfold tr; rewrite Hl; reflexivity). rewrite E.
    apply tr_nonneg; [assumption|]. destruct (wf_lookup_neg _ _ _ Hwf Hl). lia.
  - assert (E : tr tm r = r) by (unfold tr; rewrite Hl; reflexivity). rewrite E. exact E.
Qed.

Lemma translate_idempotent : forall tm ids, wf_tmap tm -> translate tm (translate tm ids) = translate tm ids.
Proof.
  intros tm ids Hwf. unfold translate. rewrite map_map. apply map_ext. intros r. apply tr_idempotent. assumption.
Qed.

Lemma wf_tmap_app : forall l m, wf_tmap l -> wf_tmap m -> wf_tmap (l ++ m).
Proof. intros l m Hl Hm. unfold wf_tmap. apply Forall_app. split; assumption. Qed.

Lemma wf_tmap_rev : forall l, wf_tmap l -> wf_tmap (rev l).
Proof. intros l H. unfold wf_tmap in *. rewrite Forall_forall in *. intros x Hx. apply H. apply in_rev. assumption. Qed.

(* the pairs recorded by an add are (negative temp id, positive allocated id) *)
Lemma shape_pairs_wf : forall n req out, 1 <= n ->
  Forall2 (fun r o => match explicit r with Some z => o = z | None => n <= o end) req out ->
  wf_tmap (temp_pairs req out).
Proof.
  intros n req out Hn F. induction F as [|r o req' out' Hro _ IH]; [constructor|].
  cbn [temp_pairs]. destruct r as [z|]; [|assumption]. destruct (z <? 0) eqn:Hz; [|assumption].
  cbn [explicit] in Hro. rewrite Hz in Hro.
  constructor; [cbn [fst snd]; split; [apply Z.ltb_lt; assumption|lia]|assumption].
Qed.

Lemma alloc_pairs_wf : forall req n out, 1 <= n -> alloc n req = PyOk out -> wf_tmap (temp_pairs req out).
Proof. intros req n out Hn H. eapply shape_pairs_wf; [eassumption|apply alloc_shape; assumption]. Qed.

(* ================================================================================================ *)
(* Part B: Ref / RefList values                                                                     *)

Lemma existsb_false_forall : forall (A : Type) (f : A -> bool) l,
  existsb f l = false -> forall x, In x l -> f x = false.
Proof.
  intros A f l H x Hx. destruct (f x) eqn:E; [|reflexivity].
  assert (existsb f l = true) by (apply existsb_exists; exists x; split; assumption). congruence.
Qed.

Lemma tr_resolved : forall tm z, wf_tmap tm -> (tr tm z <? 0) = false -> id_resolved tm z (tr tm z).
Proof.
  intros tm z Hwf Hn. unfold id_resolved. destruct (z <? 0) eqn:Hz.
  - unfold tr in *. destruct (lookup z tm) as [f|]; [reflexivity|congruence].
  - apply tr_nonneg; [assumption|]. apply Z.ltb_ge. assumption.
Qed.

(* C26 ref_values_translated, Ref *)
Lemma prepare_ref_ok : forall tm vals vs, wf_tmap tm ->
  prepare_ref tm vals = PyOk vs -> Forall2 (ref_resolved tm) vals vs.
Proof.
  intros tm vals vs Hwf H. unfold prepare_ref in H.
  destruct (existsb ref_unresolved (map (tr_ref tm) vals)) eqn:Hex; [discriminate|]. inversion H; subst. clear H.
  pose proof (existsb_false_forall _ _ _ Hex) as Hall. clear Hex.
  induction vals as [|v t IH]; cbn [map]; constructor.
  - specialize (Hall (tr_ref tm v) (or_introl eq_refl)). destruct v as [z|k]; cbn [tr_ref ref_resolved ref_unresolved] in *.
    + exists (tr tm z). split; [reflexivity|apply tr_resolved; assumption].
    + reflexivity.
  - apply IH. intros x Hx. apply Hall. right. assumption.
Qed.

Lemma translate_resolved : forall tm l, wf_tmap tm ->
  has_negative (translate tm l) = false -> Forall2 (id_resolved tm) l (translate tm l).
Proof.
  intros tm l Hwf H. pose proof (existsb_false_forall _ _ _ H) as Hall. clear H.
  induction l as [|z t IH]; cbn [translate map]; constructor.
  - apply tr_resolved; [assumption|]. apply (Hall (tr tm z)). left. reflexivity.
  - apply IH. intros x Hx. apply Hall. right. assumption.
Qed.

Lemma nonneg_resolved : forall tm l, has_negative l = false -> Forall2 (id_resolved tm) l l.
Proof.
  intros tm l H. pose proof (existsb_false_forall _ _ _ H) as Hall. clear H.
  induction l as [|z t IH]; constructor.
  - unfold id_resolved. rewrite (Hall z (or_introl eq_refl)). reflexivity.
  - apply IH. intros x Hx. apply Hall. right. assumption.
Qed.

(* C26 ref_values_translated, RefList *)
Lemma prepare_reflist_ok : forall tm vals vs, wf_tmap tm ->
  prepare_reflist tm vals = PyOk vs -> Forall2 (list_resolved tm) vals vs.
Proof.
  intros tm vals vs Hwf H. unfold prepare_reflist in H.
  destruct (existsb list_unresolved (map (tr_list tm) vals)) eqn:Hex; [discriminate|]. inversion H; subst. clear H.
  pose proof (existsb_false_forall _ _ _ Hex) as Hall. clear Hex.
  induction vals as [|v t IH]; cbn [map]; constructor.
  - specialize (Hall (tr_list tm v) (or_introl eq_refl)). destruct v as [|l|k]; cbn [tr_list list_resolved] in *;
      [reflexivity| |reflexivity].
    destruct (has_negative l) eqn:Hn; cbn [list_unresolved] in Hall.
    + exists (translate tm l). split; [reflexivity|apply translate_resolved; assumption].
    + exists l. split; [reflexivity|apply nonneg_resolved; assumption].
  - apply IH. intros x Hx. apply Hall. right. assumption.
Qed.

(* C26 unresolved_negative_rejected *)
Lemma prepare_ref_rejects : forall tm vals z,
  In (RInt z) vals -> z < 0 -> lookup z tm = None -> prepare_ref tm vals = PyErr PyValueError.
Proof.
  intros tm vals z Hin Hz Hl. unfold prepare_ref.
  assert (E : existsb ref_unresolved (map (tr_ref tm) vals) = true).
  { apply existsb_exists. exists (RInt z). split.
    - apply in_map_iff. exists (RInt z). split; [|assumption]. cbn [tr_ref]. unfold tr. rewrite Hl. reflexivity.
    - cbn [ref_unresolved]. apply Z.ltb_lt. assumption. }
  rewrite E. reflexivity.
Qed.

Lemma prepare_reflist_rejects : forall tm vals l z,
  In (LList l) vals -> In z l -> z < 0 -> lookup z tm = None -> prepare_reflist tm vals = PyErr PyValueError.
Proof.
  intros tm vals l z Hin Hzl Hz Hl. unfold prepare_reflist.
  assert (Hneg : has_negative l = true).
  { apply existsb_exists. exists z. split; [assumption|apply Z.ltb_lt; assumption]. }
  assert (E : existsb list_unresolved (map (tr_list tm) vals) = true).
  { apply existsb_exists. exists (tr_list tm (LList l)). split; [apply in_map; assumption|].
    cbn [tr_list]. rewrite Hneg. cbn [list_unresolved]. apply existsb_exists. exists z. split.
    - unfold translate. apply in_map_iff. exists z. split; [unfold tr; rewrite Hl; reflexivity|assumption].
    - apply Z.ltb_lt. assumption. }
  rewrite E. reflexivity.
Qed.

(* ... and nothing else is rejected: an exception means some negative id has no mapping *)
Lemma prepare_ref_rejects_only_unresolved : forall tm vals e, wf_tmap tm ->
  prepare_ref tm vals = PyErr e ->
  e = PyValueError /\ exists z, In (RInt z) vals /\ z < 0 /\ lookup z tm = None.
Proof.
  intros tm vals e Hwf H. unfold prepare_ref in H.
  destruct (existsb ref_unresolved (map (tr_ref tm) vals)) eqn:Hex; [|discriminate]. inversion H; subst.
  split; [reflexivity|]. apply existsb_exists in Hex. destruct Hex as [v' [Hin Hu]].
  apply in_map_iff in Hin. destruct Hin as [v [<- Hv]]. destruct v as [z|k]; cbn [tr_ref ref_unresolved] in Hu; [|discriminate].
  apply Z.ltb_lt in Hu. exists z. split; [assumption|]. unfold tr in Hu.
  destruct (lookup z tm) as [f|] eqn:Hl; [|split; [assumption|reflexivity]].
  destruct (wf_lookup_neg _ _ _ Hwf Hl). lia.
Qed.

Lemma prepare_reflist_rejects_only_unresolved : forall tm vals e, wf_tmap tm ->
  prepare_reflist tm vals = PyErr e ->
  e = PyValueError /\ exists l z, In (LList l) vals /\ In z l /\ z < 0 /\ lookup z tm = None.
Proof.
  intros tm vals e Hwf H. unfold prepare_reflist in H.
  destruct (existsb list_unresolved (map (tr_list tm) vals)) eqn:Hex; [|discriminate]. inversion H; subst.
  split; [reflexivity|]. apply existsb_exists in Hex. destruct Hex as [v' [Hin Hu]].
  apply in_map_iff in Hin. destruct Hin as [v [<- Hv]]. destruct v as [|l|k]; cbn [tr_list list_unresolved] in Hu;
    [discriminate| |discriminate].
  destruct (has_negative l) eqn:Hn; cbn [list_unresolved] in Hu; [|congruence].
  apply existsb_exists in Hu. destruct Hu as [y [Hy Hyn]]. unfold translate in Hy. apply in_map_iff in Hy.
  destruct Hy as [z [<- Hz]]. apply Z.ltb_lt in Hyn. exists l, z. split; [assumption|]. split; [assumption|].
  unfold tr in Hyn. destruct (lookup z tm) as [f|] eqn:Hl; [|split; [assumption|reflexivity]].
  destruct (wf_lookup_neg _ _ _ Hwf Hl). lia.
Qed.

(* an accepted value holds no negative id *)
Lemma prepare_ref_no_negative : forall tm vals vs z,
  prepare_ref tm vals = PyOk vs -> In (RInt z) vs -> 0 <= z.
Proof.
  intros tm vals vs z H Hin. unfold prepare_ref in H.
  destruct (existsb ref_unresolved (map (tr_ref tm) vals)) eqn:Hex; [discriminate|]. inversion H; subst.
  pose proof (existsb_false_forall _ _ _ Hex _ Hin) as Hf. cbn [ref_unresolved] in Hf. apply Z.ltb_ge. assumption.
Qed.

Lemma prepare_reflist_no_negative : forall tm vals vs l z,
  prepare_reflist tm vals = PyOk vs -> In (LList l) vs -> In z l -> 0 <= z.
Proof.
  intros tm vals vs l z H Hin Hz. unfold prepare_reflist in H.
  destruct (existsb list_unresolved (map (tr_list tm) vals)) eqn:Hex; [discriminate|]. inversion H; subst.
  pose proof (existsb_false_forall _ _ _ Hex _ Hin) as Hf. cbn [list_unresolved] in Hf.
  pose proof (existsb_false_forall _ _ _ Hf _ Hz) as Hg. apply Z.ltb_ge. assumption.
Qed.

(* ================================================================================================ *)
(* Part C: the bundle interpreter                                                                   *)

Lemma step_add_inv : forall s st t ids rv lv st' r,
  step s st (AAdd t ids rv lv) = PyOk (st', r) ->
  exists out rv' lv',
    alloc (next_row_id (table_ids (get_table (st_doc st) t))) ids = PyOk out /\ r = RetIds out /\
    st_maps st' = set_map (st_maps st) t (map_update (st_maps st t) ids out) /\
    prepare_opt prepare_ref (st_maps st' (ref_target s t)) rv = PyOk rv' /\
    prepare_opt prepare_reflist (st_maps st' (list_target s t)) lv = PyOk lv' /\
    st_doc st' = set_table (st_doc st) t (fold_left put_row (new_rows out rv' lv') (get_table (st_doc st) t)).
Proof.
  intros s st t ids rv lv st' r H. cbn [step] in H.
  destruct (alloc (next_row_id (table_ids (get_table (st_doc st) t))) ids) as [out|] eqn:Hf; [|discriminate].
  destruct (prepare_opt prepare_ref _ rv) as [rv'|] eqn:Hr; [|discriminate].
  destruct (prepare_opt prepare_reflist _ lv) as [lv'|] eqn:Hl; [|discriminate].
  destruct (existsb _ out); [discriminate|]. inversion H; subst. cbn [st_maps st_doc].
  exists out, rv', lv'. repeat split; assumption.
Qed.

Lemma step_other_maps : forall s st a st' r,
  step s st a = PyOk (st', r) -> (forall t ids rv lv, a <> AAdd t ids rv lv) ->
  st_maps st' = st_maps st /\ r = RetNone.
Proof.
  intros s st a st' r H Hna. destruct a as [t ids rv lv|t ids rv lv|t ids].
  - exfalso. eapply Hna. reflexivity.
  - cbn [step] in H. destruct (prepare_opt prepare_ref _ _); [|discriminate].
    destruct (prepare_opt prepare_reflist _ _); [|discriminate].
    destruct (existsb _ _); [discriminate|]. inversion H; subst. split; reflexivity.
  - cbn [step] in H. inversion H; subst. split; reflexivity.
Qed.

(* the map the engine holds for a table after a bundle prefix is exactly the prefix's history of adds *)
Lemma run_maps : forall s acts st st' rets,
  run s st acts = PyOk (st', rets) ->
  forall t, st_maps st' t = rev (bundle_pairs acts rets t) ++ st_maps st t.
Proof.
  induction acts as [|a acts IH]; intros st st' rets H t.
  - cbn in H. inversion H; subst. reflexivity.
  - cbn [run] in H. destruct (step s st a) as [[st1 r]|] eqn:Hs; [|discriminate].
    destruct (run s st1 acts) as [[st2 rs]|] eqn:Hr; [|discriminate]. inversion H; subst.
    rewrite (IH _ _ _ Hr t). destruct a as [t' ids rv lv|t' ids rv lv|t' ids].
    + destruct (step_add_inv _ _ _ _ _ _ _ _ Hs) as [out [rv' [lv' [_ [-> [Hm _]]]]]].
      cbn [bundle_pairs]. rewrite Hm. unfold set_map. rewrite (Z.eqb_sym t t').
      destruct (t' =? t) eqn:Ht.
      * apply Z.eqb_eq in Ht. subst t'. rewrite map_update_pairs, rev_app_distr, <- app_assoc. reflexivity.
      * reflexivity.
    + destruct (step_other_maps _ _ _ _ _ Hs) as [-> ->]; [intros; discriminate|]. reflexivity.
    + destruct (step_other_maps _ _ _ _ _ Hs) as [-> ->]; [intros; discriminate|]. reflexivity.
Qed.

Lemma step_wf : forall s st a st' r, wf_maps (st_maps st) -> step s st a = PyOk (st', r) -> wf_maps (st_maps st').
Proof.
  intros s st a st' r Hwf H. destruct a as [t ids rv lv|t ids rv lv|t ids].
  - destruct (step_add_inv _ _ _ _ _ _ _ _ H) as [out [rv' [lv' [Hf [_ [Hm _]]]]]]. rewrite Hm.
    intros t'. unfold set_map. destruct (t' =? t); [|apply Hwf].
    rewrite map_update_pairs. apply wf_tmap_app; [|apply Hwf]. apply wf_tmap_rev.
    eapply alloc_pairs_wf; [apply next_row_id_pos|eassumption].
  - destruct (step_other_maps _ _ _ _ _ H) as [-> _]; [intros; discriminate|assumption].
  - destruct (step_other_maps _ _ _ _ _ H) as [-> _]; [intros; discriminate|assumption].
Qed.

Lemma run_wf : forall s acts st st' rets, wf_maps (st_maps st) -> run s st acts = PyOk (st', rets) ->
  wf_maps (st_maps st').
Proof.
  induction acts as [|a acts IH]; intros st st' rets Hwf H.
  - cbn in H. inversion H; subst. assumption.
  - cbn [run] in H. destruct (step s st a) as [[st1 r]|] eqn:Hs; [|discriminate].
    destruct (run s st1 acts) as [[st2 rs]|] eqn:Hr; [|discriminate]. inversion H; subst.
    eapply IH; [eapply step_wf; eassumption|eassumption].
Qed.

Lemma wf_no_maps : wf_maps no_maps.
Proof. intros t. constructor. Qed.

(* an update / a removal naming temporary ids is the update / removal of the rows they stand for *)
Lemma step_update_resolved : forall s st t ids rv lv, wf_maps (st_maps st) ->
  step s st (AUpdate t ids rv lv) = step s st (AUpdate t (translate (st_maps st t) ids) rv lv).
Proof. intros s st t ids rv lv Hwf. cbn [step]. rewrite (translate_idempotent _ _ (Hwf t)). reflexivity. Qed.

Lemma step_remove_resolved : forall s st t ids, wf_maps (st_maps st) ->
  step s st (ARemove t ids) = step s st (ARemove t (translate (st_maps st t) ids)).
Proof. intros s st t ids Hwf. cbn [step]. rewrite (translate_idempotent _ _ (Hwf t)). reflexivity. Qed.

(* the rows a temporary id stands for exist right after the add *)
Lemma get_set_table : forall d t tb, In t (map fst d) -> get_table (set_table d t tb) t = tb.
Proof.
  induction d as [|[t' x] d IH]; intros t tb Hin; [contradiction|].
  cbn [set_table map fst]. destruct (Z.eqb_spec t' t) as [->|Hne]; cbn [get_table fst].
  - rewrite Z.eqb_refl. reflexivity.
  - destruct (Z.eqb_spec t' t); [contradiction|]. apply IH. destruct Hin as [E|Hin]; [contradiction|assumption].
Qed.

Lemma put_row_ids : forall tb r i, In i (table_ids (put_row tb r)) <-> In i (table_ids tb) \/ (i = r_id r /\ 0 < i).
Proof.
  intros tb r i. unfold put_row. destruct (0 <? r_id r) eqn:Hp.
  - apply Z.ltb_lt in Hp. destruct (py_mem Z.eqb (r_id r) (table_ids tb)) eqn:Hm.
    + assert (E : table_ids (map (fun x => if r_id x =? r_id r then r else x) tb) = table_ids tb).
      { unfold table_ids. rewrite map_map. apply map_ext. intros x. destruct (Z.eqb_spec (r_id x) (r_id r)); congruence. }
      rewrite E. apply mem_In in Hm. split; [tauto|]. intros [H|[-> _]]; assumption.
    + unfold table_ids. rewrite map_app, in_app_iff. cbn [map In]. split.
      * intros [H|[H|[]]]; [tauto|]. right. split; [congruence|lia].
      * intros [H|[-> _]]; [tauto|]. right. left. reflexivity.
  - apply Z.ltb_ge in Hp. split; [tauto|]. intros [H|[-> H]]; [assumption|lia].
Qed.

Lemma put_rows_ids : forall rs tb i,
  In i (table_ids (fold_left put_row rs tb)) <-> In i (table_ids tb) \/ (In i (map r_id rs) /\ 0 < i).
Proof.
  induction rs as [|r rs IH]; intros tb i; cbn [fold_left map In].
  - tauto.
  - rewrite IH, put_row_ids. split.
    + intros [[H|[-> H]]|[H1 H2]]; [tauto| |tauto]. right. split; [left; reflexivity|assumption].
    + intros [H|[[E|H1] H2]]; [tauto| |tauto]. left. right. split; [congruence|assumption].
Qed.

Lemma new_rows_ids : forall ids rv lv, map r_id (new_rows ids rv lv) = ids.
Proof.
  induction ids as [|i ids IH]; intros rv lv; [reflexivity|]. cbn [new_rows map r_id]. rewrite IH. reflexivity.
Qed.

Lemma alloc_auto_positive : forall req n out i a f, 1 <= n -> alloc n req = PyOk out ->
  nth_error req i = Some (Some a) -> a < 0 -> nth_error out i = Some f -> 0 < f.
Proof.
  intros req n out i a f Hn Hf Hr Ha Ho. pose proof (alloc_shape _ _ _ Hn Hf) as Hsh. clear Hf. revert i Hr Ho.
  induction Hsh as [|r o req' out' Hro _ IH]; intros i Hr Ho; [destruct i; discriminate|].
  destruct i as [|i]; cbn [nth_error] in Hr, Ho; [|eapply IH; eassumption].
  inversion Hr; inversion Ho; subst. cbn [explicit] in Hro.
  replace (a <? 0) with true in Hro by (symmetry; apply Z.ltb_lt; assumption). lia.
Qed.

Lemma add_then_translate : forall s st t ids rv lv st' out i a f,
  In t (map fst (st_doc st)) ->
  step s st (AAdd t ids rv lv) = PyOk (st', RetIds out) ->
  nth_error ids i = Some (Some a) -> a < 0 -> nth_error out i = Some f ->
  (forall j, (i < j)%nat -> nth_error ids j <> Some (Some a)) ->
  translate (st_maps st' t) [a] = [f] /\ row_in f (table_ids (get_table (st_doc st') t)) = true.
Proof.
  intros s st t ids rv lv st' out i a f Hin H Hi Ha Ho Hlast.
  destruct (step_add_inv _ _ _ _ _ _ _ _ H) as [out' [rv' [lv' [Hf [E [Hm [_ [_ Hd]]]]]]]].
  inversion E; subst out'. split.
  - rewrite Hm. unfold set_map. rewrite Z.eqb_refl. eapply translate_after_update; eassumption.
  - rewrite Hd, get_set_table by assumption.
    assert (Hp : 0 < f) by (eapply alloc_auto_positive; [apply next_row_id_pos|eassumption..]).
    unfold row_in. apply andb_true_iff. split; [apply Z.ltb_lt; assumption|]. apply mem_In.
    apply put_rows_ids. right. rewrite new_rows_ids. split; [eapply nth_error_In; eassumption|assumption].
Qed.

(* bundle level: in every state reached from a fresh ActionSummary, a temporary id resolves to the id returned
   for its last occurrence in the adds of the prefix -- stated on the actions and their retValues *)
Lemma bundle_last_mapping_wins : forall s d acts st rets t a f,
  run s (mkstate d no_maps) acts = PyOk (st, rets) ->
  (lookup a (st_maps st t) = Some f <-> last_pair (bundle_pairs acts rets t) a f).
Proof.
  intros s d acts st rets t a f H. rewrite (run_maps _ _ _ _ _ H t). cbn [st_maps]. unfold no_maps.
  rewrite app_nil_r. apply lookup_rev_last.
Qed.

Lemma bundle_unmapped : forall s d acts st rets t a,
  run s (mkstate d no_maps) acts = PyOk (st, rets) ->
  (lookup a (st_maps st t) = None <-> ~ In a (keys (bundle_pairs acts rets t))).
Proof.
  intros s d acts st rets t a H. rewrite (run_maps _ _ _ _ _ H t). cbn [st_maps]. unfold no_maps.
  rewrite app_nil_r, lookup_none, keys_rev. tauto.
Qed.

Lemma bundle_wf : forall s d acts st rets,
  run s (mkstate d no_maps) acts = PyOk (st, rets) -> wf_maps (st_maps st).
Proof. intros s d acts st rets H. eapply run_wf; [|eassumption]. exact wf_no_maps. Qed.
