(* Crash points inside the undo-first action [Bulk]AddRecord, and the run-level theorem covering them. *)
From stdpp Require Import gmap sorting.
Require Import Grist.Model.Rollback Grist.Proofs.Rollback_proofs Grist.Proofs.Rollback_actions Grist.Proofs.Rollback_undo Grist.Proofs.Rollback_run.
Open Scope Z_scope.

(* ---------------------------------------------------------------------------------------------------------- *)
(* crash points INSIDE the undo-first action BulkAddRecord *)

(* BulkRemoveRecord t rows gives d back from any document in which table t has some of the rows added (the set A)
   and cells written only on added rows *)
Lemma remove_restores_partial ord d t tb sc rows tbk (A R : gset rowid) :
  wf d -> d_tables d !! t = Some tb -> d_schema d !! t = Some sc ->
  Forall (fun r => r ∉ t_rows tb) rows ->
  t_rows tbk = t_rows tb ∪ A -> (forall r, r ∈ A -> r ∈ rows) ->
  dom (t_cols tbk) = dom (t_cols tb) ->
  (forall c col colk, t_cols tb !! c = Some col -> t_cols tbk !! c = Some colk ->
     c_info colk = c_info col /\ wf_col R colk /\ forall r, r ∉ A -> cget colk r = cget col r) ->
  apply_doc ord (tset t tbk d) (BulkRemoveRecord t rows) = Some d.
Proof.
  intros Hw Ht Hs Hr Hrows HA Hdom Hcols. assert (Hwt : wf_table sc tb) by (eapply wf_lookup; eauto).
  rewrite Forall_forall in Hr.
  rewrite apply_doc_unfold. simpl normalize. rewrite (exec_remove_ok ord (tset t tbk d) t tbk) by apply tset_lookup.
  remember (filter (fun r => r ∈ t_rows tbk) rows) as rows' eqn:Erows'.
  assert (Hin' : forall r, r ∈ rows' <-> r ∈ A /\ r ∈ rows).
  { intros r. rewrite Erows'. rewrite elem_of_list_filter, Hrows, elem_of_union. split.
    - intros [[Hx|Hx] Hin]; [exfalso; exact (Hr r Hin Hx)|auto].
    - intros [H1 H2]. auto. }
  set (R' := R ∪ list_to_set rows).
  assert (Hgoal : forall tbx, t_rows tbx = t_rows tb -> dom (t_cols tbx) = dom (t_cols tb) ->
            (forall c col colx, t_cols tb !! c = Some col -> t_cols tbx !! c = Some colx ->
               c_info colx = c_info col /\ wf_col R' colx /\ forall r, cget colx r = cget col r) ->
            tset t tbx (tset t tbk d) = d).
  { intros tbx H1 H2 H3. rewrite tset_tset. apply tset_id. rewrite Ht. f_equal. symmetry.
    exact (table_restore sc tb tbx R' Hwt H1 H2 H3). }
  clear Erows'. destruct rows' as [|r0 rows0] eqn:E.
  - simpl. f_equal. rewrite <- (tset_id t tbk (tset t tbk d)) by apply tset_lookup. apply Hgoal.
    + rewrite Hrows. apply set_eq. intros r. rewrite elem_of_union. split; [intros [?|Hx]; [assumption|]|auto].
      exfalso. assert (Hn : r ∈ @nil rowid) by (apply Hin'; auto). inversion Hn.
    + exact Hdom.
    + intros c col colx Hc Hx. destruct (Hcols _ _ _ Hc Hx) as (H1 & H2 & H3). split; [exact H1|].
      split; [eapply wf_col_mono; [exact H2|unfold R'; set_solver]|].
      intros r. apply H3. intros Hx'. assert (Hn : r ∈ @nil rowid) by (apply Hin'; auto). inversion Hn.
  - cbv iota. rewrite <- E in *. clear E. simpl. f_equal. apply Hgoal.
    + unfold remove_tb. rewrite write_cols_rows. simpl. rewrite Hrows. apply set_eq. intros r.
      rewrite elem_of_difference, elem_of_union, in_l2s, Hin'. split.
      * intros [[?|Hx] Hn]; [assumption|]. exfalso. apply Hn. auto.
      * intros Hx. split; [left; exact Hx|]. intros [_ Hin]. exact (Hr r Hin Hx).
    + unfold remove_tb. rewrite write_cols_dom. exact Hdom.
    + intros c col colx Hc Hx. unfold remove_tb in Hx. rewrite write_cols_lookup in Hx. simpl in Hx.
      destruct (t_cols tbk !! c) as [colk|] eqn:Hk; [|discriminate]. simpl in Hx. injection Hx as <-.
      destruct (Hcols _ _ _ Hc Hk) as (H1 & H2 & H3). destruct (wf_table_col _ _ _ _ Hwt Hc) as [_ Hwc].
      split; [rewrite col_writes_info; exact H1|]. split.
      { apply col_writes_wf; [eapply wf_col_mono; [exact H2|unfold R'; set_solver]|].
        intros r Hin. unfold R'. apply elem_of_union. right. apply in_l2s. apply Hin'. exact Hin. }
      intros r. destruct (decide (r ∈ rows')) as [Hin|Hnin]; [|rewrite col_writes_other by exact Hnin].
      * rewrite (col_writes_restores c rows' (fun _ => cdefault col)); [| | |exact Hin].
        -- symmetry. apply (cget_default_notin (t_rows tb) _ _ Hwc). apply Hr. apply Hin'. exact Hin.
        -- eapply unset_values_fst; [eapply cols_in_order_complete; exact Hk|exact Hk].
        -- intros cv Hcv Hcv1. apply unset_values_in in Hcv as (colz & Hz & ->). rewrite Hcv1, Hk in Hz. injection Hz as <-.
           unfold cdefault. rewrite H1. reflexivity.
      * apply H3. intros HA'. destruct (decide (r ∈ rows)) as [Hrr|Hrr]; [apply Hnin; apply Hin'; auto|exact (Hrr (HA r HA'))].
Qed.

Lemma app_prefix_cases {X} (l rest a b : list X) :
  l ++ rest = a ++ b -> (exists m, a = l ++ m /\ rest = m ++ b) \/ (exists m, l = a ++ m /\ b = m ++ rest).
Proof.
  revert a. induction l as [|x l IH]; intros a H; simpl in H.
  - left. exists a. auto.
  - destruct a as [|y a]; simpl in H.
    + right. exists (x :: l). subst b. auto.
    + injection H as -> H. destruct (IH _ H) as [(m & -> & ->)|(m & -> & ->)]; [left|right]; exists m; auto.
Qed.

Lemma map_prefix {X Y} (f : X -> Y) (xs : list X) l m : l ++ m = map f xs -> l = map f (take (length l) xs).
Proof.
  revert xs. induction l as [|y l IH]; intros xs H; [reflexivity|]. destruct xs as [|x xs]; [discriminate|].
  simpl in H. injection H as -> H. simpl. f_equal. apply IH. exact H.
Qed.

(* steps that only write cells of rows in `rows` of table t *)
Definition cellstep (t : name) (rows : list rowid) (m : mstep) : Prop :=
  exists c r v, m = MSetCell t c r v /\ r ∈ rows.

Definition CellPres (rows : list rowid) (F : table -> table) : Prop :=
  forall tb, t_rows (F tb) = t_rows tb /\ dom (t_cols (F tb)) = dom (t_cols tb) /\
    forall c col colk, t_cols tb !! c = Some col -> t_cols (F tb) !! c = Some colk ->
      c_info colk = c_info col /\
      (forall R, wf_col R col -> (forall r, r ∈ rows -> r ∈ R) -> wf_col R colk) /\
      forall r, r ∉ rows -> cget colk r = cget col r.

Lemma CellPres_id rows : CellPres rows (fun tb => tb).
Proof. intros tb. split; [reflexivity|]. split; [reflexivity|]. intros c col colk H1 H2. assert (colk = col) by congruence. subst. auto. Qed.

Lemma CellPres_step rows c r v : r ∈ rows -> CellPres rows (upd_col c (fun col => cset col r v)).
Proof.
  intros Hr tb. split; [reflexivity|]. split; [unfold upd_col; simpl; apply dom_alter_L|].
  intros c0 col colk H1 H2. unfold upd_col in H2. simpl in H2. destruct (decide (c0 = c)) as [->|Hne].
  - rewrite lookup_alter, H1 in H2. simpl in H2. injection H2 as <-. split; [reflexivity|]. split.
    + intros R Hw HR. apply wf_col_cset; auto.
    + intros r' Hr'. rewrite cget_cset. rewrite decide_False by (intros ->; contradiction). reflexivity.
  - rewrite lookup_alter_ne in H2 by auto. assert (colk = col) by congruence. subst. auto.
Qed.

Lemma CellPres_compose rows F G : CellPres rows F -> CellPres rows G -> CellPres rows (fun tb => G (F tb)).
Proof.
  intros HF HG tb. destruct (HF tb) as (F1 & F2 & F3). destruct (HG (F tb)) as (G1 & G2 & G3).
  split; [congruence|]. split; [congruence|]. intros c col colk H1 H2.
  assert (Hin : c ∈ dom (t_cols (F tb))) by (rewrite F2; apply elem_of_dom; eauto).
  apply elem_of_dom in Hin as [colm Hm].
  destruct (F3 _ _ _ H1 Hm) as (A1 & A2 & A3). destruct (G3 _ _ _ Hm H2) as (B1 & B2 & B3).
  split; [congruence|]. split; [intros R Hw HR; apply B2; auto|]. intros r Hr. rewrite B3, A3 by exact Hr. reflexivity.
Qed.

Lemma exec_cellsteps t rows l : Forall (cellstep t rows) l -> forall st,
  exists F, CellPres rows F /\ exec_all st l = Some (on_doc (upd_table t F) st).
Proof.
  induction 1 as [|m l (c & r & v & -> & Hr) _ IH]; intros st.
  - exists (fun tb => tb). split; [apply CellPres_id|]. simpl. f_equal. symmetry. apply on_doc_upd_table_id. reflexivity.
  - simpl. destruct (IH (on_doc (upd_table t (upd_col c (fun col => cset col r v))) st)) as (F & HF & Hex).
    exists (fun tb => F (upd_col c (fun col => cset col r v) tb)). split; [apply CellPres_compose; [apply CellPres_step; exact Hr|exact HF]|].
    rewrite Hex. f_equal. rewrite on_doc_on_doc. unfold on_doc. simpl. f_equal. apply upd_table_compose.
Qed.

Lemma cell_steps_cellstep t rows known m : m ∈ concat (map (cell_steps t rows) known) -> cellstep t rows m.
Proof.
  intros H. apply elem_of_list_In, in_concat in H as (l & Hl & Hm). apply in_map_iff in Hl as (cv & <- & _).
  unfold cell_steps in Hm. apply in_map_iff in Hm as ([r v] & <- & Hrv). exists cv.1, r, v. split; [reflexivity|].
  apply elem_of_list_In in Hrv. eapply zip_fst_in. apply elem_of_list_fmap. exists (r, v). split; [reflexivity|exact Hrv].
Qed.

Lemma add_prefix ord d t tb sc rows vals u p l rest st' :
  wf d -> d_tables d !! t = Some tb -> d_schema d !! t = Some sc ->
  steps_of ord d (BulkAddRecord t rows vals) = l ++ rest -> l ≠ [] ->
  exec_all (MState d u p None) l = Some st' ->
  ms_saved st' = None /\ ms_pending st' = p /\ ms_undo st' = u ++ [BulkRemoveRecord t rows] /\
  apply_doc ord (ms_doc st') (BulkRemoveRecord t rows) = Some d.
Proof.
  intros Hw Ht Hs Hsteps Hl Hex. assert (Hwt : wf_table sc tb) by (eapply wf_lookup; eauto).
  unfold steps_of in Hsteps. rewrite Ht in Hsteps.
  destruct (bool_decide (Exists _ rows)) eqn:Er.
  { destruct l as [|m l]; [contradiction|]. simpl in Hsteps. injection Hsteps as <- _. simpl in Hex. discriminate. }
  apply bool_decide_eq_false in Er. assert (Hr : Forall (fun r => r ∉ t_rows tb) rows).
  { apply Forall_forall. intros r Hin Hmem. apply Er. apply Exists_exists. eauto. }
  assert (Hbase : forall tbk (A R : gset rowid),
            t_rows tbk = t_rows tb ∪ A -> (forall r, r ∈ A -> r ∈ rows) -> dom (t_cols tbk) = dom (t_cols tb) ->
            (forall c col colk, t_cols tb !! c = Some col -> t_cols tbk !! c = Some colk ->
               c_info colk = c_info col /\ wf_col R colk /\ forall r, r ∉ A -> cget colk r = cget col r) ->
            apply_doc ord (tset t tbk d) (BulkRemoveRecord t rows) = Some d).
  { intros. eapply remove_restores_partial; eauto. }
  destruct l as [|m1 l1]; [contradiction|]. simpl in Hsteps. injection Hsteps as <- Hsteps. simpl in Hex.
  destruct l1 as [|m2 l2].
  { injection Hex as <-. simpl. do 3 (split; [reflexivity|]). rewrite <- (tset_id t tb d Ht) at 1.
    apply (Hbase tb ∅ (t_rows tb)); [set_solver|set_solver|reflexivity|].
    intros c col colk H1 H2. assert (colk = col) by congruence. subst colk. split; [reflexivity|]. split; [exact (proj2 (wf_table_col _ _ _ _ Hwt H1))|auto]. }
  simpl in Hsteps. injection Hsteps as <- Hsteps. simpl in Hex.
  unfold add_records_steps in Hsteps. simpl in Hsteps.
  set (known := known_prefix tb vals) in *.
  set (tailx := if bool_decide (length known = length vals) then [] else [MFail]) in *.
  destruct (app_prefix_cases _ _ _ _ (eq_sym Hsteps)) as [(m & Hm & Hrest)|(m & Hm & Hrest)].
  - (* still adding rows *)
    pose proof (map_prefix _ _ _ _ (eq_sym Hm)) as Hl2. set (rows2 := take (length l2) rows) in *.
    rewrite Hl2 in Hex. rewrite <- (app_nil_r (map _ rows2)) in Hex. rewrite exec_add_rows in Hex. simpl in Hex. injection Hex as <-.
    simpl. do 3 (split; [reflexivity|]). rewrite (upd_table_tset _ _ _ _ Ht).
    apply (Hbase _ (list_to_set rows2) (t_rows tb)); simpl.
    + set_solver.
    + intros r Hx. apply in_l2s in Hx. unfold rows2 in Hx. exact (elem_of_submseteq _ _ _ Hx (submseteq_take _ _)).
    + reflexivity.
    + intros c col colk H1 H2. assert (colk = col) by congruence. subst colk. split; [reflexivity|]. split; [exact (proj2 (wf_table_col _ _ _ _ Hwt H1))|auto].
  - (* all rows added, writing cells *)
    subst l2. rewrite exec_add_rows in Hex.
    assert (Hcells : Forall (cellstep t rows) m).
    { apply Forall_forall. intros x Hx. assert (Hx' : x ∈ concat (map (cell_steps t rows) known) ++ tailx) by (rewrite Hrest; apply elem_of_app; left; exact Hx).
      apply elem_of_app in Hx' as [Hx'|Hx']; [eapply cell_steps_cellstep; exact Hx'|].
      exfalso. unfold tailx in Hx'. destruct (bool_decide _); [inversion Hx'|]. apply elem_of_list_singleton in Hx'. subst x.
      rewrite <- (app_nil_r m) in Hex. rewrite exec_all_fail in Hex; [discriminate|]. apply elem_of_list_In. exact Hx. }
    destruct (exec_cellsteps t rows m Hcells (on_doc (upd_table t (set_rows (fun rs => list_to_set rows ∪ rs)))
               (MState d (u ++ [BulkRemoveRecord t rows]) p None))) as (F & HF & HexF).
    rewrite HexF in Hex. injection Hex as <-. simpl. do 3 (split; [reflexivity|]).
    rewrite upd_table_compose, (upd_table_tset _ _ _ _ Ht).
    set (tb1 := set_rows (fun rs => list_to_set rows ∪ rs) tb).
    destruct (HF tb1) as (F1 & F2 & F3).
    apply (Hbase _ (list_to_set rows) (t_rows tb1)).
    + rewrite F1. unfold tb1. simpl. set_solver.
    + intros r Hx. apply in_l2s. exact Hx.
    + rewrite F2. reflexivity.
    + intros c col colk H1 H2. destruct (F3 c col colk H1 H2) as (A1 & A2 & A3). split; [exact A1|]. split.
      * apply A2; [eapply wf_col_mono; [exact (proj2 (wf_table_col _ _ _ _ Hwt H1))|unfold tb1; simpl; set_solver]|].
        intros r Hx. unfold tb1. simpl. apply elem_of_union. left. apply in_l2s. exact Hx.
      * intros r Hx. apply A3. intros Hy. apply Hx. apply in_l2s. exact Hy.
Qed.

(* ---------------------------------------------------------------------------------------------------------- *)
(* BulkUpdateRecord (undo-first since 6f648c6): every crash point inside it is rolled back by the undo it appended *)
Definition cellstep2 (t : name) (rows : list rowid) (cs : list name) (m : mstep) : Prop :=
  exists c r v, m = MSetCell t c r v /\ r ∈ rows /\ c ∈ cs.

Definition CellPres2 (rows : list rowid) (cs : list name) (F : table -> table) : Prop :=
  CellPres rows F /\ forall tb c, c ∉ cs -> t_cols (F tb) !! c = t_cols tb !! c.

Lemma exec_cellsteps2 t rows cs l : Forall (cellstep2 t rows cs) l -> forall st,
  exists F, CellPres2 rows cs F /\ exec_all st l = Some (on_doc (upd_table t F) st).
Proof.
  induction 1 as [|m l (c & r & v & -> & Hr & Hc) _ IH]; intros st.
  - exists (fun tb => tb). split; [split; [apply CellPres_id|reflexivity]|]. simpl. f_equal. symmetry. apply on_doc_upd_table_id. reflexivity.
  - simpl. destruct (IH (on_doc (upd_table t (upd_col c (fun col => cset col r v))) st)) as (F & [HF1 HF2] & Hex).
    exists (fun tb => F (upd_col c (fun col => cset col r v) tb)). split.
    + split; [apply CellPres_compose; [apply CellPres_step; exact Hr|exact HF1]|].
      intros tb c0 Hc0. rewrite HF2 by exact Hc0. unfold upd_col. simpl. apply lookup_alter_ne. intros ->. contradiction.
    + rewrite Hex. f_equal. rewrite on_doc_on_doc. unfold on_doc. simpl. f_equal. apply upd_table_compose.
Qed.

Lemma cell_steps_cellstep2 t rows vals m :
  m ∈ concat (map (cell_steps t rows) vals) -> cellstep2 t rows vals.*1 m.
Proof.
  intros H. apply elem_of_list_In, in_concat in H as (l & Hl & Hm). apply in_map_iff in Hl as (cv & <- & Hcv).
  unfold cell_steps in Hm. apply in_map_iff in Hm as ([r v] & <- & Hrv). exists cv.1, r, v. split; [reflexivity|]. split.
  - apply elem_of_list_In in Hrv. eapply zip_fst_in. apply elem_of_list_fmap. exists (r, v). split; [reflexivity|exact Hrv].
  - apply elem_of_list_fmap. exists cv. split; [reflexivity|apply elem_of_list_In; exact Hcv].
Qed.

Theorem update_prefix ord d t rows vals u p l rest st' :
  wf d -> steps_of ord d (BulkUpdateRecord t rows vals) = l ++ rest -> l ≠ [] ->
  exec_all (MState d u p None) l = Some st' ->
  exists a, ms_undo st' = u ++ [a] /\ ms_pending st' = p /\ ms_saved st' = None /\
            apply_doc ord (ms_doc st') a = Some d.
Proof.
  intros Hw Hsteps Hl Hex. unfold steps_of in Hsteps.
  destruct (d_tables d !! t) as [tb|] eqn:Ht.
  2: { destruct l as [|m l]; [contradiction|]. simpl in Hsteps. injection Hsteps as <- _. simpl in Hex. discriminate. }
  destruct (wf_schema_of_table _ _ _ Hw Ht) as (sc & Hs & Hwt).
  destruct (bool_decide (Forall _ rows)) eqn:Er.
  2: { destruct l as [|m l]; [contradiction|]. simpl in Hsteps. injection Hsteps as <- _. simpl in Hex. discriminate. }
  apply bool_decide_eq_true in Er. unfold update_steps in Hsteps.
  destruct (bool_decide (length (known_prefix tb vals) = length vals)) eqn:Ek.
  2: { destruct l as [|m l]; [contradiction|]. simpl in Hsteps. injection Hsteps as <- _. simpl in Hex. discriminate. }
  apply bool_decide_eq_true in Ek. apply known_prefix_len in Ek.
  fold (update_undo tb rows vals) in Hsteps.
  destruct l as [|m1 m]; [contradiction|]. simpl in Hsteps. injection Hsteps as <- Hsteps. simpl in Hex.
  assert (Hcells : Forall (cellstep2 t rows vals.*1) m).
  { apply Forall_forall. intros x Hx. apply cell_steps_cellstep2. rewrite Hsteps. apply elem_of_app. left. exact Hx. }
  destruct (exec_cellsteps2 t rows vals.*1 m Hcells (MState d (u ++ [BulkUpdateRecord t rows (update_undo tb rows vals)]) p None))
    as (F & [HF1 HF2] & HexF).
  rewrite HexF in Hex. injection Hex as <-. eexists. split; [reflexivity|]. split; [reflexivity|]. split; [reflexivity|].
  simpl. rewrite (upd_table_tset _ _ _ _ Ht). destruct (HF1 tb) as (F1 & F2 & F3).
  assert (Hrin : forall r, r ∈ rows -> r ∈ t_rows tb) by (intros r; rewrite Forall_forall in Er; apply Er).
  rewrite apply_doc_unfold. simpl normalize.
  rewrite (exec_update_ok ord (tset t (F tb) d) t (F tb)); [|apply tset_lookup|rewrite F1; exact Er|].
  2: { apply Forall_forall. intros cv Hcv. apply update_undo_in in Hcv as (col & Hc & _). unfold known.
       assert (Hin : cv.1 ∈ dom (t_cols (F tb))) by (rewrite F2; apply elem_of_dom; eauto). apply elem_of_dom in Hin. exact Hin. }
  simpl. f_equal. rewrite tset_tset. apply tset_id. rewrite Ht. f_equal. symmetry.
  apply (table_restore sc tb _ (t_rows tb) Hwt).
  - rewrite write_cols_rows. exact F1.
  - rewrite write_cols_dom. exact F2.
  - intros c col col2 Hc H2. rewrite write_cols_lookup in H2.
    destruct (t_cols (F tb) !! c) as [colk|] eqn:Hk; [|discriminate]. simpl in H2. injection H2 as <-.
    destruct (F3 c col colk Hc Hk) as (A1 & A2 & A3). destruct (wf_table_col _ _ _ _ Hwt Hc) as [_ Hwc].
    split; [rewrite col_writes_info; exact A1|]. split; [apply col_writes_wf; [apply A2; assumption|exact Hrin]|].
    intros r. destruct (decide (r ∈ rows)) as [Hin|Hnin]; [|rewrite col_writes_other by exact Hnin; apply A3; exact Hnin].
    destruct (decide (c ∈ vals.*1)) as [Hcv|Hcv].
    + apply (col_writes_restores c rows (cget col)); [rewrite update_undo_fst by exact Ek; exact Hcv| |exact Hin].
      intros cv Hcvin Hcv1. apply update_undo_in in Hcvin as (col0 & Hc0 & ->). rewrite Hcv1, Hc in Hc0. congruence.
    + rewrite col_writes_notin by (rewrite update_undo_fst by exact Ek; exact Hcv).
      rewrite (HF2 tb c Hcv), Hc in Hk. injection Hk as <-. reflexivity.
Qed.

Definition is_add_record (a : action) : Prop :=
  match a with AddRecord _ _ _ | BulkAddRecord _ _ _ => True | _ => False end.
Definition is_update_record (a : action) : Prop :=
  match a with UpdateRecord _ _ _ | BulkUpdateRecord _ _ _ => True | _ => False end.
(* the doc actions that append their undo before their first mutation *)
Definition is_undo_first (a : action) : Prop := is_add_record a \/ is_update_record a.

(* a crash point is covered when nothing but the schema clone has run in the current event, or the current event is
   one of the undo-first actions [Bulk]AddRecord, [Bulk]UpdateRecord (any point inside it) *)
Definition covered_point (cur : option event) (done : list mstep) : Prop :=
  Forall (fun m => m = MSave) done \/ exists a, cur = Some (EDoc a) /\ is_undo_first a.

Section Run2.
  Variable ord : name -> list name.
  Variable s0 : doc.
  Variable u0 : list action.

  Lemma rollback_inside_add st a l rest st' :
    Inv ord s0 u0 st -> is_add_record a ->
    event_steps ord (ms_doc st) (EDoc a) = l ++ rest -> exec_all st l = Some st' -> l ≠ [] ->
    rollback ord (length u0) st' = Some s0.
  Proof.
    intros (Hw & Hsv & ua & Hu & Hre) Ha Hsteps Hex Hl. simpl in Hsteps. unfold doc_steps in Hsteps.
    assert (exists t rows vals, normalize a = BulkAddRecord t rows vals) as (t & rows & vals & Hn)
      by (destruct a; try contradiction; simpl; eauto).
    rewrite Hn in Hsteps.
    destruct (d_tables (ms_doc st) !! t) as [tb|] eqn:Ht.
    2: { exfalso. unfold steps_of in Hsteps. rewrite Ht in Hsteps. destruct l as [|m l]; [contradiction|].
         simpl in Hsteps. injection Hsteps as <- _. simpl in Hex. discriminate. }
    destruct (wf_schema_of_table _ _ _ Hw Ht) as (sc & Hs & _).
    rewrite <- (mstate_eta st), Hsv in Hex.
    destruct (add_prefix ord _ t tb sc rows vals _ _ l rest st' Hw Ht Hs Hsteps Hl Hex) as (H1 & H2 & H3 & H4).
    unfold rollback, restore_schema. rewrite H1, H3, Hu, <- app_assoc, drop_app, rev_app_distr. simpl.
    rewrite H4. exact Hre.
  Qed.

  Lemma rollback_inside_update st a l rest st' :
    Inv ord s0 u0 st -> is_update_record a ->
    event_steps ord (ms_doc st) (EDoc a) = l ++ rest -> exec_all st l = Some st' -> l ≠ [] ->
    rollback ord (length u0) st' = Some s0.
  Proof.
    intros (Hw & Hsv & ua & Hu & Hre) Ha Hsteps Hex Hl. simpl in Hsteps. unfold doc_steps in Hsteps.
    assert (exists t rows vals, normalize a = BulkUpdateRecord t rows vals) as (t & rows & vals & Hn)
      by (destruct a; try contradiction; simpl; eauto).
    rewrite Hn in Hsteps. rewrite <- (mstate_eta st), Hsv in Hex.
    destruct (update_prefix ord _ t rows vals _ _ l rest st' Hw Hsteps Hl Hex) as (a' & H3 & H2 & H1 & H4).
    unfold rollback, restore_schema. rewrite H1, H3, Hu, <- app_assoc, drop_app, rev_app_distr. simpl.
    rewrite H4. exact Hre.
  Qed.

  Theorem rollback_covered es : forall st k st_k cur done,
    Inv ord s0 u0 st -> Forall no_replace_ev es ->
    run_until_crash ord st es k = Crashed st_k cur done ->
    ms_pending st_k = [] -> covered_point cur done ->
    rollback ord (length u0) st_k = Some s0.
  Proof.
    induction es as [|e es IH]; intros st k st_k cur done HI Hnr H Hp Hcov; simpl in H.
    - destruct k; [|discriminate]. injection H as <- <- <-. apply (rollback_inv ord s0 u0 st); auto. left. exact (proj1 (proj2 HI)).
    - inversion Hnr as [|? ? Hnr1 Hnr2]; subst.
      destruct (exec_upto st (event_steps ord (ms_doc st) e) k []) as [[st' dn] r] eqn:E.
      destruct (exec_upto_spec _ _ _ _ _ _ _ E) as (l & rest & Hdn & Hsteps & Hex & Hrest). simpl in Hdn. subst dn.
      destruct r as [k'|].
      + rewrite (Hrest (ltac:(eauto))), app_nil_r in Hsteps. subst l.
        destruct (run_pending _ _ _ _ _ _ _ H) as (p2 & Hp2). rewrite Hp in Hp2. symmetry in Hp2. apply app_eq_nil in Hp2 as [Hp' _].
        destruct (exec_all_pending _ _ _ Hex) as (p1 & Hp1). rewrite Hp' in Hp1. symmetry in Hp1. apply app_eq_nil in Hp1 as [Hp0 _].
        eapply IH; [eapply event_complete; eauto|exact Hnr2|exact H|exact Hp|exact Hcov].
      + injection H as <- <- <-. destruct Hcov as [Hdone|(a & [= ->] & Ha)].
        * destruct (exec_saves _ _ _ Hdone Hex) as (H1 & H2 & H3).
          apply (rollback_inv ord s0 u0 st); auto. rewrite (proj1 (proj2 HI)) in H3. exact H3.
        * destruct l as [|m l'] eqn:El.
          -- simpl in Hex. injection Hex as <-. apply (rollback_inv ord s0 u0 st); auto. left. exact (proj1 (proj2 HI)).
          -- rewrite <- El in *. destruct Ha as [Ha|Ha];
               [eapply rollback_inside_add|eapply rollback_inside_update]; eauto; rewrite El; discriminate.
  Qed.
End Run2.

Theorem rollback_partial_covered ord s u0 es k st cur done :
  wf s -> Forall no_replace_ev es ->
  run_until_crash ord (init_state s u0) es k = Crashed st cur done ->
  ms_pending st = [] -> covered_point cur done ->
  rollback ord (length u0) st = Some s.
Proof. intros Hw. apply rollback_covered. apply Inv_init. exact Hw. Qed.
