(* C25 -- the modelled migration bodies are total on type-correct documents (and what they emit applies). *)
From Coq Require Import ZArith Bool String List Lia.
Import ListNotations.
Require Import Grist.Model.Migrate Grist.Model.MigrateSites Grist.Model.MigrateBodies.
Require Import Grist.Proofs.Migrate_proofs.
Open Scope Z_scope.
Local Arguments zs : simpl never.

(* ---------- general: mapM, records ---------- *)
Lemma mapM_ok : forall {A B} (f : A -> res B) l,
  Forall (fun x => exists y, f x = Ok y) l -> exists ys, mapM f l = Ok ys /\ length ys = length l.
Proof.
  intros A B f l H. induction H as [|x l [y Hy] _ [ys [IH1 IH2]]]; cbn.
  - exists []. split; reflexivity.
  - rewrite Hy. cbn. rewrite IH1. cbn. exists (y :: ys). split; [reflexivity|cbn; congruence].
Qed.

Lemma mapM_fst : forall {A B} (g : A -> rid) (f : A -> res (rid * B)) l ys,
  (forall x y, f x = Ok y -> fst y = g x) -> mapM f l = Ok ys -> map fst ys = map g l.
Proof.
  intros A B g f l. induction l as [|x l IH]; intros ys Hf H; cbn in H.
  - injection H as <-. reflexivity.
  - destruct (f x) as [y|] eqn:E; cbn in H; [|discriminate].
    destruct (mapM f l) as [ys'|] eqn:E2; cbn in H; [|discriminate].
    injection H as <-. cbn. rewrite (Hf _ _ E), (IH ys' Hf eq_refl). reflexivity.
Qed.

Lemma transpose_ids : forall rows cols r, In r (transpose rows cols) -> In (fst r) rows.
Proof.
  induction rows as [|x rows IH]; intros cols r H; cbn in H; [contradiction|].
  destruct (heads cols) as [[hs ts]|]; [|contradiction].
  destruct H as [<-|H]; [left; reflexivity|right; eapply IH; exact H].
Qed.


(* every record of table t has field c, holding a value that satisfies P *)
Definition col_ok (P : val -> bool) (t c : str) (s : tds) : Prop :=
  Forall (fun r => exists v, fld c r = Ok v /\ P v = true) (recs t s).
Definition has_table (t : str) (s : tds) : Prop := exists td, lookup t (t_data s) = Some td.

Lemma table_records_ok : forall t s, has_table t s -> table_records t s = Ok (recs t s).
Proof. intros t s [td H]. unfold table_records, recs. rewrite H. reflexivity. Qed.

(* ---------- general: applying what the migrations emit ---------- *)
Lemma rid_eqb_eq : forall a b, rid_eqb a b = true <-> a = b.
Proof.
  intros [x|] [y|]; cbn; split; intro H; try discriminate; try reflexivity.
  - apply Z.eqb_eq in H. subst. reflexivity.
  - injection H as <-. apply Z.eqb_refl.
Qed.

Lemma last_index_none_not_in : forall r rows k, last_index r rows k = None -> ~ In r rows.
Proof.
  intros r rows. induction rows as [|x rows IH]; intros k H Hin; [contradiction|]. cbn in H.
  destruct (last_index r rows (S k)) eqn:E; [discriminate|].
  destruct (rid_eqb r x) eqn:Q; [discriminate|].
  destruct Hin as [->|Hin]; [rewrite rid_eqb_refl in Q; discriminate|]. exact (IH _ E Hin).
Qed.

Lemma last_index_bounds : forall r rows k i, last_index r rows k = Some i -> (k <= i < k + length rows)%nat.
Proof.
  intros r rows. induction rows as [|x rows IH]; intros k i H; cbn in H; [discriminate|]. cbn [length].
  destruct (last_index r rows (S k)) eqn:E.
  - injection H as ->. apply IH in E. lia.
  - destruct (rid_eqb r x); [injection H as ->; lia|discriminate].
Qed.

Lemma last_index_some : forall r rows k, In r rows ->
  exists i, last_index r rows k = Some i /\ (k <= i < k + length rows)%nat.
Proof.
  intros r rows k H. destruct (last_index r rows k) as [i|] eqn:E.
  - exists i. split; [reflexivity|eapply last_index_bounds; exact E].
  - exfalso. eapply last_index_none_not_in; eassumption.
Qed.

Lemma indices_of_ok : forall rs rows, Forall (fun r => In r rows) rs ->
  exists idx, indices_of rs rows = Ok idx /\ Forall (fun i => (i < length rows)%nat) idx.
Proof.
  intros rs rows H. induction H as [|r rs Hr _ [idx [IH1 IH2]]]; cbn.
  - exists []. split; [reflexivity|constructor].
  - destruct (last_index_some r rows 0 Hr) as [i [Hi Hb]]. rewrite Hi, IH1. cbn.
    exists (i :: idx). split; [reflexivity|constructor; [lia|exact IH2]].
Qed.

Lemma set_nth_ok : forall i v l, (i < length l)%nat -> exists l', set_nth i v l = Ok l' /\ length l' = length l.
Proof.
  induction i as [|i IH]; intros v l H; destruct l as [|x l]; cbn in *; try lia.
  - eexists. split; reflexivity.
  - destruct (IH v l) as [l' [E1 E2]]; [lia|]. rewrite E1. cbn. eexists. split; [reflexivity|cbn; congruence].
Qed.

Lemma set_many_ok : forall idx vs l, Forall (fun i => (i < length l)%nat) idx ->
  exists l', set_many idx vs l = Ok l' /\ length l' = length l.
Proof.
  induction idx as [|i idx IH]; intros vs l H; cbn.
  - exists l. split; reflexivity.
  - destruct vs as [|v vs]; [exists l; split; reflexivity|].
    inversion H as [|? ? Hi Hrest]; subst.
    destruct (set_nth_ok i v l Hi) as [l1 [E1 E2]]. rewrite E1. cbn.
    destruct (IH vs l1) as [l2 [E3 E4]]; [rewrite E2; exact Hrest|].
    exists l2. split; [exact E3|congruence].
Qed.

(* columns at least as long as the row list *)
Definition wide (n : nat) (cols : list (str * list val)) : Prop :=
  Forall (fun cv => (n <= length (snd cv))%nat) cols.

Lemma lookup_dset_cases : forall {V} u k (v : V) m,
  lookup u (dset k v m) = if seqb u k then Some v else lookup u m.
Proof.
  intros V u k v m. destruct (seqb u k) eqn:E.
  - apply seqb_eq in E. subst. apply lookup_dset_same.
  - apply lookup_dset_other. exact E.
Qed.

Lemma lookup_in : forall {V} k (m : list (str * V)) v, lookup k m = Some v -> In (k, v) m.
Proof.
  intros V k m v. induction m as [|[k' v'] m IH]; cbn; [discriminate|].
  destruct (seqb k k') eqn:E.
  - intro H. injection H as <-. apply seqb_eq in E. subst. left. reflexivity.
  - intro H. right. apply IH. exact H.
Qed.

Lemma wide_lookup : forall n cols c vs, wide n cols -> lookup c cols = Some vs -> (n <= length vs)%nat.
Proof.
  intros n cols c vs Hw H. unfold wide in Hw. rewrite Forall_forall in Hw.
  exact (Hw _ (lookup_in _ _ _ H)).
Qed.

Lemma forall_dset : forall {V} (P : str * V -> Prop) k v (m : list (str * V)),
  Forall P m -> (forall k', P (k', v)) -> Forall P (dset k v m).
Proof.
  intros V P k v m H Hv. induction H as [|[k' v'] m Hx Hm IH]; cbn.
  - constructor; [apply Hv|constructor].
  - destruct (seqb k k'); constructor; auto.
Qed.

Lemma forall_dpop : forall {V} (P : str * V -> Prop) k (m : list (str * V)), Forall P m -> Forall P (dpop k m).
Proof.
  intros V P k m H. induction H as [|[k' v'] m Hx Hm IH]; cbn; [constructor|].
  destruct (seqb k k'); [exact Hm|constructor; assumption].
Qed.

Lemma wide_dset : forall n cols c vs, wide n cols -> (n <= length vs)%nat -> wide n (dset c vs cols).
Proof. intros n cols c vs Hw Hl. apply forall_dset; [exact Hw|intros; exact Hl]. Qed.

Lemma update_cols_ok : forall n idx acols cols, wide n cols -> Forall (fun i => (i < n)%nat) idx ->
  exists cols', update_cols idx acols cols = Ok cols' /\ wide n cols'.
Proof.
  intros n idx acols. induction acols as [|[c vs] acols IH]; intros cols Hw Hi; cbn.
  - exists cols. split; [reflexivity|exact Hw].
  - destruct (lookup c cols) as [old|] eqn:E; [|apply IH; assumption].
    pose proof (wide_lookup _ _ _ _ Hw E) as Hlen.
    destruct (set_many_ok idx vs old) as [new [E1 E2]].
    { eapply Forall_impl; [|exact Hi]. cbn. intros i Hi'. lia. }
    rewrite E1. cbn. apply IH; [|exact Hi]. apply wide_dset; [exact Hw|lia].
Qed.

Definition rows_of (t : str) (s : tds) : list rid :=
  match lookup t (t_data s) with Some td => fst td | None => [] end.

(* the state invariant of a well-formed tdset: rectangular enough, and every table has a schema entry *)
Definition J (s : tds) : Prop :=
  forall t rows cols, lookup t (t_data s) = Some (rows, cols) ->
    wide (length rows) cols /\ exists sc, lookup t (t_schema s) = Some sc.

Definition ci_typed (ci : colinfo) : Prop := exists ty, lookup (zs "type") ci = Some (VStr ty).

(* actions that keep every row list as it is *)
Definition good (s : tds) (a : action) : Prop :=
  match a with
  | AddColumn t c ci => has_table t s /\ ci_typed ci
  | UpdateRecord t r _ => has_table t s /\ In r (rows_of t s)
  | BulkUpdateRecord t rs _ => has_table t s /\ Forall (fun r => In r (rows_of t s)) rs
  | _ => False
  end.

Definition same_shape (s s' : tds) : Prop :=
  (forall u, rows_of u s' = rows_of u s) /\ (forall u, has_table u s -> has_table u s').

Lemma bulk_update_good : forall t rs acols s, J s -> has_table t s -> Forall (fun r => In r (rows_of t s)) rs ->
  exists s', bulk_update t rs acols s = Ok s' /\ J s' /\ same_shape s s'.
Proof.
  intros t rs acols s HJ [[rows cols] Ht] Hrs. unfold bulk_update. rewrite Ht.
  unfold rows_of in Hrs. rewrite Ht in Hrs. cbn [fst] in Hrs.
  destruct (indices_of_ok rs rows Hrs) as [idx [E1 Hidx]]. rewrite E1. cbn [bind].
  destruct (HJ _ _ _ Ht) as [Hw [sc Hsc]].
  destruct (update_cols_ok (length rows) idx acols cols Hw Hidx) as [cols' [E2 Hw']]. rewrite E2. cbn [bind].
  eexists. split; [reflexivity|]. split; [|split].
  - intros u rows0 cols0 H. cbn [t_data t_schema] in *. rewrite lookup_dset_cases in H.
    destruct (seqb u t) eqn:Q.
    + injection H as <- <-. split; [exact Hw'|]. apply seqb_eq in Q. subst u. exists sc. exact Hsc.
    + apply HJ. exact H.
  - intros u. unfold rows_of. cbn [t_data]. rewrite lookup_dset_cases. destruct (seqb u t) eqn:Q; [|reflexivity].
    apply seqb_eq in Q. subst u. rewrite Ht. reflexivity.
  - intros u [td Hu]. unfold has_table. cbn [t_data]. rewrite lookup_dset_cases.
    destruct (seqb u t); eauto.
Qed.

Lemma add_column_good : forall t c ci s, J s -> has_table t s -> ci_typed ci ->
  exists s', tds_apply (AddColumn t c ci) s = Ok s' /\ J s' /\ same_shape s s'.
Proof.
  intros t c ci s HJ [[rows cols] Ht] [ty Hty].
  destruct (HJ _ _ _ Ht) as [Hw [sc Hsc]].
  cbn [tds_apply schema_step data_step]. rewrite Hsc, Ht. unfold colinfo_default. rewrite Hty. cbn [bind].
  eexists. split; [reflexivity|]. split; [|split].
  - intros u rows0 cols0 H. cbn [t_data t_schema] in *. rewrite lookup_dset_cases in H. rewrite lookup_dset_cases.
    destruct (seqb u t) eqn:Q.
    + injection H as <- <-. split; [|eauto]. apply wide_dset; [exact Hw|rewrite repeat_length; lia].
    + apply HJ. exact H.
  - intros u. unfold rows_of. cbn [t_data]. rewrite lookup_dset_cases. destruct (seqb u t) eqn:Q; [|reflexivity].
    apply seqb_eq in Q. subst u. rewrite Ht. reflexivity.
  - intros u [td Hu]. unfold has_table. cbn [t_data]. rewrite lookup_dset_cases.
    destruct (seqb u t); eauto.
Qed.

Lemma good_step : forall a s, J s -> good s a ->
  exists s', tds_apply a s = Ok s' /\ J s' /\ same_shape s s'.
Proof.
  intros a s HJ Hg. destruct a; cbn [good] in Hg; try contradiction.
  - destruct Hg as [Ht Hr]. cbn [tds_apply]. apply bulk_update_good; [exact HJ|exact Ht|]. constructor; [exact Hr|constructor].
  - destruct Hg as [Ht Hr]. cbn [tds_apply]. apply bulk_update_good; assumption.
  - destruct Hg as [Ht Hc]. apply add_column_good; assumption.
Qed.

Lemma good_shape : forall a s s', same_shape s s' -> good s a -> good s' a.
Proof.
  intros a s s' [Hr Ht] Hg. destruct a; cbn [good] in *; try contradiction.
  - destruct Hg as [H1 H2]. split; [apply Ht; exact H1|rewrite Hr; exact H2].
  - destruct Hg as [H1 H2]. split; [apply Ht; exact H1|]. eapply Forall_impl; [|exact H2]. cbn. intros r Hin. rewrite Hr. exact Hin.
  - destruct Hg as [H1 H2]. split; [apply Ht; exact H1|exact H2].
Qed.

Lemma good_all : forall acts s, J s -> Forall (good s) acts ->
  exists s', tds_apply_all acts s = Ok s' /\ J s' /\ same_shape s s'.
Proof.
  induction acts as [|a acts IH]; intros s HJ HF; cbn.
  - exists s. split; [reflexivity|]. split; [exact HJ|]. split; intros; [reflexivity|assumption].
  - inversion HF as [|? ? Ha Hrest]; subst.
    destruct (good_step a s HJ Ha) as [s1 [E1 [HJ1 Hs1]]]. rewrite E1. cbn [bind].
    destruct (IH s1 HJ1) as [s2 [E2 [HJ2 Hs2]]].
    { eapply Forall_impl; [|exact Hrest]. intros b. apply good_shape. exact Hs1. }
    exists s2. split; [exact E2|]. split; [exact HJ2|].
    destruct Hs1 as [R1 T1]. destruct Hs2 as [R2 T2]. split.
    + intros u. rewrite R2, R1. reflexivity.
    + intros u Hu. apply T2, T1. exact Hu.
Qed.

Lemma mkci_typed : forall c ty f fo, ci_typed (mkci c ty f fo).
Proof. intros. exists ty. reflexivity. Qed.

Lemma recs_ids_in_rows : forall t s r, In r (recs t s) -> In (fst r) (rows_of t s).
Proof.
  intros t s r H. unfold recs, rows_of in *. destruct (lookup t (t_data s)) as [td|]; [|contradiction].
  eapply transpose_ids. exact H.
Qed.

(* ---------- migration 34 ---------- *)
Section M34.
  Variable parse : str -> option json.

  Lemma m34_bars_ok : forall raw secs acc,
    Forall (fun r => exists v, fld (zs "options") r = Ok v /\ is_text v = true) secs ->
    exists bars, m34_bars parse raw secs acc = Ok bars.
  Proof.
    intros raw secs. induction secs as [|sec secs IH]; intros acc H; cbn.
    - eauto.
    - inversion H as [|? ? [v [Hv Ht]] Hrest]; subst.
      unfold m34_filter_bar. destruct (pset_mem _ raw); cbn [bind]; [apply IH; exact Hrest|].
      rewrite Hv. cbn [bind]. destruct v; try discriminate. cbn. apply IH. exact Hrest.
  Qed.

  Theorem m34_total : forall s,
    J s -> has_table T_TABLES s -> has_table T_SECTIONS s -> has_table T_FILTERS s ->
    col_ok hashable T_TABLES (zs "rawViewSectionRef") s ->
    col_ok is_text T_SECTIONS (zs "options") s ->
    col_ok hashable T_FILTERS (zs "viewSectionRef") s ->
    exists acts s', m34 parse s = Ok acts /\ tds_apply_all acts s = Ok s' /\ J s'.
  Proof.
    intros s HJ Ht Hs Hf Craw Copt Cref. unfold m34.
    rewrite (table_records_ok _ _ Ht), (table_records_ok _ _ Hs), (table_records_ok _ _ Hf). cbn [bind].
    destruct (mapM_ok (fun t => bind (fld (zs "rawViewSectionRef") t) hash_key) (recs T_TABLES s)) as [raw [E1 _]].
    { eapply Forall_impl; [|exact Craw]. cbn. intros r [v [Hv Hh]]. rewrite Hv. cbn. unfold hash_key. rewrite Hh. eauto. }
    rewrite E1. cbn [bind].
    destruct (m34_bars_ok raw (recs T_SECTIONS s) [] Copt) as [bars E2]. rewrite E2. cbn [bind].
    match goal with |- context [mapM ?f (recs T_FILTERS s)] => set (F := f) end.
    destruct (mapM_ok F (recs T_FILTERS s)) as [ups [E3 _]].
    { eapply Forall_impl; [|exact Cref]. cbn. intros r [v [Hv Hh]]. unfold F. rewrite Hv. cbn. unfold hash_key. rewrite Hh. cbn. eauto. }
    rewrite E3. cbn [bind].
    assert (Hids : map fst ups = map fst (recs T_FILTERS s)).
    { eapply mapM_fst; [|exact E3]. intros x y Hy. unfold F in Hy.
      destruct (fld (zs "viewSectionRef") x); cbn in Hy; [|discriminate].
      destruct (hash_key a); cbn in Hy; [|discriminate]. injection Hy as <-. reflexivity. }
    eexists. edestruct (good_all) as [s' [E4 [HJ' _]]]; [exact HJ| |exists s'; split; [reflexivity|split; [exact E4|exact HJ']]].
    constructor.
    - split; [exact Hf|apply mkci_typed].
    - destruct ups as [|u ups]; [constructor|]. constructor; [|constructor]. split; [exact Hf|].
      rewrite Hids. apply Forall_forall. intros r Hr. apply in_map_iff in Hr. destruct Hr as [x [<- Hx]].
      apply recs_ids_in_rows. exact Hx.
  Qed.
End M34.

Lemma mapM_ok_post : forall {A B} (f : A -> res B) (Q : A -> B -> Prop) l,
  Forall (fun x => exists y, f x = Ok y /\ Q x y) l -> exists ys, mapM f l = Ok ys /\ Forall2 Q l ys.
Proof.
  intros A B f Q l H. induction H as [|x l [y [Hy HQ]] _ [ys [IH1 IH2]]]; cbn.
  - exists []. split; [reflexivity|constructor].
  - rewrite Hy. cbn. rewrite IH1. cbn. exists (y :: ys). split; [reflexivity|constructor; assumption].
Qed.

Lemma good_update_of_rec : forall t s r cols, has_table t s -> In r (recs t s) -> good s (UpdateRecord t (fst r) cols).
Proof. intros t s r cols Ht Hr. split; [exact Ht|apply recs_ids_in_rows; exact Hr]. Qed.

Lemma text_loads : forall parse v, is_text v = true -> exists o, loads parse v = Ok o.
Proof. intros parse v H. destruct v; try discriminate. cbn. eauto. Qed.

Lemma safe_parse_ok : forall parse v, is_text v = true -> exists j, safe_parse parse v = Ok j.
Proof. intros parse v H. unfold safe_parse. destruct (text_loads parse v H) as [o ->]. cbn. eauto. Qed.

Lemma safe_parse_dict_ok : forall parse v, is_text v = true -> exists j, safe_parse_dict parse v = Ok j.
Proof. intros parse v H. unfold safe_parse_dict. destruct (text_loads parse v H) as [o ->]. cbn. eauto. Qed.

(* ---------- migration 15 ---------- *)
Section M15.
  Variable parse : str -> option json.
  Variable dumps : json -> str.

  Lemma m15_specs_ok : forall secs acc,
    Forall (fun r => exists v, fld (zs "filterSpec") r = Ok v /\ is_text v = true) secs ->
    exists specs, m15_specs parse secs acc = Ok specs.
  Proof.
    induction secs as [|sec secs IH]; intros acc H; cbn; [eauto|].
    inversion H as [|? ? [v [Hv Ht]] Hrest]; subst. rewrite Hv. cbn [bind].
    destruct (safe_parse_dict_ok parse v Ht) as [j ->]. cbn [bind]. apply IH. exact Hrest.
  Qed.

  Lemma py_str_ok : forall v, strable v = true -> exists k, py_str v = Ok k.
  Proof. intros v H. destruct v; try discriminate; cbn; eauto. Qed.

  Lemma m15_field_ok : forall specs f p cr,
    fld (zs "parentId") f = Ok p -> hashable p = true -> fld (zs "colRef") f = Ok cr -> strable cr = true ->
    exists acts, m15_field dumps specs f = Ok acts /\
                 Forall (fun a => exists cols, a = UpdateRecord T_FIELDS (fst f) cols) acts.
  Proof.
    intros specs f p cr Hp Hh Hc Hs. unfold m15_field. rewrite Hp. cbn [bind]. unfold hash_key. rewrite Hh. cbn [bind].
    destruct (pd_get p specs) as [j|]; [|exists []; split; [reflexivity|constructor]].
    destruct j as [| | | | |m]; try (exists []; split; [reflexivity|constructor]).
    destruct m as [|kv m]; [exists []; split; [reflexivity|constructor]|].
    rewrite Hc. cbn [bind]. destruct (py_str_ok cr Hs) as [k ->]. cbn [bind].
    destruct (lookup k (kv :: m)); eexists; (split; [reflexivity|]); repeat constructor. eauto.
  Qed.

  Theorem m15_total : forall s,
    J s -> has_table T_SECTIONS s -> has_table T_FIELDS s ->
    col_ok is_text T_SECTIONS (zs "filterSpec") s ->
    col_ok hashable T_FIELDS (zs "parentId") s -> col_ok strable T_FIELDS (zs "colRef") s ->
    exists acts s', m15 parse dumps s = Ok acts /\ tds_apply_all acts s = Ok s' /\ J s'.
  Proof.
    intros s HJ Hs Hf Cspec Cpar Ccol. unfold m15.
    rewrite (table_records_ok _ _ Hs), (table_records_ok _ _ Hf). cbn [bind].
    destruct (m15_specs_ok (recs T_SECTIONS s) [] Cspec) as [specs ->]. cbn [bind].
    destruct (mapM_ok_post (m15_field dumps specs)
                (fun f acts => Forall (fun a => exists cols, a = UpdateRecord T_FIELDS (fst f) cols) acts)
                (recs T_FIELDS s)) as [ups [E HQ]].
    { unfold col_ok in Cpar, Ccol. rewrite Forall_forall in *. intros f Hin.
      destruct (Cpar f Hin) as [p [Hp Hh]]. destruct (Ccol f Hin) as [cr [Hc Hst]].
      eapply m15_field_ok; eassumption. }
    rewrite E. cbn [bind].
    eexists. edestruct good_all as [s' [E4 [HJ' _]]]; [exact HJ| |exists s'; split; [reflexivity|split; [exact E4|exact HJ']]].
    constructor; [split; [exact Hf|apply mkci_typed]|].
    assert (Hall : forall l ys, Forall2 (fun f acts => Forall (fun a => exists cols, a = UpdateRecord T_FIELDS (fst f) cols) acts) l ys ->
                   (forall f, In f l -> In f (recs T_FIELDS s)) -> Forall (good s) (concat ys)).
    { induction 1 as [|f acts l ys Hfa _ IH]; intros Hsub; cbn; [constructor|].
      apply Forall_app. split; [|apply IH; intros; apply Hsub; right; assumption].
      eapply Forall_impl; [|exact Hfa]. cbn. intros a [cols ->]. apply good_update_of_rec; [exact Hf|apply Hsub; left; reflexivity]. }
    apply (Hall _ _ HQ). auto.
  Qed.
End M15.

(* ---------- migration 35 ---------- *)
Section M35.
  Variable parse : str -> option json.

  Lemma m35_rule_ok : forall r v, fld (zs "aclFormulaParsed") r = Ok v -> is_text v = true ->
    exists ups, m35_rule parse r = Ok ups /\ Forall (fun p => fst p = fst r) ups.
  Proof.
    intros r v Hv Ht. unfold m35_rule. rewrite Hv. cbn [bind].
    destruct (safe_parse_ok parse v Ht) as [j ->]. cbn [bind]. eexists. split; [reflexivity|].
    destruct j as [| | | |l|]; try constructor. destruct l as [|x [|y [|z l]]]; try constructor.
    destruct (is_str _ x); repeat constructor.
  Qed.

  Theorem m35_total : forall s,
    J s -> has_table T_ACLRULES s -> col_ok is_text T_ACLRULES (zs "aclFormulaParsed") s ->
    exists acts s', m35 parse s = Ok acts /\ tds_apply_all acts s = Ok s' /\ J s'.
  Proof.
    intros s HJ Ht C. unfold m35. rewrite (table_records_ok _ _ Ht). cbn [bind].
    destruct (mapM_ok_post (m35_rule parse) (fun r ups => Forall (fun p => fst p = fst r) ups) (recs T_ACLRULES s))
      as [ups [E HQ]].
    { eapply Forall_impl; [|exact C]. cbn beta. intros r [v [Hv Hx]]. eapply m35_rule_ok; eassumption. }
    rewrite E. cbn [bind].
    eexists. edestruct good_all as [s' [E4 [HJ' _]]]; [exact HJ| |exists s'; split; [reflexivity|split; [exact E4|exact HJ']]].
    constructor; [split; [exact Ht|apply mkci_typed]|].
    assert (Hids : Forall (fun r => In r (rows_of T_ACLRULES s)) (map fst (concat ups))).
    { assert (G : forall l ys, Forall2 (fun (r : record) (u : list (rid * val)) => Forall (fun p => fst p = fst r) u) l ys ->
                  (forall r, In r l -> In r (recs T_ACLRULES s)) ->
                  Forall (fun r => In r (rows_of T_ACLRULES s)) (map fst (concat ys))).
      { induction 1 as [|r u l ys Hu _ IH]; intros Hsub; cbn; [constructor|].
        rewrite map_app. apply Forall_app. split; [|apply IH; intros; apply Hsub; right; assumption].
        apply Forall_forall. intros x Hx. apply in_map_iff in Hx. destruct Hx as [p [<- Hp]].
        rewrite Forall_forall in Hu. rewrite (Hu p Hp). apply recs_ids_in_rows. apply Hsub. left. reflexivity. }
      apply (G _ _ HQ). auto. }
    destruct (concat ups) as [|u0 rest]; [constructor|]. constructor; [|constructor]. split; [exact Ht|exact Hids].
  Qed.
End M35.

(* ---------- migration 45 ---------- *)
Section M45.
  Variable parse : str -> option json.
  Variable dumps : json -> str.
  Variable secs : jnum -> res Z.
  (* int(x / 1000) returns, or raises ValueError (nan) / OverflowError (inf, huge int) *)
  Hypothesis secs_ok : forall n, (exists z, secs n = Ok z) \/ secs n = Err ValueErr \/ secs n = Err OverflowErr.

  Lemma ms_to_seconds_ok : forall v, exists z, ms_to_seconds secs v = Ok z.
  Proof.
    intros v. unfold ms_to_seconds. destruct v as [j|]; [|eauto]. destruct j; eauto.
    destruct (secs_ok n) as [[z ->]|[->| ->]]; [eauto|exists 0; reflexivity|exists 0; reflexivity].
  Qed.

  Lemma m45_cell_ok : forall r v, fld (zs "content") r = Ok v -> is_text v = true ->
    exists x, m45_cell parse dumps secs r = Ok x.
  Proof.
    intros r v Hv Ht. unfold m45_cell. rewrite Hv. cbn [bind].
    destruct (safe_parse_ok parse v Ht) as [j ->]. cbn [bind].
    destruct (ms_to_seconds_ok (lookup (zs "timeCreated") match j with JObj m => m | _ => [] end)) as [z1 ->]. cbn [bind].
    destruct (ms_to_seconds_ok (lookup (zs "timeUpdated") match j with JObj m => m | _ => [] end)) as [z2 ->]. cbn [bind].
    eauto.
  Qed.

  Theorem m45_total : forall s,
    J s -> has_table T_CELLS s -> col_ok is_text T_CELLS (zs "content") s ->
    exists acts s', m45 parse dumps secs s = Ok acts /\ tds_apply_all acts s = Ok s' /\ J s'.
  Proof.
    intros s HJ Ht C. unfold m45. rewrite (table_records_ok _ _ Ht). cbn [bind].
    destruct (mapM_ok (m45_cell parse dumps secs) (recs T_CELLS s)) as [vs [E _]].
    { eapply Forall_impl; [|exact C]. cbn beta. intros r [v [Hv Hx]]. eapply m45_cell_ok; eassumption. }
    rewrite E. cbn [bind].
    eexists. edestruct good_all as [s' [E4 [HJ' _]]]; [exact HJ| |exists s'; split; [reflexivity|split; [exact E4|exact HJ']]].
    repeat (constructor; [split; [exact Ht|apply mkci_typed]|]).
    destruct (recs T_CELLS s) as [|c0 cells] eqn:Er; [constructor|]. constructor; [|constructor].
    split; [exact Ht|]. apply Forall_forall. intros x Hx. apply in_map_iff in Hx. destruct Hx as [r [<- Hr]].
    apply recs_ids_in_rows. rewrite Er. exact Hr.
  Qed.
End M45.

(* ---------- shared by 16 and 29 ---------- *)

Lemma concat_updates_good : forall t s (l : list record) ys,
  has_table t s -> (forall r, In r l -> In r (recs t s)) ->
  Forall2 (fun r acts => Forall (fun a => exists cols, a = UpdateRecord t (fst r) cols) acts) l ys ->
  Forall (good s) (concat ys).
Proof.
  intros t s l ys Ht Hsub H. induction H as [|r acts l ys Hfa _ IH]; cbn; [constructor|].
  apply Forall_app. split; [|apply IH; intros; apply Hsub; right; assumption].
  eapply Forall_impl; [|exact Hfa]. cbn beta. intros a [cols ->].
  apply good_update_of_rec; [exact Ht|apply Hsub; left; reflexivity].
Qed.

Lemma pd_set_forall : forall {V} (P : V -> Prop) k v (m : list (val * V)),
  Forall (fun kv => P (snd kv)) m -> P v -> Forall (fun kv => P (snd kv)) (pd_set k v m).
Proof.
  intros V P k v m H Hv. induction H as [|[k' v'] m Hx Hm IH]; cbn.
  - constructor; [exact Hv|constructor].
  - destruct (py_eq k k'); constructor; auto.
Qed.

Lemma pd_get_forall : forall {V} (P : V -> Prop) k (m : list (val * V)) v,
  Forall (fun kv => P (snd kv)) m -> pd_get k m = Some v -> P v.
Proof.
  intros V P k m v H. induction H as [|[k' v'] m Hx _ IH]; cbn; [discriminate|].
  destruct (py_eq k k'); [intro E; injection E as <-; exact Hx|exact IH].
Qed.

Lemma by_id_forall : forall (P : record -> Prop) rs acc,
  Forall P rs -> Forall (fun kv => P (snd kv)) acc ->
  Forall (fun kv => P (snd kv)) (fold_left (fun acc c => pd_set (rid_val (fst c)) c acc) rs acc).
Proof.
  intros P rs. induction rs as [|r rs IH]; intros acc H Hacc; cbn; [exact Hacc|].
  inversion H; subst. apply IH; [assumption|]. apply pd_set_forall; assumption.
Qed.

Lemma index_by_ok : forall {V} key (value : record -> V) rs acc,
  Forall (fun r => exists k, key r = Ok k /\ hashable k = true) rs ->
  exists m, index_by key value rs acc = Ok m.
Proof.
  intros V key value rs. induction rs as [|r rs IH]; intros acc H; cbn; [eauto|].
  inversion H as [|? ? [k [Hk Hh]] Hrest]; subst. rewrite Hk. cbn [bind]. unfold hash_key. rewrite Hh. cbn [bind].
  apply IH. exact Hrest.
Qed.

(* ---------- migration 16 ---------- *)
Section M16.
  Variable parse : str -> option json.
  Variable dumps_compact : json -> str.

  Lemma convert_ok : forall tb ci col wo t, fld (zs "type") col = Ok (VStr t) ->
    exists nv, convert_visible_col parse dumps_compact tb ci col wo = Ok nv.
  Proof.
    intros tb ci col wo t Ht. unfold convert_visible_col. rewrite Ht. cbn [bind].
    repeat match goal with
           | |- exists nv, (if ?b then _ else _) = Ok nv => destruct b
           | |- exists nv, match ?x with _ => _ end = Ok nv => destruct x
           end; eauto.
  Qed.

  Definition typed_col (c : record) : Prop := exists t, fld (zs "type") c = Ok (VStr t).

  Lemma pair_index_ok : forall rs,
    Forall (fun r => (exists p, fld (zs "parentId") r = Ok p /\ hashable p = true) /\
                     (exists c, fld (zs "colId") r = Ok c /\ hashable c = true)) rs ->
    exists ci, pair_index rs = Ok ci.
  Proof.
    intros rs. unfold pair_index. generalize (@nil (val * rid)).
    induction rs as [|r rs IH]; intros acc H; [eauto|].
    inversion H as [|? ? [[p [Hp Hhp]] [c [Hc Hhc]]] Hrest]; subst.
    unfold pair_key. rewrite Hp. cbn [bind]. unfold hash_key. rewrite Hhp. cbn [bind]. rewrite Hc. cbn [bind]. rewrite Hhc. cbn [bind].
    apply IH. exact Hrest.
  Qed.

  Lemma m16_field_ok : forall tb ci cr f k wo,
    fld (zs "colRef") f = Ok k -> hashable k = true -> fld (zs "widgetOptions") f = Ok wo ->
    Forall (fun kv => typed_col (snd kv)) cr ->
    exists acts, m16_field parse dumps_compact tb ci cr f = Ok acts /\
                 Forall (fun a => exists cols, a = UpdateRecord T_FIELDS (fst f) cols) acts.
  Proof.
    intros tb ci cr f k wo Hk Hh Hwo Hcr. unfold m16_field. rewrite Hk. cbn [bind]. unfold hash_key. rewrite Hh. cbn [bind].
    destruct (pd_get k cr) as [c|] eqn:G; [|exists []; split; [reflexivity|constructor]].
    rewrite Hwo. cbn [bind].
    destruct (pd_get_forall typed_col k cr c Hcr G) as [t Hty].
    destruct (convert_ok tb ci c wo t Hty) as [nv ->]. cbn [bind].
    eexists. split; [reflexivity|]. destruct nv; repeat constructor. eauto.
  Qed.

  Theorem m16_total : forall s,
    J s -> has_table T_TABLES s -> has_table T_COLUMNS s -> has_table T_FIELDS s ->
    col_ok hashable T_TABLES (zs "tableId") s ->
    col_ok hashable T_COLUMNS (zs "parentId") s -> col_ok hashable T_COLUMNS (zs "colId") s ->
    col_ok is_text T_COLUMNS (zs "type") s -> col_ok any_val T_COLUMNS (zs "widgetOptions") s ->
    col_ok hashable T_FIELDS (zs "colRef") s -> col_ok any_val T_FIELDS (zs "widgetOptions") s ->
    exists acts s', m16 parse dumps_compact s = Ok acts /\ tds_apply_all acts s = Ok s' /\ J s'.
  Proof.
    intros s HJ Ht Hc Hf Ctid Cpar Ccol Ctype Cwo Fref Fwo. unfold m16.
    rewrite (table_records_ok _ _ Ht). cbn [bind].
    destruct (index_by_ok (fld (zs "tableId")) (fun t => t) (recs T_TABLES s) [] Ctid) as [tb ->]. cbn [bind].
    rewrite (table_records_ok _ _ Hc). cbn [bind].
    destruct (pair_index_ok (recs T_COLUMNS s)) as [ci ->].
    { unfold col_ok in *. rewrite Forall_forall in *. intros r Hr. split; [apply Cpar|apply Ccol]; exact Hr. }
    cbn [bind].
    assert (Htyped : Forall typed_col (recs T_COLUMNS s)).
    { eapply Forall_impl; [|exact Ctype]. cbn beta. intros r [v [Hv Hx]]. destruct v; try discriminate. eexists; eassumption. }
    set (cr := fold_left (fun acc c => pd_set (rid_val (fst c)) c acc) (recs T_COLUMNS s) []).
    assert (Hcr : Forall (fun kv => typed_col (snd kv)) cr) by (apply by_id_forall; [exact Htyped|constructor]).
    destruct (mapM_ok_post (m16_col parse dumps_compact tb ci)
                (fun c acts => Forall (fun a => exists cols, a = UpdateRecord T_COLUMNS (fst c) cols) acts)
                (recs T_COLUMNS s)) as [ups1 [E1 Q1]].
    { unfold col_ok in Cwo. rewrite Forall_forall in *. intros c Hin.
      destruct (Cwo c Hin) as [wo [Hwo _]]. destruct (Htyped c Hin) as [t Hty].
      unfold m16_col. rewrite Hwo. cbn [bind]. destruct (convert_ok tb ci c wo t Hty) as [nv ->]. cbn [bind].
      eexists. split; [reflexivity|]. destruct nv; repeat constructor. eauto. }
    rewrite E1. cbn [bind]. rewrite (table_records_ok _ _ Hf). cbn [bind].
    destruct (mapM_ok_post (m16_field parse dumps_compact tb ci cr)
                (fun f acts => Forall (fun a => exists cols, a = UpdateRecord T_FIELDS (fst f) cols) acts)
                (recs T_FIELDS s)) as [ups2 [E2 Q2]].
    { unfold col_ok in Fref, Fwo. rewrite Forall_forall in Fref, Fwo. apply Forall_forall. intros f Hin.
      destruct (Fref f Hin) as [k [Hk Hh]]. destruct (Fwo f Hin) as [wo [Hwo _]].
      eapply m16_field_ok; eassumption. }
    rewrite E2. cbn [bind].
    eexists. edestruct good_all as [s' [E4 [HJ' _]]]; [exact HJ| |exists s'; split; [reflexivity|split; [exact E4|exact HJ']]].
    constructor; [split; [exact Hc|apply mkci_typed]|]. constructor; [split; [exact Hf|apply mkci_typed]|].
    apply Forall_app. split.
    - eapply (concat_updates_good T_COLUMNS s (recs T_COLUMNS s) ups1 Hc); [auto|exact Q1].
    - eapply (concat_updates_good T_FIELDS s (recs T_FIELDS s) ups2 Hf); [auto|exact Q2].
  Qed.
End M16.

(* ---------- migration 29 ---------- *)
Section M29.
  Variable parse : str -> option json.
  Variable dumps : json -> str.

  Definition has_parent (r : record) : Prop := exists p, fld (zs "parentId") r = Ok p.

  Lemma copy_widget_options_ok : forall v, falsy_or_text v = true -> exists w, copy_widget_options parse dumps v = Ok w.
  Proof.
    intros v H. unfold copy_widget_options. destruct (negb (val_truthy v)) eqn:T; [eauto|].
    unfold falsy_or_text in H. rewrite T in H. cbn [orb] in H. destruct v; try discriminate.
    destruct (parse s) as [j|]; [|eauto]. destruct j; eauto.
  Qed.

  Lemma all_valid_ok : forall cols col l,
    has_parent col -> Forall (fun kv => has_parent (snd kv)) cols ->
    Forall (fun x => hashable (json_to_val x) = true) l ->
    exists b, all_valid cols col l = Ok b.
  Proof.
    intros cols col l [p Hp] Hcols Hl. induction Hl as [|x l Hx _ IH]; cbn [all_valid]; [eauto|].
    rewrite Hp. cbn [bind]. unfold is_valid_rule, hash_key. rewrite Hx. cbn [bind].
    destruct (pd_get (json_to_val x) cols) as [rc|] eqn:G; cbn [bind]; [|eauto].
    destruct (pd_get_forall has_parent _ cols rc Hcols G) as [q ->]. cbn [bind].
    destruct (py_eq q p); [exact IH|eauto].
  Qed.

  (* a conditional-rules cell that parses to a list holds scalars (row ids), as a RefList does *)
  Definition rules_typed (r : record) : Prop :=
    forall txt l, fld (zs "rules") r = Ok (VStr txt) -> parse txt = Some (JArr l) ->
                  Forall (fun x => hashable (json_to_val x) = true) l.

  Definition m29_col_pre (r : record) : Prop :=
    (exists v, fld (zs "rules") r = Ok v /\ falsy_or_text v = true) /\ has_parent r /\
    (exists w, fld (zs "widgetOptions") r = Ok w /\ falsy_or_text w = true) /\ rules_typed r.

  Lemma m29_col_ok : forall cols col, m29_col_pre col -> Forall (fun kv => has_parent (snd kv)) cols ->
    exists acts, m29_col parse dumps cols col = Ok acts /\
                 Forall (fun a => exists c, a = UpdateRecord T_COLUMNS (fst col) c) acts.
  Proof.
    intros cols col [[ru [Hru Tru]] [Hpar [[wo [Hwo Two]] Hty]]] Hcols. unfold m29_col. rewrite Hru. cbn [bind].
    destruct (negb (val_truthy ru)) eqn:T; [exists []; split; [reflexivity|constructor]|].
    unfold falsy_or_text in Tru. rewrite T in Tru. cbn [orb] in Tru. destruct ru as [| | | |txt| |]; try discriminate.
    unfold safe_parse, loads. cbn [bind].
    assert (Hv : exists b, match (match parse txt with Some j => j | None => JObj [] end) with
                           | JArr l => all_valid cols col l | _ => Ok false end = Ok b).
    { destruct (parse txt) as [j|] eqn:P; [|eauto]. destruct j; eauto.
      apply all_valid_ok; [exact Hpar|exact Hcols|]. eapply Hty; [exact Hru|exact P]. }
    destruct Hv as [b ->]. cbn [bind]. destruct b; [exists []; split; [reflexivity|constructor]|].
    rewrite Hwo. cbn [bind]. destruct (copy_widget_options_ok wo Two) as [w ->]. cbn [bind].
    eexists. split; [reflexivity|]. repeat constructor. eauto.
  Qed.

  Theorem m29_total : forall s,
    J s -> has_table T_TABLES s -> has_table T_COLUMNS s ->
    Forall m29_col_pre (recs T_COLUMNS s) ->
    exists acts s', m29 parse dumps s = Ok acts /\ tds_apply_all acts s = Ok s' /\ J s'.
  Proof.
    intros s HJ Ht Hc Hpre. unfold m29.
    rewrite (table_records_ok _ _ Ht), (table_records_ok _ _ Hc). cbn [bind].
    set (cols := fold_left (fun acc c => pd_set (rid_val (fst c)) c acc) (recs T_COLUMNS s) []).
    assert (Hcols : Forall (fun kv => (m29_col_pre (snd kv) /\ In (snd kv) (recs T_COLUMNS s))) cols).
    { apply (by_id_forall (fun r => m29_col_pre r /\ In r (recs T_COLUMNS s))); [|constructor].
      apply Forall_forall. intros r Hr. split; [|exact Hr]. rewrite Forall_forall in Hpre. apply Hpre. exact Hr. }
    assert (Hpar : Forall (fun kv => has_parent (snd kv)) cols).
    { eapply Forall_impl; [|exact Hcols]. cbn beta. intros kv [[_ [H _]] _]. exact H. }
    destruct (mapM_ok_post (m29_col parse dumps cols)
                (fun col acts => Forall (fun a => exists c, a = UpdateRecord T_COLUMNS (fst col) c) acts)
                (map snd cols)) as [ups [E Q]].
    { apply Forall_forall. intros col Hin. apply in_map_iff in Hin. destruct Hin as [kv [<- Hkv]].
      rewrite Forall_forall in Hcols. apply m29_col_ok; [apply (Hcols kv Hkv)|exact Hpar]. }
    rewrite E. cbn [bind].
    eexists. edestruct good_all as [s' [E4 [HJ' _]]]; [exact HJ| |exists s'; split; [reflexivity|split; [exact E4|exact HJ']]].
    eapply (concat_updates_good T_COLUMNS s (map snd cols) ups Hc); [|exact Q].
    intros r Hr. apply in_map_iff in Hr. destruct Hr as [kv [<- Hkv]]. rewrite Forall_forall in Hcols. apply (Hcols kv Hkv).
  Qed.
End M29.

(* ---------- deciding the hypotheses on concrete documents (for the Examples) ---------- *)

Lemma J_b_sound : forall s, J_b s = true -> J s.
Proof.
  intros s H t rows cols Hl. unfold J_b in H. rewrite forallb_forall in H.
  specialize (H _ (lookup_in _ _ _ Hl)). cbn [fst snd] in H. apply andb_prop in H. destruct H as [Hw Hs]. split.
  - unfold wide_b in Hw. rewrite forallb_forall in Hw. apply Forall_forall. intros cv Hc.
    apply Nat.leb_le. apply Hw. exact Hc.
  - unfold has in Hs. destruct (lookup t (t_schema s)) as [sc|]; [eauto|discriminate].
Qed.


Lemma col_ok_b_sound : forall P t c s, col_ok_b P t c s = true -> col_ok P t c s.
Proof.
  intros P t c s H. unfold col_ok_b in H. rewrite forallb_forall in H. apply Forall_forall. intros r Hr.
  specialize (H r Hr). destruct (fld c r) as [v|]; [eauto|discriminate].
Qed.

(* ---------- the decidable preconditions imply the hypotheses ---------- *)
Lemma has_table_b_sound : forall t s, has_table_b t s = true -> has_table t s.
Proof. intros t s H. unfold has_table_b, has in H. unfold has_table. destruct (lookup t (t_data s)); [eauto|discriminate]. Qed.

Ltac split_pre H :=
  repeat match type of H with (_ && _) = true => let H2 := fresh "P" in apply andb_prop in H; destruct H as [H H2] end.

Lemma pre15_sound : forall parse dumps s, pre15 s = true ->
  exists acts s', m15 parse dumps s = Ok acts /\ tds_apply_all acts s = Ok s' /\ J s'.
Proof.
  intros parse dumps s H. unfold pre15 in H. split_pre H.
  apply m15_total; auto using J_b_sound, has_table_b_sound, col_ok_b_sound.
Qed.

Lemma pre16_sound : forall parse dc s, pre16 s = true ->
  exists acts s', m16 parse dc s = Ok acts /\ tds_apply_all acts s = Ok s' /\ J s'.
Proof.
  intros parse dc s H. unfold pre16 in H. split_pre H.
  apply m16_total; auto using J_b_sound, has_table_b_sound, col_ok_b_sound.
Qed.

Lemma m29_col_pre_b_sound : forall parse r, m29_col_pre_b parse r = true -> m29_col_pre parse r.
Proof.
  intros parse r H. unfold m29_col_pre_b in H. split_pre H. unfold m29_col_pre, has_parent, rules_typed.
  destruct (fld (zs "rules") r) as [ru|] eqn:E1; [|discriminate].
  destruct (fld (zs "parentId") r) as [p|] eqn:E2; [|discriminate].
  destruct (fld (zs "widgetOptions") r) as [w|] eqn:E3; [|discriminate].
  repeat split; eauto.
  intros txt l Hr Hp. injection Hr as ->. rewrite Hp in P. apply Forall_forall. rewrite forallb_forall in P. exact P.
Qed.

Lemma pre29_sound : forall parse dumps s, pre29 parse s = true ->
  exists acts s', m29 parse dumps s = Ok acts /\ tds_apply_all acts s = Ok s' /\ J s'.
Proof.
  intros parse dumps s H. unfold pre29 in H. split_pre H.
  apply m29_total; auto using J_b_sound, has_table_b_sound.
  apply Forall_forall. intros r Hr. rewrite forallb_forall in P. apply m29_col_pre_b_sound. apply P. exact Hr.
Qed.

Lemma pre34_sound : forall parse s, pre34 s = true ->
  exists acts s', m34 parse s = Ok acts /\ tds_apply_all acts s = Ok s' /\ J s'.
Proof.
  intros parse s H. unfold pre34 in H. split_pre H.
  apply m34_total; auto using J_b_sound, has_table_b_sound, col_ok_b_sound.
Qed.

Lemma pre35_sound : forall parse s, pre35 s = true ->
  exists acts s', m35 parse s = Ok acts /\ tds_apply_all acts s = Ok s' /\ J s'.
Proof.
  intros parse s H. unfold pre35 in H. split_pre H.
  apply m35_total; auto using J_b_sound, has_table_b_sound, col_ok_b_sound.
Qed.

Lemma pre45_sound : forall parse dumps secs,
  (forall n, (exists z, secs n = Ok z) \/ secs n = Err ValueErr \/ secs n = Err OverflowErr) ->
  forall s, pre45 s = true ->
  exists acts s', m45 parse dumps secs s = Ok acts /\ tds_apply_all acts s = Ok s' /\ J s'.
Proof.
  intros parse dumps secs Hs s H. unfold pre45 in H. split_pre H.
  apply m45_total; auto using J_b_sound, has_table_b_sound, col_ok_b_sound.
Qed.

(* ---------- constant action lists (the translated migrations) ---------- *)
Lemma smem_in : forall t l, smem t l = true <-> In t l.
Proof.
  intros t l. unfold smem. rewrite existsb_exists. split.
  - intros [x [Hx E]]. apply seqb_eq in E. subst. exact Hx.
  - intros H. exists t. split; [exact H|apply seqb_refl].
Qed.

Lemma remove_column_good : forall t c s, J s -> has_table t s ->
  exists s', tds_apply (RemoveColumn t c) s = Ok s' /\ J s' /\ same_shape s s'.
Proof.
  intros t c s HJ [[rows cols] Ht]. destruct (HJ _ _ _ Ht) as [Hw [sc Hsc]].
  cbn [tds_apply schema_step data_step]. rewrite Hsc, Ht. cbn [bind].
  eexists. split; [reflexivity|]. split; [|split].
  - intros u rows0 cols0 H. cbn [t_data t_schema] in *. rewrite lookup_dset_cases in H. rewrite lookup_dset_cases.
    destruct (seqb u t) eqn:Q.
    + injection H as <- <-. split; [apply forall_dpop; exact Hw|eauto].
    + apply HJ. exact H.
  - intros u. unfold rows_of. cbn [t_data]. rewrite lookup_dset_cases. destruct (seqb u t) eqn:Q; [|reflexivity].
    apply seqb_eq in Q. subst u. rewrite Ht. reflexivity.
  - intros u [td Hu]. unfold has_table. cbn [t_data]. rewrite lookup_dset_cases. destruct (seqb u t); eauto.
Qed.

Lemma schema_of_cols_ok : forall cols acc, forallb ci_wf_b cols = true -> exists m, schema_of_cols cols acc = Ok m.
Proof.
  induction cols as [|ci cols IH]; intros acc H; cbn; [eauto|].
  cbn in H. apply andb_prop in H. destruct H as [Hci Hrest]. unfold ci_wf_b in Hci. apply andb_prop in Hci. destruct Hci as [_ Hid].
  destruct (lookup (zs "id") ci) as [v|]; [|discriminate]. destruct v; try discriminate. apply IH. exact Hrest.
Qed.

Lemma add_table_step : forall t cols s, J s -> forallb ci_wf_b cols = true ->
  exists s', tds_apply (AddTable t cols) s = Ok s' /\ J s' /\ has_table t s' /\
             (forall u, has_table u s -> has_table u s') /\
             (forall u, seqb u t = false -> rows_of u s' = rows_of u s).
Proof.
  intros t cols s HJ Hwf. destruct (schema_of_cols_ok cols [] Hwf) as [m Hm].
  cbn [tds_apply schema_step data_step]. rewrite Hm. cbn [bind].
  eexists. split; [reflexivity|]. split; [|split; [|split]].
  - intros u rows0 cols0 H. cbn [t_data t_schema] in *. rewrite lookup_dset_cases in H. rewrite lookup_dset_cases.
    destruct (seqb u t) eqn:Q.
    + injection H as <- <-. split; [|eauto]. unfold wide. apply Forall_forall. intros cv _. cbn. apply Nat.le_0_l.
    + apply HJ. exact H.
  - unfold has_table. cbn [t_data]. rewrite lookup_dset_cases, seqb_refl. eauto.
  - intros u [td Hu]. unfold has_table. cbn [t_data]. rewrite lookup_dset_cases. destruct (seqb u t); eauto.
  - intros u Q. unfold rows_of. cbn [t_data]. rewrite lookup_dset_cases, Q. reflexivity.
Qed.

Lemma ci_typed_b_sound : forall ci, ci_typed_b ci = true -> ci_typed ci.
Proof.
  intros ci H. unfold ci_typed_b in H. unfold ci_typed. destruct (lookup (zs "type") ci) as [v|]; [|discriminate].
  destruct v; try discriminate. eauto.
Qed.

Lemma const_applies : forall acts created s0 s,
  J s -> (forall u, has_table u s0 -> has_table u s) -> (forall u, In u created -> has_table u s) ->
  (forall u, ~ In u created -> rows_of u s = rows_of u s0) ->
  const_ok created acts = true ->
  (forall t, In t (const_needs created acts) -> has_table t s0) ->
  (forall t r, In (t, r) (const_row_needs acts) -> In r (rows_of t s0)) ->
  exists s', tds_apply_all acts s = Ok s' /\ J s'.
Proof.
  induction acts as [|a acts IH]; intros created s0 s HJ Hmono Hcr Hrows Hok Hneed Hrneed; cbn [tds_apply_all].
  - eauto.
  - assert (Htab : forall t, (if smem t created then const_needs created acts else t :: const_needs created acts)
                             = const_needs created (a :: acts) -> has_table t s).
    { intros t E. destruct (smem t created) eqn:M.
      - apply Hcr. apply smem_in. exact M.
      - apply Hmono. apply Hneed. rewrite <- E. left. reflexivity. }
    assert (Hrest : forall t, (if smem t created then const_needs created acts else t :: const_needs created acts)
                              = const_needs created (a :: acts) ->
                    forall x, In x (const_needs created acts) -> has_table x s0).
    { intros t E x Hx. apply Hneed. rewrite <- E. destruct (smem t created); [exact Hx|right; exact Hx]. }
    destruct a; cbn [const_ok] in Hok; try discriminate.
    + (* UpdateRecord *)
      apply andb_prop in Hok. destruct Hok as [Hfresh Hok]. apply negb_true_iff in Hfresh.
      assert (Hnot : ~ In t created) by (intro Hin; apply smem_in in Hin; congruence).
      destruct (bulk_update_good t [r] (singles cols) s HJ (Htab t eq_refl)) as [s1 [E1 [HJ1 [R1 T1]]]].
      { constructor; [|constructor]. rewrite (Hrows t Hnot). apply Hrneed. left. reflexivity. }
      cbn [tds_apply]. rewrite E1. cbn [bind].
      eapply (IH created s0 s1); eauto.
      * intros u Hu. rewrite R1. auto.
      * exact (Hrest t eq_refl).
      * intros t0 r0 Hin. apply Hrneed. right. exact Hin.
    + (* AddColumn *)
      apply andb_prop in Hok. destruct Hok as [Hci Hok].
      destruct (add_column_good t c ci s HJ (Htab t eq_refl) (ci_typed_b_sound _ Hci)) as [s1 [E1 [HJ1 [R1 T1]]]].
      rewrite E1. cbn [bind]. eapply (IH created s0 s1); eauto.
      * intros u Hu. rewrite R1. auto.
      * exact (Hrest t eq_refl).
    + (* RemoveColumn *)
      destruct (remove_column_good t c s HJ (Htab t eq_refl)) as [s1 [E1 [HJ1 [R1 T1]]]].
      rewrite E1. cbn [bind]. eapply (IH created s0 s1); eauto.
      * intros u Hu. rewrite R1. auto.
      * exact (Hrest t eq_refl).
    + (* AddTable *)
      apply andb_prop in Hok. destruct Hok as [Hwf Hok].
      destruct (add_table_step t cols s HJ Hwf) as [s1 [E1 [HJ1 [Ht1 [T1 R1]]]]].
      rewrite E1. cbn [bind]. eapply (IH (t :: created) s0 s1); eauto.
      * intros u [<-|Hu]; [exact Ht1|auto].
      * intros u Hu. rewrite R1; [apply Hrows; intro; apply Hu; right; assumption|].
        apply seqb_neq. intro; subst. apply Hu. left. reflexivity.
Qed.

(* a migration whose body is the constant list `acts` *)
Theorem const_migration_total : forall acts s,
  const_ok [] acts = true -> J s ->
  (forall t, In t (const_needs [] acts) -> has_table t s) ->
  (forall t r, In (t, r) (const_row_needs acts) -> In r (rows_of t s)) ->
  exists acts' s', (fun _ : tds => Ok acts) s = Ok acts' /\ tds_apply_all acts' s = Ok s' /\ J s'.
Proof.
  intros acts s Hok HJ Hn Hr.
  destruct (const_applies acts [] s s HJ) as [s' [E HJ']]; auto.
  - intros u [].
  - exists acts, s'. split; [reflexivity|split; assumption].
Qed.

(* ---------- a second, more general frame: actions that may ADD records ---------- *)
(* every column of the table has a schema entry with a string type (so BulkAddRecord can default it) *)
Definition typed_table (t : str) (s : tds) : Prop :=
  exists rows cols sc, lookup t (t_data s) = Some (rows, cols) /\ lookup t (t_schema s) = Some sc /\
    Forall (fun cv : str * list val => exists ci, lookup (fst cv) sc = Some ci /\ ci_typed ci) cols.

Definition shape2 (s s' : tds) : Prop :=
  (forall u, incl (rows_of u s) (rows_of u s')) /\ (forall u, has_table u s -> has_table u s') /\
  (forall u, typed_table u s -> typed_table u s').

Lemma forall_dset_key : forall {V} (P : str * V -> Prop) k v (m : list (str * V)),
  Forall P m -> P (k, v) -> (forall k' v', P (k', v') -> seqb k k' = true -> P (k', v)) -> Forall P (dset k v m).
Proof.
  intros V P k v m H Hv Hrep. induction H as [|[k' v'] m Hx Hm IH]; cbn.
  - constructor; [exact Hv|constructor].
  - destruct (seqb k k') eqn:Q; constructor; [eapply Hrep; [exact Hx|exact Q]|exact Hm|exact Hx|exact IH].
Qed.

Lemma update_cols_keys : forall (P : str -> Prop) idx acols cols cols',
  update_cols idx acols cols = Ok cols' -> Forall (fun cv => P (fst cv)) cols -> Forall (fun cv => P (fst cv)) cols'.
Proof.
  intros P idx acols. induction acols as [|[c vs] acols IH]; intros cols cols' H HF; cbn in H.
  - injection H as <-. exact HF.
  - destruct (lookup c cols) as [old|] eqn:E; [|eapply IH; eassumption].
    apply bind_ok in H. destruct H as [new [_ H]]. eapply IH; [exact H|].
    apply forall_dset_key; [exact HF| |intros k' v' Hp _; exact Hp].
    rewrite Forall_forall in HF. exact (HF _ (lookup_in _ _ _ E)).
Qed.

Lemma typed_bulk_update : forall t rs acols s s' u,
  bulk_update t rs acols s = Ok s' -> typed_table u s -> typed_table u s'.
Proof.
  intros t rs acols s s' u H [rows [cols [sc [Hd [Hs HF]]]]]. unfold bulk_update in H.
  destruct (lookup t (t_data s)) as [[rows0 cols0]|] eqn:Ht; [|discriminate].
  apply bind_ok in H. destruct H as [idx [_ H]]. apply bind_ok in H. destruct H as [cols' [Hu H]]. injection H as <-.
  unfold typed_table. cbn [t_data t_schema]. rewrite lookup_dset_cases. destruct (seqb u t) eqn:Q.
  - apply seqb_eq in Q. subst u. rewrite Ht in Hd. injection Hd as <- <-.
    eexists _, cols', sc. split; [reflexivity|]. split; [exact Hs|].
    eapply (update_cols_keys (fun k => exists ci, lookup k sc = Some ci /\ ci_typed ci)); eassumption.
  - exists rows, cols, sc. repeat split; assumption.
Qed.

Lemma typed_add_column : forall t c ci s s' u, ci_typed ci ->
  tds_apply (AddColumn t c ci) s = Ok s' -> typed_table u s -> typed_table u s'.
Proof.
  intros t c ci s s' u Hci H [rows [cols [sc [Hd [Hs HF]]]]].
  cbn [tds_apply schema_step data_step] in H.
  destruct (lookup t (t_schema s)) as [sc0|] eqn:Hsc; [|discriminate].
  apply bind_ok in H. destruct H as [sch' [H1 H]]. apply bind_ok in H1. destruct H1 as [dflt [_ H1]]. injection H1 as <-.
  destruct (lookup t (t_data s)) as [[rows0 cols0]|] eqn:Ht; [|discriminate].
  apply bind_ok in H. destruct H as [d' [H2 H]]. apply bind_ok in H2. destruct H2 as [dv [_ H2]]. injection H2 as <-. injection H as <-.
  unfold typed_table. cbn [t_data t_schema]. rewrite !lookup_dset_cases. destruct (seqb u t) eqn:Q.
  - apply seqb_eq in Q. subst u. rewrite Ht in Hd. injection Hd as <- <-. rewrite Hsc in Hs. injection Hs as <-.
    eexists _, _, _. repeat split.
    apply forall_dset_key.
    + eapply Forall_impl; [|exact HF]. cbn beta. intros [k vs] [ci0 [L T]]. cbn [fst] in *.
      rewrite lookup_dset_cases. destruct (seqb k c); eauto.
    + cbn [fst]. rewrite lookup_dset_same. eauto.
    + intros k' v' Hp _. exact Hp.
  - exists rows, cols, sc. repeat split; assumption.
Qed.

Lemma add_cols_ok : forall n sc acols cols,
  Forall (fun cv : str * list val => exists ci, lookup (fst cv) sc = Some ci /\ ci_typed ci) cols ->
  exists cols', add_cols n (Some sc) acols cols = Ok cols' /\ map fst cols' = map fst cols /\
                forall m, wide m cols -> Forall (fun cv => length (snd cv) = n) acols -> wide (m + n) cols'.
Proof.
  intros n sc acols cols H. induction H as [|[c vs] cols [ci [L [ty T]]] _ [cols' [E [K W]]]]; cbn [add_cols].
  - exists []. repeat split. intros; constructor.
  - cbn [fst] in L. destruct (lookup c acols) as [new|] eqn:A; cbn [bind].
    + rewrite E. cbn [bind]. eexists. split; [reflexivity|]. split; [cbn; congruence|].
      intros m Hw Hl. inversion Hw as [|? ? Hh Ht]; subst. constructor; [|apply W; assumption].
      cbn [snd] in *. rewrite app_length. rewrite Forall_forall in Hl. specialize (Hl _ (lookup_in _ _ _ A)). cbn [snd] in Hl. lia.
    + rewrite L. unfold colinfo_default. rewrite T. cbn [bind]. rewrite E. cbn [bind].
      eexists. split; [reflexivity|]. split; [cbn; congruence|].
      intros m Hw Hl. inversion Hw as [|? ? Hh Ht]; subst. constructor; [|apply W; assumption].
      cbn [snd] in *. rewrite app_length, repeat_length. lia.
Qed.

Lemma forall_fst_map : forall {V W} (P : str -> Prop) (a : list (str * V)) (b : list (str * W)),
  map fst a = map fst b -> Forall (fun cv => P (fst cv)) b -> Forall (fun cv => P (fst cv)) a.
Proof.
  intros V W P a b E H. apply (proj1 (Forall_map fst P a)). rewrite E. apply (proj2 (Forall_map fst P b)). exact H.
Qed.

Lemma singles_len : forall cols, Forall (fun cv : str * list val => length (snd cv) = 1%nat) (singles cols).
Proof. intros cols. unfold singles. apply Forall_forall. intros cv H. apply in_map_iff in H. destruct H as [kv [<- _]]. reflexivity. Qed.

Lemma add_record_step : forall t r acols s, J s -> typed_table t s ->
  exists s', tds_apply (AddRecord t r acols) s = Ok s' /\ J s' /\ shape2 s s'.
Proof.
  intros t r acols s HJ [rows [cols [sc [Hd [Hs HF]]]]].
  cbn [tds_apply]. unfold bulk_add. rewrite Hd, Hs.
  destruct (add_cols_ok (length [r]) sc (singles acols) cols HF) as [cols' [E [K W]]]. rewrite E. cbn [bind].
  destruct (HJ _ _ _ Hd) as [Hw _].
  eexists. split; [reflexivity|]. split; [|split; [|split]].
  - intros u rows0 cols0 H. cbn [t_data t_schema] in *. rewrite lookup_dset_cases in H. destruct (seqb u t) eqn:Q.
    + injection H as <- <-. apply seqb_eq in Q. subst u. split; [|eauto].
      rewrite app_length. apply W; [exact Hw|apply singles_len].
    + apply HJ. exact H.
  - intros u. unfold rows_of. cbn [t_data]. rewrite lookup_dset_cases. destruct (seqb u t) eqn:Q; [|apply incl_refl].
    apply seqb_eq in Q. subst u. rewrite Hd. cbn [fst]. apply incl_appl, incl_refl.
  - intros u [td Hu]. unfold has_table. cbn [t_data]. rewrite lookup_dset_cases. destruct (seqb u t); eauto.
  - intros u [rows1 [cols1 [sc1 [Hd1 [Hs1 HF1]]]]]. unfold typed_table. cbn [t_data t_schema]. rewrite lookup_dset_cases.
    destruct (seqb u t) eqn:Q.
    + apply seqb_eq in Q. subst u. rewrite Hd in Hd1. injection Hd1 as <- <-. rewrite Hs in Hs1. injection Hs1 as <-.
      eexists _, cols', sc. split; [reflexivity|]. split; [exact Hs|].
      eapply (forall_fst_map (fun k => exists ci, lookup k sc = Some ci /\ ci_typed ci)); eassumption.
    + exists rows1, cols1, sc1. repeat split; assumption.
Qed.

Definition good2 (s : tds) (a : action) : Prop :=
  match a with
  | AddRecord t _ _ => typed_table t s
  | _ => good s a
  end.

Lemma good2_step : forall a s, J s -> good2 s a -> exists s', tds_apply a s = Ok s' /\ J s' /\ shape2 s s'.
Proof.
  intros a s HJ Hg.
  assert (Hother : good s a -> (forall s' u, tds_apply a s = Ok s' -> typed_table u s -> typed_table u s') ->
                   exists s', tds_apply a s = Ok s' /\ J s' /\ shape2 s s').
  { intros Hgd Hty. destruct (good_step a s HJ Hgd) as [s' [E [HJ' [R T]]]]. exists s'. split; [exact E|]. split; [exact HJ'|].
    split; [intros u; rewrite R; apply incl_refl|]. split; [exact T|]. intros u. apply Hty. exact E. }
  destruct a; cbn [good2] in Hg; try (apply Hother; [exact Hg|]; cbn [good] in Hg; try contradiction).
  - apply add_record_step; assumption.
  - intros s' u E. cbn [tds_apply] in E. eapply typed_bulk_update; exact E.
  - intros s' u E. cbn [tds_apply] in E. eapply typed_bulk_update; exact E.
  - intros s' u E. destruct Hg as [_ Hci]. eapply typed_add_column; eassumption.
Qed.

Lemma good2_shape : forall a s s', shape2 s s' -> good2 s a -> good2 s' a.
Proof.
  intros a s s' [Hr [Ht Hty]] Hg. destruct a; cbn [good2 good] in *; try contradiction.
  - apply Hty. exact Hg.
  - destruct Hg as [H1 H2]. split; [apply Ht; exact H1|apply (Hr t); exact H2].
  - destruct Hg as [H1 H2]. split; [apply Ht; exact H1|]. eapply Forall_impl; [|exact H2]. cbn beta. intros r0 Hin. apply (Hr t). exact Hin.
  - destruct Hg as [H1 H2]. split; [apply Ht; exact H1|exact H2].
Qed.

Lemma shape2_trans : forall a b c, shape2 a b -> shape2 b c -> shape2 a c.
Proof.
  intros a b c [R1 [T1 Y1]] [R2 [T2 Y2]]. split; [|split].
  - intros u. eapply incl_tran; [apply R1|apply R2].
  - intros u H. apply T2, T1. exact H.
  - intros u H. apply Y2, Y1. exact H.
Qed.

Lemma good2_all : forall acts s, J s -> Forall (good2 s) acts ->
  exists s', tds_apply_all acts s = Ok s' /\ J s' /\ shape2 s s'.
Proof.
  induction acts as [|a acts IH]; intros s HJ HF; cbn.
  - exists s. split; [reflexivity|]. split; [exact HJ|]. split; [intros; apply incl_refl|split; auto].
  - inversion HF as [|? ? Ha Hrest]; subst.
    destruct (good2_step a s HJ Ha) as [s1 [E1 [HJ1 Hs1]]]. rewrite E1. cbn [bind].
    destruct (IH s1 HJ1) as [s2 [E2 [HJ2 Hs2]]].
    { eapply Forall_impl; [|exact Hrest]. intros b. apply good2_shape. exact Hs1. }
    exists s2. split; [exact E2|]. split; [exact HJ2|eapply shape2_trans; eassumption].
Qed.

(* ---------- migration 10 ---------- *)
Definition pd_has {V} (p : val) (m : list (val * V)) : bool := existsb (py_eq p) (map fst m).

Lemma pd_get_has : forall {V} p (m : list (val * V)), pd_has p m = true <-> exists v, pd_get p m = Some v.
Proof.
  intros V p m. unfold pd_has. induction m as [|[k v] m IH]; cbn.
  - split; [discriminate|intros [v H]; discriminate].
  - destruct (py_eq p k); cbn; [split; eauto|exact IH].
Qed.

Lemma pd_set_keys : forall {V W} q (v : V) (w : W) m m',
  map fst m = map fst m' -> map fst (pd_set q v m) = map fst (pd_set q w m').
Proof.
  intros V W q v w m. induction m as [|[k x] m IH]; intros [|[k' x'] m'] E; cbn in *; try discriminate; [reflexivity|].
  injection E as -> E. destruct (py_eq q k'); cbn; [congruence|]. f_equal. apply IH. exact E.
Qed.

Lemma pd_set_has : forall {V} p q (w : V) m, pd_has p m = true -> pd_has p (pd_set q w m) = true.
Proof.
  intros V p q w m. unfold pd_has. induction m as [|[k x] m IH]; cbn; [discriminate|].
  destruct (py_eq q k); cbn; destruct (py_eq p k); cbn; auto.
Qed.

Lemma fold_keys : forall {A V W} (kf : A -> val) (f : A -> V) (g : A -> W) l acc acc',
  map fst acc = map fst acc' ->
  map fst (fold_left (fun m x => pd_set (kf x) (f x) m) l acc) = map fst (fold_left (fun m x => pd_set (kf x) (g x) m) l acc').
Proof.
  intros A V W kf f g l. induction l as [|x l IH]; intros acc acc' E; cbn; [exact E|].
  apply IH. apply pd_set_keys. exact E.
Qed.

Lemma next_id_ok : forall rows, forallb (fun r : rid => match r with Some _ => true | None => false end) rows = true ->
  exists z, next_id rows = Ok z.
Proof.
  intros rows H. destruct rows as [|[z|] rows]; cbn in *; try discriminate; [eauto|].
  assert (G : forall rows acc, forallb (fun r : rid => match r with Some _ => true | None => false end) rows = true ->
              exists m, max_id rows acc = Ok m).
  { induction rows0 as [|[y|] rows0 IH]; intros acc Hr; cbn in *; try discriminate; eauto. }
  destruct (G rows z H) as [m ->]. cbn. eauto.
Qed.

Section M10.
  Variable parse : str -> option json.
  Variable pick_col : list str -> str.
  Variable str_of_json : json -> str.
  Variable s : tds.

  Definition inv10 (tm : list (val * val)) (st : m10_state) : Prop :=
    (forall p, pd_has p tm = true -> pd_has p (snd (fst st)) = true) /\ Forall (good2 s) (snd st).

  Lemma m10_col_ok : forall tm st c,
    has_table T_COLUMNS s -> typed_table T_COLUMNS s -> In c (recs T_COLUMNS s) ->
    col_pre10_b s tm c = true -> inv10 tm st ->
    exists st', m10_col parse pick_col str_of_json tm st c = Ok st' /\ inv10 tm st'.
  Proof.
    intros tm [[row_id used] acc] c Hc Hty Hin Hpre [Hused Hacc]. unfold col_pre10_b in Hpre. split_pre Hpre.
    unfold m10_col.
    destruct (fld (zs "type") c) as [ty|] eqn:Ety; [|discriminate]. destruct ty; try discriminate. cbn [bind].
    destruct (negb (is_prefix (zs "Ref:") s0)); [eexists; split; [reflexivity|split; assumption]|].
    destruct (fld (zs "displayCol") c) as [dc|] eqn:Edc; [|discriminate]. cbn [bind].
    destruct (val_truthy dc); [eexists; split; [reflexivity|split; assumption]|].
    destruct (m10_visible parse c) as [v|]; [|eexists; split; [reflexivity|split; assumption]].
    destruct (fld (zs "colId") c) as [cid|] eqn:Ecid; [|discriminate]. cbn [bind].
    destruct cid; try discriminate; cbn [py_str bind].
    all: destruct (fld (zs "parentId") c) as [p|] eqn:Ep; [|discriminate]; cbn [bind];
      apply andb_prop in P; destruct P as [Hh Htm]; unfold hash_key; rewrite Hh; cbn [bind];
      destruct (pd_get p tm) as [tn|] eqn:Gtm; [|discriminate]; destruct tn; try discriminate;
      (assert (Hhas : pd_has p used = true) by (apply Hused; apply pd_get_has; eauto));
      apply pd_get_has in Hhas; destruct Hhas as [ids Gu]; rewrite Gu;
      (eexists; split; [reflexivity|]); split; cbn [fst snd];
      [intros q Hq; apply pd_set_has; apply Hused; exact Hq|];
      apply Forall_app; (split; [exact Hacc|]);
      (constructor; [split; [apply has_table_b_sound; exact Htm|apply mkci_typed]|]);
      (constructor; [exact Hty|]); (constructor; [|constructor]);
      (split; [exact Hc|apply recs_ids_in_rows; exact Hin]).
  Qed.

  Lemma m10_loop_ok : forall tm cs st,
    has_table T_COLUMNS s -> typed_table T_COLUMNS s -> (forall c, In c cs -> In c (recs T_COLUMNS s)) ->
    forallb (col_pre10_b s tm) cs = true -> inv10 tm st ->
    exists st', m10_loop parse pick_col str_of_json tm cs st = Ok st' /\ inv10 tm st'.
  Proof.
    intros tm cs. induction cs as [|c cs IH]; intros st Hc Hty Hsub Hpre Hinv; cbn [m10_loop]; [eauto|].
    cbn in Hpre. apply andb_prop in Hpre. destruct Hpre as [Hp Hrest].
    destruct (m10_col_ok tm st c Hc Hty (Hsub c (or_introl eq_refl)) Hp Hinv) as [st1 [E Hinv1]].
    rewrite E. cbn [bind]. apply IH; auto. intros c' H'. apply Hsub. right. exact H'.
  Qed.
End M10.

Lemma typed_table_b_sound : forall t s, typed_table_b t s = true -> typed_table t s.
Proof.
  intros t s H. unfold typed_table_b in H.
  destruct (lookup t (t_data s)) as [[rows cols]|] eqn:D; [|discriminate].
  destruct (lookup t (t_schema s)) as [sc|] eqn:S; [|discriminate].
  exists rows, cols, sc. split; [exact D|]. split; [exact S|]. cbn [snd] in H. rewrite forallb_forall in H. apply Forall_forall. intros cv Hin.
  specialize (H cv Hin). destruct (lookup (fst cv) sc) as [ci|]; [|discriminate]. exists ci. split; [reflexivity|apply ci_typed_b_sound; exact H].
Qed.

Lemma fold_left_map_list : forall {A B C} (f : C -> B -> C) (g : A -> B) l acc,
  fold_left f (map g l) acc = fold_left (fun a x => f a (g x)) l acc.
Proof. intros A B C f g l. induction l as [|x l IH]; intros acc; cbn; [reflexivity|apply IH]. Qed.

Lemma fold_keys2 : forall {V W} (l : list (val * V)) (l' : list (val * W)) acc acc',
  map fst l = map fst l' -> map fst acc = map fst acc' ->
  map fst (fold_left (fun m kv => pd_set (fst kv) (snd kv) m) l acc) =
  map fst (fold_left (fun m kv => pd_set (fst kv) (snd kv) m) l' acc').
Proof.
  intros V W l. induction l as [|[k v] l IH]; intros [|[k' v'] l'] acc acc' E Ea; cbn in *; try discriminate; [exact Ea|].
  injection E as -> E. apply IH; [exact E|]. apply pd_set_keys. exact Ea.
Qed.

Section M10_total.
  Variable parse : str -> option json.
  Variable pick_col : list str -> str.
  Variable str_of_json : json -> str.

  Definition tm_of (tables : list record) : list (val * val) :=
    map (fun t => (rid_val (fst t), match fld (zs "tableId") t with Ok n => n | Err _ => VNull end)) tables.

  Lemma tm_ok : forall s tables,
    forallb (fun t => match fld (zs "tableId") t with Ok (VStr n) => has n (t_data s) | _ => false end) tables = true ->
    mapM (fun t => bind (fld (zs "tableId") t) (fun n => Ok (rid_val (fst t), n))) tables = Ok (tm_of tables).
  Proof.
    intros s tables. unfold tm_of. induction tables as [|t tables IH]; intros H; cbn [map mapM]; [reflexivity|].
    cbn in H. apply andb_prop in H. destruct H as [Ht Hrest].
    destruct (fld (zs "tableId") t) as [n|]; [|discriminate]. cbn [bind]. rewrite (IH Hrest). reflexivity.
  Qed.

  Lemma tc_ok : forall s tables,
    forallb (fun t => match fld (zs "tableId") t with Ok (VStr n) => has n (t_data s) | _ => false end) tables = true ->
    exists tc, mapM (fun kv : val * val => bind (user_cols s (snd kv)) (fun ids => Ok (fst kv, ids))) (tm_of tables) = Ok tc /\
               map fst tc = map fst (tm_of tables).
  Proof.
    intros s tables. unfold tm_of. induction tables as [|t tables IH]; intros H; cbn [map mapM]; [exists []; split; reflexivity|].
    cbn in H. apply andb_prop in H. destruct H as [Ht Hrest].
    destruct (fld (zs "tableId") t) as [n|]; [|discriminate]. destruct n; try discriminate.
    unfold user_cols at 1. cbn [snd hash_key hashable bind]. unfold has in Ht.
    destruct (lookup s0 (t_data s)) as [td|]; [|discriminate]. cbn [bind].
    destruct (IH Hrest) as [tc [E K]]. rewrite E. cbn [bind]. eexists. split; [reflexivity|]. cbn. rewrite K. reflexivity.
  Qed.

  Theorem m10_total : forall s, pre10 s = true ->
    exists acts s', m10 parse pick_col str_of_json s = Ok acts /\ tds_apply_all acts s = Ok s' /\ J s'.
  Proof.
    intros s H. unfold pre10 in H. split_pre H.
    pose proof (J_b_sound _ H) as HJ. pose proof (has_table_b_sound _ _ P4) as Ht.
    pose proof (has_table_b_sound _ _ P3) as Hc. pose proof (typed_table_b_sound _ _ P2) as Hty.
    unfold m10. rewrite (table_records_ok _ _ Ht), (table_records_ok _ _ Hc). cbn [bind].
    rewrite (tm_ok s _ P1). cbn [bind].
    destruct (tc_ok s _ P1) as [tc [Etc Ktc]]. rewrite Etc. cbn [bind].
    destruct (next_id_ok _ P0) as [rid0 ->]. cbn [bind].
    set (tmap := fold_left (fun acc kv => pd_set (fst kv) (snd kv) acc) (tm_of (recs T_TABLES s)) []).
    assert (Etm : tmap = tables_map_of (recs T_TABLES s)).
    { unfold tmap, tm_of, tables_map_of. rewrite fold_left_map_list. reflexivity. }
    set (used := fold_left (fun acc kv => pd_set (fst kv) (snd kv) acc) tc []).
    assert (Hkeys : map fst used = map fst tmap) by (apply fold_keys2; [exact Ktc|reflexivity]).
    destruct (m10_loop_ok parse pick_col str_of_json s tmap (recs T_COLUMNS s) (rid0, used, [])) as [st' [E [_ Hacc]]]; auto.
    - rewrite Etm. exact P.
    - split; [|constructor]. intros p Hp. unfold pd_has in *. cbn [fst snd]. rewrite Hkeys. exact Hp.
    - rewrite E. cbn [bind].
      destruct (good2_all (snd st') s HJ Hacc) as [s' [E2 [HJ' _]]]. eauto.
  Qed.
End M10_total.

(* ---------- migration 7: the body returns (application of what it emits is covered by the tie only) ---------- *)
Lemma filterM_ok : forall {A} (f : A -> res bool) l,
  Forall (fun x => exists b, f x = Ok b) l -> exists r, filterM f l = Ok r /\ incl r l.
Proof.
  intros A f l H. induction H as [|x l [b Hb] _ [r [E I]]]; cbn.
  - exists []. split; [reflexivity|apply incl_refl].
  - rewrite Hb. cbn [bind]. rewrite E. cbn [bind]. destruct b; eexists; (split; [reflexivity|]).
    + intros y [<-|Hy]; [left; reflexivity|right; apply I; exact Hy].
    + apply incl_tl. exact I.
Qed.

Lemma all_eq_ok : forall c conds, Forall (fun fv => exists x, fld (fst fv) c = Ok x) conds ->
  exists b, all_eq c conds = Ok b.
Proof.
  intros c conds H. induction H as [|[f v] conds [x Hx] _ IH]; cbn [all_eq]; [eauto|].
  cbn [fst] in Hx. rewrite Hx. cbn [bind]. destruct (py_eq x v); [exact IH|eauto].
Qed.

Section M7.
  Variable summary_match : str -> option (str * str).
  Variable pick_table : str -> list str -> str.
  Variable s : tds.

  Definition colp (c : record) : Prop := col_pre7 s c = true.

  Lemma colp_fields : forall c, colp c ->
    (exists p, fld (zs "parentId") c = Ok p /\ hashable p = true /\
               exists t n, pd_get p (tables_by_id s) = Some t /\ fld (zs "tableId") t = Ok (VStr n)) /\
    (exists n, fld (zs "colId") c = Ok (VStr n)) /\ (exists f, fld (zs "formula") c = Ok f) /\
    (exists f, fld (zs "isFormula") c = Ok f) /\ rec_hashable c = Ok tt.
  Proof.
    intros c H. unfold colp, col_pre7 in H. split_pre H.
    destruct (fld (zs "parentId") c) as [p|]; [|discriminate H]. apply andb_prop in H. destruct H as [Hh Ht].
    destruct (pd_get p (tables_by_id s)) as [t|] eqn:Eg; [|discriminate Ht].
    destruct (fld (zs "tableId") t) as [n|] eqn:En; [|discriminate Ht]. destruct n; try discriminate Ht.
    destruct (fld (zs "colId") c) as [ci|]; [|discriminate P2]. destruct ci; try discriminate P2.
    destruct (fld (zs "formula") c) as [fo|]; [|discriminate P1]. destruct (fld (zs "isFormula") c) as [isf|]; [|discriminate P0].
    split; [exists p; split; [reflexivity|split; [exact Hh|exists t, s0; split; [exact Eg|exact En]]]|].
    split; [eexists; reflexivity|]. split; [eexists; reflexivity|]. split; [eexists; reflexivity|].
    unfold rec_hashable. rewrite P. reflexivity.
  Qed.

  Lemma colp_all_eq : forall c conds, colp c ->
    Forall (fun fv => In (fst fv) [zs "parentId"; zs "colId"; zs "formula"]) conds ->
    exists b, all_eq c conds = Ok b.
  Proof.
    intros c conds Hc H. destruct (colp_fields c Hc) as [[p [Hp _]] [[n Hn] [[f Hf] _]]].
    apply all_eq_ok. eapply Forall_impl; [|exact H]. cbn beta. intros [k v] Hin. cbn [fst] in *.
    destruct Hin as [<-|[<-|[<-|[]]]]; eauto.
  Qed.
End M7.

Section M7b.
  Variable summary_match : str -> option (str * str).
  Variable pick_table : str -> list str -> str.
  Variable s : tds.

  Lemma groupby_ok : forall by_tc t refs gb sc,
    Forall (fun kv => colp s (snd kv)) by_tc ->
    Forall (fun z => exists c n, pd_get (VInt z) (cols_by_id s) = Some c /\ fld (zs "colId") c = Ok (VStr n)) refs ->
    exists r, m7_groupby (cols_by_id s) by_tc t refs gb sc = Ok r.
  Proof.
    intros by_tc t refs. induction refs as [|z refs IH]; intros gb sc Htc Hr; cbn [m7_groupby]; [eauto|].
    inversion Hr as [|? ? [c [n [Hc Hn]]] Hrest]; subst. rewrite Hc, Hn. cbn [bind hash_key hashable].
    destruct (pd_get (VList [rid_val (fst t); VStr n]) by_tc) as [sum_col|] eqn:G; [|apply IH; assumption].
    pose proof (pd_get_forall (colp s) _ by_tc sum_col Htc G) as Hp.
    destruct (colp_fields s sum_col Hp) as [_ [_ [_ [_ Hh]]]]. rewrite Hh. cbn [bind]. apply IH; assumption.
  Qed.

  Lemma rm2_ok : forall t gb c, colp s c -> exists b, m7_rm2 t gb c = Ok b.
  Proof.
    intros t gb c Hc. unfold m7_rm2.
    destruct (colp_all_eq s c [(zs "parentId", rid_val (fst t))] Hc) as [own ->]; [repeat (apply Forall_cons; [cbn [In fst]; auto 7|]); apply Forall_nil|].
    cbn [bind]. destruct (negb own); [eauto|].
    destruct (colp_fields s c Hc) as [_ [_ [_ [[f Hf] Hh]]]]. rewrite Hh. cbn [bind].
    destruct (existsb (rec_eqb c) gb); [eauto|]. rewrite Hf. cbn [bind]. eauto.
  Qed.

  Definition inv7 (st : m7_state) : Prop :=
    Forall (fun v => is_text v = true) (s7_names st) /\ Forall (colp s) (s7_remove st) /\
    Forall (fun f : record * str * str => colp s (fst (fst f))) (s7_formulas st) /\
    Forall (fun tr : record * str => exists n, fld (zs "tableId") (fst tr) = Ok (VStr n)) (s7_renames st).

  Lemma as_str_names : forall names, Forall (fun v => is_text v = true) names -> exists l, mapM (as_str AttrErr) names = Ok l.
  Proof.
    intros names H. destruct (mapM_ok (as_str AttrErr) names) as [l [E _]]; [|eauto].
    eapply Forall_impl; [|exact H]. cbn beta. intros v Hv. destruct v; try discriminate. cbn. eauto.
  Qed.

  Lemma incl_forall : forall {A} (P : A -> Prop) l l', incl l l' -> Forall P l' -> Forall P l.
  Proof. intros A P l l' I H. rewrite Forall_forall in *. intros x Hx. apply H, I, Hx. Qed.

  Lemma m7_table_ok : forall by_tc st t,
    Forall (colp s) (recs T_COLUMNS s) -> Forall (fun kv => colp s (snd kv)) by_tc ->
    table_pre7 summary_match s t = true -> inv7 st ->
    exists st', m7_table summary_match pick_table (name_to_ref_of s) (recs T_COLUMNS s) (cols_by_id s) by_tc st t = Ok st' /\
                inv7 st'.
  Proof.
    intros by_tc st t Hcols Htc Hpre [Hn [Hrm [Hfu Hre]]]. unfold table_pre7 in Hpre. unfold m7_table.
    destruct (fld (zs "tableId") t) as [tid|] eqn:Et; [|discriminate]. destruct tid; try discriminate. cbn [bind as_str].
    destruct (summary_match s0) as [[g1 g2]|]; [|exists st; split; [reflexivity|repeat split; assumption]].
    destruct (pd_get (VStr g1) (name_to_ref_of s)) as [src_ref|]; [|exists st; split; [reflexivity|repeat split; assumption]].
    destruct (parse_refs g2) as [refs|]; [|discriminate]. cbn [bind].
    rewrite forallb_forall in Hpre.
    assert (Hrefs : Forall (fun z => exists c n, pd_get (VInt z) (cols_by_id s) = Some c /\ fld (zs "colId") c = Ok (VStr n)) refs).
    { apply Forall_forall. intros z Hz. specialize (Hpre z Hz).
      destruct (pd_get (VInt z) (cols_by_id s)) as [c|]; [|discriminate].
      destruct (fld (zs "colId") c) as [ci|] eqn:Ec; [|discriminate]. destruct ci; try discriminate. eauto. }
    destruct (mapM_ok (fun z => match pd_get (VInt z) (cols_by_id s) with
                                | Some c => bind (fld (zs "colId") c) (as_str TypeErr)
                                | None => Err KeyErr end) refs) as [ids [-> _]].
    { eapply Forall_impl; [|exact Hrefs]. cbn beta. intros z [c [n [-> ->]]]. cbn. eauto. }
    cbn [bind]. destruct (as_str_names _ Hn) as [avoid ->]. cbn [bind].
    destruct (filterM_ok (fun c => all_eq c [(zs "parentId", rid_val src_ref); (zs "colId", VStr s0)]) (recs T_COLUMNS s))
      as [rm1 [-> I1]].
    { eapply Forall_impl; [|exact Hcols]. cbn beta. intros c Hc. apply (colp_all_eq s c); [exact Hc|repeat (apply Forall_cons; [cbn [In fst]; auto 7|]); apply Forall_nil]. }
    cbn [bind].
    match goal with |- context [filterM ?f (recs T_COLUMNS s)] => destruct (filterM_ok f (recs T_COLUMNS s)) as [fu [-> I2]] end.
    { eapply Forall_impl; [|exact Hcols]. cbn beta. intros c Hc. apply (colp_all_eq s c); [exact Hc|repeat (apply Forall_cons; [cbn [In fst]; auto 7|]); apply Forall_nil]. }
    cbn [bind]. destruct (groupby_ok by_tc t refs [] [] Htc Hrefs) as [[gb sc] ->]. cbn [bind].
    destruct (filterM_ok (m7_rm2 t gb) (recs T_COLUMNS s)) as [rm2 [-> I3]].
    { eapply Forall_impl; [|exact Hcols]. cbn beta. intros c Hc. apply rm2_ok. exact Hc. }
    cbn [bind]. eexists. split; [reflexivity|]. unfold inv7. cbn [s7_names s7_remove s7_formulas s7_renames].
    split; [apply Forall_app; split; [exact Hn|repeat constructor]|].
    split; [apply Forall_app; split; [exact Hrm|apply Forall_app; split; eapply incl_forall; eassumption]|].
    split; [apply Forall_app; split; [exact Hfu|]|apply Forall_app; split; [exact Hre|repeat constructor; cbn; eauto]].
    apply Forall_forall. intros f Hf. apply in_map_iff in Hf. destruct Hf as [c [<- Hc]]. cbn [fst].
    rewrite Forall_forall in Hcols. apply Hcols, I2, Hc.
  Qed.

  Lemma m7_loop_ok : forall by_tc ts st,
    Forall (colp s) (recs T_COLUMNS s) -> Forall (fun kv => colp s (snd kv)) by_tc ->
    Forall (fun t => table_pre7 summary_match s t = true) ts -> inv7 st ->
    exists st', m7_loop summary_match pick_table (name_to_ref_of s) (recs T_COLUMNS s) (cols_by_id s) by_tc ts st = Ok st' /\ inv7 st'.
  Proof.
    intros by_tc ts. induction ts as [|t ts IH]; intros st Hc Htc Hts Hinv; cbn [m7_loop]; [eauto|].
    inversion Hts; subst. destruct (m7_table_ok by_tc st t Hc Htc) as [st1 [-> Hinv1]]; auto. cbn [bind]. apply IH; auto.
  Qed.
End M7b.

Section M7c.
  Variable summary_match : str -> option (str * str).
  Variable pick_table : str -> list str -> str.
  Variable s : tds.

  Lemma pair_index_rec_ok : forall rs, Forall (colp s) rs ->
    exists by_tc, pair_index_rec rs = Ok by_tc /\ Forall (fun kv => colp s (snd kv)) by_tc.
  Proof.
    intros rs H. unfold pair_index_rec.
    match goal with |- exists b, ?G rs [] = Ok b /\ _ =>
      assert (A : forall l acc, Forall (colp s) l -> Forall (fun kv => colp s (snd kv)) acc ->
                  exists b, G l acc = Ok b /\ Forall (fun kv => colp s (snd kv)) b) end.
    { induction l as [|r l IH]; intros acc Hl Hacc; [eauto|].
      inversion Hl as [|? ? Hr Hrest]; subst.
      destruct (colp_fields s r Hr) as [[p [Hp [Hh _]]] [[n Hn] _]].
      unfold pair_key. rewrite Hp. cbn [bind]. unfold hash_key. rewrite Hh. cbn [bind]. rewrite Hn. cbn [bind hashable].
      apply IH; [exact Hrest|]. apply pd_set_forall; assumption. }
    apply A; [exact H|constructor].
  Qed.

  Lemma table_pre7_tableId : forall t, table_pre7 summary_match s t = true -> exists n, fld (zs "tableId") t = Ok (VStr n).
  Proof.
    intros t H. unfold table_pre7 in H. destruct (fld (zs "tableId") t) as [v|]; [|discriminate]. destruct v; try discriminate. eauto.
  Qed.

  Lemma mapM_some : forall {A B} (f : A -> res B) l, Forall (fun x => exists y, f x = Ok y) l -> exists ys, mapM f l = Ok ys.
  Proof. intros A B f l H. destruct (mapM_ok f l H) as [ys [E _]]. eauto. Qed.

  Lemma remove_act_ok : forall c, colp s c -> exists a, m7_remove_act (tables_by_id s) c = Ok a.
  Proof.
    intros c Hp. destruct (colp_fields s c Hp) as [[p [Hp1 [Hh [t [n [Hg Hn]]]]]] [[cn Hcn] _]].
    unfold m7_remove_act, m7_tname. rewrite Hp1. cbn [bind]. unfold hash_key. rewrite Hh. cbn [bind].
    rewrite Hg, Hn. cbn [bind as_str]. rewrite Hcn. cbn. eauto.
  Qed.

  Ltac step_ok tac :=
    match goal with |- exists acts, bind ?A _ = _ =>
      let H := fresh "Hs" in assert (H : exists r, A = Ok r) by tac; destruct H as [? ->]; cbn [bind] end.

  Theorem m7_body_total : pre7 summary_match s = true -> exists acts, m7 summary_match pick_table s = Ok acts.
  Proof.
    intros H. unfold pre7 in H. split_pre H.
    pose proof (has_table_b_sound _ _ H) as Ht. pose proof (has_table_b_sound _ _ P1) as Hc.
    assert (Hcols : Forall (colp s) (recs T_COLUMNS s)).
    { apply Forall_forall. intros c Hin. rewrite forallb_forall in P. apply P. exact Hin. }
    assert (Htabs : Forall (fun t => table_pre7 summary_match s t = true) (recs T_TABLES s)).
    { apply Forall_forall. intros t Hin. rewrite forallb_forall in P0. apply P0. exact Hin. }
    assert (Htv : Forall (fun kv => table_pre7 summary_match s (snd kv) = true) (tables_by_id s)).
    { unfold tables_by_id. apply (by_id_forall (fun t => table_pre7 summary_match s t = true)); [exact Htabs|constructor]. }
    unfold m7, has_col. destruct Ht as [td1 Ht1]. destruct Hc as [td2 Hc2]. rewrite Ht1. cbn [bind]. rewrite Hc2. cbn [bind].
    rewrite (table_records_ok T_TABLES s (ex_intro _ td1 Ht1)). cbn [bind]. cbv zeta.
    fold (tables_by_id s).
    match goal with |- exists acts, bind ?A _ = _ =>
      assert (Hidx : exists m, A = Ok m /\ name_to_ref_of s = m) end.
    { match goal with |- exists m, ?A = _ /\ _ => destruct (index_by_ok (fld (zs "tableId")) (fun t : record => fst t) (map snd (tables_by_id s)) []) as [m Em] end.
      { apply Forall_forall. intros t Hin. apply in_map_iff in Hin. destruct Hin as [kv [<- Hkv]].
        rewrite Forall_forall in Htv. destruct (table_pre7_tableId _ (Htv kv Hkv)) as [n Hn]. exists (VStr n). split; [exact Hn|reflexivity]. }
      exists m. split; [exact Em|]. unfold name_to_ref_of. rewrite Em. reflexivity. }
    destruct Hidx as [n2r [En Hn2r]]. rewrite En. cbn [bind].
    rewrite (table_records_ok T_COLUMNS s (ex_intro _ td2 Hc2)). cbn [bind]. cbv zeta.
    fold (cols_by_id s).
    destruct (pair_index_rec_ok _ Hcols) as [by_tc [-> Htc]]. cbn [bind].
    rewrite <- Hn2r.
    match goal with |- exists acts, bind ?A _ = _ => assert (Hl : exists st, A = Ok st /\ inv7 s st) end.
    { apply m7_loop_ok; auto.
    { apply Forall_forall. intros t Hin. apply in_map_iff in Hin. destruct Hin as [kv [<- Hkv]].
      rewrite Forall_forall in Htv. exact (Htv kv Hkv). }
    { unfold inv7. cbn [s7_names s7_remove s7_formulas s7_renames]. repeat split; try constructor.
      (* the initial name set: the keys of name_to_ref are the tableId cells, all strings *)
      rewrite Hn2r. clear -En Htv.
      assert (G : forall l acc m, index_by (fld (zs "tableId")) (fun t : record => fst t) l acc = Ok m ->
                  Forall (fun t => exists n, fld (zs "tableId") t = Ok (VStr n)) l ->
                  Forall (fun kv : val * rid => is_text (fst kv) = true) acc -> Forall (fun kv : val * rid => is_text (fst kv) = true) m).
      { induction l as [|t l IH]; intros acc m E Hl Hacc; cbn in E; [injection E as <-; exact Hacc|].
        inversion Hl as [|? ? [n Hn] Hrest]; subst. rewrite Hn in E. cbn in E. eapply IH; [exact E|exact Hrest|].
        clear -Hacc. induction Hacc as [|[k v] acc Hk Ha IH]; cbn [pd_set]; [repeat constructor|].
        destruct (py_eq (VStr n) k); constructor; auto. }
      apply (proj2 (Forall_map fst (fun v => is_text v = true) n2r)).
      eapply G; [exact En| |constructor].
      apply Forall_forall. intros t Hin. apply in_map_iff in Hin. destruct Hin as [kv [<- Hkv]].
      rewrite Forall_forall in Htv. exact (table_pre7_tableId _ (Htv kv Hkv)). } }
    destruct Hl as [st [-> [_ [Hrm [Hfu Hre]]]]]. cbn [bind].
    step_ok ltac:(apply mapM_some; eapply Forall_impl; [|exact Hrm]; cbn beta; intros c Hp; apply remove_act_ok; exact Hp).
    step_ok ltac:(apply mapM_some; eapply Forall_impl; [|exact Hre]; cbn beta; intros tr [n Hn];
                  unfold m7_rename_act; rewrite Hn; cbn; eauto).
    step_ok ltac:(apply mapM_some; eapply Forall_impl; [|exact Hfu]; cbn beta; intros f Hp;
                  destruct (colp_fields s _ Hp) as [_ [[cn Hcn] _]]; unfold m7_modify_act; rewrite Hcn; cbn; eauto).
    eauto.
  Qed.
End M7c.

(* ---------- migrations 4 and 39 ---------- *)
Lemma m4_total : forall s, pre4 s = true -> exists acts s', m4 s = Ok acts /\ tds_apply_all acts s = Ok s' /\ J s'.
Proof.
  intros s H. unfold pre4 in H. split_pre H. pose proof (J_b_sound _ H) as HJ. pose proof (has_table_b_sound _ _ P) as Ht.
  unfold m4. destruct Ht as [td Htd]. rewrite Htd.
  eexists. edestruct good_all as [s' [E [HJ' _]]]; [exact HJ| |exists s'; split; [reflexivity|split; [exact E|exact HJ']]].
  constructor; [split; [exists td; exact Htd|apply mkci_typed]|]. constructor; [|constructor].
  split; [exists td; exact Htd|]. unfold rows_of. rewrite Htd. apply Forall_forall. auto.
Qed.

Lemma m39_total : forall s, pre39 s = true -> exists acts s', m39 s = Ok acts /\ tds_apply_all acts s = Ok s' /\ J s'.
Proof.
  intros s H. unfold pre39 in H. split_pre H. pose proof (J_b_sound _ H) as HJ.
  pose proof (has_table_b_sound _ _ P0) as Ht. pose proof (has_table_b_sound _ _ P) as Hs.
  unfold m39, has_col. destruct Ht as [td Htd]. destruct Hs as [sd Hsd]. rewrite Htd. cbn [bind].
  assert (G : forall part1, Forall (good s) part1 ->
              exists acts s', bind (match lookup T_SECTIONS (t_data s) with
                                    | Some td0 => Ok (has (zs "description") (snd td0)) | None => Err KeyErr end)
                                (fun has_desc => Ok (part1 ++ (if has_desc then [] else [add_column T_SECTIONS (zs "description") (zs "Text")])))
                             = Ok acts /\ tds_apply_all acts s = Ok s' /\ J s').
  { intros part1 Hp. rewrite Hsd. cbn [bind].
    eexists. edestruct good_all as [s' [E [HJ' _]]]; [exact HJ| |exists s'; split; [reflexivity|split; [exact E|exact HJ']]].
    apply Forall_app. split; [exact Hp|]. destruct (has (zs "description") (snd sd)); [constructor|].
    constructor; [|constructor]. split; [exists sd; exact Hsd|apply mkci_typed]. }
  destruct (has (zs "memo") (snd td)).
  - cbn [bind]. apply G. constructor.
  - rewrite (table_records_ok T_TRIGGERS s (ex_intro _ td Htd)). cbn [bind]. apply G.
    repeat (constructor; [split; [exists td; exact Htd|apply mkci_typed]|]). constructor; [|constructor].
    split; [exists td; exact Htd|]. apply Forall_forall. intros r Hr. apply in_map_iff in Hr. destruct Hr as [x [<- Hx]].
    apply recs_ids_in_rows. exact Hx.
Qed.
