(* C20: total correctness of the model on particular paths -- the renumber-all range is 1..n, and appending
   to a table whose last position is a small integer (incl. the empty table) never adjusts anything. *)
From Coq Require Import ZArith List Bool Lia Sorted Permutation.
Import ListNotations.
Require Import Grist.Lib.Fl64 Grist.Proofs.Fl64_proofs Grist.Model.Relabel Grist.Proofs.Sort_by_proofs
               Grist.Proofs.Relabel_ungroup_proofs Grist.Proofs.Relabel_check_proofs.
Open Scope Z_scope.

(* ---------------------------------------------------------------------------------------------- *)
(* get_range between two small integers that are count+1 apart: the integers in between *)

Lemma get_range_int b m : 0 <= b -> 0 <= m -> b + m + 1 < 2 ^ 53 ->
  get_range (fint b) (fint (b + m + 1)) m = map (fun k => fint (b + k)) (zrange 1 (m + 1)).
Proof.
  intros Hb Hm Hlim. unfold get_range.
  rewrite fsub_int by lia. replace (b + m + 1 - b) with (m + 1) by lia.
  rewrite of_Z_int by lia. rewrite fdiv_int_self by lia.
  destruct (prevfloat_int_ge (b + m)) as (u & Hu & Hge); [lia | lia |].
  replace (b + m + 1) with (b + m + 1) in Hu by reflexivity. rewrite Hu.
  apply map_ext_in. intros k Hk. apply zrange_In in Hk.
  rewrite of_Z_int by lia. rewrite fmul_one_int by lia. rewrite fadd_int by lia.
  unfold fmin. replace (flt (FFin false u) (fint (b + k))) with false; [reflexivity|].
  symmetry. unfold flt. cbn [is_nan negb andb]. apply Z.ltb_ge. rewrite ford_fint. cbn [ford].
  assert (0 < 2 ^ 1074) by (apply pow2_pos'; lia). nia.
Qed.

(* _adjust_all: the new keys for N rows are 1.0, 2.0, ..., N.0 *)
Theorem renumber_all_ok N : 0 <= N -> N + 1 < 2 ^ 53 ->
  get_range fzero (fadd (of_Z N) (of_Z 1)) N = map of_Z (zrange 1 (N + 1)).
Proof.
  intros HN Hlim. rewrite !of_Z_int by lia. rewrite fadd_int by lia.
  change fzero with (fint 0). replace (N + 1) with (0 + N + 1) at 1 by lia. rewrite (get_range_int 0 N) by lia.
  apply map_ext_in. intros k Hk. apply zrange_In in Hk. rewrite of_Z_int by lia. reflexivity.
Qed.

(* ---------------------------------------------------------------------------------------------- *)
(* helpers *)

Lemma sorted_fint l : StronglySorted Z.lt l -> StronglySorted Flt (map fint l).
Proof.
  induction 1 as [|x t Hs IH Hx]; cbn; constructor; [assumption|].
  rewrite Forall_forall in *. intros y Hy. apply in_map_iff in Hy. destruct Hy as (z & <- & Hz).
  unfold Flt. rewrite flt_fint. apply Z.ltb_lt. apply Hx. exact Hz.
Qed.

Lemma all_distinct_sorted l : StronglySorted Flt l -> all_distinct l = true.
Proof.
  induction 1 as [|x t Hs IH Hx]; [reflexivity|]. destruct t as [|y t]; [reflexivity|].
  change (all_distinct (x :: y :: t)) with (negb (feq x y) && all_distinct (y :: t)). rewrite IH, andb_true_r. inversion Hx as [|? ? Hxy _]; subst.
  unfold Flt in Hxy. apply flt_iff in Hxy. destruct (feq x y) eqn:E; [|reflexivity].
  apply feq_iff in E. lia.
Qed.

Lemma sl_add_last v : forall l, Forall (fun y => fle y v = true) l -> sl_add v l = l ++ [v].
Proof.
  induction l as [|y t IH]; intros H; cbn; [reflexivity|].
  inversion H as [|? ? Hy Ht]; subst. rewrite Hy. f_equal. apply IH. exact Ht.
Qed.

Lemma sl_update_sorted vs : forall acc, StronglySorted Flt (acc ++ vs) -> sl_update acc vs = acc ++ vs.
Proof.
  unfold sl_update. induction vs as [|v t IH]; intros acc H; cbn; [rewrite app_nil_r; reflexivity|].
  rewrite sl_add_last.
  - rewrite IH; rewrite <- app_assoc; [reflexivity | exact H].
  - rewrite Forall_forall. intros y Hy. apply flt_fle.
    assert (Hs : StronglySorted Flt (acc ++ [v])).
    { replace (acc ++ v :: t) with ((acc ++ [v]) ++ t) in H by (rewrite <- app_assoc; reflexivity).
      clear - H. revert H. generalize (acc ++ [v]) as l. induction l as [|x l IHl]; intros H; [constructor|].
      cbn in H. inversion H as [|? ? H1 H2]; subst. constructor; [apply IHl; assumption|].
      rewrite Forall_forall in *. intros z Hz. apply H2. apply in_or_app. left. exact Hz. }
    clear - Hs Hy. induction acc as [|x acc IHa]; [destruct Hy|]. cbn in Hs. inversion Hs as [|? ? H1 H2]; subst.
    destruct Hy as [->|Hy]; [|apply IHa; assumption].
    rewrite Forall_forall in H2. apply H2. apply in_or_app. right. left. reflexivity.
Qed.

Lemma bkl_all orig key : (forall x, In x orig -> flt x key = true) -> bkl orig key = lenZ orig.
Proof.
  unfold lenZ. induction orig as [|x t IH]; intros H; cbn [bkl length]; [reflexivity|].
  rewrite (H x (or_introl eq_refl)). rewrite IH by (intros; apply H; right; assumption). lia.
Qed.

Lemma group_counts_repeat c m : (0 < m)%nat -> group_counts (repeat c m) = [(c, Z.of_nat m)].
Proof.
  induction m as [|m IH]; intros Hm; [lia|]. destruct m as [|m]; [reflexivity|].
  change (repeat c (S (S m))) with (c :: repeat c (S m)). cbn [group_counts]. rewrite IH by lia.
  rewrite Z.eqb_refl. f_equal. f_equal. lia.
Qed.

Lemma map_const {A B} (c : B) (l : list A) : map (fun _ => c) l = repeat c (length l).
Proof. induction l; cbn; congruence. Qed.

Lemma nth_last {A} (l : list A) d d' : l <> [] -> nth (length l - 1) l d = last l d'.
Proof.
  induction l as [|x t IH]; intros H; [congruence|]. destruct t as [|y t]; [reflexivity|].
  replace (length (x :: y :: t) - 1)%nat with (S (length (y :: t) - 1))%nat by (cbn [length]; lia).
  change (nth (S (length (y :: t) - 1)) (x :: y :: t) d) with (nth (length (y :: t) - 1) (y :: t) d).
  rewrite IH by discriminate. reflexivity.
Qed.

Lemma filter_all {A} (f : A -> bool) l : (forall x, In x l -> f x = true) -> filter f l = l.
Proof.
  induction l as [|x t IH]; intros H; cbn; [reflexivity|].
  rewrite (H x (or_introl eq_refl)). f_equal. apply IH. intros; apply H; right; assumption.
Qed.

Lemma adj_get_key_nil orig i : adj_get_key orig (mkwl [] []) i = nthZ orig i FNaN.
Proof. reflexivity. Qed.

(* ---------------------------------------------------------------------------------------------- *)
(* appending *)

Section Append.
Variables (orig keys : list fl) (b : Z).
Hypothesis HPre : Pre orig keys.
Hypothesis Hkeys : keys <> [].
Hypothesis Hb : 0 <= b.
Hypothesis Hlim : b + Z.of_nat (length keys) + 1 < 2 ^ 53.
(* the last existing position (0.0 for an empty table) is the integer b ... *)
Hypothesis Hlast : last orig fzero = fint b.
(* ... and every request lies above every existing position (e.g. the default +inf) *)
Hypothesis Habove : forall x k, In x orig -> In k keys -> flt x k = true.

Let m := Z.of_nat (length keys).
Let L := map (fun k => fint (b + k)) (zrange 1 (m + 1)).

Lemma append_groups : ins_groups orig keys = [(lenZ orig, m)].
Proof.
  unfold ins_groups.
  assert (Hmap : map (fun p => bkl orig (fst p)) (sorted_requests keys) =
                 repeat (lenZ orig) (length keys)).
  { assert (Hl : length (sorted_requests keys) = length keys).
    { unfold sorted_requests. rewrite sort_by_length, combine_length, zrange_length. unfold lenZ. lia. }
    rewrite <- Hl. rewrite <- map_const. apply map_ext_in. intros p Hp.
    apply bkl_all. intros x Hx. apply Habove; [exact Hx|].
    unfold sorted_requests in Hp. apply (proj1 (sort_by_In pair_lt _ _)) in Hp. destruct p as [k i]. apply in_combine_l in Hp. exact Hp. }
  rewrite Hmap. apply group_counts_repeat. destruct keys; [congruence | cbn; lia].
Qed.

Lemma L_sorted : StronglySorted Flt L.
Proof.
  unfold L. rewrite <- (map_map (fun k => b + k) fint). apply sorted_fint.
  pose proof (zrange_sorted 1 (m + 1)) as H. induction H as [|x t Hs IH Hx]; cbn; constructor; [assumption|].
  rewrite Forall_forall in *. intros y Hy. apply in_map_iff in Hy. destruct Hy as (z & <- & Hz).
  specialize (Hx z Hz). lia.
Qed.

Lemma L_len : length L = length keys.
Proof. unfold L. rewrite map_length, zrange_length. unfold m. lia. Qed.

Lemma L_In x : In x L -> exists k, 1 <= k <= m /\ x = fint (b + k).
Proof.
  unfold L. intros H. apply in_map_iff in H. destruct H as (k & <- & Hk). apply zrange_In in Hk.
  exists k. split; [lia | reflexivity].
Qed.

Lemma m_pos : 0 < m.
Proof. unfold m. destruct keys; [congruence | cbn; lia]. Qed.

Lemma begin_is_b :
  (if 0 <? lenZ orig then adj_get_key orig (mkwl [] []) (lenZ orig - 1) else fzero) = fint b.
Proof.
  destruct orig as [|x t] eqn:E.
  - cbn. cbn in Hlast. exact Hlast.
  - replace (0 <? lenZ (x :: t)) with true by (symmetry; apply Z.ltb_lt; unfold lenZ; cbn; lia).
    rewrite adj_get_key_nil. unfold nthZ. replace (Z.to_nat (lenZ (x :: t) - 1)) with (length (x :: t) - 1)%nat by (unfold lenZ; lia).
    rewrite (nth_last _ FNaN fzero) by discriminate. exact Hlast.
Qed.

Lemma append_prep :
  prep_inserts_at_index orig (mkwl [] []) (lenZ orig) m = Ok (mkwl [] L).
Proof.
  unfold prep_inserts_at_index. pose proof m_pos as Hm.
  replace (m <=? 0) with false by (symmetry; apply Z.leb_gt; lia).
  rewrite begin_is_b. rewrite Z.ltb_irrefl.
  rewrite !of_Z_int by (fold m in Hlim; lia). rewrite fadd_int by (fold m in Hlim; lia).
  rewrite fadd_int by (fold m in Hlim; lia).
  change fzero with (fint 0). rewrite flt_fint, fle_fint.
  replace (b <? 0) with false by (symmetry; apply Z.ltb_ge; lia).
  replace (b + m + 1 <=? 0) with false by (symmetry; apply Z.leb_gt; lia).
  cbn [orb]. unfold fmax. rewrite flt_fint.
  replace (b <? b + m + 1) with true by (symmetry; apply Z.ltb_lt; lia). cbn [is_inf fint].
  rewrite (get_range_int b m) by (fold m in Hlim; lia). fold L. cbn [adjs inss].
    rewrite (sl_update_sorted L []) by (cbn; apply L_sorted). cbn [app].
    assert (Hir : sl_irange L (fint b) (fint (b + m + 1)) = L).
    { unfold sl_irange. apply filter_all. intros x Hx. destruct (L_In x Hx) as (k & Hk & ->).
      rewrite !fle_fint. apply andb_true_intro. split; apply Z.leb_le; lia. }
    rewrite Hir.
    assert (Hvalid : is_valid_range (fint b) L (fint (b + m + 1)) = true).
    { unfold is_valid_range. apply all_distinct_sorted. constructor.
      - clear Hir. pose proof L_sorted as HL. revert HL.
        assert (Hall : forall x, In x L -> Flt x (fint (b + m + 1))).
        { intros x Hx. destruct (L_In x Hx) as (k & Hk & ->). unfold Flt. rewrite flt_fint. apply Z.ltb_lt. lia. }
        revert Hall. generalize L as l. induction l as [|x l IHl]; intros Hall HL; cbn.
        + repeat constructor.
        + inversion HL as [|? ? H1 H2]; subst. constructor.
          * apply IHl; [intros; apply Hall; right; assumption | assumption].
          * rewrite Forall_forall in *. intros y Hy. apply in_app_or in Hy. destruct Hy as [Hy|[<-|[]]].
            -- apply H2. exact Hy.
            -- apply Hall. left. reflexivity.
      - rewrite Forall_forall. intros y Hy. apply in_app_or in Hy. destruct Hy as [Hy|[<-|[]]].
        + destruct (L_In y Hy) as (k & Hk & ->). unfold Flt. rewrite flt_fint. apply Z.ltb_lt. lia.
        + unfold Flt. rewrite flt_fint. apply Z.ltb_lt. lia. }
    rewrite Hvalid. reflexivity.
Qed.

Lemma keys_nonnan : Forall (fun x => is_nan x = false) keys.
Proof. destruct HPre as (_ & _ & H). exact H. Qed.

Theorem total_append :
  prepare_inserts_model orig keys = Ok ([], ungroup keys L) /\ Spec orig keys [] (ungroup keys L).
Proof.
  split.
  - unfold prepare_inserts_model. rewrite append_groups. cbn [fold_left bind fst snd].
    rewrite append_prep. reflexivity.
  - destruct HPre as (Hsorted & Hnn_o & Hnn_k). constructor.
    + intros a Ha. cbn in Ha. lia.
    + intros i j Hij. cbn [apply_adj fold_left]. split; [apply Hsorted; exact Hij | auto].
    + apply ungroup_len, L_len.
    + rewrite Forall_forall. intros x Hx. apply ungroup_In in Hx.
      destruct (L_In x Hx) as (k & _ & ->). reflexivity.
    + intros k i Hk Hi. cbn [apply_adj fold_left].
      rewrite (Habove (nth i orig FNaN) (nth k keys FNaN)) by (apply nth_In; assumption).
      assert (Hin : In (nth k (ungroup keys L) FNaN) L).
      { apply (ungroup_In keys L). apply nth_In.
        rewrite (ungroup_len keys L L_len). exact Hk. }
      destruct (L_In _ Hin) as (j & Hj & ->).
      (* existing row i is not above the last row, which is at b *)
      assert (Hle : fle (nth i orig FNaN) (fint b) = true).
      { rewrite <- Hlast. rewrite <- (nth_last orig FNaN fzero) by (intros ->; cbn in Hi; lia).
        destruct (Nat.eq_dec i (length orig - 1)) as [->|Hne].
        - rewrite Forall_forall in Hnn_o. apply fle_iff.
          assert (is_nan (nth (length orig - 1) orig FNaN) = false) by (apply Hnn_o, nth_In; lia).
          repeat split; auto; lia.
        - apply Hsorted. lia. }
      eapply fle_flt_trans; [exact Hle|]. rewrite flt_fint. apply Z.ltb_lt. lia.
    + intros k1 k2 Hk1 Hk2 Hreq. apply (ungroup_order keys Hnn_k L L_len L_sorted); assumption.
Qed.
End Append.
