(* Lemmas for C07: the reload of a stored cell (Model/Reload.v) on top of the encode/decode lemmas of C24. *)
From Coq Require Import ZArith List Bool Lia String.
Import ListNotations.
Require Import Grist.Lib.PyFloat Grist.Model.Values Grist.Model.Reload Grist.Proofs.Values_enc_proofs.
Open Scope Z_scope.

(* what the two marshal legs are asked to carry: marshalable data, or one blob *)
Definition db_marshalable (x : value) : bool :=
  marshalableb x || match x with PBytes false _ => true | _ => false end.

(* an object of an exact builtin type (no subclass instance), not bytes, not an AltText *)
Definition plain_top (v : value) : bool :=
  match v with
  | PInt true _ | PFloat true _ | PStr true _ | PBytes _ _ | PAltText _ => false
  | _ => true
  end.

(* A value that can sit in a column of type T: any object for the types whose column class stores what it is
   given; for the others a plain object that set stores unchanged. *)
Definition storable (orc : oracles) (T : ctype) (v : value) : Prop :=
  match T with
  | TText | TBlob | TAny | TInt | TId | TChoice => True
  | _ => plain_top v = true /\ col_set orc T v = Ok v
  end.

Definition is_prim (v : value) : bool :=
  match v with PNone | PBool _ | PInt false _ | PFloat false _ | PStr false _ => true | _ => false end.

(* neither a number, a bool, a str nor a list: every column class stores such an object as it is *)
Definition inert (v : value) : bool :=
  match v with
  | PBool _ | PInt _ _ | PFloat _ _ | PStr _ _ | PList _ _ => false
  | _ => true
  end.

Section Facts.
Variable orc : oracles.

(* ---- change detection ------------------------------------------------------------------------- *)

Lemma no_stored : forall fuel before after,
  equal_encoding orc fuel before after = true ->
  flush_cell orc fuel (recompute_cell before after) = None.
Proof.
  intros fuel b a H. unfold recompute_cell. destruct (strict_equal a b); [reflexivity|].
  cbn [flush_cell]. rewrite H. reflexivity.
Qed.

(* ---- shapes of encodings ----------------------------------------------------------------------- *)

Definition is_tagged (e : value) : bool :=
  match e with PList LPlain (PStr false _ :: _) => true | _ => false end.

Lemma encode_plain_cases : forall n v, plain_top v = true ->
  (encode_f orc n v = v /\ is_prim v = true) \/ is_tagged (encode_f orc n v) = true.
Proof.
  intros n v Hp.
  destruct v; try discriminate Hp; destruct n; cbn [encode_f]; try (left; split; reflexivity); try (right; reflexivity).
  all: try (destruct sub; try discriminate Hp).
  all: try (destruct (is_int_short z); [left; split; reflexivity|]; destruct (str_of_Z z); right; reflexivity).
  all: try (left; split; reflexivity).
  all: try (destruct l; right; reflexivity).
  all: try (destruct (forallb (fun kv : value * value => is_str (fst kv)) l); [destruct l|]; right; reflexivity).
  all: try (destruct (dt_to_ts orc wall tz None); [destruct tz|]; right; reflexivity).
  all: try (destruct uinput; right; reflexivity).
Qed.

Lemma encode_not_tuple : forall n v l, encode_f orc n v <> PTuple l.
Proof.
  intros n v l.
  destruct v; destruct n; cbn [encode_f]; try discriminate.
  all: try (destruct (is_int_short z); [discriminate|]; destruct (str_of_Z z); discriminate).
  all: try (destruct (o_utf8_decode orc b); discriminate).
  all: try (destruct l0; discriminate).
  all: try (destruct (forallb (fun kv : value * value => is_str (fst kv)) l0); [destruct l0|]; discriminate).
  all: try (destruct (dt_to_ts orc wall tz None); [destruct tz|]; discriminate).
  all: try (destruct uinput; discriminate).
Qed.

(* ---- what decode_object makes of a tagged list ---------------------------------------------------- *)

Definition nonscalar (v : value) : bool :=
  match v with PBool _ | PInt _ _ | PFloat _ _ | PStr _ _ => false | _ => true end.

Lemma nonscalar_raised : forall e, nonscalar (raised e) = true.
Proof. reflexivity. Qed.

Lemma decode_tagged_nonscalar : forall n e, is_tagged e = true -> nonscalar (decode_f orc n e) = true.
Proof.
  intros n e He.
  destruct e as [| | | | | |k items| | | | | | | | | | | | | | | |]; try discriminate He.
  destruct k; try discriminate He. destruct items as [|code args]; try discriminate He.
  destruct code; try discriminate He. destruct sub; try discriminate He.
  destruct n; cbn [decode_f].
  all: repeat match goal with
       | |- context [if code_is ?c ?x then _ else _] => destruct (code_is c x)
       end.
  all: repeat match goal with
       | |- context [nth_arg ?i ?a] => destruct (nth_arg i a); cbn [bind]
       | |- context [o_zone_known orc ?z] => destruct (o_zone_known orc z) as [[|]|]; cbn [bind negb]
       end.
  all: try reflexivity.
  all: repeat match goal with
       | |- context [match ?x with _ => _ end] =>
           match type of x with
           | value => destruct x
           | list value => destruct x
           | result value => destruct x
           | option bool => destruct x
           | bool => destruct x
           | (value * list value)%type => destruct x
           | option value => destruct x
           end; try reflexivity
       end.
Qed.

Lemma encode_list_tuple : forall n k l, encode_f orc n (PTuple l) = encode_f orc n (PList k l).
Proof. intros n k l. destruct n; reflexivity. Qed.

Lemma set_nonscalar : forall T n d, nonscalar d = true ->
  exists w, col_set orc T d = Ok w /\ encode_f orc n w = encode_f orc n d.
Proof.
  intros T n d Hd.
  destruct T; destruct d; try discriminate Hd; cbn [col_set numeric_set choicelist_set ref_cleanup reflist_cleanup reflist_pre bool_set py_eq_small];
    try (eexists; split; reflexivity).
  all: try (eexists; split; [reflexivity|apply encode_list_tuple]).
Qed.

End Facts.
