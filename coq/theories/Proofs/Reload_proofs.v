(* Lemmas for C07: the reload of a stored cell (Model/Reload.v) on top of the encode/decode lemmas of C24. *)
From Coq Require Import ZArith List Bool Lia String.
Import ListNotations.
Require Import Grist.Lib.PyFloat Grist.Model.Values Grist.Model.Reload Grist.Proofs.Values_enc_proofs Grist.Proofs.Values_proofs.
Open Scope Z_scope.

(* what the two marshal legs are asked to carry: marshalable data, or one blob *)
Definition db_marshalable (x : value) : bool :=
  marshalableb x || match x with PBytes false _ => true | _ => false end.

(* an object of an exact builtin type (no subclass instance), not bytes, not an AltText *)
Definition plain_top (v : value) : bool :=
  match v with
  | PInt true _ | PFloat true _ | PStr true _ | PBytes _ _ | PAltText _ => false
  | _ => true
  end.

(* A value that can sit in a column of type T: any object for the types whose column class stores what it is
   given; for the others a plain object that set stores unchanged. *)
Definition storable (orc : oracles) (T : ctype) (v : value) : Prop :=
  match T with
  | TText | TBlob | TAny | TInt | TId | TChoice => True
  | _ => plain_top v = true /\ col_set orc T v = Ok v
  end.

Definition is_prim (v : value) : bool :=
  match v with PNone | PBool _ | PInt false _ | PFloat false _ | PStr false _ => true | _ => false end.

(* neither a number, a bool, a str nor a list: every column class stores such an object as it is *)
Definition inert (v : value) : bool :=
  match v with
  | PBool _ | PInt _ _ | PFloat _ _ | PStr _ _ | PList _ _ => false
  | _ => true
  end.

Section Facts.
Variable orc : oracles.

(* ---- change detection ------------------------------------------------------------------------- *)

Lemma no_stored : forall fuel before after,
  equal_encoding orc fuel before after = true ->
  flush_cell orc fuel (recompute_cell orc before after) = None.
Proof.
  intros fuel b a H. unfold recompute_cell. destruct (strict_equal orc a b); [reflexivity|].
  cbn [flush_cell]. rewrite H. reflexivity.
Qed.

(* ---- shapes of encodings ----------------------------------------------------------------------- *)

Definition is_tagged (e : value) : bool :=
  match e with PList LPlain (PStr false _ :: _) => true | _ => false end.

Lemma encode_plain_cases : forall n v, plain_top v = true ->
  (encode_f orc n v = v /\ is_prim v = true) \/ is_tagged (encode_f orc n v) = true.
Proof.
  intros n v Hp.
  destruct v; try discriminate Hp; destruct n; cbn [encode_f]; try (left; split; reflexivity); try (right; reflexivity).
  all: try (destruct sub; try discriminate Hp).
  all: try (destruct (is_int_short z); [left; split; reflexivity|]; destruct (str_of_Z z); right; reflexivity).
  all: try (left; split; reflexivity).
  all: try (destruct l; right; reflexivity).
  all: try (destruct (forallb (fun kv : value * value => is_str (fst kv)) l); [destruct l|]; right; reflexivity).
  all: try (destruct (dt_to_ts orc wall tz None); [destruct tz|]; right; reflexivity).
  all: try (destruct uinput; right; reflexivity).
Qed.

Lemma encode_not_tuple : forall n v l, encode_f orc n v <> PTuple l.
Proof.
  intros n v l.
  destruct v; destruct n; cbn [encode_f]; try discriminate.
  all: try (destruct (is_int_short z); [discriminate|]; destruct (str_of_Z z); discriminate).
  all: try (destruct (o_utf8_decode orc b); discriminate).
  all: try (destruct l0; discriminate).
  all: try (destruct (forallb (fun kv : value * value => is_str (fst kv)) l0); [destruct l0|]; discriminate).
  all: try (destruct (dt_to_ts orc wall tz None); [destruct tz|]; discriminate).
  all: try (destruct uinput; discriminate).
Qed.

(* ---- what decode_object makes of a tagged list ---------------------------------------------------- *)

(* not a number, bool or str; a non-empty list only when there was stack left to decode its items *)
Definition okd (n : nat) (v : value) : bool :=
  match v with
  | PBool _ | PInt _ _ | PFloat _ _ | PStr _ _ => false
  | PList _ (_ :: _) => match n with O => false | S _ => true end
  | _ => true
  end.

Lemma ts_to_dt_okd : forall n ts z w, ts_to_dt orc ts z = Ok w -> okd n w = true.
Proof.
  intros n ts z w. unfold ts_to_dt. destruct (td_of_seconds orc ts) as [u|]; cbn [bind]; [|discriminate].
  destruct (negb (in_dt_range u)); [discriminate|].
  destruct (negb (in_dt_range (u + o_ts_offset orc z u))); [discriminate|].
  intros H; injection H as <-. reflexivity.
Qed.

Lemma ts_to_date_okd : forall n ts w, ts_to_date orc ts = Ok w -> okd n w = true.
Proof.
  intros n ts w. unfold ts_to_date. destruct (td_of_seconds orc ts) as [u|]; cbn [bind]; [|discriminate].
  match goal with |- context [if ?b then _ else _] => destruct b end; [|discriminate].
  intros H; injection H as <-. reflexivity.
Qed.

Lemma decode_tagged_okd : forall n e, is_tagged e = true -> okd n (decode_f orc n e) = true.
Proof.
  intros n e He.
  destruct e as [| | | | | |k items| | | | | | | | | | | | | | | |]; try discriminate He.
  destruct k; try discriminate He. destruct items as [|code args]; try discriminate He.
  destruct code; try discriminate He. destruct sub; try discriminate He.
  destruct n; cbn [decode_f].
  all: repeat match goal with
       | |- context [if code_is ?c ?x then _ else _] => destruct (code_is c x)
       end.
  all: repeat match goal with
       | |- context [nth_arg ?i ?a] => destruct (nth_arg i a); cbn [bind]
       | |- context [o_zone_known orc ?z] => destruct (o_zone_known orc z) as [[|]|]; cbn [bind negb]
       end.
  all: try reflexivity.
  all: repeat match goal with
       | |- context [ts_to_dt orc ?a ?b] =>
           let E := fresh "E" in destruct (ts_to_dt orc a b) eqn:E; [exact (ts_to_dt_okd _ _ _ _ E)|reflexivity]
       | |- context [ts_to_date orc ?a] =>
           let E := fresh "E" in destruct (ts_to_date orc a) eqn:E; [exact (ts_to_date_okd _ _ _ E)|reflexivity]
       | |- context [match ?x with _ => _ end] =>
           match type of x with
           | value => destruct x
           | list value => destruct x
           | list (value * value) => destruct x
           | option bool => destruct x
           | bool => destruct x
           | (value * list value)%type => destruct x
           | option value => destruct x
           end; try reflexivity
       end.
Qed.

Lemma encode_list_tuple : forall n k x l, encode_f orc (S n) (PTuple (x :: l)) = encode_f orc (S n) (PList k (x :: l)).
Proof. reflexivity. Qed.

Lemma encode_nil_tuple : forall n k, encode_f orc n (PTuple []) = encode_f orc n (PList k []).
Proof. intros n k. destruct n; reflexivity. Qed.

Lemma set_okd : forall T n d, okd n d = true ->
  exists w, col_set orc T d = Ok w /\ encode_f orc n w = encode_f orc n d.
Proof.
  intros T n d Hd.
  destruct T; destruct d; try discriminate Hd; cbn [col_set numeric_set choicelist_set ref_cleanup reflist_cleanup bool_set py_eq_small];
    try (eexists; split; reflexivity).
  destruct l as [|x l]; [eexists; split; [reflexivity|apply encode_nil_tuple]|].
  destruct n; [discriminate Hd|]. eexists; split; [reflexivity|apply encode_list_tuple].
Qed.

End Facts.

(* ---- the round trip ----------------------------------------------------------------------------- *)

Section RoundTrip.
Variable orc : oracles.
Variable marshal : value -> list Z.
Variable unmarshal : list Z -> value.

(* marshal.loads (marshal.dumps x) = x for the two things the reload of an encoded cell e hands to marshal: the
   database cell (e itself, or the blob holding e) and, for a blob, e (monitored by the harness on every value) *)
Definition marshal_rt (e : value) : Prop :=
  unmarshal (marshal (to_db marshal e)) = to_db marshal e /\ unmarshal (marshal e) = e.

(* the library facts of C24 (monitored there and here) *)
Hypothesis H_utc : zone_ok orc (Str "UTC") = true.
Hypothesis H_float_whole : forall d, MIN_DAY <= d <= MAX_DAY ->
  o_td_seconds orc (o_total_seconds orc (d * US_PER_DAY)) = UsOk (d * US_PER_DAY).
Hypothesis H_float : forall u, in_dt_range u = true ->
  exists u', o_td_seconds orc (o_total_seconds orc u) = UsOk u' /\ Z.abs (u' - u) <= 16 /\
             o_total_seconds orc u' = o_total_seconds orc u.
Hypothesis H_tz : forall z u, in_dt_range u = true ->
  Z.abs (o_ts_offset orc z u) < US_PER_DAY /\
  o_dt_offset orc z (Some (o_ts_offset orc z u)) (u + o_ts_offset orc z u) = o_ts_offset orc z u.

(* the .error a reloaded cell ends up with *)
Definition reload_err (n : nat) (v : value) : option errdesc :=
  match encode_f orc n v with
  | PList _ _ => decoded_err orc n (encode_f orc n v)
  | _ => None
  end.

Lemma reload_unfold : forall T n v err, marshalableb (encode_f orc n v) = true -> marshal_rt (encode_f orc n v) ->
  reload orc marshal unmarshal T n (v, err) =
  bind (col_set orc T (decode_f orc n (encode_f orc n v))) (fun w => Ok (w, reload_err n v)).
Proof.
  intros T n v err Hm [Hm1 Hm2]. unfold reload, reload_err. cbn [fst]. rewrite Hm1. clear Hm1.
  pose proof (encode_not_tuple orc n v) as Hnt.
  assert (Hprim : forall e, (forall k l, e <> PList k l) -> (forall l, e <> PTuple l) -> (forall s b, e <> PBytes s b) ->
                  (let '(d, err0) := from_db orc unmarshal n e in
                   bind (col_set orc T d) (fun w => Ok (w, err0))) =
                  bind (col_set orc T (decode_f orc n e)) (fun w => Ok (w, None))).
  { intros e H1 H2 H3. rewrite (decode_prim orc n e H1 H2).
    destruct e; try reflexivity. exfalso; eapply H3; reflexivity. }
  destruct (encode_f orc n v) as [| | | | | |k l|l| | | | | | | | | | | | | | |] eqn:He;
    try (exfalso; eapply Hnt; reflexivity); try discriminate Hm;
    try (cbn [to_db]; apply Hprim; intros; discriminate).
  (* list: through a blob *)
  cbn [to_db from_db]. rewrite Hm2. reflexivity.
Qed.

Theorem value_roundtrip : forall T n v err,
  marshal_rt (encode_f orc n v) -> vforall node_ok v = true -> vforall (node_dt orc) v = true -> storable orc T v ->
  exists w err', reload orc marshal unmarshal T n (v, err) = Ok (w, err') /\
                 encode_f orc n w = encode_f orc n v.
Proof.
  intros T n v err Hmr Hok Hdt Hst.
  rewrite reload_unfold by (try exact Hmr; apply encode_marshalable; exact Hok).
  pose proof (encode_decode_encode orc H_utc H_float_whole H_float H_tz n v Hdt) as EDE.
  set (d := decode_f orc n (encode_f orc n v)) in *.
  assert (Hset : exists w, col_set orc T d = Ok w /\ encode_f orc n w = encode_f orc n d).
  { assert (Hid : col_set orc T d = Ok d -> exists w, col_set orc T d = Ok w /\ encode_f orc n w = encode_f orc n d).
    { intros H. exists d. split; [exact H|reflexivity]. }
    destruct T; try (apply Hid; reflexivity); cbn [storable] in Hst; destruct Hst as [Hp Hfix];
      (destruct (encode_plain_cases orc n v Hp) as [[He Hprim]|Htag];
       [ assert (Hd : d = v) by (unfold d; rewrite He; apply decode_prim; intros; intro; subst v; discriminate Hprim);
         rewrite Hd; exists v; split; [exact Hfix|reflexivity]
       | apply set_okd; apply decode_tagged_okd; exact Htag ]). }
  destruct Hset as [w [Hw Henc]]. rewrite Hw. cbn [bind].
  exists w, (reload_err n v). split; [reflexivity|]. rewrite Henc. exact EDE.
Qed.

(* ---- error cells ---------------------------------------------------------------------------------------- *)

Lemma col_set_err : forall T a b c u, col_set orc T (PErr a b c u) = Ok (PErr a b c u).
Proof. intros T a b c u. destruct T; reflexivity. Qed.

Lemma e_args_ok_trimmed : forall n a b c, e_args_ok n (trim_args [a; b; c; PNone]) = true.
Proof.
  intros n a b c. cbn [trim_args]. rewrite trim_nones_3.
  destruct (isnone c); [destruct (isnone b)|]; unfold e_args_ok; rewrite ?shift_or_cons; reflexivity.
Qed.

(* An error cell whose saved name is a str comes back as an error with the same name, message and details, and with a
   stand-in .error of that class carrying the saved message.  (With user input, the stack must allow the nested
   encode_object call; the user input itself comes back as decode_object makes it.) *)
Theorem reload_error_cell : forall T n nm msg details ui err,
  marshal_rt (encode_f orc n (PErr (PStr false nm) msg details ui)) ->
  vforall node_ok (PErr (PStr false nm) msg details ui) = true ->
  (ui = None \/ exists k, n = S k) ->
  exists ui', reload orc marshal unmarshal T n (PErr (PStr false nm) msg details ui, err) =
              Ok (PErr (PStr false nm) msg details ui', Some (nm, Some (exc_text orc msg))).
Proof.
  intros T n nm msg details ui err Hmr Hok Hfuel.
  rewrite reload_unfold by (try exact Hmr; apply encode_marshalable; exact Hok).
  unfold reload_err, decoded_err.
  destruct ui as [u|].
  - destruct Hfuel as [Hc|[k ->]]; [discriminate Hc|].
    change (encode_f orc (S k) (PErr (PStr false nm) msg details (Some u)))
      with (tag "E" (trim_args [PStr false nm; msg; details; PDict [(PStr false (Str "u"), encode_f orc k u)]])).
    rewrite decode_E_some. rewrite col_set_err. cbn [bind].
    exists (Some (decode_f orc k (encode_f orc k u))).
    cbn [trim_args trim_nones]. unfold tag, e_form_ok, e_args_ok. rewrite !shift_or_cons. reflexivity.
  - assert (He : encode_f orc n (PErr (PStr false nm) msg details None) = tag "E" (trim_args [PStr false nm; msg; details; PNone]))
      by (destruct n; reflexivity).
    rewrite He, decode_E_none, col_set_err. cbn [bind]. exists None.
    unfold tag at 1. unfold e_form_ok. unfold tag. rewrite e_args_ok_trimmed. reflexivity.
Qed.

(* ---- values that come back as the same object ------------------------------------------------------ *)

(* built from None, bool, short exact int, exact float, exact str and plain lists of such, nested no deeper than the
   stack allows: the values whose encoding says everything about them *)
Fixpoint exact_f (n : nat) (v : value) : bool :=
  match v with
  | PNone | PBool _ | PFloat false _ | PStr false _ => true
  | PInt false z => is_int_short z
  | PList LPlain l =>
      match l with
      | [] => true
      | _ => match n with O => false | S k => forallb (exact_f k) l end
      end
  | _ => false
  end.

(* a cell of a column of type T: ChoiceList keeps its lists as tuples *)
Definition exact_cell (T : ctype) (n : nat) (v : value) : bool :=
  match T, v with
  | TChoiceList, PTuple l => exact_f n (PList LPlain l)
  | _, _ => exact_f n v
  end.

Lemma map_id_on : forall {A} (f : A -> A) l, (forall x, In x l -> f x = x) -> map f l = l.
Proof.
  intros A f l H. induction l as [|x l IH]; [reflexivity|]. cbn [map].
  rewrite (H x (or_introl eq_refl)), IH; [reflexivity|]. intros y Hy. apply H. right. exact Hy.
Qed.

Lemma decode_encode_exact : forall n v, exact_f n v = true -> decode_f orc n (encode_f orc n v) = v.
Proof.
  induction n as [|k IH]; intros v Hv.
  - destruct v; try discriminate Hv; try reflexivity.
    + destruct sub; [discriminate Hv|]. cbn [exact_f] in Hv. cbn [encode_f]. rewrite Hv. reflexivity.
    + destruct sub; [discriminate Hv|]. reflexivity.
    + destruct sub; [discriminate Hv|]. reflexivity.
    + destruct k; [|discriminate Hv]. destruct l; [reflexivity|discriminate Hv].
  - destruct v; try discriminate Hv; try reflexivity.
    + destruct sub; [discriminate Hv|]. cbn [exact_f] in Hv. cbn [encode_f]. rewrite Hv. reflexivity.
    + destruct sub; [discriminate Hv|]. reflexivity.
    + destruct sub; [discriminate Hv|]. reflexivity.
    + destruct k0; [|discriminate Hv]. destruct l as [|x l]; [reflexivity|].
      cbn [exact_f] in Hv. change (encode_f orc (S k) (PList LPlain (x :: l))) with (tag "L" (map (encode_f orc k) (x :: l))).
      cbn [map]. rewrite decode_L. rewrite <- map_cons, map_map. f_equal. apply map_id_on.
      intros y Hy. apply IH. rewrite forallb_forall in Hv. apply Hv. exact Hy.
Qed.

Lemma exact_node_ok : forall n v, exact_f n v = true -> vforall node_ok v = true.
Proof.
  induction n as [|k IH]; intros v Hv; destruct v; try discriminate Hv; try reflexivity.
  - destruct k; [|discriminate Hv]. destruct l; [reflexivity|discriminate Hv].
  - destruct k0; [|discriminate Hv]. destruct l as [|x l]; [reflexivity|]. cbn [exact_f] in Hv.
    cbn [vforall]. change (node_ok (PList LPlain (x :: l))) with true. cbn [andb].
    rewrite forallb_forall in *. intros y Hy. apply IH. apply Hv. exact Hy.
Qed.

Lemma exact_not_err : forall n v, exact_f n v = true -> is_error v = false.
Proof. intros n v H. destruct v; try reflexivity. destruct n; discriminate H. Qed.

(* The reloaded cell is the very same object description: same type, same content, no error attribute. *)
Theorem reload_exact : forall T n v,
  marshal_rt (encode_f orc n (match T, v with TChoiceList, PTuple l => PList LPlain l | _, _ => v end)) ->
  exact_cell T n v = true -> col_set orc T v = Ok v ->
  reload orc marshal unmarshal T n (v, None) = Ok (v, None).
Proof.
  intros T n v Hmr Hex Hfix.
  assert (Hgen : forall u, exact_f n u = true -> marshal_rt (encode_f orc n u) ->
                 reload orc marshal unmarshal T n (u, None) =
                 bind (col_set orc T u) (fun w => Ok (w, None))).
  { intros u Hu Hm. rewrite reload_unfold by (try exact Hm; apply encode_marshalable; eapply exact_node_ok; exact Hu).
    unfold reload_err, decoded_err. rewrite (decode_encode_exact n u Hu).
    assert (Hne : is_error u = false) by (eapply exact_not_err; exact Hu).
    destruct (encode_f orc n u); try reflexivity. destruct u; try reflexivity; discriminate Hne. }
  destruct T; try (rewrite (Hgen v Hex) by (destruct v; exact Hmr); rewrite Hfix; reflexivity).
  (* ChoiceList *)
  destruct v; try (rewrite (Hgen _ Hex Hmr); rewrite Hfix; reflexivity).
  cbn [exact_cell] in Hex.
  assert (Henc : encode_f orc n (PTuple l) = encode_f orc n (PList LPlain l)).
  { destruct l as [|x l]; [apply encode_nil_tuple|]. destruct n; [discriminate Hex|]. apply encode_list_tuple. }
  unfold reload. cbn [fst]. rewrite Henc.
  pose proof (Hgen (PList LPlain l) Hex Hmr) as H. unfold reload in H. cbn [fst] in H.
  rewrite H. reflexivity.
Qed.

End RoundTrip.

(* ---- storable covers what set stores ------------------------------------------------------------ *)

Section Coverage.
Variable orc : oracles.

(* Whatever a column class stores for a plain object (decode_object and the type conversions produce only such)
   is storable: plain again, and stored unchanged when set a second time. *)
Lemma set_result_storable : forall T d w, plain_top d = true -> col_set orc T d = Ok w -> storable orc T w.
Proof.
  intros T d w Hp Hs.
  destruct T; cbn [storable]; try exact I; cbn [col_set] in Hs.
  - (* Bool *)
    injection Hs as <-. unfold bool_set.
    destruct (py_eq_small d 1) eqn:E1; [split; reflexivity|].
    destruct (py_eq_small d 0) eqn:E0; [split; reflexivity|].
    split; [exact Hp|]. cbn [col_set]. unfold bool_set. rewrite E1, E0. reflexivity.
  - (* Numeric *)
    destruct d; try (injection Hs as <-; split; [exact Hp|reflexivity]).
    destruct sub; [discriminate Hp|]. cbn [numeric_set] in Hs. destruct (f_of_Z z); [|discriminate Hs].
    injection Hs as <-. split; reflexivity.
  - destruct d; try (injection Hs as <-; split; [exact Hp|reflexivity]).
    destruct sub; [discriminate Hp|]. cbn [numeric_set] in Hs. destruct (f_of_Z z); [|discriminate Hs].
    injection Hs as <-. split; reflexivity.
  - destruct d; try (injection Hs as <-; split; [exact Hp|reflexivity]).
    destruct sub; [discriminate Hp|]. cbn [numeric_set] in Hs. destruct (f_of_Z z); [|discriminate Hs].
    injection Hs as <-. split; reflexivity.
  - (* ChoiceList *)
    injection Hs as <-.
    destruct d; try (split; [exact Hp|reflexivity]); cbn [choicelist_set].
    + destruct (starts_with (Str "[") s) eqn:Es; [|split; [exact Hp|cbn [col_set choicelist_set]; rewrite Es; reflexivity]].
      destruct (o_json_loads orc s) as [j|] eqn:Ej;
        [|split; [exact Hp|cbn [col_set choicelist_set]; rewrite Es, Ej; reflexivity]].
      destruct (py_iter orc j) eqn:Ei; [split; reflexivity|].
      split; [exact Hp|cbn [col_set choicelist_set]; rewrite Es, Ej, Ei; reflexivity].
  - destruct d; try (injection Hs as <-; split; [exact Hp|reflexivity]).
    destruct sub; [discriminate Hp|]. cbn [numeric_set] in Hs. destruct (f_of_Z z); [|discriminate Hs].
    injection Hs as <-. split; reflexivity.
  - destruct d; try (injection Hs as <-; split; [exact Hp|reflexivity]).
    destruct sub; [discriminate Hp|]. cbn [numeric_set] in Hs. destruct (f_of_Z z); [|discriminate Hs].
    injection Hs as <-. split; reflexivity.
  - (* Ref *)
    injection Hs as <-.
    destruct d; try (split; [exact Hp|reflexivity]). destruct sub; [discriminate Hp|]. cbn [ref_cleanup].
    destruct (f_trunc f) as [n| |] eqn:Et; try (split; [reflexivity|cbn [col_set ref_cleanup]; rewrite Et; reflexivity]).
    destruct (f_eq_Z f n && (0 <? n) && is_int_short n) eqn:Ec; [split; reflexivity|].
    split; [reflexivity|cbn [col_set ref_cleanup]; rewrite Et, Ec; reflexivity].
  - (* RefList *)
    injection Hs as <-.
    destruct d; try (split; [exact Hp|reflexivity]). destruct sub; [discriminate Hp|]. cbn [reflist_cleanup].
    destruct (starts_with (Str "[") s) eqn:Es.
    + destruct (o_json_loads orc s) as [j|] eqn:Ej;
        [|split; [reflexivity|cbn [col_set reflist_cleanup]; rewrite Es, Ej; reflexivity]].
      destruct j; try (split; [reflexivity|cbn [col_set reflist_cleanup]; rewrite Es, Ej; reflexivity]).
      destruct (forallb is_pos_short_int l) eqn:El; [split; reflexivity|].
      split; [reflexivity|cbn [col_set reflist_cleanup]; rewrite Es, Ej, El; reflexivity].
    + destruct (reclist_from_repr orc s) as [rl|] eqn:Er.
      * apply (Grist.Proofs.Values_proofs.reclist_from_repr_ints orc) in Er as [l [-> _]]. split; reflexivity.
      * split; [reflexivity|cbn [col_set reflist_cleanup]; rewrite Es, Er; reflexivity].
  - (* Attachments *)
    injection Hs as <-.
    destruct d; try (split; [exact Hp|reflexivity]). destruct sub; [discriminate Hp|]. cbn [reflist_cleanup].
    destruct (starts_with (Str "[") s) eqn:Es.
    + destruct (o_json_loads orc s) as [j|] eqn:Ej;
        [|split; [reflexivity|cbn [col_set reflist_cleanup]; rewrite Es, Ej; reflexivity]].
      destruct j; try (split; [reflexivity|cbn [col_set reflist_cleanup]; rewrite Es, Ej; reflexivity]).
      destruct (forallb is_pos_short_int l) eqn:El; [split; reflexivity|].
      split; [reflexivity|cbn [col_set reflist_cleanup]; rewrite Es, Ej, El; reflexivity].
    + destruct (reclist_from_repr orc s) as [rl|] eqn:Er.
      * apply (Grist.Proofs.Values_proofs.reclist_from_repr_ints orc) in Er as [l [-> _]]. split; reflexivity.
      * split; [reflexivity|cbn [col_set reflist_cleanup]; rewrite Es, Er; reflexivity].
Qed.

End Coverage.

(* ---- a reloaded cell against the recomputed value -------------------------------------------------- *)

Section Quiet.
Variable orc : oracles.

Lemma encode_bool_inv : forall n a b, encode_f orc n a = PBool b -> a = PBool b.
Proof.
  intros n a b.
  destruct a; destruct n; cbn [encode_f]; try discriminate; try (intros H; exact H).
  all: try (destruct (is_int_short z); [discriminate|]; destruct (str_of_Z z); discriminate).
  all: try (destruct (o_utf8_decode orc b0); discriminate).
  all: try (destruct l; discriminate).
  all: try (destruct (forallb (fun kv : value * value => is_str (fst kv)) l); [destruct l|]; discriminate).
  all: try (destruct (dt_to_ts orc wall tz None); [destruct tz|]; discriminate).
  all: try (destruct uinput; discriminate).
Qed.

Lemma f_eq_refl_or_nan : forall x, f_eq x x || (f_is_nan x && f_is_nan x) = true.
Proof.
  intros x. destruct x as [|neg|neg|m e]; cbn [f_eq f_is_nan andb orb]; try reflexivity.
  - destruct neg; reflexivity.
  - rewrite Z.leb_refl, Z.sub_diag. cbn [Z.pow]. rewrite Z.mul_1_r, Z.eqb_refl. reflexivity.
Qed.

(* Two objects with the same encoding are "equal by encoding" as objtypes.equal_encoding computes it, provided the
   encoding compares equal to itself under Python's == (it does unless a NaN sits inside a container). *)
Theorem same_encoding_equal : forall n a b,
  encode_f orc n a = encode_f orc n b ->
  py_eq orc (encode_f orc n a) (encode_f orc n a) = true ->
  equal_encoding orc n a b = true.
Proof.
  intros n a b H Hr.
  destruct (is_boolv a) eqn:Ba.
  { destruct a; try discriminate Ba. assert (Hb : b = PBool b0).
    { apply (encode_bool_inv n). rewrite <- H. destruct n; reflexivity. }
    subst b. cbn. destruct b0; reflexivity. }
  destruct (is_boolv b) eqn:Bb.
  { destruct b; try discriminate Bb. assert (Ha : a = PBool b).
    { apply (encode_bool_inv n). rewrite H. destruct n; reflexivity. }
    subst a. discriminate Ba. }
  destruct a; try discriminate Ba; destruct b; try discriminate Bb;
    cbn [equal_encoding is_boolv orb]; try exact Hr; try (rewrite <- H; exact Hr).
  assert (Hf : f = f0) by (destruct n; cbn [encode_f] in H; injection H as H; exact H).
  subst f0. apply f_eq_refl_or_nan.
Qed.

End Quiet.
