(* Two-way references: uniqueness errors, rebuild from the reverse index, record removal. *)
From Coq Require Import ZArith List Bool Arith Lia Sorted.
Import ListNotations.
Require Import Grist.Model.RefIndex Grist.Model.TwoWay Grist.Proofs.RefIndex_proofs Grist.Proofs.RefIndex_removal
               Grist.Proofs.TwoWay_adj Grist.Proofs.TwoWay_proofs.

(* ---- which errors can come from where ---------------------------------------------------------------- *)
Lemma mapM_err : forall A B (f : A -> res B) l e, mapM f l = Err e -> exists x, In x l /\ f x = Err e.
Proof.
  intros A B f l e. induction l as [|a l IH]; cbn; [discriminate|].
  destruct (f a) as [b|e'] eqn:E; cbn [bind].
  - destruct (mapM f l) as [ys|e''] eqn:E2; cbn [bind]; [discriminate|].
    intros H. inversion H; subst. destruct (IH eq_refl) as [x [Hx Hf]]. exists x. split; [right; assumption|assumption].
  - intros H. inversion H; subst. exists a. split; [left; reflexivity|assumption].
Qed.

Lemma mapM_first_err : forall A B (f : A -> res B) l e,
  (exists x, In x l /\ f x = Err e) -> (forall x e', In x l -> f x = Err e' -> e' = e) -> mapM f l = Err e.
Proof.
  intros A B f l e. induction l as [|a l IH]; intros [x [Hx Hf]] Hall; [destruct Hx|].
  cbn [mapM]. destruct (f a) as [b|e'] eqn:E; cbn [bind].
  - destruct Hx as [->|Hx]; [congruence|].
    rewrite IH; [reflexivity|exists x; split; assumption|]. intros y e' Hy. apply Hall. right. assumption.
  - f_equal. apply (Hall a e' (or_introl eq_refl) E).
Qed.

Lemma ltv_err : forall k l e, list_to_value k l = Err e -> e = EUnique /\ k = KRef /\ 2 <= length l.
Proof.
  intros k l e H. destruct k; cbn in H.
  - destruct l as [|x [|y l]]; inversion H; subst. split; [reflexivity|]. split; [reflexivity|cbn; lia].
  - destruct l; discriminate.
Qed.

Section Errors.
  Variable hack : list Z -> option (list Z).

  Lemma update_references_err : forall k r o n m e, update_references k r o n m = Err e -> e = EKeyError.
  Proof.
    intros k r o n m e. unfold update_references.
    assert (Hf : forall l acc e0, fold_left (fun acc t => bind acc (remove_reference r t)) l acc = Err e0 ->
                                  acc = Err e0 \/ e0 = EKeyError).
    { induction l as [|t l IH]; intros acc e0 H; cbn in H; [left; assumption|].
      destruct (IH _ _ H) as [H1|H1]; [|right; assumption].
      destruct acc as [m0|e1]; cbn in H1; [|left; assumption].
      unfold remove_reference in H1. destruct (inv_find t m0); [discriminate|]. inversion H1. right. reflexivity. }
    destruct (fold_left _ (value_iterable k o) (Ok m)) as [m1|e1] eqn:E; cbn [bind]; [discriminate|].
    intros H. inversion H; subst. destruct (Hf _ _ _ E) as [H1|H1]; [discriminate|assumption].
  Qed.

  Lemma col_set_err : forall c r v e, col_set hack c r v = Err e -> e = EKeyError.
  Proof.
    intros c r v e. unfold col_set.
    destruct (update_references _ _ _ _ _) as [m|e1] eqn:E; cbn [bind]; [discriminate|].
    intros H. inversion H; subst. apply (update_references_err _ _ _ _ _ _ E).
  Qed.

  Lemma set_fold_err : forall l acc e,
    fold_left (fun acc rv => bind acc (fun c' => col_set hack c' (fst rv) (snd rv))) l acc = Err e ->
    acc = Err e \/ e = EKeyError.
  Proof.
    induction l as [|[r v] l IH]; intros acc e H; cbn in H; [left; assumption|].
    destruct (IH _ _ H) as [H1|H1]; [|right; assumption].
    destruct acc as [c|e1]; cbn in H1; [|left; assumption]. right. apply (col_set_err _ _ _ _ H1).
  Qed.

  Lemma apply_adjustments_err : forall rows b adj e, apply_adjustments hack rows b adj = Err e -> e <> EUnique.
  Proof.
    intros rows b adj e H. unfold apply_adjustments in H. destruct adj as [|p adj]; [discriminate|].
    destruct (mapM (target_row rows) (map fst (p :: adj))) as [rs|e1] eqn:E; cbn [bind] in H.
    - destruct (set_fold_err _ _ _ H) as [H1|H1]; [discriminate|subst; discriminate].
    - inversion H; subst. destruct (mapM_err _ _ _ _ _ E) as [t [_ Ht]]. unfold target_row in Ht.
      destruct (_ && _); [discriminate|]. inversion Ht. discriminate.
  Qed.

  Lemma apply_trimmed_err : forall rows a rs vs e, apply_trimmed hack rows a rs vs = Err e -> e <> EUnique.
  Proof.
    intros rows a rs vs e H. unfold apply_trimmed in H.
    destruct (filter _ (combine rs vs)) as [|p kept]; [discriminate|]. unfold doc_bulk_update in H.
    destruct (forallb _ _); [|inversion H; discriminate].
    destruct (set_fold_err _ _ _ H) as [H1|H1]; [discriminate|subst; discriminate].
  Qed.

  (* A UniqueReferenceError can only come out of prepare_new_values, i.e. before any doc action is applied:
     nothing has been modified when it is raised. *)
  Theorem unique_error_is_pure : forall gra s rows vals,
    update_a hack gra s rows vals = Err EUnique ->
    prepare_new_values hack gra (p_a s) (rc_kind (p_b s)) rows vals = Err EUnique.
  Proof.
    intros gra s rows vals H. unfold update_a in H.
    destruct (prepare_new_values hack gra (p_a s) (rc_kind (p_b s)) rows vals) as [[vs adj]|e] eqn:Ep; cbn [bind] in H.
    - exfalso. cbn [fst snd] in H.
      destruct (apply_adjustments hack (p_rows_b s) (p_b s) adj) as [b'|e] eqn:Eb; cbn [bind] in H.
      + destruct (apply_trimmed hack (p_rows_a s) (p_a s) rows vs) as [a'|e] eqn:Ea; cbn [bind] in H; [discriminate|].
        inversion H; subst. apply (apply_trimmed_err _ _ _ _ _ Ea). reflexivity.
      + inversion H; subst. apply (apply_adjustments_err _ _ _ _ Eb). reflexivity.
    - inversion H; subst. reflexivity.
  Qed.

  (* ... and it is raised exactly when the reverse column is a Ref and some adjusted target would end up with
     two or more rows referring to it. *)
  Theorem unique_violation_iff : forall gra s rows vals,
    let ka := rc_kind (p_a s) in
    let radj := gra rows (map (raw_get (p_a s)) rows) (map (clean_up hack ka) vals) (value_iterable ka) (rc_inv (p_a s)) in
    update_a hack gra s rows vals = Err EUnique <->
    rc_kind (p_b s) = KRef /\ exists t l, In (t, l) radj /\ 2 <= length l.
  Proof.
    intros gra s rows vals ka radj. split.
    - intros H. apply unique_error_is_pure in H. unfold prepare_new_values in H. fold ka in H. fold radj in H.
      destruct (mapM _ radj) as [adj|e] eqn:Em; cbn [bind] in H; [discriminate|]. inversion H; subst.
      destruct (mapM_err _ _ _ _ _ Em) as [[t l] [Hin Hf]]. cbn [fst snd] in Hf.
      destruct (list_to_value (rc_kind (p_b s)) l) as [v|e] eqn:El; cbn [bind] in Hf; [discriminate|].
      inversion Hf; subst. destruct (ltv_err _ _ _ El) as [_ [Hk Hl]]. split; [assumption|]. exists t, l. auto.
    - intros [Hk [t [l [Hin Hl]]]]. unfold update_a, prepare_new_values. fold ka. fold radj. rewrite Hk.
      rewrite (mapM_first_err _ _ _ radj EUnique); [reflexivity| |].
      + exists (t, l). split; [assumption|]. cbn [fst snd]. destruct l as [|x [|y l]]; cbn in Hl; try lia. reflexivity.
      + intros [t' l'] e' _ Hf. cbn [fst snd] in Hf.
        destruct (list_to_value KRef l') as [v|e] eqn:El; cbn [bind] in Hf; [discriminate|].
        inversion Hf; subst. apply (ltv_err _ _ _ El).
  Qed.
End Errors.

(* ---- recalc_from_reverse_values: B rebuilt from A's reverse index ------------------------------------------ *)
Lemma NoDup_map_of_nat : forall l, NoDup l -> NoDup (map Z.of_nat l).
Proof.
  induction l as [|x l IH]; intros H; cbn; [constructor|]. inversion H as [|? ? Hn Hd]; subst.
  constructor; [|apply IH; assumption]. intros Hin. apply in_map_of_nat in Hin. contradiction.
Qed.

Section Recalc.
  Variable hack : list Z -> option (list Z).

  Theorem recalc_sym : forall s s',
    inv_ok (p_a s) -> inv_ok (p_b s) -> rows_ok (p_rows_a s) -> rows_ok (p_rows_b s) -> NoDup (p_rows_b s) ->
    closed (p_a s) (p_rows_a s) (p_rows_b s) ->
    (forall y, ~ In y (p_rows_b s) -> refs (p_b s) y = []) ->
    recalc_from_a hack s = Ok s' ->
    pair_ok s' /\ sym s' /\ p_a s' = p_a s /\ p_rows_a s' = p_rows_a s /\ p_rows_b s' = p_rows_b s.
  Proof.
    intros [a b rows_a rows_b] s' Hia Hib Hra Hrb Hnd Hca Hout Hre. cbn [p_a p_b p_rows_a p_rows_b] in *.
    unfold recalc_from_a in Hre. cbn [p_a p_b p_rows_a p_rows_b] in Hre.
    set (radj := map (fun t => (Z.of_nat t, get_affected_rows [Z.of_nat t] (rc_inv a))) rows_b) in *.
    destruct (mapM _ radj) as [adj|e] eqn:Em; [|discriminate]. cbn [bind] in Hre.
    destruct (apply_adjustments hack rows_b b adj) as [b'|e] eqn:Eb; [|discriminate]. cbn [bind] in Hre.
    inversion Hre; subst s'. clear Hre. cbn [p_a p_b p_rows_a p_rows_b].
    assert (Hfst : map fst radj = map Z.of_nat rows_b).
    { unfold radj. rewrite map_map. reflexivity. }
    assert (Hndk : NoDup (map fst radj)) by (rewrite Hfst; apply NoDup_map_of_nat; assumption).
    destruct (apply_adjustments_spec hack rows_b b radj adj b' Hib Hndk Em Eb) as [Hkb [Hib' [_ [Hvals Hother]]]].
    destruct Hia as [Hsa Hma].
    assert (Hrow : forall y, In y rows_b ->
              exists l, refs b' y = map Z.of_nat l /\ forall x, In x l <-> In (Z.of_nat y) (refs a x)).
    { intros y Hy. set (l := get_affected_rows [Z.of_nat y] (rc_inv a)).
      assert (Hin : In (Z.of_nat y, l) radj).
      { unfold radj. apply in_map_iff. exists y. split; [reflexivity|assumption]. }
      destruct (get_affected_single (Z.of_nat y) (rc_inv a) Hsa) as [_ Hl]. fold l in Hl.
      assert (Hl' : forall x, In x l <-> In (Z.of_nat y) (refs a x)).
      { intros x. rewrite Hl. apply Hma. }
      exists l. split; [|exact Hl'].
      destruct (Hvals _ _ Hin) as [v [Hv Hg]]. rewrite Nat2Z.id in Hg. unfold refs. rewrite Hkb, Hg.
      apply (iter_ltv _ _ _ Hv). intros x Hx. apply Hra. apply Hl' in Hx. apply (Hca x _ Hx). }
    assert (Hnorow : forall y, ~ In y rows_b -> refs b' y = []).
    { intros y Hy. unfold refs. rewrite Hkb, Hother; [apply Hout; assumption|].
      rewrite Hfst. intros Hin. apply in_map_of_nat in Hin. contradiction. }
    split; [|split; [|auto]].
    - unfold pair_ok. cbn [p_a p_b p_rows_a p_rows_b]. split; [split; assumption|]. split; [assumption|].
      split; [assumption|]. split; [assumption|]. split; [assumption|].
      intros y t Hin. destruct (in_dec Nat.eq_dec y rows_b) as [Hy|Hy].
      + destruct (Hrow y Hy) as [l [Hr Hl]]. rewrite Hr in Hin. apply in_map_iff in Hin.
        destruct Hin as [x [<- Hx]]. split; [assumption|]. exists x. split; [reflexivity|].
        apply Hl in Hx. apply (Hca x _ Hx).
      + rewrite (Hnorow y Hy) in Hin. destruct Hin.
    - intros x y. cbn [p_a p_b]. destruct (in_dec Nat.eq_dec y rows_b) as [Hy|Hy].
      + destruct (Hrow y Hy) as [l [Hr Hl]]. rewrite Hr, in_map_of_nat, Hl. tauto.
      + rewrite (Hnorow y Hy). split; [|intros []]. intros Hin. destruct (Hca x _ Hin) as [_ [y' [E Hy']]].
        apply Nat2Z.inj in E. subst y'. contradiction.
  Qed.
End Recalc.

(* ---- record removal ------------------------------------------------------------------------------------------ *)
Lemma cell_without_keeps : forall k v ts t, In t (value_iterable k v) -> ~ In t ts ->
  In t (value_iterable k (cell_without k v ts)).
Proof.
  intros k v ts t Hin Hn. destruct k, v as [|z|l|s]; cbn [cell_without]; try exact Hin.
  - unfold value_iterable in Hin. cbn [truthy right_type] in Hin.
    destruct (negb (z =? 0)%Z && is_int_short z) eqn:E; [|destruct Hin]. destruct Hin as [<-|[]].
    destruct (memZ z ts) eqn:Em; [apply memZ_In in Em; contradiction|]. rewrite andb_false_r.
    unfold value_iterable. cbn [truthy right_type]. rewrite E. left. reflexivity.
  - unfold value_iterable in Hin. cbn [truthy right_type] in Hin.
    destruct (forallb is_int_short l) eqn:Es; [|rewrite andb_false_r in Hin; destruct Hin].
    destruct l as [|a l]; [destruct Hin|]. cbn [andb] in Hin.
    assert (Hf : In t (filter (fun t0 => negb (memZ t0 ts)) (a :: l))).
    { apply filter_In. split; [assumption|]. apply negb_true_iff. destruct (memZ t ts) eqn:Em; [|reflexivity].
      apply memZ_In in Em. contradiction. }
    destruct (filter (fun t0 => negb (memZ t0 ts)) (a :: l)) as [|b l'] eqn:Ef; [destruct Hf|].
    unfold value_iterable. cbn [truthy right_type andb].
    assert (Hs' : forallb is_int_short (b :: l') = true).
    { apply forallb_forall. intros z Hz. rewrite <- Ef in Hz. apply filter_In in Hz. destruct Hz as [Hz _].
      rewrite forallb_forall in Es. apply Es. assumption. }
    rewrite Hs'. exact Hf.
Qed.

Lemma expected_refs : forall w existing targets r t,
  In t (value_iterable (rc_kind (w_col w)) (expected_cell w existing targets r)) <->
  (w_own w && memN r existing = false) /\ In t (refs (w_col w) r) /\ (w_back w = true -> ~ In t targets).
Proof.
  intros w existing targets r t. unfold expected_cell, refs. set (k := rc_kind (w_col w)).
  destruct (w_own w && memN r existing) eqn:Eo.
  - assert (Hd : forall v, v = default k -> ~ In t (value_iterable k v)) by (intros v ->; rewrite iter_default; intros []).
    split; [|intros [H _]; discriminate]. intros H. exfalso.
    destruct (w_back w); [|apply (Hd _ eq_refl H)].
    apply (cell_without_refs_sub k _ targets) in H. apply (Hd _ eq_refl H).
  - destruct (w_back w) eqn:Eb.
    + split.
      * intros H. split; [reflexivity|]. split; [apply (cell_without_refs_sub k _ targets); assumption|].
        intros _ Ht. apply (cell_without_no_refs k (raw_get (w_col w) r) targets t Ht). assumption.
      * intros [_ [H Hn]]. apply cell_without_keeps; [assumption|apply Hn; reflexivity].
    + split; [intros H; split; [reflexivity|split; [assumption|discriminate]]|tauto].
Qed.

Definition pair_world (same : bool) (s : pair_state) : world :=
  {| wd_rows := p_rows_a s;
     wd_cols := [ {| w_col := p_a s; w_rows := p_rows_a s; w_own := true; w_back := same |};
                  {| w_col := p_b s; w_rows := p_rows_b s; w_own := same; w_back := true |} ] |}.

Section Removal.
  Variable hack : list Z -> option (list Z).

  Theorem removal_keeps_sym_proof : forall same s removed,
    pair_ok s -> sym s -> (same = true -> p_rows_b s = p_rows_a s) ->
    let rows' := filter (fun r => negb (memN r removed)) (p_rows_a s) in
    exists a' b',
      remove_rows hack (pair_world same s) removed =
        Ok {| wd_rows := rows';
              wd_cols := [ {| w_col := a'; w_rows := rows'; w_own := true; w_back := same |};
                           {| w_col := b'; w_rows := if same then rows' else p_rows_b s; w_own := same; w_back := true |} ] |} /\
      let s' := {| p_a := a'; p_b := b'; p_rows_a := rows'; p_rows_b := if same then rows' else p_rows_b s |} in
      pair_ok s' /\ sym s'.
  Proof.
    intros same [a b rows_a rows_b] removed Hok Hsym Hsame rows'. cbn [p_a p_b p_rows_a p_rows_b] in *.
    destruct Hok as [Hia [Hib [Hra [Hrb [Hca Hcb]]]]]. cbn [p_a p_b p_rows_a p_rows_b] in *.
    set (wa := {| w_col := a; w_rows := rows_a; w_own := true; w_back := same |}).
    set (wb := {| w_col := b; w_rows := rows_b; w_own := same; w_back := true |}).
    assert (Hwok : world_ok (pair_world same {| p_a := a; p_b := b; p_rows_a := rows_a; p_rows_b := rows_b |})).
    { unfold world_ok, pair_world. cbn [wd_rows wd_cols p_a p_b p_rows_a p_rows_b].
      apply Forall_cons; [|apply Forall_cons; [|apply Forall_nil]]; split; cbn [w_col col_rows w_own w_rows]; try assumption.
      - intros r Hr. destruct (refs a r) as [|t l] eqn:E; [congruence|].
        apply (Hca r t). rewrite E. left. reflexivity.
      - intros r Hr. destruct (refs b r) as [|t l] eqn:E; [congruence|].
        assert (Hin : In r rows_b) by (apply (Hcb r t); rewrite E; left; reflexivity).
        destruct same; [rewrite <- (Hsame eq_refl); assumption|assumption]. }
    destruct (remove_rows_spec hack _ removed Hwok) as [wd' [E [Hrows [Hok' HF]]]].
    cbn [pair_world wd_rows wd_cols p_a p_b p_rows_a p_rows_b] in E, Hrows, HF. fold wa wb in HF, E.
    set (existing := filter (fun r => memN r rows_a) removed) in *.
    set (targets := map Z.of_nat removed) in *.
    destruct wd' as [rows1 cols1]. cbn [wd_rows wd_cols] in *. subst rows1. fold rows' in Hok', E.
    inversion HF as [|? wa' ? l1 HA HF1]; subst. inversion HF1 as [|? wb' ? l2 HB HF2]; subst. inversion HF2; subst.
    cbv beta in HA, HB. destruct HA as [HAo [HAb [HAk [HAc HAw]]]]. destruct HB as [HBo [HBb [HBk [HBc HBw]]]].
    fold rows' in HAw, HBw.
    unfold world_ok in Hok'. cbn [wd_rows wd_cols] in Hok'.
    inversion Hok' as [|? ? [HAi HAr] Hok2]; subst. inversion Hok2 as [|? ? [HBi HBr] _]; subst.
    destruct wa' as [a' rowsA' ownA backA]. destruct wb' as [b' rowsB' ownB backB].
    cbn [w_col w_own w_back w_rows] in *. subst ownA backA ownB backB.
    (* the w_rows fields come out of remove_one *)
    assert (Erows : rowsA' = rows' /\ rowsB' = if same then rows' else rows_b).
    { cbn [w_rows] in HAw, HBw. unfold col_rows in HAw, HBw. cbn [wa wb w_own w_rows] in HAw, HBw.
      split; [exact HAw|exact HBw]. }
    destruct Erows as [-> ->]. exists a', b'. split; [exact E|]. cbv zeta.
    assert (Hra' : forall x t, In t (refs a' x) <->
                     ~ In x existing /\ In t (refs a x) /\ (same = true -> ~ In t targets)).
    { intros x t. unfold refs at 1. rewrite HAk, HAc, (expected_refs wa). cbn [wa w_own w_back w_col andb].
      destruct (memN x existing) eqn:Em.
      - apply memN_In in Em. split; [intros [H _]; discriminate|tauto].
      - assert (~ In x existing) by (intros H; apply memN_In in H; congruence). tauto. }
    assert (Hrb' : forall y t, In t (refs b' y) <->
                     (same = true -> ~ In y existing) /\ In t (refs b y) /\ ~ In t targets).
    { intros y t. unfold refs at 1. rewrite HBk, HBc, (expected_refs wb). cbn [wb w_own w_back w_col].
      destruct same; cbn [andb].
      - destruct (memN y existing) eqn:Em.
        + apply memN_In in Em. split; [intros [H _]; discriminate|]. intros [H _]. exfalso. apply H; [reflexivity|assumption].
        + assert (~ In y existing) by (intros H; apply memN_In in H; congruence). tauto.
      - split; [intros [_ [H1 H2]]; split; [discriminate|split; [assumption|apply H2; reflexivity]]|tauto]. }
    assert (Htgt : forall x, In (Z.of_nat x) targets <-> In x removed).
    { intros x. unfold targets. apply in_map_of_nat. }
    assert (Hex : forall x, In x rows_a -> (In x existing <-> In x removed)).
    { intros x Hx. unfold existing. rewrite filter_In, memN_In. tauto. }
    assert (Hrows' : forall x, In x rows' <-> In x rows_a /\ ~ In x removed).
    { intros x. unfold rows'. rewrite filter_In, negb_true_iff. split.
      - intros [H1 H2]. split; [assumption|]. intros H. apply memN_In in H. congruence.
      - intros [H1 H2]. split; [assumption|]. destruct (memN x removed) eqn:Em; [apply memN_In in Em; contradiction|reflexivity]. }
    split.
    - unfold pair_ok. cbn [p_a p_b p_rows_a p_rows_b].
      assert (Hrok' : rows_ok rows') by (intros x Hx; apply Hra; apply Hrows' in Hx; tauto).
      split; [assumption|]. split; [assumption|]. split; [assumption|]. split.
      { destruct same; assumption. }
      split.
      + intros x t Hin. apply Hra' in Hin. destruct Hin as [Hne [Hin Hnt]].
        destruct (Hca x t Hin) as [Hx [y [-> Hy]]]. split.
        * apply Hrows'. split; [assumption|]. intros Hr. apply Hne. apply Hex; assumption.
        * exists y. split; [reflexivity|]. destruct same eqn:Es; [|assumption].
          apply Hrows'. rewrite <- (Hsame eq_refl). split; [assumption|]. intros Hr. apply (Hnt eq_refl). apply Htgt. assumption.
      + intros y t Hin. apply Hrb' in Hin. destruct Hin as [Hne [Hin Hnt]].
        destruct (Hcb y t Hin) as [Hy [x [-> Hx]]]. split.
        * destruct same eqn:Es; [|assumption]. apply Hrows'. rewrite (Hsame eq_refl) in Hy. split; [assumption|].
          intros Hr. apply (Hne eq_refl). apply Hex; assumption.
        * exists x. split; [reflexivity|]. apply Hrows'. split; [assumption|]. intros Hr. apply Hnt. apply Htgt. assumption.
    - intros x y. cbn [p_a p_b]. rewrite Hra', Hrb'. specialize (Hsym x y). cbn [p_a p_b] in Hsym.
      rewrite !Htgt. split.
      + intros [Hne [Hin Hnt]]. destruct (Hca x _ Hin) as [Hx [y' [E' Hy]]]. apply Nat2Z.inj in E'. subst y'.
        split; [|split; [apply Hsym; assumption|]].
        * intros Es Hye. apply (Hnt Es). apply Hex; [rewrite <- (Hsame Es); assumption|assumption].
        * intros Hr. apply Hne. apply Hex; assumption.
      + intros [Hne [Hin Hnt]]. destruct (Hcb y _ Hin) as [Hy [x' [E' Hx]]]. apply Nat2Z.inj in E'. subst x'.
        split; [|split; [apply Hsym; assumption|]].
        * intros Hxe. apply Hnt. apply Hex; assumption.
        * intros Es Hr. apply (Hne Es). apply Hex; [rewrite <- (Hsame Es); assumption|assumption].
  Qed.
End Removal.

(* ---- the user action de-duplicates repeated row ids (last occurrence wins) --------------------------------- *)
Lemma select_In : forall A (k : list bool) (l : list A) x, In x (select k l) -> In x l.
Proof.
  intros A k. induction k as [|f k IH]; intros l x H; [destruct l; destruct H|].
  destruct l as [|y l]; [destruct H|]. cbn [select] in H. destruct f.
  - destruct H as [->|H]; [left; reflexivity|right; apply IH; assumption].
  - right. apply IH. assumption.
Qed.

Lemma keep_last_nodup : forall rows, NoDup (select (keep_last rows) rows).
Proof.
  induction rows as [|r t IH]; cbn [keep_last select]; [constructor|].
  destruct (memN r t) eqn:E; cbn [negb]; [exact IH|].
  constructor; [|exact IH]. intros Hin. apply select_In in Hin. apply memN_In in Hin. congruence.
Qed.

Lemma select_length : forall A B (k : list bool) (l : list A) (l' : list B),
  length l = length l' -> length (select k l) = length (select k l').
Proof.
  intros A B k. induction k as [|f k IH]; intros l l' H; [destruct l, l'; reflexivity|].
  destruct l as [|x l], l' as [|y l']; cbn in H; try discriminate; [reflexivity|].
  cbn [select]. destruct f; cbn [length]; rewrite (IH l l') by lia; reflexivity.
Qed.

Section UserSteps.
  Variable hack : list Z -> option (list Z).

  Theorem user_update_a_sym : forall s rows vals s',
    pair_ok s -> sym s -> length vals = length rows ->
    user_update_a hack get_reverse_adjustments_ref s rows vals = Ok s' -> pair_ok s' /\ sym s'.
  Proof.
    intros s rows vals s' Hok Hsym Hlen H. unfold user_update_a in H.
    destruct (update_a_sym hack s _ _ s' Hok Hsym (keep_last_nodup rows)
                (select_length _ _ (keep_last rows) vals rows Hlen) H) as [H1 [H2 _]].
    split; assumption.
  Qed.

  Theorem user_update_b_sym : forall s rows vals s',
    pair_ok s -> sym s -> length vals = length rows ->
    user_update_b hack get_reverse_adjustments_ref s rows vals = Ok s' -> pair_ok s' /\ sym s'.
  Proof.
    intros s rows vals s' Hok Hsym Hlen H. unfold user_update_b in H.
    exact (update_b_sym hack s _ _ s' Hok Hsym (keep_last_nodup rows)
             (select_length _ _ (keep_last rows) vals rows Hlen) H).
  Qed.
End UserSteps.

(* END-PART-5 *)
