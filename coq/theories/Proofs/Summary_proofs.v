(* Lemmas about Model/Summary.v (K5, property C12). *)
From Coq Require Import ZArith List Bool Lia Permutation.
Import ListNotations.
Require Import Grist.Model.Summary.
Open Scope Z_scope.

(* ------------------------------------------------------------------ equality tests *)

Lemma zs_eqb_spec : forall a b, zs_eqb a b = true <-> a = b.
Proof.
  induction a as [|x a IH]; destruct b as [|y b]; simpl; try (split; [discriminate|discriminate]);
    try (split; reflexivity).
  rewrite andb_true_iff, Z.eqb_eq, IH. split.
  - intros [-> ->]. reflexivity.
  - intros H. inversion H. auto.
Qed.

Lemma atom_eqb_spec : forall a b, atom_eqb a b = true <-> a = b.
Proof.
  destruct a, b; simpl; try (split; [discriminate|discriminate]); try (split; reflexivity).
  - rewrite Z.eqb_eq. split; [intros ->; reflexivity | intros H; inversion H; reflexivity].
  - rewrite zs_eqb_spec. split; [intros ->; reflexivity | intros H; inversion H; reflexivity].
  - rewrite zs_eqb_spec. split; [intros ->; reflexivity | intros H; inversion H; reflexivity].
  - rewrite Z.eqb_eq. split; [intros ->; reflexivity | intros H; inversion H; reflexivity].
Qed.

Lemma key_eqb_spec : forall a b, key_eqb a b = true <-> a = b.
Proof.
  induction a as [|x a IH]; destruct b as [|y b]; simpl; try (split; [discriminate|discriminate]);
    try (split; reflexivity).
  rewrite andb_true_iff, atom_eqb_spec, IH. split.
  - intros [-> ->]. reflexivity.
  - intros H. inversion H. auto.
Qed.

Lemma key_eqb_refl : forall k, key_eqb k k = true.
Proof. intros k. apply key_eqb_spec. reflexivity. Qed.

Lemma mem_atom_In : forall a l, mem_atom a l = true <-> In a l.
Proof.
  intros a l. induction l as [|b t IH]; simpl.
  - split; [discriminate|tauto].
  - rewrite orb_true_iff, atom_eqb_spec, IH. split; intros [H|H]; auto.
Qed.

Lemma mem_key_In : forall k l, mem_key k l = true <-> In k l.
Proof.
  intros k l. induction l as [|b t IH]; simpl.
  - split; [discriminate|tauto].
  - rewrite orb_true_iff, key_eqb_spec, IH. split; intros [H|H]; auto.
Qed.

Lemma mem_z_In : forall i l, mem_z i l = true <-> In i l.
Proof.
  intros i l. induction l as [|b t IH]; simpl.
  - split; [discriminate|tauto].
  - rewrite orb_true_iff, Z.eqb_eq, IH. split; intros [H|H]; auto.
Qed.

(* ------------------------------------------------------------------ set(), product, sorted *)

Lemma dedup_In : forall a l, In a (dedup l) <-> In a l.
Proof.
  intros a l. induction l as [|b t IH]; simpl; [tauto|].
  destruct (mem_atom b t) eqn:E.
  - rewrite IH. split; [auto|]. intros [->|H]; [apply mem_atom_In; exact E|exact H].
  - simpl. rewrite IH. tauto.
Qed.

Lemma dedup_NoDup : forall l, NoDup (dedup l).
Proof.
  induction l as [|b t IH]; simpl; [constructor|].
  destruct (mem_atom b t) eqn:E; [exact IH|].
  constructor; [|exact IH]. rewrite dedup_In. intros H. apply mem_atom_In in H. congruence.
Qed.

Lemma product_In : forall vals k, In k (product vals) <-> Forall2 (fun a v => In a v) k vals.
Proof.
  induction vals as [|v rest IH]; intros k; simpl.
  - split.
    + intros [<-|[]]. constructor.
    + intros H. inversion H. left. reflexivity.
  - rewrite in_flat_map. split.
    + intros [a [Ha Hk]]. apply in_map_iff in Hk. destruct Hk as [k' [<- Hk']].
      constructor; [exact Ha|]. apply IH. exact Hk'.
    + intros H. inversion H as [|a v' k' rest' Ha Hk']; subst.
      exists a. split; [exact Ha|]. apply in_map. apply IH. exact Hk'.
Qed.

Lemma NoDup_app_local : forall {A} (l m : list A),
  NoDup l -> NoDup m -> (forall x, In x l -> In x m -> False) -> NoDup (l ++ m).
Proof.
  intros A l m Hl Hm Hd. induction Hl as [|x l Hx Hl IH]; simpl; [exact Hm|].
  constructor.
  - rewrite in_app_iff. intros [H|H]; [contradiction|]. apply (Hd x); [left; reflexivity|exact H].
  - apply IH. intros y Hy1 Hy2. apply (Hd y); [right; exact Hy1|exact Hy2].
Qed.

Lemma NoDup_map_cons : forall (a : atom) (l : list key), NoDup l -> NoDup (map (cons a) l).
Proof.
  intros a l H. induction H as [|x l Hx Hl IH]; simpl; constructor; [|exact IH].
  intros Hin. apply in_map_iff in Hin. destruct Hin as [y [Hy Hin]]. inversion Hy; subst. contradiction.
Qed.

Lemma product_NoDup : forall vals, Forall (@NoDup atom) vals -> NoDup (product vals).
Proof.
  induction vals as [|v rest IH]; intros H; simpl.
  - constructor; [intros []|constructor].
  - inversion H as [|v' rest' Hv Hrest]; subst. specialize (IH Hrest).
    clear H Hrest. induction Hv as [|a v Ha Hv IHv]; simpl; [constructor|].
    apply NoDup_app_local; [apply NoDup_map_cons; exact IH | exact IHv |].
    intros k Hk1 Hk2. apply in_map_iff in Hk1. destruct Hk1 as [k1 [<- _]].
    apply in_flat_map in Hk2. destruct Hk2 as [b [Hb Hk2]].
    apply in_map_iff in Hk2. destruct Hk2 as [k2 [Heq _]]. inversion Heq; subst. contradiction.
Qed.

Lemma insert_key_perm : forall k l, Permutation (insert_key k l) (k :: l).
Proof.
  intros k l. induction l as [|x t IH]; simpl; [apply Permutation_refl|].
  destruct (key_leb k x); [apply Permutation_refl|].
  eapply Permutation_trans; [apply perm_skip; exact IH|apply perm_swap].
Qed.

Lemma sort_keys_perm : forall l, Permutation (sort_keys l) l.
Proof.
  induction l as [|k t IH]; simpl; [constructor|].
  eapply Permutation_trans; [apply insert_key_perm|apply perm_skip; exact IH].
Qed.

Lemma sort_keys_In : forall k l, In k (sort_keys l) <-> In k l.
Proof.
  intros k l. split; apply Permutation_in; [apply sort_keys_perm|apply Permutation_sym; apply sort_keys_perm].
Qed.

Lemma sort_keys_NoDup : forall l, NoDup l -> NoDup (sort_keys l).
Proof. intros l H. eapply Permutation_NoDup; [apply Permutation_sym; apply sort_keys_perm|exact H]. Qed.

(* the per-column value sets are duplicate-free *)
Lemma lookup_values_NoDup : forall kinds cells vals u,
  lookup_values kinds cells = LvOk vals u -> u = false -> Forall (@NoDup atom) vals.
Proof.
  induction kinds as [|kd ks IH]; intros cells vals u H Hu; simpl in H.
  - inversion H. constructor.
  - destruct cells as [|c cs]; [discriminate|].
    assert (Hcons : forall v u0, lv_cons v u0 (lookup_values ks cs) = LvOk vals u -> NoDup v ->
                                 Forall (@NoDup atom) vals).
    { intros v u0 Hc Hv. unfold lv_cons in Hc. destruct (lookup_values ks cs) as [| |vals' u'] eqn:E;
        try discriminate. inversion Hc; subst. constructor; [exact Hv|].
      apply (IH cs vals' u' E). destruct u0, u'; simpl in *; congruence. }
    destruct c as [a|l| |]; destruct kd; try discriminate.
    + apply (Hcons _ _ H). constructor; [intros []|constructor].
    + apply (Hcons _ _ H). constructor.
    + apply (Hcons _ _ H). destruct (dedup l) eqn:E.
      * constructor; [intros []|constructor].
      * rewrite <- E. apply dedup_NoDup.
    + apply (Hcons _ _ H). destruct (dedup l) eqn:E.
      * constructor; [intros []|constructor].
      * rewrite <- E. apply dedup_NoDup.
    + apply (Hcons _ _ H). constructor.
Qed.

Lemma row_keys_NoDup : forall kinds cells ks, row_keys kinds cells = Some ks -> NoDup ks.
Proof.
  intros kinds cells ks H. unfold row_keys in H.
  destruct (lookup_values kinds cells) as [| |vals u] eqn:E.
  - inversion H. constructor.
  - discriminate.
  - destruct u.
    + destruct vals; discriminate.
    + inversion H. apply sort_keys_NoDup. apply product_NoDup.
      eapply lookup_values_NoDup; [exact E|reflexivity].
Qed.

(* ------------------------------------------------------------------ first_match *)

Lemma fm_app : forall s a k,
  first_match (s ++ a) k = match first_match s k with Some i => Some i | None => first_match a k end.
Proof.
  induction s as [|r t IH]; intros a k; simpl; [reflexivity|].
  destruct (key_eqb (snd r) k); [reflexivity|apply IH].
Qed.

Lemma fm_some_in : forall s k i, first_match s k = Some i -> In (i, k) s.
Proof.
  induction s as [|r t IH]; intros k i H; simpl in H; [discriminate|].
  destruct (key_eqb (snd r) k) eqn:E.
  - apply key_eqb_spec in E. inversion H; subst. left. destruct r; reflexivity.
  - right. apply IH. exact H.
Qed.

Lemma fm_none_notin : forall s k, first_match s k = None -> forall i, ~ In (i, k) s.
Proof.
  induction s as [|r t IH]; intros k H i Hin; simpl in *; [exact Hin|].
  destruct (key_eqb (snd r) k) eqn:E; [discriminate|].
  destruct Hin as [->|Hin].
  - simpl in E. rewrite key_eqb_refl in E. discriminate.
  - exact (IH k H i Hin).
Qed.

Lemma fm_in_some : forall s k i, In (i, k) s -> exists j, first_match s k = Some j.
Proof.
  intros s k i Hin. destruct (first_match s k) as [j|] eqn:E; [exists j; reflexivity|].
  exfalso. exact (fm_none_notin s k E i Hin).
Qed.

(* removing other rows does not change what a key finds, as long as the found row stays *)
Lemma fm_filter : forall (keep : Z -> bool) s k i,
  first_match s k = Some i -> keep i = true ->
  first_match (filter (fun r => keep (fst r)) s) k = Some i.
Proof.
  induction s as [|r t IH]; intros k i H Hk; simpl in *; [discriminate|].
  destruct (key_eqb (snd r) k) eqn:E.
  - inversion H; subst. rewrite Hk. simpl. rewrite E. reflexivity.
  - destruct (keep (fst r)); simpl; [rewrite E|]; apply IH; assumption.
Qed.

(* ------------------------------------------------------------------ row ids *)

Lemma max_id_ge : forall s r, In r s -> fst r <= max_id s.
Proof.
  induction s as [|x t IH]; intros r H; [contradiction|].
  unfold max_id in *. simpl in *. destruct H as [->|H]; [lia|]. specialize (IH r H). lia.
Qed.

Lemma max_id_nonneg : forall s, 0 <= max_id s.
Proof. induction s as [|x t IH]; unfold max_id in *; simpl in *; lia. Qed.

Lemma max_id_app : forall s a, max_id (s ++ a) = Z.max (max_id s) (max_id a).
Proof.
  induction s as [|x t IH]; intros a.
  - pose proof (max_id_nonneg a). unfold max_id in *. simpl in *. lia.
  - specialize (IH a). unfold max_id in *. simpl in *. lia.
Qed.

Lemma number_from_fst : forall ks n r, In r (number_from n ks) -> n <= fst r < n + Z.of_nat (length ks).
Proof.
  induction ks as [|k t IH]; intros n r H; simpl in *; [contradiction|].
  destruct H as [<-|H]; simpl; [lia|]. specialize (IH (n + 1) r H). lia.
Qed.

Lemma number_from_snd : forall ks n, map snd (number_from n ks) = ks.
Proof. induction ks as [|k t IH]; intros n; simpl; [reflexivity|]. rewrite IH. reflexivity. Qed.

Lemma number_from_NoDup : forall ks n, NoDup (map fst (number_from n ks)).
Proof.
  induction ks as [|k t IH]; intros n; simpl; constructor; [|apply IH].
  intros H. apply in_map_iff in H. destruct H as [r [Hr Hin]].
  apply number_from_fst in Hin. lia.
Qed.

Lemma number_from_fm : forall ks n k, NoDup ks -> In k ks ->
  exists i, first_match (number_from n ks) k = Some i.
Proof.
  intros ks n k _ Hin. assert (H : In k (map snd (number_from n ks))) by (rewrite number_from_snd; exact Hin).
  apply in_map_iff in H. destruct H as [[i k'] [Hk Hr]]. simpl in Hk. subst k'.
  eapply fm_in_some. exact Hr.
Qed.

Lemma number_from_in_key : forall ks n i k, In (i, k) (number_from n ks) -> In k ks.
Proof.
  intros ks n i k H. rewrite <- (number_from_snd ks n). apply in_map_iff. exists (i, k). split; [reflexivity|exact H].
Qed.

(* in a list of rows with distinct keys, a key finds exactly its own row *)
Lemma fm_unique : forall s k i, NoDup (map snd s) -> In (i, k) s -> first_match s k = Some i.
Proof.
  induction s as [|r t IH]; intros k i Hnd Hin; simpl in *; [contradiction|].
  inversion Hnd as [|x l Hx Hl]; subst.
  destruct Hin as [->|Hin].
  - simpl. rewrite key_eqb_refl. reflexivity.
  - destruct (key_eqb (snd r) k) eqn:E.
    + apply key_eqb_spec in E. exfalso. apply Hx. rewrite E.
      apply in_map_iff. exists (i, k). split; [reflexivity|exact Hin].
    + apply IH; assumption.
Qed.

(* ------------------------------------------------------------------ one evaluation of the helper formula *)

(* what an entry `h` of the helper column means with respect to a summary table s' *)
Definition hspec (kinds : list kind) (s' : list mrow) (stale : list Z) (cells : list cell) (h : list Z) : Prop :=
  match row_keys kinds cells with
  | None => h = stale
  | Some ks => (forall k, In k ks -> exists i, In i h /\ first_match s' k = Some i) /\
               (forall i, In i h -> exists k, In k ks /\ first_match s' k = Some i)
  end.

Lemma hspec_extend : forall kinds s1 more stale cells h,
  hspec kinds s1 stale cells h -> hspec kinds (s1 ++ more) stale cells h.
Proof.
  intros kinds s1 more stale cells h H. unfold hspec in *.
  destruct (row_keys kinds cells) as [ks|]; [|exact H].
  destruct H as [H1 H2]. split.
  - intros k Hk. destruct (H1 k Hk) as [i [Hi Hf]]. exists i. split; [exact Hi|].
    rewrite fm_app, Hf. reflexivity.
  - intros i Hi. destruct (H2 i Hi) as [k [Hk Hf]]. exists k. split; [exact Hk|].
    rewrite fm_app, Hf. reflexivity.
Qed.

Lemma NoDup_filter_local : forall {A} (p : A -> bool) l, NoDup l -> NoDup (filter p l).
Proof.
  intros A p l H. induction H as [|x l Hx Hl IH]; simpl; [constructor|].
  destruct (p x); [constructor; [|exact IH]|exact IH].
  intros Hin. apply filter_In in Hin. tauto.
Qed.

Lemma helper_list_spec : forall kinds stale s cells s1 h,
  helper_list kinds stale s cells = (s1, h) ->
  exists added, s1 = s ++ added
    /\ hspec kinds s1 stale cells h
    /\ (forall r, In r added -> max_id s < fst r)
    /\ NoDup (map fst added)
    /\ (forall i k, In (i, k) added -> first_match s1 k = Some i /\ In k (keys_of kinds cells)).
Proof.
  intros kinds stale s cells s1 h H. unfold helper_list in H.
  destruct (row_keys kinds cells) as [ks|] eqn:Ek.
  - set (added := number_from (next_id s) (missing_keys s ks)) in *.
    inversion H; subst s1 h; clear H. exists added.
    assert (Hnd : NoDup ks) by (eapply row_keys_NoDup; exact Ek).
    assert (Hmk : NoDup (map snd added)).
    { unfold added. rewrite number_from_snd. apply NoDup_filter_local. exact Hnd. }
    assert (Hadded : forall i k, In (i, k) added ->
              first_match (s ++ added) k = Some i /\ In k ks).
    { intros i k Hin. pose proof (number_from_in_key _ _ _ _ Hin) as Hm.
      unfold missing_keys in Hm. apply filter_In in Hm. destruct Hm as [Hks Hnone].
      split; [|exact Hks]. rewrite fm_app.
      destruct (first_match s k); [discriminate|]. apply fm_unique; assumption. }
    split; [reflexivity|]. split; [|split; [|split]].
    + unfold hspec. rewrite Ek. split.
      * intros k Hk. destruct (first_match s k) as [i|] eqn:Ef.
        -- exists i. split.
           ++ apply in_or_app. left. unfold found_ids. apply in_flat_map. exists k. split; [exact Hk|].
              rewrite Ef. left. reflexivity.
           ++ rewrite fm_app, Ef. reflexivity.
        -- assert (Hm : In k (missing_keys s ks)).
           { unfold missing_keys. apply filter_In. split; [exact Hk|]. rewrite Ef. reflexivity. }
           destruct (number_from_fm _ (next_id s) k (NoDup_filter_local _ _ Hnd) Hm) as [i Hi].
           exists i. split.
           ++ apply in_or_app. right. apply in_map_iff. exists (i, k). split; [reflexivity|].
              apply fm_some_in. exact Hi.
           ++ rewrite fm_app, Ef. exact Hi.
      * intros i Hi. apply in_app_or in Hi. destruct Hi as [Hi|Hi].
        -- unfold found_ids in Hi. apply in_flat_map in Hi. destruct Hi as [k [Hk Hi]].
           destruct (first_match s k) as [j|] eqn:Ef; [|contradiction].
           destruct Hi as [<-|[]]. exists k. split; [exact Hk|]. rewrite fm_app, Ef. reflexivity.
        -- apply in_map_iff in Hi. destruct Hi as [[i' k] [Hfst Hin]]. simpl in Hfst. subst i'.
           destruct (Hadded i k Hin) as [Hf Hks]. exists k. split; assumption.
    + intros r Hr. apply number_from_fst in Hr. unfold next_id in Hr. lia.
    + apply number_from_NoDup.
    + intros i k Hin. destruct (Hadded i k Hin) as [Hf Hks]. split; [exact Hf|].
      unfold keys_of. rewrite Ek. exact Hks.
  - inversion H; subst s1 h; clear H. exists []. rewrite app_nil_r.
    split; [reflexivity|]. split; [unfold hspec; rewrite Ek; reflexivity|].
    split; [intros r []|]. split; [constructor|]. intros i k [].
Qed.

(* ------------------------------------------------------------------ simple mode = list mode without list columns
   ("All of these branches should be interchangeable and produce equivalent results when no list columns or
   CONTAINS are involved", table.py) *)

Lemma simple_lookup_values : forall kinds cells, existsb is_list_kind kinds = false ->
  match simple_values kinds cells with
  | None => lookup_values kinds cells = LvRaise
  | Some (k, u) => exists vals, lookup_values kinds cells = LvOk vals u /\
                                (u = false -> vals = map (fun a => [a]) k)
  end.
Proof.
  induction kinds as [|kd ks IH]; intros cells Hk; simpl.
  - exists []. split; reflexivity.
  - simpl in Hk. apply orb_false_iff in Hk. destruct Hk as [Hkd Hks].
    destruct kd; try discriminate. destruct cells as [|c cs]; [reflexivity|].
    specialize (IH cs Hks).
    destruct c as [a|l| |]; try reflexivity;
      destruct (simple_values ks cs) as [[k u]|]; simpl.
    + destruct IH as [vals [Hv Hu]]. rewrite Hv. simpl. exists ([a] :: vals). split; [reflexivity|].
      intros E. rewrite (Hu E). reflexivity.
    + rewrite IH. reflexivity.
    + destruct IH as [vals [Hv Hu]]. rewrite Hv. simpl. exists ([] :: vals). split; [reflexivity|discriminate].
    + rewrite IH. reflexivity.
    + destruct IH as [vals [Hv Hu]]. rewrite Hv. simpl. exists ([] :: vals). split; [reflexivity|discriminate].
    + rewrite IH. reflexivity.
Qed.

Lemma product_singletons : forall k, product (map (fun a => [a]) k) = [k].
Proof. induction k as [|a k IH]; simpl; [reflexivity|]. rewrite IH. reflexivity. Qed.

Lemma simple_row_keys : forall kinds cells, summary_simple kinds = true ->
  match simple_values kinds cells with
  | None => row_keys kinds cells = None
  | Some (_, true) => row_keys kinds cells = None
  | Some (k, false) => row_keys kinds cells = Some [k]
  end.
Proof.
  intros kinds cells H. unfold summary_simple in H. apply negb_true_iff in H.
  pose proof (simple_lookup_values kinds cells H) as L. unfold row_keys.
  destruct (simple_values kinds cells) as [[k u]|].
  - destruct L as [vals [Hv Hu]]. rewrite Hv. destruct u.
    + destruct vals; reflexivity.
    + rewrite (Hu eq_refl), product_singletons. reflexivity.
  - rewrite L. reflexivity.
Qed.

Lemma helper_simple_is_list : forall kinds stale s cells, summary_simple kinds = true ->
  helper_simple kinds stale s cells = helper_list kinds stale s cells.
Proof.
  intros kinds stale s cells H. pose proof (simple_row_keys kinds cells H) as L.
  unfold helper_simple, helper_list.
  destruct (simple_values kinds cells) as [[k u]|].
  - destruct u.
    + rewrite L. reflexivity.
    + rewrite L. unfold missing_keys, found_ids. simpl.
      destruct (first_match s k) as [i|]; simpl; rewrite ?app_nil_r; reflexivity.
  - rewrite L. reflexivity.
Qed.

Lemma helper_is_list : forall kinds stale s cells,
  helper kinds stale s cells = helper_list kinds stale s cells.
Proof.
  intros. unfold helper. destruct (summary_simple kinds) eqn:E; [apply helper_simple_is_list; exact E|reflexivity].
Qed.

(* ------------------------------------------------------------------ one round over all source records *)

Definition hrel (kinds : list kind) (prev : list (Z * list Z)) (s' : list mrow) (r : srow) (rh : Z * list Z) : Prop :=
  fst rh = fst r /\ hspec kinds s' (entry prev (fst r)) (snd r) (snd rh).

Lemma pass_spec : forall kinds prev src s s' hs,
  pass kinds prev src s = (s', hs) ->
  exists added, s' = s ++ added
    /\ Forall2 (hrel kinds prev s') src hs
    /\ (forall r, In r added -> max_id s < fst r)
    /\ NoDup (map fst added)
    /\ (forall i k, In (i, k) added ->
          first_match s' k = Some i /\ exists r, In r src /\ In k (keys_of kinds (snd r))).
Proof.
  intros kinds prev src. induction src as [|r t IH]; intros s s' hs H; simpl in H.
  - inversion H; subst. exists []. rewrite app_nil_r. split; [reflexivity|]. split; [constructor|].
    split; [intros r []|]. split; [constructor|intros i k []].
  - destruct (helper kinds (entry prev (fst r)) s (snd r)) as [s1 h] eqn:Eh.
    destruct (pass kinds prev t s1) as [s2 hs'] eqn:Ep. inversion H; subst s' hs; clear H.
    rewrite helper_is_list in Eh.
    destruct (helper_list_spec _ _ _ _ _ _ Eh) as [a1 [Hs1 [Hh [Hid1 [Hnd1 Hk1]]]]].
    destruct (IH s1 s2 hs' Ep) as [a2 [Hs2 [Hf [Hid2 [Hnd2 Hk2]]]]].
    exists (a1 ++ a2). subst s1. split; [rewrite Hs2, app_assoc; reflexivity|].
    split; [|split; [|split]].
    + constructor; [|exact Hf]. split; [reflexivity|]. simpl. rewrite Hs2. apply hspec_extend. exact Hh.
    + intros x Hx. apply in_app_or in Hx. destruct Hx as [Hx|Hx]; [apply Hid1; exact Hx|].
      specialize (Hid2 x Hx). rewrite max_id_app in Hid2. lia.
    + rewrite map_app. apply NoDup_app_local; [exact Hnd1|exact Hnd2|].
      intros x Hx1 Hx2. apply in_map_iff in Hx1. destruct Hx1 as [r1 [<- Hr1]].
      apply in_map_iff in Hx2. destruct Hx2 as [r2 [Heq Hr2]].
      specialize (Hid2 r2 Hr2). assert (Hle : fst r1 <= max_id (s ++ a1)).
      { apply max_id_ge. apply in_or_app. right. exact Hr1. }
      lia.
    + intros i k Hin. apply in_app_or in Hin. destruct Hin as [Hin|Hin].
      * destruct (Hk1 i k Hin) as [Hf1 Hkeys]. split.
        -- rewrite Hs2, fm_app, Hf1. reflexivity.
        -- exists r. split; [left; reflexivity|exact Hkeys].
      * destruct (Hk2 i k Hin) as [Hf2 [r' [Hr' Hkeys]]]. split; [exact Hf2|].
        exists r'. split; [right; exact Hr'|exact Hkeys].
Qed.

Lemma pass_ids_NoDup : forall kinds prev src s s' hs,
  pass kinds prev src s = (s', hs) -> NoDup (map fst s) -> NoDup (map fst s').
Proof.
  intros kinds prev src s s' hs H Hnd.
  destruct (pass_spec _ _ _ _ _ _ H) as [added [-> [_ [Hid [Hnda _]]]]].
  rewrite map_app. apply NoDup_app_local; [exact Hnd|exact Hnda|].
  intros x Hx1 Hx2. apply in_map_iff in Hx1. destruct Hx1 as [r1 [<- Hr1]].
  apply in_map_iff in Hx2. destruct Hx2 as [r2 [Heq Hr2]].
  specialize (Hid r2 Hr2). pose proof (max_id_ge s r1 Hr1). lia.
Qed.

(* ------------------------------------------------------------------ groups *)

Lemma group_of_In : forall hs i rid,
  In rid (group_of hs i) <-> exists h, In (rid, h) hs /\ In i h.
Proof.
  intros hs i rid. unfold group_of. rewrite in_map_iff. split.
  - intros [[rid' h] [Heq Hin]]. simpl in Heq. subst rid'. apply filter_In in Hin. destruct Hin as [Hin Hm].
    exists h. split; [exact Hin|apply mem_z_In; exact Hm].
  - intros [h [Hin Hi]]. exists (rid, h). split; [reflexivity|]. apply filter_In. split; [exact Hin|].
    apply mem_z_In. exact Hi.
Qed.

Definition keepb (hs : list (Z * list Z)) (i : Z) : bool :=
  match group_of hs i with [] => false | _ => true end.

Lemma keepb_true : forall hs i rid h, In (rid, h) hs -> In i h -> keepb hs i = true.
Proof.
  intros hs i rid h Hin Hi. unfold keepb.
  assert (H : In rid (group_of hs i)) by (apply group_of_In; exists h; split; assumption).
  destruct (group_of hs i); [contradiction|reflexivity].
Qed.

Lemma auto_remove_filter : forall s hs,
  auto_remove (with_groups s hs) = filter (fun r => keepb hs (fst r)) s.
Proof.
  intros s hs. unfold auto_remove, with_groups. induction s as [|r t IH]; simpl; [reflexivity|].
  unfold nonempty_group at 1, keepb at 1. simpl.
  destruct (group_of hs (fst r)); simpl; rewrite IH; [reflexivity|destruct r; reflexivity].
Qed.

Lemma filter_with_groups : forall s hs,
  filter nonempty_group (with_groups s hs) = with_groups (filter (fun r => keepb hs (fst r)) s) hs.
Proof.
  intros s hs. unfold with_groups. induction s as [|r t IH]; simpl; [reflexivity|].
  unfold nonempty_group at 1, keepb at 1. simpl.
  destruct (group_of hs (fst r)) eqn:E; simpl; rewrite IH; [reflexivity|rewrite E; reflexivity].
Qed.

Lemma forallb_filter_id : forall {A} (p : A -> bool) l, forallb p l = true -> filter p l = l.
Proof.
  intros A p l. induction l as [|x t IH]; simpl; [reflexivity|].
  intros H. apply andb_true_iff in H. destruct H as [Hx Ht]. rewrite Hx, (IH Ht). reflexivity.
Qed.

Lemma forallb_filter_self : forall {A} (p : A -> bool) l, forallb p (filter p l) = true.
Proof.
  intros A p l. induction l as [|x t IH]; simpl; [reflexivity|].
  destruct (p x) eqn:E; simpl; [rewrite E|]; exact IH.
Qed.

(* entries that contain the same ids give the same groups *)
Definition hequiv (a b : Z * list Z) : Prop := fst a = fst b /\ forall i, In i (snd a) <-> In i (snd b).

Lemma group_of_equiv : forall hs1 hs2, Forall2 hequiv hs1 hs2 -> forall i, group_of hs1 i = group_of hs2 i.
Proof.
  intros hs1 hs2 H i. unfold group_of. induction H as [|a b l1 l2 [Hf Hi] _ IH]; simpl; [reflexivity|].
  assert (Hm : mem_z i (snd a) = mem_z i (snd b)).
  { destruct (mem_z i (snd a)) eqn:Ea, (mem_z i (snd b)) eqn:Eb; try reflexivity.
    - apply mem_z_In in Ea. apply Hi in Ea. apply mem_z_In in Ea. congruence.
    - apply mem_z_In in Eb. apply Hi in Eb. apply mem_z_In in Eb. congruence. }
  rewrite Hm. destruct (mem_z i (snd b)); simpl; rewrite IH; [rewrite Hf|]; reflexivity.
Qed.

Lemma with_groups_equiv : forall s hs1 hs2, Forall2 hequiv hs1 hs2 -> with_groups s hs1 = with_groups s hs2.
Proof.
  intros s hs1 hs2 H. unfold with_groups. apply map_ext. intros r. rewrite (group_of_equiv _ _ H). reflexivity.
Qed.

(* ------------------------------------------------------------------ re-evaluating an up-to-date helper cell *)

Lemma missing_none : forall s ks, (forall k, In k ks -> first_match s k <> None) -> missing_keys s ks = [].
Proof.
  intros s ks H. unfold missing_keys. induction ks as [|k t IH]; simpl; [reflexivity|].
  destruct (first_match s k) eqn:E.
  - apply IH. intros k' Hk'. apply H. right. exact Hk'.
  - exfalso. apply (H k); [left; reflexivity|exact E].
Qed.

(* an entry that is what an evaluation would give: evaluating changes nothing but the order of the ids *)
Lemma helper_list_valid : forall kinds stale s cells h0,
  hspec kinds s stale cells h0 ->
  exists h', helper_list kinds stale s cells = (s, h') /\ (forall i, In i h' <-> In i h0).
Proof.
  intros kinds stale s cells h0 H. unfold hspec in H. unfold helper_list.
  destruct (row_keys kinds cells) as [ks|].
  - destruct H as [H1 H2]. rewrite (missing_none s ks).
    + simpl. rewrite !app_nil_r. exists (found_ids s ks). split; [reflexivity|].
      intros i. unfold found_ids. rewrite in_flat_map. split.
      * intros [k [Hk Hi]]. destruct (H1 k Hk) as [j [Hj Hf]]. rewrite Hf in Hi.
        destruct Hi as [<-|[]]. exact Hj.
      * intros Hi. destruct (H2 i Hi) as [k [Hk Hf]]. exists k. split; [exact Hk|]. rewrite Hf. left. reflexivity.
    + intros k Hk. destruct (H1 k Hk) as [j [_ Hf]]. rewrite Hf. discriminate.
  - exists stale. split; [reflexivity|]. subst h0. tauto.
Qed.

(* the records that are not re-evaluated have entries an evaluation would give *)
Definition clean_valid (kinds : list kind) (dirty : list Z) (prev : list (Z * list Z)) (src : list srow)
  (s : list mrow) : Prop :=
  forall r, In r src -> mem_z (fst r) dirty = false ->
    hspec kinds s (entry prev (fst r)) (snd r) (entry prev (fst r)).

Lemma pass_d_full : forall kinds dirty prev src s,
  clean_valid kinds dirty prev src s ->
  exists s' hsd hs, pass_d kinds dirty prev src s = (s', hsd) /\ pass kinds prev src s = (s', hs) /\
                    Forall2 hequiv hsd hs.
Proof.
  intros kinds dirty prev src. induction src as [|r t IH]; intros s Hv; simpl.
  - exists s, [], []. split; [reflexivity|]. split; [reflexivity|constructor].
  - destruct (mem_z (fst r) dirty) eqn:Ed.
    + destruct (helper kinds (entry prev (fst r)) s (snd r)) as [s1 h] eqn:Eh.
      assert (Hext : exists a, s1 = s ++ a).
      { rewrite helper_is_list in Eh. destruct (helper_list_spec _ _ _ _ _ _ Eh) as [a [Ha _]]. exists a. exact Ha. }
      destruct Hext as [a ->].
      destruct (IH (s ++ a)) as [s' [hsd [hs [Hd [Hp Hq]]]]].
      { intros r' Hr' Hc. apply hspec_extend. apply Hv; [right; exact Hr'|exact Hc]. }
      rewrite Hd, Hp. exists s', ((fst r, h) :: hsd), ((fst r, h) :: hs).
      split; [reflexivity|]. split; [reflexivity|]. constructor; [|exact Hq]. split; [reflexivity|tauto].
    + pose proof (Hv r (or_introl eq_refl) Ed) as Hr.
      destruct (helper_list_valid _ _ _ _ _ Hr) as [h' [Hh' Hi]].
      rewrite helper_is_list, Hh'.
      destruct (IH s) as [s' [hsd [hs [Hd [Hp Hq]]]]].
      { intros r' Hr' Hc. apply Hv; [right; exact Hr'|exact Hc]. }
      rewrite Hd, Hp. exists s', ((fst r, entry prev (fst r)) :: hsd), ((fst r, h') :: hs).
      split; [reflexivity|]. split; [reflexivity|]. constructor; [|exact Hq]. split; [reflexivity|].
      intros i. simpl. symmetry. apply Hi.
Qed.

Lemma pass_d_nothing_dirty : forall kinds prev src s,
  pass_d kinds [] prev src s = (s, map (fun r => (fst r, entry prev (fst r))) src).
Proof.
  intros kinds prev src. induction src as [|r t IH]; intros s; simpl; [reflexivity|].
  rewrite IH. reflexivity.
Qed.

Lemma entry_In : forall hs rid h, NoDup (map fst hs) -> In (rid, h) hs -> entry hs rid = h.
Proof.
  induction hs as [|p t IH]; intros rid h Hnd Hin; simpl in *; [contradiction|].
  inversion Hnd as [|x l Hx Hl]; subst. destruct Hin as [->|Hin].
  - simpl. rewrite Z.eqb_refl. reflexivity.
  - destruct (Z.eqb_spec (fst p) rid) as [E|E].
    + exfalso. apply Hx. rewrite E. apply in_map_iff. exists (rid, h). split; [reflexivity|exact Hin].
    + apply IH; assumption.
Qed.

Lemma Forall2_hrel_fst : forall kinds prev s' src hs,
  Forall2 (hrel kinds prev s') src hs -> map fst hs = map fst src.
Proof.
  intros kinds prev s' src hs H. induction H as [|r rh l1 l2 [Hf _] _ IH]; simpl; [reflexivity|].
  rewrite Hf, IH. reflexivity.
Qed.

Lemma Forall2_In_l : forall {A B} (R : A -> B -> Prop) l1 l2 x,
  Forall2 R l1 l2 -> In x l1 -> exists y, In y l2 /\ R x y.
Proof.
  intros A B R l1 l2 x H. induction H as [|a b l1 l2 Hab _ IH]; intros Hin; [contradiction|].
  destruct Hin as [->|Hin]; [exists b; split; [left; reflexivity|exact Hab]|].
  destruct (IH Hin) as [y [Hy Hr]]. exists y. split; [right; exact Hy|exact Hr].
Qed.

Lemma Forall2_In_r : forall {A B} (R : A -> B -> Prop) l1 l2 y,
  Forall2 R l1 l2 -> In y l2 -> exists x, In x l1 /\ R x y.
Proof.
  intros A B R l1 l2 y H. induction H as [|a b l1 l2 Hab _ IH]; intros Hin; [contradiction|].
  destruct Hin as [->|Hin]; [exists a; split; [left; reflexivity|exact Hab]|].
  destruct (IH Hin) as [x [Hx Hr]]. exists x. split; [right; exact Hx|exact Hr].
Qed.

(* ------------------------------------------------------------------ the settle loop reaches a fixpoint *)

(* after a round and the removal of the rows with empty groups, every entry is up to date *)
Lemma round_fixpoint : forall kinds prev src s s1 hs,
  NoDup (map fst src) -> pass kinds prev src s = (s1, hs) ->
  clean_valid kinds [] hs src (filter (fun r => keepb hs (fst r)) s1).
Proof.
  intros kinds prev src s s1 hs Hnd Hp r Hr _.
  destruct (pass_spec _ _ _ _ _ _ Hp) as [added [_ [Hf _]]].
  destruct (Forall2_In_l _ _ _ r Hf Hr) as [rh [Hrh [Hfst Hs]]].
  assert (He : entry hs (fst r) = snd rh).
  { apply entry_In.
    - rewrite (Forall2_hrel_fst _ _ _ _ _ Hf). exact Hnd.
    - rewrite <- Hfst. destruct rh; exact Hrh. }
  rewrite He. unfold hspec in *. destruct (row_keys kinds (snd r)) as [ks|]; [|reflexivity].
  destruct Hs as [H1 H2].
  assert (Hkeep : forall i, In i (snd rh) -> keepb hs i = true).
  { intros i Hi. apply (keepb_true hs i (fst rh) (snd rh)); [destruct rh; exact Hrh|exact Hi]. }
  split.
  - intros k Hk. destruct (H1 k Hk) as [i [Hi Hfm]]. exists i. split; [exact Hi|].
    apply fm_filter; [exact Hfm|apply Hkeep; exact Hi].
  - intros i Hi. destruct (H2 i Hi) as [k [Hk Hfm]]. exists k. split; [exact Hk|].
    apply fm_filter; [exact Hfm|apply Hkeep; exact Hi].
Qed.

Lemma entries_self : forall hs, NoDup (map fst hs) -> map (fun i => (i, entry hs i)) (map fst hs) = hs.
Proof.
  intros hs Hnd. rewrite map_map.
  assert (H : forall l, (forall x, In x l -> In x hs) -> map (fun x => (fst x, entry hs (fst x))) l = l).
  { induction l as [|x t IH]; intros Hin; simpl; [reflexivity|].
    rewrite IH by (intros y Hy; apply Hin; right; exact Hy).
    rewrite (entry_In hs (fst x) (snd x) Hnd) by (destruct x; apply Hin; left; reflexivity).
    destruct x; reflexivity. }
  apply H. auto.
Qed.

Lemma second_round : forall kinds prev src s s1 hs,
  NoDup (map fst src) -> pass kinds prev src s = (s1, hs) ->
  exists hs2, pass kinds hs src (filter (fun r => keepb hs (fst r)) s1)
              = (filter (fun r => keepb hs (fst r)) s1, hs2) /\ Forall2 hequiv hs hs2.
Proof.
  intros kinds prev src s s1 hs Hnd Hp.
  pose proof (round_fixpoint _ _ _ _ _ _ Hnd Hp) as Hv.
  destruct (pass_d_full _ _ _ _ _ Hv) as [s' [hsd [hs2 [Hd [Hp2 Hq]]]]].
  rewrite pass_d_nothing_dirty in Hd. inversion Hd; subst s' hsd; clear Hd.
  exists hs2. split; [exact Hp2|].
  destruct (pass_spec _ _ _ _ _ _ Hp) as [added [_ [Hf _]]].
  pose proof (Forall2_hrel_fst _ _ _ _ _ Hf) as Hfst.
  assert (Hself : map (fun r => (fst r, entry hs (fst r))) src = hs).
  { transitivity (map (fun i => (i, entry hs i)) (map fst hs)).
    - rewrite Hfst, map_map. reflexivity.
    - apply entries_self. rewrite Hfst. exact Hnd. }
  rewrite Hself in Hq. exact Hq.
Qed.

Lemma settle_loop_closed : forall kinds prev src summ s1 hs,
  NoDup (map fst src) -> pass kinds prev src summ = (s1, hs) ->
  forall f, settle_loop (S (S f)) kinds prev src summ = Some (filter nonempty_group (with_groups s1 hs)).
Proof.
  intros kinds prev src summ s1 hs Hnd Hp f.
  cbn [settle_loop]. rewrite Hp.
  destruct (forallb nonempty_group (with_groups s1 hs)) eqn:Ea.
  - rewrite (forallb_filter_id _ _ Ea). reflexivity.
  - rewrite auto_remove_filter.
    destruct (second_round _ _ _ _ _ _ Hnd Hp) as [hs2 [Hp2 Hq]].
    rewrite Hp2. rewrite <- (with_groups_equiv _ _ _ Hq). rewrite <- filter_with_groups.
    rewrite forallb_filter_self. reflexivity.
Qed.
