(* Lemmas about Model/Summary.v (K5, property C12). *)
From Coq Require Import ZArith List Bool Lia Permutation.
Import ListNotations.
Require Import Grist.Model.Summary.
Open Scope Z_scope.

(* ------------------------------------------------------------------ equality tests *)

Lemma zs_eqb_spec : forall a b, zs_eqb a b = true <-> a = b.
Proof.
  induction a as [|x a IH]; destruct b as [|y b]; simpl; try (split; [discriminate|discriminate]);
    try (split; reflexivity).
  rewrite andb_true_iff, Z.eqb_eq, IH. split.
  - intros [-> ->]. reflexivity.
  - intros H. inversion H. auto.
Qed.

Lemma atom_eqb_spec : forall a b, atom_eqb a b = true <-> a = b.
Proof.
  destruct a, b; simpl; try (split; [discriminate|discriminate]); try (split; reflexivity).
  - rewrite Z.eqb_eq. split; [intros ->; reflexivity | intros H; inversion H; reflexivity].
  - rewrite zs_eqb_spec. split; [intros ->; reflexivity | intros H; inversion H; reflexivity].
  - rewrite zs_eqb_spec. split; [intros ->; reflexivity | intros H; inversion H; reflexivity].
  - rewrite Z.eqb_eq. split; [intros ->; reflexivity | intros H; inversion H; reflexivity].
Qed.

Lemma key_eqb_spec : forall a b, key_eqb a b = true <-> a = b.
Proof.
  induction a as [|x a IH]; destruct b as [|y b]; simpl; try (split; [discriminate|discriminate]);
    try (split; reflexivity).
  rewrite andb_true_iff, atom_eqb_spec, IH. split.
  - intros [-> ->]. reflexivity.
  - intros H. inversion H. auto.
Qed.

Lemma key_eqb_refl : forall k, key_eqb k k = true.
Proof. intros k. apply key_eqb_spec. reflexivity. Qed.

Lemma mem_atom_In : forall a l, mem_atom a l = true <-> In a l.
Proof.
  intros a l. induction l as [|b t IH]; simpl.
  - split; [discriminate|tauto].
  - rewrite orb_true_iff, atom_eqb_spec, IH. split; intros [H|H]; auto.
Qed.

Lemma mem_key_In : forall k l, mem_key k l = true <-> In k l.
Proof.
  intros k l. induction l as [|b t IH]; simpl.
  - split; [discriminate|tauto].
  - rewrite orb_true_iff, key_eqb_spec, IH. split; intros [H|H]; auto.
Qed.

Lemma mem_z_In : forall i l, mem_z i l = true <-> In i l.
Proof.
  intros i l. induction l as [|b t IH]; simpl.
  - split; [discriminate|tauto].
  - rewrite orb_true_iff, Z.eqb_eq, IH. split; intros [H|H]; auto.
Qed.

(* ------------------------------------------------------------------ set(), product, sorted *)

Lemma dedup_In : forall a l, In a (dedup l) <-> In a l.
Proof.
  intros a l. induction l as [|b t IH]; simpl; [tauto|].
  destruct (mem_atom b t) eqn:E.
  - rewrite IH. split; [auto|]. intros [->|H]; [apply mem_atom_In; exact E|exact H].
  - simpl. rewrite IH. tauto.
Qed.

Lemma dedup_NoDup : forall l, NoDup (dedup l).
Proof.
  induction l as [|b t IH]; simpl; [constructor|].
  destruct (mem_atom b t) eqn:E; [exact IH|].
  constructor; [|exact IH]. rewrite dedup_In. intros H. apply mem_atom_In in H. congruence.
Qed.

Lemma product_In : forall vals k, In k (product vals) <-> Forall2 (fun a v => In a v) k vals.
Proof.
  induction vals as [|v rest IH]; intros k; simpl.
  - split.
    + intros [<-|[]]. constructor.
    + intros H. inversion H. left. reflexivity.
  - rewrite in_flat_map. split.
    + intros [a [Ha Hk]]. apply in_map_iff in Hk. destruct Hk as [k' [<- Hk']].
      constructor; [exact Ha|]. apply IH. exact Hk'.
    + intros H. inversion H as [|a v' k' rest' Ha Hk']; subst.
      exists a. split; [exact Ha|]. apply in_map. apply IH. exact Hk'.
Qed.

Lemma NoDup_app_local : forall {A} (l m : list A),
  NoDup l -> NoDup m -> (forall x, In x l -> In x m -> False) -> NoDup (l ++ m).
Proof.
  intros A l m Hl Hm Hd. induction Hl as [|x l Hx Hl IH]; simpl; [exact Hm|].
  constructor.
  - rewrite in_app_iff. intros [H|H]; [contradiction|]. apply (Hd x); [left; reflexivity|exact H].
  - apply IH. intros y Hy1 Hy2. apply (Hd y); [right; exact Hy1|exact Hy2].
Qed.

Lemma NoDup_map_cons : forall (a : atom) (l : list key), NoDup l -> NoDup (map (cons a) l).
Proof.
  intros a l H. induction H as [|x l Hx Hl IH]; simpl; constructor; [|exact IH].
  intros Hin. apply in_map_iff in Hin. destruct Hin as [y [Hy Hin]]. inversion Hy; subst. contradiction.
Qed.

Lemma product_NoDup : forall vals, Forall (@NoDup atom) vals -> NoDup (product vals).
Proof.
  induction vals as [|v rest IH]; intros H; simpl.
  - constructor; [intros []|constructor].
  - inversion H as [|v' rest' Hv Hrest]; subst. specialize (IH Hrest).
    clear H Hrest. induction Hv as [|a v Ha Hv IHv]; simpl; [constructor|].
    apply NoDup_app_local; [apply NoDup_map_cons; exact IH | exact IHv |].
    intros k Hk1 Hk2. apply in_map_iff in Hk1. destruct Hk1 as [k1 [<- _]].
    apply in_flat_map in Hk2. destruct Hk2 as [b [Hb Hk2]].
    apply in_map_iff in Hk2. destruct Hk2 as [k2 [Heq _]]. inversion Heq; subst. contradiction.
Qed.

Lemma insert_key_perm : forall k l, Permutation (insert_key k l) (k :: l).
Proof.
  intros k l. induction l as [|x t IH]; simpl; [apply Permutation_refl|].
  destruct (key_leb k x); [apply Permutation_refl|].
  eapply Permutation_trans; [apply perm_skip; exact IH|apply perm_swap].
Qed.

Lemma sort_keys_perm : forall l, Permutation (sort_keys l) l.
Proof.
  induction l as [|k t IH]; simpl; [constructor|].
  eapply Permutation_trans; [apply insert_key_perm|apply perm_skip; exact IH].
Qed.

Lemma sort_keys_In : forall k l, In k (sort_keys l) <-> In k l.
Proof.
  intros k l. split; apply Permutation_in; [apply sort_keys_perm|apply Permutation_sym; apply sort_keys_perm].
Qed.

Lemma sort_keys_NoDup : forall l, NoDup l -> NoDup (sort_keys l).
Proof. intros l H. eapply Permutation_NoDup; [apply Permutation_sym; apply sort_keys_perm|exact H]. Qed.

(* the per-column value sets are duplicate-free *)
Lemma lookup_values_NoDup : forall kinds cells vals u,
  lookup_values kinds cells = LvOk vals u -> u = false -> Forall (@NoDup atom) vals.
Proof.
  induction kinds as [|kd ks IH]; intros cells vals u H Hu; simpl in H.
  - inversion H. constructor.
  - destruct cells as [|c cs]; [discriminate|].
    assert (Hcons : forall v u0, lv_cons v u0 (lookup_values ks cs) = LvOk vals u -> NoDup v ->
                                 Forall (@NoDup atom) vals).
    { intros v u0 Hc Hv. unfold lv_cons in Hc. destruct (lookup_values ks cs) as [| |vals' u'] eqn:E;
        try discriminate. inversion Hc; subst. constructor; [exact Hv|].
      apply (IH cs vals' u' E). destruct u0, u'; simpl in *; congruence. }
    destruct c as [a|l| |]; destruct kd; try discriminate.
    + apply (Hcons _ _ H). constructor; [intros []|constructor].
    + apply (Hcons _ _ H). constructor.
    + apply (Hcons _ _ H). destruct (dedup l) eqn:E.
      * constructor; [intros []|constructor].
      * rewrite <- E. apply dedup_NoDup.
    + apply (Hcons _ _ H). destruct (dedup l) eqn:E.
      * constructor; [intros []|constructor].
      * rewrite <- E. apply dedup_NoDup.
    + apply (Hcons _ _ H). constructor.
Qed.

Lemma row_keys_NoDup : forall kinds cells ks, row_keys kinds cells = Some ks -> NoDup ks.
Proof.
  intros kinds cells ks H. unfold row_keys in H.
  destruct (lookup_values kinds cells) as [| |vals u] eqn:E.
  - inversion H. constructor.
  - discriminate.
  - destruct u.
    + destruct vals; discriminate.
    + inversion H. apply sort_keys_NoDup. apply product_NoDup.
      eapply lookup_values_NoDup; [exact E|reflexivity].
Qed.

(* ------------------------------------------------------------------ first_match *)

Lemma fm_app : forall s a k,
  first_match (s ++ a) k = match first_match s k with Some i => Some i | None => first_match a k end.
Proof.
  induction s as [|r t IH]; intros a k; simpl; [reflexivity|].
  destruct (key_eqb (snd r) k); [reflexivity|apply IH].
Qed.

Lemma fm_some_in : forall s k i, first_match s k = Some i -> In (i, k) s.
Proof.
  induction s as [|r t IH]; intros k i H; simpl in H; [discriminate|].
  destruct (key_eqb (snd r) k) eqn:E.
  - apply key_eqb_spec in E. inversion H; subst. left. destruct r; reflexivity.
  - right. apply IH. exact H.
Qed.

Lemma fm_none_notin : forall s k, first_match s k = None -> forall i, ~ In (i, k) s.
Proof.
  induction s as [|r t IH]; intros k H i Hin; simpl in *; [exact Hin|].
  destruct (key_eqb (snd r) k) eqn:E; [discriminate|].
  destruct Hin as [->|Hin].
  - simpl in E. rewrite key_eqb_refl in E. discriminate.
  - exact (IH k H i Hin).
Qed.

Lemma fm_in_some : forall s k i, In (i, k) s -> exists j, first_match s k = Some j.
Proof.
  intros s k i Hin. destruct (first_match s k) as [j|] eqn:E; [exists j; reflexivity|].
  exfalso. exact (fm_none_notin s k E i Hin).
Qed.

(* removing other rows does not change what a key finds, as long as the found row stays *)
Lemma fm_filter : forall (keep : Z -> bool) s k i,
  first_match s k = Some i -> keep i = true ->
  first_match (filter (fun r => keep (fst r)) s) k = Some i.
Proof.
  induction s as [|r t IH]; intros k i H Hk; simpl in *; [discriminate|].
  destruct (key_eqb (snd r) k) eqn:E.
  - inversion H; subst. rewrite Hk. simpl. rewrite E. reflexivity.
  - destruct (keep (fst r)); simpl; [rewrite E|]; apply IH; assumption.
Qed.

(* ------------------------------------------------------------------ row ids *)

Lemma max_id_ge : forall s r, In r s -> fst r <= max_id s.
Proof.
  induction s as [|x t IH]; intros r H; [contradiction|].
  unfold max_id in *. simpl in *. destruct H as [->|H]; [lia|]. specialize (IH r H). lia.
Qed.

Lemma max_id_nonneg : forall s, 0 <= max_id s.
Proof. induction s as [|x t IH]; unfold max_id in *; simpl in *; lia. Qed.

Lemma max_id_app : forall s a, max_id (s ++ a) = Z.max (max_id s) (max_id a).
Proof.
  induction s as [|x t IH]; intros a.
  - pose proof (max_id_nonneg a). unfold max_id in *. simpl in *. lia.
  - specialize (IH a). unfold max_id in *. simpl in *. lia.
Qed.

Lemma number_from_fst : forall ks n r, In r (number_from n ks) -> n <= fst r < n + Z.of_nat (length ks).
Proof.
  induction ks as [|k t IH]; intros n r H; simpl in *; [contradiction|].
  destruct H as [<-|H]; simpl; [lia|]. specialize (IH (n + 1) r H). lia.
Qed.

Lemma number_from_snd : forall ks n, map snd (number_from n ks) = ks.
Proof. induction ks as [|k t IH]; intros n; simpl; [reflexivity|]. rewrite IH. reflexivity. Qed.

Lemma number_from_NoDup : forall ks n, NoDup (map fst (number_from n ks)).
Proof.
  induction ks as [|k t IH]; intros n; simpl; constructor; [|apply IH].
  intros H. apply in_map_iff in H. destruct H as [r [Hr Hin]].
  apply number_from_fst in Hin. lia.
Qed.

Lemma number_from_fm : forall ks n k, NoDup ks -> In k ks ->
  exists i, first_match (number_from n ks) k = Some i.
Proof.
  intros ks n k _ Hin. assert (H : In k (map snd (number_from n ks))) by (rewrite number_from_snd; exact Hin).
  apply in_map_iff in H. destruct H as [[i k'] [Hk Hr]]. simpl in Hk. subst k'.
  eapply fm_in_some. exact Hr.
Qed.

Lemma number_from_in_key : forall ks n i k, In (i, k) (number_from n ks) -> In k ks.
Proof.
  intros ks n i k H. rewrite <- (number_from_snd ks n). apply in_map_iff. exists (i, k). split; [reflexivity|exact H].
Qed.

(* in a list of rows with distinct keys, a key finds exactly its own row *)
Lemma fm_unique : forall s k i, NoDup (map snd s) -> In (i, k) s -> first_match s k = Some i.
Proof.
  induction s as [|r t IH]; intros k i Hnd Hin; simpl in *; [contradiction|].
  inversion Hnd as [|x l Hx Hl]; subst.
  destruct Hin as [->|Hin].
  - simpl. rewrite key_eqb_refl. reflexivity.
  - destruct (key_eqb (snd r) k) eqn:E.
    + apply key_eqb_spec in E. exfalso. apply Hx. rewrite E.
      apply in_map_iff. exists (i, k). split; [reflexivity|exact Hin].
    + apply IH; assumption.
Qed.

(* ------------------------------------------------------------------ one evaluation of the helper formula *)

(* what an entry `h` of the helper column means with respect to a summary table s' *)
Definition hspec (kinds : list kind) (s' : list mrow) (stale : list Z) (cells : list cell) (h : list Z) : Prop :=
  match row_keys kinds cells with
  | None => h = stale
  | Some ks => (forall k, In k ks -> exists i, In i h /\ first_match s' k = Some i) /\
               (forall i, In i h -> exists k, In k ks /\ first_match s' k = Some i)
  end.

Lemma hspec_extend : forall kinds s1 more stale cells h,
  hspec kinds s1 stale cells h -> hspec kinds (s1 ++ more) stale cells h.
Proof.
  intros kinds s1 more stale cells h H. unfold hspec in *.
  destruct (row_keys kinds cells) as [ks|]; [|exact H].
  destruct H as [H1 H2]. split.
  - intros k Hk. destruct (H1 k Hk) as [i [Hi Hf]]. exists i. split; [exact Hi|].
    rewrite fm_app, Hf. reflexivity.
  - intros i Hi. destruct (H2 i Hi) as [k [Hk Hf]]. exists k. split; [exact Hk|].
    rewrite fm_app, Hf. reflexivity.
Qed.

Lemma NoDup_filter_local : forall {A} (p : A -> bool) l, NoDup l -> NoDup (filter p l).
Proof.
  intros A p l H. induction H as [|x l Hx Hl IH]; simpl; [constructor|].
  destruct (p x); [constructor; [|exact IH]|exact IH].
  intros Hin. apply filter_In in Hin. tauto.
Qed.

Lemma helper_list_spec : forall kinds stale s cells s1 h,
  helper_list kinds stale s cells = (s1, h) ->
  exists added, s1 = s ++ added
    /\ hspec kinds s1 stale cells h
    /\ (forall r, In r added -> max_id s < fst r)
    /\ NoDup (map fst added)
    /\ (forall i k, In (i, k) added -> first_match s1 k = Some i /\ In k (keys_of kinds cells)).
Proof.
  intros kinds stale s cells s1 h H. unfold helper_list in H.
  destruct (row_keys kinds cells) as [ks|] eqn:Ek.
  - set (added := number_from (next_id s) (missing_keys s ks)) in *.
    inversion H; subst s1 h; clear H. exists added.
    assert (Hnd : NoDup ks) by (eapply row_keys_NoDup; exact Ek).
    assert (Hmk : NoDup (map snd added)).
    { unfold added. rewrite number_from_snd. apply NoDup_filter_local. exact Hnd. }
    assert (Hadded : forall i k, In (i, k) added ->
              first_match (s ++ added) k = Some i /\ In k ks).
    { intros i k Hin. pose proof (number_from_in_key _ _ _ _ Hin) as Hm.
      unfold missing_keys in Hm. apply filter_In in Hm. destruct Hm as [Hks Hnone].
      split; [|exact Hks]. rewrite fm_app.
      destruct (first_match s k); [discriminate|]. apply fm_unique; assumption. }
    split; [reflexivity|]. split; [|split; [|split]].
    + unfold hspec. rewrite Ek. split.
      * intros k Hk. destruct (first_match s k) as [i|] eqn:Ef.
        -- exists i. split.
           ++ apply in_or_app. left. unfold found_ids. apply in_flat_map. exists k. split; [exact Hk|].
              rewrite Ef. left. reflexivity.
           ++ rewrite fm_app, Ef. reflexivity.
        -- assert (Hm : In k (missing_keys s ks)).
           { unfold missing_keys. apply filter_In. split; [exact Hk|]. rewrite Ef. reflexivity. }
           destruct (number_from_fm _ (next_id s) k (NoDup_filter_local _ _ Hnd) Hm) as [i Hi].
           exists i. split.
           ++ apply in_or_app. right. apply in_map_iff. exists (i, k). split; [reflexivity|].
              apply fm_some_in. exact Hi.
           ++ rewrite fm_app, Ef. exact Hi.
      * intros i Hi. apply in_app_or in Hi. destruct Hi as [Hi|Hi].
        -- unfold found_ids in Hi. apply in_flat_map in Hi. destruct Hi as [k [Hk Hi]].
           destruct (first_match s k) as [j|] eqn:Ef; [|contradiction].
           destruct Hi as [<-|[]]. exists k. split; [exact Hk|]. rewrite fm_app, Ef. reflexivity.
        -- apply in_map_iff in Hi. destruct Hi as [[i' k] [Hfst Hin]]. simpl in Hfst. subst i'.
           destruct (Hadded i k Hin) as [Hf Hks]. exists k. split; assumption.
    + intros r Hr. apply number_from_fst in Hr. unfold next_id in Hr. lia.
    + apply number_from_NoDup.
    + intros i k Hin. destruct (Hadded i k Hin) as [Hf Hks]. split; [exact Hf|].
      unfold keys_of. rewrite Ek. exact Hks.
  - inversion H; subst s1 h; clear H. exists []. rewrite app_nil_r.
    split; [reflexivity|]. split; [unfold hspec; rewrite Ek; reflexivity|].
    split; [intros r []|]. split; [constructor|]. intros i k [].
Qed.

(* ------------------------------------------------------------------ simple mode = list mode without list columns
   ("All of these branches should be interchangeable and produce equivalent results when no list columns or
   CONTAINS are involved", table.py) *)

Lemma simple_lookup_values : forall kinds cells, existsb is_list_kind kinds = false ->
  match simple_values kinds cells with
  | None => lookup_values kinds cells = LvRaise
  | Some (k, u) => exists vals, lookup_values kinds cells = LvOk vals u /\
                                (u = false -> vals = map (fun a => [a]) k)
  end.
Proof.
  induction kinds as [|kd ks IH]; intros cells Hk; simpl.
  - exists []. split; reflexivity.
  - simpl in Hk. apply orb_false_iff in Hk. destruct Hk as [Hkd Hks].
    destruct kd; try discriminate. destruct cells as [|c cs]; [reflexivity|].
    specialize (IH cs Hks).
    destruct c as [a|l| |]; try reflexivity;
      destruct (simple_values ks cs) as [[k u]|]; simpl.
    + destruct IH as [vals [Hv Hu]]. rewrite Hv. simpl. exists ([a] :: vals). split; [reflexivity|].
      intros E. rewrite (Hu E). reflexivity.
    + rewrite IH. reflexivity.
    + destruct IH as [vals [Hv Hu]]. rewrite Hv. simpl. exists ([] :: vals). split; [reflexivity|discriminate].
    + rewrite IH. reflexivity.
    + destruct IH as [vals [Hv Hu]]. rewrite Hv. simpl. exists ([] :: vals). split; [reflexivity|discriminate].
    + rewrite IH. reflexivity.
Qed.

Lemma product_singletons : forall k, product (map (fun a => [a]) k) = [k].
Proof. induction k as [|a k IH]; simpl; [reflexivity|]. rewrite IH. reflexivity. Qed.

Lemma simple_row_keys : forall kinds cells, summary_simple kinds = true ->
  match simple_values kinds cells with
  | None => row_keys kinds cells = None
  | Some (_, true) => row_keys kinds cells = None
  | Some (k, false) => row_keys kinds cells = Some [k]
  end.
Proof.
  intros kinds cells H. unfold summary_simple in H. apply negb_true_iff in H.
  pose proof (simple_lookup_values kinds cells H) as L. unfold row_keys.
  destruct (simple_values kinds cells) as [[k u]|].
  - destruct L as [vals [Hv Hu]]. rewrite Hv. destruct u.
    + destruct vals; reflexivity.
    + rewrite (Hu eq_refl), product_singletons. reflexivity.
  - rewrite L. reflexivity.
Qed.

Lemma helper_simple_is_list : forall kinds stale s cells, summary_simple kinds = true ->
  helper_simple kinds stale s cells = helper_list kinds stale s cells.
Proof.
  intros kinds stale s cells H. pose proof (simple_row_keys kinds cells H) as L.
  unfold helper_simple, helper_list.
  destruct (simple_values kinds cells) as [[k u]|].
  - destruct u.
    + rewrite L. reflexivity.
    + rewrite L. unfold missing_keys, found_ids. simpl.
      destruct (first_match s k) as [i|]; simpl; rewrite ?app_nil_r; reflexivity.
  - rewrite L. reflexivity.
Qed.

Lemma helper_is_list : forall kinds stale s cells,
  helper kinds stale s cells = helper_list kinds stale s cells.
Proof.
  intros. unfold helper. destruct (summary_simple kinds) eqn:E; [apply helper_simple_is_list; exact E|reflexivity].
Qed.

(* ------------------------------------------------------------------ one round over all source records *)

Definition hrel (kinds : list kind) (prev : list (Z * list Z)) (s' : list mrow) (r : srow) (rh : Z * list Z) : Prop :=
  fst rh = fst r /\ hspec kinds s' (entry prev (fst r)) (snd r) (snd rh).

Lemma pass_spec : forall kinds prev src s s' hs,
  pass kinds prev src s = (s', hs) ->
  exists added, s' = s ++ added
    /\ Forall2 (hrel kinds prev s') src hs
    /\ (forall r, In r added -> max_id s < fst r)
    /\ NoDup (map fst added)
    /\ (forall i k, In (i, k) added ->
          first_match s' k = Some i /\ exists r, In r src /\ In k (keys_of kinds (snd r))).
Proof.
  intros kinds prev src. induction src as [|r t IH]; intros s s' hs H; simpl in H.
  - inversion H; subst. exists []. rewrite app_nil_r. split; [reflexivity|]. split; [constructor|].
    split; [intros r []|]. split; [constructor|intros i k []].
  - destruct (helper kinds (entry prev (fst r)) s (snd r)) as [s1 h] eqn:Eh.
    destruct (pass kinds prev t s1) as [s2 hs'] eqn:Ep. inversion H; subst s' hs; clear H.
    rewrite helper_is_list in Eh.
    destruct (helper_list_spec _ _ _ _ _ _ Eh) as [a1 [Hs1 [Hh [Hid1 [Hnd1 Hk1]]]]].
    destruct (IH s1 s2 hs' Ep) as [a2 [Hs2 [Hf [Hid2 [Hnd2 Hk2]]]]].
    exists (a1 ++ a2). subst s1. split; [rewrite Hs2, app_assoc; reflexivity|].
    split; [|split; [|split]].
    + constructor; [|exact Hf]. split; [reflexivity|]. simpl. rewrite Hs2. apply hspec_extend. exact Hh.
    + intros x Hx. apply in_app_or in Hx. destruct Hx as [Hx|Hx]; [apply Hid1; exact Hx|].
      specialize (Hid2 x Hx). rewrite max_id_app in Hid2. lia.
    + rewrite map_app. apply NoDup_app_local; [exact Hnd1|exact Hnd2|].
      intros x Hx1 Hx2. apply in_map_iff in Hx1. destruct Hx1 as [r1 [<- Hr1]].
      apply in_map_iff in Hx2. destruct Hx2 as [r2 [Heq Hr2]].
      specialize (Hid2 r2 Hr2). assert (Hle : fst r1 <= max_id (s ++ a1)).
      { apply max_id_ge. apply in_or_app. right. exact Hr1. }
      lia.
    + intros i k Hin. apply in_app_or in Hin. destruct Hin as [Hin|Hin].
      * destruct (Hk1 i k Hin) as [Hf1 Hkeys]. split.
        -- rewrite Hs2, fm_app, Hf1. reflexivity.
        -- exists r. split; [left; reflexivity|exact Hkeys].
      * destruct (Hk2 i k Hin) as [Hf2 [r' [Hr' Hkeys]]]. split; [exact Hf2|].
        exists r'. split; [right; exact Hr'|exact Hkeys].
Qed.

Lemma pass_ids_NoDup : forall kinds prev src s s' hs,
  pass kinds prev src s = (s', hs) -> NoDup (map fst s) -> NoDup (map fst s').
Proof.
  intros kinds prev src s s' hs H Hnd.
  destruct (pass_spec _ _ _ _ _ _ H) as [added [-> [_ [Hid [Hnda _]]]]].
  rewrite map_app. apply NoDup_app_local; [exact Hnd|exact Hnda|].
  intros x Hx1 Hx2. apply in_map_iff in Hx1. destruct Hx1 as [r1 [<- Hr1]].
  apply in_map_iff in Hx2. destruct Hx2 as [r2 [Heq Hr2]].
  specialize (Hid r2 Hr2). pose proof (max_id_ge s r1 Hr1). lia.
Qed.

(* ------------------------------------------------------------------ groups *)

Lemma group_of_In : forall hs i rid,
  In rid (group_of hs i) <-> exists h, In (rid, h) hs /\ In i h.
Proof.
  intros hs i rid. unfold group_of. rewrite in_map_iff. split.
  - intros [[rid' h] [Heq Hin]]. simpl in Heq. subst rid'. apply filter_In in Hin. destruct Hin as [Hin Hm].
    exists h. split; [exact Hin|apply mem_z_In; exact Hm].
  - intros [h [Hin Hi]]. exists (rid, h). split; [reflexivity|]. apply filter_In. split; [exact Hin|].
    apply mem_z_In. exact Hi.
Qed.

Definition keepb (hs : list (Z * list Z)) (i : Z) : bool :=
  match group_of hs i with [] => false | _ => true end.

Lemma keepb_true : forall hs i rid h, In (rid, h) hs -> In i h -> keepb hs i = true.
Proof.
  intros hs i rid h Hin Hi. unfold keepb.
  assert (H : In rid (group_of hs i)) by (apply group_of_In; exists h; split; assumption).
  destruct (group_of hs i); [contradiction|reflexivity].
Qed.

Lemma auto_remove_filter : forall s hs,
  auto_remove (with_groups s hs) = filter (fun r => keepb hs (fst r)) s.
Proof.
  intros s hs. unfold auto_remove, with_groups. induction s as [|r t IH]; simpl; [reflexivity|].
  unfold nonempty_group at 1, keepb at 1. simpl.
  destruct (group_of hs (fst r)); simpl; rewrite IH; [reflexivity|destruct r; reflexivity].
Qed.

Lemma filter_with_groups : forall s hs,
  filter nonempty_group (with_groups s hs) = with_groups (filter (fun r => keepb hs (fst r)) s) hs.
Proof.
  intros s hs. unfold with_groups. induction s as [|r t IH]; simpl; [reflexivity|].
  unfold nonempty_group at 1, keepb at 1. simpl.
  destruct (group_of hs (fst r)) eqn:E; simpl; rewrite IH; [reflexivity|rewrite E; reflexivity].
Qed.

Lemma forallb_filter_id : forall {A} (p : A -> bool) l, forallb p l = true -> filter p l = l.
Proof.
  intros A p l. induction l as [|x t IH]; simpl; [reflexivity|].
  intros H. apply andb_true_iff in H. destruct H as [Hx Ht]. rewrite Hx, (IH Ht). reflexivity.
Qed.

Lemma forallb_filter_self : forall {A} (p : A -> bool) l, forallb p (filter p l) = true.
Proof.
  intros A p l. induction l as [|x t IH]; simpl; [reflexivity|].
  destruct (p x) eqn:E; simpl; [rewrite E|]; exact IH.
Qed.

(* entries that contain the same ids give the same groups *)
Definition hequiv (a b : Z * list Z) : Prop := fst a = fst b /\ forall i, In i (snd a) <-> In i (snd b).

Lemma group_of_equiv : forall hs1 hs2, Forall2 hequiv hs1 hs2 -> forall i, group_of hs1 i = group_of hs2 i.
Proof.
  intros hs1 hs2 H i. unfold group_of. induction H as [|a b l1 l2 [Hf Hi] _ IH]; simpl; [reflexivity|].
  assert (Hm : mem_z i (snd a) = mem_z i (snd b)).
  { destruct (mem_z i (snd a)) eqn:Ea, (mem_z i (snd b)) eqn:Eb; try reflexivity.
    - apply mem_z_In in Ea. apply Hi in Ea. apply mem_z_In in Ea. congruence.
    - apply mem_z_In in Eb. apply Hi in Eb. apply mem_z_In in Eb. congruence. }
  rewrite Hm. destruct (mem_z i (snd b)); simpl; rewrite IH; [rewrite Hf|]; reflexivity.
Qed.

Lemma with_groups_equiv : forall s hs1 hs2, Forall2 hequiv hs1 hs2 -> with_groups s hs1 = with_groups s hs2.
Proof.
  intros s hs1 hs2 H. unfold with_groups. apply map_ext. intros r. rewrite (group_of_equiv _ _ H). reflexivity.
Qed.

(* ------------------------------------------------------------------ re-evaluating an up-to-date helper cell *)

Lemma missing_none : forall s ks, (forall k, In k ks -> first_match s k <> None) -> missing_keys s ks = [].
Proof.
  intros s ks H. unfold missing_keys. induction ks as [|k t IH]; simpl; [reflexivity|].
  destruct (first_match s k) eqn:E.
  - apply IH. intros k' Hk'. apply H. right. exact Hk'.
  - exfalso. apply (H k); [left; reflexivity|exact E].
Qed.

(* an entry that is what an evaluation would give: evaluating changes nothing but the order of the ids *)
Lemma helper_list_valid : forall kinds stale s cells h0,
  hspec kinds s stale cells h0 ->
  exists h', helper_list kinds stale s cells = (s, h') /\ (forall i, In i h' <-> In i h0).
Proof.
  intros kinds stale s cells h0 H. unfold hspec in H. unfold helper_list.
  destruct (row_keys kinds cells) as [ks|].
  - destruct H as [H1 H2]. rewrite (missing_none s ks).
    + simpl. rewrite !app_nil_r. exists (found_ids s ks). split; [reflexivity|].
      intros i. unfold found_ids. rewrite in_flat_map. split.
      * intros [k [Hk Hi]]. destruct (H1 k Hk) as [j [Hj Hf]]. rewrite Hf in Hi.
        destruct Hi as [<-|[]]. exact Hj.
      * intros Hi. destruct (H2 i Hi) as [k [Hk Hf]]. exists k. split; [exact Hk|]. rewrite Hf. left. reflexivity.
    + intros k Hk. destruct (H1 k Hk) as [j [_ Hf]]. rewrite Hf. discriminate.
  - exists stale. split; [reflexivity|]. subst h0. tauto.
Qed.

(* the records that are not re-evaluated have entries an evaluation would give *)
Definition clean_valid (kinds : list kind) (dirty : list Z) (prev : list (Z * list Z)) (src : list srow)
  (s : list mrow) : Prop :=
  forall r, In r src -> mem_z (fst r) dirty = false ->
    hspec kinds s (entry prev (fst r)) (snd r) (entry prev (fst r)).

Lemma pass_d_full : forall kinds dirty prev src s,
  clean_valid kinds dirty prev src s ->
  exists s' hsd hs, pass_d kinds dirty prev src s = (s', hsd) /\ pass kinds prev src s = (s', hs) /\
                    Forall2 hequiv hsd hs.
Proof.
  intros kinds dirty prev src. induction src as [|r t IH]; intros s Hv; simpl.
  - exists s, [], []. split; [reflexivity|]. split; [reflexivity|constructor].
  - destruct (mem_z (fst r) dirty) eqn:Ed.
    + destruct (helper kinds (entry prev (fst r)) s (snd r)) as [s1 h] eqn:Eh.
      assert (Hext : exists a, s1 = s ++ a).
      { rewrite helper_is_list in Eh. destruct (helper_list_spec _ _ _ _ _ _ Eh) as [a [Ha _]]. exists a. exact Ha. }
      destruct Hext as [a ->].
      destruct (IH (s ++ a)) as [s' [hsd [hs [Hd [Hp Hq]]]]].
      { intros r' Hr' Hc. apply hspec_extend. apply Hv; [right; exact Hr'|exact Hc]. }
      rewrite Hd, Hp. exists s', ((fst r, h) :: hsd), ((fst r, h) :: hs).
      split; [reflexivity|]. split; [reflexivity|]. constructor; [|exact Hq]. split; [reflexivity|tauto].
    + pose proof (Hv r (or_introl eq_refl) Ed) as Hr.
      destruct (helper_list_valid _ _ _ _ _ Hr) as [h' [Hh' Hi]].
      rewrite helper_is_list, Hh'.
      destruct (IH s) as [s' [hsd [hs [Hd [Hp Hq]]]]].
      { intros r' Hr' Hc. apply Hv; [right; exact Hr'|exact Hc]. }
      rewrite Hd, Hp. exists s', ((fst r, entry prev (fst r)) :: hsd), ((fst r, h') :: hs).
      split; [reflexivity|]. split; [reflexivity|]. constructor; [|exact Hq]. split; [reflexivity|].
      intros i. simpl. symmetry. apply Hi.
Qed.

Lemma pass_d_nothing_dirty : forall kinds prev src s,
  pass_d kinds [] prev src s = (s, map (fun r => (fst r, entry prev (fst r))) src).
Proof.
  intros kinds prev src. induction src as [|r t IH]; intros s; simpl; [reflexivity|].
  rewrite IH. reflexivity.
Qed.

Lemma entry_In : forall hs rid h, NoDup (map fst hs) -> In (rid, h) hs -> entry hs rid = h.
Proof.
  induction hs as [|p t IH]; intros rid h Hnd Hin; simpl in *; [contradiction|].
  inversion Hnd as [|x l Hx Hl]; subst. destruct Hin as [->|Hin].
  - simpl. rewrite Z.eqb_refl. reflexivity.
  - destruct (Z.eqb_spec (fst p) rid) as [E|E].
    + exfalso. apply Hx. rewrite E. apply in_map_iff. exists (rid, h). split; [reflexivity|exact Hin].
    + apply IH; assumption.
Qed.

Lemma Forall2_hrel_fst : forall kinds prev s' src hs,
  Forall2 (hrel kinds prev s') src hs -> map fst hs = map fst src.
Proof.
  intros kinds prev s' src hs H. induction H as [|r rh l1 l2 [Hf _] _ IH]; simpl; [reflexivity|].
  rewrite Hf, IH. reflexivity.
Qed.

Lemma Forall2_In_l : forall {A B} (R : A -> B -> Prop) l1 l2 x,
  Forall2 R l1 l2 -> In x l1 -> exists y, In y l2 /\ R x y.
Proof.
  intros A B R l1 l2 x H. induction H as [|a b l1 l2 Hab _ IH]; intros Hin; [contradiction|].
  destruct Hin as [->|Hin]; [exists b; split; [left; reflexivity|exact Hab]|].
  destruct (IH Hin) as [y [Hy Hr]]. exists y. split; [right; exact Hy|exact Hr].
Qed.

Lemma Forall2_In_r : forall {A B} (R : A -> B -> Prop) l1 l2 y,
  Forall2 R l1 l2 -> In y l2 -> exists x, In x l1 /\ R x y.
Proof.
  intros A B R l1 l2 y H. induction H as [|a b l1 l2 Hab _ IH]; intros Hin; [contradiction|].
  destruct Hin as [->|Hin]; [exists a; split; [left; reflexivity|exact Hab]|].
  destruct (IH Hin) as [x [Hx Hr]]. exists x. split; [right; exact Hx|exact Hr].
Qed.

(* ------------------------------------------------------------------ the settle loop reaches a fixpoint *)

(* after a round and the removal of the rows with empty groups, every entry is up to date *)
Lemma round_fixpoint : forall kinds prev src s s1 hs,
  NoDup (map fst src) -> pass kinds prev src s = (s1, hs) ->
  clean_valid kinds [] hs src (filter (fun r => keepb hs (fst r)) s1).
Proof.
  intros kinds prev src s s1 hs Hnd Hp r Hr _.
  destruct (pass_spec _ _ _ _ _ _ Hp) as [added [_ [Hf _]]].
  destruct (Forall2_In_l _ _ _ r Hf Hr) as [rh [Hrh [Hfst Hs]]].
  assert (He : entry hs (fst r) = snd rh).
  { apply entry_In.
    - rewrite (Forall2_hrel_fst _ _ _ _ _ Hf). exact Hnd.
    - rewrite <- Hfst. destruct rh; exact Hrh. }
  rewrite He. unfold hspec in *. destruct (row_keys kinds (snd r)) as [ks|]; [|reflexivity].
  destruct Hs as [H1 H2].
  assert (Hkeep : forall i, In i (snd rh) -> keepb hs i = true).
  { intros i Hi. apply (keepb_true hs i (fst rh) (snd rh)); [destruct rh; exact Hrh|exact Hi]. }
  split.
  - intros k Hk. destruct (H1 k Hk) as [i [Hi Hfm]]. exists i. split; [exact Hi|].
    apply fm_filter; [exact Hfm|apply Hkeep; exact Hi].
  - intros i Hi. destruct (H2 i Hi) as [k [Hk Hfm]]. exists k. split; [exact Hk|].
    apply fm_filter; [exact Hfm|apply Hkeep; exact Hi].
Qed.

Lemma entries_self : forall hs, NoDup (map fst hs) -> map (fun i => (i, entry hs i)) (map fst hs) = hs.
Proof.
  intros hs Hnd. rewrite map_map.
  assert (H : forall l, (forall x, In x l -> In x hs) -> map (fun x => (fst x, entry hs (fst x))) l = l).
  { induction l as [|x t IH]; intros Hin; simpl; [reflexivity|].
    rewrite IH by (intros y Hy; apply Hin; right; exact Hy).
    rewrite (entry_In hs (fst x) (snd x) Hnd) by (destruct x; apply Hin; left; reflexivity).
    destruct x; reflexivity. }
  apply H. auto.
Qed.

Lemma second_round : forall kinds prev src s s1 hs,
  NoDup (map fst src) -> pass kinds prev src s = (s1, hs) ->
  exists hs2, pass kinds hs src (filter (fun r => keepb hs (fst r)) s1)
              = (filter (fun r => keepb hs (fst r)) s1, hs2) /\ Forall2 hequiv hs hs2.
Proof.
  intros kinds prev src s s1 hs Hnd Hp.
  pose proof (round_fixpoint _ _ _ _ _ _ Hnd Hp) as Hv.
  destruct (pass_d_full _ _ _ _ _ Hv) as [s' [hsd [hs2 [Hd [Hp2 Hq]]]]].
  rewrite pass_d_nothing_dirty in Hd. inversion Hd; subst s' hsd; clear Hd.
  exists hs2. split; [exact Hp2|].
  destruct (pass_spec _ _ _ _ _ _ Hp) as [added [_ [Hf _]]].
  pose proof (Forall2_hrel_fst _ _ _ _ _ Hf) as Hfst.
  assert (Hself : map (fun r => (fst r, entry hs (fst r))) src = hs).
  { transitivity (map (fun i => (i, entry hs i)) (map fst hs)).
    - rewrite Hfst, map_map. reflexivity.
    - apply entries_self. rewrite Hfst. exact Hnd. }
  rewrite Hself in Hq. exact Hq.
Qed.

Lemma settle_loop_closed : forall kinds prev src summ s1 hs,
  NoDup (map fst src) -> pass kinds prev src summ = (s1, hs) ->
  forall f, settle_loop (S (S f)) kinds prev src summ = Some (filter nonempty_group (with_groups s1 hs)).
Proof.
  intros kinds prev src summ s1 hs Hnd Hp f.
  cbn [settle_loop]. rewrite Hp.
  destruct (forallb nonempty_group (with_groups s1 hs)) eqn:Ea.
  - rewrite (forallb_filter_id _ _ Ea). reflexivity.
  - rewrite auto_remove_filter.
    destruct (second_round _ _ _ _ _ _ Hnd Hp) as [hs2 [Hp2 Hq]].
    rewrite Hp2. rewrite <- (with_groups_equiv _ _ _ Hq). rewrite <- filter_with_groups.
    rewrite forallb_filter_self. reflexivity.
Qed.

(* ------------------------------------------------------------------ exactness of the settled table *)

Lemma fst_inj_NoDup : forall (s : list mrow) i k k', NoDup (map fst s) -> In (i, k) s -> In (i, k') s -> k = k'.
Proof.
  induction s as [|r t IH]; intros i k k' Hnd H1 H2; simpl in *; [contradiction|].
  inversion Hnd as [|x l Hx Hl]; subst.
  destruct H1 as [->|H1], H2 as [E|H2].
  - inversion E. reflexivity.
  - exfalso. apply Hx. simpl. apply in_map_iff. exists (i, k'). split; [reflexivity|exact H2].
  - subst r. exfalso. apply Hx. simpl. apply in_map_iff. exists (i, k). split; [reflexivity|exact H1].
  - eapply IH; eassumption.
Qed.

Lemma NoDup_map_inj_on : forall {A B C} (f : A -> B) (g : A -> C) l,
  NoDup (map f l) -> (forall x y, In x l -> In y l -> g x = g y -> f x = f y) -> NoDup (map g l).
Proof.
  intros A B C f g l. induction l as [|a t IH]; intros Hnd Hinj; simpl; [constructor|].
  inversion Hnd as [|x l' Hx Hl]; subst. constructor.
  - intros Hin. apply in_map_iff in Hin. destruct Hin as [b [Hgb Hb]].
    apply Hx. apply in_map_iff. exists b. split; [|exact Hb].
    symmetry. apply Hinj; [left; reflexivity|right; exact Hb|symmetry; exact Hgb].
  - apply IH; [exact Hl|]. intros x y Hx' Hy'. apply Hinj; right; assumption.
Qed.

Lemma filter_map_fst_Forall2 : forall {A B} (R : A -> B -> Prop) (fa : A -> Z) (fb : B -> Z) p q l1 l2,
  Forall2 R l1 l2 ->
  (forall a b, In a l1 -> In b l2 -> R a b -> fa a = fb b /\ p a = q b) ->
  map fa (filter p l1) = map fb (filter q l2).
Proof.
  intros A B R fa fb p q l1 l2 H. induction H as [|a b l1 l2 Hab _ IH]; intros Hpq; simpl; [reflexivity|].
  destruct (Hpq a b (or_introl eq_refl) (or_introl eq_refl) Hab) as [Hf Hb]. rewrite Hb.
  assert (IH' : map fa (filter p l1) = map fb (filter q l2)).
  { apply IH. intros a' b' Ha' Hb' Hr. apply Hpq; [right; exact Ha'|right; exact Hb'|exact Hr]. }
  destruct (q b); simpl; rewrite IH'; [rewrite Hf|]; reflexivity.
Qed.

Lemma NoDup_map_filter : forall {A B} (f : A -> B) p l, NoDup (map f l) -> NoDup (map f (filter p l)).
Proof.
  intros A B f p l. induction l as [|a t IH]; intros H; simpl; [constructor|].
  inversion H as [|x l' Hx Hl]; subst. destruct (p a); simpl; [|apply IH; exact Hl].
  constructor; [|apply IH; exact Hl]. intros Hin. apply Hx.
  apply in_map_iff in Hin. destruct Hin as [b [Hb Hin]]. apply filter_In in Hin.
  apply in_map_iff. exists b. tauto.
Qed.

Section Exact.
  Variables (kinds : list kind) (prev : list (Z * list Z)) (src : list srow) (summ s1 : list mrow)
            (hs : list (Z * list Z)).
  Hypothesis Hids : NoDup (map fst summ).
  Hypothesis Hp : pass kinds prev src summ = (s1, hs).
  Hypothesis Hgood : no_raise kinds src.

  Let out := filter nonempty_group (with_groups s1 hs).

  Lemma ex_ids1 : NoDup (map fst s1).
  Proof. eapply pass_ids_NoDup; eassumption. Qed.

  Lemma ex_rel : Forall2 (hrel kinds prev s1) src hs.
  Proof. destruct (pass_spec _ _ _ _ _ _ Hp) as [a [_ [H _]]]. exact H. Qed.

  Lemma ex_out_In : forall i k g,
    In (i, k, g) out <-> In (i, k) s1 /\ keepb hs i = true /\ g = group_of hs i.
  Proof.
    intros i k g. unfold out. rewrite filter_with_groups. unfold with_groups. rewrite in_map_iff. split.
    - intros [[i' k'] [Heq Hin]]. simpl in Heq. inversion Heq; subst. apply filter_In in Hin. simpl in Hin. tauto.
    - intros [Hin [Hk ->]]. exists (i, k). split; [reflexivity|]. apply filter_In. simpl. tauto.
  Qed.

  (* an id in an entry is what one of the record's keys finds *)
  Lemma ex_entry_key : forall rid h i, In (rid, h) hs -> In i h ->
    exists r k, In r src /\ fst r = rid /\ In k (keys_of kinds (snd r)) /\ first_match s1 k = Some i.
  Proof.
    intros rid h i Hin Hi. destruct (Forall2_In_r _ _ _ _ ex_rel Hin) as [r [Hr [Hf Hs]]].
    simpl in Hf, Hs. unfold hspec in Hs. pose proof (Hgood r Hr) as Hg.
    destruct (row_keys kinds (snd r)) as [ks|] eqn:Ek; [|congruence].
    destruct Hs as [_ H2]. destruct (H2 i Hi) as [k [Hk Hfm]].
    exists r, k. split; [exact Hr|]. split; [symmetry; exact Hf|]. unfold keys_of. rewrite Ek.
    split; assumption.
  Qed.

  Lemma ex_key_entry : forall r k, In r src -> In k (keys_of kinds (snd r)) ->
    exists i h, first_match s1 k = Some i /\ In (fst r, h) hs /\ In i h.
  Proof.
    intros r k Hr Hk. destruct (Forall2_In_l _ _ _ _ ex_rel Hr) as [rh [Hrh [Hf Hs]]].
    unfold hspec in Hs. unfold keys_of in Hk. destruct (row_keys kinds (snd r)) as [ks|]; [|contradiction].
    destruct Hs as [H1 _]. destruct (H1 k Hk) as [i [Hi Hfm]].
    exists i, (snd rh). split; [exact Hfm|]. split; [|exact Hi]. rewrite <- Hf. destruct rh; exact Hrh.
  Qed.

  (* a surviving row is the row its key finds *)
  Lemma ex_out_first : forall i k g, In (i, k, g) out -> first_match s1 k = Some i.
  Proof.
    intros i k g Hin. apply ex_out_In in Hin. destruct Hin as [Hs1 [Hk _]].
    unfold keepb in Hk. destruct (group_of hs i) as [|rid t] eqn:Eg; [discriminate|].
    assert (Hrid : In rid (group_of hs i)) by (rewrite Eg; left; reflexivity).
    apply group_of_In in Hrid. destruct Hrid as [h [Hh Hi]].
    destruct (ex_entry_key _ _ _ Hh Hi) as [r [k' [_ [_ [_ Hfm]]]]].
    pose proof (fm_some_in _ _ _ Hfm) as Hin'.
    rewrite (fst_inj_NoDup s1 i k k' ex_ids1 Hs1 Hin'). exact Hfm.
  Qed.

  Lemma ex_keys : forall k,
    In k (map okey out) <-> exists r, In r src /\ In k (keys_of kinds (snd r)).
  Proof.
    intros k. rewrite in_map_iff. split.
    - intros [[[i k'] g] [Hk Hin]]. unfold okey in Hk. simpl in Hk. subst k'.
      pose proof (ex_out_first _ _ _ Hin) as Hfm.
      apply ex_out_In in Hin. destruct Hin as [Hs1 [Hkeep _]].
      unfold keepb in Hkeep. destruct (group_of hs i) as [|rid t] eqn:Eg; [discriminate|].
      assert (Hrid : In rid (group_of hs i)) by (rewrite Eg; left; reflexivity).
      apply group_of_In in Hrid. destruct Hrid as [h [Hh Hi]].
      destruct (ex_entry_key _ _ _ Hh Hi) as [r [k' [Hr [_ [Hk' Hfm']]]]].
      exists r. split; [exact Hr|].
      pose proof (fm_some_in _ _ _ Hfm') as Hin'.
      rewrite (fst_inj_NoDup s1 i k k' ex_ids1 Hs1 Hin'). exact Hk'.
    - intros [r [Hr Hk]]. destruct (ex_key_entry r k Hr Hk) as [i [h [Hfm [Hh Hi]]]].
      exists (i, k, group_of hs i). split; [reflexivity|]. apply ex_out_In.
      split; [apply fm_some_in; exact Hfm|]. split; [|reflexivity].
      eapply keepb_true; eassumption.
  Qed.

  Lemma ex_keys_NoDup : NoDup (map okey out).
  Proof.
    apply (NoDup_map_inj_on oid okey).
    - unfold out. rewrite filter_with_groups. unfold with_groups. rewrite map_map. simpl.
      change (fun x : Z * key => oid (fst x, snd x, group_of hs (fst x))) with (fun x : Z * key => fst x).
      apply NoDup_map_filter. exact ex_ids1.
    - intros [[i k] g] [[j k'] g'] Hx Hy Hk. unfold okey in Hk. simpl in Hk. subst k'. unfold oid. simpl.
      pose proof (ex_out_first _ _ _ Hx) as H1. pose proof (ex_out_first _ _ _ Hy) as H2. congruence.
  Qed.

  Lemma ex_groups : forall i k g, In (i, k, g) out -> g = rows_with_key kinds src k /\ g <> [].
  Proof.
    intros i k g Hin. pose proof (ex_out_first _ _ _ Hin) as Hfm.
    apply ex_out_In in Hin. destruct Hin as [Hs1 [Hkeep ->]]. split.
    - unfold rows_with_key, group_of. symmetry.
      apply (filter_map_fst_Forall2 (hrel kinds prev s1)); [exact ex_rel|].
      intros r rh Hr Hrh [Hf Hs]. split; [symmetry; exact Hf|].
      unfold hspec in Hs. pose proof (Hgood r Hr) as Hg. unfold keys_of.
      destruct (row_keys kinds (snd r)) as [ks|]; [|congruence]. destruct Hs as [H1 H2].
      destruct (mem_key k ks) eqn:Ek, (mem_z i (snd rh)) eqn:Ez; try reflexivity.
      + apply mem_key_In in Ek. destruct (H1 k Ek) as [j [Hj Hfj]].
        assert (j = i) by congruence. subst j. apply mem_z_In in Hj. congruence.
      + apply mem_z_In in Ez. destruct (H2 i Ez) as [k' [Hk' Hfk']].
        pose proof (fm_some_in _ _ _ Hfk') as Hin'.
        rewrite <- (fst_inj_NoDup s1 i k k' ex_ids1 Hs1 Hin') in Hk'.
        apply mem_key_In in Hk'. congruence.
    - unfold keepb in Hkeep. destruct (group_of hs i); [discriminate|discriminate].
  Qed.
End Exact.

(* ------------------------------------------------------------------ the incremental engine = full re-evaluation *)

Lemma hequiv_refl : forall l, Forall2 hequiv l l.
Proof. induction l as [|a t IH]; constructor; [split; [reflexivity|tauto]|exact IH]. Qed.

Lemma hequiv_sym : forall l m, Forall2 hequiv l m -> Forall2 hequiv m l.
Proof.
  intros l m H. induction H as [|a b l m [Hf Hi] _ IH]; constructor; [|exact IH].
  split; [symmetry; exact Hf|]. intros i. symmetry. apply Hi.
Qed.

Lemma hequiv_trans : forall l m n, Forall2 hequiv l m -> Forall2 hequiv m n -> Forall2 hequiv l n.
Proof.
  intros l m n H. revert n. induction H as [|a b l m [Hf Hi] _ IH]; intros n Hn; inversion Hn as [|b' c m' n' [Hf' Hi'] Hn']; subst;
    constructor; [|apply IH; exact Hn'].
  split; [congruence|]. intros i. rewrite Hi. apply Hi'.
Qed.

Lemma hequiv_fst : forall l m, Forall2 hequiv l m -> map fst l = map fst m.
Proof. intros l m H. induction H as [|a b l m [Hf _] _ IH]; simpl; [reflexivity|]. rewrite Hf, IH. reflexivity. Qed.

Lemma hequiv_entry : forall l m rid, Forall2 hequiv l m -> forall i, In i (entry l rid) <-> In i (entry m rid).
Proof.
  intros l m rid H. induction H as [|a b l m [Hf Hi] _ IH]; intros i; simpl; [tauto|].
  rewrite Hf. destruct (Z.eqb (fst b) rid); [apply Hi|apply IH].
Qed.

Lemma pass_fst : forall kinds prev src s s' hs, pass kinds prev src s = (s', hs) -> map fst hs = map fst src.
Proof.
  intros kinds prev src s s' hs H. destruct (pass_spec _ _ _ _ _ _ H) as [a [_ [Hf _]]].
  eapply Forall2_hrel_fst. exact Hf.
Qed.

Lemma auto_remove_all : forall s hs,
  forallb nonempty_group (with_groups s hs) = true -> auto_remove (with_groups s hs) = s.
Proof.
  intros s hs H. unfold auto_remove. rewrite (forallb_filter_id _ _ H). unfold with_groups.
  rewrite map_map. simpl. clear H. induction s as [|r t IH]; simpl; [reflexivity|]. rewrite IH. destruct r; reflexivity.
Qed.

(* validity of an entry depends only on the ids it contains *)
Lemma clean_valid_equiv : forall kinds d prev' href src s,
  Forall2 hequiv prev' href -> clean_valid kinds [] href src s -> clean_valid kinds d prev' src s.
Proof.
  intros kinds d prev' href src s Hq Hv r Hr _. specialize (Hv r Hr eq_refl).
  unfold hspec in *. destruct (row_keys kinds (snd r)) as [ks|]; [|reflexivity].
  destruct Hv as [H1 H2]. pose proof (hequiv_entry _ _ (fst r) Hq) as He. split.
  - intros k Hk. destruct (H1 k Hk) as [i [Hi Hf]]. exists i. split; [apply He; exact Hi|exact Hf].
  - intros i Hi. apply He in Hi. exact (H2 i Hi).
Qed.

(* once everything is up to date, further rounds (whatever they re-evaluate) change nothing *)
Lemma trace_rounds_stable : forall rest kinds src s2 href prev',
  NoDup (map fst src) -> map fst href = map fst src -> Forall2 hequiv prev' href ->
  clean_valid kinds [] href src s2 ->
  forallb nonempty_group (with_groups s2 href) = true ->
  rest <> [] ->
  settle_trace kinds prev' src s2 rest = Some (with_groups s2 href).
Proof.
  induction rest as [|d rest IH]; intros kinds src s2 href prev' Hnd Hal Hq Hv Hne Hrest; [congruence|].
  cbn [settle_trace].
  pose proof (clean_valid_equiv kinds d _ _ _ _ Hq Hv) as Hvd.
  pose proof (clean_valid_equiv kinds [] _ _ _ _ Hq Hv) as Hv0.
  destruct (pass_d_full _ _ _ _ _ Hvd) as [s' [hsd [hs' [Hd [Hp Hqd]]]]].
  destruct (pass_d_full _ _ _ _ _ Hv0) as [s0 [hsd0 [hs0 [Hd0 [Hp0 Hq0]]]]].
  rewrite pass_d_nothing_dirty in Hd0. inversion Hd0; subst s0 hsd0; clear Hd0.
  rewrite Hp in Hp0. inversion Hp0; subst s' hs0; clear Hp0.
  assert (Hself : map (fun r => (fst r, entry prev' (fst r))) src = prev').
  { assert (Hal' : map fst prev' = map fst src) by (rewrite (hequiv_fst _ _ Hq); exact Hal).
    transitivity (map (fun i => (i, entry prev' i)) (map fst prev')).
    - rewrite Hal', map_map. reflexivity.
    - apply entries_self. rewrite Hal'. exact Hnd. }
  rewrite Hself in Hq0.
  assert (Hfin : Forall2 hequiv hsd href).
  { eapply hequiv_trans; [exact Hqd|]. eapply hequiv_trans; [apply hequiv_sym; exact Hq0|exact Hq]. }
  rewrite Hd. rewrite (with_groups_equiv _ _ _ Hfin). rewrite Hne.
  destruct rest as [|d2 rest']; [reflexivity|].
  rewrite (auto_remove_all _ _ Hne).
  apply IH; try assumption. discriminate.
Qed.

Theorem settle_trace_full : forall kinds prev src summ d1 rest,
  NoDup (map fst src) -> clean_valid kinds d1 prev src summ -> rest <> [] ->
  settle_trace kinds prev src summ (d1 :: rest) = settle_loop 2 kinds prev src summ.
Proof.
  intros kinds prev src summ d1 rest Hnd Hv Hrest.
  destruct (pass_d_full _ _ _ _ _ Hv) as [s1 [hsd [hs [Hd [Hp Hq]]]]].
  rewrite (settle_loop_closed _ _ _ _ _ _ Hnd Hp 0).
  cbn [settle_trace]. rewrite Hd. rewrite (with_groups_equiv _ _ _ Hq).
  destruct rest as [|d2 rest']; [congruence|].
  rewrite auto_remove_filter. rewrite filter_with_groups.
  apply trace_rounds_stable; try assumption.
  - eapply pass_fst. exact Hp.
  - eapply round_fixpoint; eassumption.
  - rewrite <- filter_with_groups. apply forallb_filter_self.
Qed.

(* ------------------------------------------------------------------ rows stay in ascending id order, so the row a
   key finds is the matching row with the lowest id (RecordSet.get_one of the sorted lookup result) *)

From Coq Require Import Sorting.Sorted.

Definition asc (s : list mrow) : Prop := StronglySorted Z.lt (map fst s).

Lemma asc_app : forall s a, asc s -> asc a -> (forall r, In r a -> max_id s < fst r) -> asc (s ++ a).
Proof.
  unfold asc. induction s as [|x t IH]; intros a Hs Ha Hgt; simpl; [exact Ha|].
  inversion Hs as [|y l Hl Hall]; subst. constructor.
  - apply IH; [exact Hl|exact Ha|]. intros r Hr. specialize (Hgt r Hr). unfold max_id in *. simpl in Hgt. lia.
  - rewrite map_app. apply Forall_app. split; [exact Hall|].
    apply Forall_forall. intros z Hz. apply in_map_iff in Hz. destruct Hz as [r [<- Hr]].
    specialize (Hgt r Hr). unfold max_id in Hgt. simpl in Hgt. lia.
Qed.

Lemma number_from_asc : forall ks n, asc (number_from n ks).
Proof.
  unfold asc. induction ks as [|k t IH]; intros n; simpl; constructor; [apply IH|].
  apply Forall_forall. intros z Hz. apply in_map_iff in Hz. destruct Hz as [r [<- Hr]].
  apply number_from_fst in Hr. lia.
Qed.

Lemma helper_list_asc : forall kinds stale s cells s1 h,
  helper_list kinds stale s cells = (s1, h) -> asc s -> asc s1.
Proof.
  intros kinds stale s cells s1 h H Hs. unfold helper_list in H.
  destruct (row_keys kinds cells) as [ks|]; inversion H; subst; [|exact Hs].
  apply asc_app; [exact Hs|apply number_from_asc|].
  intros r Hr. apply number_from_fst in Hr. unfold next_id in Hr. lia.
Qed.

Lemma pass_asc : forall kinds prev src s s' hs, pass kinds prev src s = (s', hs) -> asc s -> asc s'.
Proof.
  intros kinds prev src. induction src as [|r t IH]; intros s s' hs H Hs; simpl in H.
  - inversion H; subst. exact Hs.
  - destruct (helper kinds (entry prev (fst r)) s (snd r)) as [s1 h] eqn:Eh.
    destruct (pass kinds prev t s1) as [s2 hs'] eqn:Ep. inversion H; subst.
    rewrite helper_is_list in Eh. eapply IH; [exact Ep|]. eapply helper_list_asc; eassumption.
Qed.

Lemma asc_filter : forall (p : mrow -> bool) s, asc s -> asc (filter p s).
Proof.
  unfold asc. intros p s. induction s as [|x t IH]; intros H; simpl; [constructor|].
  inversion H as [|y l Hl Hall]; subst. destruct (p x); simpl; [|apply IH; exact Hl].
  constructor; [apply IH; exact Hl|]. apply Forall_forall. intros z Hz.
  apply in_map_iff in Hz. destruct Hz as [r [<- Hr]]. apply filter_In in Hr.
  rewrite Forall_forall in Hall. apply Hall. apply in_map. tauto.
Qed.

Lemma first_match_lowest : forall s k i, asc s -> first_match s k = Some i ->
  forall j, In (j, k) s -> i <= j.
Proof.
  unfold asc. induction s as [|r t IH]; intros k i Hs H j Hj; simpl in *; [contradiction|].
  inversion Hs as [|y l Hl Hall]; subst.
  destruct (key_eqb (snd r) k) eqn:E.
  - inversion H; subst. destruct Hj as [->|Hj]; [simpl; lia|].
    rewrite Forall_forall in Hall. assert (fst r < j); [|lia].
    apply Hall. apply in_map_iff. exists (j, k). split; [reflexivity|exact Hj].
  - destruct Hj as [->|Hj]; [simpl in E; rewrite key_eqb_refl in E; discriminate|].
    eapply IH; eassumption.
Qed.

(* ------------------------------------------------------------------ termination, in terms of the loop *)

Lemma map_fst_with_groups : forall s hs, map fst (with_groups s hs) = s.
Proof.
  intros s hs. unfold with_groups. rewrite map_map. simpl.
  induction s as [|r t IH]; simpl; [reflexivity|]. rewrite IH. destruct r; reflexivity.
Qed.

Theorem settle_loop_terminates : forall kinds prev src summ,
  NoDup (map fst src) ->
  exists out, (forall fuel, (2 <= fuel)%nat -> settle_loop fuel kinds prev src summ = Some out) /\
              forallb nonempty_group out = true.
Proof.
  intros kinds prev src summ Hnd. destruct (pass kinds prev src summ) as [s1 hs] eqn:Hp.
  exists (filter nonempty_group (with_groups s1 hs)). split.
  - intros fuel Hf. destruct fuel as [|[|f]]; try lia. eapply settle_loop_closed; eassumption.
  - apply forallb_filter_self.
Qed.

(* the settled table is stable: one more round (re-evaluating everything) changes nothing *)
Theorem settle_stable : forall kinds prev src summ out fuel,
  NoDup (map fst src) -> (2 <= fuel)%nat -> settle_loop fuel kinds prev src summ = Some out ->
  exists prev', settle_loop 1 kinds prev' src (map fst out) = Some out.
Proof.
  intros kinds prev src summ out fuel Hnd Hf H.
  destruct (pass kinds prev src summ) as [s1 hs] eqn:Hp.
  destruct fuel as [|[|f]]; try lia. rewrite (settle_loop_closed _ _ _ _ _ _ Hnd Hp f) in H.
  inversion H; subst out; clear H.
  destruct (second_round _ _ _ _ _ _ Hnd Hp) as [hs2 [Hp2 Hq]].
  exists hs. rewrite filter_with_groups.
  assert (Hm : map fst (with_groups (filter (fun r => keepb hs (fst r)) s1) hs)
               = filter (fun r => keepb hs (fst r)) s1).
  { apply map_fst_with_groups. }
  rewrite Hm. cbn [settle_loop]. rewrite Hp2. rewrite <- (with_groups_equiv _ _ _ Hq).
  rewrite <- filter_with_groups. rewrite forallb_filter_self. reflexivity.
Qed.

(* ------------------------------------------------------------------ whenever the loop ends *)

Lemma settle_loop_nonempty : forall fuel kinds prev src summ out,
  settle_loop fuel kinds prev src summ = Some out -> forallb nonempty_group out = true.
Proof.
  induction fuel as [|f IH]; intros kinds prev src summ out H; simpl in H; [discriminate|].
  destruct (pass kinds prev src summ) as [s1 hs].
  destruct (forallb nonempty_group (with_groups s1 hs)) eqn:E.
  - inversion H; subst. exact E.
  - eapply IH. exact H.
Qed.

Lemma settle_loop_some : forall fuel kinds prev src summ out s1 hs,
  NoDup (map fst src) -> pass kinds prev src summ = (s1, hs) ->
  settle_loop fuel kinds prev src summ = Some out ->
  out = filter nonempty_group (with_groups s1 hs).
Proof.
  intros fuel kinds prev src summ out s1 hs Hnd Hp H.
  destruct fuel as [|[|f]].
  - discriminate.
  - cbn [settle_loop] in H. rewrite Hp in H.
    destruct (forallb nonempty_group (with_groups s1 hs)) eqn:E; [|discriminate].
    inversion H; subst. symmetry. apply forallb_filter_id. exact E.
  - rewrite (settle_loop_closed _ _ _ _ _ _ Hnd Hp f) in H. inversion H. reflexivity.
Qed.

Lemma rows_with_key_sorted : forall kinds src k,
  StronglySorted Z.lt (map fst src) -> StronglySorted Z.lt (rows_with_key kinds src k).
Proof.
  intros kinds src k. unfold rows_with_key. induction src as [|r t IH]; intros H; simpl; [constructor|].
  inversion H as [|y l Hl Hall]; subst.
  destruct (mem_key k (keys_of kinds (snd r))); simpl; [|apply IH; exact Hl].
  constructor; [apply IH; exact Hl|]. apply Forall_forall. intros z Hz.
  apply in_map_iff in Hz. destruct Hz as [r' [<- Hr']]. apply filter_In in Hr'.
  rewrite Forall_forall in Hall. apply Hall. apply in_map. tauto.
Qed.

(* rows of the settled table are old rows (same id, same key) or rows with new, larger ids *)
Lemma settled_rows_origin : forall fuel kinds prev src summ out i k g,
  NoDup (map fst src) -> settle_loop fuel kinds prev src summ = Some out -> In (i, k, g) out ->
  In (i, k) summ \/ max_id summ < i.
Proof.
  intros fuel kinds prev src summ out i k g Hnd H Hin.
  destruct (pass kinds prev src summ) as [s1 hs] eqn:Hp.
  rewrite (settle_loop_some _ _ _ _ _ _ _ _ Hnd Hp H) in Hin.
  apply filter_In in Hin. destruct Hin as [Hin _]. unfold with_groups in Hin.
  apply in_map_iff in Hin. destruct Hin as [[i' k'] [Heq Hin]]. simpl in Heq. inversion Heq; subst.
  destruct (pass_spec _ _ _ _ _ _ Hp) as [added [-> [_ [Hid _]]]].
  apply in_app_or in Hin. destruct Hin as [Hin|Hin]; [left; exact Hin|right; exact (Hid _ Hin)].
Qed.

Lemma record_grouped : forall fuel kinds prev src summ out r,
  NoDup (map fst src) -> NoDup (map fst summ) -> no_raise kinds src ->
  settle_loop fuel kinds prev src summ = Some out -> In r src -> keys_of kinds (snd r) <> [] ->
  exists row, In row out /\ In (fst r) (ogroup row) /\ In (okey row) (keys_of kinds (snd r)).
Proof.
  intros fuel kinds prev src summ out r Hnd Hids Hgood H Hr Hk.
  destruct (pass kinds prev src summ) as [s1 hs] eqn:Hp.
  rewrite (settle_loop_some _ _ _ _ _ _ _ _ Hnd Hp H).
  destruct (keys_of kinds (snd r)) as [|k ks] eqn:Ek; [congruence|].
  assert (Hin : In k (keys_of kinds (snd r))) by (rewrite Ek; left; reflexivity).
  destruct (ex_key_entry _ _ _ _ _ _ Hp r k Hr Hin) as [i [h [Hfm [Hh Hi]]]].
  exists (i, k, group_of hs i). split; [|split].
  - eapply ex_out_In. split; [apply fm_some_in; exact Hfm|]. split; [|reflexivity].
    eapply keepb_true; eassumption.
  - unfold ogroup. simpl. apply group_of_In. exists h. split; assumption.
  - unfold okey. simpl. left. reflexivity.
Qed.

(* ------------------------------------------------------------------ the keys of a record, as the property states them *)

Lemma dedup_nil : forall l, dedup l = [] -> l = [].
Proof.
  intros l H. destruct l as [|a t]; [reflexivity|]. exfalso.
  assert (Hin : In a (dedup (a :: t))) by (apply dedup_In; left; reflexivity).
  rewrite H in Hin. exact Hin.
Qed.

Lemma lookup_values_spec : forall kinds cells,
  length cells = length kinds ->
  match lookup_values kinds cells with
  | LvOk vals false =>
      Forall2 (fun v kc => forall a, In a v <-> elem_of (fst kc) (snd kc) a) vals (combine kinds cells)
  | LvReturnEmpty => forall k, ~ key_of_cells kinds cells k
  | _ => True
  end.
Proof.
  induction kinds as [|kd ks IH]; intros cells Hlen; simpl.
  - constructor.
  - destruct cells as [|c cs]; [discriminate|]. simpl in Hlen. injection Hlen as Hlen. specialize (IH cs Hlen).
    assert (Hrest : forall v, (forall a, In a v <-> elem_of kd c a) ->
      match lv_cons v false (lookup_values ks cs) with
      | LvOk vals false =>
          Forall2 (fun v kc => forall a, In a v <-> elem_of (fst kc) (snd kc) a) vals ((kd, c) :: combine ks cs)
      | LvReturnEmpty => forall k, ~ key_of_cells (kd :: ks) (c :: cs) k
      | _ => True
      end).
    { intros v Hv. unfold lv_cons. destruct (lookup_values ks cs) as [| |vals u]; [| exact I |].
      - intros k Hk. unfold key_of_cells in Hk. simpl in Hk. inversion Hk; subst. eapply IH. eassumption.
      - simpl. destruct u; [exact I|]. constructor; [exact Hv|exact IH]. }
    assert (Hbad : (forall a, ~ elem_of kd c a) -> forall k, ~ key_of_cells (kd :: ks) (c :: cs) k).
    { intros Hno k Hk. unfold key_of_cells in Hk. simpl in Hk. inversion Hk; subst. eapply Hno. eassumption. }
    destruct c as [a|l| |]; destruct kd; simpl; try exact I.
    + apply Hrest. intros x. simpl. split; [intros [E|[]]; symmetry; exact E|intros E; left; symmetry; exact E].
    + apply Hbad. intros x Hx. exact Hx.
    + apply Hbad. intros x Hx. exact Hx.
    + unfold lv_cons. destruct (lookup_values ks cs) as [| |vals u]; [|exact I|exact I].
      intros k Hk. unfold key_of_cells in Hk. simpl in Hk. inversion Hk; subst. simpl in *. contradiction.
    + apply Hrest. intros x. simpl. destruct (dedup l) eqn:E.
      * apply dedup_nil in E. subst l. simpl. split; [intros [<-|[]]; left; split; reflexivity|].
        intros [[_ ->]|[]]. left. reflexivity.
      * rewrite <- E, dedup_In. split; [intros H; right; exact H|].
        intros [[-> _]|H]; [discriminate|exact H].
    + apply Hrest. intros x. simpl. destruct (dedup l) eqn:E.
      * apply dedup_nil in E. subst l. simpl. split; [intros [<-|[]]; left; split; reflexivity|].
        intros [[_ ->]|[]]. left. reflexivity.
      * rewrite <- E, dedup_In. split; [intros H; right; exact H|].
        intros [[-> _]|H]; [discriminate|exact H].
    + unfold lv_cons. destruct (lookup_values ks cs) as [| |vals u]; [|exact I|exact I].
      intros k Hk. unfold key_of_cells in Hk. simpl in Hk. inversion Hk; subst. simpl in *. contradiction.
    + apply Hbad. intros x Hx. exact Hx.
    + apply Hbad. intros x Hx. exact Hx.
Qed.

Lemma Forall2_In_pointwise : forall (k : key) (vals : list (list atom)) (kcs : list (kind * cell)),
  Forall2 (fun v kc => forall a, In a v <-> elem_of (fst kc) (snd kc) a) vals kcs ->
  (Forall2 (fun a v => In a v) k vals <-> Forall2 (fun a kc => elem_of (fst kc) (snd kc) a) k kcs).
Proof.
  intros k vals kcs H. revert k. induction H as [|v kc vals kcs Hv _ IH]; intros k.
  - split; intros Hk; inversion Hk; constructor.
  - split; intros Hk; inversion Hk; subst; constructor; try (apply Hv; assumption); apply IH; assumption.
Qed.

Theorem row_keys_spec : forall kinds cells ks,
  length cells = length kinds -> row_keys kinds cells = Some ks ->
  NoDup ks /\ forall k, In k ks <-> key_of_cells kinds cells k.
Proof.
  intros kinds cells ks Hlen H. split; [eapply row_keys_NoDup; exact H|].
  pose proof (lookup_values_spec kinds cells Hlen) as L. unfold row_keys in H.
  destruct (lookup_values kinds cells) as [| |vals u].
  - inversion H; subst. intros k. split; [intros []|intros Hk; exact (L k Hk)].
  - discriminate.
  - destruct u; [destruct vals; discriminate|]. inversion H; subst. intros k.
    rewrite sort_keys_In, product_In. unfold key_of_cells. apply Forall2_In_pointwise. exact L.
Qed.

Lemma cells_ok_lookup_values : forall kinds cells, cells_ok kinds cells ->
  match lookup_values kinds cells with LvRaise => False | LvOk _ true => False | _ => True end.
Proof.
  intros kinds cells H. induction H as [|kd c ks cs [Hne Hsc] _ IH]; simpl; [exact I|].
  assert (Hc : forall v, match lv_cons v false (lookup_values ks cs) with
                         | LvRaise => False | LvOk _ true => False | _ => True end).
  { intros v. unfold lv_cons. destruct (lookup_values ks cs) as [| |vals u]; [exact I|contradiction|].
    simpl. destruct u; [contradiction|exact I]. }
  destruct c as [a|l| |]; [| | |congruence]; destruct kd; try exact I; try apply Hc;
    destruct (Hsc eq_refl) as [a' Ha']; discriminate.
Qed.

Theorem cells_ok_no_raise : forall kinds src,
  (forall r, In r src -> cells_ok kinds (snd r)) -> no_raise kinds src.
Proof.
  intros kinds src H r Hr. specialize (H r Hr). apply cells_ok_lookup_values in H. unfold row_keys.
  destruct (lookup_values kinds (snd r)) as [| |vals u]; [discriminate|contradiction|].
  destruct u; [contradiction|discriminate].
Qed.

(* ------------------------------------------------------------------ recorded rounds without rewriting = settle_trace *)

Lemma zs_eqb_refl : forall l, zs_eqb l l = true.
Proof. intros l. apply zs_eqb_spec. reflexivity. Qed.

(* evaluating, in source order, the records whose id is in d: eval_list does what pass_d does *)
Definition asc_order (d : list Z) (src : list srow) : list Z := filter (fun i => mem_z i d) (map fst src).

Lemma eval_list_pass_d : forall kinds d prev src rest summ hs,
  NoDup (map fst rest) ->
  (forall r, In r rest -> cells_of src (fst r) = Some (snd r)) ->
  (forall r, In r rest -> entry hs (fst r) = entry prev (fst r)) ->
  exists s' hs' hsr,
    eval_list kinds src (asc_order d rest) summ hs = (s', hs') /\
    pass_d kinds d prev rest summ = (s', hsr) /\
    (forall i, ~ In i (map fst rest) -> entry hs' i = entry hs i) /\
    Forall2 (fun r rh => fst rh = fst r /\ snd rh = entry hs' (fst r)) rest hsr.
Proof.
  intros kinds d prev src rest. induction rest as [|r t IH]; intros summ hs Hnd Hc He.
  - exists summ, hs, []. repeat split; constructor.
  - simpl in Hnd. inversion Hnd as [|x l Hx Hl]; subst.
    unfold asc_order. cbn [map filter pass_d].
    destruct (mem_z (fst r) d) eqn:Ed.
    + cbn [eval_list]. rewrite (Hc r (or_introl eq_refl)). rewrite (He r (or_introl eq_refl)).
      destruct (helper kinds (entry prev (fst r)) summ (snd r)) as [s1 h] eqn:Eh.
      destruct (IH s1 ((fst r, h) :: hs) Hl) as [s' [hs' [hsr [H1 [H2 [H3 H4]]]]]].
      { intros r' Hr'. apply Hc. right. exact Hr'. }
      { intros r' Hr'. simpl. destruct (Z.eqb_spec (fst r) (fst r')) as [E|E].
        - exfalso. apply Hx. rewrite E. apply in_map. exact Hr'.
        - apply He. right. exact Hr'. }
      fold (asc_order d t). rewrite H1, H2. exists s', hs', ((fst r, h) :: hsr).
      split; [reflexivity|]. split; [reflexivity|]. split.
      * intros i Hi. rewrite H3 by (intros Hin; apply Hi; right; exact Hin).
        simpl. destruct (Z.eqb_spec (fst r) i) as [E|E]; [exfalso; apply Hi; left; exact E|reflexivity].
      * constructor; [|exact H4]. split; [reflexivity|]. simpl. rewrite (H3 (fst r) Hx). simpl.
        rewrite Z.eqb_refl. reflexivity.
    + destruct (IH summ hs Hl) as [s' [hs' [hsr [H1 [H2 [H3 H4]]]]]].
      { intros r' Hr'. apply Hc. right. exact Hr'. }
      { intros r' Hr'. apply He. right. exact Hr'. }
      fold (asc_order d t). rewrite H1, H2. exists s', hs', ((fst r, entry prev (fst r)) :: hsr).
      split; [reflexivity|]. split; [reflexivity|]. split.
      * intros i Hi. apply H3. intros Hin. apply Hi. right. exact Hin.
      * constructor; [|exact H4]. split; [reflexivity|]. simpl. rewrite (H3 (fst r) Hx).
        symmetry. apply He. left. reflexivity.
Qed.

Lemma cells_of_In : forall src r, NoDup (map fst src) -> In r src -> cells_of src (fst r) = Some (snd r).
Proof.
  induction src as [|x t IH]; intros r Hnd Hin; simpl in *; [contradiction|].
  inversion Hnd as [|y l Hy Hl]; subst. destruct Hin as [->|Hin]; [rewrite Z.eqb_refl; reflexivity|].
  destruct (Z.eqb_spec (fst x) (fst r)) as [E|E]; [|apply IH; assumption].
  exfalso. apply Hy. rewrite E. apply in_map. exact Hin.
Qed.

Lemma pass_o_asc : forall kinds d prev src summ,
  NoDup (map fst src) -> pass_o kinds (asc_order d src) prev src summ = pass_d kinds d prev src summ.
Proof.
  intros kinds d prev src summ Hnd.
  destruct (eval_list_pass_d kinds d prev src src summ prev Hnd) as [s' [hs' [hsr [H1 [H2 [_ H4]]]]]].
  - intros r Hr. apply cells_of_In; assumption.
  - reflexivity.
  - unfold pass_o. rewrite H1, H2. f_equal.
    clear H1 H2 Hnd. induction H4 as [|r rh l1 l2 [Hf Hs] _ IH]; simpl; [reflexivity|].
    rewrite IH. destruct rh as [a b]. simpl in *. subst. reflexivity.
Qed.

(* every round evaluates in ascending row id order, carries the same source rows and starts from the table the
   model itself has *)
Fixpoint rounds_follow (kinds : list kind) (prev : list (Z * list Z)) (src : list srow) (summ : list mrow)
  (rounds : list round) : Prop :=
  match rounds with
  | [] => True
  | (o, src', start) :: rest =>
      o = asc_order o src /\ src' = src /\ start = summ /\
      rounds_follow kinds (snd (pass_d kinds o prev src summ)) src
                    (auto_remove (with_groups (fst (pass_d kinds o prev src summ))
                                              (snd (pass_d kinds o prev src summ)))) rest
  end.

Lemma settle_rounds_const : forall rounds kinds prev src summ,
  NoDup (map fst src) -> rounds_follow kinds prev src summ rounds ->
  settle_rounds kinds prev summ rounds =
  settle_trace kinds prev src summ (map (fun r : round => fst (fst r)) rounds).
Proof.
  induction rounds as [|[[o src'] start] rest IH]; intros kinds prev src summ Hnd H; [reflexivity|].
  cbn [rounds_follow] in H. destruct H as [Ho [-> [-> H]]].
  cbn [settle_rounds settle_trace map fst snd]. rewrite zs_eqb_refl.
  rewrite Ho at 1. rewrite (pass_o_asc _ _ _ _ _ Hnd).
  destruct (pass_d kinds o prev src summ) as [s1 hs] eqn:Ep. cbn [fst snd] in H.
  destruct rest as [|r rest']; [reflexivity|].
  specialize (IH kinds hs src _ Hnd H). cbn [map] in *. exact IH.
Qed.
