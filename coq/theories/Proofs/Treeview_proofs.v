(* Proofs about the TRANSLATED treeview.fix_indents (GristGen.Treeview_gen, regenerated from /repo on
   every run).  Pattern: generated fold_left form  -->  bridging lemma  -->  structural reference. *)
From Coq Require Import ZArith List Bool Lia.
Import ListNotations.
Require Import Grist.Lib.PyPrelude Grist.Model.Treeview GristGen.Treeview_gen.
Open Scope Z_scope.

(* Structural reference: the fixes produced from a given "max_next_indent". *)
Fixpoint fix_ref (m : Z) (items : list item) (del : list Z) : list (Z * Z) :=
  match items with
  | [] => []
  | it :: t =>
      let indent := Z.min m (snd it) in
      let d := py_mem Z.eqb (fst it) del in
      (if andb (negb (Z.eqb indent (snd it))) (negb d) then [(fst it, indent)] else [])
        ++ fix_ref (if d then indent else indent + 1) t del
  end.

(* Bridging lemma: re-checked against the regenerated translation on every run. *)
Lemma fix_indents_is_ref : forall items del, fix_indents items del = fix_ref 0 items del.
Proof.
  intros items del. unfold fix_indents.
  assert (H : forall l adj m,
    (let '(a, _) := fold_left (fun st__ (it : item) =>
        let '(adjustments, max_next_indent) := st__ in
        let indent := Z.min max_next_indent (item_indentation it) in
        let is_deleted := py_mem Z.eqb (item_id it) del in
        let adjustments :=
          if andb (negb (Z.eqb indent (item_indentation it))) (negb is_deleted)
          then let adjustments := adjustments ++ [(item_id it, indent)] in adjustments
          else adjustments in
        let max_next_indent := if is_deleted then indent else indent + 1 in
        (adjustments, max_next_indent)) l (adj, m) in a) = adj ++ fix_ref m l del).
  { induction l as [|it t IH]; intros adj m.
    - simpl. now rewrite app_nil_r.
    - cbn [fold_left fix_ref]. unfold item_id, item_indentation in *.
      rewrite IH.
      destruct (andb _ _); cbn [app]; [rewrite <- app_assoc|]; reflexivity. }
  specialize (H items [] 0). cbn [app] in H. exact H.
Qed.

(* ---- facts about the reference ---------------------------------------------------------- *)

Definition ids (l : list item) : list Z := map fst l.
Definition nonneg (l : list item) : Prop := Forall (fun it => 0 <= snd it) l.

Lemma fix_ref_ids_subset : forall items del m i n,
  In (i, n) (fix_ref m items del) -> In i (ids items) /\ py_mem Z.eqb i del = false.
Proof.
  induction items as [|it t IH]; intros del m i n H; [contradiction|].
  cbn [fix_ref] in H. apply in_app_or in H. destruct H as [H|H].
  - destruct (py_mem Z.eqb (fst it) del) eqn:Hd.
    + rewrite andb_false_r in H. contradiction.
    + destruct (negb _) in H; cbn in H; [|contradiction].
      destruct H as [H|[]]. inversion H; subst. split; [left; reflexivity|exact Hd].
  - apply IH in H. destruct H as [H1 H2]. split; [right; exact H1|exact H2].
Qed.

Lemma lookup_fix_notin : forall i fixes, (forall n, ~ In (i, n) fixes) -> lookup_fix i fixes = None.
Proof.
  induction fixes as [|[j n] t IH]; intros H; [reflexivity|].
  cbn [lookup_fix]. destruct (Z.eqb_spec j i) as [->|Hne].
  - exfalso. apply (H n). left; reflexivity.
  - apply IH. intros n' Hin. apply (H n'). right; exact Hin.
Qed.

(* new level of the head page after applying the fixes *)
Lemma lookup_head : forall it t del m,
  ~ In (fst it) (ids t) ->
  py_mem Z.eqb (fst it) del = false ->
  match lookup_fix (fst it) (fix_ref m (it :: t) del) with
  | Some n => n | None => snd it end = Z.min m (snd it).
Proof.
  intros it t del m Hnin Hd. cbn [fix_ref]. rewrite Hd. cbn [negb andb].
  rewrite andb_true_r.
  destruct (Z.eqb_spec (Z.min m (snd it)) (snd it)) as [He|Hne]; cbn [negb app].
  - rewrite lookup_fix_notin; [symmetry; exact He|].
    intros n Hin. apply fix_ref_ids_subset in Hin. tauto.
  - cbn [lookup_fix]. rewrite Z.eqb_refl. reflexivity.
Qed.

Lemma lookup_head2 : forall it t del m,
  ~ In (fst it) (ids t) ->
  py_mem Z.eqb (fst it) del = false ->
  match lookup_fix (fst it) (fix_ref m (it :: t) del) with
  | Some n => (fst it, n) | None => it end = (fst it, Z.min m (snd it)).
Proof.
  intros it t del m Hnin Hd. pose proof (lookup_head it t del m Hnin Hd) as L.
  destruct (lookup_fix (fst it) (fix_ref m (it :: t) del)) as [n0|].
  - rewrite L. reflexivity.
  - rewrite <- L. destruct it; reflexivity.
Qed.

Lemma lookup_skip : forall i pre rest, (forall n, ~ In (i, n) pre) ->
  lookup_fix i (pre ++ rest) = lookup_fix i rest.
Proof.
  induction pre as [|[j n] t IH]; intros rest H; [reflexivity|].
  cbn [app lookup_fix]. destruct (Z.eqb_spec j i) as [->|Hne].
  - exfalso. apply (H n). left; reflexivity.
  - apply IH. intros n' Hin. apply (H n'). right; exact Hin.
Qed.

(* applying the fixes computed for (it :: t) to the pages of t only needs the fixes computed for t *)
Lemma apply_tail : forall it t del m m',
  NoDup (ids (it :: t)) ->
  m' = (if py_mem Z.eqb (fst it) del then Z.min m (snd it) else Z.min m (snd it) + 1) ->
  apply_fixes t del (fix_ref m (it :: t) del) = apply_fixes t del (fix_ref m' t del).
Proof.
  intros it t del m m' Hnd ->. unfold apply_fixes. apply map_ext_in.
  intros x Hx. apply filter_In in Hx. destruct Hx as [Hx _].
  cbn [fix_ref]. rewrite lookup_skip; [reflexivity|].
  intros n Hin. inversion Hnd as [|? ? Hnotin _]; subst.
  destruct (andb _ _); [|contradiction].
  destruct Hin as [Hin|[]]. injection Hin as Hid _.
  apply Hnotin. unfold ids. rewrite Hid. apply in_map. exact Hx.
Qed.

(* Main invariant: the result, seen from a previous level prev with m <= prev+1, is a valid tree whose
   first level is min m (snd it). *)
Lemma valid_from_ref : forall items del m prev,
  NoDup (ids items) -> nonneg items -> 0 <= m <= prev + 1 ->
  valid_from prev (apply_fixes items del (fix_ref m items del)).
Proof.
  induction items as [|it t IH]; intros del m prev Hnd Hnn Hm; [exact I|].
  inversion Hnn as [|? ? Hit Hnn']; subst.
  assert (Hnd' : NoDup (ids t)) by (inversion Hnd; assumption).
  assert (Hnin : ~ In (fst it) (ids t)) by (inversion Hnd; assumption).
  destruct (py_mem Z.eqb (fst it) del) eqn:Hd.
  - (* removed page: it disappears and passes on its own new level *)
    assert (E : apply_fixes (it :: t) del (fix_ref m (it :: t) del)
                = apply_fixes t del (fix_ref (Z.min m (snd it)) t del)).
    { transitivity (apply_fixes t del (fix_ref m (it :: t) del)).
      - unfold apply_fixes. cbn [filter]. rewrite Hd. reflexivity.
      - apply apply_tail; [exact Hnd|rewrite Hd; reflexivity]. }
    rewrite E. apply IH; [exact Hnd'|exact Hnn'|lia].
  - assert (E : apply_fixes (it :: t) del (fix_ref m (it :: t) del)
                = (fst it, Z.min m (snd it)) :: apply_fixes t del (fix_ref (Z.min m (snd it) + 1) t del)).
    { unfold apply_fixes at 1. cbn [filter]. rewrite Hd. cbn [negb map].
      f_equal.
      - exact (lookup_head2 it t del m Hnin Hd).
      - change (apply_fixes t del (fix_ref m (it :: t) del)
                = apply_fixes t del (fix_ref (Z.min m (snd it) + 1) t del)).
        apply apply_tail; [exact Hnd|rewrite Hd; reflexivity]. }
    rewrite E. cbn [valid_from snd]. split; [lia|].
    apply IH; [exact Hnd'|exact Hnn'|lia].
Qed.

Lemma valid_tree_fix : forall items del,
  NoDup (ids items) -> nonneg items ->
  valid_tree (apply_fixes items del (fix_indents items del)).
Proof.
  intros. rewrite fix_indents_is_ref. apply valid_from_ref; [assumption|assumption|lia].
Qed.

(* never deeper, really a change, one fix per page, only remaining pages *)
Lemma fix_ref_strictly_less : forall items del m i n,
  In (i, n) (fix_ref m items del) -> exists old, In (i, old) items /\ n < old.
Proof.
  induction items as [|it t IH]; intros del m i n H; [contradiction|].
  cbn [fix_ref] in H. apply in_app_or in H. destruct H as [H|H].
  - destruct (Z.eqb_spec (Z.min m (snd it)) (snd it)) as [He|Hne]; cbn [negb andb] in H; [contradiction|].
    destruct (negb _) in H; [|contradiction].
    destruct H as [H|[]]. inversion H; subst. exists (snd it). split; [left; destruct it; reflexivity|lia].
  - apply IH in H. destruct H as [old [H1 H2]]. exists old. split; [right; exact H1|exact H2].
Qed.

Lemma fix_ref_nodup : forall items del m, NoDup (ids items) -> NoDup (map fst (fix_ref m items del)).
Proof.
  induction items as [|it t IH]; intros del m Hnd; [constructor|].
  cbn [fix_ref]. inversion Hnd as [|? ? Hnotin Hnd']; subst.
  destruct (andb _ _); cbn [app map].
  - constructor; [|apply IH; exact Hnd'].
    intro Hin. apply in_map_iff in Hin. destruct Hin as [[j n] [Hj Hin]]. cbn in Hj; subst j.
    apply fix_ref_ids_subset in Hin. tauto.
  - apply IH; exact Hnd'.
Qed.

(* every page is adjusted exactly when it is deeper than its allowed level, and then to that level *)
Lemma fix_ref_spec : forall items del m it a,
  NoDup (ids items) ->
  In (it, a) (allowed_levels m items del) ->
  py_mem Z.eqb (fst it) del = false ->
  (snd it <= a -> lookup_fix (fst it) (fix_ref m items del) = None) /\
  (a < snd it -> lookup_fix (fst it) (fix_ref m items del) = Some a).
Proof.
  induction items as [|x t IH]; intros del m it a Hnd Hin Hd; [contradiction|].
  cbn [allowed_levels] in Hin. inversion Hnd as [|? ? Hnotin Hnd']; subst.
  destruct Hin as [Hin|Hin].
  - inversion Hin; subst x a. cbn [fix_ref]. rewrite Hd. cbn [negb]. rewrite andb_true_r.
    split; intro Hc.
    + destruct (Z.eqb_spec (Z.min m (snd it)) (snd it)) as [He|Hne]; [|lia]. cbn [negb app].
      apply lookup_fix_notin. intros n Hn. apply fix_ref_ids_subset in Hn. tauto.
    + destruct (Z.eqb_spec (Z.min m (snd it)) (snd it)) as [He|Hne]; [lia|]. cbn [negb app lookup_fix].
      rewrite Z.eqb_refl. f_equal. lia.
  - assert (Hit : In (fst it) (ids t)).
    { clear -Hin. revert Hin. generalize (if py_mem Z.eqb (fst x) del then Z.min m (snd x) else Z.min m (snd x) + 1).
      induction t as [|y t IH]; intros z Hin; [contradiction|]. cbn [allowed_levels] in Hin.
      destruct Hin as [Hin|Hin]; [inversion Hin; left; reflexivity|right; eapply IH; exact Hin]. }
    cbn [fix_ref]. rewrite lookup_skip.
    + apply IH; assumption.
    + intros n Hn. destruct (andb _ _); [|contradiction]. destruct Hn as [Hn|[]]. injection Hn as Hid _.
      apply Hnotin. rewrite Hid. exact Hit.
Qed.

Lemma allowed_levels_all : forall items del m it,
  In it items -> exists a, In (it, a) (allowed_levels m items del).
Proof.
  induction items as [|x t IH]; intros del m it Hin; [contradiction|].
  cbn [allowed_levels]. destruct Hin as [->|Hin].
  - exists m. left; reflexivity.
  - destruct (IH del (if py_mem Z.eqb (fst x) del then Z.min m (snd x) else Z.min m (snd x) + 1) it Hin) as [a Ha].
    exists a. right; exact Ha.
Qed.

(* a valid tree with nothing removed needs no fix *)
Lemma fix_ref_valid_noop : forall items m prev,
  valid_from prev items -> prev + 1 <= m -> fix_ref m items [] = [].
Proof.
  induction items as [|it t IH]; intros m prev Hv Hm; [reflexivity|].
  cbn [valid_from] in Hv. destruct Hv as [Hr Hv]. cbn [fix_ref py_mem].
  replace (Z.min m (snd it)) with (snd it) by lia. rewrite Z.eqb_refl. cbn [negb andb app].
  apply (IH _ (snd it)); [exact Hv|lia].
Qed.

(* ---- pages that are not below a removed page keep their level (for an originally valid tree) ---- *)

Definition open_bound (open : option Z) (m prev : Z) : Prop :=
  match open with
  | Some a => Z.min (prev + 1) a <= m
  | None => prev + 1 <= m
  end.

Lemma under_removed_ids : forall items del open it b,
  In (it, b) (under_removed open items del) -> In it items.
Proof.
  induction items as [|x t IH]; intros del open it b Hin; [contradiction|].
  cbn [under_removed] in Hin. destruct Hin as [Hin|Hin].
  - injection Hin as Hx _. left; exact Hx.
  - right. eapply IH; exact Hin.
Qed.

Lemma fix_ref_not_under : forall items del m prev open it,
  valid_from prev items -> NoDup (ids items) ->
  open_bound open m prev ->
  In (it, false) (under_removed open items del) ->
  lookup_fix (fst it) (fix_ref m items del) = None.
Proof.
  induction items as [|x t IH]; intros del m prev open it Hv Hnd Hb Hin; [contradiction|].
  cbn [valid_from] in Hv. destruct Hv as [Hx Hv].
  inversion Hnd as [|? ? Hnotin Hnd']; subst.
  cbn [under_removed] in Hin. destruct Hin as [Hin|Hin].
  - injection Hin as Hit Hunder. subst x.
    assert (Hmin : Z.min m (snd it) = snd it).
    { unfold open_bound in Hb. destruct open as [a|].
      - destruct (Z.ltb_spec a (snd it)); [discriminate|]. lia.
      - lia. }
    cbn [fix_ref]. rewrite Hmin, Z.eqb_refl. cbn [negb andb app].
    apply lookup_fix_notin. intros n Hn. apply fix_ref_ids_subset in Hn. tauto.
  - assert (Hit : In (fst it) (ids t)).
    { apply under_removed_ids in Hin. unfold ids. apply in_map. exact Hin. }
    cbn [fix_ref]. rewrite lookup_skip.
    + eapply (IH del _ (snd x)); [exact Hv|exact Hnd'| |exact Hin].
      unfold open_bound in *.
      destruct (py_mem Z.eqb (fst x) del); destruct open as [a|];
        try (destruct (Z.ltb_spec a (snd x))); lia.
    + intros n Hn. destruct (andb _ _); [|contradiction]. destruct Hn as [Hn|[]]. injection Hn as Hid _.
      apply Hnotin. rewrite Hid. exact Hit.
Qed.
