(* Counting: the scalar cells of the tables are exactly the kept scalars of the document, and the rows of
   a table are exactly the kept items at that path (C33: scalars_exactly_once). *)
From Coq Require Import ZArith List Bool Arith Lia.
Import ListNotations.
Require Import Grist.Model.JsonImport Grist.Model.JsonImportSpec.
Require Import Grist.Proofs.JsonImport_proofs Grist.Proofs.JsonImport_tables_proofs.
Require Import Grist.Proofs.JsonImport_repr_proofs.

Lemma flat_map_map' {A B C} (f : B -> list C) (g : A -> B) (l : list A) :
  flat_map f (map g l) = flat_map (fun x => f (g x)) l.
Proof. induction l as [|x l IH]; cbn; [reflexivity|]. rewrite IH. reflexivity. Qed.

Lemma flat_map_flat_map {A B C} (f : B -> list C) (g : A -> list B) (l : list A) :
  flat_map f (flat_map g l) = flat_map (fun x => flat_map f (g x)) l.
Proof. induction l as [|x l IH]; cbn; [reflexivity|]. rewrite flat_map_app, IH. reflexivity. Qed.

Lemma scalar_eqb_sym a b : scalar_eqb a b = scalar_eqb b a.
Proof.
  destruct (scalar_eqb a b) eqn:E.
  - apply scalar_eqb_eq in E. subst. symmetry. apply scalar_eqb_eq. reflexivity.
  - destruct (scalar_eqb b a) eqn:E2; [|reflexivity]. apply scalar_eqb_eq in E2. subst.
    assert (scalar_eqb a a = true) by (apply scalar_eqb_eq; reflexivity). congruence.
Qed.

(* ------------------------------------------------------------------ the document through the plan *)

Definition act_scalars (T : str) (a : action) : list (str * str * scalar) :=
  match a with
  | AScalar k s => [(T, k, s)]
  | AObj k x => doc_scalars x (sub T k)
  | AElem k e => doc_scalars e (sub T k)
  end.

Lemma doc_scalars_plan v T : doc_scalars v T = flat_map (act_scalars T) (plan v).
Proof.
  unfold plan. destruct v as [s|l|kvs]; cbn [doc_scalars fields].
  - reflexivity.
  - cbn [flat_map fst snd field_plan]. rewrite app_nil_r, flat_map_map'. reflexivity.
  - rewrite flat_map_flat_map. apply flat_map_ext. intros [k x]. cbn [fst snd].
    destruct x as [s|l|o]; cbn [field_plan].
    + reflexivity.
    + rewrite flat_map_map'. reflexivity.
    + cbn. rewrite app_nil_r. reflexivity.
Qed.

Definition act_items (T : str) (a : action) : list str :=
  match a with
  | AScalar _ _ => []
  | AObj k x => doc_items x (sub T k)
  | AElem k e => doc_items e (sub T k)
  end.

Lemma doc_items_plan v T : doc_items v T = T :: flat_map (act_items T) (plan v).
Proof.
  unfold plan. destruct v as [s|l|kvs]; cbn [doc_items fields]; f_equal.
  - cbn [flat_map fst snd field_plan]. rewrite app_nil_r, flat_map_map'. reflexivity.
  - rewrite flat_map_flat_map. apply flat_map_ext. intros [k x]. cbn [fst snd].
    destruct x as [s|l|o]; cbn [field_plan].
    + reflexivity.
    + rewrite flat_map_map'. reflexivity.
    + cbn. rewrite app_nil_r. reflexivity.
Qed.

Section CountProofs.
Variable inc : str -> bool.

(* ------------------------------------------------------------------ cells written = kept scalars *)

Definition is_write (T k : str) (c : cell) (e : event) : bool :=
  match e with
  | ECell T' _ k' c' => str_eqb T' T && str_eqb k' k && cell_eqb c c'
  | _ => false
  end.
Definition write_count (lg : list event) (T k : str) (c : cell) : nat := count_if (is_write T k c) lg.

Definition want (T0 k0 : str) (s0 : scalar) (t : str * str * scalar) : bool :=
  kept inc t && triple_eqb t (T0, k0, s0).

Definition Scal_ok (v : json) : Prop :=
  forall T p pre T0 k0 s0,
    write_count (fst (add_row inc v T p pre)) T0 k0 (CS s0) = count_if (want T0 k0 s0) (doc_scalars v T).

Lemma acts_scalars T0 k0 s0 T row acts : forall pre,
  (match row with Some _ => inc T = true | None => inc T = false end) ->
  (forall a x, In a acts -> In x (child a) -> Scal_ok x) ->
  write_count (acts_evs inc T row pre acts) T0 k0 (CS s0) =
  count_if (want T0 k0 s0) (flat_map (act_scalars T) acts).
Proof.
  induction acts as [|a rest IH]; intros pre Hrow HC; [reflexivity|].
  cbn [acts_evs flat_map]. unfold write_count in *. rewrite !count_if_app.
  rewrite IH; [|exact Hrow|intros a' x Ha Hx; apply (HC a' x (or_intror Ha) Hx)]. f_equal.
  destruct a as [k s|k x|k e]; cbn [act_evs act_scalars].
  - rewrite (count_if_cons (want T0 k0 s0)). unfold want at 1, kept. cbn [fst snd]. unfold scalar_evs.
    destruct row as [r|]; rewrite Hrow; cbn [andb]; [|reflexivity].
    destruct (inc (sub T k)); cbn [andb]; [|reflexivity].
    rewrite count_if_cons. cbn [is_write cell_eqb triple_eqb fst snd]. rewrite (scalar_eqb_sym s0 s). reflexivity.
  - specialize (HC (AObj k x) x (or_introl eq_refl) (or_introl eq_refl) (sub T k) None pre T0 k0 s0).
    destruct (add_row inc x (sub T k) None pre) as [ev res]. cbn [fst] in HC.
    unfold write_count in HC. rewrite count_if_app, HC.
    unfold link_evs. destruct row as [r|]; [|cbn; lia]. destruct res as [r2|]; [|cbn; lia].
    rewrite count_if_cons. cbn [is_write cell_eqb]. rewrite andb_false_r. cbn. lia.
  - apply (HC (AElem k e) e (or_introl eq_refl) (or_introl eq_refl)).
Qed.

Lemma Scal_all : forall v, Scal_ok v.
Proof.
  induction v as [v IH] using json_children_ind. intros T p pre T0 k0 s0.
  rewrite add_row_plan, doc_scalars_plan. cbn [fst]. unfold write_count. rewrite count_if_app.
  replace (count_if (is_write T0 k0 (CS s0)) (e0_for inc T p)) with 0
    by (unfold e0_for; destruct (inc T); reflexivity).
  apply (acts_scalars T0 k0 s0 T (row_for inc T pre) (plan v)).
  - unfold row_for. destruct (inc T); reflexivity.
  - intros a x Ha Hx. apply IH. eapply in_children_plan; eauto.
Qed.

(* ------------------------------------------------------------------ rows made = kept items *)

Definition want_item (T0 : str) (T : str) : bool := inc T && str_eqb T T0.

Definition Items_ok (v : json) : Prop :=
  forall T p pre T0, count T0 (fst (add_row inc v T p pre)) = count_if (want_item T0) (doc_items v T).

Lemma acts_items T0 T row acts : forall pre,
  (forall a x, In a acts -> In x (child a) -> Items_ok x) ->
  count T0 (acts_evs inc T row pre acts) = count_if (want_item T0) (flat_map (act_items T) acts).
Proof.
  induction acts as [|a rest IH]; intros pre HC; [reflexivity|].
  cbn [acts_evs flat_map]. rewrite count_app, count_if_app.
  rewrite IH; [|intros a' x Ha Hx; apply (HC a' x (or_intror Ha) Hx)]. f_equal.
  destruct a as [k s|k x|k e]; cbn [act_evs act_items].
  - unfold scalar_evs. destruct row; [|reflexivity]. destruct (inc (sub T k)); reflexivity.
  - specialize (HC (AObj k x) x (or_introl eq_refl) (or_introl eq_refl) (sub T k) None pre T0).
    destruct (add_row inc x (sub T k) None pre) as [ev res]. cbn [fst] in HC.
    rewrite count_app, HC. unfold link_evs. destruct row; [|cbn; lia]. destruct res; cbn; lia.
  - apply (HC (AElem k e) e (or_introl eq_refl) (or_introl eq_refl)).
Qed.

Lemma Items_all : forall v, Items_ok v.
Proof.
  induction v as [v IH] using json_children_ind. intros T p pre T0.
  rewrite add_row_plan, doc_items_plan. cbn [fst]. rewrite count_app, count_if_cons.
  rewrite (acts_items T0 T (row_for inc T pre) (plan v)).
  - f_equal. unfold e0_for, want_item, count. destruct (inc T); cbn; [destruct (str_eqb T T0)|]; reflexivity.
  - intros a x Ha Hx. apply IH. eapply in_children_plan; eauto.
Qed.

(* ------------------------------------------------------------------ cells of the final rows = cells written *)

Lemma count_if_update (f : nat -> bool) r0 b n : forall s,
  s <= r0 < s + n -> f r0 = false ->
  count_if (fun r => if Nat.eqb r r0 then b else f r) (seq s n) =
  count_if f (seq s n) + (if b then 1 else 0).
Proof.
  induction n as [|n IH]; intros s Hr Hf; [lia|]. cbn [seq]. rewrite !count_if_cons.
  destruct (Nat.eqb s r0) eqn:E.
  - apply Nat.eqb_eq in E. subst s. rewrite Hf.
    rewrite (count_if_ext (fun r => if Nat.eqb r r0 then b else f r) f).
    + destruct b; lia.
    + intros x Hx. apply in_seq in Hx. destruct (Nat.eqb x r0) eqn:Ex; [|reflexivity].
      apply Nat.eqb_eq in Ex. lia.
  - apply Nat.eqb_neq in E. rewrite IH; [lia|lia|exact Hf].
Qed.

Lemma cell_of_snoc_row pre T' p T r k : cell_of (pre ++ [ERow T' p]) T r k = cell_of pre T r k.
Proof. unfold cell_of. rewrite row_values_app. reflexivity. Qed.

Lemma cell_of_snoc_cell pre T' r' k' c' T r k :
  cell_of (pre ++ [ECell T' r' k' c']) T r k =
  if str_eqb T' T && Nat.eqb r' r && str_eqb k' k then c' else cell_of pre T r k.
Proof.
  unfold cell_of, dict_get. rewrite row_values_app. cbn [fold_left apply_cell].
  destruct (str_eqb T' T && Nat.eqb r' r) eqn:E; cbn [andb]; [|reflexivity].
  rewrite dict_find_set. destruct (str_eqb k' k); reflexivity.
Qed.

Lemma cell_of_untouched lg T r k : untouched T r k lg -> cell_of lg T r k = cnone.
Proof.
  intros H. apply cell_at_untouched in H. unfold cell_at in H. unfold cell_of, dict_get. rewrite H. reflexivity.
Qed.

Lemma cell_eqb_cnone c : c <> cnone -> cell_eqb c cnone = false.
Proof. intros H. destruct (cell_eqb c cnone) eqn:E; [|reflexivity]. apply cell_eqb_eq in E. contradiction. Qed.

Lemma cells_step pre e T k c :
  c <> cnone -> bounded pre -> ev_ok pre e ->
  cell_of_count (pre ++ [e]) T k c = cell_of_count pre T k c + (if is_write T k c e then 1 else 0).
Proof.
  intros Hc Hb He. unfold cell_of_count. destruct e as [T' p|T' r' k' c'].
  - cbn [is_write]. rewrite Nat.add_0_r.
    rewrite (count_if_ext _ (fun r => cell_eqb c (cell_of pre T r k)))
      by (intros; rewrite cell_of_snoc_row; reflexivity).
    rewrite count_app. unfold count at 2. cbn [filter is_row]. destruct (str_eqb T' T) eqn:E; cbn [length].
    + rewrite seq_app, count_if_app. cbn [seq]. rewrite count_if_cons.
      rewrite cell_of_untouched; [rewrite cell_eqb_cnone by exact Hc; cbn; lia|].
      apply bounded_untouched; [exact Hb|lia].
    + rewrite Nat.add_0_r. reflexivity.
  - cbn in He. destruct He as [Hrange Hunt].
    rewrite count_app. cbn [count filter is_row length]. rewrite Nat.add_0_r.
    cbn [is_write]. destruct (str_eqb T' T) eqn:ET; cbn [andb].
    + apply str_eqb_eq in ET. subst T'. destruct (str_eqb k' k) eqn:EK; cbn [andb].
      * apply str_eqb_eq in EK. subst k'.
        rewrite (count_if_ext _ (fun r => if Nat.eqb r r' then cell_eqb c c' else cell_eqb c (cell_of pre T r k))).
        -- apply count_if_update; [lia|]. rewrite cell_of_untouched by exact Hunt. apply cell_eqb_cnone. exact Hc.
        -- intros r _. rewrite cell_of_snoc_cell, !str_eqb_refl. cbn [andb]. rewrite Nat.eqb_sym.
           rewrite andb_true_r. destruct (Nat.eqb r r'); reflexivity.
      * rewrite Nat.add_0_r. apply count_if_ext. intros r _. rewrite cell_of_snoc_cell, EK, andb_false_r. reflexivity.
    + rewrite Nat.add_0_r. apply count_if_ext. intros r _. rewrite cell_of_snoc_cell, ET. reflexivity.
Qed.

Lemma cells_written T k c evs : forall pre,
  c <> cnone -> bounded pre -> ok pre evs ->
  cell_of_count (pre ++ evs) T k c = cell_of_count pre T k c + write_count evs T k c.
Proof.
  induction evs as [|e evs IH]; intros pre Hc Hb Hok.
  - rewrite app_nil_r. unfold write_count. cbn. lia.
  - cbn [ok] in Hok. destruct Hok as [He Hok].
    change (e :: evs) with ([e] ++ evs). rewrite app_assoc, IH; [|exact Hc| |exact Hok].
    + rewrite cells_step by assumption. unfold write_count. rewrite count_if_app, count_if_cons. cbn. lia.
    + apply bounded_ok; [exact Hb|]. cbn. auto.
Qed.

(* ------------------------------------------------------------------ the whole document *)

Lemma bounded_nil : bounded [].
Proof. intros T r k c []. Qed.

Lemma run_items_write_count name T0 k0 s0 items : forall pre,
  write_count (run_items inc name items pre) T0 k0 (CS s0) =
  write_count pre T0 k0 (CS s0) +
  count_if (want T0 k0 s0) (flat_map (fun v => doc_scalars v name) items).
Proof.
  induction items as [|v items IH]; intros pre; [unfold run_items; cbn [fold_left flat_map]; unfold count_if at 1; cbn [filter length]; lia|].
  rewrite run_items_cons, IH. cbn [flat_map]. rewrite count_if_app. unfold write_count at 1.
  rewrite count_if_app. fold (write_count pre T0 k0 (CS s0)).
  fold (write_count (fst (add_row inc v name None pre)) T0 k0 (CS s0)). rewrite Scal_all. lia.
Qed.

Lemma run_items_row_count name T0 items : forall pre,
  count T0 (run_items inc name items pre) =
  count T0 pre + count_if (want_item T0) (flat_map (fun v => doc_items v name) items).
Proof.
  induction items as [|v items IH]; intros pre; [unfold run_items; cbn [fold_left flat_map]; unfold count_if at 1; cbn [filter length]; lia|].
  rewrite run_items_cons, IH. cbn [flat_map]. rewrite count_if_app, count_app, Items_all. lia.
Qed.

Lemma scalars_once_log name items T k s :
  (forall v, In v items -> wf_json v) -> s <> SNull ->
  tcount (ttables (run_items inc name items [])) T k (CS s) =
  count_if (want T k s) (flat_map (fun v => doc_scalars v name) items).
Proof.
  intros Hwf Hs. assert (Hc : CS s <> cnone) by (unfold cnone; congruence).
  rewrite tcount_log by exact Hc.
  destruct (run_items_ok inc name items [] Hwf bounded_nil) as [tail [Heq Hok]]. cbn [app] in Heq.
  rewrite <- (app_nil_l (run_items inc name items [])). rewrite Heq at 1.
  rewrite cells_written; [|exact Hc|exact bounded_nil|exact Hok].
  rewrite <- Heq, run_items_write_count. reflexivity.
Qed.

Lemma rows_exactly_log name items T :
  tnrows (ttables (run_items inc name items [])) T =
  count_if (want_item T) (flat_map (fun v => doc_items v name) items).
Proof. rewrite tnrows_log, run_items_row_count. reflexivity. Qed.

End CountProofs.
