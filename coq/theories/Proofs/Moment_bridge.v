(* C34: pointwise bridging of the datetime-level functions GENERATED from moment.py on every run
   (GristGen.MomentDt_gen, by harness/mo2v.py) to the hand-written model Model/MomentTz.v, and the main theorems
   restated about the generated functions.  A semantic edit of ts_to_dt, dt_to_ts, date_to_ts, ts_to_date,
   utc_to_ts_ms, TzInfo.fromutc or TzInfo.utcoffset changes the generated text and breaks a lemma here. *)
From Coq Require Import ZArith List Bool Lia.
Import ListNotations.
Require Import Grist.Lib.PyPrelude Grist.Lib.PyList Grist.Model.Moment GristGen.Moment_gen Grist.Model.MomentTz.
Require Import Grist.Model.MomentDt GristGen.MomentDt_gen Grist.Proofs.Moment_proofs.
Open Scope Z_scope.

(* the model's aware datetime (local value, favor) of zone z, as a datetime object *)
Definition aware (z : zone) (a : adt) : pydt := mk_dt (dt_local a) (Some (mk_tz z (dt_favor a))).

(* ---- pointwise bridges: generated = model ------------------------------------------------------------ *)

Lemma bridge_utc_to_ts_ms : forall oob d, moment_utc_to_ts_ms oob d = py_utc_to_ts_ms (d_naive d).
Proof.
  intros oob [n t]. unfold moment_utc_to_ts_ms, py_sec_to_ms, py_total_seconds, py_dt_sub_dt, py_replace_tzinfo,
    EPOCH, py_utc_to_ts_ms. cbn [d_naive d_tz]. lia.
Qed.

Lemma bridge_utcoffset : forall oob z f d,
  TzInfo_utcoffset oob (mk_tz z f) d = zone_dt_offset oob z (d_naive d) f.
Proof.
  intros. unfold TzInfo_utcoffset. cbn [tz_zone tz_favor]. rewrite bridge_utc_to_ts_ms. reflexivity.
Qed.

Lemma bridge_utcoffset_aware : forall oob z a, py_dt_utcoffset oob (aware z a) = Some (tz_utcoffset oob z a).
Proof.
  intros. unfold py_dt_utcoffset, aware. cbn [d_tz]. rewrite bridge_utcoffset. reflexivity.
Qed.

Lemma bridge_fromutc : forall oob z f d,
  TzInfo_fromutc oob (mk_tz z f) d = aware z (tz_fromutc oob z (d_naive d)).
Proof.
  intros oob z f [n t]. unfold TzInfo_fromutc, aware, tz_fromutc, py_replace_tzinfo, py_dt_add, py_get_tzinfo.
  cbn [tz_zone d_naive d_tz dt_local dt_favor]. rewrite bridge_utc_to_ts_ms. reflexivity.
Qed.

(* ts_to_dt(timestamp, zone) and ts_to_dt(timestamp, None, tzinfo) *)
Lemma bridge_ts_to_dt : forall oob ts z, moment_ts_to_dt oob ts z None = aware z (ts_to_dt oob ts z).
Proof.
  intros. unfold moment_ts_to_dt, py_astimezone, py_dt_utcoffset, EPOCH_UTC, TZ_UTC, py_dt_add, py_get_tzinfo,
    py_timedelta_seconds. cbn [d_tz d_naive].
  rewrite bridge_fromutc. unfold py_replace_tzinfo, py_dt_sub_td. cbn [d_naive].
  rewrite bridge_utcoffset. cbn [d_naive].
  (* the utc offset of TZ_UTC (no transitions, offset 0) is 0 whatever oob is *)
  replace (zone_dt_offset oob utc_zone (0 + ts) None) with 0 by (vm_compute; reflexivity).
  unfold ts_to_dt. replace (0 + ts - 0) with ts by lia. reflexivity.
Qed.

Lemma bridge_ts_to_dt_tzinfo : forall oob ts z0 z f,
  moment_ts_to_dt oob ts z0 (Some (mk_tz z f)) = aware z (ts_to_dt oob ts z).
Proof.
  intros. unfold moment_ts_to_dt, py_astimezone, py_dt_utcoffset, EPOCH_UTC, TZ_UTC, py_dt_add,
    py_timedelta_seconds. cbn [d_tz d_naive].
  rewrite bridge_fromutc. unfold py_replace_tzinfo, py_dt_sub_td. cbn [d_naive].
  rewrite bridge_utcoffset. cbn [d_naive].
  replace (zone_dt_offset oob utc_zone (0 + ts) None) with 0 by (vm_compute; reflexivity).
  unfold ts_to_dt. replace (0 + ts - 0) with ts by lia. reflexivity.
Qed.

(* dt_to_ts of an aware datetime (the optional timezone argument is then ignored) *)
Lemma bridge_dt_to_ts_aware : forall oob z a tzopt, moment_dt_to_ts oob (aware z a) tzopt = dt_to_ts oob z a.
Proof.
  intros. unfold moment_dt_to_ts. rewrite bridge_utcoffset_aware.
  unfold py_total_seconds, py_dt_sub_dt, py_dt_sub_td, py_replace_tzinfo, EPOCH, aware, dt_to_ts.
  cbn [d_naive d_tz]. lia.
Qed.

(* dt_to_ts of any datetime carrying tzinfo(zone, favor): the local-time lookup *)
Lemma bridge_dt_to_ts_tz : forall oob z f L tzopt,
  moment_dt_to_ts oob (mk_dt L (Some (mk_tz z f))) tzopt = local_to_ts oob z L f.
Proof. intros. apply (bridge_dt_to_ts_aware oob z (mk_adt L f) tzopt). Qed.

(* dt_to_ts of a naive datetime: with a zone (favor None), and without (taken as UTC) *)
Lemma bridge_dt_to_ts_naive : forall oob z L,
  moment_dt_to_ts oob (mk_dt L None) (Some z) = local_to_ts oob z L None /\
  moment_dt_to_ts oob (mk_dt L None) None = L.
Proof.
  intros. unfold moment_dt_to_ts, py_dt_utcoffset, local_to_ts. cbn [d_tz].
  rewrite bridge_utc_to_ts_ms.
  unfold py_total_seconds, py_dt_sub_dt, py_dt_sub_td, py_replace_tzinfo, EPOCH, py_utc_to_ts_ms.
  cbn [d_naive d_tz]. split; lia.
Qed.

Lemma bridge_ts_to_date : forall oob ts, moment_ts_to_date oob ts = ts_to_date ts.
Proof.
  intros. unfold moment_ts_to_date, py_date_add_td, py_timedelta_seconds, DATE_EPOCH, ts_to_date. lia.
Qed.

Lemma bridge_date_to_ts : forall oob d, moment_date_to_ts oob d None = date_to_ts d.
Proof.
  intros. unfold moment_date_to_ts, py_total_seconds, py_date_sub, DATE_EPOCH, date_to_ts. lia.
Qed.

Lemma bridge_date_to_ts_zone : forall oob d z, moment_date_to_ts oob d (Some z) = date_to_ts_zone oob d z.
Proof.
  intros. unfold moment_date_to_ts, date_to_ts_zone, py_total_seconds, py_date_sub, DATE_EPOCH, py_sec_to_ms,
    py_timedelta_seconds, py_dt_add, EPOCH. cbv zeta.
  rewrite bridge_utc_to_ts_ms. unfold py_utc_to_ts_ms. cbn [d_naive].
  replace ((d - 0) * TICKS_PER_DAY) with (d * TICKS_PER_DAY) by lia.
  replace (0 + d * TICKS_PER_DAY) with (d * TICKS_PER_DAY) by lia.
  destruct (Z.eqb (zone_offset oob z (d * TICKS_PER_DAY - zone_dt_offset oob z (d * TICKS_PER_DAY) None))
                  (zone_dt_offset oob z (d * TICKS_PER_DAY) None)); reflexivity.
Qed.

(* ---- the property, about the generated functions ----------------------------------------------------- *)

Theorem code_roundtrip : forall z, zone_ok z = true -> forall oob ts tzopt,
  moment_dt_to_ts oob (moment_ts_to_dt oob ts z None) tzopt = ts.
Proof.
  intros z Hok oob ts tzopt. rewrite bridge_ts_to_dt, bridge_dt_to_ts_aware. apply zone_ok_sound. exact Hok.
Qed.

Theorem code_date_roundtrip : forall oob d, moment_ts_to_date oob (moment_date_to_ts oob d None) = d.
Proof. intros. rewrite bridge_date_to_ts, bridge_ts_to_date. apply date_roundtrip. Qed.

Theorem code_date_of_instant : forall oob d s, 0 <= s < TICKS_PER_DAY ->
  moment_ts_to_date oob (moment_date_to_ts oob d None + s) = d.
Proof. intros. rewrite bridge_date_to_ts, bridge_ts_to_date. apply date_of_instant. assumption. Qed.

Lemma code_ts_to_dt_naive : forall oob ts z, d_naive (moment_ts_to_dt oob ts z None) = dt_local (ts_to_dt oob ts z).
Proof. intros. rewrite bridge_ts_to_dt. reflexivity. Qed.

Theorem code_date_zone_roundtrip : forall z, zone_ok z = true -> zone_date_ok z = true -> forall oob d,
  date_exists z d = true ->
  let t := moment_date_to_ts oob d (Some z) in
  py_dt_date (moment_ts_to_dt oob t z None) = d /\
  (d_naive (moment_ts_to_dt oob t z None) = moment_date_to_ts oob d None \/
   forall ts, d_naive (moment_ts_to_dt oob ts z None) <> moment_date_to_ts oob d None).
Proof.
  intros z Hok Hdok oob d Hex. cbv zeta. rewrite bridge_date_to_ts_zone, bridge_date_to_ts.
  destruct (date_zone_roundtrip z Hok Hdok oob d Hex) as [H1 H2]. cbv zeta in *.
  unfold py_dt_date. rewrite code_ts_to_dt_naive. split; [exact H1|].
  destruct H2 as [H2|H2]; [left; exact H2|right]. intros ts. rewrite code_ts_to_dt_naive. apply H2.
Qed.

(* a local time L carrying tzinfo(zone, favor): naive.replace(tzinfo=zone.get_tzinfo(f)) *)
Theorem code_local_offset_is_adjacent : forall z, zone_ok z = true -> forall oob L f,
  let d := mk_dt L (Some (py_get_tzinfo z f)) in
  let r := zone_index_dt oob z L f in
  let t := moment_dt_to_ts oob d None in
  py_dt_utcoffset oob d = Some (E z r) /\ 0 <= r <= nZ z /\
  ((in_interval z r t /\ d_naive (moment_ts_to_dt oob t z None) = L) \/
   (1 <= r /\ in_interval z (r - 1) t /\ OU z (r - 1) <= L < TH z (r - 1) /\
    forall ts, d_naive (moment_ts_to_dt oob ts z None) <> L)).
Proof.
  intros z Hok oob L f. cbv zeta. unfold py_get_tzinfo.
  rewrite bridge_dt_to_ts_tz.
  destruct (local_offset_is_adjacent z Hok oob L f) as [H1 [H2 H3]]. cbv zeta in *.
  split; [|split; [exact H2|]].
  - unfold py_dt_utcoffset. cbn [d_tz]. rewrite bridge_utcoffset. cbn [d_naive]. rewrite H1. reflexivity.
  - destruct H3 as [[Ha Hb]|[Ha [Hb [Hc Hd]]]].
    + left. split; [exact Ha|]. rewrite code_ts_to_dt_naive. exact Hb.
    + right. split; [exact Ha|]. split; [exact Hb|]. split; [exact Hc|].
      intros ts. rewrite code_ts_to_dt_naive. apply Hd.
Qed.

(* a naive local time with dt_to_ts(naive, zone): the favor None case of the same statement *)
Lemma code_dt_to_ts_naive_zone : forall oob z L,
  moment_dt_to_ts oob (mk_dt L None) (Some z) = moment_dt_to_ts oob (mk_dt L (Some (py_get_tzinfo z None))) None.
Proof.
  intros. destruct (bridge_dt_to_ts_naive oob z L) as [-> _]. unfold py_get_tzinfo. rewrite bridge_dt_to_ts_tz.
  reflexivity.
Qed.
