(* C20, partial renumbering path: the keys get_range spreads over a sparse aligned block of doubles inside one
   binade are strictly increasing and lie strictly between the block's ends. *)
From Coq Require Import ZArith List Bool Lia Sorted.
Import ListNotations.
Require Import Grist.Lib.Fl64 Grist.Proofs.Fl64_proofs Grist.Proofs.Fl64_mono_proofs Grist.Proofs.Fl64_err_proofs
               Grist.Model.Relabel Grist.Proofs.Relabel_ungroup_proofs.
Open Scope Z_scope.

Section Spread.
(* the block: 2^i doubles of spacing G = 2^g starting at rb = A * G; c keys to spread, K = c + 1 *)
Variables (g A i c : Z).
Let G := 2 ^ g.
Let rb := A * G.
Let W := 2 ^ i * G.
Let re := rb + W.
Let K := c + 1.
Hypothesis Hg : 0 <= g.
Hypothesis HA : 0 <= A.
Hypothesis Hi : 1 <= i.
Hypothesis Hc : 1 <= c.
(* one binade: every double in [rb, re) has spacing G *)
Hypothesis Hlo : g = 0 \/ 2 ^ (52 + g) <= rb.
Hypothesis Hhi : re <= 2 ^ (53 + g).
Hypothesis Hover : re < UOVER.
(* sparse enough (checked for the concrete thresholds 1.14^i, 1.3^i by computation) *)
Hypothesis T1 : 3 * K < 2 ^ (i + 1).
Hypothesis T2 : K * (K + 1) <= 2 ^ (i + 1).
Hypothesis T3 : K * (2 ^ 53 + (K + 4) * 2 ^ i) <= 2 ^ (i + 53).

Lemma G_pos : 1 <= G. Proof. unfold G. pose proof (pow2_pos' g Hg). lia. Qed.
Lemma pi_pos : 2 <= 2 ^ i.
Proof. replace i with (1 + (i - 1)) by lia. rewrite Z.pow_add_r by lia. pose proof (pow2_pos' (i - 1)). lia. Qed.
Lemma W_eq : W = 2 ^ (i + g). Proof. unfold W, G. rewrite Z.pow_add_r by lia. reflexivity. Qed.
Lemma W_ge : 2 * G <= W. Proof. unfold W. pose proof pi_pos. pose proof G_pos. nia. Qed.
Lemma K_ge : 2 <= K. Proof. unfold K. lia. Qed.

Lemma ulp_block x : rb <= x < re -> ulp_exp x = g.
Proof.
  intros Hx. unfold ulp_exp. assert (0 <= rb) by (unfold rb; pose proof G_pos; nia).
  destruct Hlo as [->|Hl].
  - assert (Z.log2 x < 53); [|lia]. destruct (Z.eq_dec x 0) as [->|Hne]; [cbn; lia|].
    apply Z.log2_lt_pow2; [lia|]. cbn [Z.add] in Hhi. lia.
  - assert (Z.log2 x = 52 + g); [|lia]. apply Z.log2_unique; [lia|].
    replace (Z.succ (52 + g)) with (53 + g) by lia. lia.
Qed.

Let kappa := ulp_exp W.
Let E := 2 ^ kappa.
Let kS := ulp_exp (W / K).
Let S := rne W (K * 2 ^ kS) * 2 ^ kS.

Lemma kappa_eq : kappa = Z.max 0 (i + g - 52).
Proof. unfold kappa, ulp_exp. rewrite W_eq, Z.log2_pow2 by lia. reflexivity. Qed.
Lemma E_pos : 1 <= E. Proof. unfold E. pose proof (pow2_pos' kappa (ulp_exp_nonneg W)). lia. Qed.
Lemma kS_le : 0 <= kS <= kappa.
Proof.
  split; [apply ulp_exp_nonneg|]. apply ulp_exp_mono. pose proof K_ge. pose proof W_ge. pose proof G_pos.
  apply Z.div_le_upper_bound; nia.
Qed.
Lemma S_err : - (K * E) <= 2 * (S * K - W) <= K * E.
Proof.
  pose proof kS_le as [H0 H1]. pose proof K_ge.
  assert (Hp : 0 < 2 ^ kS) by (apply pow2_pos'; lia).
  assert (HpE : 2 ^ kS <= E) by (unfold E; apply Z.pow_le_mono_r; lia).
  pose proof (rne_err W (K * 2 ^ kS) ltac:(nia)) as Herr.
  replace (S * K) with (rne W (K * 2 ^ kS) * (K * 2 ^ kS)) by (unfold S; ring). nia.
Qed.

(* the two regimes *)
Lemma exact_regime : kappa = 0 -> E = 1 /\ W < 2 ^ 53.
Proof.
  intros Hk. split; [unfold E; rewrite Hk; reflexivity|]. rewrite kappa_eq in Hk. rewrite W_eq.
  apply Z.pow_lt_mono_r; lia.
Qed.
Lemma normal_regime : 0 < kappa -> 2 * W = E * 2 ^ 53 /\ 2 <= E.
Proof.
  intros Hk. rewrite kappa_eq in Hk. assert (Hke : kappa = i + g - 52) by (rewrite kappa_eq; lia).
  split.
  - unfold E. rewrite Hke. unfold W, G. rewrite <- (Z.pow_add_r 2 (i + g - 52) 53) by lia.
    replace (i + g - 52 + 53) with (1 + i + g) by lia. rewrite !Z.pow_add_r by lia. ring.
  - unfold E. replace kappa with (1 + (kappa - 1)) by lia. rewrite Z.pow_add_r by lia.
    pose proof (pow2_pos' (kappa - 1)). lia.
Qed.

(* (N1) the density bound in the units of the block *)
Lemma density_normal : 0 < kappa -> 2 * K * G + K * (K + 4) * E <= 2 * W.
Proof.
  intros Hk. destruct (normal_regime Hk) as [H2W _].
  assert (HP : 0 < 2 ^ 53) by (apply pow2_pos'; lia).
  assert (Hpow : 2 ^ (i + 53) = 2 ^ i * 2 ^ 53) by (apply Z.pow_add_r; lia).
  rewrite Hpow in T3. unfold W in *. pose proof G_pos.
  (* multiply T3 by G and use 2 W = E * 2^53 *)
  assert (K * 2 ^ 53 * G + K * (K + 4) * (2 ^ i * G) <= 2 ^ i * G * 2 ^ 53) by nia.
  nia.
Qed.

Lemma Q1 : (kappa = 0 -> G + 1 <= S) /\ (0 < kappa -> G + E + 1 <= S).
Proof.
  pose proof S_err as HS. pose proof K_ge as HK. pose proof G_pos as HG. split; intros Hk.
  - destruct (exact_regime Hk) as [HE _]. rewrite HE in HS.
    assert (H2W : 3 * K * G < 2 * W).
    { unfold W. replace (2 ^ (i + 1)) with (2 * 2 ^ i) in T1 by (rewrite Z.pow_add_r by lia; ring). nia. }
    destruct (Z.le_gt_cases (G + 1) S) as [H|H]; [exact H|]. exfalso. assert (S <= G) by lia. nia.
  - destruct (normal_regime Hk) as [_ HE2]. pose proof (density_normal Hk) as HN.
    destruct (Z.le_gt_cases (G + E + 1) S) as [H|H]; [exact H|]. exfalso. assert (S <= G + E) by lia. nia.
Qed.

Lemma HT_exact : K * (c + 2 * G) <= 2 * W.
Proof.
  pose proof K_ge as HK. pose proof G_pos as HG. assert (HKc : c = K - 1) by (unfold K; lia).
  assert (HP : 2 ^ (i + 1) = 2 * 2 ^ i) by (rewrite Z.pow_add_r by lia; ring).
  rewrite HP in T1, T2. unfold W. set (P := 2 ^ i) in *. clearbody P. rewrite HKc. clear - T1 T2 HK HG.
  assert (H1 : K * (K - 1 + 2 * G) = K * (K + 1) + (2 * G - 2) * K) by ring. rewrite H1.
  assert (H2 : 3 * ((2 * G - 2) * K) <= (2 * G - 2) * (2 * P)) by nia.
  nia.
Qed.

Lemma Q2 : (kappa = 0 -> S * c <= W - G) /\ (0 < kappa -> 2 * (S * c) + E <= 2 * (W - G)).
Proof.
  pose proof S_err as HS. pose proof K_ge as HK. pose proof G_pos as HG.
  assert (HKc : K = c + 1) by reflexivity. split; intros Hk.
  - destruct (exact_regime Hk) as [HE _]. rewrite HE in HS. pose proof HT_exact as HT.
    assert (H1 : 2 * (S * c) * K <= (2 * W + K) * c) by (clear - HS Hc; nia).
    assert (H2 : (2 * W + K) * c <= 2 * (W - G) * K) by (clear - HT HKc; nia).
    assert (H3 : 2 * (S * c) * K <= 2 * (W - G) * K) by lia.
    clear - H3 HK. nia.
  - pose proof (density_normal Hk) as HN. destruct (normal_regime Hk) as [_ HE2].
    assert (H0 : K * K * E + 2 * G * K <= 2 * W) by (clear - HN HK HE2; nia).
    assert (H1 : 2 * (S * c) * K <= (2 * W + K * E) * c) by (clear - HS Hc; nia).
    assert (H2 : (2 * W + K * E) * c + E * K <= 2 * (W - G) * K) by (clear - H0 HKc; nia).
    assert (H3 : (2 * (S * c) + E) * K <= 2 * (W - G) * K) by lia.
    clear - H3 HK. nia.
Qed.

(* ---- the products S*k, the sums rb + S*k, and their roundings *)
Definition pk (k : Z) : Z := R (S * k).
Definition vk (k : Z) : Z := R (rb + pk k).

Lemma ulp_exp_small x : 0 <= x < 2 ^ 53 -> ulp_exp x = 0.
Proof.
  intros Hx. unfold ulp_exp. destruct (Z.eq_dec x 0) as [->|Hne]; [reflexivity|].
  assert (Z.log2 x < 53) by (apply Z.log2_lt_pow2; lia). lia.
Qed.

Lemma S_pos : 1 <= S.
Proof. pose proof Q1 as [H1 H2]. pose proof G_pos. pose proof E_pos. pose proof (ulp_exp_nonneg W). fold kappa in H.
  destruct (Z.eq_dec kappa 0) as [Hk|Hk]; [specialize (H1 Hk) | specialize (H2 ltac:(lia))]; lia. Qed.

Lemma Sc_le : S * c <= W - G.
Proof. pose proof Q2 as [H1 H2]. pose proof E_pos. pose proof (ulp_exp_nonneg W). fold kappa in H0.
  destruct (Z.eq_dec kappa 0) as [Hk|Hk]; [specialize (H1 Hk) | specialize (H2 ltac:(lia))]; lia. Qed.

Lemma Sk_le k : 0 <= k <= c -> 0 <= S * k <= W - G.
Proof. intros Hk. pose proof S_pos. pose proof Sc_le. nia. Qed.

Lemma pk_err k : 0 <= k <= c ->
  (kappa = 0 -> pk k = S * k) /\ (0 < kappa -> - E <= 2 * (pk k - S * k) <= E).
Proof.
  intros Hk. pose proof (Sk_le k Hk) as HSk. pose proof G_pos. split; intros Hkap.
  - destruct (exact_regime Hkap) as [_ HW]. unfold pk. apply R_exact; [lia|].
    rewrite ulp_exp_small by lia. apply Z.mod_1_r.
  - unfold pk. pose proof (R_err (S * k)) as Herr.
    assert (2 ^ ulp_exp (S * k) <= E).
    { unfold E, kappa. apply Z.pow_le_mono_r; [lia|]. apply ulp_exp_mono. lia. }
    lia.
Qed.

Lemma pk_first : G <= pk 1.
Proof.
  pose proof (pk_err 1 ltac:(lia)) as [H1 H2]. pose proof Q1 as [Q1a Q1b]. pose proof (ulp_exp_nonneg W) as Hk0. fold kappa in Hk0.
  destruct (Z.eq_dec kappa 0) as [Hk|Hk].
  - rewrite (H1 Hk). specialize (Q1a Hk). lia.
  - specialize (H2 ltac:(lia)). specialize (Q1b ltac:(lia)). destruct (normal_regime ltac:(lia)) as [_ HE]. lia.
Qed.

Lemma pk_step k : 1 <= k -> k + 1 <= c -> pk k + G + 1 <= pk (k + 1).
Proof.
  intros Hk1 Hk2. pose proof (pk_err k ltac:(lia)) as [A1 A2]. pose proof (pk_err (k + 1) ltac:(lia)) as [B1 B2].
  pose proof Q1 as [Q1a Q1b]. pose proof (ulp_exp_nonneg W) as Hk0. fold kappa in Hk0.
  destruct (Z.eq_dec kappa 0) as [Hk|Hk].
  - rewrite (A1 Hk), (B1 Hk). specialize (Q1a Hk). nia.
  - specialize (A2 ltac:(lia)). specialize (B2 ltac:(lia)). specialize (Q1b ltac:(lia)). nia.
Qed.

Lemma pk_last : pk c <= W - G.
Proof.
  pose proof (pk_err c ltac:(lia)) as [H1 H2]. pose proof Q2 as [Q2a Q2b]. pose proof (ulp_exp_nonneg W) as Hk0. fold kappa in Hk0.
  destruct (Z.eq_dec kappa 0) as [Hk|Hk].
  - rewrite (H1 Hk). apply Q2a. exact Hk.
  - specialize (H2 ltac:(lia)). specialize (Q2b ltac:(lia)). lia.
Qed.

Lemma pk_range k : 1 <= k <= c -> G <= pk k <= W - G.
Proof.
  intros Hk. pose proof pk_first. pose proof pk_last.
  assert (Hmono : forall a b, 0 <= a <= b -> b <= c -> pk a <= pk b).
  { intros a b Hab Hb. unfold pk. apply R_mono. pose proof S_pos. split; nia. }
  split; [apply Z.le_trans with (pk 1); [assumption | apply Hmono; lia] | apply Z.le_trans with (pk c); [apply Hmono; lia | assumption]].
Qed.

Lemma rb_nonneg : 0 <= rb. Proof. unfold rb. pose proof G_pos. nia. Qed.

Lemma grid_exact n : 0 <= n < 2 ^ i -> R (rb + n * G) = rb + n * G.
Proof.
  intros Hn. pose proof rb_nonneg. pose proof G_pos. apply R_exact; [nia|].
  rewrite ulp_block by (unfold re, W; nia). unfold rb. fold G. replace (A * G + n * G) with ((A + n) * G) by ring.
  apply Z.mod_mul. lia.
Qed.

Lemma vk_first : rb + G <= vk 1.
Proof.
  pose proof (pk_range 1 ltac:(lia)) as Hp. pose proof rb_nonneg. pose proof pi_pos.
  rewrite <- (Z.mul_1_l G) at 1. rewrite <- (grid_exact 1) by lia. unfold vk. apply R_mono. lia.
Qed.

Lemma vk_last : vk c <= re - G.
Proof.
  pose proof (pk_range c ltac:(lia)) as Hp. pose proof rb_nonneg. pose proof pi_pos. pose proof G_pos.
  replace (re - G) with (rb + (2 ^ i - 1) * G) by (unfold re, W; ring).
  rewrite <- (grid_exact (2 ^ i - 1)) by lia. unfold vk. apply R_mono.
  replace (rb + (2 ^ i - 1) * G) with (rb + W - G) by (unfold W; ring). lia.
Qed.

Lemma vk_step k : 1 <= k -> k + 1 <= c -> vk k + G <= vk (k + 1).
Proof.
  intros Hk1 Hk2. pose proof (pk_range k ltac:(lia)) as Hp1. pose proof (pk_range (k + 1) ltac:(lia)) as Hp2.
  pose proof (pk_step k Hk1 Hk2) as Hs. pose proof rb_nonneg. pose proof G_pos.
  assert (U1 : ulp_exp (rb + pk k) = g) by (apply ulp_block; unfold re; lia).
  assert (U2 : ulp_exp (rb + pk (k + 1)) = g) by (apply ulp_block; unfold re; lia).
  unfold vk. pose proof (R_step (rb + pk k) (rb + pk (k + 1)) ltac:(lia)) as HR.
  rewrite U1, U2 in HR. fold G in HR. apply HR; [reflexivity | lia].
Qed.

Lemma vk_mono a b : 1 <= a -> a < b -> b <= c -> vk a < vk b.
Proof.
  intros Ha Hab Hb. pose proof G_pos.
  assert (Hgen : forall d, 0 <= d -> a + d + 1 <= c -> vk a < vk (a + d + 1)).
  { intros d Hd. pattern d. apply natlike_ind; [| |exact Hd].
    - intros Hc0. pose proof (vk_step a Ha ltac:(lia)). replace (a + 0 + 1) with (a + 1) by lia. lia.
    - intros x Hx IHx Hc1. specialize (IHx ltac:(lia)).
      pose proof (vk_step (a + x + 1) ltac:(lia) ltac:(lia)). replace (a + Z.succ x + 1) with (a + x + 1 + 1) by lia. lia. }
  replace b with (a + (b - a - 1) + 1) by lia. apply Hgen; lia.
Qed.

Lemma vk_range k : 1 <= k <= c -> rb + G <= vk k <= re - G.
Proof.
  intros Hk. pose proof vk_first. pose proof vk_last.
  assert (vk 1 <= vk k).
  { destruct (Z.eq_dec k 1) as [E1|E1]; [rewrite E1; lia|]. pose proof (vk_mono 1 k ltac:(lia) ltac:(lia) ltac:(lia)). lia. }
  assert (vk k <= vk c).
  { destruct (Z.eq_dec k c) as [E1|E1]; [rewrite E1; lia|]. pose proof (vk_mono k c ltac:(lia) ltac:(lia) ltac:(lia)). lia. }
  lia.
Qed.

(* ---- get_range computes exactly these *)
Lemma K_small : K < 2 ^ 53.
Proof.
  pose proof K_ge as HK. assert (Hpow : 2 ^ (i + 53) = 2 ^ i * 2 ^ 53) by (apply Z.pow_add_r; lia). rewrite Hpow in T3.
  pose proof pi_pos as Hpi. assert (HP : 0 < 2 ^ 53) by (apply pow2_pos'; lia).
  set (P := 2 ^ 53) in *. set (Q := 2 ^ i) in *. clearbody P Q. clear - T3 HK Hpi HP.
  assert (H1 : K * (K + 4) * Q <= Q * P) by nia.
  assert (H2 : K * (K + 4) <= P) by nia. nia.
Qed.

Lemma fin_small u : 0 <= u -> u <= re -> fin_or_inf false u = FFin false u.
Proof. intros H0 H1. unfold fin_or_inf. replace (UOVER <=? u) with false; [reflexivity|]. symmetry. apply Z.leb_gt. lia. Qed.

Lemma W_le_re : W <= re. Proof. unfold re. pose proof rb_nonneg. lia. Qed.

Lemma step_is_S : fdiv (fsub (FFin false re) (FFin false rb)) (of_Z (c + 1)) = FFin false S.
Proof.
  pose proof rb_nonneg as Hrb. pose proof W_ge as HW. pose proof G_pos as HG. pose proof K_ge as HK. pose proof K_small as HKs.
  assert (Hsub : fsub (FFin false re) (FFin false rb) = FFin false W).
  { unfold fsub, fneg, fadd, sval. cbn [negb andb]. replace (re + - rb) with W by (unfold re; ring).
    replace (W =? 0) with false by (symmetry; apply Z.eqb_neq; lia).
    replace (W <? 0) with false by (symmetry; apply Z.ltb_ge; lia). rewrite Z.abs_eq by lia.
    replace W with (W * 2 ^ 0) at 1 by (rewrite Z.pow_0_r; lia). apply round_p2_exact; [lia | pose proof W_le_re; lia |].
    rewrite W_eq. unfold ulp_exp. rewrite Z.log2_pow2 by lia.
    replace (2 ^ (i + g)) with (2 ^ (i + g - Z.max 0 (i + g - 52)) * 2 ^ Z.max 0 (i + g - 52))
      by (rewrite <- Z.pow_add_r by lia; f_equal; lia).
    apply Z.mod_mul. pose proof (pow2_pos' (Z.max 0 (i + g - 52))). lia. }
  rewrite Hsub. fold K. rewrite of_Z_int by lia.
  rewrite fdiv_int_spec; [| lia | | lia].
  - fold kS. fold S. apply fin_small; [pose proof S_pos; lia|]. pose proof Sc_le. pose proof S_pos. pose proof W_le_re. nia.
  - rewrite W_eq. unfold ulp_exp. rewrite Z.log2_pow2 by lia.
    replace (2 ^ (i + g)) with (2 ^ (i + g - Z.max 0 (i + g - 52)) * 2 ^ Z.max 0 (i + g - 52))
      by (rewrite <- Z.pow_add_r by lia; f_equal; lia).
    apply Z.mod_mul. pose proof (pow2_pos' (Z.max 0 (i + g - 52))). lia.
Qed.

Lemma limit_ge : exists l, prevfloat (FFin false re) = FFin false l /\ re - G <= l.
Proof.
  pose proof rb_nonneg. pose proof W_ge. pose proof G_pos. pose proof pi_pos.
  unfold prevfloat. replace (re =? 0) with false by (symmetry; apply Z.eqb_neq; lia).
  eexists. split; [reflexivity|]. apply upred_max; [lia | lia |].
  rewrite ulp_block by lia. unfold re, W, rb. fold G. replace (A * G + 2 ^ i * G - G) with ((A + 2 ^ i - 1) * G) by ring.
  apply Z.mod_mul. lia.
Qed.

Lemma key_is_vk k : 1 <= k <= c ->
  fmin (fadd (FFin false rb) (fmul (FFin false S) (of_Z k))) (prevfloat (FFin false re)) = FFin false (vk k).
Proof.
  intros Hk. pose proof rb_nonneg as Hrb. pose proof (pk_range k Hk) as Hp. pose proof (vk_range k Hk) as Hv.
  pose proof G_pos as HG. pose proof K_small as HKs. pose proof S_pos as HS. pose proof W_le_re as HWre.
  rewrite of_Z_int by (unfold K in HKs; lia). rewrite fmul_int_spec by lia. fold (pk k).
  rewrite fin_small by lia. rewrite fadd_pos_spec by lia. fold (vk k). rewrite fin_small by lia.
  destruct limit_ge as (l & -> & Hl). unfold fmin, flt. cbn [is_nan negb andb ford].
  replace (l <? vk k) with false; [reflexivity|]. symmetry. apply Z.ltb_ge. lia.
Qed.

Theorem spread_keys :
  get_range (FFin false rb) (FFin false re) c = map (fun k => FFin false (vk k)) (zrange 1 (c + 1)).
Proof.
  unfold get_range. rewrite step_is_S. apply map_ext_in. intros k Hk. apply zrange_In in Hk.
  apply key_is_vk. lia.
Qed.

Theorem spread_posfin : Forall posfin (get_range (FFin false rb) (FFin false re) c).
Proof.
  rewrite spread_keys. rewrite Forall_forall. intros x Hx. apply in_map_iff in Hx. destruct Hx as (k & <- & _). eexists; reflexivity.
Qed.

Theorem spread_strict :
  StronglySorted Flt (FFin false rb :: get_range (FFin false rb) (FFin false re) c ++ [FFin false re]).
Proof.
  rewrite spread_keys. pose proof G_pos as HG.
  assert (Hlt : forall a b, 0 <= a < b -> Flt (FFin false a) (FFin false b)).
  { intros a b Hab. unfold Flt. apply flt_iff. cbn [is_nan ford]. repeat split; auto. lia. }
  assert (Hgen : forall l, StronglySorted Z.lt l -> (forall k, In k l -> 1 <= k <= c) ->
            StronglySorted Flt (map (fun k => FFin false (vk k)) l ++ [FFin false re])).
  { induction 1 as [|k t Hs IH Hk]; intros Hin; cbn [map app].
    - repeat constructor.
    - constructor; [apply IH; intros; apply Hin; right; assumption|].
      pose proof (Hin k (or_introl eq_refl)) as Hkr. pose proof (vk_range k Hkr) as Hv. pose proof rb_nonneg.
      rewrite Forall_forall in *. intros y Hy. apply in_app_or in Hy. destruct Hy as [Hy|[<-|[]]].
      + apply in_map_iff in Hy. destruct Hy as (k' & <- & Hk'). specialize (Hk k' Hk').
        pose proof (Hin k' (or_intror Hk')). apply Hlt. pose proof (vk_mono k k' ltac:(lia) Hk ltac:(lia)). lia.
      + apply Hlt. lia. }
  constructor.
  - apply Hgen; [apply zrange_sorted|]. intros k Hk. apply zrange_In in Hk. lia.
  - pose proof rb_nonneg. pose proof W_ge. rewrite Forall_forall. intros y Hy. apply in_app_or in Hy. destruct Hy as [Hy|[<-|[]]].
    + apply in_map_iff in Hy. destruct Hy as (k & <- & Hk). apply zrange_In in Hk.
      pose proof (vk_range k ltac:(lia)). apply Hlt. lia.
    + apply Hlt. unfold re. lia.
Qed.
End Spread.

(* ---------------------------------------------------------------------------------------------- *)
(* the density condition, and the concrete thresholds *)
Require Import Grist.Proofs.Relabel_sparse_proofs.

Definition sparse_enough (i K : Z) : Prop :=
  3 * K < 2 ^ (i + 1) /\ K * (K + 1) <= 2 ^ (i + 1) /\ K * (2 ^ 53 + (K + 4) * 2 ^ i) <= 2 ^ (i + 53).
Definition sparse_enoughb (i K : Z) : bool :=
  (3 * K <? 2 ^ (i + 1)) && (K * (K + 1) <=? 2 ^ (i + 1)) && (K * (2 ^ 53 + (K + 4) * 2 ^ i) <=? 2 ^ (i + 53)).

Lemma sparse_enoughb_sound i K : sparse_enoughb i K = true -> sparse_enough i K.
Proof.
  unfold sparse_enoughb, sparse_enough. intros H. apply andb_prop in H. destruct H as [H H3].
  apply andb_prop in H. destruct H as [H1 H2]. apply Z.ltb_lt in H1. apply Z.leb_le in H2. apply Z.leb_le in H3. auto.
Qed.

Lemma sparse_enough_mono i K K' : 0 <= i -> 1 <= K' <= K -> sparse_enough i K -> sparse_enough i K'.
Proof.
  intros Hi HK (H1 & H2 & H3). assert (0 < 2 ^ i) by (apply pow2_pos'; lia). assert (0 < 2 ^ 53) by (apply pow2_pos'; lia).
  unfold sparse_enough. set (P := 2 ^ 53) in *. set (Q := 2 ^ i) in *. set (Q1 := 2 ^ (i + 1)) in *. set (Q53 := 2 ^ (i + 53)) in *.
  clearbody P Q Q1 Q53. split; [lia|]. split; [nia|].
  assert (A1 : K' * (K' + 4) <= K * (K + 4)) by nia.
  assert (A2 : K' * P <= K * P) by nia.
  assert (A3 : K' * (K' + 4) * Q <= K * (K + 4) * Q) by nia.
  replace (K' * (P + (K' + 4) * Q)) with (K' * P + K' * (K' + 4) * Q) by ring.
  replace (K * (P + (K + 4) * Q)) with (K * P + K * (K + 4) * Q) in H3 by ring. lia.
Qed.

(* the largest integer below a threshold *)
Definition cmaxZ (x : fl) : Z :=
  match x with FFin false u => (u - 1) / 2 ^ 1074 | FInf false => 2 ^ 53 | _ => -1 end.

Definition posb (x : fl) : bool := match x with FFin false _ | FInf false => true | _ => false end.

Lemma flt_of_Z_cmax c x : 0 <= c < 2 ^ 53 -> posb x = true -> flt (of_Z c) x = true -> c <= cmaxZ x.
Proof.
  intros Hc Hp H. rewrite of_Z_int in H by lia. apply flt_iff in H. destruct H as (_ & Hn & H). rewrite ford_fint in H.
  assert (H1074 : 0 < 2 ^ 1074) by (apply pow2_pos'; lia).
  destruct x as [| [|] | [|] u]; cbn [cmaxZ ford is_nan posb] in *; try discriminate; try lia.
  apply Z.div_le_lower_bound; [lia|]. lia.
Qed.

Lemma threshold_table :
  forallb (fun i => sparse_enoughb (Z.of_nat i) (cmaxZ (thr f114 i) + 1) &&
                    sparse_enoughb (Z.of_nat i) (cmaxZ (thr f130 i) + 1)) (seq 2 62) = true.
Proof. vm_compute. reflexivity. Qed.

Lemma threshold_small :
  forallb (fun i => posb (thr f114 i) && posb (thr f130 i)) (seq 0 64) = true /\
  cmaxZ (thr f114 0) = 0 /\ cmaxZ (thr f130 0) = 0 /\ cmaxZ (thr f114 1) = 1 /\ cmaxZ (thr f130 1) = 1.
Proof. vm_compute. repeat split; reflexivity. Qed.

(* a level i >= 2 that passes the density test "count < thresh" is sparse enough for spread_strict *)
Theorem level_dense (i : nat) frac c : (2 <= i < 64)%nat -> frac = f114 \/ frac = f130 -> 1 <= c < 2 ^ 53 ->
  flt (of_Z c) (thr frac i) = true -> sparse_enough (Z.of_nat i) (c + 1).
Proof.
  intros Hi Hf Hc Hlt.
  assert (Hpos : posb (thr frac i) = true).
  { destruct threshold_small as (HP & _). rewrite forallb_forall in HP. specialize (HP i ltac:(apply in_seq; lia)).
    apply andb_prop in HP. destruct Hf as [-> | ->]; tauto. }
  pose proof (flt_of_Z_cmax c _ ltac:(lia) Hpos Hlt) as Hmax.
  pose proof threshold_table as HT. rewrite forallb_forall in HT.
  specialize (HT i ltac:(apply in_seq; lia)). apply andb_prop in HT. destruct HT as [H1 H2].
  apply (sparse_enough_mono (Z.of_nat i) (cmaxZ (thr frac i) + 1)); [lia | lia |].
  destruct Hf as [-> | ->]; apply sparse_enoughb_sound; assumption.
Qed.

(* ---------------------------------------------------------------------------------------------- *)
(* together with range_around_float: the keys _adjust_range spreads over the range found at a level 1 <= i <= 52
   around a positive double are strictly increasing and strictly inside it *)
Require Import Grist.Proofs.Relabel_block_proofs.

Theorem adjust_range_keys_strict u i c :
  0 < u -> 2 * u < UOVER -> 1 <= i <= 52 -> 1 <= c -> sparse_enough i (c + 1) ->
  exists rb re, range_around u i = Some (FFin false rb, FFin false re) /\ 0 <= rb <= u /\ u < re /\
    StronglySorted Flt (FFin false rb :: get_range (FFin false rb) (FFin false re) c ++ [FFin false re]) /\
    Forall posfin (get_range (FFin false rb) (FFin false re) c).
Proof.
  intros Hu Hov Hi Hc (T1 & T2 & T3).
  pose proof (range_around_block u i Hu ltac:(lia) Hov) as Hr.
  destruct (block_facts u i Hu ltac:(lia)) as (Ht & Hin & Hw & Hdiv & Hlo & Hhi & Hrb).
  destruct (g_facts u i Hu) as (Hg & _ & _).
  set (g := if u <? P52 then 0 else Z.log2 u - 52) in *.
  set (rb := u / 2 ^ (g + i) * 2 ^ (g + i)) in *. set (re := rb + 2 ^ (g + i)) in *.
  exists rb, re. split; [exact Hr|]. split; [lia|]. split; [lia|].
  assert (Hpg : 0 < 2 ^ g) by (apply pow2_pos'; lia).
  apply Z.mod_divide in Hdiv; [|lia]. destruct Hdiv as [A HA].
  assert (HA0 : 0 <= A) by nia.
  assert (Hre : re = A * 2 ^ g + 2 ^ i * 2 ^ g) by lia.
  assert (HovA : re < UOVER).
  { apply Z.le_lt_trans with (Z.max (2 * u) (2 ^ 53)).
    - destruct (g_facts u i Hu) as (_ & Hlu & _). fold g in Hlu. destruct Hlu as [H0|Hl].
      + rewrite H0 in Hhi. cbn [Z.add] in Hhi. lia.
      + assert (2 ^ (53 + g) = 2 * 2 ^ (52 + g)) by (replace (53 + g) with (1 + (52 + g)) by lia; rewrite Z.pow_add_r by lia; reflexivity). lia.
    - pose proof UOVER_big. assert (2 ^ 53 < 2 ^ 60) by (apply Z.pow_lt_mono_r; lia). lia. }
  rewrite Hre in Hhi, HovA |- *. rewrite HA in Hlo |- *.
  split; [exact (spread_strict g A i c Hg HA0 ltac:(lia) Hc Hlo Hhi HovA T1 T2 T3)
         | exact (spread_posfin g A i c Hg HA0 ltac:(lia) Hc Hlo Hhi HovA T1 T2 T3)].
Qed.
