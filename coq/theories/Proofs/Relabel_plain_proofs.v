(* C20: total correctness of the model on every input that takes the path without renumbering, i.e. whenever
   the implementation's own validity test (is_valid_range) accepts each group's get_range. *)
From Coq Require Import ZArith List Bool Lia Sorted Permutation.
Import ListNotations.
Require Import Grist.Lib.Fl64 Grist.Proofs.Fl64_proofs Grist.Proofs.Fl64_mono_proofs Grist.Model.Relabel
               Grist.Proofs.Sort_by_proofs Grist.Proofs.Relabel_ungroup_proofs Grist.Proofs.Relabel_check_proofs
               Grist.Proofs.Relabel_total_proofs.
Open Scope Z_scope.

(* ---------------------------------------------------------------------------------------------- *)
(* get_range between two doubles 0 <= b < e: finite values in [b, prevfloat e], weakly increasing *)

Section Range.
Variables (sb : bool) (ub ue c : Z).
Let b := FFin sb ub.
Let e := FFin false ue.
Hypothesis Hwb : wf_fl b.
Hypothesis Hwe : 0 <= ue < UOVER.
Hypothesis Hb0 : 0 <= ford b.
Hypothesis Hbe : flt b e = true.
Hypothesis Hc : 1 <= c /\ c + 1 < 2 ^ 53.

Let fb := ford b.
Let limit := upred ue.
Let step := fdiv (fsub e b) (of_Z (c + 1)).
Let y (k : Z) := fadd b (fmul step (of_Z k)).

Lemma fb_lt_ue : fb < ue.
Proof. apply flt_iff in Hbe. destruct Hbe as (_ & _ & H). exact H. Qed.

Lemma ue_pos : 0 < ue.
Proof. pose proof fb_lt_ue. unfold fb in *. lia. Qed.

Lemma fb_div : 0 <= fb < UOVER /\ fb mod 2 ^ ulp_exp fb = 0.
Proof.
  destruct Hwb as [Hr Hd]. unfold fb, b in *. destruct sb; cbn [ford] in *.
  - assert (ub = 0) by lia. subst ub. cbn. split; [|reflexivity]. pose proof UOVER_big. lia.
  - auto.
Qed.

Lemma limit_facts : 0 <= limit < ue /\ fb <= limit /\ limit < UOVER.
Proof.
  pose proof ue_pos. pose proof fb_lt_ue. destruct fb_div as [H1 H2]. destruct Hwe as [_ Hue].
  unfold limit. pose proof (upred_lt ue ltac:(lia)). pose proof (upred_nonneg ue ltac:(lia)).
  split; [lia|]. split; [apply upred_max; lia | lia].
Qed.

Lemma prevfloat_e : prevfloat e = FFin false limit.
Proof.
  unfold prevfloat, e. pose proof ue_pos. replace (ue =? 0) with false by (symmetry; apply Z.eqb_neq; lia).
  reflexivity.
Qed.

Lemma step_shape : pos_shape step.
Proof.
  unfold step. rewrite of_Z_int by lia.
  assert (HA : pos_shape (fsub e b)).
  { unfold fsub, fneg, fadd, e, b. pose proof fb_lt_ue as Hlt. unfold fb, b in Hlt.
    assert (Hz : sval false ue + sval (negb sb) ub = ue - ford (FFin sb ub)) by (destruct sb; cbn; lia).
    rewrite Hz. replace (ue - ford (FFin sb ub) =? 0) with false by (symmetry; apply Z.eqb_neq; lia).
    replace (ue - ford (FFin sb ub) <? 0) with false by (symmetry; apply Z.ltb_ge; lia).
    apply round_p2_pos_shape; lia. }
  assert (H1074 : 0 < 2 ^ 1074) by (apply pow2_pos'; lia).
  destruct HA as [(u & -> & Hu)| ->].
  - unfold fint. apply fdiv_pos_shape; [exact Hu | nia].
  - unfold fint, fdiv. right. reflexivity.
Qed.

Lemma y_facts k1 k2 : 1 <= k1 <= k2 -> k2 <= c ->
  pos_shape (y k1) /\ pos_shape (y k2) /\ fb <= ford (y k1) /\ ford (y k1) <= ford (y k2).
Proof.
  intros Hk Hk2. unfold y. rewrite !of_Z_int by lia.
  destruct (fmul_int_mono step k1 k2 step_shape Hk ltac:(lia)) as (S1 & S2 & Hm).
  destruct Hwb as [Hr Hd]. fold b.
  exact (fadd_pos_mono sb ub _ _ Hr Hd Hb0 S1 S2 Hm).
Qed.

(* element k of the range *)
Lemma range_elem k : 1 <= k <= c ->
  exists u, fmin (y k) (prevfloat e) = FFin false u /\ u = Z.min (ford (y k)) limit /\ fb <= u <= limit.
Proof.
  intros Hk. destruct (y_facts k k ltac:(lia) ltac:(lia)) as (S1 & _ & Hge & _).
  rewrite prevfloat_e. destruct limit_facts as (L1 & L2 & L3).
  destruct (fmin_limit (y k) limit S1 ltac:(lia)) as (u & Hu & Hmin).
  exists u. split; [exact Hu|]. split; [exact Hmin | lia].
Qed.

Lemma get_range_unfold : get_range b e c = map (fun k => fmin (y k) (prevfloat e)) (zrange 1 (c + 1)).
Proof. reflexivity. Qed.

Lemma range_length : length (get_range b e c) = Z.to_nat c.
Proof. rewrite get_range_unfold, map_length, zrange_length. f_equal. lia. Qed.

Lemma range_In x : In x (get_range b e c) -> exists u, x = FFin false u /\ fb <= u <= limit.
Proof.
  rewrite get_range_unfold. intros H. apply in_map_iff in H. destruct H as (k & <- & Hk).
  apply zrange_In in Hk. destruct (range_elem k ltac:(lia)) as (u & Hu & _ & Hb). eauto.
Qed.

Lemma range_weakly_sorted : StronglySorted Fle (get_range b e c).
Proof.
  rewrite get_range_unfold.
  assert (Hgen : forall l, StronglySorted Z.lt l -> (forall k, In k l -> 1 <= k <= c) ->
                 StronglySorted Fle (map (fun k => fmin (y k) (prevfloat e)) l)).
  { induction 1 as [|k t Hs IH Hk]; intros Hin; cbn [map]; constructor.
    - apply IH. intros; apply Hin; right; assumption.
    - rewrite Forall_forall in *. intros x Hx. apply in_map_iff in Hx. destruct Hx as (k' & <- & Hk').
      specialize (Hk k' Hk'). pose proof (Hin k (or_introl eq_refl)). pose proof (Hin k' (or_intror Hk')).
      destruct (range_elem k ltac:(lia)) as (u1 & -> & Hm1 & _).
      destruct (range_elem k' ltac:(lia)) as (u2 & -> & Hm2 & _).
      destruct (y_facts k k' ltac:(lia) ltac:(lia)) as (_ & _ & _ & Hmono).
      unfold Fle. apply fle_iff. cbn [is_nan ford]. repeat split; auto. lia. }
  apply Hgen; [apply zrange_sorted|]. intros k Hk. apply zrange_In in Hk. lia.
Qed.

End Range.

(* weakly sorted + no two neighbours equal = strictly sorted *)
Lemma sorted_distinct_strict l : StronglySorted Fle l -> all_distinct l = true -> StronglySorted Flt l.
Proof.
  induction 1 as [|x t Hs IH Hx]; intros Hd; [constructor|].
  destruct t as [|z t]; [constructor; constructor|].
  change (all_distinct (x :: z :: t)) with (negb (feq x z) && all_distinct (z :: t)) in Hd.
  apply andb_prop in Hd. destruct Hd as [Hxz Hd]. specialize (IH Hd).
  constructor; [exact IH|].
  inversion Hx as [|? ? Hxz' _]; subst. unfold Fle in Hxz'. apply fle_iff in Hxz'. destruct Hxz' as (N1 & N2 & Hle).
  assert (Hlt : Flt x z).
  { unfold Flt. apply flt_iff. repeat split; auto. apply negb_true_iff in Hxz.
    pose proof (feq_false _ _ N1 N2 Hxz). lia. }
  constructor; [exact Hlt|]. inversion IH as [|? ? _ Hzt]; subst.
  rewrite Forall_forall in *. intros w Hw. eapply flt_trans; [exact Hlt | apply Hzt; exact Hw].
Qed.

(* ---------------------------------------------------------------------------------------------- *)
(* one group *)

Lemma fadd_pos_shape sa ua x : 0 <= ua -> 0 <= ford (FFin sa ua) -> pos_shape x -> pos_shape (fadd (FFin sa ua) x).
Proof.
  intros Hua Hfa [(u & -> & Hu)| ->]; [|right; reflexivity].
  unfold fadd. assert (Hz : 0 <= sval sa ua + sval false u) by (destruct sa; cbn in *; lia).
  destruct (sval sa ua + sval false u =? 0) eqn:E.
  - left. exists 0. rewrite andb_false_r. pose proof UOVER_big. split; [reflexivity | lia].
  - apply Z.eqb_neq in E. replace (sval sa ua + sval false u <? 0) with false by (symmetry; apply Z.ltb_ge; lia).
    rewrite Z.abs_eq by lia. apply round_p2_pos_shape; lia.
Qed.

Lemma fint_pos_shape k : 0 <= k < 2 ^ 53 -> pos_shape (fint k).
Proof.
  intros Hk. left. exists (k * 2 ^ 1074). split; [reflexivity|]. destruct (int_representable k Hk) as [H _]. exact H.
Qed.

Section Plain.
Variables (orig keys : list fl).
Hypothesis HPre : Pre orig keys.
Hypothesis Hwf : Forall wf_fl orig.
Hypothesis Hsmall : lenZ keys + 1 < 2 ^ 53.

Let n := lenZ orig.

Lemma orig_nth_facts i : 0 <= i < n ->
  In (nthZ orig i FNaN) orig /\ is_nan (nthZ orig i FNaN) = false /\ wf_fl (nthZ orig i FNaN).
Proof.
  intros Hi. unfold nthZ. assert (Hin : In (nth (Z.to_nat i) orig FNaN) orig) by (apply nth_In; unfold n, lenZ in Hi; lia).
  destruct HPre as (_ & Hnn & _). rewrite Forall_forall in Hnn, Hwf. auto.
Qed.

Lemma orig_sorted_Z i j : 0 <= i <= j -> j < n -> Fle (nthZ orig i FNaN) (nthZ orig j FNaN).
Proof.
  intros Hij Hj. destruct (Z.eq_dec i j) as [->|Hne].
  - destruct (orig_nth_facts j ltac:(lia)) as (_ & Hnn & _). unfold Fle. apply fle_iff. repeat split; auto. lia.
  - destruct HPre as (Hs & _ & _). unfold nthZ. apply Hs. unfold n, lenZ in Hj. lia.
Qed.

Lemma group_end_cases i c :
  (i < n /\ group_end orig i c = nthZ orig i FNaN) \/
  (n <= i /\ group_end orig i c = fadd (fadd (group_begin orig i) (of_Z c)) (of_Z 1)).
Proof. unfold group_end. fold n. destruct (Z.ltb_spec i n); [left | right]; auto. Qed.

(* what plain_group says about a group whose index and size are in range *)
Record good_group (g : Z * Z) : Prop := {
  gg_cond : flt (group_begin orig (fst g)) fzero || fle (group_end orig (fst g) (snd g)) fzero ||
            is_inf (fmax (group_begin orig (fst g)) (group_end orig (fst g) (snd g))) = false;
  gg_valid : is_valid_range (group_begin orig (fst g)) (group_range orig g) (group_end orig (fst g) (snd g)) = true;
  gg_len : length (group_range orig g) = Z.to_nat (snd g);
  gg_strict : StronglySorted Flt (group_begin orig (fst g) :: group_range orig g ++ [group_end orig (fst g) (snd g)]);
  gg_finite : Forall (fun x => is_finite x = true) (group_range orig g);
  gg_begin_nonnan : is_nan (group_begin orig (fst g)) = false
}.

Lemma UINF_pos : 0 < UINF.
Proof. rewrite UINF_eq. apply pow2_pos'. lia. Qed.

Lemma good_from_shape g sb ub ue :
  group_begin orig (fst g) = FFin sb ub -> group_end orig (fst g) (snd g) = FFin false ue ->
  wf_fl (FFin sb ub) -> 0 <= ue < UOVER -> 0 <= ford (FFin sb ub) -> flt (FFin sb ub) (FFin false ue) = true ->
  1 <= snd g /\ snd g + 1 < 2 ^ 53 ->
  flt (FFin sb ub) fzero || fle (FFin false ue) fzero || is_inf (fmax (FFin sb ub) (FFin false ue)) = false ->
  is_valid_range (FFin sb ub) (get_range (FFin sb ub) (FFin false ue) (snd g)) (FFin false ue) = true ->
  good_group g.
Proof.
  intros Eb Ee Hbw Hue Hfb Hbe Hcc Hcond Hvalid.
  pose proof (range_length sb ub ue (snd g)) as Hlen.
  pose proof (range_In sb ub ue (snd g) Hbw Hue Hfb Hbe Hcc) as HIn.
  pose proof (range_weakly_sorted sb ub ue (snd g) Hbw Hue Hfb Hbe Hcc) as Hws.
  pose proof (limit_facts sb ub ue (snd g) Hbw Hue Hfb Hbe) as (L1 & L2 & L3).
  constructor; unfold group_range; rewrite ?Eb, ?Ee; auto.
  - apply sorted_distinct_strict; [|exact Hvalid]. constructor.
    + clear Hvalid Hlen. revert HIn Hws. generalize (get_range (FFin sb ub) (FFin false ue) (snd g)) as R.
      induction R as [|x R IHR]; intros HIn Hws; cbn [app]; [repeat constructor|].
      inversion Hws as [|? ? H1 H2]; subst. constructor.
      * apply IHR; [intros; apply HIn; right; assumption | assumption].
      * rewrite Forall_forall in *. intros z Hz. apply in_app_or in Hz. destruct Hz as [Hz|[<-|[]]]; [apply H2; exact Hz|].
        destruct (HIn x (or_introl eq_refl)) as (u & -> & Hu). unfold Fle. apply fle_iff. cbn [is_nan ford]. repeat split; auto. lia.
    + rewrite Forall_forall. intros z Hz. apply in_app_or in Hz. destruct Hz as [Hz|[<-|[]]].
      * destruct (HIn z Hz) as (u & -> & Hu). unfold Fle. apply fle_iff. cbn [is_nan]. repeat split; auto.
        cbn [ford] in *. lia.
      * apply flt_fle. exact Hbe.
  - rewrite Forall_forall. intros z Hz. destruct (HIn z Hz) as (u & -> & _). reflexivity.
Qed.

Lemma plain_group_good g : 0 <= fst g <= n -> 1 <= snd g <= lenZ keys -> plain_group orig g = true -> good_group g.
Proof.
  intros Hi Hc Hp. unfold plain_group in Hp.
  apply andb_prop in Hp. destruct Hp as [Hp Hvalid]. apply andb_prop in Hp. destruct Hp as [Hcond Hbe].
  apply negb_true_iff in Hcond. unfold group_range in Hvalid.
  remember (group_begin orig (fst g)) as b eqn:Eb. remember (group_end orig (fst g) (snd g)) as e eqn:Ee.
  pose proof Hcond as Hcond'.
  apply orb_false_iff in Hcond. destruct Hcond as [Hcond Hinf]. apply orb_false_iff in Hcond. destruct Hcond as [Hb0 He0].
  assert (Hbw : is_nan b = false /\ wf_fl b).
  { rewrite Eb. unfold group_begin. destruct (0 <? fst g) eqn:E.
    - apply Z.ltb_lt in E. destruct (orig_nth_facts (fst g - 1) ltac:(lia)) as (_ & H1 & H2). auto.
    - split; [reflexivity|]. unfold fzero, wf_fl, representable. split; [pose proof UOVER_big; lia | reflexivity]. }
  destruct Hbw as [Hbn Hbw].
  assert (Hfb : 0 <= ford b) by (apply flt_false in Hb0; auto; exact Hb0).
  pose proof Hbe as Hbe'. apply flt_iff in Hbe'. destruct Hbe' as (_ & Hen & Hlt).
  unfold fmax in Hinf. rewrite Hbe in Hinf.
  pose proof UINF_pos as HUI. pose proof UOVER_lt_UINF as HUU.
  assert (Hcc : 1 <= snd g /\ snd g + 1 < 2 ^ 53) by (unfold lenZ in *; lia).
  assert (Hue : exists ue, e = FFin false ue /\ 0 <= ue < UOVER).
  { destruct (group_end_cases (fst g) (snd g)) as [[E Heq]|[E Heq]]; rewrite <- Ee in Heq.
    - destruct (orig_nth_facts (fst g) ltac:(lia)) as (_ & _ & H2). rewrite <- Heq in H2.
      destruct e as [| |se ue]; try discriminate.
      destruct H2 as [Hr _]. apply fle_false in He0; auto. cbn [ford fzero] in He0.
      destruct se; [lia|]. eauto.
    - rewrite <- Eb in Heq.
      assert (Hsh : pos_shape e).
      { rewrite Heq. rewrite !of_Z_int by lia.
        destruct b as [| |sb ub]; try discriminate.
        - destruct neg; [cbn [ford] in Hfb; lia|]. right. reflexivity.
        - destruct Hbw as [Hr _].
          assert (S1 : pos_shape (fadd (FFin sb ub) (fint (snd g)))).
          { apply fadd_pos_shape; [lia | exact Hfb | apply fint_pos_shape; lia]. }
          destruct S1 as [(u1 & -> & Hu1)| ->]; [|right; reflexivity].
          apply fadd_pos_shape; [lia | cbn [ford]; lia | apply fint_pos_shape; lia]. }
      destruct Hsh as [(u & Hu & Hb)| Hu]; [eauto | rewrite Hu in Hinf; discriminate]. }
  destruct Hue as (ue & He & Hue). rewrite He in *.
  destruct b as [| |sb ub]; try discriminate.
  { cbn [ford] in Hlt, Hfb. destruct neg; lia. }
  apply (good_from_shape g sb ub ue); auto.
Qed.

(* ---------------------------------------------------------------------------------------------- *)
(* the work list along a chain of good groups *)

Fixpoint chain (lo : fl) (gs : list (Z * Z)) : Prop :=
  match gs with
  | [] => True
  | g :: rest => good_group g /\ 1 <= snd g /\ Fle lo (group_begin orig (fst g)) /\
                 chain (group_end orig (fst g) (snd g)) rest
  end.

Lemma adj_get_key_noadj prev i : adj_get_key orig (mkwl [] prev) i = nthZ orig i FNaN.
Proof. reflexivity. Qed.

Lemma sorted_app_Flt l1 l2 : StronglySorted Flt l1 -> StronglySorted Flt l2 ->
  (forall x y, In x l1 -> In y l2 -> Flt x y) -> StronglySorted Flt (l1 ++ l2).
Proof.
  induction 1 as [|x t Hs IH Hx]; intros H2 H12; cbn; [assumption|].
  constructor; [apply IH; [assumption | intros; apply H12; [right|]; assumption]|].
  rewrite Forall_forall in *. intros y Hy. apply in_app_or in Hy. destruct Hy as [Hy|Hy]; [apply Hx; exact Hy|].
  apply H12; [left; reflexivity | exact Hy].
Qed.

Lemma filter_none {A} (f : A -> bool) l : (forall x, In x l -> f x = false) -> filter f l = [].
Proof.
  induction l as [|x t IH]; intros H; cbn; [reflexivity|].
  rewrite (H x (or_introl eq_refl)). apply IH. intros; apply H; right; assumption.
Qed.

Lemma plain_fold gs : forall prev lo,
  (forall x, In x prev -> Flt x lo) -> StronglySorted Flt prev -> chain lo gs ->
  fold_left (fun r g => w <- r ;; prep_inserts_at_index orig w (fst g) (snd g)) gs (Ok (mkwl [] prev)) =
    Ok (mkwl [] (prev ++ concat (map (group_range orig) gs))) /\
  StronglySorted Flt (prev ++ concat (map (group_range orig) gs)).
Proof.
  induction gs as [|g rest IH]; intros prev lo Hlo Hs Hch; cbn [fold_left map concat].
  - rewrite app_nil_r. split; [reflexivity | exact Hs].
  - destruct Hch as (Hg & Hc1 & Hlob & Hrest).
    set (b := group_begin orig (fst g)) in *. set (e := group_end orig (fst g) (snd g)) in *.
    set (R := group_range orig g) in *.
    pose proof (gg_strict g Hg) as Hstrict. fold b e R in Hstrict.
    inversion Hstrict as [|? ? HRe HbR]; subst.
    assert (HRs : StronglySorted Flt R /\ forall x, In x R -> Flt x e).
    { clear - HRe. revert HRe. generalize R as l. induction l as [|x l IHl]; intros H; cbn in H.
      - split; [constructor | intros x []].
      - inversion H as [|? ? H1 H2]; subst. destruct (IHl H1) as [I1 I2]. split.
        + constructor; [exact I1|]. rewrite Forall_forall in *. intros z Hz. apply H2. apply in_or_app. left. exact Hz.
        + intros z [<-|Hz]; [|apply I2; exact Hz]. rewrite Forall_forall in H2. apply H2. apply in_or_app. right. left. reflexivity. }
    destruct HRs as [HRs HRe'].
    assert (HbR' : forall x, In x R -> Flt b x).
    { intros x Hx. rewrite Forall_forall in HbR. apply HbR. apply in_or_app. left. exact Hx. }
    assert (Hprev_b : forall x, In x prev -> Flt x b).
    { intros x Hx. eapply flt_fle_trans; [apply Hlo; exact Hx | exact Hlob]. }
    assert (Hsorted1 : StronglySorted Flt (prev ++ R)).
    { apply sorted_app_Flt; auto. intros x z Hx Hz. eapply flt_trans; [apply Hprev_b; exact Hx | apply HbR'; exact Hz]. }
    assert (Hstep : prep_inserts_at_index orig (mkwl [] prev) (fst g) (snd g) = Ok (mkwl [] (prev ++ R))).
    { unfold prep_inserts_at_index. replace (snd g <=? 0) with false by (symmetry; apply Z.leb_gt; lia).
      rewrite !adj_get_key_noadj.
      change (if 0 <? fst g then nthZ orig (fst g - 1) FNaN else fzero) with (group_begin orig (fst g)).
      change (if fst g <? lenZ orig then nthZ orig (fst g) FNaN
              else fadd (fadd (group_begin orig (fst g)) (of_Z (snd g))) (of_Z 1)) with (group_end orig (fst g) (snd g)).
      fold b e. pose proof (gg_cond g Hg) as Hcond. fold b e in Hcond. rewrite Hcond. cbn [adjs inss].
      change (get_range b e (snd g)) with R.
      rewrite (sl_update_sorted R prev Hsorted1).
      assert (Hir : sl_irange (prev ++ R) b e = R).
      { unfold sl_irange. rewrite filter_app. rewrite filter_none, filter_all; [reflexivity| |].
        - intros x Hx. apply andb_true_intro. split; [apply flt_fle, HbR'; exact Hx | apply flt_fle, HRe'; exact Hx].
        - intros x Hx. apply andb_false_intro1. specialize (Hprev_b x Hx). unfold Flt in Hprev_b.
          apply flt_iff in Hprev_b. destruct Hprev_b as (N1 & N2 & Hl). unfold fle. rewrite N1, N2. cbn.
          apply Z.leb_gt. exact Hl. }
      rewrite Hir. pose proof (gg_valid g Hg) as Hv. fold b e R in Hv. rewrite Hv. reflexivity. }
    cbn [bind]. rewrite Hstep.
    destruct (IH (prev ++ R) e) as [IH1 IH2]; [| exact Hsorted1 | exact Hrest |].
    + intros x Hx. apply in_app_or in Hx. destruct Hx as [Hx|Hx]; [|apply HRe'; exact Hx].
      eapply flt_trans; [apply Hprev_b; exact Hx|].
      rewrite Forall_forall in HbR. apply HbR. apply in_or_app. right. left. reflexivity.
    + rewrite <- app_assoc in IH1, IH2. split; assumption.
Qed.

End Plain.
