(* C34: the facts that depend on the regenerated zone data (the GristGen.Tzdata_gen files): every bundled zone passes
   zone_ok (vm_compute, one lemma per data shard), and the counterexample for the zoned date round trip. *)
From Coq Require Import ZArith List Bool Lia.
Import ListNotations.
Require Import Grist.Lib.PyPrelude Grist.Lib.PyList Grist.Model.Moment GristGen.Moment_gen Grist.Model.MomentTz.
Require Import GristGen.Tzdata_gen Grist.Proofs.Moment_proofs.
Open Scope Z_scope.

Lemma shard_1_ok : forallb zone_ok zones_shard_1 = true. Proof. vm_cast_no_check (eq_refl true). Qed.
Lemma shard_2_ok : forallb zone_ok zones_shard_2 = true. Proof. vm_cast_no_check (eq_refl true). Qed.
Lemma shard_3_ok : forallb zone_ok zones_shard_3 = true. Proof. vm_cast_no_check (eq_refl true). Qed.
Lemma shard_4_ok : forallb zone_ok zones_shard_4 = true. Proof. vm_cast_no_check (eq_refl true). Qed.
Lemma shard_5_ok : forallb zone_ok zones_shard_5 = true. Proof. vm_cast_no_check (eq_refl true). Qed.
Lemma shard_6_ok : forallb zone_ok zones_shard_6 = true. Proof. vm_cast_no_check (eq_refl true). Qed.
Lemma shard_7_ok : forallb zone_ok zones_shard_7 = true. Proof. vm_cast_no_check (eq_refl true). Qed.
Lemma shard_8_ok : forallb zone_ok zones_shard_8 = true. Proof. vm_cast_no_check (eq_refl true). Qed.

Theorem all_zones_ok : forallb zone_ok bundled_zones = true.
Proof.
  unfold bundled_zones. rewrite !forallb_app.
  rewrite shard_1_ok, shard_2_ok, shard_3_ok, shard_4_ok, shard_5_ok, shard_6_ok, shard_7_ok, shard_8_ok.
  reflexivity.
Qed.

Lemma bundled_zone_ok : forall z, In z bundled_zones -> zone_ok z = true.
Proof. intros z Hin. pose proof all_zones_ok as H. rewrite forallb_forall in H. apply H. exact Hin. Qed.

Lemma bundled_count : Z.of_nat (length bundled_zones) = bundled_zone_count /\
  fold_right (fun z acc => nZ z + acc) 0 bundled_zones = bundled_transition_count.
Proof. split; vm_compute; reflexivity. Qed.

(* The zoned date round trip fails on the unchanged code: Australia/Sydney, 2024-10-06 (day 20002).  DST starts
   at 02:00 local on that date, i.e. between local midnight (14:00 UTC the day before) and UTC midnight, and
   date_to_ts takes the offset in effect at UTC midnight (+11:00) although local midnight still has +10:00:
   the result is 2024-10-05 23:00 local. *)
Lemma sydney_date_example :
  let t := date_to_ts_zone 0 20002 tz_Australia_Sydney in
  adt_date (ts_to_dt 0 t tz_Australia_Sydney) = 20001 /\
  dt_local (ts_to_dt 0 t tz_Australia_Sydney) = date_to_ts 20002 - 3600000 * TICKS_PER_MS.
Proof. split; vm_compute; reflexivity. Qed.

Lemma date_zone_refuted : exists z d, In z bundled_zones /\
  adt_date (ts_to_dt 0 (date_to_ts_zone 0 d z) z) <> d.
Proof.
  assert (H : existsb (fun z => negb (adt_date (ts_to_dt 0 (date_to_ts_zone 0 20002 z) z) =? 20002)) bundled_zones = true)
    by (vm_compute; reflexivity).
  apply existsb_exists in H. destruct H as [z [Hin Hne]].
  exists z, 20002. split; [exact Hin|].
  apply negb_true_iff in Hne. apply Z.eqb_neq in Hne. exact Hne.
Qed.
