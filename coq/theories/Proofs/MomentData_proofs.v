(* C34: the facts that depend on the regenerated zone data (the GristGen.Tzdata_gen files): every bundled zone passes
   zone_ok (vm_compute, one lemma per data shard), and the counterexample for the zoned date round trip. *)
From Coq Require Import ZArith List Bool Lia.
Import ListNotations.
Require Import Grist.Lib.PyPrelude Grist.Lib.PyList Grist.Model.Moment GristGen.Moment_gen Grist.Model.MomentTz.
Require Import GristGen.Tzdata_gen Grist.Proofs.Moment_proofs.
Open Scope Z_scope.

Lemma shard_1_ok : forallb zone_ok zones_shard_1 = true. Proof. vm_cast_no_check (eq_refl true). Qed.
Lemma shard_2_ok : forallb zone_ok zones_shard_2 = true. Proof. vm_cast_no_check (eq_refl true). Qed.
Lemma shard_3_ok : forallb zone_ok zones_shard_3 = true. Proof. vm_cast_no_check (eq_refl true). Qed.
Lemma shard_4_ok : forallb zone_ok zones_shard_4 = true. Proof. vm_cast_no_check (eq_refl true). Qed.
Lemma shard_5_ok : forallb zone_ok zones_shard_5 = true. Proof. vm_cast_no_check (eq_refl true). Qed.
Lemma shard_6_ok : forallb zone_ok zones_shard_6 = true. Proof. vm_cast_no_check (eq_refl true). Qed.
Lemma shard_7_ok : forallb zone_ok zones_shard_7 = true. Proof. vm_cast_no_check (eq_refl true). Qed.
Lemma shard_8_ok : forallb zone_ok zones_shard_8 = true. Proof. vm_cast_no_check (eq_refl true). Qed.

Theorem all_zones_ok : forallb zone_ok bundled_zones = true.
Proof.
  unfold bundled_zones. rewrite !forallb_app.
  rewrite shard_1_ok, shard_2_ok, shard_3_ok, shard_4_ok, shard_5_ok, shard_6_ok, shard_7_ok, shard_8_ok.
  reflexivity.
Qed.

Lemma bundled_zone_ok : forall z, In z bundled_zones -> zone_ok z = true.
Proof. intros z Hin. pose proof all_zones_ok as H. rewrite forallb_forall in H. apply H. exact Hin. Qed.

Lemma bundled_count : Z.of_nat (length bundled_zones) = bundled_zone_count /\
  fold_right (fun z acc => nZ z + acc) 0 bundled_zones = bundled_transition_count.
Proof. split; vm_compute; reflexivity. Qed.

Theorem all_zones_date_ok : forallb zone_date_ok bundled_zones = true.
Proof. vm_cast_no_check (eq_refl true). Qed.

Lemma bundled_zone_date_ok : forall z, In z bundled_zones -> zone_date_ok z = true.
Proof. intros z Hin. pose proof all_zones_date_ok as H. rewrite forallb_forall in H. apply H. exact Hin. Qed.

(* Regression example for fix 8feac94 (known finding C34-date-to-ts-zone-offset): Australia/Sydney, 2024-10-06
   (day 20002; DST starts at 02:00 local that day).  The old code returned 2024-10-05 23:00 local. *)
Lemma sydney_date_example :
  let t := date_to_ts_zone 0 20002 tz_Australia_Sydney in
  date_exists tz_Australia_Sydney 20002 = true /\
  adt_date (ts_to_dt 0 t tz_Australia_Sydney) = 20002 /\
  dt_local (ts_to_dt 0 t tz_Australia_Sydney) = date_to_ts 20002.
Proof. repeat split; vm_compute; reflexivity. Qed.

(* A date that does not exist: Kwajalein skipped 1993-08-21 (day 8633) when it moved across the date line
   (-12:00 -> +12:00).  No instant has that local date, in particular there is no local midnight of it. *)
Lemma kwajalein_skipped_day :
  date_exists tz_Kwajalein 8633 = false /\
  (forall oob ts, adt_date (ts_to_dt oob ts tz_Kwajalein) <> 8633) /\
  (forall oob ts, dt_local (ts_to_dt oob ts tz_Kwajalein) <> date_to_ts 8633).
Proof.
  assert (Hok : zone_ok tz_Kwajalein = true) by (vm_compute; reflexivity).
  assert (Hne : date_exists tz_Kwajalein 8633 = false) by (vm_compute; reflexivity).
  split; [exact Hne|]. split.
  - intros oob ts Heq. rewrite (date_exists_complete _ Hok oob 8633 ts Heq) in Hne. discriminate.
  - intros oob ts Heq.
    assert (Hd : adt_date (ts_to_dt oob ts tz_Kwajalein) = 8633).
    { unfold adt_date. rewrite Heq. apply date_roundtrip. }
    rewrite (date_exists_complete _ Hok oob 8633 ts Hd) in Hne. discriminate.
Qed.
