(* C16: whole-document and history versions -- after rename_doc EVERY cell of EVERY table evaluates as before,
   and so after any sequence of renames. *)
From Coq Require Import ZArith List Bool Lia.
Import ListNotations.
Require Import Grist.Model.Renames Grist.Proofs.Renames_proofs Grist.Proofs.Renames_fresh_proofs.
Open Scope Z_scope.

(* ---- well-formedness (supported reference forms) is preserved by a rename ------------------------------------- *)
Section WfRename.
  Variable rt : name -> name.
  Variable rc : name -> name -> name.
  Hypothesis tab_inj : forall a b, name_eqb (rt a) (rt b) = name_eqb a b.
  Hypothesis col_inj : forall t a b, name_eqb (rc t a) (rc t b) = name_eqb a b.
  Variable d : doc.

  Notation rG := (rnG rt).
  Notation rd := (rename_doc rt rc d).

  Lemma is_some_map : forall (o : option name), match option_map rt o with Some _ => true | None => false end
                                               = match o with Some _ => true | None => false end.
  Proof. intros [x|]; reflexivity. Qed.

  Lemma wf_static_rn_mut :
    (forall e self G, wf_static rd (rt self) (rG G) (ren rt rc d self G e) = wf_static d self G e) /\
    (forall ks self G t, wf_keys rd (rt self) (rG G) (ren_keys rt rc d self G t ks) = wf_keys d self G ks).
  Proof.
    apply expr_keys_ind; try (intros; reflexivity).
    - (* ECol *) intros e IH c self G. cbn [ren wf_static]. rewrite IH, (infer_rn rt rc tab_inj col_inj).
      destruct (infer d self G e); reflexivity.
    - (* EId *) intros e IH self G. cbn [ren wf_static]. apply IH.
    - (* ELookup *) intros one t ks IH ob self G. rewrite ren_ELookup. cbn [wf_static]. apply IH.
    - (* EComp *) intros body IHb x src IHs self G. cbn [ren wf_static]. rewrite IHs, (comp_type_rn rt rc).
      change ((x, option_map rt (comp_type src)) :: rG G) with (rG ((x, comp_type src) :: G)). rewrite IHb. reflexivity.
    - (* ECompIf *) intros body IHb x src IHs cond IHc self G. cbn [ren wf_static]. rewrite IHs, (comp_type_rn rt rc).
      change ((x, option_map rt (comp_type src)) :: rG G) with (rG ((x, comp_type src) :: G)). rewrite IHb, IHc.
      reflexivity.
    - (* EPrevNext *) intros w e IH gb ob self G. cbn [ren wf_static]. rewrite IH, (infer_rn rt rc tab_inj col_inj).
      destruct (infer d self G e) as [t|]; [reflexivity|]. cbn. destruct gb; destruct ob; reflexivity.
    - (* EPrim1 *) intros f e IH self G. cbn [ren wf_static]. apply IH.
    - (* EPrim2 *) intros f a IHa b IHb self G. cbn [ren wf_static]. rewrite IHa, IHb. reflexivity.
    - (* EIf *) intros c IHc a IHa b IHb self G. cbn [ren wf_static]. rewrite IHc, IHa, IHb. reflexivity.
    - (* KCons *) intros k e IHe ks IHk self G t. rewrite ren_keys_KCons. cbn [wf_keys]. rewrite IHe, IHk. reflexivity.
  Qed.

  Lemma doc_wf_rename : doc_wf d -> doc_wf rd.
  Proof.
    intros Hwf tb' co' f' Htb Hco Hf. unfold rename_doc in Htb. apply in_map_iff in Htb.
    destruct Htb as [tb [E Htb]]. subst tb'. cbn [rn_table tcols tname] in *. apply in_map_iff in Hco.
    destruct Hco as [co [E Hco]]. subst co'. cbn [rn_column cformula] in Hf.
    destruct (cformula co) as [f|] eqn:Ef; [|discriminate]. cbn in Hf. inversion Hf; subst f'.
    pose proof (proj1 wf_static_rn_mut f (tname tb) []) as H. cbn [rnG map] in H. rewrite H.
    eapply Hwf; eauto.
  Qed.
End WfRename.

(* ---- one rename, the whole document ------------------------------------------------------------------------------ *)
(* what a renaming has to satisfy with respect to a document *)
Definition rename_ok (prim1 : Z -> val -> R val) (prim2 : Z -> val -> val -> R val)
                     (rt : name -> name) (rc : name -> name -> name) (d : doc) : Prop :=
  (forall a b, name_eqb (rt a) (rt b) = name_eqb a b) /\
  (forall t a b, name_eqb (rc t a) (rc t b) = name_eqb a b) /\
  (forall f v, prim1 f (rn_val rt v) = rn_res rt (prim1 f v)) /\
  (forall f a b, prim2 f (rn_val rt a) (rn_val rt b) = rn_res rt (prim2 f a b)) /\
  (forall tb co, In tb d -> In co (tcols tb) -> is_grp co = true ->
     name_eqb (rc (tname tb) (cname co)) GROUP = name_eqb (cname co) GROUP).

Theorem whole_document_proof : forall prim1 prim2 rt rc d,
  rename_ok prim1 prim2 rt rc d -> doc_wf d ->
  forall fuel t r c,
    cell prim1 prim2 (rename_doc rt rc d) fuel (rt t) r (rc t c) = rn_res rt (cell prim1 prim2 d fuel t r c).
Proof.
  intros prim1 prim2 rt rc d [H1 [H2 [H3 [H4 H5]]]] Hwf fuel t r c.
  apply (cell_rn rt rc prim1 prim2 H1 H2 H3 H4 d H5 Hwf).
Qed.

(* RenameColumn T a -> b, b fresh: every cell of every table, addressed by its (possibly new) name, is unchanged *)
Theorem rename_column_whole_document_proof : forall prim1 prim2 d T a b,
  doc_wf d -> group_ok d T a b -> fresh_col d T b ->
  forall fuel t r c, (t, c) <> (T, b) ->
    cell prim1 prim2 (rename_doc id_tab (col1 T a b) d) fuel t r (col1 T a b t c) = cell prim1 prim2 d fuel t r c.
Proof.
  intros prim1 prim2 d T a b Hwf Hgo Hfr fuel t r c Hne.
  rewrite (rename_doc_ext _ _ _ _ d (fresh_col_agree d T a b Hfr)). rewrite <- (colS_col1 T a b t c Hne).
  rewrite <- (rn_res_id (cell prim1 prim2 d fuel t r c)).
  apply (whole_document_proof prim1 prim2 id_tab (colS T a b) d); [|exact Hwf].
  split; [reflexivity|]. split; [apply colS_inj|].
  split; [intros g v; rewrite rn_val_id, rn_res_id; reflexivity|].
  split; [intros g x y; rewrite !rn_val_id, rn_res_id; reflexivity|].
  apply group_ok_stable. exact Hgo.
Qed.

(* RenameTable a -> b, b fresh: every cell of every table is unchanged up to the table name records carry *)
Theorem rename_table_whole_document_proof : forall d a b,
  doc_wf d -> fresh_tab d b ->
  forall fuel t r c, t <> b ->
    cell std_prim1 std_prim2 (rename_doc (ren1 a b) id_col d) fuel (ren1 a b t) r c
    = rn_res (swap a b) (cell std_prim1 std_prim2 d fuel t r c).
Proof.
  intros d a b Hwf Hfr fuel t r c Hne.
  rewrite (rename_doc_ext _ _ _ _ d (fresh_tab_agree d a b Hfr)). rewrite <- (swap_ren1 a b t Hne).
  apply (whole_document_proof std_prim1 std_prim2 (swap a b) id_col d); [|exact Hwf].
  split; [apply swap_inj|]. split; [reflexivity|].
  split; [intros; apply std_prim1_nat|]. split; [intros; apply std_prim2_nat; apply swap_inj|]. reflexivity.
Qed.

(* ---- RenameTable as the engine performs it (reference columns retyped to Int and back) ----------------------------- *)
Definition no_alt_text (d : doc) (a : name) : Prop :=
  forall tb co p, In tb d -> In co (tcols tb) -> targets (ctype co) a = true -> In p (cdata co) ->
    forall s, snd p <> VStr s.

Lemma retype_doc_id : forall d a, no_alt_text d a -> retype_doc a d = d.
Proof.
  intros d a H. unfold retype_doc. rewrite <- (map_id d) at 2. apply map_ext_in. intros tb Htb.
  destruct tb as [tn cols rows grps]. cbn [tname tcols trows tgroups]. f_equal.
  rewrite <- (map_id cols) at 2. apply map_ext_in. intros co Hco. unfold retype_column.
  destruct (targets (ctype co) a) eqn:Et; [|reflexivity]. destruct co as [cn ty f data]. cbn [cname ctype cformula cdata] in *.
  f_equal. rewrite <- (map_id data) at 2. apply map_ext_in. intros [r v] Hp. cbn [fst snd]. f_equal.
  pose proof (H (mktab tn cols rows grps) (mkcol cn ty f data) (r, v) Htb Hco Et Hp) as Hv. cbn in Hv.
  destruct ty; destruct v; try reflexivity; exfalso; eapply Hv; reflexivity.
Qed.

Theorem engine_rename_table_proof : forall d a b,
  no_alt_text d a -> doc_wf d -> fresh_tab d b ->
  forall fuel t r c, t <> b ->
    cell std_prim1 std_prim2 (engine_rename_table a b d) fuel (ren1 a b t) r c
    = rn_res (swap a b) (cell std_prim1 std_prim2 d fuel t r c).
Proof.
  intros d a b Hna Hwf Hfr fuel t r c Hne. unfold engine_rename_table. rewrite (retype_doc_id d a Hna).
  apply rename_table_whole_document_proof; assumption.
Qed.

(* ---- a history of renames --------------------------------------------------------------------------------------------- *)
Definition renaming := ((name -> name) * (name -> name -> name))%type.

Fixpoint rename_all (rs : list renaming) (d : doc) : doc :=
  match rs with [] => d | (rt, rc) :: t => rename_all t (rename_doc rt rc d) end.
Fixpoint tab_after (rs : list renaming) (t : name) : name :=
  match rs with [] => t | (rt, rc) :: r => tab_after r (rt t) end.
Fixpoint col_after (rs : list renaming) (t c : name) : name :=
  match rs with [] => c | (rt, rc) :: r => col_after r (rt t) (rc t c) end.
Fixpoint res_after (rs : list renaming) (v : R val) : R val :=
  match rs with [] => v | (rt, rc) :: r => res_after r (rn_res rt v) end.
(* every rename of the history is acceptable for the document as it is at that point *)
Fixpoint history_ok prim1 prim2 (rs : list renaming) (d : doc) : Prop :=
  match rs with
  | [] => True
  | (rt, rc) :: t => rename_ok prim1 prim2 rt rc d /\ history_ok prim1 prim2 t (rename_doc rt rc d)
  end.

Theorem history_proof : forall prim1 prim2 rs d,
  history_ok prim1 prim2 rs d -> doc_wf d ->
  forall fuel t r c,
    cell prim1 prim2 (rename_all rs d) fuel (tab_after rs t) r (col_after rs t c)
    = res_after rs (cell prim1 prim2 d fuel t r c).
Proof.
  intros prim1 prim2 rs. induction rs as [|[rt rc] rs IH]; intros d Hok Hwf fuel t r c; [reflexivity|].
  destruct Hok as [Hr Hrest]. cbn [rename_all tab_after col_after res_after].
  rewrite (IH (rename_doc rt rc d) Hrest).
  - rewrite (whole_document_proof prim1 prim2 rt rc d Hr Hwf). reflexivity.
  - destruct Hr as [H1 [H2 _]]. apply doc_wf_rename; assumption.
Qed.

(* the two kinds of single renames are acceptable (as transpositions, which is what they are on fresh names) *)
Lemma rename_ok_column : forall prim1 prim2 d T a b, group_ok d T a b -> rename_ok prim1 prim2 id_tab (colS T a b) d.
Proof.
  intros prim1 prim2 d T a b Hgo. split; [reflexivity|]. split; [apply colS_inj|].
  split; [intros g v; rewrite rn_val_id, rn_res_id; reflexivity|].
  split; [intros g x y; rewrite !rn_val_id, rn_res_id; reflexivity|]. apply group_ok_stable. exact Hgo.
Qed.

Lemma rename_ok_table : forall d a b, rename_ok std_prim1 std_prim2 (swap a b) id_col d.
Proof.
  intros d a b. split; [apply swap_inj|]. split; [reflexivity|].
  split; [intros; apply std_prim1_nat|]. split; [intros; apply std_prim2_nat; apply swap_inj|]. reflexivity.
Qed.

(* observed without table names, a history of renames changes nothing at all *)
Lemma obs_res_after : forall rs v, obs_res (res_after rs v) = obs_res v.
Proof.
  induction rs as [|[rt rc] rs IH]; intro v; [reflexivity|]. cbn [res_after]. rewrite IH. apply obs_res_rn.
Qed.
