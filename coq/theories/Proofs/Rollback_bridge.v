(* Bridging the code regenerated from /repo on every run (coq/gen/Rollback_gen.v, harness/rb2v.py; the row filters of
   action_summary.py in coq/gen/StoredLogPy_gen.v, harness/sl2v.py) to the hand-written model Model/Rollback.v. *)
From stdpp Require Import gmap.
Require Grist.Model.StoredLog GristGen.StoredLogPy_gen.
Require Import Grist.Lib.RbPrelude GristGen.Rollback_gen.
Require Import Grist.Model.Rollback Grist.Proofs.Rollback_proofs Grist.Proofs.Rollback_run Grist.Proofs.Rollback_witness.
Open Scope Z_scope.

(* ---------------------------------------------------------------------------------------------------------- *)
(* 1. Engine._get_undo_checkpoint / _undo_to_checkpoint *)
Definition model_checkpoint {A} (o : oacts A) : list nat :=
  [length (oa_calc o); length (oa_stored o); length (oa_undo o); length (oa_ret o)].

Lemma bridge_get_undo_checkpoint {A} (o : oacts A) : gen_get_undo_checkpoint o = model_checkpoint o.
Proof. reflexivity. Qed.

Lemma list_nat_eqb_eq a : forall b, list_nat_eqb a b = true <-> a = b.
Proof.
  induction a as [|x a IH]; intros [|y b]; simpl; split; try congruence; try discriminate.
  - intros H. apply andb_true_iff in H as [H1 H2]. apply Nat.eqb_eq in H1. apply IH in H2. congruence.
  - intros [= -> ->]. apply andb_true_iff. split; [apply Nat.eqb_refl|apply IH; reflexivity].
Qed.

(* out_actions grew from o0 by the given suffixes (stored and direct run in parallel) *)
Definition grown {A} (o0 : oacts A) (ec es ed eu er : list A) : oacts A :=
  Build_oacts (oa_calc o0 ++ ec) (oa_stored o0 ++ es) (oa_direct o0 ++ ed) (oa_undo o0 ++ eu) (oa_ret o0 ++ er).

Lemma app_length_same {A} (l e : list A) : length (l ++ e) = length l -> e = [].
Proof. rewrite app_length. destruct e; [reflexivity|simpl; lia]. Qed.

(* the model's revert: exactly the undo actions appended since the checkpoint are handed to ApplyUndoActions, and
   out_actions is put back to what it was *)
Lemma bridge_undo_to_checkpoint {A} (o0 : oacts A) ec es ed eu er :
  length (oa_direct o0) = length (oa_stored o0) ->
  (ec, es, eu, er) <> ([], [], [], []) ->
  gen_undo_to_checkpoint (gen_get_undo_checkpoint o0) (grown o0 ec es ed eu er) = (Some eu, o0).
Proof.
  intros Hd Hne. unfold gen_undo_to_checkpoint.
  destruct (list_nat_eqb _ _) eqn:E.
  { exfalso. apply list_nat_eqb_eq in E. unfold gen_get_undo_checkpoint, grown in E. simpl in E.
    injection E as E1 E2 E3 E4. apply app_length_same in E1, E2, E3, E4. subst. apply Hne. reflexivity. }
  unfold gen_get_undo_checkpoint, grown. simpl. rewrite !take_app, drop_app, <- Hd, take_app.
  destruct o0; reflexivity.
Qed.

Lemma bridge_undo_to_checkpoint_nothing {A} (o0 : oacts A) ed :
  gen_undo_to_checkpoint (gen_get_undo_checkpoint o0) (grown o0 [] [] ed [] []) = (None, grown o0 [] [] ed [] []).
Proof.
  unfold gen_undo_to_checkpoint. replace (list_nat_eqb _ _) with true; [reflexivity|]. symmetry. apply list_nat_eqb_eq.
  unfold gen_get_undo_checkpoint, grown. simpl. rewrite !app_nil_r. reflexivity.
Qed.

(* the generated function selects what Model/Rollback.v's `rollback` replays *)
Theorem code_rollback ord (st : mstate) (o0 : oacts action) u0 ua ec es ed er :
  oa_undo o0 = u0 -> ms_undo st = u0 ++ ua -> length (oa_direct o0) = length (oa_stored o0) ->
  (ec, es, ua, er) <> ([], [], [], []) ->
  rollback ord (length u0) st
  = replay ord (restore_schema st)
      (rev (default [] (fst (gen_undo_to_checkpoint (gen_get_undo_checkpoint o0) (grown o0 ec es ed ua er))))).
Proof.
  intros Hu Hst Hd Hne. rewrite (bridge_undo_to_checkpoint o0 ec es ed ua er Hd Hne). simpl.
  unfold rollback. rewrite Hst, drop_app. reflexivity.
Qed.

(* ---------------------------------------------------------------------------------------------------------- *)
(* 2. the order of the effects of the record doc actions: the generated order (without the checks that only raise) is
   the order of the model's micro-steps *)
Definition okind_of (m : mstep) : option okind :=
  match m with
  | MUndo _ => Some OUndo
  | MSum _ => Some OSum
  | MAddRow _ _ | MDelRow _ _ | MSetCell _ _ _ _ | MSetRows _ _ | MSetData _ _ _ | MClearRows _ | MClearCol _ _ => Some OMut
  | _ => None
  end.
Definition okind_eqb (a b : okind) : bool :=
  match a, b with
  | OAssert, OAssert | OResolve, OResolve | OUndo, OUndo | OSum, OSum | OMut, OMut => true
  | _, _ => false end.
Fixpoint dedup_k (l : list okind) : list okind :=
  match l with
  | a :: (b :: _) as l' => if okind_eqb a b then dedup_k l' else a :: dedup_k l'
  | _ => l
  end.
Definition order_of (l : list mstep) : list okind := dedup_k (omap okind_of l).
Definition is_check (k : okind) : bool := match k with OAssert | OResolve => true | _ => false end.
Definition effects (l : list okind) : list okind := List.filter (fun k => negb (is_check k)) l.

Lemma bridge_order_BulkAddRecord :
  order_of (steps_of w_ord w_doc (BulkAddRecord T [3; 4] [(A, [5; 6]); (C, [1; 2])])) = effects gen_order_BulkAddRecord.
Proof. vm_compute. reflexivity. Qed.
Lemma bridge_order_BulkUpdateRecord :
  order_of (steps_of w_ord w_doc (BulkUpdateRecord T [1; 2] [(A, [5; 6]); (C, [1; 2])])) = effects gen_order_BulkUpdateRecord.
Proof. vm_compute. reflexivity. Qed.
Lemma bridge_order_BulkRemoveRecord :
  order_of (steps_of w_ord w_doc (BulkRemoveRecord T [1; 2])) = effects gen_order_BulkRemoveRecord.
Proof. vm_compute. reflexivity. Qed.
Lemma bridge_order_ReplaceTableData :
  order_of (steps_of w_ord w_doc (ReplaceTableData T [1; 5] [(A, [5; 6])])) = effects gen_order_ReplaceTableData.
Proof. vm_compute. reflexivity. Qed.
(* the checks come first in the code; in the model a failing check is the single step MFail, before any effect *)
Lemma bridge_checks_first :
  hd OMut gen_order_BulkAddRecord = OAssert /\ steps_of w_ord w_doc (BulkAddRecord T [1] []) = [MFail] /\
  firstn 2 gen_order_BulkUpdateRecord = [OAssert; OResolve] /\
  steps_of w_ord w_doc (BulkUpdateRecord T [7] []) = [MFail] /\
  order_of (steps_of w_ord w_doc (BulkUpdateRecord T [1] [(N, [5])])) = [].
Proof. vm_compute. repeat split; reflexivity. Qed.

(* ---------------------------------------------------------------------------------------------------------- *)
(* 3. the except branch of Engine.apply_user_actions, as Model/Rollback.v's rollback_flush has it: the calc deltas are
   flushed UNCONDITIONALLY (f80d48c; failures of the flush itself are swallowed), then everything since the checkpoint
   taken before the loop is reverted, then (only if the schema was touched, errors swallowed) the schema is checked,
   then the original exception is re-raised *)
Definition model_except_branch : list (eguard * ecall) :=
  [(GTry, CFlush); (GAlways, CUndoToCheckpoint); (GTrySchema, CAssertSchema); (GAlways, CReraise)].
Lemma bridge_except_branch : gen_except_branch = model_except_branch.
Proof. reflexivity. Qed.

(* rollback_flush is that sequence: flush (front part, undo list, appended part), then replay newest first *)
Lemma rollback_flush_is_flush_then_revert ord st log :
  rollback_flush ord st log
  = replay ord (restore_schema st) (rev (fst (flush_undo log) ++ ms_undo st ++ snd (flush_undo log))).
Proof. reflexivity. Qed.

(* 4. where the flushed restoring updates go *)
Definition model_undo_half : list (upos * urows * unames) :=
  [(PAppend, RPreserved, NLatest); (PFront, RGone, NOriginal)].
Lemma bridge_undo_half : gen_undo_half = model_undo_half /\ gen_flush_target = FlushIntoStoredAndUndo.
Proof. split; reflexivity. Qed.

(* ... which is what changes_to_undo does: nothing for a created column, else an update of the gone rows under the
   ORIGINAL names in the front part and one of the preserved rows under the latest (root) names in the appended part *)
Lemma changes_to_undo_positions sm t td c m :
  changes_to_undo sm t td c m = ([], []) \/
  exists gone pres vg vp,
    changes_to_undo sm t td c m =
    (match gone with [] => [] | _ => [BulkUpdateRecord (rn_original t (sm_renames sm)) gone [(rn_original c (td_renames td), vg)]] end,
     match pres with [] => [] | _ => [BulkUpdateRecord (root t) pres [(root c, vp)]] end).
Proof.
  unfold changes_to_undo. destruct (_ && _); [left; reflexivity|right]. do 4 eexists. reflexivity.
Qed.

(* 5. the new-row / gone-row filters, translated from action_summary.py by harness/sl2v.py, are the filters of
   changes_to_undo over the presence maps *)
Lemma aget_list_to_map (l : list (Z * bool)) (r : Z) :
  StoredLog.aget Z.eqb r l = (list_to_map l : gmap Z bool) !! r.
Proof.
  induction l as [|[k v] l IH]; [reflexivity|]. simpl. destruct (Z.eqb_spec k r) as [->|Hne].
  - rewrite lookup_insert. reflexivity.
  - rewrite lookup_insert_ne by exact Hne. exact IH.
Qed.

Lemma List_filter_stdpp {A} (P : A -> Prop) `{forall x, Decision (P x)} (f : A -> bool) (l : list A) :
  (forall x, f x = true <-> P x) -> List.filter f l = filter P l.
Proof.
  intros Hf. induction l as [|x l IH]; [reflexivity|]. simpl. rewrite filter_cons. destruct (decide (P x)) as [Hp|Hn].
  - rewrite (proj2 (Hf x) Hp), IH. reflexivity.
  - destruct (f x) eqn:E; [exfalso; apply Hn, Hf, E|exact IH].
Qed.

Lemma py_ne_false_spec (o : option bool) : StoredLog.py_ne_false o = true <-> o <> Some false.
Proof. destruct o as [[|]|]; simpl; split; congruence. Qed.

Lemma bridge_filter_out_new_rows tables t td rows :
  StoredLog.aget StoredLog.str_eqb t tables = Some td ->
  StoredLogPy_gen.filter_out_new_rows_py tables t rows
  = filter (fun r => (list_to_map (StoredLog.td_pb td) : gmap Z bool) !! r <> Some false) rows.
Proof.
  intros Ht. unfold StoredLogPy_gen.filter_out_new_rows_py. rewrite Ht. apply List_filter_stdpp.
  intros r. rewrite aget_list_to_map. apply py_ne_false_spec.
Qed.

Lemma bridge_filter_out_gone_rows tables t td rows :
  StoredLog.aget StoredLog.str_eqb t tables = Some td ->
  StoredLogPy_gen.filter_out_gone_rows_py tables t rows
  = filter (fun r => (list_to_map (StoredLog.td_pa td) : gmap Z bool) !! r <> Some false) rows.
Proof.
  intros Ht. unfold StoredLogPy_gen.filter_out_gone_rows_py. rewrite Ht. apply List_filter_stdpp.
  intros r. rewrite aget_list_to_map. apply py_ne_false_spec.
Qed.

(* ---------------------------------------------------------------------------------------------------------- *)
(* 6. Engine.get_formula_value (C29): the checkpoint and the set of records marked for auto-removal are both saved
   UNCONDITIONALLY before the evaluation of the cell and both put back UNCONDITIONALLY in the finally (b24421a): the
   model's read-only evaluation leaves neither doc actions nor auto-remove marks behind. *)
Definition model_get_formula_value : list (eguard * fcall) :=
  [(GAlways, FCheckpoint); (GAlways, FSaveAutoRemoves); (GAlways, FEvaluate); (GAlways, FUndoToCheckpoint);
   (GAlways, FRestoreAutoRemoves)].
Lemma bridge_get_formula_value : gen_get_formula_value = model_get_formula_value.
Proof. reflexivity. Qed.
