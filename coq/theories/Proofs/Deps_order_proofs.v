(* invalidate_deps: top-level specification, and independence of the order in which the edges
   (a Python set: hash order) are visited. *)
From Coq Require Import ZArith List Bool Lia.
Import ListNotations.
Require Import Grist.Model.Deps Grist.Model.DepsSpec Grist.Model.DepsExec.
Require Import Grist.Proofs.Deps_closure_proofs Grist.Proofs.Deps_inval_proofs.
Open Scope Z_scope.

(* ---- get_affected_rows on explicit row lists -------------------------------------------- *)

Fixpoint aff_l (R : relst) (r : rel) (l : list row) : list row :=
  match r with
  | RId => l
  | RSingle => l
  | RRef c => flat_map (inv R c) l
  | RComp a b => aff_l R a (aff_l R b l)
  | RLook m n => rows_by_keys (lkrows R m n) (flat_map (lkkeys R m) l)
  end.

Lemma affected_rows R via l : affected R via (Rows l) = Rows (aff_l R via l).
Proof.
  revert l. induction via as [| | c | a IHa b IHb | m n]; intros l; cbn [affected aff_l]; auto.
  rewrite IHb, IHa. reflexivity.
Qed.

Lemma rows_by_keys_In rk keys r :
  In r (rows_by_keys rk keys) <-> exists k, In (r, k) rk /\ In k keys.
Proof.
  unfold rows_by_keys. rewrite in_map_iff. split.
  - intros ([r' k] & E & H). cbn [fst] in E. subst r'. apply filter_In in H. destruct H as [H1 H2].
    cbn [snd] in H2. apply zmem_In in H2. eauto.
  - intros (k & H1 & H2). exists (r, k). split; auto. apply filter_In. split; auto.
    cbn [snd]. apply zmem_In. exact H2.
Qed.

(* the image of a row list is the union of the images of its rows *)
Lemma aff_l_In R via : forall l r, In r (aff_l R via l) <-> exists q, In q l /\ In r (aff_l R via [q]).
Proof.
  induction via as [| | c | a IHa b IHb | m n]; intros l r; cbn [aff_l].
  - split; [intros H; exists r; cbn; auto | intros (q & H & [-> | []]); auto].
  - split; [intros H; exists r; cbn; auto | intros (q & H & [-> | []]); auto].
  - rewrite in_flat_map. split.
    + intros (q & H1 & H2). exists q. split; auto. cbn. rewrite app_nil_r. exact H2.
    + intros (q & H1 & H2). cbn in H2. rewrite app_nil_r in H2. eauto.
  - rewrite IHa. split.
    + intros (q & H1 & H2). apply IHb in H1. destruct H1 as (p & P1 & P2).
      exists p. split; auto. apply IHa. eauto.
    + intros (p & P1 & P2). apply IHa in P2. destruct P2 as (q & Q1 & Q2).
      exists q. split; auto. apply IHb. eauto.
  - rewrite rows_by_keys_In. split.
    + intros (k & H1 & H2). apply in_flat_map in H2. destruct H2 as (q & Q1 & Q2).
      exists q. split; auto. apply rows_by_keys_In. exists k. split; auto.
      cbn. rewrite app_nil_r. exact Q2.
    + intros (q & Q1 & Q2). apply rows_by_keys_In in Q2. destruct Q2 as (k & K1 & K2).
      cbn in K2. rewrite app_nil_r in K2. exists k. split; auto. apply in_flat_map. eauto.
Qed.

Lemma in_rowset_rows r l : in_rowset r (Rows l) = true <-> In r l.
Proof. cbn [in_rowset]. apply zmem_In. Qed.

Lemma Inv_init g : Inv (g_edges g) (g_rel g) g.
Proof. constructor; auto. apply agree_refl. Qed.

(* batches reachable from the start batch (the start batch itself only with include_self) *)
Inductive RBi (E : list edge) (R : relst) (n0 : node) (x0 : rowset) (incl : bool) : node -> rowset -> Prop :=
| rbi_seed : incl = true -> RBi E R n0 x0 incl n0 x0
| rbi_first e : incl = false -> In e E -> e_in e = n0 ->
    RBi E R n0 x0 incl (e_out e) (affected R (e_rel e) x0)
| rbi_step n x e : RBi E R n0 x0 incl n x -> In e E -> e_in e = n ->
    RBi E R n0 x0 incl (e_out e) (affected R (e_rel e) x).

Theorem invalidate_deps_spec fuel g n x incl g' :
  owner_ok (g_edges g) -> invalidate_deps fuel g n x incl = Some g' ->
  mono (g_map g) (g_map g') /\
  (if incl then batch_in (g_map g') (n, x) else closed_batch (g_edges g) (g_rel g) (g_map g') n x) /\
  new_closed (g_edges g) (g_rel g) (RBi (g_edges g) (g_rel g) n x incl) (g_map g) (g_map g').
Proof.
  intros Ho H. unfold invalidate_deps in H.
  assert (Ps : forall n1 x1 e, RBi (g_edges g) (g_rel g) n x incl n1 x1 -> In e (g_edges g) -> e_in e = n1 ->
               RBi (g_edges g) (g_rel g) n x incl (e_out e) (affected (g_rel g) (e_rel e) x1)).
  { intros. eapply rbi_step; eauto. }
  destruct incl.
  - destruct (inval_post _ _ Ho _ Ps fuel g _ g' H (Inv_init g)) as (_ & Hm & Hb & Hc).
    + constructor; [| constructor]. right. cbn [fst snd]. apply rbi_seed. reflexivity.
    + inversion Hb; subst. auto.
  - destruct fuel as [| f]; [discriminate |]. cbn [inval negb] in H.
    destruct (inval_post _ _ Ho _ Ps f g _ g' H (Inv_init g)) as (_ & Hm & Hb & Hc).
    + apply Forall_app. split; [| constructor].
      apply Forall_forall. intros b Hb. rewrite <- in_rev in Hb. unfold pushes in Hb.
      apply in_map_iff in Hb. destruct Hb as (e & <- & He). apply filter_In in He.
      destruct He as [He Hn]. apply Z.eqb_eq in Hn. right. cbn [fst snd].
      apply rbi_first; auto.
    + apply Forall_app in Hb. destruct Hb as [Hb _]. repeat split; auto; try apply Hm.
      eapply pushed_closed; eauto. apply Inv_init.
Qed.

(* ---- order irrelevance -------------------------------------------------------------------- *)

(* the recompute map is closed under the recorded edges: dependents of dirty cells are dirty (true of
   the empty map, and kept by invalidate_deps) *)
Definition closed_cells (E : list edge) (R : relst) (M : mapT) : Prop :=
  forall d e r, in_map M d = true -> In e E -> e_in e = fst d ->
    In r (aff_l R (e_rel e) [snd d]) -> in_map M (e_out e, r) = true.

Lemma RBi_rows E R n0 l0 incl n x : RBi E R n0 (Rows l0) incl n x -> exists l, x = Rows l.
Proof.
  induction 1 as [| e | n x e _ [l ->]].
  - eauto.
  - rewrite affected_rows. eauto.
  - rewrite affected_rows. eauto.
Qed.

Section Order.
Variables (E1 E2 : list edge) (R : relst) (M : mapT) (N1 N2 : list node).
Hypothesis Hsame : forall e, In e E1 <-> In e E2.
Hypothesis Ho1 : owner_ok E1.
Hypothesis Hclosed : closed_cells E1 R M.
Variables (n0 : node) (l0 : list row) (incl : bool) (f1 f2 : nat) (g1 g2 : gst).
Hypothesis H1 : invalidate_deps f1 (mkG E1 R M N1) n0 (Rows l0) incl = Some g1.
Hypothesis H2 : invalidate_deps f2 (mkG E2 R M N2) n0 (Rows l0) incl = Some g2.

Lemma Ho2 : owner_ok E2.
Proof. intros e He. apply Ho1. apply Hsame. exact He. Qed.

Lemma reach_in_g2 n x : RBi E1 R n0 (Rows l0) incl n x -> batch_in (g_map g2) (n, x).
Proof.
  destruct (invalidate_deps_spec f2 (mkG E2 R M N2) n0 (Rows l0) incl g2 Ho2 H2) as (Hm & Hs & Hc). cbn [g_edges g_rel g_map] in *.
  assert (Step : forall n l e, batch_in (g_map g2) (n, Rows l) -> In e E1 -> e_in e = n ->
                 batch_in (g_map g2) (e_out e, affected R (e_rel e) (Rows l))).
  { intros n1 l e Hb He Hn r Hr. cbn [fst snd] in *. rewrite affected_rows in Hr.
    apply in_rowset_rows in Hr. apply aff_l_In in Hr. destruct Hr as (q & Hq & Hr).
    assert (Hd : in_map (g_map g2) (n1, q) = true) by (apply Hb; apply in_rowset_rows; exact Hq).
    destruct (in_map M (n1, q)) eqn:X.
    - apply Hm. apply (Hclosed (n1, q) e r X He Hn Hr).
    - destruct (Hc (n1, q) Hd X) as (x2 & Hx2 & Hp2 & Hcb). cbn [fst snd] in *.
      destruct (RBi_rows _ _ _ _ _ _ _ Hp2) as [l2 ->].
      apply (Hcb e (proj1 (Hsame e) He) Hn). cbn [snd]. rewrite affected_rows.
      apply in_rowset_rows. apply aff_l_In. exists q. split; auto. apply in_rowset_rows. exact Hx2. }
  induction 1 as [Hi | e Hi He Hn | n x e Hr IH He Hn].
  - rewrite Hi in Hs. exact Hs.
  - rewrite Hi in Hs. apply (Hs e (proj1 (Hsame e) He) Hn).
  - destruct (RBi_rows _ _ _ _ _ _ _ Hr) as [l ->]. apply (Step n l e IH He Hn).
Qed.

Lemma order_le c : in_map (g_map g1) c = true -> in_map (g_map g2) c = true.
Proof.
  intros Hc1.
  destruct (invalidate_deps_spec f1 (mkG E1 R M N1) n0 (Rows l0) incl g1 Ho1 H1) as (_ & _ & Hc). cbn [g_edges g_rel g_map] in *.
  destruct (invalidate_deps_spec f2 (mkG E2 R M N2) n0 (Rows l0) incl g2 Ho2 H2) as (Hm2 & _ & _). cbn [g_edges g_rel g_map] in *.
  destruct (in_map M c) eqn:X; [apply Hm2; exact X |].
  destruct (Hc c Hc1 X) as (x & Hx & Hp & _).
  pose proof (reach_in_g2 _ _ Hp) as Hb. specialize (Hb (snd c) Hx). cbn [fst] in Hb.
  destruct c. exact Hb.
Qed.

End Order.

(* the hypothesis is an invariant of a sequence of invalidations: a closed map stays closed *)
Theorem invalidate_keeps_closed fuel g n l incl g' :
  owner_ok (g_edges g) -> closed_cells (g_edges g) (g_rel g) (g_map g) ->
  invalidate_deps fuel g n (Rows l) incl = Some g' ->
  closed_cells (g_edges g) (g_rel g) (g_map g').
Proof.
  intros Ho Hcl H d e r Hd He Hn Hr.
  destruct (invalidate_deps_spec _ _ _ _ _ _ Ho H) as (Hm & _ & Hc).
  destruct (in_map (g_map g) d) eqn:X.
  - apply Hm. apply (Hcl d e r X He Hn Hr).
  - destruct (Hc d Hd X) as (y & Hy & Hp & Hcb).
    destruct (RBi_rows _ _ _ _ _ _ _ Hp) as [l2 ->].
    apply (Hcb e He Hn). cbn [snd]. rewrite affected_rows. apply in_rowset_rows.
    apply aff_l_In. exists (snd d). split; auto. apply in_rowset_rows. exact Hy.
Qed.

(* visiting the in-edges of a node in another order (or the same set of edges stored in another
   order) gives the same recompute_map *)
Theorem invalidate_order_irrelevant E1 E2 R M N1 N2 n0 l0 incl f1 f2 g1 g2 :
  (forall e, In e E1 <-> In e E2) -> owner_ok E1 -> closed_cells E1 R M ->
  invalidate_deps f1 (mkG E1 R M N1) n0 (Rows l0) incl = Some g1 ->
  invalidate_deps f2 (mkG E2 R M N2) n0 (Rows l0) incl = Some g2 ->
  forall c, in_map (g_map g1) c = in_map (g_map g2) c.
Proof.
  intros Hs Ho Hc H1 H2 c.
  assert (Hs' : forall e, In e E2 <-> In e E1) by (intros e; symmetry; apply Hs).
  assert (Ho' : owner_ok E2) by (intros e He; apply Ho; apply Hs; exact He).
  assert (Hc' : closed_cells E2 R M).
  { intros d e r Hd He. apply Hc; auto. apply Hs. exact He. }
  destruct (in_map (g_map g1) c) eqn:A.
  - symmetry. eapply (order_le E1 E2); eauto.
  - destruct (in_map (g_map g2) c) eqn:B; auto.
    rewrite (order_le E2 E1 R M N2 N1 Hs' Ho' Hc' n0 l0 incl f2 f1 g2 g1 H2 H1 c B) in A. discriminate.
Qed.
